(* Parametric model of babyjub/babyjub.go's projective arithmetic:
   PointProjective.Add (add-2008-bbjlp with the code's temporaries),
   PointProjective.Affine, Point.Projective and the double-and-add loop of
   Point.Mul.  Field operations are the value-level meaning of ff.Element
   operations (C05 ties the limb code to these). *)
From Coq Require Import ZArith List.
From Verif Require Import Lib.Powmod Spec.Edwards.
Local Open Scope Z_scope.

Definition ppoint := (Z * Z * Z)%type.

Section Core.
  Variables p a d : Z.

  Definition fmul (x y : Z) : Z := (x * y) mod p.
  Definition fadd (x y : Z) : Z := (x + y) mod p.
  Definition fsub (x y : Z) : Z := (x - y) mod p.

  (* func (p *PointProjective) Add(q, o *PointProjective) *)
  Definition padd (P Q : ppoint) : ppoint :=
    let '(x1, y1, z1) := P in
    let '(x2, y2, z2) := Q in
    let a_ := fmul z1 z2 in
    let b := fmul a_ a_ in
    let c := fmul x1 x2 in
    let d_ := fmul y1 y2 in
    let e := fmul d c in
    let e := fmul e d_ in
    let f := fsub b e in
    let g := fadd b e in
    let x1y1 := fadd x1 y1 in
    let x2y2 := fadd x2 y2 in
    let x3 := fmul x1y1 x2y2 in
    let x3 := fsub x3 c in
    let x3 := fsub x3 d_ in
    let x3 := fmul x3 a_ in
    let x3 := fmul x3 f in
    let ac := fmul a c in
    let y3 := fsub d_ ac in
    let y3 := fmul y3 a_ in
    let y3 := fmul y3 g in
    let z3 := fmul f g in
    (x3, y3, z3).

  (* func (p *PointProjective) Affine(): Z = 0 is mapped to (0,0) *)
  Definition paffine (P : ppoint) : point :=
    let '(x, y, z) := P in
    if Z.eqb z 0 then (0, 0)
    else let zinv := finv p z in (fmul x zinv, fmul y zinv).

  (* func (p *Point) Projective(): SetBigInt reduces any integer mod p *)
  Definition pproj (P : point) : ppoint :=
    let '(x, y) := P in (x mod p, y mod p, 1).

  (* big.Int.BitLen: bit length of |s| *)
  Definition bitlen (s : Z) : Z :=
    if Z.eqb s 0 then 0 else Z.log2 (Z.abs s) + 1.

  (* the loop of Point.Mul: for i := 0; i < s.BitLen(); i++ { if s.Bit(i) == 1
     { res = res + exp }; exp = exp + exp }.  big.Int.Bit is two's complement
     for negative s, which is what Z.testbit gives. *)
  Fixpoint mul_loop (n : nat) (i : Z) (s : Z) (res ex : ppoint) : ppoint :=
    match n with
    | O => res
    | S n' =>
        let res' := if Z.testbit s i then padd res ex else res in
        mul_loop n' (i + 1) s res' (padd ex ex)
    end.

  Definition pmul (s : Z) (P : point) : point :=
    paffine (mul_loop (Z.to_nat (bitlen s)) 0 s (0, 1, 1) (pproj P)).
End Core.

(* babyjub/eddsa.go and babyjub/helpers.go at value level, written over the
   curve model (Model/BabyJub.v) and over three externally supplied hash
   functions: [blake512] (github.com/dchest/blake512 through
   babyjub.Blake512), [poseidon5] (poseidon.Hash on five elements) and
   [mimc7h] (mimc7.Hash(arr, nil)).  Theorems quantify over the functions or
   instantiate them with the Gallina specifications (Spec/Blake512.v,
   Model/Poseidon.v, Model/Mimc7.v); the extracted driver instantiates them
   with the same Gallina code.

   Go values are modelled as follows: [32]byte / [64]byte / []byte -> bytes
   (list Z); *big.Int -> Z; *Point / PublicKey -> point; Signature -> (point * Z);
   (T, error) -> res T.  The receiver-store behaviour of the pointer methods is
   modelled separately in Model/Effects.v. *)
From Coq Require Import ZArith List Bool.
From Verif Require Import Lib.Params Lib.Octets Spec.Edwards
  Model.Outcome Model.Utils Model.BabyJubCore Model.BabyJub.
From Verif Require Gen.CurveConsts.
Import ListNotations.
Local Open Scope Z_scope.

Definition signature := (point * Z)%type.

(* ---- encodings that do not depend on a hash ------------------------------ *)

(* func pruneBuffer(buf *[32]byte): buf[0] &= 0xF8; buf[31] &= 0x7F; buf[31] |= 0x40.
   The three masks are read from the regenerated literals of the function. *)
Definition prune_m0 : Z := nth 1 Gen.CurveConsts.lits_pruneBuffer 0.
Definition prune_m31a : Z := nth 3 Gen.CurveConsts.lits_pruneBuffer 0.
Definition prune_m31b : Z := nth 5 Gen.CurveConsts.lits_pruneBuffer 0.
Definition pruneBuffer (buf : bytes) : bytes :=
  let buf := set_nth 0 (Z.land (nth 0 buf 0) prune_m0) buf in
  let buf := set_nth 31 (Z.land (nth 31 buf 0) prune_m31a) buf in
  set_nth 31 (Z.lor (nth 31 buf 0) prune_m31b) buf.

(* func (s *Signature) Compress() SignatureComp *)
Definition SigCompress (s : signature) : bytes :=
  let '(R8, Sv) := s in Compress R8 ++ BigIntLEBytes Sv.

(* func (s *Signature) Decompress(buf [64]byte) (Signature, error) *)
Definition SigDecompress (buf : bytes) : res signature :=
  match Decompress (firstn 32 buf) with
  | Ok R8 => Ok (R8, SetBigIntFromLEBytes (skipn 32 buf))
  | Err => Err
  | Panic => Panic
  end.

(* func (pk *PublicKey) Compress() PublicKeyComp ; (pkComp *PublicKeyComp) Decompress() *)
Definition PkCompress (pk : point) : bytes := Compress pk.
Definition PkDecompress (c : bytes) : res point := Decompress c.

(* MarshalText / String of the four types: lower-case hex of the compressed form *)
Definition PkMarshalText (pk : point) : bytes := HexString (PkCompress pk).
Definition PkCompMarshalText (c : bytes) : bytes := HexString c.
Definition SigCompMarshalText (c : bytes) : bytes := HexString c.

(* func (pkComp *PublicKeyComp) UnmarshalText(h) error : HexDecodeInto(pkComp[:], h) *)
Definition PkCompUnmarshalText (h : bytes) : res bytes := HexDecodeInto 32 h.
Definition SigCompUnmarshalText (h : bytes) : res bytes := HexDecodeInto 64 h.
(* func (pk *PublicKey) UnmarshalText(h) error *)
Definition PkUnmarshalText (h : bytes) : res point :=
  match HexDecodeInto 32 h with
  | Ok c => PkDecompress c
  | Err => Err
  | Panic => Panic
  end.
(* func DecompressSig(compressedSig []byte) (Signature, error) *)
Definition DecompressSig (h : bytes) : res signature :=
  match SigCompUnmarshalText h with
  | Ok c => SigDecompress c
  | Err => Err
  | Panic => Panic
  end.

(* database/sql Scan sources: the dynamic types a caller can pass *)
Inductive scan_src :=
| SrcBytes (b : bytes)     (* []byte *)
| SrcString (s : bytes)    (* string *)
| SrcInt (i : Z)           (* int64 *)
| SrcNil                   (* nil *)
| SrcOther.                (* float64, bool, time.Time, [64]byte, *[]byte, ... *)

(* func (sComp *SignatureComp) Scan(src) error : new contents of sComp *)
Definition SigCompScan (src : scan_src) : res bytes :=
  match src with
  | SrcBytes b => if Nat.eqb (length b) 64 then Ok b else Err
  | _ => Err
  end.
Definition PkCompScan (src : scan_src) : res bytes :=
  match src with
  | SrcBytes b => if Nat.eqb (length b) 32 then Ok b else Err
  | _ => Err
  end.
(* func (s *Signature) Scan(src) error *)
Definition SigScan (src : scan_src) : res signature :=
  match src with
  | SrcBytes b => if Nat.eqb (length b) 64 then SigDecompress b else Err
  | _ => Err
  end.
(* func (pk *PublicKey) Scan(src) error *)
Definition PkScan (src : scan_src) : res point :=
  match src with
  | SrcBytes b => if Nat.eqb (length b) 32 then PkDecompress b else Err
  | _ => Err
  end.
(* Value() of the four types: the compressed bytes *)
Definition SigValue (s : signature) : bytes := SigCompress s.
Definition PkValue (pk : point) : bytes := PkCompress pk.

(* ---- key derivation, signing, verification ------------------------------- *)
Section Hashes.
  Variable blake512 : bytes -> bytes.           (* 64-byte digest *)
  Variable poseidon5 : list Z -> res Z.         (* poseidon.Hash *)
  Variable mimc7h : list Z -> res Z.            (* mimc7.Hash(arr, nil) *)

  (* func SkToBigInt(k *PrivateKey) *big.Int *)
  Definition SkToBigInt (k : bytes) : Z :=
    let sBuf := blake512 k in
    let sBuf32 := copy_into 32 (firstn 32 sBuf) in
    let sBuf32 := pruneBuffer sBuf32 in
    Z.shiftr (SetBigIntFromLEBytes sBuf32) 3.

  (* func (s *PrivKeyScalar) Public() : NewPoint().Mul(s, B8) *)
  Definition ScalarPublic (s : Z) : point := Mul s B8.
  (* func (k *PrivateKey) Public() *)
  Definition Public (k : bytes) : point := ScalarPublic (SkToBigInt k).

  (* the common body of SignMimc7 / SignPoseidon *)
  Definition sign_with (H : list Z -> res Z) (k : bytes) (msg : Z) : res signature :=
    let h1 := blake512 k in
    let msgBuf := BigIntLEBytes msg in
    let msgBuf32 := copy_into 32 msgBuf in
    let rBuf := blake512 (skipn 32 h1 ++ msgBuf32) in
    let r := SetBigIntFromLEBytes rBuf in
    let r := r mod SubOrder in
    let R8 := Mul r B8 in
    let A := Public k in
    match H [fst R8; snd R8; fst A; snd A; msg] with
    | Ok hm =>
        let Sv := Z.shiftl (SkToBigInt k) 3 in
        let Sv := hm * Sv in
        let Sv := r + Sv in
        let Sv := Sv mod SubOrder in
        Ok (R8, Sv)
    | Err => Err
    | Panic => Panic
    end.
  Definition SignPoseidon := sign_with poseidon5.
  Definition SignMimc7 := sign_with mimc7h.

  (* the common body of VerifyMimc7 / VerifyPoseidon: true = nil error *)
  Definition verify_with (H : list Z -> res Z) (pk : point) (msg : Z) (sig : signature)
    : res unit :=
    let '(R8, Sv) := sig in
    if (Sv <? 0) || (Sv >=? SubOrder) then Err
    else
    match H [fst R8; snd R8; fst pk; snd pk; msg] with
    | Ok hm =>
        let left := Mul Sv B8 in
        let r1 := 8 * hm in
        let right := Mul r1 pk in
        let rightProj := Add (Projective R8) (Projective right) in
        let right := Affine rightProj in
        if (fst left =? fst right) && (snd left =? snd right) then Ok tt else Err
    | Err => Err
    | Panic => Panic
    end.
  Definition VerifyPoseidon := verify_with poseidon5.
  Definition VerifyMimc7 := verify_with mimc7h.
End Hashes.

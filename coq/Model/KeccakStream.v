(* Model of /repo/keccak256/keccac256.go

     func Hash(data ...[]byte) []byte {
         hash := sha3.NewLegacyKeccak256()
         for _, d := range data { hash.Write(d) }
         return hash.Sum(nil)
     }

   on top of golang.org/x/crypto/sha3 (v0.32.0, sha3.go): a streaming sponge
   with rate 136 and domain-separation byte 0x01 (legacy Keccak).

   The Go sponge keeps a 200-byte state [a] and an index [n] < rate; `Write`
   XORs the incoming bytes into a[n:rate] and calls the permutation each time
   n reaches the rate.  Since XORing a block into the state byte by byte or all
   at once is the same thing, the model keeps the state *as of the last
   permutation* as 25 lanes ([ks_st]) together with the bytes received since
   then ([ks_buf], the "partial block", always shorter than the rate); a block
   is absorbed with [keccak_absorb_block] of Spec/Keccak.v the moment it is
   full, exactly where Go calls `permute`.

   `Sum` = clone; padAndPermute (a[n] ^= 0x01; a[rate-1] ^= 0x80; permute);
   copy out the first 32 bytes of the state. *)
From Coq Require Import ZArith List.
From Verif Require Import Spec.Keccak.
Import ListNotations.
Local Open Scope Z_scope.

Record kstate : Type := mk_kstate {
  ks_st  : list Z;      (* 25 lanes *)
  ks_buf : bytes        (* bytes of the current block, length < keccak_rate *)
}.

(* sha3.NewLegacyKeccak256(): zero state, n = 0 *)
Definition kinit : kstate := mk_kstate keccak_zero_state [].

(* The loop of the method Write of sha3.state:

     for len(p) > 0 {
         x := subtle.XORBytes(d.a[d.n:d.rate], d.a[d.n:d.rate], p)  // x = min(rate - n, len p)
         d.n += x
         p = p[x:]
         if d.n == d.rate { d.permute() }                            // n = 0
     }

   Every iteration consumes at least one byte (n < rate), so the length of p
   is enough fuel. *)
Fixpoint kwrite_fuel (fuel : nat) (s : kstate) (p : bytes) : kstate :=
  match fuel with
  | O => s
  | S f =>
      match p with
      | [] => s
      | _ =>
          let room := (keccak_rate - length (ks_buf s))%nat in
          let buf' := ks_buf s ++ firstn room p in
          let p' := skipn room p in
          if (length buf' =? keccak_rate)%nat
          then kwrite_fuel f (mk_kstate (keccak_absorb_block (ks_st s) buf') []) p'
          else kwrite_fuel f (mk_kstate (ks_st s) buf') p'
      end
  end.

Definition kwrite (s : kstate) (p : bytes) : kstate :=
  kwrite_fuel (length p) s p.

(* l[i] ^= v (no effect when i is out of range) *)
Fixpoint kxor_at (i : nat) (v : Z) (l : bytes) : bytes :=
  match l, i with
  | [], _ => []
  | x :: r, O => Z.lxor x v :: r
  | x :: r, S j => x :: kxor_at j v r
  end.

(* padAndPermute, on the block under construction: the bytes received so far,
   the untouched rest of the rate being XORed with zeros;
     a[n] ^= dsbyte (0x01);  a[rate-1] ^= 0x80
   (both hit the same byte, giving 0x81, when n = rate - 1) *)
Definition kpad_block (buf : bytes) : bytes :=
  let n := length buf in
  let blk := buf ++ repeat 0 (keccak_rate - n) in
  kxor_at (keccak_rate - 1) 0x80 (kxor_at n 0x01 blk).

(* Sum(nil): pad, permute, read outputLen = 32 bytes (the state of the
   receiver is not modified: Sum works on a clone) *)
Definition ksum (s : kstate) : bytes :=
  ksqueeze (keccak_absorb_block (ks_st s) (kpad_block (ks_buf s))).

Definition Hash (data : list bytes) : bytes :=
  ksum (fold_left kwrite data kinit).

(* ffg/element.go: conversions, comparisons, Legendre and Sqrt on the one-limb
   model Model/FfgLimbs.v.  Literals come from Gen/FfgConsts.v. *)
From Coq Require Import ZArith List Bool.
From Verif Require Import Lib.Params Lib.Words Lib.Octets Lib.Decimal Model.Outcome Model.FfgLimbs.
From Verif Require Gen.FfgConsts.
Import ListNotations.
Local Open Scope Z_scope.

Definition setBytes (e : bytes) : Z := setBigInt (be_val e).
Definition setString (s : bytes) : res Z :=
  match parse_dec s with Some v => Ok (setBigInt v) | None => Panic end.
Definition bytesOf (z : Z) : bytes := be_bytes 8 (fromMontGeneric z).
(* String(): zz.IsUint64() is constantly true for a one-limb element *)
Definition stringOf (z : Z) : bytes := dec_of_nonneg (fromMontGeneric z).
Definition equal (z x : Z) : bool := z =? x.
Definition isZero (z : Z) : bool := z =? 0.
Definition cmp (z x : Z) : Z :=
  let z0 := fromMontGeneric z in let x0 := fromMontGeneric x in
  if z0 >? x0 then 1 else if z0 <? x0 then -1 else 0.
Definition lexLargest (z : Z) : bool :=
  let z0 := fromMontGeneric z in
  let '(_, b) := sub64 z0 (nth 0 FfgConsts.biglits_Element_LexicographicallyLargest 0) 0 in
  b =? 0.

Definition legendre (z : Z) : Z :=
  let l := exp z FfgConsts.legendreExp in
  if isZero l then 0
  else if l =? nth 0 FfgConsts.biglits_Element_Legendre 0 then 1 else -1.

Fixpoint sqn (n : nat) (t : Z) : Z :=
  match n with O => t | S n' => sqn n' (square t) end.
Fixpoint find_m (fuel : nat) (t : Z) (m : Z) : option Z :=
  match fuel with
  | O => None
  | S f => if t =? nth 2 FfgConsts.biglits_Element_Sqrt 0 then Some m
           else find_m f (square t) (m + 1)
  end.
Fixpoint ts_loop (fuel : nat) (y b g : Z) (r : Z) : option Z :=
  match fuel with
  | O => None
  | S f =>
      match find_m (Z.to_nat r + 1) b 0 with
      | None => None
      | Some m =>
          if m =? 0 then Some y
          else
            let t := sqn (Z.to_nat (r - m - 1)) g in
            let g' := square t in
            ts_loop f (mulGeneric y t) (mulGeneric b g') g' m
      end
  end.
Inductive sqrt_out := SqSome (z : Z) | SqNil | SqOutOfFuel.
Definition sqrt (x : Z) : sqrt_out :=
  let w := exp x FfgConsts.sqrtExp in
  let y := mulGeneric x w in
  let b := mulGeneric w y in
  let g := nth 0 FfgConsts.biglits_Element_Sqrt 0 in
  let r := FfgConsts.sqrt_r in
  let t := sqn (Z.to_nat (r - 1)) b in
  if isZero t then SqSome 0
  else if negb (t =? nth 1 FfgConsts.biglits_Element_Sqrt 0) then SqNil
  else match ts_loop (Z.to_nat r + 1) y b g r with
       | Some z => SqSome z
       | None => SqOutOfFuel
       end.

(* func (z *Element) Bit(i uint64) uint64 / BitLen() int, on the single limb as stored *)
Definition bit (z : Z) (i : Z) : Z :=
  if i / 64 >=? 1 then 0 else (z / 2 ^ (i mod 64)) mod 2.
Definition bitLen (z : Z) : Z := if z =? 0 then 0 else Z.log2 z + 1.

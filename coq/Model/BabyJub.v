(* babyjub/babyjub.go at big-integer level, instantiated with the constants
   regenerated from the repository (Gen.CurveConsts).  math/big's ModInverse
   and ModSqrt are external: they are modelled by [modinv] / [modsqrt] below
   (contracts: inverse mod Q of the reduced argument; some square root iff one
   exists), executed through Fermat inversion and Tonelli-Shanks. *)
From Coq Require Import ZArith List Bool.
From Verif Require Import Lib.Params Lib.Powmod Lib.Octets Spec.Edwards
  Model.Outcome Model.Utils Model.BabyJubCore Model.SqrtCore.
From Verif Require Gen.CurveConsts.
Import ListNotations.
Local Open Scope Z_scope.



Definition Q : Z := Gen.CurveConsts.Q.
Definition A : Z := Gen.CurveConsts.A.
Definition D : Z := Gen.CurveConsts.D.
Definition Order : Z := Gen.CurveConsts.Order.
Definition SubOrder : Z := Z.shiftr Gen.CurveConsts.Order Gen.CurveConsts.SubOrderShift.
Definition B8 : point := (Gen.CurveConsts.B8x, Gen.CurveConsts.B8y).

(* external: big.Int.ModInverse(g, Q) for Q prime, g mod Q <> 0 *)
Definition modinv (g : Z) : Z := finv Q (g mod Q).

(* external: big.Int.ModSqrt(x, Q): some root, or None *)
Definition ts_e : Z := 28.
Definition ts_s : Z := Eval vm_compute in (q - 1) / 2 ^ 28.
Definition ts_g0 : Z := Eval vm_compute in powmod 5 ts_s q.
Definition modsqrt (x : Z) : option Z :=
  match sqrt_model Q ((ts_s - 1) / 2) ts_g0 ts_e (x mod Q) with
  | SqrtOk z => Some z
  | _ => None
  end.

(* func (p *PointProjective) Add / (p *Point) Mul *)
Definition Add : ppoint -> ppoint -> ppoint := padd Q A D.
Definition Mul (s : Z) (P : point) : point := pmul Q A D s P.
Definition Projective : point -> ppoint := pproj Q.
Definition Affine : ppoint -> point := paffine Q.

(* func (p *Point) InCurve() bool *)
Definition InCurve (P : point) : bool :=
  let '(x, y) := P in
  let x2 := (x * x) mod Q in
  let y2 := (y * y) mod Q in
  let a := ((A * x2) + y2) mod Q in
  let b := (Gen.CurveConsts.One + (D * x2) * y2) mod Q in
  a =? b.

(* func (p *Point) InSubGroup() bool *)
Definition InSubGroup (P : point) : bool :=
  if negb (InCurve P) then false
  else let '(rx, ry) := Mul SubOrder P in (rx =? Gen.CurveConsts.Zero) && (ry =? Gen.CurveConsts.One).

(* func PointCoordSign(c) bool : c > Q >> 1 *)
Definition PointCoordSign (c : Z) : bool := c >? Z.shiftr Q 1.

Definition set_nth (n : nat) (v : Z) (l : bytes) : bytes :=
  firstn n l ++ v :: skipn (S n) l.

(* func PackSignY(sign bool, y *big.Int) [32]byte *)
Definition PackSignY (sign : bool) (y : Z) : bytes :=
  let leBuf := BigIntLEBytes y in
  if sign then set_nth 31 (Z.lor (nth 31 leBuf 0) 128) leBuf else leBuf.

(* func UnpackSignY(leBuf [32]byte) (bool, big.Int) *)
Definition UnpackSignY (leBuf : bytes) : bool * Z :=
  if negb (Z.land (nth 31 leBuf 0) 128 =? 0)
  then (true, SetBigIntFromLEBytes (set_nth 31 (Z.land (nth 31 leBuf 0) 127) leBuf))
  else (false, SetBigIntFromLEBytes leBuf).

(* func (p *Point) Compress() [32]byte *)
Definition Compress (P : point) : bytes :=
  let '(x, y) := P in PackSignY (PointCoordSign x) y.

(* func PointFromSignAndY(sign bool, y *big.Int) (Point, error) *)
Definition PointFromSignAndY (sign : bool) (y : Z) : res point :=
  if y >=? Q then Err
  else
    let y2 := (y * y) mod Q in
    let xa := 1 - y2 in
    let xb := (D * y2) mod Q in
    let xb := A - xb in
    if xb =? 0 then Err
    else
      let xb := modinv xb in
      let x := (xa * xb) mod Q in
      match modsqrt x with
      | None => Err
      | Some x =>
          if sign && (x =? 0) then Err else
          let x :=
            if (sign && negb (PointCoordSign x)) || (negb sign && PointCoordSign x)
            then x * Gen.CurveConsts.MinusOne else x in
          Ok (x mod Q, y)
      end.

(* func (p *Point) Decompress(leBuf [32]byte) (Point, error): returned value *)
Definition Decompress (leBuf : bytes) : res point :=
  let '(sign, y) := UnpackSignY leBuf in PointFromSignAndY sign y.

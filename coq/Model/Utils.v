(* utils/utils.go at value level. *)
From Coq Require Import ZArith List Bool.
From Verif Require Import Lib.Octets Model.Outcome.
Import ListNotations.
Local Open Scope Z_scope.

(* func SwapEndianness(xs []byte) []byte *)
Definition SwapEndianness (xs : bytes) : bytes := rev xs.

(* copy(res[:], src) into a zeroed array of n bytes *)
Definition copy_into (n : nat) (src : bytes) : bytes :=
  firstn n src ++ repeat 0 (n - length (firstn n src)).

(* func BigIntLEBytes(v *big.Int) [32]byte : le := SwapEndianness(v.Bytes()); copy(res[:], le) *)
Definition BigIntLEBytes (v : Z) : bytes :=
  copy_into 32 (SwapEndianness (min_be_bytes v)).

(* func SetBigIntFromLEBytes(v, leBuf) : v.SetBytes(SwapEndianness(leBuf)) *)
Definition SetBigIntFromLEBytes (leBuf : bytes) : Z := be_val (SwapEndianness leBuf).

(* Hex.MarshalText / Hex.String *)
Definition HexString (buf : bytes) : bytes := hex_encode buf.
(* func HexEncode(bs []byte) string : "0x" + hex *)
Definition HexEncode (bs : bytes) : bytes := 48 :: 120 :: hex_encode bs.

Definition has_0x (h : bytes) : bool :=
  match h with a :: b :: _ => (a =? 48) && (b =? 120) | _ => false end.
Definition strip_0x (h : bytes) : bytes := if has_0x h then skipn 2 h else h.

(* func HexDecode(h string) ([]byte, error) *)
Definition HexDecode (h : bytes) : res bytes :=
  match hex_decode (strip_0x h) with Some b => Ok b | None => Err end.

(* func HexDecodeInto(dst, h []byte) error; returns the new contents of dst *)
Definition HexDecodeInto (dstlen : nat) (h : bytes) : res bytes :=
  let h := strip_0x h in
  if negb (Nat.eqb (length h / 2) dstlen) then Err
  else match hex_decode h with
       | Some b => if Nat.eqb (length b) dstlen then Ok b else Err
       | None => Err
       end.

Section Field.
  Variable Q : Z.
  (* func CheckBigIntInField(a) bool : a < Q && a >= 0 *)
  Definition CheckBigIntInField (a : Z) : bool := (a <? Q) && negb (a <? 0).
  Definition CheckBigIntArrayInField (arr : list Z) : bool := forallb CheckBigIntInField arr.
End Field.

(* One-limb Gallina model of the Goldilocks field package /repo/ffg
   (element.go, arith.go, element_ops_noasm.go).

   Definitions only -- the proofs are in Proofs/FfgArith.v and Proofs/FfgOps.v.

   An ffg.Element is [1]uint64; it is modelled by a plain [Z] (the single
   limb).  Elements are in Montgomery form with R = 2^64.  Every routine is a
   let-chain that follows the Go statements one by one: one [let] per Go
   assignment, [t[0]] -> [t0], [bits.Add64/Sub64/Mul64] -> [Words.add64/sub64/
   mul64], [madd0] -> [Words.madd0], wrapping [*] -> [Words.wmul], an early
   [return] -> if/then/else.  On every platform ffg dispatches to the portable
   [_xxxGeneric] routines (element_ops_noasm.go has no build tag), so these are
   the only code paths.

   The model is functional: a routine takes the operand VALUES and returns the
   value stored through the destination pointer.  The Go routines read all of
   their operands before the first store to [z] (or, for Butterfly, save [*a]
   in [t] first), so destination aliasing cannot change the result; in the
   model the question is vacuous.

   The integer constants are taken from the generated file Gen/FfgConsts.v
   (regenerated from the Go sources on every run), never typed by hand. *)
From Coq Require Import ZArith List.
From Verif Require Import Lib.Params Lib.Words Lib.Powmod.
From Verif Require Gen.FfgConsts.
Import ListNotations.
Local Open Scope Z_scope.

(* ------------------------------------------------------------------ *)
(** * Constants (from the generated file) *)

(* var qElement = Element{18446744069414584321} *)
Definition qg : Z := nth 0 FfgConsts.qElement 0.
(* the literal n'[0] = -q^-1 mod 2^64 of _mulGeneric ("m = t[0] * 18446744069414584319") *)
Definition qInvNeg : Z := nth 0 FfgConsts.biglits_mulGeneric 0.
(* var rSquare = Element{18446744065119617025} *)
Definition rSquare : Z := nth 0 FfgConsts.rSquare 0.
(* SetOne: z[0] = 4294967295 *)
Definition one : Z := nth 0 FfgConsts.biglits_Element_SetOne 0.
(* _modulus (big.Int), set by init() from the decimal string *)
Definition modulus : Z := FfgConsts.modulus.

(* ------------------------------------------------------------------ *)
(** * Interpretation of elements (used by the theorems only) *)

Definition canon (z : Z) : Prop := 0 <= z < pg.
Definition Rg : Z := W.
(* R^-1 mod pg, by Fermat; closed form: pg - 2^32 *)
Definition Rinv : Z := powmod W (pg - 2) pg.
(* field value of a Montgomery-form element *)
Definition mval (z : Z) : Z := (z * Rinv) mod pg.

(* ------------------------------------------------------------------ *)
(** * element.go: the _xxxGeneric routines *)

(* func _mulGeneric(z, x, y *Element) *)
Definition mulGeneric (x y : Z) : Z :=
  let t0 := 0 in                                   (* var t [2]uint64 *)
  let t1 := 0 in
  let D := 0 in                                    (* var D uint64 *)
  let m := 0 in                                    (* var m, C uint64 *)
  let C := 0 in
  let '(C, t0) := mul64 y x in                     (* C, t[0] = bits.Mul64(y[0], x[0]) *)
  let '(t1, D) := add64 t1 C 0 in                  (* t[1], D = bits.Add64(t[1], C, 0) *)
  let m := wmul t0 qInvNeg in                      (* m = t[0] * 18446744069414584319 *)
  let C := madd0 m qg t0 in                        (* C = madd0(m, 18446744069414584321, t[0]) *)
  let '(t0, C) := add64 t1 C 0 in                  (* t[0], C = bits.Add64(t[1], C, 0) *)
  let '(t1, _) := add64 0 D C in                   (* t[1], _ = bits.Add64(0, D, C) *)
  if negb (Z.eqb t1 0) then                        (* if t[1] != 0 { *)
    let '(z0, _) := sub64 t0 qg 0 in               (*   z[0], _ = bits.Sub64(t[0], q, 0) *)
    z0                                             (*   return } *)
  else
    let z0 := t0 in                                (* z[0] = t[0] *)
    if negb (Z.ltb z0 qg) then                     (* if !(z[0] < q) { *)
      let '(z0, _) := sub64 z0 qg 0 in             (*   z[0], _ = bits.Sub64(z[0], q, 0) } *)
      z0
    else z0.

(* func _fromMontGeneric(z *Element) *)
Definition fromMontGeneric (z : Z) : Z :=
  let z0 := z in
  let m := wmul z0 qInvNeg in                      (* m := z[0] * 18446744069414584319 *)
  let C := madd0 m qg z0 in                        (* C := madd0(m, q, z[0]) *)
  let z0 := C in                                   (* z[0] = C *)
  if negb (Z.ltb z0 qg) then                       (* if !(z[0] < q) { *)
    let '(z0, _) := sub64 z0 qg 0 in               (*   z[0], _ = bits.Sub64(z[0], q, 0) } *)
    z0
  else z0.

(* func _addGeneric(z, x, y *Element) *)
Definition addGeneric (x y : Z) : Z :=
  let carry := 0 in                                (* var carry uint64 *)
  let '(z0, carry) := add64 x y 0 in               (* z[0], carry = bits.Add64(x[0], y[0], 0) *)
  if negb (Z.eqb carry 0) then                     (* if carry != 0 { *)
    let '(z0, _) := sub64 z0 qg 0 in               (*   z[0], _ = bits.Sub64(z[0], q, 0) *)
    z0                                             (*   return } *)
  else
    if negb (Z.ltb z0 qg) then                     (* if !(z[0] < q) { *)
      let '(z0, _) := sub64 z0 qg 0 in             (*   z[0], _ = bits.Sub64(z[0], q, 0) } *)
      z0
    else z0.

(* func _doubleGeneric(z, x *Element) *)
Definition doubleGeneric (x : Z) : Z :=
  let carry := 0 in                                (* var carry uint64 *)
  let '(z0, carry) := add64 x x 0 in               (* z[0], carry = bits.Add64(x[0], x[0], 0) *)
  if negb (Z.eqb carry 0) then                     (* if carry != 0 { *)
    let '(z0, _) := sub64 z0 qg 0 in               (*   z[0], _ = bits.Sub64(z[0], q, 0) *)
    z0                                             (*   return } *)
  else
    if negb (Z.ltb z0 qg) then                     (* if !(z[0] < q) { *)
      let '(z0, _) := sub64 z0 qg 0 in             (*   z[0], _ = bits.Sub64(z[0], q, 0) } *)
      z0
    else z0.

(* func _subGeneric(z, x, y *Element) *)
Definition subGeneric (x y : Z) : Z :=
  let b := 0 in                                    (* var b uint64 *)
  let '(z0, b) := sub64 x y 0 in                   (* z[0], b = bits.Sub64(x[0], y[0], 0) *)
  if negb (Z.eqb b 0) then                         (* if b != 0 { *)
    let '(z0, _) := add64 z0 qg 0 in               (*   z[0], _ = bits.Add64(z[0], q, 0) } *)
    z0
  else z0.

(* func _negGeneric(z, x *Element) *)
Definition negGeneric (x : Z) : Z :=
  if Z.eqb x 0 then                                (* if x.IsZero() { *)
    0                                              (*   z.SetZero(); return } *)
  else
    let '(z0, _) := sub64 qg x 0 in                (* z[0], _ = bits.Sub64(q, x[0], 0) *)
    z0.

(* func _reduceGeneric(z *Element) *)
Definition reduceGeneric (z : Z) : Z :=
  let z0 := z in
  if negb (Z.ltb z0 qg) then                       (* if !(z[0] < q) { *)
    let '(z0, _) := sub64 z0 qg 0 in               (*   z[0], _ = bits.Sub64(z[0], q, 0) } *)
    z0
  else z0.

(* ------------------------------------------------------------------ *)
(** * element.go: methods built on the generic routines *)

(* func (z *Element) Square(x *Element): mul(z, x, x) *)
Definition square (x : Z) : Z := mulGeneric x x.

(* func (z *Element) ToMont(): z.Mul(z, &rSquare) *)
Definition toMont (z : Z) : Z := mulGeneric z rSquare.

(* func (z *Element) SetUint64(v uint64) / NewElementFromUint64(v):
     *z = Element{v}; z.Mul(z, &rSquare)           -- any uint64 v, also v >= q *)
Definition setUint64 (v : Z) : Z :=
  let z := v in
  mulGeneric z rSquare.

(* func (z Element) ToUint64Regular() uint64: z.FromMont(); return z[0] *)
Definition toUint64Regular (z : Z) : Z :=
  let z := fromMontGeneric z in
  z.

(* func mulByConstant(z *Element, c uint8) *)
Definition mulByConstant (z c : Z) : Z :=
  if Z.eqb c 0 then 0                              (* case 0: z.SetZero() *)
  else if Z.eqb c 1 then z                         (* case 1: return *)
  else if Z.eqb c 2 then doubleGeneric z           (* case 2: z.Double(z) *)
  else if Z.eqb c 3 then                           (* case 3: *)
    let _z := z in                                 (*   _z := *z *)
    let z := doubleGeneric z in                    (*   z.Double(z) *)
    addGeneric z _z                                (*   .Add(z, &_z) *)
  else if Z.eqb c 5 then                           (* case 5: *)
    let _z := z in                                 (*   _z := *z *)
    let z := doubleGeneric z in                    (*   z.Double(z) *)
    let z := doubleGeneric z in                    (*   .Double(z) *)
    addGeneric z _z                                (*   .Add(z, &_z) *)
  else                                             (* default: *)
    let y := setUint64 c in                        (*   y.SetUint64(uint64(c)) *)
    mulGeneric z y.                                (*   z.Mul(z, &y) *)

(* element_ops_noasm.go *)
Definition mulBy3 (x : Z) : Z := mulByConstant x 3.
Definition mulBy5 (x : Z) : Z := mulByConstant x 5.
Definition mulBy13 (x : Z) : Z := mulByConstant x 13.

(* func _butterflyGeneric(a, b *Element): returns the new ( *a, *b ) *)
Definition butterflyGeneric (a b : Z) : Z * Z :=
  let t := a in                                    (* t := *a *)
  let a := addGeneric a b in                       (* a.Add(a, b) *)
  let b := subGeneric t b in                       (* b.Sub(&t, b) *)
  (a, b).

(* big.Int.BitLen / big.Int.Bit on a non-negative exponent *)
Definition bigBitLen (e : Z) : Z := if Z.eqb e 0 then 0 else Z.log2 e + 1.
Definition bigBit (e i : Z) : Z := if Z.testbit e i then 1 else 0.

(* the loop  for i := n-1; i >= 0; i-- { z.Square(z); if exponent.Bit(i) == 1 { z.Mul(z, &x) } } *)
Fixpoint exp_loop (x e : Z) (n : nat) (z : Z) : Z :=
  match n with
  | O => z
  | S i =>
      let z := square z in                         (* z.Square(z) *)
      let z := if Z.eqb (bigBit e (Z.of_nat i)) 1  (* if exponent.Bit(i) == 1 { *)
               then mulGeneric z x                 (*   z.Mul(z, &x) } *)
               else z in
      exp_loop x e i z
  end.

(* func (z *Element) Exp(x Element, exponent *big.Int), exponent >= 0 *)
Definition exp (x e : Z) : Z :=
  if Z.eqb e 0 then one                            (* if exponent == 0 { return z.SetOne() } *)
  else
    let z := x in                                  (* z.Set(&x) *)
    (* for i := exponent.BitLen() - 2; i >= 0; i-- : BitLen-1 iterations *)
    exp_loop x e (Z.to_nat (bigBitLen e - 1)) z.

(* ------------------------------------------------------------------ *)
(** * Conversions through math/big used by Inverse *)

(* func (z Element) ToBigIntRegular(res): z.FromMont(); z.ToBigInt(res).
   ToBigInt writes the limb big-endian and reads it back: the value of z[0]. *)
Definition toBigIntRegular (z : Z) : Z :=
  let z := fromMontGeneric z in
  z.

(* func (z *Element) setBigInt(v), assumes 0 <= v < q: the (at most one) word
   of v is copied into z[0] (z was zeroed by the caller), then z.ToMont() *)
Definition setBigInt_inner (v : Z) : Z :=
  let z0 := v in
  toMont z0.

(* func (z *Element) SetBigInt(v *big.Int) *)
Definition setBigInt (v : Z) : Z :=
  let z := 0 in                                    (* z.SetZero() *)
  let c := Z.compare v modulus in                  (* c := v.Cmp(&_modulus) *)
  match c with
  | Eq => z                                        (* if c == 0 { return z } *)
  | _ =>
    if andb (negb (match c with Gt => true | _ => false end))   (* c != 1 *)
            (negb (Z.ltb v 0))                                    (* v.Cmp(&zero) != -1 *)
    then setBigInt_inner v                         (* return z.setBigInt(v) *)
    else
      let vv := v mod modulus in                   (* vv.Mod(v, &_modulus)  (Euclidean) *)
      setBigInt_inner vv                           (* z.setBigInt(vv) *)
  end.

(* big.Int.ModInverse(v, q) for the prime q = pg: external library, modelled
   at value level (trusted base).  ModInverse leaves the receiver unchanged
   when no inverse exists; for the prime modulus that is exactly v = 0 mod q,
   where the formula below also gives 0. *)
Definition modinv (v : Z) : Z := powmod v (pg - 2) pg.

(* func (z *Element) Inverse(x *Element) *)
Definition inverse (x : Z) : Z :=
  let xNonMont := toBigIntRegular x in             (* x.ToBigIntRegular(&_xNonMont) *)
  let xNonMont := modinv xNonMont in               (* _xNonMont.ModInverse(&_xNonMont, Modulus()) *)
  setBigInt xNonMont.                              (* z.SetBigInt(&_xNonMont) *)

(* func (z *Element) Div(x, y *Element) *)
Definition div (x y : Z) : Z :=
  let yInv := inverse y in                         (* yInv.Inverse(y) *)
  mulGeneric x yInv.                               (* z.Mul(x, &yInv) *)

(* func (z *Element) Halve() *)
Definition halve (z : Z) : Z :=
  let twoInv := one in                             (* twoInv.SetOne() *)
  let twoInv := doubleGeneric twoInv in            (* .Double(&twoInv) *)
  let twoInv := inverse twoInv in                  (* .Inverse(&twoInv) *)
  mulGeneric z twoInv.                             (* z.Mul(z, &twoInv) *)

(* ------------------------------------------------------------------ *)
(** * BatchInvert *)

(* first loop, i = 0 .. len(a)-1: returns (res, zeroes, accumulator) *)
Fixpoint batch_fwd (a : list Z) (accumulator : Z) : list Z * list bool * Z :=
  match a with
  | [] => ([], [], accumulator)
  | ai :: a' =>
      if Z.eqb ai 0 then                           (* if a[i].IsZero() { zeroes[i] = true; continue } *)
        let '(res, zeroes, acc) := batch_fwd a' accumulator in
        (0 :: res, true :: zeroes, acc)            (* res[i] stays the zero of make() *)
      else
        let resi := accumulator in                 (* res[i] = accumulator *)
        let accumulator := mulGeneric accumulator ai in  (* accumulator.Mul(&accumulator, &a[i]) *)
        let '(res, zeroes, acc) := batch_fwd a' accumulator in
        (resi :: res, false :: zeroes, acc)
  end.

(* second loop, i = len(a)-1 .. 0: the tail (larger indices) is processed
   first; returns (res, accumulator) *)
Fixpoint batch_bwd (a res : list Z) (zeroes : list bool) (accumulator : Z)
  : list Z * Z :=
  match a, res, zeroes with
  | ai :: a', resi :: res', zi :: zeroes' =>
      let '(out, accumulator) := batch_bwd a' res' zeroes' accumulator in
      if zi then (resi :: out, accumulator)        (* if zeroes[i] { continue } *)
      else
        let resi := mulGeneric resi accumulator in (* res[i].Mul(&res[i], &accumulator) *)
        let accumulator := mulGeneric accumulator ai in (* accumulator.Mul(&accumulator, &a[i]) *)
        (resi :: out, accumulator)
  | _, _, _ => ([], accumulator)
  end.

(* func BatchInvert(a []Element) []Element *)
Definition batchInvert (a : list Z) : list Z :=
  match a with
  | [] => []                                       (* if len(a) == 0 { return res } *)
  | _ =>
    let accumulator := one in                      (* accumulator := One() *)
    let '(res, zeroes, accumulator) := batch_fwd a accumulator in
    let accumulator := inverse accumulator in      (* accumulator.Inverse(&accumulator) *)
    let '(res, _) := batch_bwd a res zeroes accumulator in
    res
  end.

(* The algorithms of poseidon/poseidon.go, babyjub/babyjub.go (projective
   arithmetic) and mimc7/mimc7.go run on LIMB elements (Model/FfLimbs.v [el],
   four 64-bit Montgomery limbs) with the limb routines of ff/element.go, in
   the order of the Go statements.  Definitions only.  The value-level models
   (Model/HadesOpt.v + Model/Poseidon.v, Model/BabyJubCore.v, Model/Mimc7.v)
   compute with integers mod q; Proofs/LimbCompose*.v show that the programs
   below refine them.

   Go call                         here
   z.Add(x, y)                     addGeneric x y
   z.Sub(x, y)                     subGeneric x y
   z.Mul(x, y)                     mulGeneric x y
   z.Square(x)                     square x
   a.Exp(a, big5)                  exp a 5
   z.Inverse(x)                    inverse x   (option: None = fuel exhausted)
   z.Equal(x)                      equal z x
   ff.NewElement() / SetZero()     zero
   z.SetUint64(0)                  setUint64 0
   z.SetOne()                      one
   z.SetBigInt(v)                  FfConv.setBigInt v
   z.ToBigIntRegular(res)          FfConv.toBigIntRegular z

   Index arithmetic, list shapes and out-of-range defaults are those of the
   value-level models (a Go out-of-range index would panic; both models read
   the zero element / 0 there, and the top-level functions never get there). *)
From Coq Require Import ZArith List Bool.
From Verif Require Import Lib.Params Spec.Edwards Model.Outcome Model.Utils
  Model.FfLimbs Model.FfConv Model.Poseidon Model.BabyJubCore.
From Verif Require Gen.CurveConsts Model.Mimc7 Model.BabyJub.
Import ListNotations.
Local Open Scope Z_scope.

(* ------------------------------------------------------------------ *)
(** * poseidon/poseidon.go *)

(* func exp5(a *ff.Element) { a.Exp(a, big5)  } *)
Definition exp5_l (a : el) : el := FfLimbs.exp a 5.

Section OptL.
  Variable t : nat.
  Variables RF RP : nat.
  Variables C S : list el.
  Variables M P : list (list el).

  Definition nthe (l : list el) (i : nat) : el := nth i l zero.
  Definition nthme (m : list (list el)) (i j : nat) : el := nth j (nth i m []) zero.

  (* func ark(state, c, it): state[i].Add(state[i], c[it+i]) *)
  Definition ark_l (st : list el) (it : nat) : list el :=
    map (fun ix => addGeneric (snd ix) (nthe C (it + fst ix)))
        (combine (seq 0 (length st)) st).

  (* func mix(state, t, m): newState[i].SetUint64(0);
     for j { mul.Mul(m[j][i], state[j]); newState[i].Add(newState[i], mul) } *)
  Definition mix_l (m : list (list el)) (st : list el) : list el :=
    map (fun i =>
           fold_left (fun acc jx => addGeneric acc (mulGeneric (nthme m (fst jx) i) (snd jx)))
                     (combine (seq 0 (length st)) st) (setUint64 0))
        (seq 0 t).

  (* func exp5state(state) *)
  Definition exp5state_l (st : list el) : list el := map exp5_l st.

  Definition first_full_l (st : list el) : list el :=
    fold_left (fun s i => mix_l M (ark_l (exp5state_l s) ((i + 1) * t)))
              (seq 0 (RF / 2 - 1)) st.

  (* one sparse partial round i:
       exp5(state[0]); state[0].Add(state[0], C[(nRoundsF/2+1)*t+i])
       newState0 := zero(); for j { mul.Mul(S[(t*2-1)*i+j], state[j]);
                                    newState0.Add(newState0, mul) }
       for k := 1; k < t; k++ { state[k].Add(state[k], mul.Mul(state[0], S[(t*2-1)*i+t+k-1])) }
       state[0] = newState0 *)
  Definition sparse_round_l (i : nat) (st : list el) : list el :=
    match st with
    | [] => []
    | s0 :: rest =>
        let s0 := addGeneric (exp5_l s0) (nthe C ((RF / 2 + 1) * t + i)) in
        let st1 := s0 :: rest in
        let new0 :=
          fold_left (fun acc jx =>
                       addGeneric acc (mulGeneric (nthe S ((t * 2 - 1) * i + fst jx)) (snd jx)))
                    (combine (seq 0 (length st1)) st1) zero in
        let rest' :=
          map (fun kx => addGeneric (snd kx)
                           (mulGeneric s0 (nthe S ((t * 2 - 1) * i + t + fst kx - 1))))
              (combine (seq 1 (length rest)) rest) in
        new0 :: rest'
    end.

  Definition last_full_l (st : list el) : list el :=
    fold_left (fun s i => mix_l M (ark_l (exp5state_l s) ((RF / 2 + 1) * t + RP + i * t)))
              (seq 0 (RF / 2 - 1)) st.

  Definition perm_opt_limbs (st : list el) : list el :=
    let st := ark_l st 0 in
    let st := first_full_l st in
    let st := mix_l P (ark_l (exp5state_l st) ((RF / 2) * t)) in
    let st := fold_left (fun s i => sparse_round_l i s) (seq 0 RP) st in
    let st := last_full_l st in
    mix_l M (exp5state_l st).
End OptL.

(* per width: (RP, C, S, M, P) as elements *)
Definition lptable := (nat * list el * list el * list (list el) * list (list el))%type.

(* poseidon/constants.go init(): every hexadecimal string goes through
   big.Int.SetString and ff.NewElement().SetBigInt *)
Definition ltable_of (tb : ptable) : lptable :=
  let '(RP, C, S_, M, P) := tb in
  (RP, map setBigInt C, map setBigInt S_, map (map setBigInt) M, map (map setBigInt) P).

Section PoseidonL.
  Variable NROUNDSF : nat.
  Variable ltables : list lptable.

  (* the guards use constants.Q (utils.CheckBigInt*InField) *)
  Definition HashWithStateEx_limbs (inpBI : list Z) (initState : Z) (nOuts : Z)
    : res (list Z) :=
    let n := length inpBI in
    let t := S n in
    if Nat.eqb n 0 || Nat.ltb (length ltables) n then Err
    else if negb (CheckBigIntArrayInField Gen.CurveConsts.Q inpBI) then Err
    else if (nOuts <? 1) || (Z.of_nat t <? nOuts) then Err
    else
      let inp := BigIntArrayToElementArray inpBI in
      match nth_error ltables (t - 2) with
      | None => Panic
      | Some (RP, C, S_, M, P) =>
          if negb (CheckBigIntInField Gen.CurveConsts.Q initState) then Err
          else
            let state := setBigInt initState :: inp in
            let st := perm_opt_limbs t NROUNDSF RP C S_ M P state in
            Ok (map toBigIntRegular (firstn (Z.to_nat nOuts) st))
      end.
End PoseidonL.

(* ------------------------------------------------------------------ *)
(** * babyjub/babyjub.go: projective arithmetic *)

Definition lpoint := (el * el * el)%type.

Section CurveL.
  (* the package variables Aff, Dff *)
  Variables Aff Dff : el.

  (* func (p *PointProjective) Add(q, o *PointProjective) *)
  Definition padd_limbs (P Q : lpoint) : lpoint :=
    let '(x1, y1, z1) := P in
    let '(x2, y2, z2) := Q in
    let a := mulGeneric z1 z2 in
    let b := square a in
    let c := mulGeneric x1 x2 in
    let d := mulGeneric y1 y2 in
    let e := mulGeneric Dff c in
    let e := mulGeneric e d in
    let f := subGeneric b e in
    let g := addGeneric b e in
    let x1y1 := addGeneric x1 y1 in
    let x2y2 := addGeneric x2 y2 in
    let x3 := mulGeneric x1y1 x2y2 in
    let x3 := subGeneric x3 c in
    let x3 := subGeneric x3 d in
    let x3 := mulGeneric x3 a in
    let x3 := mulGeneric x3 f in
    let ac := mulGeneric Aff c in
    let y3 := subGeneric d ac in
    let y3 := mulGeneric y3 a in
    let y3 := mulGeneric y3 g in
    let z3 := mulGeneric f g in
    (x3, y3, z3).

  (* func (p *PointProjective) Affine() *Point.
     if p.Z.Equal(ff.NewElement().SetZero()) { return (0, 0) };
     None: Inverse ran out of fuel (never, Proofs/LimbComposeCurve.v) *)
  Definition paffine_limbs (P : lpoint) : option point :=
    let '(x, y, z) := P in
    if equal z zero then Some (0, 0)
    else
      match inverse z with
      | None => None
      | Some zinv =>
          let x := mulGeneric x zinv in
          let y := mulGeneric y zinv in
          Some (toBigIntRegular x, toBigIntRegular y)
      end.

  (* func (p *Point) Projective() *PointProjective *)
  Definition pproj_limbs (P : point) : lpoint :=
    let '(x, y) := P in (setBigInt x, setBigInt y, one).

  (* the loop of Point.Mul *)
  Fixpoint mul_loop_limbs (n : nat) (i : Z) (s : Z) (res ex : lpoint) : lpoint :=
    match n with
    | O => res
    | S n' =>
        let res' := if Z.testbit s i then padd_limbs res ex else res in
        mul_loop_limbs n' (i + 1) s res' (padd_limbs ex ex)
    end.

  (* func (p *Point) Mul(s *big.Int, q *Point) *Point;
     resProj = (SetZero, SetOne, SetOne) *)
  Definition pmul_limbs_gen (s : Z) (P : point) : option point :=
    paffine_limbs
      (mul_loop_limbs (Z.to_nat (bitlen s)) 0 s (zero, one, one) (pproj_limbs P)).
End CurveL.

(* babyjub init(): Aff = ff.NewElement().SetBigInt(A), Dff = ...SetBigInt(D) *)
Definition Aff : el := setBigInt Model.BabyJub.A.
Definition Dff : el := setBigInt Model.BabyJub.D.
Definition Add_limbs : lpoint -> lpoint -> lpoint := padd_limbs Aff Dff.
Definition pmul_limbs : Z -> point -> option point := pmul_limbs_gen Aff Dff.

(* ------------------------------------------------------------------ *)
(** * mimc7/mimc7.go *)

(* t2 := Square(t); t4 := Square(t2); r = Mul(Mul(t4, t2), t) *)
Definition pow7_l (t : el) : el :=
  let t2 := square t in
  let t4 := square t2 in
  mulGeneric (mulGeneric t4 t2) t.

(* the round loop of MIMC7HashGeneric / MIMC7Hash; [r] is nil before the
   first round (never read there) *)
Fixpoint rounds_l (cts : list el) (first : bool) (xIn k r : el) : el :=
  match cts with
  | [] => r
  | c :: cts' =>
      let t := if first then addGeneric xIn k
               else addGeneric (addGeneric r k) c in
      rounds_l cts' false xIn k (pow7_l t)
  end.

(* func getConstants: cts[0] = ff.NewElement(); cts[i] = SetBigInt(c mod Q) *)
Definition getConstants_l (nRounds : nat) : list el :=
  zero :: map setBigInt (Mimc7.chain (nRounds - 1) (Lib.Octets.be_val (Spec.Keccak.keccak256 Mimc7.SEED))).

(* func MIMC7HashGeneric(xInBI, kBI *big.Int, nRounds int) *big.Int *)
Definition MIMC7HashGeneric_l (xInBI kBI nRounds : Z) : res Z :=
  if nRounds <=? 0 then Panic
  else
    let xIn := setBigInt xInBI in
    let k := setBigInt kBI in
    let r := rounds_l (getConstants_l (Z.to_nat nRounds)) true xIn k zero in
    Ok (toBigIntRegular (addGeneric r k)).

Definition constants_cts_l : list el := getConstants_l (Z.to_nat Mimc7.fixedRounds).

(* func MIMC7Hash(xInBI, kBI *big.Int) *big.Int *)
Definition MIMC7Hash_l (xInBI kBI : Z) : Z :=
  let xIn := setBigInt xInBI in
  let k := setBigInt kBI in
  let r := rounds_l constants_cts_l true xIn k zero in
  toBigIntRegular (addGeneric r k).

(* func HashGeneric / func Hash: big.Int level around the two functions above *)
Definition HashGeneric_l (iv : Z) (arr : list Z) (nRounds : Z) : res Z :=
  if negb (CheckBigIntArrayInField Mimc7.Q arr) then Err
  else
    fold_left (fun r m => bind r (fun r => MIMC7HashGeneric_l r m nRounds)) arr (Ok iv).

Definition Hash_l (arr : list Z) (key : option Z) : res Z :=
  if negb (CheckBigIntArrayInField Mimc7.Q arr) then Err
  else
    let r0 := match key with Some k => k | None => 0 end in
    Ok (fold_left (fun r m => (r + m + MIMC7Hash_l m r) mod Mimc7.Q) arr r0).

(* mimc7/mimc7.go at value level.  keccak256.Hash on one slice is executed by
   the Keccak-256 specification (Spec/Keccak.v; C20 ties the wrapper to it);
   ff.Element arithmetic is its value-level meaning (C05).  The modulus, the
   seed string, the fixed round count and the chunk size are the regenerated
   constants of the repository. *)
From Coq Require Import ZArith List Bool.
From Verif Require Import Lib.Octets Spec.Keccak Model.Outcome Model.Utils.
From Verif Require Gen.CurveConsts.
Import ListNotations.
Local Open Scope Z_scope.

Definition Q : Z := Gen.CurveConsts.Q.
Definition SEED : bytes := Gen.CurveConsts.mimc7_seed.
Definition fixedRounds : Z := nth 0 Gen.CurveConsts.lits_mimc7_generateConstantsData 0.
Definition chunkLen : nat := Z.to_nat (nth 0 Gen.CurveConsts.lits_mimc7_HashBytes 0).

(* c = new(big.Int).SetBytes(keccak256.Hash(c.FillBytes(make([]byte, 32)))) *)
Definition chain_step (c : Z) : Z := be_val (keccak256 (be_bytes 32 c)).

(* the constants cts[1..n] produced by the loop of getConstants, given the
   current chain value c *)
Fixpoint chain (n : nat) (c : Z) : list Z :=
  match n with
  | O => []
  | S n' => let c' := chain_step c in (c' mod Q) :: chain n' c'
  end.

(* func getConstants(seed string, nRounds int) []*ff.Element; nRounds >= 1 *)
Definition getConstants (nRounds : nat) : list Z :=
  0 :: chain (nRounds - 1) (be_val (keccak256 SEED)).

(* the round loop shared by MIMC7HashGeneric and MIMC7Hash: round i of n *)
Definition pow7 (t : Z) : Z :=
  let t2 := (t * t) mod Q in
  let t4 := (t2 * t2) mod Q in
  (((t4 * t2) mod Q) * t) mod Q.

Fixpoint rounds (cts : list Z) (first : bool) (xIn k r : Z) : Z :=
  match cts with
  | [] => r
  | c :: cts' =>
      let t := if first then (xIn + k) mod Q else (((r + k) mod Q) + c) mod Q in
      rounds cts' false xIn k (pow7 t)
  end.

(* func MIMC7HashGeneric(xInBI, kBI *big.Int, nRounds int) *big.Int.
   nRounds <= 0 dereferences a nil *ff.Element (or makes a negative-length
   slice): Panic. *)
Definition MIMC7HashGeneric (xInBI kBI nRounds : Z) : res Z :=
  if nRounds <=? 0 then Panic
  else
    let xIn := xInBI mod Q in
    let k := kBI mod Q in
    let r := rounds (getConstants (Z.to_nat nRounds)) true xIn k 0 in
    Ok ((r + k) mod Q).

(* var constants = generateConstantsData(): the table of the fixed round count,
   computed once at package initialisation *)
Definition constants_cts : list Z := getConstants (Z.to_nat fixedRounds).

(* func MIMC7Hash(xInBI, kBI *big.Int) *big.Int : the fixed 91-round table *)
Definition MIMC7Hash (xInBI kBI : Z) : Z :=
  let xIn := xInBI mod Q in
  let k := kBI mod Q in
  let r := rounds constants_cts true xIn k 0 in
  (r + k) mod Q.

(* func HashGeneric(iv *big.Int, arr []*big.Int, nRounds int) (big.Int, error) *)
Definition HashGeneric (iv : Z) (arr : list Z) (nRounds : Z) : res Z :=
  if negb (CheckBigIntArrayInField Q arr) then Err
  else
    fold_left (fun r m => bind r (fun r => MIMC7HashGeneric r m nRounds)) arr (Ok iv).

(* func Hash(arr []*big.Int, key *big.Int) (big.Int, error); key = None is nil *)
Definition Hash (arr : list Z) (key : option Z) : res Z :=
  if negb (CheckBigIntArrayInField Q arr) then Err
  else
    let r0 := match key with Some k => k | None => 0 end in
    Ok (fold_left (fun r m => (r + m + MIMC7Hash m r) mod Q) arr r0).

(* the chunking of HashBytes: n-byte little-endian chunks, last one shorter *)
Fixpoint chunks_fuel (fuel : nat) (n : nat) (b : bytes) : list Z :=
  match fuel with
  | O => []
  | S f =>
      match b with
      | [] => []
      | _ => SetBigIntFromLEBytes (firstn n b) :: chunks_fuel f n (skipn n b)
      end
  end.
Definition chunks (n : nat) (b : bytes) : list Z := chunks_fuel (length b) n b.

(* func HashBytes(b []byte) (big.Int, error) *)
Definition HashBytes (b : bytes) : res Z := Hash (chunks chunkLen b) None.

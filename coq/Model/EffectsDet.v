(* Deterministic programs on top of the cell-level effect semantics of
   Model/Effects.v (definitions only; proofs in Proofs/EffectsDetProofs.v).

   The semantics [exec]/[run] of the effect IR is nondeterministic and havocs
   the written values: it says which cells a call MAY read / write, not which
   values it computes.  The trace-level interleaving theorems of
   Proofs/EffectsProofs.v therefore speak about traces whose written values
   are fixed in advance.  Here a thread is a DETERMINISTIC PROGRAM: a strategy
   that computes its next action (and finally its result) from what it has
   read so far.  Its trace is then computed from the heap, not given a priori,
   so that "same RESULT when repeated / under every schedule" becomes a
   statement that can be proved.

   DESIGN NOTE (strategy argument).  A strategy of type [list Z -> action]
   (argument = the values read so far) cannot make progress after a write or
   a field marker: the list of values read is unchanged, so the strategy would
   be asked the same question again and answer the same write forever.  The
   strategy therefore also receives its own step counter (the number of events
   it has emitted so far, a program counter):
       prog := nat -> list Z -> action.
   Everything a sequential program knows about its own past is determined by
   these two arguments (the events it emitted are themselves a function of
   them), so nothing is lost. *)
From Coq Require Import String List Bool Arith ZArith Lia.
Import ListNotations.
From Verif Require Import Model.Effects.
Open Scope string_scope.

(* ------------------------------------------------------------------ *)
(** * Programs *)

(* One atomic step of a program.  [AField] mirrors the field-store marker
   [EvF] of the IR semantics so that traces line up; [ADone res] ends the
   program with returned value(s) [res].  An allocation is, as in the IR
   semantics ([ex_alloc]), the write of an initial value to a fresh cell: the
   program takes the cell from its private arena [lo, hi) (see [conforms]). *)
Inductive action :=
| ARead (c : cell)
| AWrite (c : cell) (v : Z)
| AField (fld : string) (rs : list root)
| ADone (result : list Z).

(* [p pc o]: the action taken after [pc] events have been emitted and the
   values [o] have been read (most recent first, like [snd tstate]). *)
Definition prog := nat -> list Z -> action.

(* Running [p] alone from program counter [pc], observations [o] and heap [h]
   for at most [fuel] steps: the trace and the result ([None] = out of fuel). *)
Fixpoint prog_from (p : prog) (fuel : nat) (pc : nat) (o : list Z) (h : cell -> Z)
  : list event * option (list Z) :=
  match fuel with
  | 0 => ([], None)
  | S fuel' =>
      match p pc o with
      | ARead c =>
          let (tr, r) := prog_from p fuel' (S pc) (h c :: o) h in (EvR c :: tr, r)
      | AWrite c v =>
          let (tr, r) := prog_from p fuel' (S pc) o (upd h c v) in (EvW c v :: tr, r)
      | AField fld rs =>
          let (tr, r) := prog_from p fuel' (S pc) o h in (EvF fld rs :: tr, r)
      | ADone res => ([], Some res)
      end
  end.

(* trace and result of running [p] alone from heap [h]; the final heap is
   [apply_tr (fst (prog_trace p h fuel)) h] (see [prog_from_split], [prun_single_alone], [conforms_run]) *)
Definition prog_trace (p : prog) (h : cell -> Z) (fuel : nat)
  : list event * option (list Z) :=
  prog_from p fuel 0 [] h.

(* [p] run alone from [h] terminates with trace [tr] and result [res] *)
Definition alone (p : prog) (h : cell -> Z) (tr : list event) (res : list Z) : Prop :=
  exists fuel, prog_trace p h fuel = (tr, Some res).

(* the cells of a trace that are read before the trace itself has written
   them ([w] = cells already written): the INPUTS of the run *)
Fixpoint ext_reads (tr : list event) (w : list cell) : list cell :=
  match tr with
  | [] => []
  | EvR c :: t => if existsb (Nat.eqb c) w then ext_reads t w else c :: ext_reads t w
  | EvW c _ :: t => ext_reads t (c :: w)
  | EvF _ _ :: t => ext_reads t w
  end.

(* ------------------------------------------------------------------ *)
(** * Scheduler over programs *)

(* state of a thread: values read so far (most recent first), events emitted
   so far (in program order), result once done *)
Record pstate := mkps { ps_obs : list Z; ps_emit : list event; ps_res : option (list Z) }.

Definition pinit : pstate := mkps [] [] None.

(* one scheduled step of a thread running [p]: evaluate the strategy on the
   thread's own observations and perform that one action atomically on the
   shared heap; a finished thread stutters *)
Definition pstep (p : prog) (h : cell -> Z) (s : pstate) : (cell -> Z) * pstate :=
  match ps_res s with
  | Some _ => (h, s)
  | None =>
      match p (length (ps_emit s)) (ps_obs s) with
      | ARead c => (h, mkps (h c :: ps_obs s) (ps_emit s ++ [EvR c]) None)
      | AWrite c v => (upd h c v, mkps (ps_obs s) (ps_emit s ++ [EvW c v]) None)
      | AField fld rs => (h, mkps (ps_obs s) (ps_emit s ++ [EvF fld rs]) None)
      | ADone res => (h, mkps (ps_obs s) (ps_emit s) (Some res))
      end
  end.

Definition set_pstate (pss : nat -> pstate) (i : nat) (s : pstate) : nat -> pstate :=
  fun j => if Nat.eqb j i then s else pss j.

(* a family of threads indexed by nat ([None] for all but finitely many: any
   number of goroutines); a schedule is a list of thread ids; scheduling an
   absent thread is a no-op *)
Fixpoint prun_sched (ps : nat -> option prog) (sch : list nat) (h : cell -> Z)
         (pss : nat -> pstate) : (cell -> Z) * (nat -> pstate) :=
  match sch with
  | [] => (h, pss)
  | i :: sch' =>
      match ps i with
      | None => prun_sched ps sch' h pss
      | Some p =>
          let (h', s') := pstep p h (pss i) in
          prun_sched ps sch' h' (set_pstate pss i s')
      end
  end.

Definition pinit_all : nat -> pstate := fun _ => pinit.

(* every thread has returned *)
Definition pcomplete (ps : nat -> option prog) (pss : nat -> pstate) : Prop :=
  forall i p, ps i = Some p -> ps_res (pss i) <> None.

(* ------------------------------------------------------------------ *)
(** * Conformance of a program to the effect IR of a function *)

(* [p] is a deterministic implementation of function [f] of table [tbl] on
   argument regions [ps], allocating in its private arena [lo, hi): from
   EVERY heap it terminates, and its trace is one of the traces that the IR
   of [f] allows (so its accesses are among those the IR allows).  The final
   heap [h'] of the [run] is the replay [apply_tr tr h] of the trace
   ([conforms_heap]). *)
Definition conforms (tbl : fn_table) (gl : string -> region)
           (p : prog) (f : string) (ps : list region) (lo hi : nat) : Prop :=
  forall h, exists fuel tr res n h' hi' ret,
    prog_trace p h fuel = (tr, Some res) /\ hi' <= hi /\
    run tbl gl n f ps h lo h' hi' tr ret.

(* A thread of the concurrent theorem: a call of [pt_f] on argument regions
   [pt_ps], implemented by program [pt_prog] allocating in [pt_lo, pt_hi);
   [pt_fuel] is a number of steps within which the program finishes when run
   alone from the common initial heap (it only serves to NAME the alone run
   as a function of the thread: [pt_tr], [pt_result]). *)
Record pthread := mkpthread {
  pt_f : string; pt_ps : list region; pt_lo : nat; pt_hi : nat;
  pt_prog : prog; pt_fuel : nat }.

Definition pt_tr (h0 : cell -> Z) (t : pthread) : list event :=
  fst (prog_trace (pt_prog t) h0 (pt_fuel t)).
Definition pt_result (h0 : cell -> Z) (t : pthread) : list Z :=
  match snd (prog_trace (pt_prog t) h0 (pt_fuel t)) with Some r => r | None => [] end.

Definition progs_of (ths : nat -> option pthread) : nat -> option prog :=
  fun i => match ths i with Some t => Some (pt_prog t) | None => None end.
Definition ptrs_of (h0 : cell -> Z) (ths : nat -> option pthread) : nat -> list event :=
  fun i => match ths i with Some t => pt_tr h0 t | None => [] end.
Definition press_of (h0 : cell -> Z) (ths : nat -> option pthread) : nat -> list Z :=
  fun i => match ths i with Some t => pt_result h0 t | None => [] end.

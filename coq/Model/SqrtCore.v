(* Value-level model of Element.Legendre and Element.Sqrt (ff/element.go and
   ffg/element.go share the algorithm; only the constants differ).  Values are
   the regular (non-Montgomery) residues; C05/C09 tie the limb code to the
   value-level mul/square/exp used here.  Parametric in the modulus p, the two
   hard-coded exponents, the 2-adicity r0 and the hard-coded g0 = nonresidue^s. *)
From Coq Require Import ZArith List.
From Verif Require Import Lib.Powmod.
Local Open Scope Z_scope.

Inductive sqrt_res := SqrtOk (z : Z) | SqrtNone | SqrtOutOfFuel.

Section Sqrt.
  Variables (p legendreExp sqrtExp g0 r0 : Z).

  Definition fm (x y : Z) : Z := (x * y) mod p.

  (* t squared n times *)
  Fixpoint sqn (n : nat) (t : Z) : Z :=
    match n with O => t | S n' => sqn n' (fm t t) end.

  (* func (z *Element) Legendre() int *)
  Definition legendre_model (x : Z) : Z :=
    let l := powmod x legendreExp p in
    if Z.eqb l 0 then 0 else if Z.eqb l 1 then 1 else -1.

  (* inner loop: for t != 1 { t.Square(&t); m++ } ; fuel-bounded *)
  Fixpoint find_m (fuel : nat) (t m : Z) : option Z :=
    match fuel with
    | O => None
    | S f => if Z.eqb t 1 then Some m else find_m f (fm t t) (m + 1)
    end.

  (* outer for{} loop of Sqrt *)
  Fixpoint ts_loop (fuel : nat) (y b g r : Z) : option Z :=
    match fuel with
    | O => None
    | S f =>
        match find_m (Z.to_nat r + 1) b 0 with
        | None => None
        | Some m =>
            if Z.eqb m 0 then Some y
            else
              let t := sqn (Z.to_nat (r - m - 1)) g in
              let g' := fm t t in
              ts_loop f (fm y t) (fm b g') g' m
        end
    end.

  (* func (z *Element) Sqrt(x *Element) *Element : SqrtNone = "returns nil,
     z unchanged"; SqrtOutOfFuel never happens (theorem) *)
  Definition sqrt_model (x : Z) : sqrt_res :=
    let w := powmod x sqrtExp p in
    let y := fm x w in
    let b := fm w y in
    let t := sqn (Z.to_nat (r0 - 1)) b in
    if Z.eqb t 0 then SqrtOk 0
    else if negb (Z.eqb t 1) then SqrtNone
    else match ts_loop (Z.to_nat r0 + 1) y b g0 r0 with
         | Some z => SqrtOk z
         | None => SqrtOutOfFuel
         end.
End Sqrt.

(* ff/element.go: conversions, comparisons, Legendre and Sqrt at limb level,
   on top of Model/FfLimbs.v.  Literals come from Gen/FfConsts.v. *)
From Coq Require Import ZArith List Bool.
From Verif Require Import Lib.Params Lib.Words Lib.Octets Lib.Decimal Model.Outcome Model.FfLimbs.
From Verif Require Gen.FfConsts.
Import ListNotations.
Local Open Scope Z_scope.

Definition modulus : Z := FfConsts.modulus.

(* limbs of a non-negative integer below 2^256 (big.Int.Bits on 64-bit words) *)
Definition limbs_of (v : Z) : el :=
  (v mod W, (v / W) mod W, (v / W ^ 2) mod W, (v / W ^ 3) mod W).

(* func (z *Element) setBigInt(v), assumes 0 <= v < q *)
Definition setBigInt_inner (v : Z) : el := toMont (limbs_of v).

(* func (z *Element) SetBigInt(v *big.Int) *Element *)
Definition setBigInt (v : Z) : el :=
  let z := zero in
  match Z.compare v modulus with
  | Eq => z
  | c =>
      if negb (match c with Gt => true | _ => false end) && negb (v <? 0)
      then setBigInt_inner v
      else setBigInt_inner (v mod modulus)
  end.

(* func (z *Element) SetBytes(e []byte) *)
Definition setBytes (e : bytes) : el := setBigInt (be_val e).
(* func (z *Element) SetString(s string): panics when s is not a base-10 integer *)
Definition setString (s : bytes) : res el :=
  match parse_dec s with Some v => Ok (setBigInt v) | None => Panic end.

(* func (z *Element) ToBigInt(res): the limbs read as a big-endian integer *)
Definition toBigInt (z : el) : Z := val z.
(* func (z Element) ToBigIntRegular(res) *)
Definition toBigIntRegular (z : el) : Z := toBigInt (fromMontGeneric z).
(* func (z *Element) Bytes() [32]byte *)
Definition bytesOf (z : el) : bytes :=
  let '(z0, z1, z2, z3) := fromMontGeneric z in
  be_bytes 8 z3 ++ be_bytes 8 z2 ++ be_bytes 8 z1 ++ be_bytes 8 z0.

Definition isUint64 (z : el) : bool :=
  let '(z0, z1, z2, z3) := z in or64 (or64 z3 z2) z1 =? 0.
(* func (z *Element) String() string *)
Definition stringOf (z : el) : bytes :=
  let zz := fromMontGeneric z in
  if isUint64 zz then dec_of_nonneg (let '(z0, _, _, _) := zz in z0)
  else
    let zzNeg := fromMontGeneric (negGeneric z) in
    if isUint64 zzNeg then 45 :: dec_of_nonneg (let '(n0, _, _, _) := zzNeg in n0)
    else dec_of_Z (toBigInt zz).

(* func (z *Element) Cmp(x *Element) int *)
Definition cmp (z x : el) : Z :=
  let '(z0, z1, z2, z3) := fromMontGeneric z in
  let '(x0, x1, x2, x3) := fromMontGeneric x in
  if z3 >? x3 then 1 else if z3 <? x3 then -1
  else if z2 >? x2 then 1 else if z2 <? x2 then -1
  else if z1 >? x1 then 1 else if z1 <? x1 then -1
  else if z0 >? x0 then 1 else if z0 <? x0 then -1
  else 0.

(* func (z *Element) LexicographicallyLargest() bool *)
Definition lexLargest (z : el) : bool :=
  let '(z0, z1, z2, z3) := fromMontGeneric z in
  let h := FfConsts.biglits_Element_LexicographicallyLargest in
  let '(_, b) := sub64 z0 (nth 0 h 0) 0 in
  let '(_, b) := sub64 z1 (nth 1 h 0) b in
  let '(_, b) := sub64 z2 (nth 2 h 0) b in
  let '(_, b) := sub64 z3 (nth 3 h 0) b in
  b =? 0.

(* the literal comparison "l == 1" (Montgomery one) written inline in Legendre/Sqrt *)
Definition is_one_lits (lits : list Z) (off : nat) (l : el) : bool :=
  let '(l0, l1, l2, l3) := l in
  (l3 =? nth off lits 0) && (l2 =? nth (off + 1) lits 0) &&
  (l1 =? nth (off + 2) lits 0) && (l0 =? nth (off + 3) lits 0).

(* func (z *Element) Legendre() int *)
Definition legendre (z : el) : Z :=
  let l := exp z FfConsts.legendreExp in
  if isZero l then 0
  else if is_one_lits FfConsts.biglits_Element_Legendre 0 l then 1 else -1.

Fixpoint sqn (n : nat) (t : el) : el :=
  match n with O => t | S n' => sqn n' (square t) end.

Fixpoint find_m (fuel : nat) (t : el) (m : Z) : option Z :=
  match fuel with
  | O => None
  | S f => if is_one_lits FfConsts.biglits_Element_Sqrt 8 t then Some m
           else find_m f (square t) (m + 1)
  end.

Fixpoint ts_loop (fuel : nat) (y b g : el) (r : Z) : option el :=
  match fuel with
  | O => None
  | S f =>
      match find_m (Z.to_nat r + 1) b 0 with
      | None => None
      | Some m =>
          if m =? 0 then Some y
          else
            let t := sqn (Z.to_nat (r - m - 1)) g in
            let g' := square t in
            ts_loop f (mulGeneric y t) (mulGeneric b g') g' m
      end
  end.

Inductive sqrt_out := SqSome (z : el) | SqNil | SqOutOfFuel.

(* func (z *Element) Sqrt(x *Element) *Element : SqNil = returns nil, z unchanged *)
Definition sqrt (x : el) : sqrt_out :=
  let w := exp x FfConsts.sqrtExp in
  let y := mulGeneric x w in
  let b := mulGeneric w y in
  let g := (nth 0 FfConsts.biglits_Element_Sqrt 0, nth 1 FfConsts.biglits_Element_Sqrt 0,
            nth 2 FfConsts.biglits_Element_Sqrt 0, nth 3 FfConsts.biglits_Element_Sqrt 0) in
  let r := FfConsts.sqrt_r in
  let t := sqn (Z.to_nat (r - 1)) b in
  if isZero t then SqSome zero
  else if negb (is_one_lits FfConsts.biglits_Element_Sqrt 4 t) then SqNil
  else match ts_loop (Z.to_nat r + 1) y b g r with
       | Some z => SqSome z
       | None => SqOutOfFuel
       end.

(* utils.BigIntArrayToElementArray / ElementArrayToBigIntArray *)
Definition BigIntArrayToElementArray (bi : list Z) : list el := map setBigInt bi.
Definition ElementArrayToBigIntArray (e : list el) : list Z := map toBigIntRegular e.

(* func (z *Element) Bit(i uint64) uint64: bit i of the limbs AS STORED (the Go
   documentation leaves the conversion from Montgomery form to the caller) *)
Definition len64 (x : Z) : Z := if x =? 0 then 0 else Z.log2 x + 1.   (* bits.Len64 *)
Definition bit (z : el) (i : Z) : Z :=
  let '(z0, z1, z2, z3) := z in
  let j := i / 64 in
  if j >=? 4 then 0
  else let w := if j =? 0 then z0 else if j =? 1 then z1 else if j =? 2 then z2 else z3 in
       (w / 2 ^ (i mod 64)) mod 2.
(* func (z *Element) BitLen() int *)
Definition bitLen (z : el) : Z :=
  let '(z0, z1, z2, z3) := z in
  if negb (z3 =? 0) then 192 + len64 z3
  else if negb (z2 =? 0) then 128 + len64 z2
  else if negb (z1 =? 0) then 64 + len64 z1
  else len64 z0.

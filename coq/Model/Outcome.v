(* Observable outcome of a modelled Go call: a value, a returned error, or a
   run-time panic.  Hangs are modelled by fuel and never occur (theorems). *)
Inductive res (A : Type) : Type := Ok (a : A) | Err | Panic.
Arguments Ok {A} a.
Arguments Err {A}.
Arguments Panic {A}.

Definition bind {A B} (r : res A) (f : A -> res B) : res B :=
  match r with Ok a => f a | Err => Err | Panic => Panic end.
Definition is_ok {A} (r : res A) : bool := match r with Ok _ => true | _ => false end.

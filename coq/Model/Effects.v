(* Cell-level effect model for C16 / C17 / C19.

   The effect IR below is GENERATED from the Go sources by /verif/tools/effgen
   (Gen/EffectsIR.v).  This file gives it a nondeterministic cell-level
   semantics (which cells may be read / written / returned) and defines the
   boolean analyses whose soundness is proved in Proofs/EffectsProofs.v and
   which are evaluated on the generated table in Proofs/EffectsVerdict.v. *)
From Coq Require Import String List Bool Arith ZArith Lia.
Import ListNotations.
Open Scope string_scope.

(* ------------------------------------------------------------------ *)
(** * The IR *)

(* A root denotes a region (a set of cells):
   RParam i  : everything reachable from parameter i at function entry
   RGlobal g : everything reachable from package-level variable g
   RLocal k  : the objects allocated at site k of the current call, or the
               objects returned by the call at site k
   RUnknown  : any cell *)
Inductive root :=
| RParam (i : nat)
| RGlobal (g : string)
| RLocal (k : nat)
| RUnknown.

Inductive op :=
| IAlloc (k : nat)
| IRead (rs : list root)
| IWrite (rs : list root) (fld : string)
| ICall (f : string) (args : list (list root)) (k : nat) (hint : list root)
| IReturn (direct reach : list root).

(* (must, op): must = true when the statement runs on every path that reaches
   the end of the body; a may-instruction can be skipped. *)
Definition instr := (bool * op)%type.
Definition fn_table := list (string * list instr).

Fixpoint lookup (tbl : fn_table) (f : string) : option (list instr) :=
  match tbl with
  | [] => None
  | (g, b) :: t => if String.eqb g f then Some b else lookup t f
  end.

(* ------------------------------------------------------------------ *)
(** * Semantics *)

Definition cell := nat.
Definition region := cell -> Prop.

(* EvR c: cell c is read; EvW c v: value v is written to cell c (an allocation
   is the write of the initial value to the fresh cell);
   EvF fld rs: a store into field fld of (one of) the roots rs was executed *)
Inductive event :=
| EvR (c : cell)
| EvW (c : cell) (v : Z)
| EvF (fld : string) (rs : list root).

Definition upd (h : cell -> Z) (c : cell) (v : Z) : cell -> Z :=
  fun c' => if Nat.eqb c' c then v else h c'.
Definition wr_all (h : cell -> Z) (cs : list (cell * Z)) : cell -> Z :=
  fold_left (fun h cv => upd h (fst cv) (snd cv)) cs h.
Definition ev_writes (cs : list (cell * Z)) : list event :=
  map (fun cv => EvW (fst cv) (snd cv)) cs.

(* heap contents, allocation pointer, local environment *)
Record st := mkst { sh : cell -> Z; sn : nat; sl : nat -> region }.

Definition rempty : region := fun _ => False.
Definition lempty : nat -> region := fun _ _ => False.

Definition denP (ps : list region) (i : nat) : region :=
  fun c => match nth_error ps i with Some P => P c | None => False end.

Section Sem.
  Variable tbl : fn_table.
  Variable gl : string -> region.   (* cells of the package-level variables *)

  Definition den (ps : list region) (le : nat -> region) (r : root) : region :=
    fun c => match r with
             | RParam i => denP ps i c
             | RGlobal g => gl g c
             | RLocal k => le k c
             | RUnknown => True
             end.

  Definition dens ps le (rs : list root) : region :=
    fun c => exists r, In r rs /\ den ps le r c.

  Definition bind (le : nat -> region) (k : nat) (R : region) : nat -> region :=
    fun k' c => (k' = k /\ R c) \/ le k' c.

  (* [exec n ps s body s' tr ret]: running [body] with parameter regions [ps]
     from state [s] may end in [s'] with access trace [tr]; [ret] is the pair
     (direct, reach) of regions of the executed IReturn, if any.  [n] bounds
     the call depth. *)
  Inductive exec : nat -> list region -> st -> list instr -> st -> list event ->
                   option (region * region) -> Prop :=
  | ex_nil : forall n ps s, exec n ps s [] s [] None
  | ex_skip : forall n ps s o rest s' tr r,
      exec n ps s rest s' tr r ->
      exec n ps s ((false, o) :: rest) s' tr r
  | ex_alloc : forall n ps s b k rest s' tr r v,
      exec n ps (mkst (upd (sh s) (sn s) v) (S (sn s))
                      (bind (sl s) k (fun c => c = sn s))) rest s' tr r ->
      exec n ps s ((b, IAlloc k) :: rest) s' (EvW (sn s) v :: tr) r
  | ex_read : forall n ps s b rs cs rest s' tr r,
      Forall (dens ps (sl s) rs) cs ->
      exec n ps s rest s' tr r ->
      exec n ps s ((b, IRead rs) :: rest) s' (map EvR cs ++ tr) r
  | ex_write : forall n ps s b rs fld cs rest s' tr r,
      Forall (fun cv => dens ps (sl s) rs (fst cv)) cs ->
      exec n ps (mkst (wr_all (sh s) cs) (sn s) (sl s)) rest s' tr r ->
      exec n ps s ((b, IWrite rs fld) :: rest) s' (EvF fld rs :: ev_writes cs ++ tr) r
  | ex_return : forall n ps s b d rr rest,
      exec n ps s ((b, IReturn d rr) :: rest) s []
           (Some (dens ps (sl s) d, dens ps (sl s) rr))
  | ex_call : forall n ps s b f args k hint rest body s1 tr1 r1 s' tr2 r,
      lookup tbl f = Some body ->
      exec n (map (fun a => dens ps (sl s) a) args)
           (mkst (sh s) (sn s) lempty) body s1 tr1 r1 ->
      exec (S n) ps
           (mkst (sh s1) (sn s1)
                 (bind (sl s) k (match r1 with Some (_, R) => R | None => rempty end)))
           rest s' tr2 r ->
      exec (S n) ps s ((b, ICall f args k hint) :: rest) s' (tr1 ++ tr2) r.

  (* running function [f] on argument regions [ps] *)
  Definition run (n : nat) (f : string) (ps : list region) (h : cell -> Z) (nx : nat)
             (h' : cell -> Z) (nx' : nat) (tr : list event)
             (ret : option (region * region)) : Prop :=
    exists body le', lookup tbl f = Some body /\
      exec n ps (mkst h nx lempty) body (mkst h' nx' le') tr ret.
End Sem.

(* ------------------------------------------------------------------ *)
(** * Analyses (all computable) *)

Definition root_eqb (a b : root) : bool :=
  match a, b with
  | RParam i, RParam j => Nat.eqb i j
  | RGlobal g, RGlobal h => String.eqb g h
  | RLocal i, RLocal j => Nat.eqb i j
  | RUnknown, RUnknown => true
  | _, _ => false
  end.

Definition memr (r : root) (l : list root) : bool := existsb (root_eqb r) l.
Definition inclr (a b : list root) : bool := forallb (fun r => memr r b) a.

Definition nonlocal (r : root) : bool :=
  match r with RLocal _ => false | _ => true end.
Definition known (r : root) : bool :=
  match r with RUnknown => false | _ => true end.

(* the non-local roots that call-result local k may alias, as claimed by the
   translator (checked by [hints_ok] below) *)
Definition hint_of (body : list instr) (k : nat) : list root :=
  flat_map (fun i => match snd i with
                     | ICall _ _ k' h => if Nat.eqb k' k then h else []
                     | _ => []
                     end) body.

Definition expand (body : list instr) (r : root) : list root :=
  match r with RLocal k => hint_of body k | _ => [r] end.
Definition expands body (rs : list root) : list root := flat_map (expand body) rs.

(* callee root -> caller roots *)
Definition subst (args : list (list root)) (r : root) : list root :=
  match r with
  | RParam i => match nth_error args i with Some a => a | None => [] end
  | _ => [r]
  end.
Definition substs args (rs : list root) : list root := flat_map (subst args) rs.

Section Analysis.
  Variable tbl : fn_table.

  (* roots written by a body, given the summaries [ws] of its callees *)
  Definition wbody (ws : string -> list root) (body0 : list instr) : list root :=
    flat_map (fun i => match snd i with
                       | IWrite rs _ => expands body0 rs
                       | ICall g args _ _ => expands body0 (substs args (ws g))
                       | _ => []
                       end) body0.

  (* roots returned *)
  Definition rbody (body0 : list instr) : list root :=
    flat_map (fun i => match snd i with
                       | IReturn _ reach => expands body0 reach
                       | _ => []
                       end) body0.

  Fixpoint wsum (n : nat) (f : string) : list root :=
    match n with
    | 0 => [RUnknown]
    | S n => match lookup tbl f with
             | None => [RUnknown]
             | Some body => wbody (wsum n) body
             end
    end.

  Definition rsum (f : string) : list root :=
    match lookup tbl f with
    | None => [RUnknown]
    | Some body => rbody body
    end.

  Definition roots_of (o : op) : list root :=
    match o with
    | IAlloc _ => []
    | IRead rs => rs
    | IWrite rs _ => rs
    | ICall _ args _ h => concat args ++ h
    | IReturn d r => d ++ r
    end.

  (* per-instruction well-formedness: no RUnknown, hints are non-local and
     cover what the callee may return *)
  Definition instr_ok (body0 : list instr) (i : instr) : bool :=
    forallb known (roots_of (snd i)) &&
    match snd i with
    | ICall g args k h =>
        forallb nonlocal h &&
        inclr (expands body0 (substs args (rsum g))) h
    | _ => true
    end.

  (* [ok n f]: f and all its transitive callees are well-formed, the call
     depth is below n *)
  Fixpoint ok (n : nat) (f : string) : bool :=
    match n with
    | 0 => false
    | S n => match lookup tbl f with
             | None => false
             | Some body =>
                 forallb (instr_ok body) body &&
                 forallb (fun i => match snd i with
                                   | ICall g _ _ _ => ok n g
                                   | _ => true
                                   end) body
             end
    end.

  Definition fuel : nat := 24.

  (* documented destinations: (function, parameter indices it may write) *)
  Definition dests := list (string * list nat).
  Fixpoint dest_of (d : dests) (f : string) : list nat :=
    match d with
    | [] => []
    | (g, l) :: t => if String.eqb g f then l else dest_of t f
    end.

  Definition allowed (dst : list nat) (r : root) : bool :=
    match r with RParam i => existsb (Nat.eqb i) dst | _ => false end.

  (* C16: no write to a parameter region (other than a documented
     destination) nor to any global, in f or transitively in its callees *)
  Definition pure_fn (d : dests) (f : string) : bool :=
    ok fuel f && forallb (allowed (dest_of d f)) (wsum fuel f).

  (* C16/C17: no function other than initialisers writes a global.
     sync.Pool: the translator models Pool.Get as a fresh allocation owned by
     the caller until Put (ASSUMPTION, see tools/effgen/README.md) and
     Pool.Put as a no-op, so a package-level pool that is only Get/Put
     (ff.bigIntPool, ffg.bigIntPool) is read, never written: it is allowed. *)
  Definition is_global (r : root) : bool :=
    match r with RGlobal _ => true | RUnknown => true | _ => false end.
  Definition no_global_write (f : string) : bool :=
    ok fuel f && negb (existsb is_global (wsum fuel f)).
  Definition no_global_state (names inits : list string) : bool :=
    forallb (fun f => existsb (String.eqb f) inits || no_global_write f) names.

  (* C19.  Scanning the body in program order: [w] collects the fields of
     the receiver stored by must-instructions [IWrite [RParam 0] fld]; every
     IReturn that returns a reference must return exactly the receiver and
     come after the stores of all reference fields of the receiver type. *)
  Definition is_recv (rs : list root) : bool :=
    match rs with [RParam 0] => true | _ => false end.
  Definition fld_done (w : list string) (fld : string) : bool :=
    existsb (fun x => String.eqb x fld || String.eqb x "*") w.
  Fixpoint rs_scan (need w : list string) (body : list instr) : bool :=
    match body with
    | [] => true
    | (true, IWrite rs fld) :: rest =>
        rs_scan need (if is_recv rs then fld :: w else w) rest
    | (_, IReturn [] _) :: rest => rs_scan need w rest
    | (_, IReturn d _) :: rest =>
        is_recv d && forallb (fld_done w) need && rs_scan need w rest
    | _ :: rest => rs_scan need w rest
    end.
  Fixpoint fields_of (rf : list (string * list string)) (f : string) : list string :=
    match rf with
    | [] => []
    | (g, l) :: t => if String.eqb g f then l else fields_of t f
    end.
  Definition has_recv_return (body : list instr) : bool :=
    existsb (fun i => match i with (true, IReturn d _) => is_recv d | _ => false end) body.
  Definition receiver_stored (rf : list (string * list string)) (f : string) : bool :=
    match lookup tbl f with
    | None => false
    | Some body => rs_scan (fields_of rf f) [] body && has_recv_return body
                   && negb (match fields_of rf f with [] => true | _ => false end)
    end.
End Analysis.

(* ------------------------------------------------------------------ *)
(** * Traces *)

Fixpoint writes_of (tr : list event) : list cell :=
  match tr with
  | [] => []
  | EvW c _ :: t => c :: writes_of t
  | _ :: t => writes_of t
  end.

Fixpoint reads_of (tr : list event) : list cell :=
  match tr with
  | [] => []
  | EvR c :: t => c :: reads_of t
  | _ :: t => reads_of t
  end.

(* replaying the writes of a trace on a heap *)
Fixpoint apply_tr (tr : list event) (h : cell -> Z) : cell -> Z :=
  match tr with
  | [] => h
  | EvW c v :: t => apply_tr t (upd h c v)
  | _ :: t => apply_tr t h
  end.

(* the values observed by the reads of a trace replayed on a heap *)
Fixpoint obs (tr : list event) (h : cell -> Z) : list Z :=
  match tr with
  | [] => []
  | EvR c :: t => h c :: obs t h
  | EvW c v :: t => obs t (upd h c v)
  | _ :: t => obs t h
  end.

(* poseidon/poseidon.go at value level: the four guards of HashWithStateEx in
   the code's order, then the optimized Hades loop (Model.HadesOpt) with the
   tables of the width, then the first nOuts lanes.  The tables are a
   parameter: theorems instantiate them with the regenerated Gen tables, the
   extracted driver loads the same data from constgen's text output. *)
From Coq Require Import ZArith List Bool.
From Verif Require Import Lib.Params Spec.Hades Model.Outcome Model.Utils Model.HadesOpt.
Import ListNotations.
Local Open Scope Z_scope.

(* per width: (RP, C, S, M, P) *)
Definition ptable := (nat * list Z * list Z * list (list Z) * list (list Z))%type.

Section Poseidon.
  Variable Q : Z.
  Variable NROUNDSF : nat.
  Variable tables : list ptable.          (* index t-2; length = len(NROUNDSP) *)

  Definition HashWithStateEx (inpBI : list Z) (initState : Z) (nOuts : Z) : res (list Z) :=
    let n := length inpBI in
    let t := S n in
    if Nat.eqb n 0 || Nat.ltb (length tables) n then Err
    else if negb (CheckBigIntArrayInField Q inpBI) then Err
    else if (nOuts <? 1) || (Z.of_nat t <? nOuts) then Err
    else
      match nth_error tables (t - 2) with
      | None => Panic
      | Some (RP, C, S_, M, P) =>
          if negb (CheckBigIntInField Q initState) then Err
          else
            let st := perm_opt Q (sbox5 Q) t NROUNDSF RP C S_ M P (initState :: inpBI) in
            Ok (firstn (Z.to_nat nOuts) st)
      end.

  Definition HashWithState (inpBI : list Z) (initState : Z) : res Z :=
    match HashWithStateEx inpBI initState 1 with
    | Ok r => Ok (nth 0 r 0)
    | Err => Err
    | Panic => Panic
    end.
  Definition Hash (inpBI : list Z) : res Z := HashWithState inpBI 0.
  Definition HashEx (inpBI : list Z) (nOuts : Z) : res (list Z) := HashWithStateEx inpBI 0 nOuts.
End Poseidon.

(* The optimized Hades loop shared by poseidon/poseidon.go (HashWithStateEx)
   and goldenposeidon/poseidon.go (Hash): initial ark, RF/2-1 full rounds with
   the dense matrix M, one full round with the pre-sparse matrix P, RP sparse
   partial rounds driven by the table S, RF/2-1 full rounds with constants,
   one final full round without constants.  Index arithmetic is copied from
   the Go code.  Tables: C, S flat lists; M, P lists of rows, and the Go mix
   computes new[i] = sum_j m[j][i] * st[j] (i.e. it multiplies by the
   transpose of the stored matrix). *)
From Coq Require Import ZArith List.
Import ListNotations.
Local Open Scope Z_scope.

Section Opt.
  Variable p : Z.
  Variable sbox : Z -> Z.
  Variable t : nat.
  Variables RF RP : nat.
  Variables C S : list Z.
  Variables M P : list (list Z).

  Definition nthz (l : list Z) (i : nat) : Z := nth i l 0.
  Definition nthm (m : list (list Z)) (i j : nat) : Z := nth j (nth i m []) 0.

  (* func ark(state, c, it): state[i] += c[it+i] *)
  Definition ark (st : list Z) (it : nat) : list Z :=
    map (fun ix => (snd ix + nthz C (it + fst ix)) mod p)
        (combine (seq 0 (length st)) st).

  (* func mix(state, t, m): newState[i] = sum_j m[j][i] * state[j] *)
  Definition mix (m : list (list Z)) (st : list Z) : list Z :=
    map (fun i =>
           fold_left (fun acc jx => (acc + (nthm m (fst jx) i * snd jx) mod p) mod p)
                     (combine (seq 0 (length st)) st) 0)
        (seq 0 t).

  Definition sbox_all (st : list Z) : list Z := map sbox st.

  (* first-half full rounds: for i < RF/2-1 { sbox; ark((i+1)*t); mix M } *)
  Definition first_full (st : list Z) : list Z :=
    fold_left (fun s i => mix M (ark (sbox_all s) ((i + 1) * t)))
              (seq 0 (RF / 2 - 1)) st.

  (* one sparse partial round i *)
  Definition sparse_round (i : nat) (st : list Z) : list Z :=
    match st with
    | [] => []
    | s0 :: rest =>
        let s0 := (sbox s0 + nthz C ((RF / 2 + 1) * t + i)) mod p in
        let st1 := s0 :: rest in
        let new0 :=
          fold_left (fun acc jx =>
                       (acc + (nthz S ((t * 2 - 1) * i + fst jx) * snd jx) mod p) mod p)
                    (combine (seq 0 (length st1)) st1) 0 in
        let rest' :=
          map (fun kx => (snd kx + (s0 * nthz S ((t * 2 - 1) * i + t + fst kx - 1)) mod p) mod p)
              (combine (seq 1 (length rest)) rest) in
        new0 :: rest'
    end.

  Definition last_full (st : list Z) : list Z :=
    fold_left (fun s i => mix M (ark (sbox_all s) ((RF / 2 + 1) * t + RP + i * t)))
              (seq 0 (RF / 2 - 1)) st.

  Definition perm_opt (st : list Z) : list Z :=
    let st := ark st 0 in
    let st := first_full st in
    let st := mix P (ark (sbox_all st) ((RF / 2) * t)) in
    let st := fold_left (fun s i => sparse_round i s) (seq 0 RP) st in
    let st := last_full st in
    mix M (sbox_all st).
End Opt.

(* Limb-level Gallina model of the PORTABLE BN254 scalar-field routines of
   /repo/ff/element.go (+ /repo/ff/arith.go through Lib/Words.v).

   Definitions only, no proofs; executable and extractable.

   Conventions
   - [el] = (z0,z1,z2,z3): four little-endian 64-bit limbs, Montgomery form.
   - Every routine is a straight let-chain following the Go statements one by
     one, in the same order: Go [z[0]] is [z0], [c[1]] is [c1], ...; a Go
     re-assignment is a shadowing [let].  bits.Add64/Sub64/Mul64 are
     Words.add64/sub64/mul64, madd0..3 are Words.madd0..3, the wrapping
     [c[0] * 14042775128853446655] is [wmul c0 qInvNeg].
   - Literals are never typed here: they are read from Gen/FfConsts.v
     (regenerated from the Go sources at every run).  [consts_ok] in
     Proofs/FfWords.v checks that EVERY occurrence of a wide literal in every
     modelled Go routine is the expected limb of q / qInvNeg / rSquare / one.
   - The Go condition of "if z > q --> z -= q",
       !(z[3] < q3 || (z[3] == q3 && (z[2] < q2 || (z[2] == q2 &&
          (z[1] < q1 || (z[1] == q1 && (z[0] < q0)))))))
     is written inline in Go at each of its occurrences; here the part under
     the [!] is the single shared definition [lt_q] (same nested boolean
     expression, same order), and the condition is [negb (lt_q z0 z1 z2 z3)].
     Likewise [lt_limbs] is the expression under the [!] of
     "bigger = !(v[3] < u[3] || ...)" in Inverse.
   - Destination aliasing (z == x, z == y ...) is vacuous in this functional
     model: every routine reads its operands into immutable limb variables
     and returns a fresh tuple.  (In the Go code every limb of the operands
     that is read after a store to z has been copied before: the straight-line
     routines read x[i], y[i] only before writing z[i], or write z only after
     the last read.)
   - [inverse], hence [div] and [batchInvert], return [option]: [None] means
     "fuel exhausted"; Proofs/FfInverse.v shows this never happens for
     canonical operands. *)
From Coq Require Import ZArith List.
From Verif Require Import Lib.Params Lib.Words Gen.FfConsts.
Import ListNotations.
Local Open Scope Z_scope.
Local Open Scope bool_scope.

Definition el := (Z * Z * Z * Z)%type.

(* ---- constants, all from the generated file ---- *)
Definition q0 : Z := nth 0 qElement 0.
Definition q1 : Z := nth 1 qElement 0.
Definition q2 : Z := nth 2 qElement 0.
Definition q3 : Z := nth 3 qElement 0.
Definition qEl : el := (q0, q1, q2, q3).
Definition qInvNeg : Z := nth 0 biglits_mulGeneric 0.
(* the Go variable rSquare, as an element *)
Definition rSquare_el : el :=
  (nth 0 rSquare 0, nth 1 rSquare 0, nth 2 rSquare 0, nth 3 rSquare 0).
(* SetOne / One() *)
Definition one : el :=
  (nth 0 biglits_Element_SetOne 0, nth 1 biglits_Element_SetOne 0,
   nth 2 biglits_Element_SetOne 0, nth 3 biglits_Element_SetOne 0).
Definition zero : el := (0, 0, 0, 0).

(* ---- interpretation ---- *)
Definition val (z : el) : Z :=
  let '(z0, z1, z2, z3) := z in z0 + z1 * W + z2 * W ^ 2 + z3 * W ^ 3.
Definition canon (z : el) : Prop :=
  let '(z0, z1, z2, z3) := z in
  (u64 z0 /\ u64 z1 /\ u64 z2 /\ u64 z3) /\ val z < q.
Definition R : Z := 2 ^ 256.
(* R^-1 mod q, closed form; (R * Rinv) mod q = 1 is part of consts_ok *)
Definition Rinv : Z :=
  9915499612839321149637521777990102151350674507940716049588462388200839649614.
(* the field value represented by a Montgomery-form element *)
Definition mval (z : el) : Z := (val z * Rinv) mod q.

(* ---- shared comparison expressions (see header) ---- *)
Definition lt_q (z0 z1 z2 z3 : Z) : bool :=
  (z3 <? q3) || ((z3 =? q3) && ((z2 <? q2) || ((z2 =? q2) &&
    ((z1 <? q1) || ((z1 =? q1) && (z0 <? q0)))))).
Definition lt_limbs (v0 v1 v2 v3 u0 u1 u2 u3 : Z) : bool :=
  (v3 <? u3) || ((v3 =? u3) && ((v2 <? u2) || ((v2 =? u2) &&
    ((v1 <? u1) || ((v1 =? u1) && (v0 <? u0)))))).

(* ---- Equal, IsZero ---- *)
Definition equal (z x : el) : bool :=
  let '(z0, z1, z2, z3) := z in
  let '(x0, x1, x2, x3) := x in
  (z3 =? x3) && (z2 =? x2) && (z1 =? x1) && (z0 =? x0).
Definition isZero (z : el) : bool :=
  let '(z0, z1, z2, z3) := z in
  or64 (or64 (or64 z3 z2) z1) z0 =? 0.

(* ---- _mulGeneric ---- *)
Definition mulGeneric (x y : el) : el :=
  let '(x0, x1, x2, x3) := x in
  let '(y0, y1, y2, y3) := y in
  (* round 0 *)
  let v := x0 in
  let '(c1, c0) := mul64 v y0 in
  let m := wmul c0 qInvNeg in
  let c2 := madd0 m q0 c0 in
  let '(c1, c0) := madd1 v y1 c1 in
  let '(c2, t0) := madd2 m q1 c2 c0 in
  let '(c1, c0) := madd1 v y2 c1 in
  let '(c2, t1) := madd2 m q2 c2 c0 in
  let '(c1, c0) := madd1 v y3 c1 in
  let '(t3, t2) := madd3 m q3 c0 c2 c1 in
  (* round 1 *)
  let v := x1 in
  let '(c1, c0) := madd1 v y0 t0 in
  let m := wmul c0 qInvNeg in
  let c2 := madd0 m q0 c0 in
  let '(c1, c0) := madd2 v y1 c1 t1 in
  let '(c2, t0) := madd2 m q1 c2 c0 in
  let '(c1, c0) := madd2 v y2 c1 t2 in
  let '(c2, t1) := madd2 m q2 c2 c0 in
  let '(c1, c0) := madd2 v y3 c1 t3 in
  let '(t3, t2) := madd3 m q3 c0 c2 c1 in
  (* round 2 *)
  let v := x2 in
  let '(c1, c0) := madd1 v y0 t0 in
  let m := wmul c0 qInvNeg in
  let c2 := madd0 m q0 c0 in
  let '(c1, c0) := madd2 v y1 c1 t1 in
  let '(c2, t0) := madd2 m q1 c2 c0 in
  let '(c1, c0) := madd2 v y2 c1 t2 in
  let '(c2, t1) := madd2 m q2 c2 c0 in
  let '(c1, c0) := madd2 v y3 c1 t3 in
  let '(t3, t2) := madd3 m q3 c0 c2 c1 in
  (* round 3 *)
  let v := x3 in
  let '(c1, c0) := madd1 v y0 t0 in
  let m := wmul c0 qInvNeg in
  let c2 := madd0 m q0 c0 in
  let '(c1, c0) := madd2 v y1 c1 t1 in
  let '(c2, z0) := madd2 m q1 c2 c0 in
  let '(c1, c0) := madd2 v y2 c1 t2 in
  let '(c2, z1) := madd2 m q2 c2 c0 in
  let '(c1, c0) := madd2 v y3 c1 t3 in
  let '(z3, z2) := madd3 m q3 c0 c2 c1 in
  (* if z > q --> z -= q *)
  if negb (lt_q z0 z1 z2 z3) then
    let '(z0, b) := sub64 z0 q0 0 in
    let '(z1, b) := sub64 z1 q1 b in
    let '(z2, b) := sub64 z2 q2 b in
    let '(z3, _) := sub64 z3 q3 b in
    (z0, z1, z2, z3)
  else (z0, z1, z2, z3).

(* ---- _fromMontGeneric ---- *)
Definition fromMontGeneric (z : el) : el :=
  let '(z0, z1, z2, z3) := z in
  (* block 1 *)
  let m := wmul z0 qInvNeg in
  let C := madd0 m q0 z0 in
  let '(C, z0) := madd2 m q1 z1 C in
  let '(C, z1) := madd2 m q2 z2 C in
  let '(C, z2) := madd2 m q3 z3 C in
  let z3 := C in
  (* block 2 *)
  let m := wmul z0 qInvNeg in
  let C := madd0 m q0 z0 in
  let '(C, z0) := madd2 m q1 z1 C in
  let '(C, z1) := madd2 m q2 z2 C in
  let '(C, z2) := madd2 m q3 z3 C in
  let z3 := C in
  (* block 3 *)
  let m := wmul z0 qInvNeg in
  let C := madd0 m q0 z0 in
  let '(C, z0) := madd2 m q1 z1 C in
  let '(C, z1) := madd2 m q2 z2 C in
  let '(C, z2) := madd2 m q3 z3 C in
  let z3 := C in
  (* block 4 *)
  let m := wmul z0 qInvNeg in
  let C := madd0 m q0 z0 in
  let '(C, z0) := madd2 m q1 z1 C in
  let '(C, z1) := madd2 m q2 z2 C in
  let '(C, z2) := madd2 m q3 z3 C in
  let z3 := C in
  (* if z > q --> z -= q *)
  if negb (lt_q z0 z1 z2 z3) then
    let '(z0, b) := sub64 z0 q0 0 in
    let '(z1, b) := sub64 z1 q1 b in
    let '(z2, b) := sub64 z2 q2 b in
    let '(z3, _) := sub64 z3 q3 b in
    (z0, z1, z2, z3)
  else (z0, z1, z2, z3).

(* ---- _addGeneric ---- *)
Definition addGeneric (x y : el) : el :=
  let '(x0, x1, x2, x3) := x in
  let '(y0, y1, y2, y3) := y in
  let '(z0, carry) := add64 x0 y0 0 in
  let '(z1, carry) := add64 x1 y1 carry in
  let '(z2, carry) := add64 x2 y2 carry in
  let '(z3, _) := add64 x3 y3 carry in
  if negb (lt_q z0 z1 z2 z3) then
    let '(z0, b) := sub64 z0 q0 0 in
    let '(z1, b) := sub64 z1 q1 b in
    let '(z2, b) := sub64 z2 q2 b in
    let '(z3, _) := sub64 z3 q3 b in
    (z0, z1, z2, z3)
  else (z0, z1, z2, z3).

(* ---- _doubleGeneric ---- *)
Definition doubleGeneric (x : el) : el :=
  let '(x0, x1, x2, x3) := x in
  let '(z0, carry) := add64 x0 x0 0 in
  let '(z1, carry) := add64 x1 x1 carry in
  let '(z2, carry) := add64 x2 x2 carry in
  let '(z3, _) := add64 x3 x3 carry in
  if negb (lt_q z0 z1 z2 z3) then
    let '(z0, b) := sub64 z0 q0 0 in
    let '(z1, b) := sub64 z1 q1 b in
    let '(z2, b) := sub64 z2 q2 b in
    let '(z3, _) := sub64 z3 q3 b in
    (z0, z1, z2, z3)
  else (z0, z1, z2, z3).

(* ---- _subGeneric ---- *)
Definition subGeneric (x y : el) : el :=
  let '(x0, x1, x2, x3) := x in
  let '(y0, y1, y2, y3) := y in
  let '(z0, b) := sub64 x0 y0 0 in
  let '(z1, b) := sub64 x1 y1 b in
  let '(z2, b) := sub64 x2 y2 b in
  let '(z3, b) := sub64 x3 y3 b in
  if negb (b =? 0) then
    let '(z0, c) := add64 z0 q0 0 in
    let '(z1, c) := add64 z1 q1 c in
    let '(z2, c) := add64 z2 q2 c in
    let '(z3, _) := add64 z3 q3 c in
    (z0, z1, z2, z3)
  else (z0, z1, z2, z3).

(* ---- _negGeneric ---- *)
Definition negGeneric (x : el) : el :=
  let '(x0, x1, x2, x3) := x in
  if isZero (x0, x1, x2, x3) then (0, 0, 0, 0)
  else
    let '(z0, borrow) := sub64 q0 x0 0 in
    let '(z1, borrow) := sub64 q1 x1 borrow in
    let '(z2, borrow) := sub64 q2 x2 borrow in
    let '(z3, _) := sub64 q3 x3 borrow in
    (z0, z1, z2, z3).

(* ---- _reduceGeneric ---- *)
Definition reduceGeneric (z : el) : el :=
  let '(z0, z1, z2, z3) := z in
  if negb (lt_q z0 z1 z2 z3) then
    let '(z0, b) := sub64 z0 q0 0 in
    let '(z1, b) := sub64 z1 q1 b in
    let '(z2, b) := sub64 z2 q2 b in
    let '(z3, _) := sub64 z3 q3 b in
    (z0, z1, z2, z3)
  else (z0, z1, z2, z3).

(* ---- Halve ---- *)
Definition halve (z : el) : el :=
  let '(z0, z1, z2, z3) := z in
  let '(z0, z1, z2, z3) :=
    if and64 z0 1 =? 1 then
      (* z = z + q *)
      let '(z0, carry) := add64 z0 q0 0 in
      let '(z1, carry) := add64 z1 q1 carry in
      let '(z2, carry) := add64 z2 q2 carry in
      let '(z3, _) := add64 z3 q3 carry in
      (z0, z1, z2, z3)
    else (z0, z1, z2, z3) in
  (* z = z >> 1 *)
  let z0 := or64 (shr64 z0 1) (shl64 z1 63) in
  let z1 := or64 (shr64 z1 1) (shl64 z2 63) in
  let z2 := or64 (shr64 z2 1) (shl64 z3 63) in
  let z3 := shr64 z3 1 in
  (z0, z1, z2, z3).

(* ---- Square, SetUint64, ToMont (all through mul) ---- *)
Definition square (x : el) : el := mulGeneric x x.
Definition setUint64 (v : Z) : el := mulGeneric (v, 0, 0, 0) rSquare_el.
Definition toMont (z : el) : el := mulGeneric z rSquare_el.

(* ---- mulByConstant, cases 3, 5 and default (13) ---- *)
Definition mulBy3 (z : el) : el :=
  let _z := z in
  let z := doubleGeneric z in
  addGeneric z _z.
Definition mulBy5 (z : el) : el :=
  let _z := z in
  let z := doubleGeneric z in
  let z := doubleGeneric z in
  addGeneric z _z.
Definition mulBy13 (z : el) : el :=
  let y := setUint64 13 in
  mulGeneric z y.

(* ---- _butterflyGeneric ---- *)
Definition butterflyGeneric (a b : el) : el * el :=
  let t := a in
  let a := addGeneric a b in
  let b := subGeneric t b in
  (a, b).

(* ---- Exp ----
   exponent.BitLen() is the bit length of |e|; exponent.Bit(i) is the i-th bit
   of the two's complement representation (Z.testbit).  Bits BitLen-2 .. 0. *)
Fixpoint exp_loop (n : nat) (x z : el) (e : Z) : el :=
  match n with
  | O => z
  | S n' =>
      let z := square z in
      let z := if Z.testbit e (Z.of_nat n') then mulGeneric z x else z in
      exp_loop n' x z e
  end.
Definition exp (x : el) (e : Z) : el :=
  if e =? 0 then one
  else
    let z := x in
    exp_loop (Z.to_nat (Z.log2 (Z.abs e))) x z e.

(* ---- Inverse ----
   The two inner loops "for v[0]&1 == 0 {...}" and "for u[0]&1 == 0 {...}"
   are two textual copies in Go and two definitions here. *)
Fixpoint inv_vloop (fuel : nat) (v s : el) : option (el * el) :=
  match fuel with
  | O => None
  | S fuel' =>
      let '(v0, v1, v2, v3) := v in
      let '(s0, s1, s2, s3) := s in
      if and64 v0 1 =? 0 then
        (* v = v >> 1 *)
        let v0 := or64 (shr64 v0 1) (shl64 v1 63) in
        let v1 := or64 (shr64 v1 1) (shl64 v2 63) in
        let v2 := or64 (shr64 v2 1) (shl64 v3 63) in
        let v3 := shr64 v3 1 in
        let '(s0, s1, s2, s3) :=
          if and64 s0 1 =? 1 then
            (* s = s + q *)
            let '(s0, carry) := add64 s0 q0 0 in
            let '(s1, carry) := add64 s1 q1 carry in
            let '(s2, carry) := add64 s2 q2 carry in
            let '(s3, _) := add64 s3 q3 carry in
            (s0, s1, s2, s3)
          else (s0, s1, s2, s3) in
        (* s = s >> 1 *)
        let s0 := or64 (shr64 s0 1) (shl64 s1 63) in
        let s1 := or64 (shr64 s1 1) (shl64 s2 63) in
        let s2 := or64 (shr64 s2 1) (shl64 s3 63) in
        let s3 := shr64 s3 1 in
        inv_vloop fuel' (v0, v1, v2, v3) (s0, s1, s2, s3)
      else Some ((v0, v1, v2, v3), (s0, s1, s2, s3))
  end.

Fixpoint inv_uloop (fuel : nat) (u r : el) : option (el * el) :=
  match fuel with
  | O => None
  | S fuel' =>
      let '(u0, u1, u2, u3) := u in
      let '(r0, r1, r2, r3) := r in
      if and64 u0 1 =? 0 then
        (* u = u >> 1 *)
        let u0 := or64 (shr64 u0 1) (shl64 u1 63) in
        let u1 := or64 (shr64 u1 1) (shl64 u2 63) in
        let u2 := or64 (shr64 u2 1) (shl64 u3 63) in
        let u3 := shr64 u3 1 in
        let '(r0, r1, r2, r3) :=
          if and64 r0 1 =? 1 then
            (* r = r + q *)
            let '(r0, carry) := add64 r0 q0 0 in
            let '(r1, carry) := add64 r1 q1 carry in
            let '(r2, carry) := add64 r2 q2 carry in
            let '(r3, _) := add64 r3 q3 carry in
            (r0, r1, r2, r3)
          else (r0, r1, r2, r3) in
        (* r = r >> 1 *)
        let r0 := or64 (shr64 r0 1) (shl64 r1 63) in
        let r1 := or64 (shr64 r1 1) (shl64 r2 63) in
        let r2 := or64 (shr64 r2 1) (shl64 r3 63) in
        let r3 := shr64 r3 1 in
        inv_uloop fuel' (u0, u1, u2, u3) (r0, r1, r2, r3)
      else Some ((u0, u1, u2, u3), (r0, r1, r2, r3))
  end.

(* fuel of each inner loop, per outer iteration *)
Definition inner_fuel : nat := 300.

(* one pass of the body of the outer "for { ... }" after the two inner loops:
   compare, subtract, exit tests.  [inl z]: return z; [inr st]: next pass. *)
Definition inv_body (u v r s : el) : el + (el * el * el * el) :=
  let '(u0, u1, u2, u3) := u in
  let '(v0, v1, v2, v3) := v in
  let '(r0, r1, r2, r3) := r in
  let '(s0, s1, s2, s3) := s in
  (* v >= u *)
  let bigger := negb (lt_limbs v0 v1 v2 v3 u0 u1 u2 u3) in
  let '(u0, u1, u2, u3, (v0, v1, v2, v3), (r0, r1, r2, r3), (s0, s1, s2, s3)) :=
    if bigger then
      (* v = v - u *)
      let '(v0, borrow) := sub64 v0 u0 0 in
      let '(v1, borrow) := sub64 v1 u1 borrow in
      let '(v2, borrow) := sub64 v2 u2 borrow in
      let '(v3, _) := sub64 v3 u3 borrow in
      (* s = s - r *)
      let '(s0, borrow) := sub64 s0 r0 0 in
      let '(s1, borrow) := sub64 s1 r1 borrow in
      let '(s2, borrow) := sub64 s2 r2 borrow in
      let '(s3, borrow) := sub64 s3 r3 borrow in
      let '(s0, s1, s2, s3) :=
        if borrow =? 1 then
          (* s = s + q *)
          let '(s0, carry) := add64 s0 q0 0 in
          let '(s1, carry) := add64 s1 q1 carry in
          let '(s2, carry) := add64 s2 q2 carry in
          let '(s3, _) := add64 s3 q3 carry in
          (s0, s1, s2, s3)
        else (s0, s1, s2, s3) in
      (u0, u1, u2, u3, (v0, v1, v2, v3), (r0, r1, r2, r3), (s0, s1, s2, s3))
    else
      (* u = u - v *)
      let '(u0, borrow) := sub64 u0 v0 0 in
      let '(u1, borrow) := sub64 u1 v1 borrow in
      let '(u2, borrow) := sub64 u2 v2 borrow in
      let '(u3, _) := sub64 u3 v3 borrow in
      (* r = r - s *)
      let '(r0, borrow) := sub64 r0 s0 0 in
      let '(r1, borrow) := sub64 r1 s1 borrow in
      let '(r2, borrow) := sub64 r2 s2 borrow in
      let '(r3, borrow) := sub64 r3 s3 borrow in
      let '(r0, r1, r2, r3) :=
        if borrow =? 1 then
          (* r = r + q *)
          let '(r0, carry) := add64 r0 q0 0 in
          let '(r1, carry) := add64 r1 q1 carry in
          let '(r2, carry) := add64 r2 q2 carry in
          let '(r3, _) := add64 r3 q3 carry in
          (r0, r1, r2, r3)
        else (r0, r1, r2, r3) in
      (u0, u1, u2, u3, (v0, v1, v2, v3), (r0, r1, r2, r3), (s0, s1, s2, s3)) in
  if (u0 =? 1) && (or64 (or64 u3 u2) u1 =? 0) then
    inl (r0, r1, r2, r3)
  else if (v0 =? 1) && (or64 (or64 v3 v2) v1 =? 0) then
    inl (s0, s1, s2, s3)
  else inr ((u0, u1, u2, u3), (v0, v1, v2, v3), (r0, r1, r2, r3), (s0, s1, s2, s3)).

Fixpoint inverse_loop (fuel : nat) (u v r s : el) : option el :=
  match fuel with
  | O => None
  | S fuel' =>
      match inv_vloop inner_fuel v s with
      | None => None
      | Some (v, s) =>
          match inv_uloop inner_fuel u r with
          | None => None
          | Some (u, r) =>
              match inv_body u v r s with
              | inl z => Some z
              | inr (u, v, r, s) => inverse_loop fuel' u v r s
              end
          end
      end
  end.

Definition inverse_fuel (fuel : nat) (x : el) : option el :=
  if isZero x then Some (0, 0, 0, 0)
  else
    (* u = q, s = r^2, r = 0, v = x *)
    let u := qEl in
    let s := rSquare_el in
    let r := (0, 0, 0, 0) in
    let v := x in
    inverse_loop fuel u v r s.

Definition outer_fuel : nat := 2000.
Definition inverse (x : el) : option el := inverse_fuel outer_fuel x.

(* ---- Div ---- *)
Definition div (x y : el) : option el :=
  match inverse y with
  | Some yInv => Some (mulGeneric x yInv)
  | None => None
  end.

(* ---- BatchInvert ----
   first loop: res[i], zeroes[i] and the running accumulator *)
Fixpoint batch_fwd (a : list el) (accumulator : el) : list el * list bool * el :=
  match a with
  | [] => ([], [], accumulator)
  | ai :: a' =>
      if isZero ai then
        let '(res, zeroes, acc') := batch_fwd a' accumulator in
        ((0, 0, 0, 0) :: res, true :: zeroes, acc')
      else
        let resi := accumulator in
        let accumulator := mulGeneric accumulator ai in
        let '(res, zeroes, acc') := batch_fwd a' accumulator in
        (resi :: res, false :: zeroes, acc')
  end.
(* second loop, i = len-1 .. 0: the recursion first handles the larger
   indices, then index i.  Returns the final res and the accumulator. *)
Fixpoint batch_bwd (a res : list el) (zeroes : list bool) (accumulator : el)
  : list el * el :=
  match a, res, zeroes with
  | ai :: a', resi :: res', zi :: zeroes' =>
      let '(out, accumulator) := batch_bwd a' res' zeroes' accumulator in
      if zi then (resi :: out, accumulator)
      else
        let resi := mulGeneric resi accumulator in
        let accumulator := mulGeneric accumulator ai in
        (resi :: out, accumulator)
  | _, _, _ => ([], accumulator)
  end.
Definition batchInvert (a : list el) : option (list el) :=
  match a with
  | [] => Some []
  | _ =>
      let '(res, zeroes, accumulator) := batch_fwd a one in
      match inverse accumulator with
      | None => None
      | Some accumulator => Some (fst (batch_bwd a res zeroes accumulator))
      end
  end.

(* goldenposeidon/poseidon.go + constants.go init at value level. *)
From Coq Require Import ZArith List Bool.
From Verif Require Import Lib.Params Spec.Hades Model.HadesOpt.
Import ListNotations.
Local Open Scope Z_scope.

Section Gold.
  (* raw uint64 tables as in constants.go *)
  Variables (c s : list Z) (p : list (list Z)) (mcirc mdiag : list Z).
  Variables (NROUNDSF NROUNDSP mLen : nat).

  (* ffg.NewElementFromUint64(v): the value v mod p (C09) *)
  Definition el (v : Z) : Z := v mod pg.

  Definition C : list Z := map el c.
  Definition S : list Z := map el s.
  Definition P : list (list Z) := map (map el) p.
  (* M[i][j] = mcirc[(i-j+mLen)%mLen], diagonal mcirc[0]+mdiag[i] (uint64 add) *)
  Definition M : list (list Z) :=
    map (fun i =>
           map (fun j =>
                  if Nat.eqb i j then el ((nth 0 mcirc 0 + nth i mdiag 0) mod W)
                  else el (nth ((i + mLen - j) mod mLen) mcirc 0))
               (seq 0 mLen))
        (seq 0 mLen).

  (* func Hash(inpBI [8]uint64, capBI [4]uint64) ([4]uint64, error) *)
  Definition Hash (inp cap : list Z) : list Z :=
    let st := map el (inp ++ cap) in
    firstn 4 (perm_opt pg (sbox7 pg) mLen NROUNDSF NROUNDSP C S M P st).
End Gold.

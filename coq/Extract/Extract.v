(* Extraction of the executable models for the correspondence check.
   Directives used: exactly those of ExtrOcamlBasic (bool, option, unit, list,
   prod, sumbool, comparison -> OCaml natives) and ExtrOcamlZBigInt
   (positive, N, Z -> Big_int_Z.big_int with zarith primitives).
   ExtrOcamlNatBigInt is NOT used: nat stays the unary inductive (only small
   loop counters and list indices are nat). *)
From Coq Require Import ZArith List.
From Coq Require Import ExtrOcamlBasic ExtrOcamlZBigInt.
From Verif Require Import Lib.Octets Lib.Decimal Model.Outcome Model.Utils Model.BabyJubCore
  Model.BabyJub Model.Poseidon Model.GoldPoseidon Model.SqrtCore Spec.Hades Model.HadesOpt
  Model.Eddsa Model.Mimc7 Model.FfLimbs Model.FfgLimbs Model.FfConv Model.FfgConv Spec.Keccak Spec.Blake512 Model.KeccakStream.

Extraction Language OCaml.
Set Extraction KeepSingleton.
Separate Extraction
  Octets.le_val Octets.be_val Octets.le_bytes Octets.be_bytes Octets.min_be_bytes
  Octets.hex_encode Octets.hex_decode Decimal.dec_of_Z Decimal.parse_dec
  Utils.SwapEndianness Utils.BigIntLEBytes Utils.SetBigIntFromLEBytes
  Utils.HexEncode Utils.HexDecode Utils.HexDecodeInto Utils.CheckBigIntInField Utils.CheckBigIntArrayInField
  Utils.HexString
  BabyJub.Q BabyJub.A BabyJub.D BabyJub.Order BabyJub.SubOrder BabyJub.B8
  BabyJub.Add BabyJub.Mul BabyJub.Projective BabyJub.Affine BabyJub.InCurve
  BabyJub.InSubGroup BabyJub.PointCoordSign BabyJub.PackSignY BabyJub.UnpackSignY
  BabyJub.Compress BabyJub.PointFromSignAndY BabyJub.Decompress
  Poseidon.HashWithStateEx Poseidon.HashWithState Poseidon.Hash Poseidon.HashEx
  GoldPoseidon.Hash GoldPoseidon.C GoldPoseidon.S GoldPoseidon.M GoldPoseidon.P
  Hades.perm_ref Hades.sbox5 Hades.sbox7 HadesOpt.perm_opt
  Eddsa.pruneBuffer Eddsa.SigCompress Eddsa.SigDecompress Eddsa.PkCompress Eddsa.PkDecompress
  Eddsa.PkMarshalText Eddsa.PkCompMarshalText Eddsa.SigCompMarshalText
  Eddsa.PkCompUnmarshalText Eddsa.SigCompUnmarshalText Eddsa.PkUnmarshalText Eddsa.DecompressSig
  Eddsa.SigCompScan Eddsa.PkCompScan Eddsa.SigScan Eddsa.PkScan Eddsa.SigValue Eddsa.PkValue
  Eddsa.SkToBigInt Eddsa.ScalarPublic Eddsa.Public Eddsa.SignPoseidon Eddsa.SignMimc7
  Eddsa.VerifyPoseidon Eddsa.VerifyMimc7
  Mimc7.getConstants Mimc7.MIMC7HashGeneric Mimc7.MIMC7Hash Mimc7.HashGeneric Mimc7.Hash Mimc7.HashBytes
  Keccak.keccak256 Blake512.blake512 KeccakStream.Hash
  FfLimbs.mulGeneric FfLimbs.fromMontGeneric FfLimbs.addGeneric FfLimbs.doubleGeneric
  FfLimbs.subGeneric FfLimbs.negGeneric FfLimbs.reduceGeneric FfLimbs.halve FfLimbs.square
  FfLimbs.setUint64 FfLimbs.toMont FfLimbs.mulBy3 FfLimbs.mulBy5 FfLimbs.mulBy13
  FfLimbs.butterflyGeneric FfLimbs.exp FfLimbs.inverse FfLimbs.div FfLimbs.batchInvert
  FfLimbs.equal FfLimbs.isZero
  FfConv.setBigInt FfConv.setBytes FfConv.setString FfConv.toBigIntRegular FfConv.bytesOf
  FfConv.stringOf FfConv.cmp FfConv.lexLargest FfConv.legendre FfConv.sqrt
  FfConv.BigIntArrayToElementArray FfConv.ElementArrayToBigIntArray FfConv.bit FfConv.bitLen FfConv.modulus
  FfLimbs.one FfgLimbs.one FfgLimbs.modulus FfgConv.bit FfgConv.bitLen
  FfgLimbs.mulGeneric FfgLimbs.fromMontGeneric FfgLimbs.addGeneric FfgLimbs.doubleGeneric
  FfgLimbs.subGeneric FfgLimbs.negGeneric FfgLimbs.reduceGeneric FfgLimbs.halve FfgLimbs.square
  FfgLimbs.setUint64 FfgLimbs.toUint64Regular FfgLimbs.toMont FfgLimbs.mulBy3 FfgLimbs.mulBy5
  FfgLimbs.mulBy13 FfgLimbs.butterflyGeneric FfgLimbs.exp FfgLimbs.inverse FfgLimbs.div
  FfgLimbs.batchInvert FfgLimbs.setBigInt FfgLimbs.toBigIntRegular
  FfgConv.setBytes FfgConv.setString FfgConv.bytesOf FfgConv.stringOf FfgConv.equal FfgConv.isZero
  FfgConv.cmp FfgConv.lexLargest FfgConv.legendre FfgConv.sqrt.

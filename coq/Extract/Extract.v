(* Extraction of the executable models for the correspondence check.
   Directives used: exactly those of ExtrOcamlBasic (bool, option, unit, list,
   prod, sumbool, comparison -> OCaml natives) and ExtrOcamlZBigInt
   (positive, N, Z -> Big_int_Z.big_int with zarith primitives), and
   ExtrOcamlNatBigInt is NOT used: nat stays the unary inductive (only small
   loop counters and list indices are nat). *)
From Coq Require Import ZArith List.
From Coq Require Import ExtrOcamlBasic ExtrOcamlZBigInt.
From Verif Require Import Lib.Octets Model.Outcome Model.Utils Model.BabyJubCore
  Model.BabyJub Model.Poseidon Model.GoldPoseidon Model.SqrtCore Spec.Hades Model.HadesOpt.

Extraction Language OCaml.
Set Extraction KeepSingleton.
Separate Extraction
  Octets.le_val Octets.be_val Octets.le_bytes Octets.be_bytes Octets.min_be_bytes
  Octets.hex_encode Octets.hex_decode
  Utils.SwapEndianness Utils.BigIntLEBytes Utils.SetBigIntFromLEBytes
  Utils.HexEncode Utils.HexDecode Utils.HexDecodeInto Utils.CheckBigIntInField
  Utils.HexString
  BabyJub.Q BabyJub.A BabyJub.D BabyJub.Order BabyJub.SubOrder BabyJub.B8
  BabyJub.Add BabyJub.Mul BabyJub.Projective BabyJub.Affine BabyJub.InCurve
  BabyJub.InSubGroup BabyJub.PointCoordSign BabyJub.PackSignY BabyJub.UnpackSignY
  BabyJub.Compress BabyJub.PointFromSignAndY BabyJub.Decompress
  Poseidon.HashWithStateEx Poseidon.HashWithState Poseidon.Hash Poseidon.HashEx
  GoldPoseidon.Hash
  Hades.perm_ref Hades.sbox5 Hades.sbox7 HadesOpt.perm_opt.

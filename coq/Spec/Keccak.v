(* Keccak-256 with the ORIGINAL (pre-NIST) padding: Keccak[r = 1088, c = 512],
   multi-rate padding pad10*1 with no domain-separation suffix (first padding
   byte 0x01, last padding byte 0x80, merged to 0x81 when they coincide),
   32 output bytes.  Written from "The Keccak reference" (v3.0) / FIPS 202
   section 3.2 for the permutation; self-contained (standard library only).

   Conventions: a byte is a Z in [0,256); a lane is a Z in [0,2^64); the state
   is a list of 25 lanes, lane (x,y) at index x + 5*y.  Bytes are packed into
   lanes little-endian.  Everything is executable by vm_compute and extracts
   with ExtrOcamlZBigInt (plain Z bit operations, structural recursion, nat
   fuel given by list lengths). *)
From Coq Require Import ZArith List.
Import ListNotations.
Local Open Scope Z_scope.

Definition bytes := list Z.

(* ---------------------------------------------------------------- lanes *)

Definition mask64 : Z := 18446744073709551615.   (* 2^64 - 1 *)

(* truncation to 64 bits; equal to [x mod 2^64] (lemma trunc64_mod in
   Proofs/KeccakStream.v) *)
Definition trunc64 (x : Z) : Z := Z.land x mask64.

(* ROT(x, k), 0 <= k <= 64 *)
Definition rotl64 (x k : Z) : Z :=
  Z.lor (trunc64 (Z.shiftl x k)) (Z.shiftr x (64 - k)).

Definition not64 (x : Z) : Z := Z.lxor x mask64.

(* lane (x,y) of state A *)
Definition klane (A : list Z) (x y : nat) : Z := nth (x + 5 * y) A 0.

Definition kidx25 : list nat := seq 0 25.
Definition kidx5 : list nat := seq 0 5.

(* ------------------------------------------------------ step mappings *)

(* theta:  C[x] = A[x,0] ^ A[x,1] ^ A[x,2] ^ A[x,3] ^ A[x,4]
           D[x] = C[x-1] ^ ROT(C[x+1], 1)
           A'[x,y] = A[x,y] ^ D[x] *)
Definition keccak_theta (A : list Z) : list Z :=
  let C := map (fun x =>
             Z.lxor (Z.lxor (Z.lxor (Z.lxor (klane A x 0) (klane A x 1))
                                    (klane A x 2)) (klane A x 3)) (klane A x 4))
             kidx5 in
  let D := map (fun x =>
             Z.lxor (nth ((x + 4) mod 5) C 0) (rotl64 (nth ((x + 1) mod 5) C 0) 1))
             kidx5 in
  map (fun i => Z.lxor (nth i A 0) (nth (i mod 5) D 0)) kidx25.

(* rho: A'[x,y] = ROT(A[x,y], r[x,y]); offsets at index x + 5*y.
   (HashVectors.v re-derives this table from the (t+1)(t+2)/2 rule.) *)
Definition keccak_rho_offsets : list Z :=
  [  0;  1; 62; 28; 27;
    36; 44;  6; 55; 20;
     3; 10; 43; 25; 39;
    41; 45; 15; 21;  8;
    18;  2; 61; 56; 14 ].

Definition keccak_rho (A : list Z) : list Z :=
  map (fun i => rotl64 (nth i A 0) (nth i keccak_rho_offsets 0)) kidx25.

(* pi: A'[x,y] = A[(x + 3y) mod 5, x]   (equivalently B[y, 2x+3y] = A[x,y]) *)
Definition keccak_pi (A : list Z) : list Z :=
  map (fun i => let x := (i mod 5)%nat in let y := (i / 5)%nat in
                klane A ((x + 3 * y) mod 5) x) kidx25.

(* chi: A'[x,y] = A[x,y] ^ (~A[x+1,y] & A[x+2,y]) *)
Definition keccak_chi (A : list Z) : list Z :=
  map (fun i => let x := (i mod 5)%nat in let y := (i / 5)%nat in
                Z.lxor (klane A x y)
                       (Z.land (not64 (klane A ((x + 1) mod 5) y))
                               (klane A ((x + 2) mod 5) y))) kidx25.

(* iota: A'[0,0] = A[0,0] ^ RC *)
Definition keccak_iota (rc : Z) (A : list Z) : list Z :=
  match A with
  | a :: r => Z.lxor a rc :: r
  | [] => []
  end.

(* (HashVectors.v re-derives this table from the degree-8 LFSR.) *)
Definition keccak_round_constants : list Z :=
  [ 0x0000000000000001; 0x0000000000008082; 0x800000000000808A;
    0x8000000080008000; 0x000000000000808B; 0x0000000080000001;
    0x8000000080008081; 0x8000000000008009; 0x000000000000008A;
    0x0000000000000088; 0x0000000080008009; 0x000000008000000A;
    0x000000008000808B; 0x800000000000008B; 0x8000000000008089;
    0x8000000000008003; 0x8000000000008002; 0x8000000000000080;
    0x000000000000800A; 0x800000008000000A; 0x8000000080008081;
    0x8000000000008080; 0x0000000080000001; 0x8000000080008008 ].

Definition keccak_round (A : list Z) (rc : Z) : list Z :=
  keccak_iota rc (keccak_chi (keccak_pi (keccak_rho (keccak_theta A)))).

(* Keccak-f[1600]: 24 rounds *)
Definition keccak_f (A : list Z) : list Z :=
  fold_left keccak_round keccak_round_constants A.

(* ------------------------------------------------------------- sponge *)

Definition keccak_rate : nat := 136.      (* r = 1088 bits; c = 512 *)

Definition keccak_zero_state : list Z := repeat 0 25.

(* little-endian packing of 8 bytes into a lane, and back *)
Definition le64 (b0 b1 b2 b3 b4 b5 b6 b7 : Z) : Z :=
  b0 + 256 * (b1 + 256 * (b2 + 256 * (b3 + 256 * (b4 + 256 * (b5 + 256 * (b6 + 256 * b7)))))).

Definition byte_of (x : Z) : Z := Z.land x 255.

Definition le_bytes64 (w : Z) : bytes :=
  [ byte_of w; byte_of (Z.shiftr w 8); byte_of (Z.shiftr w 16);
    byte_of (Z.shiftr w 24); byte_of (Z.shiftr w 32); byte_of (Z.shiftr w 40);
    byte_of (Z.shiftr w 48); byte_of (Z.shiftr w 56) ].

Fixpoint lanes_of_bytes (bs : bytes) : list Z :=
  match bs with
  | b0 :: b1 :: b2 :: b3 :: b4 :: b5 :: b6 :: b7 :: rest =>
      le64 b0 b1 b2 b3 b4 b5 b6 b7 :: lanes_of_bytes rest
  | _ => []
  end.

(* XOR the (shorter) list of lanes into the front of the state *)
Fixpoint xor_into (st ls : list Z) : list Z :=
  match st, ls with
  | s :: st', l :: ls' => Z.lxor s l :: xor_into st' ls'
  | _, _ => st
  end.

(* absorb one rate-sized block *)
Definition keccak_absorb_block (st : list Z) (blk : bytes) : list Z :=
  keccak_f (xor_into st (lanes_of_bytes blk)).

(* pad10*1 at byte granularity for a message of [len] bytes: q = rate -
   (len mod rate) padding bytes; bit "1" first (0x01, bits are numbered from
   the least significant), bit "1" last (0x80). *)
Definition pad10star1 (len : nat) : bytes :=
  match (keccak_rate - len mod keccak_rate)%nat with
  | O => []                               (* impossible *)
  | S O => [0x81]
  | S (S k) => 0x01 :: repeat 0 k ++ [0x80]
  end.

(* cut into rate-sized blocks; fuel = length of the list *)
Fixpoint kchunks_fuel (fuel : nat) (l : bytes) : list bytes :=
  match fuel with
  | O => []
  | S f => match l with
           | [] => []
           | _ => firstn keccak_rate l :: kchunks_fuel f (skipn keccak_rate l)
           end
  end.
Definition kchunks (l : bytes) : list bytes := kchunks_fuel (length l) l.

(* first 32 bytes of the state (32 <= rate: no further permutation) *)
Definition ksqueeze (st : list Z) : bytes :=
  firstn 32 (concat (map le_bytes64 st)).

(* the one-shot sponge: pad the whole message, cut into blocks, absorb every
   block, squeeze 32 bytes *)
Definition keccak256 (msg : bytes) : bytes :=
  ksqueeze (fold_left keccak_absorb_block (kchunks (msg ++ pad10star1 (length msg))) keccak_zero_state).

(* The Hades/Poseidon permutation, textbook form (Grassi et al., Poseidon
   paper, section 2): RF full rounds and RP partial rounds, each round =
   AddRoundConstants ; S-box (all lanes in a full round, lane 0 in a partial
   round) ; MDS multiplication.  Parametric in the modulus, the S-box, the
   width, the round constants (flat list, round-major) and the MDS matrix
   (list of rows). *)
From Coq Require Import ZArith List.
Import ListNotations.
Local Open Scope Z_scope.

Section Hades.
  Variable p : Z.
  Variable sbox : Z -> Z.
  Variable t : nat.
  Variables RF RP : nat.          (* RF even; first RF/2 and last RF/2 rounds are full *)
  Variable RC : list Z.           (* (RF+RP)*t constants *)
  Variable MDS : list (list Z).   (* t rows of t entries; MDS[i][j] *)

  Definition dot (u v : list Z) : Z :=
    fold_left (fun acc xy => (acc + fst xy * snd xy) mod p) (combine u v) 0.

  (* new[i] = sum_j MDS[i][j] * st[j] *)
  Definition mds_mul (st : list Z) : list Z := map (fun row => dot row st) MDS.

  Definition add_rc (r : nat) (st : list Z) : list Z :=
    map (fun ix => (snd ix + nth (r * t + fst ix) RC 0) mod p)
        (combine (seq 0 (length st)) st).

  Definition sbox_full (st : list Z) : list Z := map sbox st.
  Definition sbox_partial (st : list Z) : list Z :=
    match st with [] => [] | x :: xs => sbox x :: xs end.

  Definition is_full (r : nat) : bool :=
    orb (Nat.ltb r (RF / 2)) (Nat.leb (RF / 2 + RP) r).

  Definition round (r : nat) (st : list Z) : list Z :=
    let st := add_rc r st in
    let st := if is_full r then sbox_full st else sbox_partial st in
    mds_mul st.

  Definition perm_ref (st : list Z) : list Z :=
    fold_left (fun s r => round r s) (seq 0 (RF + RP)) st.
End Hades.

(* x^5 and x^7 S-boxes *)
Definition sbox5 (p x : Z) : Z :=
  let x2 := (x * x) mod p in let x4 := (x2 * x2) mod p in (x4 * x) mod p.
Definition sbox7 (p x : Z) : Z :=
  let x2 := (x * x) mod p in let x4 := (x2 * x2) mod p in
  let x6 := (x4 * x2) mod p in (x6 * x) mod p.

(* MiMC7 as used by circomlib, written from the following description and
   from nothing else (in particular not from Model/Mimc7.v):

     "c_0 = 0 and c_i is the i-fold Keccak-256 chain over the 32-byte digest
      started from Keccak-256("mimc"), reduced mod q; iterate
        t = (i = 0 ? x + k : r + k + c_i),  r = t^7
      for the requested number n of rounds (i = 0..n-1) and return r + k mod q;
      the fixed-parameter entry points use 91 rounds.  The multi-element hash
      folds r <- r + m_i + MiMC7(m_i, r) mod q starting from the key (0 when
      absent), the generic fold is r <- MiMC7_n(r, m_i), and byte hashing
      applies the multi-element hash to the message split into 31-byte
      little-endian chunks (last chunk shorter, none for empty input)."

   Everything is plain Z arithmetic; nothing here is meant to be efficient.
   The round constants are obtained by iterating Keccak-256 on 32-byte
   DIGESTS (lists of bytes), never on integers. *)
From Coq Require Import String Ascii.
From Coq Require Import ZArith List.
From Verif Require Import Lib.Params Spec.Keccak.
Import ListNotations.
Local Open Scope Z_scope.

(* the bytes of an ASCII string *)
Definition ascii_bytes (s : string) : list Z :=
  map (fun a => Z.of_N (N_of_ascii a)) (list_ascii_of_string s).

Definition spec_seed : list Z := ascii_bytes "mimc"%string.

(* big-endian integer of a byte string: Horner from the first byte *)
Definition be_int (d : list Z) : Z := fold_left (fun acc b => 256 * acc + b) d 0.
(* little-endian integer of a byte string: first byte least significant *)
Definition le_int (d : list Z) : Z := fold_right (fun b acc => b + 256 * acc) 0 d.

(* d_0 = Keccak-256("mimc"), d_i = Keccak-256(d_{i-1}) : 32-byte digests *)
Fixpoint spec_digest (i : nat) : list Z :=
  match i with
  | O => keccak256 spec_seed
  | S j => keccak256 (spec_digest j)
  end.

(* c_0 = 0, c_i = int(d_i) mod q *)
Definition spec_c (i : nat) : Z :=
  match i with
  | O => 0
  | S _ => be_int (spec_digest i) mod q
  end.

(* the value of r after rounds i = 0 .. n-1 (0 before any round: unused) *)
Fixpoint spec_r (n : nat) (x k : Z) : Z :=
  match n with
  | O => 0
  | S i =>
      let t := match i with
               | O => x + k
               | S _ => spec_r i x k + k + spec_c i
               end in
      t ^ 7 mod q
  end.

(* MiMC7_n(x, k) *)
Definition spec_mimc7 (n : nat) (x k : Z) : Z := (spec_r n x k + k) mod q.

(* the fixed-parameter permutation: 91 rounds *)
Definition spec_nrounds : nat := 91.
Definition spec_MIMC7 (x k : Z) : Z := spec_mimc7 spec_nrounds x k.

(* multi-element hash: r <- r + m_i + MiMC7(m_i, r) mod q from the key *)
Definition spec_hash (arr : list Z) (key : option Z) : Z :=
  fold_left (fun r m => (r + m + spec_MIMC7 m r) mod q) arr
            (match key with Some k => k | None => 0 end).

(* generic fold: r <- MiMC7_n(r, m_i) from iv *)
Definition spec_hash_generic (n : nat) (iv : Z) (arr : list Z) : Z :=
  fold_left (fun r m => spec_mimc7 n r m) arr iv.

(* 31-byte little-endian chunks: chunk i is bytes [31 i, 31 i + 31) of the
   message (cut at its end); there are ceil(len / 31) of them *)
Definition spec_chunks (b : list Z) : list Z :=
  map (fun i => le_int (firstn 31 (skipn (31 * i) b)))
      (seq 0 ((length b + 30) / 31)).

Definition spec_hashbytes (b : list Z) : Z := spec_hash (spec_chunks b) None.

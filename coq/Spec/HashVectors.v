(* Test vectors for Spec/Blake512.v and Spec/Keccak.v, checked by evaluation
   inside Coq (vm_compute).

   GENERATED FILE.  The digests below were printed by a scratch Go program
   linked against the library under verification (/repo, with its pinned
   dependencies github.com/dchest/blake512 v1.0.0 and golang.org/x/crypto
   v0.32.0):
       babyjub.Blake512(m)   and   keccak256.Hash(m)
   for the messages m = hv_msg n, byte i of which is (7 i + 3) mod 256, of
   lengths n = 0,1,2,55,56,63,64,110,111,112,113,127,128,129,135,136,137,200,
   239,240,255,256,257,271,272,300,1000 (all the padding / block boundaries
   of both functions: 111,112,127,128,129 and 239,240,255,256,257 for
   BLAKE-512; 135,136,137 and 271,272 for Keccak-256).
   In addition: published vectors (BLAKE submission document: one zero byte,
   144 zero bytes; the well known Keccak-256 digests of "" and "abc"; the
   dchest/blake512 test-suite vectors for "" and the quick brown fox), all of
   which were also re-checked against the Go library.

   The last section re-derives the two constant tables of Spec/Keccak.v (rho
   offsets, round constants) from their defining rules. *)
From Coq Require Import ZArith List String Ascii.
From Verif Require Import Spec.Keccak Spec.Blake512.
Import ListNotations.
Local Open Scope Z_scope.

(* ---------------------------------------------------------------- helpers *)

(* value of a lower-case hexadecimal digit *)
Definition hv_hexval (c : ascii) : Z :=
  let n := Z.of_N (N_of_ascii c) in if n <? 58 then n - 48 else n - 87.

Fixpoint hv_unhex (s : string) : list Z :=
  match s with
  | String a (String b r) => 16 * hv_hexval a + hv_hexval b :: hv_unhex r
  | _ => []
  end.

Definition hv_bytes_of_string (s : string) : list Z :=
  map (fun c => Z.of_N (N_of_ascii c)) (list_ascii_of_string s).

(* the test message of length n *)
Definition hv_msg (n : nat) : list Z :=
  map (fun i => (Z.of_nat i * 7 + 3) mod 256) (seq 0 n).

Example hv_unhex_ok : hv_unhex "00017f80ff0a" = [0; 1; 127; 128; 255; 10].
Proof. vm_compute. reflexivity. Qed.

Example hv_msg_ok : hv_msg 5 = [3; 10; 17; 24; 31] /\ nth 40 (hv_msg 41) 0 = 27.
Proof. vm_compute. split; reflexivity. Qed.

(* -------------------------------------------------------------- BLAKE-512 *)

(* published: BLAKE submission document, one-block message 0x00 *)
Example blake512_pub_zero_byte :
  blake512 [0] =
  hv_unhex "97961587f6d970faba6d2478045de6d1fabd09b61ae50932054d52bc29d31be4ff9102b9f69e2bbdb83be13d4b9c06091e5fa0b48bd081b634058be0ec49beb3".
Proof. vm_compute. reflexivity. Qed.

(* published: BLAKE submission document, two-block message of 144 zero bytes *)
Example blake512_pub_144_zero_bytes :
  blake512 (repeat 0 144) =
  hv_unhex "313717d608e9cf758dcb1eb0f0c3cf9fc150b2d500fb33f51c52afc99d358a2f1374b8a38bba7974e7f6ef79cab16f22ce1e649d6e01ad9589c213045d545dde".
Proof. vm_compute. reflexivity. Qed.

(* dchest/blake512 test suite *)
Example blake512_pub_fox :
  blake512 (hv_bytes_of_string "The quick brown fox jumps over the lazy dog") =
  hv_unhex "1f7e26f63b6ad25a0896fd978fd050a1766391d2fd0471a77afb975e5034b7ad2d9ccf8dfb47abbbe656e1b82fbc634ba42ce186e8dc5e1ce09a885d41f43451".
Proof. vm_compute. reflexivity. Qed.

(* digests computed by babyjub.Blake512 *)
Example blake512_go_0 :
  blake512 (hv_msg 0) =
  hv_unhex "a8cfbbd73726062df0c6864dda65defe58ef0cc52a5625090fa17601e1eecd1b628e94f396ae402a00acc9eab77b4d4c2e852aaaa25a636d80af3fc7913ef5b8".
Proof. vm_compute. reflexivity. Qed.

Example blake512_go_1 :
  blake512 (hv_msg 1) =
  hv_unhex "c863e9838c23747f94f451254225adc48c1d67b85da280e974f1dfe82b3677775b04505ec7d3b19cc15951be518c74c9855e58be90b0213b20f4f26e63239663".
Proof. vm_compute. reflexivity. Qed.

Example blake512_go_2 :
  blake512 (hv_msg 2) =
  hv_unhex "ca027e87efaa998be788333aabcd806c91ae4b990ca51cd13f75d17a18cec136155c49691cca813fd5e4203170aee4d208e676da34237bb32e239ee1d240dd27".
Proof. vm_compute. reflexivity. Qed.

Example blake512_go_55 :
  blake512 (hv_msg 55) =
  hv_unhex "b3ff4d4b40b6bbbba6b5716e158e3dddc946512379f7bc0e365fe67c085cd2f53207ccbfc6b8e77c66da7380b11666834da49e1de060e1081b722775fea0da15".
Proof. vm_compute. reflexivity. Qed.

Example blake512_go_56 :
  blake512 (hv_msg 56) =
  hv_unhex "ceddb7490ab757b96ecf6a952aa18a6ac6b2470eb14a1ccf5a6750e681bc1af9bee591844780d44e18d9214755d335098c423e372d54c24dfa0601d866ee72c0".
Proof. vm_compute. reflexivity. Qed.

Example blake512_go_63 :
  blake512 (hv_msg 63) =
  hv_unhex "8cb84677b8b67b5afb6f893f154d22f69005d300f911dffd31162858c6ec36f62c44121e2942e9b0df09e4f34d171a97f1f4f7e152e84bab8ae0c54efbc6a043".
Proof. vm_compute. reflexivity. Qed.

Example blake512_go_64 :
  blake512 (hv_msg 64) =
  hv_unhex "0db33d24cc95df158583aa865e602e533ce69a95725194d08be3218574a8c388a30583a35ab283b39fa94c1c500f32746433fe3c7f416e541c445371d719e25e".
Proof. vm_compute. reflexivity. Qed.

Example blake512_go_110 :
  blake512 (hv_msg 110) =
  hv_unhex "f43eb7b9e6b6a6c925ab0d63cec011b7bb04bdf5fdfa78440abb5bf462b87d0fdad3ec8b9f373dffc55df16fe5ad40275c81432c616fa2b38e617b63a6ccff63".
Proof. vm_compute. reflexivity. Qed.

Example blake512_go_111 :
  blake512 (hv_msg 111) =
  hv_unhex "720062f20d8c4d25f6453377c8824e94acce75207d0e205c6fd3fc00d8bae0acb7166120ddcc1a75ba08c4ad3d8c5e0f316c86d22c6ee896394e61eebfc4c072".
Proof. vm_compute. reflexivity. Qed.

Example blake512_go_112 :
  blake512 (hv_msg 112) =
  hv_unhex "98db0413b1d5d00701e47201b3231775469848e6dcc466518eb558bbc70a6f9052565dae93bb6492e6561191cb35cd6ff1d74acae40eac1f32adab1260438f01".
Proof. vm_compute. reflexivity. Qed.

Example blake512_go_113 :
  blake512 (hv_msg 113) =
  hv_unhex "e9302b5dad1d61ad15d284b4d25807eb37167ea07b81023e81a6f59b4b67c8af3a7d80135fa328cb9051794daf8a455193d87acc3b2b0fef836bd00aefd72201".
Proof. vm_compute. reflexivity. Qed.

Example blake512_go_127 :
  blake512 (hv_msg 127) =
  hv_unhex "302dfa20f58f21868b5da6659eafa0ec775ed3aa5b14638ce143d0782856c254c98268b0e427f69d7be55c57d83b70748e71747bbdfd77434726c7e70c94ce90".
Proof. vm_compute. reflexivity. Qed.

Example blake512_go_128 :
  blake512 (hv_msg 128) =
  hv_unhex "3c350078680ce05cd542e0b8fcf0757ce88131135ab58a5ec9785f02052d62fc799244607d404cfd97dfcd158474448d35d77cca9cffb931f261866cb1c38901".
Proof. vm_compute. reflexivity. Qed.

Example blake512_go_129 :
  blake512 (hv_msg 129) =
  hv_unhex "d38d489c398a15651b72c4704d9ed5ab8c6875e2a2e8214b240d596566225c2ef9ca35979222b943c5b875138c49b5af906c86cf28848d5c288764128619ad82".
Proof. vm_compute. reflexivity. Qed.

Example blake512_go_135 :
  blake512 (hv_msg 135) =
  hv_unhex "40b044c752703d5f517323d5f6e7ab2092b181b096523271ab8a9cc76edc53419297584b3837c27abf5b85891f6b64d50c81903594df99736acdcade48b3204f".
Proof. vm_compute. reflexivity. Qed.

Example blake512_go_136 :
  blake512 (hv_msg 136) =
  hv_unhex "0e913e996fa40140b561ecc655cee31d8f11d6471e876de15bdca670b1e343cca8dfbf2c790205a0018f1396137487b45828b4e00f894ebb63862ae6294305aa".
Proof. vm_compute. reflexivity. Qed.

Example blake512_go_137 :
  blake512 (hv_msg 137) =
  hv_unhex "588caf7cc8c1bbc33f54c541695ab0d2e343e1beda73399fc06b1b345910c6a6054e4eb24e6213188b7ad58c8af6eb8bf7a7b4db2f23d3ae6c73a9a7e95651c1".
Proof. vm_compute. reflexivity. Qed.

Example blake512_go_200 :
  blake512 (hv_msg 200) =
  hv_unhex "c668db29e38d83495c035cc91875bbe519b656a8bd05c12b59a734ec98a01b68bdcd7d3189b77f0d4702a38427dd2f3cd8f0d030b8065796740897d4cee99179".
Proof. vm_compute. reflexivity. Qed.

Example blake512_go_239 :
  blake512 (hv_msg 239) =
  hv_unhex "ab141e06ee544f9fa8b670476f44a4adf1a9c55a98fc1557fdf92495b682bc84528384b1d3e43521916d105fde4a04824f415084ff09330e8149339e5fbc6292".
Proof. vm_compute. reflexivity. Qed.

Example blake512_go_240 :
  blake512 (hv_msg 240) =
  hv_unhex "3e4e0220dae2f81511364b0920bc80da9f84c67c3267ef9f26fb401103bee5fa31d592f6b45fe8120e9402f860cee1ec38e5126df01c044a45c3d3bd3c9ee858".
Proof. vm_compute. reflexivity. Qed.

Example blake512_go_255 :
  blake512 (hv_msg 255) =
  hv_unhex "2c163693bf3232022ce74e0d69857aae30ab43135e658c0f031373253c665e280341f08fec78e1c80b3b9a75e499b7d55160d4b457212d314e7c328cb5c3d989".
Proof. vm_compute. reflexivity. Qed.

Example blake512_go_256 :
  blake512 (hv_msg 256) =
  hv_unhex "87d67e192348857ffe9b0aeb84ae6df1c41d18b42df1c57435ff2a758d9f56bb3319366be9d7c7c212edc17728d8484809605176fe988db3754ec3f5a7f34fe2".
Proof. vm_compute. reflexivity. Qed.

Example blake512_go_257 :
  blake512 (hv_msg 257) =
  hv_unhex "1c3093cb65f78fed303c0e77fcd29c438eb2d958e861a4135d7a232867a4ebb7033ab0f64a424fa77082ca9daa62a4d27dc0c2cc71acbe7e410a297af1d06ce6".
Proof. vm_compute. reflexivity. Qed.

Example blake512_go_271 :
  blake512 (hv_msg 271) =
  hv_unhex "a45257caf02f81bbd1c9fa97557fdc1fa2e3bcdf1299bc742b3c3265f9127742f8ee98311f0043d255d52f00ce4946a342ed4a85babb0f32d12a8f8b78b96604".
Proof. vm_compute. reflexivity. Qed.

Example blake512_go_272 :
  blake512 (hv_msg 272) =
  hv_unhex "7e053dcc679a63af865b265460ecc398e24ab1d4cae68cc725c12842fefe30530b8027bb3dd62b62fa77f281209e61bedf519889d58cf8d3950ec9c6b6e003bf".
Proof. vm_compute. reflexivity. Qed.

Example blake512_go_300 :
  blake512 (hv_msg 300) =
  hv_unhex "ef196bc19ee0c7c96b99bc2f922eae55b22b91921305d2178891d82835155b387f335b15d590fbc389c96b08dbc235b0ec31e7c9b5dfa01cd08d431b234ac6f7".
Proof. vm_compute. reflexivity. Qed.

Example blake512_go_1000 :
  blake512 (hv_msg 1000) =
  hv_unhex "c6c3ddb28f2c3a4a9036376ced6ae799cc6effd7f9c20874bcc7d61226161171e2118ffdcbed43095fcff7c8e26e30fca801ed815e5c140d30775cac26da2a76".
Proof. vm_compute. reflexivity. Qed.

(* ------------------------------------------------------------- Keccak-256 *)

(* published: Keccak-256 of the empty message and of "abc" *)
Example keccak256_pub_empty :
  keccak256 [] =
  hv_unhex "c5d2460186f7233c927e7db2dcc703c0e500b653ca82273b7bfad8045d85a470".
Proof. vm_compute. reflexivity. Qed.

Example keccak256_pub_abc :
  keccak256 (hv_bytes_of_string "abc") =
  hv_unhex "4e03657aea45a94fc7d47ba826c8d667c0d1e6e33a64a036ec44f58fa12d6c45".
Proof. vm_compute. reflexivity. Qed.

(* digests computed by keccak256.Hash *)
Example keccak256_go_0 :
  keccak256 (hv_msg 0) =
  hv_unhex "c5d2460186f7233c927e7db2dcc703c0e500b653ca82273b7bfad8045d85a470".
Proof. vm_compute. reflexivity. Qed.

Example keccak256_go_1 :
  keccak256 (hv_msg 1) =
  hv_unhex "69c322e3248a5dfc29d73c5b0553b0185a35cd5bb6386747517ef7e53b15e287".
Proof. vm_compute. reflexivity. Qed.

Example keccak256_go_2 :
  keccak256 (hv_msg 2) =
  hv_unhex "3b8194e0262a1713bd119866e92437201534cd3894e1b8ac6695c3735cbda009".
Proof. vm_compute. reflexivity. Qed.

Example keccak256_go_55 :
  keccak256 (hv_msg 55) =
  hv_unhex "152cc5298108a3ec3a26e0c5aead9c2770c184a6bdf87eb087716b185c8e2238".
Proof. vm_compute. reflexivity. Qed.

Example keccak256_go_56 :
  keccak256 (hv_msg 56) =
  hv_unhex "515efa1a7d43f655443dff20ec3f7e75e2af9ec2415ca813d21d0918a0e70fa2".
Proof. vm_compute. reflexivity. Qed.

Example keccak256_go_63 :
  keccak256 (hv_msg 63) =
  hv_unhex "48d8e506b57c81c8257a8e1da7f04610191ef05bf96fa9dc4fb9bca39bbed2c6".
Proof. vm_compute. reflexivity. Qed.

Example keccak256_go_64 :
  keccak256 (hv_msg 64) =
  hv_unhex "0251cf13aa5b18f1cbda7cddbe85f3dc536fc93df590c2d20ca9b28af1ed2c39".
Proof. vm_compute. reflexivity. Qed.

Example keccak256_go_110 :
  keccak256 (hv_msg 110) =
  hv_unhex "d8c5cfcf83948a9f453758718264bf0fd7f3a60e3d20d8132f80d832081dc2b4".
Proof. vm_compute. reflexivity. Qed.

Example keccak256_go_111 :
  keccak256 (hv_msg 111) =
  hv_unhex "ef899f7c886f8346795773c2d1e3a84de067fc6e2b672cc7a02fcf83b34458c0".
Proof. vm_compute. reflexivity. Qed.

Example keccak256_go_112 :
  keccak256 (hv_msg 112) =
  hv_unhex "15e68db0e4bef8617614d7fab5b43f98e4a55c08d7735b7bcd45cd6e9c9d6abc".
Proof. vm_compute. reflexivity. Qed.

Example keccak256_go_113 :
  keccak256 (hv_msg 113) =
  hv_unhex "b24d966fc5b6157be1a67c4152d112bd57a605dca2e2193076c5c202bda43f89".
Proof. vm_compute. reflexivity. Qed.

Example keccak256_go_127 :
  keccak256 (hv_msg 127) =
  hv_unhex "fa3cd4a949bae0f7690ff5c8cbc6dc0332d192d790ab4d80dc97ba37b6569deb".
Proof. vm_compute. reflexivity. Qed.

Example keccak256_go_128 :
  keccak256 (hv_msg 128) =
  hv_unhex "1c51c71b758998e7b841d7abde03b6f2b3e76b0313ed687269c30e16bb3aa488".
Proof. vm_compute. reflexivity. Qed.

Example keccak256_go_129 :
  keccak256 (hv_msg 129) =
  hv_unhex "f33103dfcdbc61a56ac3351cc6ec04223b996f273d3c05a2713d8432be3cc194".
Proof. vm_compute. reflexivity. Qed.

Example keccak256_go_135 :
  keccak256 (hv_msg 135) =
  hv_unhex "00ef96af9cf4b24c7f269d922294444a197d0a33638c2e56634c57e892103a8f".
Proof. vm_compute. reflexivity. Qed.

Example keccak256_go_136 :
  keccak256 (hv_msg 136) =
  hv_unhex "742061bcad767ed4c4f5883b1dcb1aad11afdcc140dc469d953759b127b9f9ed".
Proof. vm_compute. reflexivity. Qed.

Example keccak256_go_137 :
  keccak256 (hv_msg 137) =
  hv_unhex "e3371f61e770abf254c34239c3b0099ad90594507415bc81dd0a10b9692bbf2a".
Proof. vm_compute. reflexivity. Qed.

Example keccak256_go_200 :
  keccak256 (hv_msg 200) =
  hv_unhex "66d2cdf3ab4c5bd3c75add9b60b14ac5b7789534fa2da3f348853b847359a3a0".
Proof. vm_compute. reflexivity. Qed.

Example keccak256_go_239 :
  keccak256 (hv_msg 239) =
  hv_unhex "a2159a44a015fdcad6025682954fcea5d02ef9d5b5bd53dad08332f7b6b1961d".
Proof. vm_compute. reflexivity. Qed.

Example keccak256_go_240 :
  keccak256 (hv_msg 240) =
  hv_unhex "2f644156b9b4e4b7e33e1cfc5645272ec514cce71c193f9f24f048b558915a7e".
Proof. vm_compute. reflexivity. Qed.

Example keccak256_go_255 :
  keccak256 (hv_msg 255) =
  hv_unhex "bcf167058bbc892275763900d12805debe8478acdcc96bcd1cb15795e395353b".
Proof. vm_compute. reflexivity. Qed.

Example keccak256_go_256 :
  keccak256 (hv_msg 256) =
  hv_unhex "24d39064d9ccda29bf9fa965f0f8e43c5ae0cb074dc400f928a6ea22d1e9cd2f".
Proof. vm_compute. reflexivity. Qed.

Example keccak256_go_257 :
  keccak256 (hv_msg 257) =
  hv_unhex "48fbec5d7f8aa6250491f5d0fad84841ae94e8fbdc7da1ed18ee08903c95c2dc".
Proof. vm_compute. reflexivity. Qed.

Example keccak256_go_271 :
  keccak256 (hv_msg 271) =
  hv_unhex "4401c4afbe16ff911bdbf2d38e556e5b861f3fdf0f9d4306b1c46f6ae4f73584".
Proof. vm_compute. reflexivity. Qed.

Example keccak256_go_272 :
  keccak256 (hv_msg 272) =
  hv_unhex "ac141fd7b0a0ffcd2e967254d508da3ec616596493c36fa304425647d90e6de5".
Proof. vm_compute. reflexivity. Qed.

Example keccak256_go_300 :
  keccak256 (hv_msg 300) =
  hv_unhex "fa75f2293be9f9a14dcdeeff53f7b91ff6a2b1331b13886e69077ab1cf8252a9".
Proof. vm_compute. reflexivity. Qed.

Example keccak256_go_1000 :
  keccak256 (hv_msg 1000) =
  hv_unhex "80cdc8dd52cbb3dbaea8f383209893fa2bb52efbd5aedbb4b26dcfe307fcdc9b".
Proof. vm_compute. reflexivity. Qed.

(* ------------------------------------ the constant tables of Spec/Keccak.v *)

(* rho offsets (Keccak reference, section 1.2 / FIPS 202 algorithm 2):
   r[0,0] = 0; starting from (x,y) = (1,0), for t = 0..23:
   r[x,y] = (t+1)(t+2)/2 mod 64 and (x,y) <- (y, (2x + 3y) mod 5). *)
Fixpoint hv_set_nth (i : nat) (v : Z) (l : list Z) : list Z :=
  match l, i with
  | [], _ => []
  | _ :: r, O => v :: r
  | a :: r, S j => a :: hv_set_nth j v r
  end.

Definition hv_rho_step (acc : list Z * (nat * nat)) (t : nat)
  : list Z * (nat * nat) :=
  let '(tbl, (x, y)) := acc in
  let tz := Z.of_nat t in
  (hv_set_nth (x + 5 * y) (((tz + 1) * (tz + 2) / 2) mod 64) tbl,
   (y, ((2 * x + 3 * y) mod 5)%nat)).

Definition hv_rho_offsets : list Z :=
  fst (fold_left hv_rho_step (seq 0 24) (repeat 0 25, (1%nat, 0%nat))).

Example keccak_rho_offsets_ok : keccak_rho_offsets = hv_rho_offsets.
Proof. vm_compute. reflexivity. Qed.

(* round constants (FIPS 202 algorithms 5 and 6): rc(t) is the output of the
   LFSR x^8 + x^6 + x^5 + x^4 + 1 after t mod 255 steps, started at 1, and
   RC[ir] has bit 2^j - 1 equal to rc(j + 7 ir) for j = 0..6. *)
Definition hv_lfsr_step (R : Z) (_ : nat) : Z :=
  let R := Z.shiftl R 1 in
  if Z.testbit R 8 then Z.lxor R 0x171 else R.

Definition hv_rc (t : nat) : Z :=
  Z.land (fold_left hv_lfsr_step (seq 0 (t mod 255)) 1) 1.

Definition hv_round_constant (ir : nat) : Z :=
  fold_left (fun acc j => acc + Z.shiftl (hv_rc (j + 7 * ir)) (2 ^ Z.of_nat j - 1))
            (seq 0 7) 0.

Example keccak_round_constants_ok :
  keccak_round_constants = map hv_round_constant (seq 0 24).
Proof. vm_compute. reflexivity. Qed.

(* The Poseidon reference parameter generator (generate_parameters_grain.sage)
   for the BN254 scalar field, transcribed from /verif/GRAIN_ALGO.md:
   80-bit Grain LFSR in self-shrinking mode, rejection sampling of the round
   constants, Cauchy MDS matrix from the next 2t draws.

   This file is the SPECIFICATION: clarity over speed.  The LFSR state is a
   [list bool] of length 80 with b[0] first.  The two unbounded loops of the
   script (the self-shrinking filter and the rejection loop) take an explicit
   fuel and return [option]; every top-level result is an [option] which is
   [None] when some fuel ran out, so an evaluated result [Some _] shows that the
   fuel sufficed.  A fast evaluator, proved equal to [grain_params] for all
   arguments, is in Proofs/GrainFast.v. *)
From Coq Require Import ZArith NArith List Bool.
From Verif Require Import Lib.Params Lib.Powmod.
Import ListNotations.
Local Open Scope Z_scope.

Definition state : Type := list bool.

(* ------------------------------------------------------------------ *)
(* Initial state                                                       *)

(* the [k] low-order bits of [v], most significant first *)
Fixpoint bits_msb (k : nat) (v : N) : list bool :=
  match k with
  | O => []
  | S k' => N.testbit v (N.of_nat k') :: bits_msb k' v
  end.

(* field in 2 bits, sbox in 4, n in 12, t in 12, R_F in 10, R_P in 10, then 30
   ones: 2+4+12+12+10+10+30 = 80 bits, b[0] is the first of them.  (The values
   are assumed to fit their bit fields: t < 4096, R_F, R_P < 1024.) *)
Definition init_state (field sbox n t RF RP : N) : state :=
  bits_msb 2 field ++ bits_msb 4 sbox ++ bits_msb 12 n ++ bits_msb 12 t ++
  bits_msb 10 RF ++ bits_msb 10 RP ++ repeat true 30.

(* ------------------------------------------------------------------ *)
(* One clock                                                           *)

Definition bit (s : state) (i : nat) : bool := nth i s false.

(* new = b[62] xor b[51] xor b[38] xor b[23] xor b[13] xor b[0]; drop b[0],
   shift down by one, append new as b[79]; the output is new. *)
Definition clock (s : state) : bool * state :=
  let new :=
    xorb (bit s 62) (xorb (bit s 51) (xorb (bit s 38)
      (xorb (bit s 23) (xorb (bit s 13) (bit s 0))))) in
  (new, tl s ++ [new]).

(* start-up: clock [k] times, discarding the outputs (k = 160) *)
Fixpoint warmup (k : nat) (s : state) : state :=
  match k with
  | O => s
  | S k' => warmup k' (snd (clock s))
  end.

(* ------------------------------------------------------------------ *)
(* Self-shrinking filter: one output bit.

     x = clock(); while x == 0: { clock(); x = clock() }; y = clock(); yield y

   i.e. the clock outputs are read in pairs (x, y); a pair with x = 0 is
   discarded, a pair with x = 1 yields y.  [fuel] bounds the number of pairs
   read. *)
Fixpoint out_bit (fuel : nat) (s : state) : option (bool * state) :=
  match fuel with
  | O => None
  | S fuel' =>
      let (x, s1) := clock s in
      let (y, s2) := clock s1 in
      if x then Some (y, s2) else out_bit fuel' s2
  end.

Definition filter_fuel : nat := 1000.

(* grain_random_bits(k): the next k output bits as an integer, FIRST bit MOST
   significant.  [acc] is the value of the bits read so far. *)
Fixpoint random_bits_from (k : nat) (acc : Z) (s : state) : option (Z * state) :=
  match k with
  | O => Some (acc, s)
  | S k' =>
      match out_bit filter_fuel s with
      | None => None
      | Some (b, s') => random_bits_from k' (2 * acc + Z.b2z b) s'
      end
  end.

Definition random_bits (k : nat) (s : state) : option (Z * state) :=
  random_bits_from k 0 s.

(* ------------------------------------------------------------------ *)
(* Field elements                                                      *)

(* round constants: 254 random bits, rejected and redrawn while >= q *)
Fixpoint sample_reject (fuel : nat) (s : state) : option (Z * state) :=
  match fuel with
  | O => None
  | S fuel' =>
      match random_bits 254 s with
      | None => None
      | Some (v, s') => if q <=? v then sample_reject fuel' s' else Some (v, s')
      end
  end.

Definition reject_fuel : nat := 1000.

(* MDS seeds: 254 random bits reduced mod q, no rejection *)
Definition sample_mod (s : state) : option (Z * state) :=
  match random_bits 254 s with
  | None => None
  | Some (v, s') => Some (v mod q, s')
  end.

(* [count] successive draws with the sampler [gen] *)
Fixpoint draw (count : nat) (gen : state -> option (Z * state)) (s : state)
  : option (list Z * state) :=
  match count with
  | O => Some ([], s)
  | S count' =>
      match gen s with
      | None => None
      | Some (v, s1) =>
          match draw count' gen s1 with
          | None => None
          | Some (vs, s2) => Some (v :: vs, s2)
          end
      end
  end.

(* ------------------------------------------------------------------ *)
(* Cauchy matrix                                                       *)

Fixpoint distinct (l : list Z) : bool :=
  match l with
  | [] => true
  | x :: r => negb (existsb (Z.eqb x) r) && distinct r
  end.

(* no xs[i] + ys[j] is 0 mod q *)
Definition cauchy_ok (xs ys : list Z) : bool :=
  forallb (fun x => forallb (fun y => negb ((x + y) mod q =? 0)) ys) xs.

(* MDS[i][j] = (xs[i] + ys[j])^(q-2) mod q = (xs[i] + ys[j])^(-1) mod q *)
Definition cauchy (xs ys : list Z) : list (list Z) :=
  map (fun x => map (fun y => powmod (x + y) (q - 2) q) ys) xs.

(* ------------------------------------------------------------------ *)
(* The generator for field = 1 (prime field), sbox = 0 (x^alpha), n = 254,
   R_F = 8: round constants RC ((8+RP)*t of them, round-major) and MDS matrix
   (t rows).  The script redraws the 2t seeds if they are not pairwise
   distinct or if some xs[i] + ys[j] = 0 mod q; here these cases return [None],
   so a result [Some _] shows that the first draw was accepted. *)
Definition grain_params (t RP : nat) : option (list Z * list (list Z)) :=
  let s0 := warmup 160 (init_state 1 0 254 (N.of_nat t) 8 (N.of_nat RP)) in
  match draw ((8 + RP) * t) (sample_reject reject_fuel) s0 with
  | None => None
  | Some (rc, s1) =>
      match draw (2 * t) sample_mod s1 with
      | None => None
      | Some (xy, _) =>
          let xs := firstn t xy in
          let ys := skipn t xy in
          if distinct xy && cauchy_ok xs ys
          then Some (rc, cauchy xs ys)
          else None
      end
  end.

(* RC followed by MDS row-major, for dumping to text *)
Definition flatten_params (p : list Z * list (list Z)) : list Z :=
  fst p ++ concat (snd p).

(* EdDSA over BabyJubJub as defined by circomlib, written from this text only
   (NOT from the repository):

     h  = BLAKE-512(key);
     s  = clamp(LE integer of h[0..32)) >> 3, where clamp clears the low three
          bits, clears bit 255 and sets bit 254;
     A  = s * B8;
     r  = LE integer of BLAKE-512(h[32..64) || 32-byte little-endian msg) mod l;
     R8 = r * B8;
     S  = (r + H(R8.x, R8.y, A.x, A.y, msg) * 8 * s) mod l;
     the signature is (R8, S); it is valid for (A, msg) when 0 <= S < l and
     S * B8 = R8 + (8 * H(R8.x, R8.y, A.x, A.y, msg)) * A.

   Scalar multiplication is the specification one (Spec.Edwards.smul: the point
   added k times), the group law is the affine twisted Edwards law, clamping is
   written on the INTEGER.  BLAKE-512 and the field hash H are parameters. *)
From Coq Require Import ZArith List.
From Verif Require Import Lib.Params Lib.Octets Spec.Edwards.
Import ListNotations.
Local Open Scope Z_scope.

(* the subgroup base point of Lib/Params.v *)
Definition spec_B8 : point := (B8x, B8y).

(* clear bits 0, 1, 2 and 255; set bit 254 *)
Definition clamp (n : Z) : Z :=
  Z.setbit (Z.clearbit (Z.clearbit (Z.clearbit (Z.clearbit n 0) 1) 2) 255) 254.

Section EdDSA.
  Variable blake : bytes -> bytes.       (* BLAKE-512: 64-byte digest *)
  Variable H : list Z -> Z.              (* hash of five field elements *)

  Definition spec_scalar (k : bytes) : Z :=
    Z.shiftr (clamp (le_val (firstn 32 (blake k)))) 3.

  Definition spec_public (k : bytes) : point :=
    smul q ca cd (spec_scalar k) spec_B8.

  Definition spec_r (k : bytes) (msg : Z) : Z :=
    le_val (blake (skipn 32 (blake k) ++ le_bytes 32 msg)) mod l.

  Definition spec_R8 (k : bytes) (msg : Z) : point :=
    smul q ca cd (spec_r k msg) spec_B8.

  Definition spec_hm (k : bytes) (msg : Z) : Z :=
    H [fst (spec_R8 k msg); snd (spec_R8 k msg);
       fst (spec_public k); snd (spec_public k); msg].

  Definition spec_S (k : bytes) (msg : Z) : Z :=
    (spec_r k msg + spec_hm k msg * 8 * spec_scalar k) mod l.

  Definition spec_signature (k : bytes) (msg : Z) : point * Z :=
    (spec_R8 k msg, spec_S k msg).

  (* validity of (R8, S) for the public key A and the message msg *)
  Definition spec_valid (A : point) (msg : Z) (sig : point * Z) : Prop :=
    let '(R8, Sv) := sig in
    0 <= Sv < l /\
    smul q ca cd Sv spec_B8 =
    ed_add q ca cd R8
      (smul q ca cd (8 * H [fst R8; snd R8; fst A; snd A; msg]) A).
End EdDSA.

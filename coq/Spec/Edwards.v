(* Twisted Edwards curve  a x^2 + y^2 = 1 + d x^2 y^2  over Z/p, affine law.
   Everything is parametric in (p, a, d) so that the same definitions serve
   the abstract group proofs (Section with a prime p) and the concrete
   BabyJubJub instance (p := q, a := 168700, d := 168696). *)
From Coq Require Import ZArith List.
From Verif Require Import Lib.Powmod.
Local Open Scope Z_scope.

Definition point := (Z * Z)%type.

Section Curve.
  Variables p a d : Z.

  Definition finv (x : Z) : Z := powmod x (p - 2) p.

  Definition on_curve (P : point) : Prop :=
    let '(x, y) := P in
    (a * x * x + y * y) mod p = (1 + d * x * x * y * y) mod p.

  Definition on_curveb (P : point) : bool :=
    let '(x, y) := P in
    Z.eqb ((a * x * x + y * y) mod p) ((1 + d * x * x * y * y) mod p).

  Definition canonical (P : point) : Prop :=
    let '(x, y) := P in 0 <= x < p /\ 0 <= y < p.

  Definition ed_zero : point := (0, 1).

  Definition ed_neg (P : point) : point :=
    let '(x, y) := P in ((- x) mod p, y mod p).

  (* x3 = (x1 y2 + y1 x2) / (1 + d x1 x2 y1 y2),
     y3 = (y1 y2 - a x1 x2) / (1 - d x1 x2 y1 y2) *)
  Definition ed_add (P Q : point) : point :=
    let '(x1, y1) := P in
    let '(x2, y2) := Q in
    ( ((x1 * y2 + y1 * x2) * finv (1 + d * x1 * x2 * y1 * y2)) mod p,
      ((y1 * y2 - a * x1 * x2) * finv (1 - d * x1 * x2 * y1 * y2)) mod p ).

  (* k*P := P added k times; specification only, never computed for big k *)
  Fixpoint smul_nat (n : nat) (P : point) : point :=
    match n with
    | O => ed_zero
    | S n' => ed_add P (smul_nat n' P)
    end.
  Definition smul (k : Z) (P : point) : point := smul_nat (Z.to_nat k) P.
End Curve.

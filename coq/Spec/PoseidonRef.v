(* The reference function of property C01: the Poseidon hash over the BN254
   scalar field as specified by the Poseidon paper and instantiated by
   circomlib: x^5 S-box, R_F = 8, R_P taken from the circomlib schedule, round
   constants and MDS matrix produced by the reference Grain-LFSR generator
   (Spec/Grain.v, evaluated per width in Spec/GrainT<t>.v), textbook Hades
   permutation (Spec/Hades.v).

   Defined ONLY from Spec files (and the modulus q of Lib/Params.v): nothing
   here depends on the repository under verification or on tables regenerated
   from it. *)
From Coq Require Import ZArith List.
From Verif Require Import Lib.Params Spec.Hades Spec.Grain.
From Verif Require Spec.GrainT2 Spec.GrainT3 Spec.GrainT4 Spec.GrainT5 Spec.GrainT6 Spec.GrainT7 Spec.GrainT8 Spec.GrainT9 Spec.GrainT10 Spec.GrainT11 Spec.GrainT12 Spec.GrainT13 Spec.GrainT14 Spec.GrainT15 Spec.GrainT16 Spec.GrainT17.
Import ListNotations.
Local Open Scope Z_scope.

(* number of partial rounds for the widths t = 2 .. 17 *)
Definition rp_schedule : list nat :=
  [56; 57; 56; 60; 60; 63; 64; 63; 60; 66; 60; 65; 70; 60; 64; 68]%nat.

(* the permutation of width t (t = 2 .. 17); identity for any other width *)
Definition poseidon_perm (t : nat) (st : list Z) : list Z :=
  match t with
  | 2%nat => perm_ref q (sbox5 q) 2 8 GrainT2.RP GrainT2.RC GrainT2.MDS st
  | 3%nat => perm_ref q (sbox5 q) 3 8 GrainT3.RP GrainT3.RC GrainT3.MDS st
  | 4%nat => perm_ref q (sbox5 q) 4 8 GrainT4.RP GrainT4.RC GrainT4.MDS st
  | 5%nat => perm_ref q (sbox5 q) 5 8 GrainT5.RP GrainT5.RC GrainT5.MDS st
  | 6%nat => perm_ref q (sbox5 q) 6 8 GrainT6.RP GrainT6.RC GrainT6.MDS st
  | 7%nat => perm_ref q (sbox5 q) 7 8 GrainT7.RP GrainT7.RC GrainT7.MDS st
  | 8%nat => perm_ref q (sbox5 q) 8 8 GrainT8.RP GrainT8.RC GrainT8.MDS st
  | 9%nat => perm_ref q (sbox5 q) 9 8 GrainT9.RP GrainT9.RC GrainT9.MDS st
  | 10%nat => perm_ref q (sbox5 q) 10 8 GrainT10.RP GrainT10.RC GrainT10.MDS st
  | 11%nat => perm_ref q (sbox5 q) 11 8 GrainT11.RP GrainT11.RC GrainT11.MDS st
  | 12%nat => perm_ref q (sbox5 q) 12 8 GrainT12.RP GrainT12.RC GrainT12.MDS st
  | 13%nat => perm_ref q (sbox5 q) 13 8 GrainT13.RP GrainT13.RC GrainT13.MDS st
  | 14%nat => perm_ref q (sbox5 q) 14 8 GrainT14.RP GrainT14.RC GrainT14.MDS st
  | 15%nat => perm_ref q (sbox5 q) 15 8 GrainT15.RP GrainT15.RC GrainT15.MDS st
  | 16%nat => perm_ref q (sbox5 q) 16 8 GrainT16.RP GrainT16.RC GrainT16.MDS st
  | 17%nat => perm_ref q (sbox5 q) 17 8 GrainT17.RP GrainT17.RC GrainT17.MDS st
  | _ => st
  end.

(* hash of 1 .. 16 field elements with capacity lane [cap] (0 for the plain
   hash): state = cap :: inputs, one permutation, lane 0 *)
Definition poseidon_hash_ref (inputs : list Z) (cap : Z) : Z :=
  nth 0 (poseidon_perm (S (length inputs)) (cap :: inputs)) 0.

(* the schedule is the list of the R_P used by the sixteen Grain files *)
Lemma rp_schedule_ok :
  rp_schedule = [GrainT2.RP; GrainT3.RP; GrainT4.RP; GrainT5.RP; GrainT6.RP; GrainT7.RP; GrainT8.RP; GrainT9.RP; GrainT10.RP; GrainT11.RP; GrainT12.RP; GrainT13.RP; GrainT14.RP; GrainT15.RP; GrainT16.RP; GrainT17.RP].
Proof. reflexivity. Qed.

(* the Grain files are instances of the generator at the scheduled R_P *)
Lemma grain_schedule_ok :
  grain_params 2 (nth 0 rp_schedule 0%nat) = Some (GrainT2.RC, GrainT2.MDS) /\
  grain_params 3 (nth 1 rp_schedule 0%nat) = Some (GrainT3.RC, GrainT3.MDS) /\
  grain_params 4 (nth 2 rp_schedule 0%nat) = Some (GrainT4.RC, GrainT4.MDS) /\
  grain_params 5 (nth 3 rp_schedule 0%nat) = Some (GrainT5.RC, GrainT5.MDS) /\
  grain_params 6 (nth 4 rp_schedule 0%nat) = Some (GrainT6.RC, GrainT6.MDS) /\
  grain_params 7 (nth 5 rp_schedule 0%nat) = Some (GrainT7.RC, GrainT7.MDS) /\
  grain_params 8 (nth 6 rp_schedule 0%nat) = Some (GrainT8.RC, GrainT8.MDS) /\
  grain_params 9 (nth 7 rp_schedule 0%nat) = Some (GrainT9.RC, GrainT9.MDS) /\
  grain_params 10 (nth 8 rp_schedule 0%nat) = Some (GrainT10.RC, GrainT10.MDS) /\
  grain_params 11 (nth 9 rp_schedule 0%nat) = Some (GrainT11.RC, GrainT11.MDS) /\
  grain_params 12 (nth 10 rp_schedule 0%nat) = Some (GrainT12.RC, GrainT12.MDS) /\
  grain_params 13 (nth 11 rp_schedule 0%nat) = Some (GrainT13.RC, GrainT13.MDS) /\
  grain_params 14 (nth 12 rp_schedule 0%nat) = Some (GrainT14.RC, GrainT14.MDS) /\
  grain_params 15 (nth 13 rp_schedule 0%nat) = Some (GrainT15.RC, GrainT15.MDS) /\
  grain_params 16 (nth 14 rp_schedule 0%nat) = Some (GrainT16.RC, GrainT16.MDS) /\
  grain_params 17 (nth 15 rp_schedule 0%nat) = Some (GrainT17.RC, GrainT17.MDS).
Proof.
  split; [exact GrainT2.params_ok|].
  split; [exact GrainT3.params_ok|].
  split; [exact GrainT4.params_ok|].
  split; [exact GrainT5.params_ok|].
  split; [exact GrainT6.params_ok|].
  split; [exact GrainT7.params_ok|].
  split; [exact GrainT8.params_ok|].
  split; [exact GrainT9.params_ok|].
  split; [exact GrainT10.params_ok|].
  split; [exact GrainT11.params_ok|].
  split; [exact GrainT12.params_ok|].
  split; [exact GrainT13.params_ok|].
  split; [exact GrainT14.params_ok|].
  split; [exact GrainT15.params_ok|].
  split; [exact GrainT16.params_ok|].
  exact GrainT17.params_ok.
Qed.

(* BLAKE-512 (the SHA-3 finalist, NOT BLAKE2), written from the submission
   document "SHA-3 proposal BLAKE" (Aumasson, Henzen, Meier, Phan), section
   2.2 (BLAKE-64 family: 64-bit words, 16 rounds, 1024-bit blocks), with the
   salt fixed to 0 as in github.com/dchest/blake512 `New()`.
   Self-contained (standard library only).

   Conventions: a byte is a Z in [0,256); a word is a Z in [0,2^64); the chain
   value h is a list of 8 words, the working state v a list of 16 words
   (v0..v3 / v4..v7 / v8..v11 / v12..v15 are the rows of the 4x4 matrix).
   Bytes are packed into words big-endian.  Everything is executable by
   vm_compute and extracts with ExtrOcamlZBigInt: plain Z bit operations,
   structural recursion, every nat is a list length / small index.

   Remark on the counter.  The specification has a 128-bit bit counter
   t = t0 + 2^64 t1 (v12,v13 ^= t0 and v14,v15 ^= t1).  The Go implementation
   keeps 64 bits only (t1 = 0): both agree on every message shorter than 2^61
   bytes, i.e. on everything that can exist in memory. *)
From Coq Require Import ZArith List.
Import ListNotations.
Local Open Scope Z_scope.

(* ---------------------------------------------------------------- words *)

Definition b512_mask : Z := 18446744073709551615.   (* 2^64 - 1 *)

(* x mod 2^64 (lemma b512_w64_mod in Proofs/KeccakStreamProofs.v) *)
Definition b512_w64 (x : Z) : Z := Z.land x b512_mask.

(* addition modulo 2^64 *)
Definition b512_add (a b : Z) : Z := b512_w64 (a + b).

(* x >>> k : rotation of a 64-bit word towards the least significant bits,
   0 <= k <= 64 *)
Definition b512_rotr (x k : Z) : Z :=
  Z.lor (Z.shiftr x k) (b512_w64 (Z.shiftl x (64 - k))).

(* -------------------------------------------------------------- constants *)

(* IV: the initial value of SHA-512 *)
Definition b512_iv : list Z :=
  [ 0x6A09E667F3BCC908; 0xBB67AE8584CAA73B; 0x3C6EF372FE94F82B;
    0xA54FF53A5F1D36F1; 0x510E527FADE682D1; 0x9B05688C2B3E6C1F;
    0x1F83D9ABFB41BD6B; 0x5BE0CD19137E2179 ].

(* c_0 .. c_15: the first 1024 bits of the fractional part of pi *)
Definition b512_c : list Z :=
  [ 0x243F6A8885A308D3; 0x13198A2E03707344; 0xA4093822299F31D0;
    0x082EFA98EC4E6C89; 0x452821E638D01377; 0xBE5466CF34E90C6C;
    0xC0AC29B7C97C50DD; 0x3F84D5B5B5470917; 0x9216D5D98979FB1B;
    0xD1310BA698DFB5AC; 0x2FFD72DBD01ADFB7; 0xB8E1AFED6A267E96;
    0xBA7C9045F12C7F99; 0x24A19947B3916CF7; 0x0801F2E2858EFC16;
    0x636920D871574E69 ].

(* the ten permutations sigma_0 .. sigma_9 of {0..15}; round r uses
   sigma_(r mod 10) *)
Definition b512_sigma : list (list nat) :=
  ([ [  0;  1;  2;  3;  4;  5;  6;  7;  8;  9; 10; 11; 12; 13; 14; 15 ];
    [ 14; 10;  4;  8;  9; 15; 13;  6;  1; 12;  0;  2; 11;  7;  5;  3 ];
    [ 11;  8; 12;  0;  5;  2; 15; 13; 10; 14;  3;  6;  7;  1;  9;  4 ];
    [  7;  9;  3;  1; 13; 12; 11; 14;  2;  6;  5; 10;  4;  0; 15;  8 ];
    [  9;  0;  5;  7;  2;  4; 10; 15; 14;  1; 11; 12;  6;  8;  3; 13 ];
    [  2; 12;  6; 10;  0; 11;  8;  3;  4; 13;  7;  5; 15; 14;  1;  9 ];
    [ 12;  5;  1; 15; 14; 13;  4; 10;  0;  7;  6;  3;  9;  2;  8; 11 ];
    [ 13; 11;  7; 14; 12;  1;  3;  9;  5;  0; 15;  4;  8;  6;  2; 10 ];
    [  6; 15; 14;  9; 11;  3;  0;  8; 12;  2; 13;  7;  1;  4; 10;  5 ];
    [ 10;  2;  8;  4;  7;  6;  1;  5; 15; 11;  9; 14;  3; 12; 13;  0 ] ])%nat.

Definition b512_rounds : nat := 16.

Definition b512_block_bytes : nat := 128.    (* 1024-bit blocks *)

(* ------------------------------------------------------ the G function *)

(* G_i(a,b,c,d) in round r, with message words m and s = sigma_(r mod 10):
     a <- a + b + (m[s(2i)]   ^ c[s(2i+1)])
     d <- (d ^ a) >>> 32
     c <- c + d
     b <- (b ^ c) >>> 25
     a <- a + b + (m[s(2i+1)] ^ c[s(2i)])
     d <- (d ^ a) >>> 16
     c <- c + d
     b <- (b ^ c) >>> 11 *)
Definition b512_G (m : list Z) (s : list nat) (i : nat) (a b c d : Z)
  : Z * Z * Z * Z :=
  let j0 := nth (2 * i) s 0%nat in
  let j1 := nth (2 * i + 1) s 0%nat in
  let a := b512_add (b512_add a b) (Z.lxor (nth j0 m 0) (nth j1 b512_c 0)) in
  let d := b512_rotr (Z.lxor d a) 32 in
  let c := b512_add c d in
  let b := b512_rotr (Z.lxor b c) 25 in
  let a := b512_add (b512_add a b) (Z.lxor (nth j1 m 0) (nth j0 b512_c 0)) in
  let d := b512_rotr (Z.lxor d a) 16 in
  let c := b512_add c d in
  let b := b512_rotr (Z.lxor b c) 11 in
  (a, b, c, d).

(* one round: G0..G3 on the columns, then G4..G7 on the diagonals
     G0(v0,v4,v8 ,v12) G1(v1,v5,v9 ,v13) G2(v2,v6,v10,v14) G3(v3,v7,v11,v15)
     G4(v0,v5,v10,v15) G5(v1,v6,v11,v12) G6(v2,v7,v8 ,v13) G7(v3,v4,v9 ,v14) *)
Definition b512_round (m : list Z) (v : list Z) (r : nat) : list Z :=
  match v with
  | [v0; v1; v2; v3; v4; v5; v6; v7; v8; v9; v10; v11; v12; v13; v14; v15] =>
      let s := nth (r mod 10) b512_sigma [] in
      let '(v0, v4, v8,  v12) := b512_G m s 0 v0 v4 v8  v12 in
      let '(v1, v5, v9,  v13) := b512_G m s 1 v1 v5 v9  v13 in
      let '(v2, v6, v10, v14) := b512_G m s 2 v2 v6 v10 v14 in
      let '(v3, v7, v11, v15) := b512_G m s 3 v3 v7 v11 v15 in
      let '(v0, v5, v10, v15) := b512_G m s 4 v0 v5 v10 v15 in
      let '(v1, v6, v11, v12) := b512_G m s 5 v1 v6 v11 v12 in
      let '(v2, v7, v8,  v13) := b512_G m s 6 v2 v7 v8  v13 in
      let '(v3, v4, v9,  v14) := b512_G m s 7 v3 v4 v9  v14 in
      [v0; v1; v2; v3; v4; v5; v6; v7; v8; v9; v10; v11; v12; v13; v14; v15]
  | _ => v
  end.

(* ------------------------------------------------- compression function *)

(* big-endian packing of 8 bytes into a word, and back *)
Definition b512_be64 (b0 b1 b2 b3 b4 b5 b6 b7 : Z) : Z :=
  b7 + 256 * (b6 + 256 * (b5 + 256 * (b4 + 256 * (b3 + 256 * (b2 + 256 * (b1 + 256 * b0)))))).

Definition b512_byte (x : Z) : Z := Z.land x 255.

Definition b512_be_bytes64 (w : Z) : list Z :=
  [ b512_byte (Z.shiftr w 56); b512_byte (Z.shiftr w 48);
    b512_byte (Z.shiftr w 40); b512_byte (Z.shiftr w 32);
    b512_byte (Z.shiftr w 24); b512_byte (Z.shiftr w 16);
    b512_byte (Z.shiftr w 8);  b512_byte w ].

Fixpoint b512_words_of_bytes (bs : list Z) : list Z :=
  match bs with
  | b0 :: b1 :: b2 :: b3 :: b4 :: b5 :: b6 :: b7 :: rest =>
      b512_be64 b0 b1 b2 b3 b4 b5 b6 b7 :: b512_words_of_bytes rest
  | _ => []
  end.

(* the salt: four zero words *)
Definition b512_salt : list Z := [0; 0; 0; 0].

(* initialisation of the working state from the chain value h, the salt s and
   the 128-bit counter t = t0 + 2^64 t1:
     v0..v7   = h0..h7
     v8..v11  = s0^c0, s1^c1, s2^c2, s3^c3
     v12, v13 = t0^c4, t0^c5
     v14, v15 = t1^c6, t1^c7 *)
Definition b512_init (h s : list Z) (t : Z) : list Z :=
  let t0 := b512_w64 t in
  let t1 := b512_w64 (Z.shiftr t 64) in
  firstn 8 h ++
  [ Z.lxor (nth 0 s 0) (nth 0 b512_c 0); Z.lxor (nth 1 s 0) (nth 1 b512_c 0);
    Z.lxor (nth 2 s 0) (nth 2 b512_c 0); Z.lxor (nth 3 s 0) (nth 3 b512_c 0);
    Z.lxor t0 (nth 4 b512_c 0); Z.lxor t0 (nth 5 b512_c 0);
    Z.lxor t1 (nth 6 b512_c 0); Z.lxor t1 (nth 7 b512_c 0) ].

(* compress(h, m, s, t): 16 rounds, then
     h'_i = h_i ^ s_(i mod 4) ^ v_i ^ v_(i+8),  i = 0..7 *)
Definition b512_compress (h : list Z) (blk : list Z) (t : Z) : list Z :=
  let m := b512_words_of_bytes blk in
  let v := fold_left (b512_round m) (seq 0 b512_rounds) (b512_init h b512_salt t) in
  map (fun i => Z.lxor (Z.lxor (Z.lxor (nth i h 0) (nth (i mod 4) b512_salt 0))
                               (nth i v 0)) (nth (i + 8) v 0))
      (seq 0 8).

(* ---------------------------------------------------------------- padding *)

(* A message of [len] bytes (l = 8 len bits) is extended by a bit 1, the
   least number of bits 0 that brings the length to 894 mod 1024, a bit 1, and
   the 128-bit big-endian representation of l.  At byte granularity: p bytes
   0x80 0x00 .. 0x00 0x01 (the single byte 0x81 when p = 1) with
   1 <= p <= 128 and len + p = 112 mod 128, then 16 length bytes. *)
Definition b512_pad (len : nat) : list Z :=
  let p := S ((239 - len mod b512_block_bytes) mod b512_block_bytes) in
  let bitlen := 8 * Z.of_nat len in
  match p with
  | O => []                                (* impossible *)
  | S O => [0x81]
  | S (S k) => 0x80 :: repeat 0 k ++ [0x01]
  end
  ++ b512_be_bytes64 (Z.shiftr bitlen 64) ++ b512_be_bytes64 (b512_w64 bitlen).

(* cut into 128-byte blocks; fuel = length of the list *)
Fixpoint b512_chunks_fuel (fuel : nat) (l : list Z) : list (list Z) :=
  match fuel with
  | O => []
  | S f => match l with
           | [] => []
           | _ => firstn b512_block_bytes l
                  :: b512_chunks_fuel f (skipn b512_block_bytes l)
           end
  end.
Definition b512_chunks (l : list Z) : list (list Z) :=
  b512_chunks_fuel (length l) l.

(* ---------------------------------------------------------------- the hash *)

(* Counter value for block number i (from 0) of the padded message of a
   message of [bitlen] bits: the number of message bits in blocks 0..i, i.e.
   min(bitlen, 1024 (i+1)); except that a block that contains no message bit
   at all (only padding) gets the counter 0. *)
Definition b512_counter (bitlen i : Z) : Z :=
  if bitlen <=? 1024 * i then 0 else Z.min bitlen (1024 * (i + 1)).

(* iterate the compression function over the blocks; the second component is
   the block number *)
Definition b512_step (bitlen : Z) (st : list Z * Z) (blk : list Z) : list Z * Z :=
  let '(h, i) := st in
  (b512_compress h blk (b512_counter bitlen i), i + 1).

Definition blake512 (msg : list Z) : list Z :=
  let bitlen := 8 * Z.of_nat (length msg) in
  let blocks := b512_chunks (msg ++ b512_pad (length msg)) in
  let h := fst (fold_left (b512_step bitlen) blocks (b512_iv, 0)) in
  concat (map b512_be_bytes64 h).

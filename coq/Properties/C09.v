(* C09 — Goldilocks field arithmetic is exact modulo p = 2^64 - 2^32 + 1 for all
   operands.  Theorems only; proofs in Proofs/FfgArith.v, FfgMont.v, FfgOps.v.
   [mval z] is the field value of the Montgomery-form limb z; [canon z] is
   0 <= z < p.  The model (Model/FfgLimbs.v) is functional, so destination
   aliasing is decided by the correspondence (all five aliasing patterns). *)
From Coq Require Import ZArith List.
From Verif Require Import Lib.Params Lib.Words Lib.NumberTheory Model.FfgLimbs
  Proofs.FfgArith Proofs.FfgMont Proofs.FfgOps Proofs.FfgRoutinesEq.
From Verif Require Proofs.GapField.
From Verif Require Gen.FfgRoutines.
From Verif Require Lib.Words Lib.GoGlue Gen.FfGlue Gen.FfgGlue Proofs.FfGlueEq Proofs.FfgGlueEq Model.FfLimbs Model.FfgLimbs Model.FfConv Model.FfgConv.
From Verif Require Gen.FfgMem Proofs.FfgMemEq Gen.FfgRoutines.
Local Open Scope Z_scope.

Theorem C09_add : forall x y, canon x -> canon y ->
  canon (addGeneric x y) /\ mval (addGeneric x y) = (mval x + mval y) mod pg.
Proof. exact add_correct. Qed.
Theorem C09_sub : forall x y, canon x -> canon y ->
  canon (subGeneric x y) /\ mval (subGeneric x y) = (mval x - mval y) mod pg.
Proof. exact sub_correct. Qed.
Theorem C09_neg : forall x, canon x ->
  canon (negGeneric x) /\ mval (negGeneric x) = (- mval x) mod pg.
Proof. exact neg_correct. Qed.
Theorem C09_double : forall x, canon x ->
  canon (doubleGeneric x) /\ mval (doubleGeneric x) = (2 * mval x) mod pg.
Proof. exact double_correct. Qed.
Theorem C09_mul : forall x y, canon x -> canon y ->
  canon (mulGeneric x y) /\ mval (mulGeneric x y) = (mval x * mval y) mod pg.
Proof. exact FfgMont.mul_correct. Qed.
Theorem C09_square : forall x, canon x ->
  canon (square x) /\ mval (square x) = (mval x * mval x) mod pg.
Proof. exact square_correct. Qed.
Theorem C09_halve : forall z, canon z ->
  canon (halve z) /\ (2 * mval (halve z)) mod pg = mval z.
Proof. exact halve_correct. Qed.
Theorem C09_mulBy_constants : forall x, canon x ->
  (canon (mulBy3 x) /\ mval (mulBy3 x) = (3 * mval x) mod pg) /\
  (canon (mulBy5 x) /\ mval (mulBy5 x) = (5 * mval x) mod pg) /\
  (canon (mulBy13 x) /\ mval (mulBy13 x) = (13 * mval x) mod pg).
Proof. intros x H. exact (conj (mulBy3_correct x H) (conj (mulBy5_correct x H) (mulBy13_correct x H))). Qed.
Theorem C09_butterfly : forall a b, canon a -> canon b ->
  canon (fst (butterflyGeneric a b)) /\ canon (snd (butterflyGeneric a b)) /\
  mval (fst (butterflyGeneric a b)) = (mval a + mval b) mod pg /\
  mval (snd (butterflyGeneric a b)) = (mval a - mval b) mod pg.
Proof. exact butterfly_correct. Qed.
(* inverse and division: zero divisor maps to zero (inv_mod 0 p = 0) *)
Theorem C09_inverse : forall x, canon x ->
  canon (inverse x) /\ mval (inverse x) = inv_mod (mval x) pg.
Proof. exact inverse_correct. Qed.
Theorem C09_inverse_zero : inverse 0 = 0.
Proof. exact inverse_zero. Qed.
Theorem C09_inverse_mul : forall x, canon x -> x <> 0 -> (mval x * mval (inverse x)) mod pg = 1.
Proof. exact inverse_mul. Qed.
Theorem C09_div : forall x y, canon x -> canon y ->
  canon (div x y) /\ mval (div x y) = (mval x * inv_mod (mval y) pg) mod pg.
Proof. exact div_correct. Qed.
Theorem C09_batchInvert : forall a, Forall canon a ->
  Forall canon (batchInvert a) /\ map mval (batchInvert a) = map (fun ai => inv_mod (mval ai) pg) a.
Proof. exact batchInvert_correct. Qed.
Theorem C09_exp : forall x e, canon x -> 0 <= e ->
  canon (exp x e) /\ mval (exp x e) = (mval x ^ e) mod pg.
Proof. exact exp_correct. Qed.
(* construction from ANY 64-bit integer, values >= p included *)
Theorem C09_setUint64 : forall v, u64 v ->
  canon (setUint64 v) /\ mval (setUint64 v) = v mod pg.
Proof. exact setUint64_correct. Qed.
Theorem C09_toUint64Regular : forall z, canon z ->
  canon (toUint64Regular z) /\ toUint64Regular z = mval z.
Proof. exact toUint64Regular_correct. Qed.
(* canonical representation is unique: equal values have equal limbs *)
Theorem C09_mval_injective : forall a b, canon a -> canon b -> mval a = mval b -> a = b.
Proof. exact mval_inj. Qed.
(* the generated constants are the Goldilocks ones *)
Theorem C09_constants : qg = pg /\ modulus = pg.
Proof. exact (conj qg_eq modulus_eq). Qed.

(* TRANSLATOR TIE: the Gallina regenerated from ffg/element.go at every run
   (tools/limbgen -> Gen/FfgRoutines.v) equals the hand-written model *)
Theorem C09_model_is_the_source :
  ((forall x y, FfgRoutines.mulGeneric x y = mulGeneric x y) /\
   (forall z, FfgRoutines.fromMontGeneric z = fromMontGeneric z) /\
   (forall x y, FfgRoutines.addGeneric x y = addGeneric x y) /\
   (forall x, FfgRoutines.doubleGeneric x = doubleGeneric x) /\
   (forall x y, FfgRoutines.subGeneric x y = subGeneric x y) /\
   (forall x, FfgRoutines.negGeneric x = negGeneric x) /\
   (forall z, FfgRoutines.reduceGeneric z = reduceGeneric z) /\
   (forall z c, FfgRoutines.mulByConstant z c = mulByConstant z c) /\
   (forall a b, FfgRoutines.butterflyGeneric a b = butterflyGeneric a b) /\
   (forall x, FfgRoutines.Element_Square x = square x) /\
   (forall v, FfgRoutines.Element_SetUint64 v = setUint64 v) /\
   (forall z, FfgRoutines.Element_ToMont z = toMont z)).
Proof.
  exact (conj gen_mulGeneric_eq (conj gen_fromMontGeneric_eq (conj gen_addGeneric_eq (conj gen_doubleGeneric_eq
        (conj gen_subGeneric_eq (conj gen_negGeneric_eq (conj gen_reduceGeneric_eq (conj gen_mulByConstant_eq
        (conj gen_butterflyGeneric_eq (conj gen_square_eq (conj gen_setUint64_eq gen_toMont_eq))))))))))).
Qed.

(* zero divisor maps to zero *)
Theorem C09_inv_mod_zero : inv_mod 0 pg = 0.
Proof. vm_compute. reflexivity. Qed.

(* division by zero gives zero; big.Int.ModInverse (extended Euclid: inverse if gcd = 1, else
   receiver unchanged) is what the model's Fermat inversion computes *)
Theorem C09_div_by_zero : forall x y, canon x -> canon y -> mval y = 0 ->
  canon (div x y) /\ mval (div x y) = 0.
Proof. exact GapField.ffg_div_by_zero. Qed.

Theorem C09_modinv_is_ModInverse : forall v, 0 <= v < pg -> GapField.big_ModInverse v v pg = modinv v.
Proof. exact GapField.ffg_modinv_models_ModInverse. Qed.

(* ---- the element-level GLUE of the Go source (loops, calls, math/big conversions): tools/limbgen
   re-translates these functions at every run (Gen/FfGlue.v, Gen/FfgGlue.v: a Go loop becomes a
   fixpoint on its iteration count or on explicit fuel); each equals the model used above ---- *)
Theorem C09_glue_is_the_source :
  FfgGlue.One = FfgLimbs.one /\
  (forall x e, 0 <= e -> FfgGlue.Element_Exp x e = FfgLimbs.exp x e) /\
  (forall x, Words.u64 x -> FfgGlue.Element_Inverse x = FfgLimbs.inverse x) /\
  (forall x y, Words.u64 y -> FfgGlue.Element_Div x y = FfgLimbs.div x y) /\
  (forall z, FfgGlue.Element_Halve z = FfgLimbs.halve z) /\
  (forall a, FfgGlue.BatchInvert a = FfgLimbs.batchInvert a).
Proof.
  exact (conj FfgGlueEq.gen_One_eq (conj FfgGlueEq.gen_Exp_eq (conj FfgGlueEq.gen_Inverse_eq
        (conj FfgGlueEq.gen_Div_eq (conj FfgGlueEq.gen_Halve_eq FfgGlueEq.gen_BatchInvert_eq))))).
Qed.

(* ---- "also when the destination is the same object as one or both operands", PORTABLE code:
   tools/limbgen emits every pointer-taking limb routine a second time in a MEMORY semantics
   (FfgMem: a store obj -> el, loads and stores in Go statement order, pointer parameters
   are object ids about which nothing is assumed); for ALL object ids (equal or not) and all stores
   the destination ends up holding the value-level result computed from the INITIAL operands and
   every other object is unchanged ---- *)
Theorem C09_portable_aliasing : forall z x y m,
  FfgMemEq.ok3 FfgMem.addGeneric_mem FfgRoutines.addGeneric z x y m /\
  FfgMemEq.ok3 FfgMem.subGeneric_mem FfgRoutines.subGeneric z x y m /\
  FfgMemEq.ok3 FfgMem.mulGeneric_mem FfgRoutines.mulGeneric z x y m /\
  FfgMemEq.ok3 FfgMem.Element_Add_mem FfgRoutines.Element_Add z x y m /\
  FfgMemEq.ok3 FfgMem.Element_Sub_mem FfgRoutines.Element_Sub z x y m /\
  FfgMemEq.ok3 FfgMem.Element_Mul_mem FfgRoutines.Element_Mul z x y m /\
  FfgMemEq.ok2 FfgMem.Element_Square_mem FfgRoutines.Element_Square z x m /\
  FfgMemEq.ok2 FfgMem.doubleGeneric_mem FfgRoutines.doubleGeneric z x m /\
  FfgMemEq.ok2 FfgMem.negGeneric_mem FfgRoutines.negGeneric z x m /\
  FfgMemEq.ok2 FfgMem.Element_Double_mem FfgRoutines.Element_Double z x m /\
  FfgMemEq.ok2 FfgMem.Element_Neg_mem FfgRoutines.Element_Neg z x m /\
  FfgMemEq.ok2 FfgMem.Element_Set_mem FfgRoutines.Element_Set z x m /\
  FfgMemEq.ok1 FfgMem.fromMontGeneric_mem FfgRoutines.fromMontGeneric z m /\
  FfgMemEq.ok1 FfgMem.reduceGeneric_mem FfgRoutines.reduceGeneric z m.
Proof.
  intros z x y m.
  exact (conj (FfgMemEq.addGeneric_mem_ok z x y m) (conj (FfgMemEq.subGeneric_mem_ok z x y m) (conj (FfgMemEq.mulGeneric_mem_ok z x y m)
        (conj (FfgMemEq.Element_Add_mem_ok z x y m) (conj (FfgMemEq.Element_Sub_mem_ok z x y m) (conj (FfgMemEq.Element_Mul_mem_ok z x y m)
        (conj (FfgMemEq.Element_Square_mem_ok z x m) (conj (FfgMemEq.doubleGeneric_mem_ok z x m) (conj (FfgMemEq.negGeneric_mem_ok z x m)
        (conj (FfgMemEq.Element_Double_mem_ok z x m) (conj (FfgMemEq.Element_Neg_mem_ok z x m) (conj (FfgMemEq.Element_Set_mem_ok z x m)
        (conj (FfgMemEq.fromMontGeneric_mem_ok z m) (FfgMemEq.reduceGeneric_mem_ok z m)))))))))))))).
Qed.

Print Assumptions C09_model_is_the_source.
Print Assumptions C09_mul.
Print Assumptions C09_add.
Print Assumptions C09_inverse.
Print Assumptions C09_batchInvert.
Print Assumptions C09_exp.
Print Assumptions C09_setUint64.
Print Assumptions C09_halve.
Print Assumptions C09_div_by_zero.
Print Assumptions C09_modinv_is_ModInverse.
Print Assumptions C09_glue_is_the_source.
Print Assumptions C09_portable_aliasing.
Print Assumptions C09_sub.
Print Assumptions C09_neg.
Print Assumptions C09_double.
Print Assumptions C09_square.
Print Assumptions C09_mulBy_constants.
Print Assumptions C09_butterfly.
Print Assumptions C09_inverse_zero.
Print Assumptions C09_inverse_mul.
Print Assumptions C09_div.
Print Assumptions C09_toUint64Regular.
Print Assumptions C09_mval_injective.
Print Assumptions C09_constants.
Print Assumptions C09_inv_mod_zero.

(* C10 — Goldilocks Poseidon equals the reference width-12 Poseidon
   permutation.  PARTIAL (see DESIGN.md 6.C10): the theorem is for the x^7,
   4+22+4 Hades permutation with the circulant-plus-diagonal MDS of the
   statement (proved equal to what constants.go builds) and the round constants
   [RCstar] of Spec/GoldRef.v, which were obtained by un-optimizing the
   repository's table and are frozen there.  NOT shown: that RCstar equals, as
   a permutation, Plonky2's published ALL_ROUND_CONSTANTS (not available
   offline); only the 12 round-0 constants are visibly the published ones, and
   the repository's known-answer vectors evaluate correctly on the reference. *)
From Coq Require Import ZArith List.
From Verif Require Import Lib.Params Spec.Hades Spec.GoldRef Model.GoldPoseidon Proofs.GoldConforms.
From Verif Require Gen.GoldTables.
From Verif Require Gen.BigIntLoops Proofs.BigIntEqLoopsGold Model.Outcome.
Import ListNotations.
Local Open Scope Z_scope.

Theorem C10_mds_is_the_statement_matrix :
  GoldTables.mcirc = [17; 15; 41; 16; 2; 28; 13; 13; 39; 18; 34; 20] /\
  GoldTables.mdiag = [8; 0; 0; 0; 0; 0; 0; 0; 0; 0; 0; 0] /\
  GoldPoseidon.M GoldTables.mcirc GoldTables.mdiag 12 = Mstmt.
Proof.
  exact (conj (proj1 (proj2 (proj2 (proj2 (proj2 gold_meta_ok)))))
        (conj (proj2 (proj2 (proj2 (proj2 (proj2 gold_meta_ok))))) (proj1 gold_mds_ok))).
Qed.

(* all 2^768 assignments of the twelve 64-bit words, words >= p counting as their residue;
   four canonical outputs; the model has no error outcome at all *)
Theorem C10_gold_poseidon_conforms_partial : forall inp cap,
  length inp = 8%nat -> length cap = 4%nat ->
  Forall (fun w => 0 <= w < W) inp -> Forall (fun w => 0 <= w < W) cap ->
  GoldPoseidon.Hash GoldTables.c GoldTables.s GoldTables.p GoldTables.mcirc GoldTables.mdiag 8 22 12 inp cap
  = firstn 4 (perm_ref pg (sbox7 pg) 12 8 22 RCstar MDSref (map (fun w => w mod pg) (inp ++ cap)))
  /\ length (GoldPoseidon.Hash GoldTables.c GoldTables.s GoldTables.p GoldTables.mcirc GoldTables.mdiag 8 22 12 inp cap) = 4%nat
  /\ Forall (fun x => 0 <= x < pg)
       (GoldPoseidon.Hash GoldTables.c GoldTables.s GoldTables.p GoldTables.mcirc GoldTables.mdiag 8 22 12 inp cap).
Proof. exact gold_poseidon_conforms_partial. Qed.

(* Round 0 of Plonky2's published ALL_ROUND_CONSTANTS (poseidon.rs), written here as
   literals from the published source (the file is not available offline; these twelve
   values are the only part of the published table this development can name).  The
   optimized algorithm leaves round 0 untouched, so they must appear verbatim. *)
Definition plonky2_round0 : list Z :=
  [0xb585f766f2144405; 0x7746a55f43921ad7; 0xb2fb0d31cee799b4; 0x0f6760a4803427d7;
   0xe10d666650f4e012; 0x8cae14cb07d09bf1; 0xd438539c95f63e9f; 0xef781c7ce35b4c3d;
   0xcdc4a239b0c44426; 0x277fa208bf337bff; 0xe17653a29da578a1; 0xc54302f225db2c76].

Theorem C10_round0_is_published : firstn 12 RCstar = plonky2_round0.
Proof. vm_compute. reflexivity. Qed.

(* the model's first twelve constants are those of the reference (hence the published ones);
   all later rows of RCstar were DERIVED from the repository table (see header) *)
Theorem C10_round0_constants_of_model : firstn 12 (GoldPoseidon.C GoldTables.c) = firstn 12 RCstar.
Proof. exact gold_first_constants. Qed.

(* the repository's known-answer vectors evaluated on the REFERENCE permutation *)
Theorem C10_known_answers_on_reference :
  gold_hash_ref [0;0;0;0;0;0;0;0] [0;0;0;0]
  = [4330397376401421145; 14124799381142128323; 8742572140681234676; 14345658006221440202].
Proof. exact gold_kat_zero. Qed.

(* ---- the LOOPS of the Go source: tools/bigintgen re-translates the whole functions, loops
   included, at every run (Gen/BigIntLoops.v: a Go `for` becomes a fold over its index range
   with the loop-carried variables as accumulator); the translated function equals the model
   the theorems above are about ---- *)
Theorem C10_loops_are_the_source : forall inp cap, length inp = 8%nat -> length cap = 4%nat ->
  BigIntLoops.goldenposeidon_Hash (GoldPoseidon.C GoldTables.c) (GoldPoseidon.S GoldTables.s)
    (GoldPoseidon.M GoldTables.mcirc GoldTables.mdiag 12) (GoldPoseidon.P GoldTables.p) inp cap
  = Outcome.Ok (GoldPoseidon.Hash GoldTables.c GoldTables.s GoldTables.p GoldTables.mcirc GoldTables.mdiag 8 22 12 inp cap).
Proof.
  intros inp cap Hi Hc.
  exact (BigIntEqLoopsGold.gen_goldenposeidon_Hash_model_eq _ _ _ _ GoldTables.c GoldTables.s GoldTables.p
           GoldTables.mcirc GoldTables.mdiag inp cap eq_refl eq_refl eq_refl eq_refl Hi Hc).
Qed.

Print Assumptions C10_mds_is_the_statement_matrix.
Print Assumptions C10_gold_poseidon_conforms_partial.
Print Assumptions C10_loops_are_the_source.
Print Assumptions C10_round0_is_published.
Print Assumptions C10_round0_constants_of_model.
Print Assumptions C10_known_answers_on_reference.

(* C10 — Goldilocks Poseidon equals the reference width-12 Poseidon
   permutation.  PARTIAL (see DESIGN.md 6.C10): the theorem is for the x^7,
   4+22+4 Hades permutation with the circulant-plus-diagonal MDS of the
   statement (proved equal to what constants.go builds) and the round constants
   [RCstar] of Spec/GoldRef.v, which were obtained by un-optimizing the
   repository's table and are frozen there.  NOT shown: that RCstar equals, as
   a permutation, Plonky2's published ALL_ROUND_CONSTANTS (not available
   offline); only the 12 round-0 constants are visibly the published ones, and
   the repository's known-answer vectors evaluate correctly on the reference. *)
From Coq Require Import ZArith List.
From Verif Require Import Lib.Params Spec.Hades Spec.GoldRef Model.GoldPoseidon Proofs.GoldConforms.
From Verif Require Gen.GoldTables.
Import ListNotations.
Local Open Scope Z_scope.

Theorem C10_mds_is_the_statement_matrix :
  GoldTables.mcirc = [17; 15; 41; 16; 2; 28; 13; 13; 39; 18; 34; 20] /\
  GoldTables.mdiag = [8; 0; 0; 0; 0; 0; 0; 0; 0; 0; 0; 0] /\
  GoldPoseidon.M GoldTables.mcirc GoldTables.mdiag 12 = Mstmt.
Proof.
  exact (conj (proj1 (proj2 (proj2 (proj2 (proj2 gold_meta_ok)))))
        (conj (proj2 (proj2 (proj2 (proj2 (proj2 gold_meta_ok))))) (proj1 gold_mds_ok))).
Qed.

(* all 2^768 assignments of the twelve 64-bit words, words >= p counting as their residue;
   four canonical outputs; the model has no error outcome at all *)
Theorem C10_gold_poseidon_conforms_partial : forall inp cap,
  length inp = 8%nat -> length cap = 4%nat ->
  Forall (fun w => 0 <= w < W) inp -> Forall (fun w => 0 <= w < W) cap ->
  GoldPoseidon.Hash GoldTables.c GoldTables.s GoldTables.p GoldTables.mcirc GoldTables.mdiag 8 22 12 inp cap
  = firstn 4 (perm_ref pg (sbox7 pg) 12 8 22 RCstar MDSref (map (fun w => w mod pg) (inp ++ cap)))
  /\ length (GoldPoseidon.Hash GoldTables.c GoldTables.s GoldTables.p GoldTables.mcirc GoldTables.mdiag 8 22 12 inp cap) = 4%nat
  /\ Forall (fun x => 0 <= x < pg)
       (GoldPoseidon.Hash GoldTables.c GoldTables.s GoldTables.p GoldTables.mcirc GoldTables.mdiag 8 22 12 inp cap).
Proof. exact gold_poseidon_conforms_partial. Qed.

Theorem C10_round0_constants_published : firstn 12 (GoldPoseidon.C GoldTables.c) = firstn 12 RCstar.
Proof. exact gold_first_constants. Qed.

Print Assumptions C10_mds_is_the_statement_matrix.
Print Assumptions C10_gold_poseidon_conforms_partial.

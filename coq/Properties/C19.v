(* C19 — point and signature methods store their result in the receiver as
   documented.  Theorems about the effect IR regenerated from the Go source:
   whenever Point.Mul, Point.Decompress, Signature.Decompress or Point.Set
   returns a reference, that reference IS the receiver, and every reference
   field of the receiver (X, Y / R8, S) has been stored on it before the return
   — for all arguments and all aliasing between receiver and arguments.  The
   stored VALUES are the functional models of C04/C06/C15 (returned value =
   computed result), tied by the correspondence, which compares receiver and
   returned value of the real code on every accepted scalar/point/encoding. *)
From Coq Require Import ZArith List String.
From Verif Require Import Model.Effects Proofs.EffectsProofs Proofs.EffectsDocumented Proofs.EffectsVerdictRecv.
From Verif Require Gen.EffectsIR.
Import ListNotations.
Local Open Scope string_scope.

Theorem C19_verdict :
  forallb (receiver_stored EffectsIR.funcs EffectsIR.recv_fields)
          ["babyjub.Point.Mul"; "babyjub.Point.Decompress"; "babyjub.Signature.Decompress"; "babyjub.Point.Set"] = true.
Proof. exact c19_receiver_stored. Qed.

Theorem C19_fields : map (fields_of EffectsIR.recv_fields) c19_methods =
  [["X"; "Y"]; ["X"; "Y"]; ["R8"; "S"]; ["X"; "Y"]].
Proof. exact c19_fields. Qed.

Theorem C19_receiver_is_result : forall gl f, In f c19_methods ->
  forall n ps h nx h' nx' tr D R,
    run EffectsIR.funcs gl n f ps h nx h' nx' tr (Some (D, R)) ->
    (forall c, ~ D c) \/
    ((forall c, D c <-> denP ps 0 c) /\
     forall fld, In fld (fields_of EffectsIR.recv_fields f) ->
       exists x, In (EvF x [RParam 0]) tr /\ (x = fld \/ x = "*")).
Proof. exact c19_receiver. Qed.

Print Assumptions C19_verdict.
Print Assumptions C19_receiver_is_result.

(* C19 — point and signature methods store their result in the receiver as
   documented.  Theorems about the effect IR regenerated from the Go source:
   whenever Point.Mul, Point.Decompress, Signature.Decompress or Point.Set
   returns a reference, that reference IS the receiver, and every reference
   field of the receiver (X, Y / R8, S) has been stored on it before the return
   — for all arguments and all aliasing between receiver and arguments.  The
   stored VALUES are the functional models of C04/C06/C15 (returned value =
   computed result), tied by the correspondence, which compares receiver and
   returned value of the real code on every accepted scalar/point/encoding. *)
From Coq Require Import ZArith List String.
From Verif Require Import Model.Effects Proofs.EffectsProofs Proofs.EffectsDocumented Proofs.EffectsVerdictRecv.
From Verif Require Gen.EffectsIR Gen.BigIntRoutines Proofs.BigIntEqRecv Model.BabyJub Model.Eddsa Model.Outcome.
From Verif Require Gen.BigIntLoops Proofs.BigIntEqLoopsMul.
Import ListNotations.
Local Open Scope string_scope.

Theorem C19_verdict :
  forallb (receiver_stored EffectsIR.funcs EffectsIR.recv_fields)
          ["babyjub.Point.Mul"; "babyjub.Point.Decompress"; "babyjub.Signature.Decompress"; "babyjub.Point.Set"] = true.
Proof. exact c19_receiver_stored. Qed.

Theorem C19_fields : map (fields_of EffectsIR.recv_fields) c19_methods =
  [["X"; "Y"]; ["X"; "Y"]; ["R8"; "S"]; ["X"; "Y"]].
Proof. exact c19_fields. Qed.

Theorem C19_receiver_is_result : forall gl f, In f c19_methods ->
  forall n ps h nx h' nx' tr D R,
    run EffectsIR.funcs gl n f ps h nx h' nx' tr (Some (D, R)) ->
    (forall c, ~ D c) \/
    ((forall c, D c <-> denP ps 0 c) /\
     forall fld, In fld (fields_of EffectsIR.recv_fields f) ->
       exists x, In (EvF x [RParam 0]) tr /\ (x = fld \/ x = "*")).
Proof. exact c19_receiver. Qed.

(* VALUE equality, on the value-level Gallina that tools/bigintgen regenerates from the Go
   source (alias-tracking symbolic execution): the FINAL receiver equals the returned value
   = the model's result, also when the argument is the receiver itself; on a failed
   Point.Decompress the receiver is unchanged. *)
Theorem C19_mul_receiver_value : forall p0 s q,
  BigIntRoutines.babyjub_Point_Mul__recv BigIntEqRecv.babyjub_mulLoop p0 s q = BabyJub.Mul s q /\
  BigIntRoutines.babyjub_Point_Mul BigIntEqRecv.babyjub_mulLoop s q = BabyJub.Mul s q /\
  BigIntRoutines.babyjub_Point_Mul__recv_aliased BigIntEqRecv.babyjub_mulLoop p0 s = BabyJub.Mul s p0.
Proof.
  intros. exact (conj (BigIntEqRecv.gen_babyjub_Point_Mul__recv_eq p0 s q)
                (conj (BigIntEqRecv.gen_babyjub_Point_Mul_eq s q) (BigIntEqRecv.gen_babyjub_Point_Mul__recv_aliased_eq p0 s))).
Qed.

Theorem C19_set_receiver_value : forall p0 c,
  BigIntRoutines.babyjub_Point_Set__recv p0 c = c /\ BigIntRoutines.babyjub_Point_Set c = c /\
  BigIntRoutines.babyjub_Point_Set__recv_aliased p0 = p0.
Proof.
  intros. exact (conj (BigIntEqRecv.gen_babyjub_Point_Set__recv_eq p0 c)
                (conj (BigIntEqRecv.gen_babyjub_Point_Set_eq c) (BigIntEqRecv.gen_babyjub_Point_Set__recv_aliased_eq p0))).
Qed.

Theorem C19_decompress_receiver_value : forall p0 leBuf,
  match BabyJub.Decompress leBuf with
  | Outcome.Ok P => BigIntRoutines.babyjub_Point_Decompress__recv p0 leBuf = Some P
  | Outcome.Err => BigIntRoutines.babyjub_Point_Decompress__recv p0 leBuf = Some p0
  | Outcome.Panic => True
  end.
Proof. exact BigIntEqRecv.gen_babyjub_Point_Decompress__recv_eq. Qed.

Theorem C19_sig_decompress_receiver_value : forall s0 buf, List.length buf = 64%nat ->
  match Eddsa.SigDecompress buf with
  | Outcome.Ok sg => BigIntRoutines.babyjub_Signature_Decompress__recv s0 buf = Some sg
  | Outcome.Err => BigIntRoutines.babyjub_Signature_Decompress__recv s0 buf = None
  | Outcome.Panic => True
  end.
Proof. exact BigIntEqRecv.gen_babyjub_Signature_Decompress__recv_eq. Qed.

(* ---- the LOOPS of the Go source: tools/bigintgen re-translates the whole functions, loops
   included, at every run (Gen/BigIntLoops.v: a Go `for` becomes a fold over its index range
   with the loop-carried variables as accumulator); the translated function equals the model
   the theorems above are about ---- *)
Theorem C19_mul_loop_receiver_value :
  (forall p0 s q, BigIntLoops.babyjub_Point_Mul__recv p0 s q = BabyJub.Mul s q) /\
  (forall p0 s, BigIntLoops.babyjub_Point_Mul__recv_aliased p0 s = BabyJub.Mul s p0).
Proof. exact (conj BigIntEqLoopsMul.gen_babyjub_Point_Mul__recv_eq BigIntEqLoopsMul.gen_babyjub_Point_Mul__recv_aliased_eq). Qed.

Print Assumptions C19_mul_receiver_value.
Print Assumptions C19_decompress_receiver_value.
Print Assumptions C19_verdict.
Print Assumptions C19_receiver_is_result.
Print Assumptions C19_mul_loop_receiver_value.
Print Assumptions C19_fields.
Print Assumptions C19_set_receiver_value.
Print Assumptions C19_sig_decompress_receiver_value.

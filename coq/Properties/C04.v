(* C04 — BabyJubJub addition and scalar multiplication implement the curve
   group law.  Theorems only; proofs live in Proofs/Edwards*.v, Proofs/BabyJub*.v. *)
From Coq Require Import ZArith List Znumtheory.
From Verif Require Import Lib.Params Lib.Primes Spec.Edwards Model.BabyJub
  Proofs.BabyJubGroup Proofs.BabyJubModel Proofs.BabyJubOrder Proofs.BabyJubSmallOrder.
From Verif Require Proofs.GapCurve Proofs.BabyJubCoreProofs.
From Verif Require Gen.BigIntRoutines Proofs.BigIntEqAdd.
From Verif Require Gen.BigIntLoops Proofs.BigIntEqLoopsMul.
Local Open Scope Z_scope.

Notation oc := (on_curve q ca cd).
Notation can := (canonical q).
Notation add := (ed_add q ca cd).
Notation smul := (smul q ca cd).

(* the projective addition of the code, read back in affine form, IS the
   affine twisted-Edwards law, for every pair of curve points (identity,
   inverse pairs, equal points, small-order points: the law is complete) *)
Theorem C04_add_is_group_law : forall P1 P2, oc P1 -> oc P2 ->
  Affine (Add (Projective P1) (Projective P2)) = add P1 P2.
Proof. exact Affine_Add_Projective. Qed.

Theorem C04_add_closed : forall P1 P2, oc P1 -> oc P2 ->
  oc (Affine (Add (Projective P1) (Projective P2))) /\
  can (Affine (Add (Projective P1) (Projective P2))).
Proof. exact Affine_Add_Projective_closed. Qed.

(* the law is a commutative group law on the curve *)
Theorem C04_group_laws :
  (forall P Q R, oc P -> oc Q -> oc R -> add (add P Q) R = add P (add Q R)) /\
  (forall P Q, add P Q = add Q P) /\
  (forall P, oc P -> can P -> add P ed_zero = P) /\
  (forall P, oc P -> add P (ed_neg q P) = ed_zero) /\
  (forall P Q, oc P -> oc Q -> oc (add P Q) /\ can (add P Q)).
Proof. exact (conj bj_add_assoc (conj bj_add_comm (conj bj_add_zero_r (conj bj_add_neg bj_add_closed)))). Qed.

(* Point.Mul computes k*P = P added k times, for every scalar k >= 0 of any bit length *)
Theorem C04_mul_is_repeated_addition : forall s P, 0 <= s -> oc P -> Mul s P = smul s P.
Proof. exact Mul_correct_gen. Qed.

Theorem C04_smul_unfold :
  (forall P, smul 0 P = ed_zero) /\ (forall k P, 0 <= k -> oc P -> smul (k + 1) P = add P (smul k P)).
Proof. exact (conj bj_smul_0 bj_smul_succ). Qed.

Theorem C04_mul_closed : forall s P, oc P -> oc (Mul s P) /\ can (Mul s P).
Proof. exact Mul_closed. Qed.

Theorem C04_mul_additive : forall j k P, 0 <= j -> 0 <= k -> oc P ->
  Mul (j + k) P = add (Mul j P) (Mul k P).
Proof. exact Mul_add. Qed.

(* Order * P is the identity for EVERY curve point (full group, not only the subgroup) *)
Theorem C04_order_kills_all : forall P, oc P -> Mul Order P = (0, 1).
Proof. exact Mul_Order_kills_all. Qed.

(* exported constants: Order = 8*l, SubOrder = l, l prime, B8 has order exactly l *)
Theorem C04_constants :
  Order = 8 * l /\ SubOrder = l /\ prime l /\
  smul l B8 = ed_zero /\ (forall k, 0 < k < l -> smul k B8 <> ed_zero).
Proof.
  exact (conj (proj1 (proj2 gen_orders_ok)) (conj (proj2 (proj2 gen_orders_ok))
        (conj l_prime (conj B8_order B8_order_exact)))).
Qed.

(* the 8x8 addition table of the small-order points, exhaustively *)
Theorem C04_small_order_table : forall i j, 0 <= i < 8 -> 0 <= j < 8 ->
  Affine (Add (Projective (nth8 i)) (Projective (nth8 j))) = nth8 ((i + j) mod 8).
Proof. exact small_order_table. Qed.

(* TRANSLATOR TIE: tools/bigintgen regenerates value-level Gallina from the Go source of these
   functions at every run (Gen/BigIntRoutines.v); it equals the hand-written model the theorems
   above are about, for all arguments.  An edit of the Go function breaks this. *)
Theorem C04_add_is_the_source : forall p o, BigIntRoutines.babyjub_PointProjective_Add p o = Add p o.
Proof. exact BigIntEqAdd.gen_babyjub_PointProjective_Add_eq. Qed.

(* PointProjective.Add on GENERAL projective representatives (any Z <> 0), not only Z = 1 *)
Theorem C04_add_general_representatives : forall P1' P2' P1 P2,
  BabyJubCoreProofs.represents q P1' P1 -> BabyJubCoreProofs.represents q P2' P2 -> oc P1 -> oc P2 ->
  BabyJubCoreProofs.represents q (Add P1' P2') (add P1 P2).
Proof. exact GapCurve.Add_general_representatives. Qed.

(* ---- the LOOPS of the Go source: tools/bigintgen re-translates the whole functions, loops
   included, at every run (Gen/BigIntLoops.v: a Go `for` becomes a fold over its index range
   with the loop-carried variables as accumulator); the translated function equals the model
   the theorems above are about ---- *)
Theorem C04_mul_loop_is_the_source : forall s q, BigIntLoops.babyjub_Point_Mul s q = Mul s q.
Proof. exact BigIntEqLoopsMul.gen_babyjub_Point_Mul_eq. Qed.

Print Assumptions C04_add_is_group_law.
Print Assumptions C04_group_laws.
Print Assumptions C04_mul_is_repeated_addition.
Print Assumptions C04_order_kills_all.
Print Assumptions C04_constants.
Print Assumptions C04_small_order_table.
Print Assumptions C04_add_is_the_source.
Print Assumptions C04_add_general_representatives.
Print Assumptions C04_mul_loop_is_the_source.
Print Assumptions C04_add_closed.
Print Assumptions C04_smul_unfold.
Print Assumptions C04_mul_closed.
Print Assumptions C04_mul_additive.

(* C20 — Keccak-256 and BLAKE-512 wrappers compute the standard digests for
   every input.  Theorems only; proofs live in Proofs/. *)
From Coq Require Import ZArith List.
From Verif Require Import Spec.Keccak Spec.Blake512 Model.KeccakStream
  Proofs.KeccakStreamProofs Spec.HashVectors.
From Verif Require Gen.BigIntLoops Proofs.BigIntEqLoopsMisc.
Import ListNotations.

(* keccak256.Hash(data...) — the streaming sponge as the wrapper drives it —
   equals the one-shot Keccak-256 specification of the concatenation, for any
   number of slices of any lengths (none, empty ones included). *)
Theorem C20_keccak_wrapper : forall data : list bytes,
  KeccakStream.Hash data = keccak256 (concat data).
Proof. exact keccak_stream_correct. Qed.

(* hence splitting a message differently never changes the digest *)
Theorem C20_split_independent : forall d1 d2 : list bytes,
  concat d1 = concat d2 -> KeccakStream.Hash d1 = KeccakStream.Hash d2.
Proof. exact keccak_stream_split_irrelevant. Qed.

Theorem C20_keccak_length : forall data : list bytes, length (KeccakStream.Hash data) = 32%nat.
Proof. exact Hash_length. Qed.

(* babyjub.Blake512(m) = New(); Write(m); Sum(nil): one write of the whole
   message, i.e. the specification function itself; 64-byte digest. *)
Theorem C20_blake_length : forall m : list Z, length (blake512 m) = 64%nat.
Proof. exact blake512_length. Qed.

(* the two specification functions reproduce digests PRODUCED BY THE GO LIBRARIES
   (and published vectors) at the block boundaries, computed inside Coq:
   Spec/HashVectors.v holds 63 such Examples; two are restated here *)
Theorem C20_vectors :
  keccak256 [] = [197; 210; 70; 1; 134; 247; 35; 60; 146; 126; 125; 178; 220; 199; 3; 192;
                  229; 0; 182; 83; 202; 130; 39; 59; 123; 250; 216; 4; 93; 133; 164; 112]%Z /\
  firstn 8 (blake512 [0%Z]) = [151; 150; 21; 135; 246; 217; 112; 250]%Z.
Proof. split; vm_compute; reflexivity. Qed.

(* determinism and "inputs unmodified" are properties of Gallina functions;
   for the implementation they are decided by C16 (effect IR) and by the
   purity harness.  The third-party digests (x/crypto/sha3, dchest/blake512)
   are tied to [keccak256]/[blake512] by Spec/HashVectors.v (54 digests
   produced by the Go code, re-computed inside Coq) and by the correspondence. *)

(* ---- the LOOPS of the Go source: tools/bigintgen re-translates the whole functions, loops
   included, at every run (Gen/BigIntLoops.v: a Go `for` becomes a fold over its index range
   with the loop-carried variables as accumulator); the translated function equals the model
   the theorems above are about ---- *)
Theorem C20_loop_is_the_source : forall data, BigIntLoops.keccak256_Hash data = KeccakStream.Hash data.
Proof. exact BigIntEqLoopsMisc.gen_keccak256_Hash_eq. Qed.

Print Assumptions C20_vectors.
Print Assumptions C20_keccak_wrapper.
Print Assumptions C20_split_independent.
Print Assumptions C20_keccak_length.
Print Assumptions C20_blake_length.
Print Assumptions C20_loop_is_the_source.

(* C05 — BN254 field arithmetic is exact modulo q for all operands.  Theorems
   only; proofs in Proofs/FfWords.v, FfEl.v, FfArith.v, FfOps.v, FfInverse.v.
   The model (Model/FfLimbs.v) follows the PORTABLE Go routines statement by
   statement on four 64-bit limbs in Montgomery form; [mval z] is the field
   value of z, [canon z] says the limbs are 64-bit words with value < q.  The
   amd64 assembly back-ends are NOT modelled: they are tied to these same
   functions by the correspondence (asm / ADX-off / portable, all aliasing
   patterns, boundary-structured operands). *)
From Coq Require Import ZArith List.
From Verif Require Import Lib.Params Lib.Words Lib.NumberTheory Model.FfLimbs
  Proofs.FfWords Proofs.FfArith Proofs.FfOps Proofs.FfInverse Proofs.FfRoutinesEq
  Model.AsmSem Proofs.AsmProofs.
From Verif Require Proofs.GapField.
From Verif Require Gen.FfRoutines Gen.FfAsm.
From Verif Require Lib.Words Lib.GoGlue Gen.FfGlue Gen.FfgGlue Proofs.FfGlueEq Proofs.FfgGlueEq Model.FfLimbs Model.FfgLimbs Model.FfConv Model.FfgConv.
From Verif Require Gen.FfMem Proofs.FfMemEq Gen.FfRoutines.
Import ListNotations.
Local Open Scope Z_scope.

(* every literal of every modelled routine is the expected limb of q / -q^-1 /
   R^2 / R (regenerated from the source at every run) *)
Theorem C05_constants : val qEl = q /\ (R * Rinv) mod q = 1 /\ (q * qInvNeg) mod W = W - 1 /\
  val rSquare_el = (R * R) mod q /\ val one = R mod q.
Proof.
  exact (conj (proj1 consts_ok) (conj (proj1 (proj2 (proj2 consts_ok)))
    (conj (proj1 (proj2 (proj2 (proj2 consts_ok))))
    (conj (proj1 (proj2 (proj2 (proj2 (proj2 consts_ok)))))
          (proj1 (proj2 (proj2 (proj2 (proj2 (proj2 consts_ok)))))))))).
Qed.

Theorem C05_mul : forall x y, canon x -> canon y ->
  canon (mulGeneric x y) /\ mval (mulGeneric x y) = (mval x * mval y) mod q.
Proof. exact mul_correct. Qed.
Theorem C05_square : forall x, canon x -> canon (square x) /\ mval (square x) = (mval x * mval x) mod q.
Proof. exact square_correct. Qed.
Theorem C05_add : forall x y, canon x -> canon y ->
  canon (addGeneric x y) /\ mval (addGeneric x y) = (mval x + mval y) mod q.
Proof. exact add_correct. Qed.
Theorem C05_sub : forall x y, canon x -> canon y ->
  canon (subGeneric x y) /\ mval (subGeneric x y) = (mval x - mval y) mod q.
Proof. exact sub_correct. Qed.
Theorem C05_neg : forall x, canon x -> canon (negGeneric x) /\ mval (negGeneric x) = (- mval x) mod q.
Proof. exact neg_correct. Qed.
Theorem C05_double : forall x, canon x -> canon (doubleGeneric x) /\ mval (doubleGeneric x) = (2 * mval x) mod q.
Proof. exact double_correct. Qed.
Theorem C05_halve : forall z, canon z -> canon (halve z) /\ (mval (halve z) * 2) mod q = mval z.
Proof. exact halve_correct. Qed.
Theorem C05_mulBy_constants : forall z, canon z ->
  (canon (mulBy3 z) /\ mval (mulBy3 z) = (3 * mval z) mod q) /\
  (canon (mulBy5 z) /\ mval (mulBy5 z) = (5 * mval z) mod q) /\
  (canon (mulBy13 z) /\ mval (mulBy13 z) = (13 * mval z) mod q).
Proof. intros z H. exact (conj (mulBy3_correct z H) (conj (mulBy5_correct z H) (mulBy13_correct z H))). Qed.
Theorem C05_butterfly : forall a b, canon a -> canon b ->
  canon (fst (butterflyGeneric a b)) /\ canon (snd (butterflyGeneric a b)) /\
  mval (fst (butterflyGeneric a b)) = (mval a + mval b) mod q /\
  mval (snd (butterflyGeneric a b)) = (mval a - mval b) mod q.
Proof. exact butterfly_correct. Qed.
(* inverse: total (the binary-GCD loops never run out of fuel), zero maps to zero *)
Theorem C05_inverse : forall x, canon x ->
  exists z, inverse x = Some z /\ canon z /\ mval z = inv_mod (mval x) q.
Proof. exact inverse_correct. Qed.
Theorem C05_inverse_zero : forall x, canon x -> mval x = 0 -> inverse x = Some zero.
Proof. exact inverse_zero. Qed.
Theorem C05_div : forall x y, canon x -> canon y ->
  exists z, div x y = Some z /\ canon z /\ mval z = (mval x * inv_mod (mval y) q) mod q.
Proof. exact div_correct. Qed.
Theorem C05_batchInvert : forall a, Forall canon a ->
  exists res, batchInvert a = Some res /\ Forall canon res /\
              map mval res = map (fun ai => inv_mod (mval ai) q) a.
Proof. exact batchInvert_correct. Qed.
(* exponentiation for every exponent >= 0; exponent 0 gives 1 *)
Theorem C05_exp : forall x e, canon x -> 0 <= e ->
  canon (exp x e) /\ mval (exp x e) = (mval x ^ e) mod q.
Proof. exact exp_correct. Qed.
Theorem C05_fromMont : forall z, canon z -> canon (fromMontGeneric z) /\ val (fromMontGeneric z) = mval z.
Proof. exact fromMont_correct. Qed.
Theorem C05_toMont : forall z, canon z -> canon (toMont z) /\ mval (toMont z) = val z mod q.
Proof. exact toMont_correct. Qed.
(* inv_mod is the field inverse (q is proved prime) *)
Theorem C05_inv_mod_is_inverse : forall a, a mod q <> 0 -> (a * inv_mod a q) mod q = 1.
Proof. exact Primes.inv_mod_q. Qed.

(* TRANSLATOR TIE: the Gallina regenerated from ff/element.go and ff/arith.go at every
   run (tools/limbgen -> Gen/FfRoutines.v) equals the hand-written model the theorems
   above are about, routine by routine (for Inverse: prologue, the two inner-loop
   conditions/bodies and the tail of the outer loop).  An edit of those Go routines
   changes Gen/FfRoutines.v and breaks one of these. *)
Theorem C05_model_is_the_source :
  ((forall x y, FfRoutines.mulGeneric x y = mulGeneric x y) /\ (forall z, FfRoutines.fromMontGeneric z = fromMontGeneric z) /\ (forall x y, FfRoutines.addGeneric x y = addGeneric x y) /\ (forall x, FfRoutines.doubleGeneric x = doubleGeneric x) /\ (forall x y, FfRoutines.subGeneric x y = subGeneric x y) /\ (forall x, FfRoutines.negGeneric x = negGeneric x) /\ (forall z, FfRoutines.reduceGeneric z = reduceGeneric z) /\ (forall z, FfRoutines.Element_Halve z = halve z) /\ (forall a b, FfRoutines.butterflyGeneric a b = butterflyGeneric a b) /\ (forall a b c, FfRoutines.madd0 a b c = madd0 a b c)).
Proof.
  exact (conj gen_mulGeneric_eq (conj gen_fromMontGeneric_eq (conj gen_addGeneric_eq (conj gen_doubleGeneric_eq
        (conj gen_subGeneric_eq (conj gen_negGeneric_eq (conj gen_reduceGeneric_eq (conj gen_halve_eq
        (conj gen_butterflyGeneric_eq gen_madd0_eq))))))))).
Qed.

(* Inverse: prologue, the two inner loops (condition + body) and the tail of the outer
   loop are the regenerated fragments; only the fuel-bounded glue is hand-written *)
Theorem C05_inverse_is_the_source :
  (forall fuel x, inverse_fuel fuel x =
     match FfRoutines.Element_Inverse_pre x with
     | inl z => Some z
     | inr (u, s, r, v) => inverse_loop fuel u v r s
     end) /\
  (forall fuel u s r v, inv_vloop (S fuel) v s =
     if FfRoutines.Element_Inverse_loop1_cond u s r v
     then (let '(_, s', _, v') := FfRoutines.Element_Inverse_loop1_body u s r v in inv_vloop fuel v' s')
     else Some (v, s)) /\
  (forall fuel u s r v, inv_uloop (S fuel) u r =
     if FfRoutines.Element_Inverse_loop2_cond u s r v
     then (let '(u', _, r', _) := FfRoutines.Element_Inverse_loop2_body u s r v in inv_uloop fuel u' r')
     else Some (u, r)) /\
  (forall u s r v, FfRoutines.Element_Inverse_tail u s r v =
     match inv_body u v r s with
     | inl z => inl z
     | inr (u', v', r', s') => inr (u', s', r', v')
     end).
Proof. exact (conj gen_inverse_pre_eq (conj gen_inv_vloop_eq (conj gen_inv_uloop_eq gen_inv_body_eq))). Qed.

Theorem C05_more_routines_are_the_source :
  (forall x, FfRoutines.Element_Square x = square x) /\
  (forall v, FfRoutines.Element_SetUint64 v = setUint64 v) /\
  (forall z, FfRoutines.Element_ToMont z = toMont z) /\
  (forall x, FfRoutines.MulBy3 x = mulBy3 x) /\
  (forall x, FfRoutines.MulBy5 x = mulBy5 x) /\
  (forall x, FfRoutines.MulBy13 x = mulBy13 x) /\
  (forall a b c, FfRoutines.madd1 a b c = madd1 a b c) /\
  (forall a b c d, FfRoutines.madd2 a b c d = madd2 a b c d) /\
  (forall a b c d e, FfRoutines.madd3 a b c d e = madd3 a b c d e).
Proof.
  exact (conj gen_square_eq (conj gen_setUint64_eq (conj gen_toMont_eq (conj gen_mulBy3_eq (conj gen_mulBy5_eq
        (conj gen_mulBy13_eq (conj gen_madd1_eq (conj gen_madd2_eq gen_madd3_eq)))))))).
Qed.

(* zero divisor: inv_mod 0 q = 0, so inverse / div / batch inverse map zero to zero *)
Theorem C05_inv_mod_zero : inv_mod 0 q = 0.
Proof. vm_compute. reflexivity. Qed.


(* ------------------------------------------------------------------------------------
   THE amd64 ASSEMBLY (ff/element_ops_amd64.s, element_mul_amd64.s, element_mul_adx_amd64.s).
   tools/asmgen regenerates the instruction lists (macros expanded, DATA constants resolved)
   into Gen/FfAsm.v at every run; Model/AsmSem.v gives the x86-64 subset its semantics
   (registers, CF/OF/ZF, memory indexed by location so that aliasing between the destination
   and the operands is real).  For all canonical operands, ALL locations of the pointer
   arguments (every aliasing pattern), all initial registers/flags and BOTH values of the
   run-time ADX switch, each routine terminates and stores exactly what the proved portable
   model computes; nothing else in memory changes.  [asm_adx_*] are the amd64_adx build.
   (Butterfly requires its two pointers to be distinct: with a == b the two outputs share
   one object and assembly and portable code keep different halves.) *)
Theorem C05_asm_add_correct : forall adx (lres lx ly : loc) (st : state) (x y : el),
  canon x -> canon y ->
  args st = [VP lres; VP lx; VP ly] -> mem st lx = x -> mem st ly = y ->
  exists st', run adx FfAsm.asm_add st = Some st' /\
    mem st' lres = addGeneric x y /\
    (forall l, l <> lres -> mem st' l = mem st l) /\
    canon (mem st' lres) /\ mval (mem st' lres) = (mval x + mval y) mod q.
Proof. exact asm_add_correct. Qed.

Theorem C05_asm_sub_correct : forall adx (lres lx ly : loc) (st : state) (x y : el),
  canon x -> canon y ->
  args st = [VP lres; VP lx; VP ly] -> mem st lx = x -> mem st ly = y ->
  exists st', run adx FfAsm.asm_sub st = Some st' /\
    mem st' lres = subGeneric x y /\
    (forall l, l <> lres -> mem st' l = mem st l) /\
    canon (mem st' lres) /\ mval (mem st' lres) = (mval x - mval y) mod q.
Proof. exact asm_sub_correct. Qed.

Theorem C05_asm_double_correct : forall adx (lres lx : loc) (st : state) (x : el),
  canon x ->
  args st = [VP lres; VP lx] -> mem st lx = x ->
  exists st', run adx FfAsm.asm_double st = Some st' /\
    mem st' lres = doubleGeneric x /\
    (forall l, l <> lres -> mem st' l = mem st l) /\
    canon (mem st' lres) /\ mval (mem st' lres) = (2 * mval x) mod q.
Proof. exact asm_double_correct. Qed.

Theorem C05_asm_neg_correct : forall adx (lres lx : loc) (st : state) (x : el),
  canon x ->
  args st = [VP lres; VP lx] -> mem st lx = x ->
  exists st', run adx FfAsm.asm_neg st = Some st' /\
    mem st' lres = negGeneric x /\
    (forall l, l <> lres -> mem st' l = mem st l) /\
    canon (mem st' lres) /\ mval (mem st' lres) = (- mval x) mod q.
Proof. exact asm_neg_correct. Qed.

Theorem C05_asm_reduce_correct : forall adx (lres : loc) (st : state) (x : el),
  canon x ->
  args st = [VP lres] -> mem st lres = x ->
  exists st', run adx FfAsm.asm_reduce st = Some st' /\
    mem st' lres = reduceGeneric x /\
    (forall l, l <> lres -> mem st' l = mem st l) /\
    canon (mem st' lres) /\ mval (mem st' lres) = mval x mod q.
Proof. exact asm_reduce_correct. Qed.

Theorem C05_asm_MulBy3_correct : forall adx (lx : loc) (st : state) (x : el),
  canon x ->
  args st = [VP lx] -> mem st lx = x ->
  exists st', run adx FfAsm.asm_MulBy3 st = Some st' /\
    mem st' lx = mulBy3 x /\
    (forall l, l <> lx -> mem st' l = mem st l) /\
    canon (mem st' lx) /\ mval (mem st' lx) = (3 * mval x) mod q.
Proof. exact asm_MulBy3_correct. Qed.

Theorem C05_asm_MulBy5_correct : forall adx (lx : loc) (st : state) (x : el),
  canon x ->
  args st = [VP lx] -> mem st lx = x ->
  exists st', run adx FfAsm.asm_MulBy5 st = Some st' /\
    mem st' lx = mulBy5 x /\
    (forall l, l <> lx -> mem st' l = mem st l) /\
    canon (mem st' lx) /\ mval (mem st' lx) = (5 * mval x) mod q.
Proof. exact asm_MulBy5_correct. Qed.

Theorem C05_asm_MulBy13_correct : forall adx (lx : loc) (st : state) (x : el),
  canon x ->
  args st = [VP lx] -> mem st lx = x ->
  exists st', run adx FfAsm.asm_MulBy13 st = Some st' /\
    mem st' lx = mulBy13 x /\
    (forall l, l <> lx -> mem st' l = mem st l) /\
    canon (mem st' lx) /\ mval (mem st' lx) = (13 * mval x) mod q.
Proof. exact asm_MulBy13_correct. Qed.

Theorem C05_asm_Butterfly_correct : forall adx (la lb : loc) (st : state) (a b : el),
  canon a -> canon b -> la <> lb ->
  args st = [VP la; VP lb] -> mem st la = a -> mem st lb = b ->
  exists st', run adx FfAsm.asm_Butterfly st = Some st' /\
    mem st' la = fst (butterflyGeneric a b) /\
    mem st' lb = snd (butterflyGeneric a b) /\
    (forall l, l <> la -> l <> lb -> mem st' l = mem st l) /\
    canon (mem st' la) /\ canon (mem st' lb) /\
    mval (mem st' la) = (mval a + mval b) mod q /\
    mval (mem st' lb) = (mval a - mval b) mod q.
Proof. exact asm_Butterfly_correct. Qed.

Theorem C05_asm_fromMont_correct : forall adx (lres : loc) (st : state) (x : el),
  canon x ->
  args st = [VP lres] -> mem st lres = x ->
  exists st', run adx FfAsm.asm_fromMont st = Some st' /\
    mem st' lres = fromMontGeneric x /\
    (forall l, l <> lres -> mem st' l = mem st l) /\
    canon (mem st' lres) /\ val (mem st' lres) = mval x.
Proof. exact asm_fromMont_correct. Qed.

Theorem C05_asm_adx_fromMont_correct : forall adx (lres : loc) (st : state) (x : el),
  canon x ->
  args st = [VP lres] -> mem st lres = x ->
  exists st', run adx FfAsm.asm_adx_fromMont st = Some st' /\
    mem st' lres = fromMontGeneric x /\
    (forall l, l <> lres -> mem st' l = mem st l) /\
    canon (mem st' lres) /\ val (mem st' lres) = mval x.
Proof. exact asm_adx_fromMont_correct. Qed.

Theorem C05_asm_mul_correct : forall adx (lres lx ly : loc) (st : state) (x y : el),
  canon x -> canon y ->
  args st = [VP lres; VP lx; VP ly] -> mem st lx = x -> mem st ly = y ->
  exists st', run adx FfAsm.asm_mul st = Some st' /\
    mem st' lres = mulGeneric x y /\
    (forall l, l <> lres -> mem st' l = mem st l) /\
    canon (mem st' lres) /\ mval (mem st' lres) = (mval x * mval y) mod q.
Proof. exact asm_mul_correct. Qed.

Theorem C05_asm_adx_mul_correct : forall adx (lres lx ly : loc) (st : state) (x y : el),
  canon x -> canon y ->
  args st = [VP lres; VP lx; VP ly] -> mem st lx = x -> mem st ly = y ->
  exists st', run adx FfAsm.asm_adx_mul st = Some st' /\
    mem st' lres = mulGeneric x y /\
    (forall l, l <> lres -> mem st' l = mem st l) /\
    canon (mem st' lres) /\ mval (mem st' lres) = (mval x * mval y) mod q.
Proof. exact asm_adx_mul_correct. Qed.

Theorem C05_div_by_zero : forall x y, canon x -> canon y -> mval y = 0 ->
  exists z, div x y = Some z /\ mval z = 0.
Proof. exact GapField.ff_div_by_zero. Qed.

(* ---- the element-level GLUE of the Go source (loops, calls, math/big conversions): tools/limbgen
   re-translates these functions at every run (Gen/FfGlue.v, Gen/FfgGlue.v: a Go loop becomes a
   fixpoint on its iteration count or on explicit fuel); each equals the model used above ---- *)
Theorem C05_glue_is_the_source :
  FfGlue.One = FfLimbs.one /\
  (forall x e, FfGlue.Element_Exp x e = FfLimbs.exp x e) /\
  (forall x, FfGlue.Element_Inverse FfLimbs.outer_fuel FfLimbs.inner_fuel FfLimbs.inner_fuel x = FfGlueEq.of_opt (FfLimbs.inverse x)) /\
  (forall x y, FfGlue.Element_Div FfLimbs.outer_fuel FfLimbs.inner_fuel FfLimbs.inner_fuel x y = FfGlueEq.of_opt (FfLimbs.div x y)) /\
  (forall a, FfGlue.BatchInvert FfLimbs.outer_fuel FfLimbs.inner_fuel FfLimbs.inner_fuel a = FfGlueEq.of_opt (FfLimbs.batchInvert a)).
Proof.
  exact (conj FfGlueEq.gen_One_eq (conj FfGlueEq.gen_Exp_eq (conj FfGlueEq.gen_Inverse_eq
        (conj FfGlueEq.gen_Div_eq FfGlueEq.gen_BatchInvert_eq)))).
Qed.

(* the fuel of the translated Inverse loop is never exhausted on canonical elements *)
Theorem C05_glue_inverse_terminates : forall x, FfLimbs.canon x ->
  exists z, FfGlue.Element_Inverse FfLimbs.outer_fuel FfLimbs.inner_fuel FfLimbs.inner_fuel x = GoGlue.Done z /\ FfLimbs.inverse x = Some z.
Proof. exact FfGlueEq.gen_Inverse_canon. Qed.

(* ---- "also when the destination is the same object as one or both operands", PORTABLE code:
   tools/limbgen emits every pointer-taking limb routine a second time in a MEMORY semantics
   (FfMem: a store obj -> el, loads and stores in Go statement order, pointer parameters
   are object ids about which nothing is assumed); for ALL object ids (equal or not) and all stores
   the destination ends up holding the value-level result computed from the INITIAL operands and
   every other object is unchanged ---- *)
Theorem C05_portable_aliasing : forall z x y m,
  FfMemEq.ok3 FfMem.addGeneric_mem FfRoutines.addGeneric z x y m /\
  FfMemEq.ok3 FfMem.subGeneric_mem FfRoutines.subGeneric z x y m /\
  FfMemEq.ok3 FfMem.mulGeneric_mem FfRoutines.mulGeneric z x y m /\
  FfMemEq.ok3 FfMem.Element_Add_mem FfRoutines.Element_Add z x y m /\
  FfMemEq.ok3 FfMem.Element_Sub_mem FfRoutines.Element_Sub z x y m /\
  FfMemEq.ok3 FfMem.Element_Mul_mem FfRoutines.Element_Mul z x y m /\
  FfMemEq.ok2 FfMem.Element_Square_mem FfRoutines.Element_Square z x m /\
  FfMemEq.ok2 FfMem.doubleGeneric_mem FfRoutines.doubleGeneric z x m /\
  FfMemEq.ok2 FfMem.negGeneric_mem FfRoutines.negGeneric z x m /\
  FfMemEq.ok2 FfMem.Element_Double_mem FfRoutines.Element_Double z x m /\
  FfMemEq.ok2 FfMem.Element_Neg_mem FfRoutines.Element_Neg z x m /\
  FfMemEq.ok2 FfMem.Element_Set_mem FfRoutines.Element_Set z x m /\
  FfMemEq.ok1 FfMem.fromMontGeneric_mem FfRoutines.fromMontGeneric z m /\
  FfMemEq.ok1 FfMem.reduceGeneric_mem FfRoutines.reduceGeneric z m.
Proof.
  intros z x y m.
  exact (conj (FfMemEq.addGeneric_mem_ok z x y m) (conj (FfMemEq.subGeneric_mem_ok z x y m) (conj (FfMemEq.mulGeneric_mem_ok z x y m)
        (conj (FfMemEq.Element_Add_mem_ok z x y m) (conj (FfMemEq.Element_Sub_mem_ok z x y m) (conj (FfMemEq.Element_Mul_mem_ok z x y m)
        (conj (FfMemEq.Element_Square_mem_ok z x m) (conj (FfMemEq.doubleGeneric_mem_ok z x m) (conj (FfMemEq.negGeneric_mem_ok z x m)
        (conj (FfMemEq.Element_Double_mem_ok z x m) (conj (FfMemEq.Element_Neg_mem_ok z x m) (conj (FfMemEq.Element_Set_mem_ok z x m)
        (conj (FfMemEq.fromMontGeneric_mem_ok z m) (FfMemEq.reduceGeneric_mem_ok z m)))))))))))))).
Qed.

(* Butterfly(a, b): correct for distinct objects; for a = b the portable code leaves a - (a + a)
   in the object (the known finding of C05: the assembly leaves a + a) *)
Theorem C05_portable_butterfly : forall a b fr m, a <> b -> (a < fr)%nat -> (b < fr)%nat ->
  FfMem.butterflyGeneric_mem a b fr m a = fst (FfRoutines.butterflyGeneric (m a) (m b)) /\
  FfMem.butterflyGeneric_mem a b fr m b = snd (FfRoutines.butterflyGeneric (m a) (m b)).
Proof.
  intros a b fr m Hab Ha Hb.
  destruct (FfMemEq.butterflyGeneric_mem_distinct a b fr m Hab Ha Hb) as [H1 [H2 _]]. exact (conj H1 H2).
Qed.

Print Assumptions C05_asm_mul_correct.
Print Assumptions C05_asm_adx_mul_correct.
Print Assumptions C05_asm_add_correct.
Print Assumptions C05_asm_Butterfly_correct.
Print Assumptions C05_model_is_the_source.
Print Assumptions C05_mul.
Print Assumptions C05_add.
Print Assumptions C05_halve.
Print Assumptions C05_inverse.
Print Assumptions C05_batchInvert.
Print Assumptions C05_exp.
Print Assumptions C05_butterfly.
Print Assumptions C05_constants.
Print Assumptions C05_div_by_zero.
Print Assumptions C05_glue_is_the_source.
Print Assumptions C05_glue_inverse_terminates.
Print Assumptions C05_portable_aliasing.
Print Assumptions C05_portable_butterfly.
Print Assumptions C05_square.
Print Assumptions C05_sub.
Print Assumptions C05_neg.
Print Assumptions C05_double.
Print Assumptions C05_mulBy_constants.
Print Assumptions C05_inverse_zero.
Print Assumptions C05_div.
Print Assumptions C05_fromMont.
Print Assumptions C05_toMont.
Print Assumptions C05_inv_mod_is_inverse.
Print Assumptions C05_inverse_is_the_source.
Print Assumptions C05_more_routines_are_the_source.
Print Assumptions C05_inv_mod_zero.
Print Assumptions C05_asm_sub_correct.
Print Assumptions C05_asm_double_correct.
Print Assumptions C05_asm_neg_correct.
Print Assumptions C05_asm_reduce_correct.
Print Assumptions C05_asm_MulBy3_correct.
Print Assumptions C05_asm_MulBy5_correct.
Print Assumptions C05_asm_MulBy13_correct.
Print Assumptions C05_asm_fromMont_correct.
Print Assumptions C05_asm_adx_fromMont_correct.

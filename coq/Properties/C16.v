(* C16 — operations are pure: arguments and package constants are never
   modified.  PARTIAL in the sense of DESIGN.md 6.C16: the theorems are about the
   effect IR that tools/effgen regenerates from the Go source at every run
   (Gen/EffectsIR.v) under the havoc semantics of Model/Effects.v; the verdicts
   below are recomputed on the regenerated table.  The faithfulness of the
   translation and of the effect signatures assumed for math/big, ff, hex, sha3
   and blake512 methods is observed by the purity harness, not proved. *)
From Coq Require Import ZArith List String.
From Verif Require Import Model.Effects Proofs.EffectsProofs Proofs.EffectsDocumented Proofs.EffectsVerdictPure Proofs.EffectsVerdictState.
From Verif Require Gen.EffectsIR.
From Verif Require Import Model.EffectsDet Proofs.EffectsDetProofs Proofs.EffectsDetVerdict.
Import ListNotations.

(* proof obligations on the regenerated IR *)
Theorem C16_all_exported_pure :
  forallb (pure_fn EffectsIR.funcs documented) EffectsIR.exported_names = true.
Proof. exact all_exported_pure. Qed.

Theorem C16_no_package_state :
  no_global_state EffectsIR.funcs EffectsIR.all_names EffectsIR.init_names = true.
Proof. exact no_package_state. Qed.

(* one call: no pre-existing cell other than the documented destination changes;
   only fresh cells, arguments and globals are touched — for every heap, every
   argument layout, every execution *)
Theorem C16_frame : forall gl f, In f EffectsIR.exported_names ->
  forall n ps h nx h' nx' tr ret,
    run EffectsIR.funcs gl n f ps h nx h' nx' tr ret ->
    nx <= nx' /\
    (forall c, c < nx -> ~ dest_cells ps (dest_of documented f) c -> h' c = h c) /\
    (forall c, In c (writes_of tr) -> nx <= c < nx' \/ dest_cells ps (dest_of documented f) c) /\
    (forall c, In c (reads_of tr ++ writes_of tr) -> nx <= c < nx' \/ acc gl ps c).
Proof. exact c16_frame. Qed.

(* every finite history of exported operations, failing calls included *)
Theorem C16_history : forall gl hist,
  Forall (fun fp : call => In (fst fp) EffectsIR.exported_names) hist ->
  forall h nx h' nx', run_hist EffectsIR.funcs gl hist h nx h' nx' ->
  nx <= nx' /\ forall c, c < nx -> ~ hist_dest documented hist c -> h' c = h c.
Proof. exact c16_history. Qed.

(* non-vacuity: every exported function of the regenerated table has an execution from
   every heap and every argument layout (so the implications above are not vacuous) *)
Theorem C16_run_inhabited : forall f, In f EffectsIR.exported_names ->
  forall (gl : string -> region) ps h nx,
  exists n h' nx' tr ret, run EffectsIR.funcs gl n f ps h nx h' nx' tr ret.
Proof. exact run_inhabited. Qed.

(* the table covers the exported functions of ALL packages, ff and ffg included *)
Theorem C16_coverage : List.length EffectsIR.exported_names = 166%nat.
Proof. vm_compute. reflexivity. Qed.

(* results do not depend on heap contents: traces and returned regions of a run
   are the same from any heap (soundness of "depends only on its arguments"
   at the IR level; the VALUES are the functional models of C01..C15) *)

(* ---- deterministic programs (Model/EffectsDet.v): a call is a PROGRAM that computes its
   actions and its result from what it reads and that conforms to the regenerated IR of an
   exported function; for such programs the RESULT is a theorem, not only the footprint ---- *)
(* C16 "each operation's result depends only on its arguments" - program
   level: the trace and the result of a deterministic program are determined
   by the contents of the cells it reads before having written them. *)
Theorem C16_result_depends_on_reads : forall p h1 h2 fuel tr r,
    prog_trace p h1 fuel = (tr, r) ->
    (forall c, In c (ext_reads tr []) -> h1 c = h2 c) ->
    prog_trace p h2 fuel = (tr, r).
Proof. exact prog_det_agree. Qed.

(* ... and for an implementation of an exported function these cells are
   cells of the arguments and of package-level variables *)
Theorem C16_inputs : forall gl f, In f EffectsIR.exported_names ->
    forall p ps lo hi h tr res,
      conforms EffectsIR.funcs gl p f ps lo hi -> alone p h tr res ->
      (forall c, In c (ext_reads tr []) -> acc gl ps c) /\
      (forall h2, (forall c, In c (ext_reads tr []) -> h c = h2 c) -> alone p h2 tr res).
Proof. exact c16_inputs. Qed.

(* C16 "interleaving it with arbitrary other calls including failing ones
   yields the same result" *)
Theorem C16_repeat : forall gl f, In f EffectsIR.exported_names ->
    forall p ps lo hi, conforms EffectsIR.funcs gl p f ps lo hi ->
    forall hist, Forall (fun fp : call => In (fst fp) EffectsIR.exported_names) hist ->
    forall h nx h1 nx1, run_hist EffectsIR.funcs gl hist h nx h1 nx1 ->
    (forall c, acc gl ps c -> c < nx) ->
    (forall c, acc gl ps c -> ~ hist_dest documented hist c) ->
    forall tr res, alone p h tr res ->
      alone p h1 tr res /\
      exists n h2 hi' ret, run EffectsIR.funcs gl n f ps h1 lo h2 hi' tr ret.
Proof. exact c16_repeat. Qed.

Theorem C16_repeat_inputs : forall gl f, In f EffectsIR.exported_names ->
    forall p ps lo hi, conforms EffectsIR.funcs gl p f ps lo hi ->
    forall hist, Forall (fun fp : call => In (fst fp) EffectsIR.exported_names) hist ->
    forall h nx h1 nx1, run_hist EffectsIR.funcs gl hist h nx h1 nx1 ->
    (forall c, acc gl ps c -> c < nx) ->
    forall tr res, alone p h tr res ->
    (forall c, In c (ext_reads tr []) -> ~ hist_dest documented hist c) ->
    alone p h1 tr res.
Proof. exact c16_repeat_inputs. Qed.

(* C16 "repeating a call yields the same result" *)
Theorem C16_repeat_call : forall gl f, In f EffectsIR.exported_names ->
    forall p ps lo hi, conforms EffectsIR.funcs gl p f ps lo hi ->
    (forall c, acc gl ps c -> c < lo) ->
    forall h tr res, alone p h tr res ->
    (forall c, In c (ext_reads tr []) -> ~ dest_cells ps (dest_of documented f) c) ->
    forall k, alone p (Nat.iter k (apply_tr tr) h) tr res.
Proof. exact c16_repeat_call. Qed.

Print Assumptions C16_all_exported_pure.
Print Assumptions C16_no_package_state.
Print Assumptions C16_frame.
Print Assumptions C16_history.
Print Assumptions C16_run_inhabited.
Print Assumptions C16_result_depends_on_reads.
Print Assumptions C16_inputs.
Print Assumptions C16_repeat.
Print Assumptions C16_repeat_inputs.
Print Assumptions C16_repeat_call.
Print Assumptions C16_coverage.

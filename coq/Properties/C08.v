(* C08 — MiMC7 equals the circomlib MiMC7 definition for every input and round
   count.  Theorems only; proofs in Proofs/Mimc7Proofs.v; the definition is
   Spec/MiMC7Spec.v (written from the property text, independent of the model). *)
From Coq Require Import ZArith List.
From Verif Require Import Lib.Params Lib.Octets Spec.MiMC7Spec Model.Outcome Model.Utils Model.Mimc7
  Proofs.Mimc7Proofs.
From Verif Require Gen.BigIntLoops Proofs.BigIntEqLoopsMimc7.
Local Open Scope Z_scope.

(* the regenerated literals are the circomlib ones: q, 91 rounds, 31-byte chunks, seed "mimc" *)
Theorem C08_constants : Mimc7.Q = q /\ fixedRounds = 91 /\ chunkLen = 31%nat /\ SEED = spec_seed.
Proof. exact (conj (proj1 mimc7_consts_ok) (conj (proj1 (proj2 mimc7_consts_ok))
  (conj (proj1 (proj2 (proj2 mimc7_consts_ok))) (proj1 (proj2 (proj2 (proj2 mimc7_consts_ok))))))). Qed.

(* round constants: c_0 = 0, c_i = Keccak-256 chain over the 32-byte digest, mod q — for every n *)
Theorem C08_round_constants : forall n, (1 <= n)%nat -> getConstants n = map spec_c (seq 0 n).
Proof. exact getConstants_spec. Qed.

(* single block, every x k (reduced first) and every round count n >= 1 *)
Theorem C08_generic_conforms : forall x k n, 1 <= n ->
  MIMC7HashGeneric x k n = Ok (spec_mimc7 (Z.to_nat n) x k).
Proof. exact mimc7_generic_conforms_any. Qed.

Theorem C08_fixed_conforms : forall x k, 0 <= x < q -> 0 <= k < q -> MIMC7Hash x k = spec_MIMC7 x k.
Proof. exact mimc7_conforms. Qed.

(* multi-element fold, generic fold, byte hashing *)
Theorem C08_hash_conforms : forall arr key, CheckBigIntArrayInField Mimc7.Q arr = true ->
  Mimc7.Hash arr key = Ok (spec_hash arr key).
Proof. exact hash_conforms. Qed.

Theorem C08_hash_generic_conforms : forall iv arr n, CheckBigIntArrayInField Mimc7.Q arr = true -> 1 <= n ->
  HashGeneric iv arr n = Ok (spec_hash_generic (Z.to_nat n) iv arr).
Proof. exact hash_generic_conforms. Qed.

Theorem C08_hashbytes_conforms : forall b, Forall is_byte b -> HashBytes b = Ok (spec_hashbytes b).
Proof. exact hashbytes_conforms. Qed.

(* ---- the LOOPS of the Go source: tools/bigintgen re-translates the whole functions, loops
   included, at every run (Gen/BigIntLoops.v: a Go `for` becomes a fold over its index range
   with the loop-carried variables as accumulator); the translated function equals the model
   the theorems above are about ---- *)
Theorem C08_loops_are_the_source :
  (forall n, 1 <= n -> BigIntLoops.mimc7_getConstants Mimc7.SEED n = Mimc7.getConstants (Z.to_nat n)) /\
  snd BigIntLoops.mimc7_generateConstantsData = Mimc7.constants_cts /\
  (forall x k n, 1 <= n -> Ok (BigIntLoops.mimc7_MIMC7HashGeneric x k n) = Mimc7.MIMC7HashGeneric x k n) /\
  (forall x k, BigIntLoops.mimc7_MIMC7Hash x k = Mimc7.MIMC7Hash x k) /\
  (forall iv arr n, 1 <= n -> BigIntLoops.mimc7_HashGeneric iv arr n = Mimc7.HashGeneric iv arr n) /\
  (forall arr key, BigIntLoops.mimc7_Hash arr key = Mimc7.Hash arr key) /\
  (forall b, BigIntLoops.mimc7_HashBytes b = Mimc7.HashBytes b).
Proof.
  exact (conj BigIntEqLoopsMimc7.gen_mimc7_getConstants_eq (conj BigIntEqLoopsMimc7.gen_mimc7_constants_cts_eq
        (conj BigIntEqLoopsMimc7.gen_mimc7_MIMC7HashGeneric_eq (conj BigIntEqLoopsMimc7.gen_mimc7_MIMC7Hash_eq
        (conj BigIntEqLoopsMimc7.gen_mimc7_HashGeneric_eq (conj BigIntEqLoopsMimc7.gen_mimc7_Hash_eq
        BigIntEqLoopsMimc7.gen_mimc7_HashBytes_eq)))))).
Qed.

Print Assumptions C08_constants.
Print Assumptions C08_round_constants.
Print Assumptions C08_generic_conforms.
Print Assumptions C08_fixed_conforms.
Print Assumptions C08_hash_conforms.
Print Assumptions C08_hash_generic_conforms.
Print Assumptions C08_hashbytes_conforms.
Print Assumptions C08_loops_are_the_source.

(* C12 — key derivation follows EdDSA clamping and lands in the prime-order
   subgroup.  Theorems only; proofs in Proofs/EddsaPrune.v, EddsaProofs.v.
   Stated for the BLAKE-512 specification function (Spec/Blake512.v), which C20
   ties to the third-party implementation. *)
From Coq Require Import ZArith List.
From Verif Require Import Lib.Params Lib.Octets Spec.Edwards Spec.Blake512 Spec.EdDSASpec
  Model.BabyJub Model.Eddsa Proofs.KeccakStreamProofs Proofs.EddsaProofs.
From Verif Require Gen.BigIntRoutines Proofs.BigIntEqKeys.
Local Open Scope Z_scope.

Notation smul := (smul q ca cd).

(* the three byte masks of pruneBuffer are RFC 8032 clamping of the LE integer *)
Theorem C12_prune_is_clamp : forall b, length b = 32%nat -> Forall is_byte b ->
  le_val (pruneBuffer b) = clamp (le_val b).
Proof. exact prune_spec. Qed.

(* scalar = clamp(LE(first 32 bytes of BLAKE-512(key))) >> 3, for every key *)
Theorem C12_scalar : forall k,
  SkToBigInt blake512 k = spec_scalar blake512 k /\ 2 ^ 251 <= SkToBigInt blake512 k < 2 ^ 252.
Proof.
  intro k. exact (conj (sk_to_bigint_spec blake512 blake512_length blake512_bytes k)
                       (sk_to_bigint_range blake512 blake512_length blake512_bytes k)).
Qed.

(* public key = scalar * B8 (specification scalar multiplication) *)
Theorem C12_public : forall k, Public blake512 k = spec_public blake512 k.
Proof. exact (public_spec' blake512 blake512_length blake512_bytes). Qed.

(* canonical point of the prime-order subgroup, and the membership predicate says so *)
Theorem C12_public_in_subgroup : forall k,
  on_curve q ca cd (Public blake512 k) /\ canonical q (Public blake512 k) /\
  smul l (Public blake512 k) = ed_zero /\ InSubGroup (Public blake512 k) = true.
Proof. exact (public_in_subgroup blake512 blake512_length blake512_bytes). Qed.

(* all derivation routes agree: k.Public() = k.Scalar().Public(); SkToBigInt = Scalar().BigInt() *)
Theorem C12_routes_agree : forall k, ScalarPublic (SkToBigInt blake512 k) = Public blake512 k.
Proof. exact (routes_agree blake512). Qed.

(* TRANSLATOR TIE: tools/bigintgen regenerates value-level Gallina from the Go source of these
   functions at every run (Gen/BigIntRoutines.v); it equals the hand-written model the theorems
   above are about, for all arguments.  An edit of the Go function breaks this. *)
Theorem C12_model_is_the_source : forall blake,
  (forall buf, BigIntRoutines.babyjub_pruneBuffer buf = pruneBuffer buf) /\
  (forall k, BigIntRoutines.babyjub_SkToBigInt blake k = SkToBigInt blake k) /\
  (forall s, BigIntRoutines.babyjub_PrivKeyScalar_Public s = ScalarPublic s) /\
  (forall k, BigIntRoutines.babyjub_PrivateKey_Public blake k = Public blake k).
Proof.
  intros blake.
  exact (conj BigIntEqKeys.gen_babyjub_pruneBuffer_eq (conj (BigIntEqKeys.gen_babyjub_SkToBigInt_eq blake)
        (conj BigIntEqKeys.gen_babyjub_PrivKeyScalar_Public_eq (BigIntEqKeys.gen_babyjub_PrivateKey_Public_eq blake)))).
Qed.

Print Assumptions C12_prune_is_clamp.
Print Assumptions C12_scalar.
Print Assumptions C12_public.
Print Assumptions C12_public_in_subgroup.
Print Assumptions C12_routes_agree.
Print Assumptions C12_model_is_the_source.

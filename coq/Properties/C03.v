(* C03 — EdDSA verification accepts exactly the signatures satisfying the
   verification equation.  Theorems only; proofs in Proofs/EddsaProofs.v.
   [H] is the digest of the verification function used (any function). *)
From Coq Require Import ZArith List.
From Verif Require Import Lib.Params Spec.Edwards Model.Outcome Model.BabyJub Model.Eddsa
  Proofs.EddsaProofs.
From Verif Require Proofs.GapEddsa Proofs.EddsaPoseidon Proofs.EddsaInstances Spec.PoseidonRef Spec.MiMC7Spec.
From Verif Require Gen.BigIntRoutines Proofs.BigIntEqVerify.
Import ListNotations.
Local Open Scope Z_scope.

Notation oc := (on_curve q ca cd).
Notation add := (ed_add q ca cd).
Notation smul := (smul q ca cd).

Theorem C03_verify_iff : forall H A msg R8 Sv hm,
  oc A -> oc R8 -> 0 <= Sv < l ->
  H [fst R8; snd R8; fst A; snd A; msg] = Ok hm -> 0 <= hm ->
  (verify_with H A msg (R8, Sv) = Ok tt <-> smul Sv B8 = add R8 (smul (8 * hm) A)).
Proof. exact verify_iff. Qed.

(* never a panic (as long as the digest itself does not panic); digest error => error *)
Theorem C03_never_panics : forall H A msg R8 Sv,
  H [fst R8; snd R8; fst A; snd A; msg] <> Panic -> verify_with H A msg (R8, Sv) <> Panic.
Proof. exact verify_never_panics. Qed.

Theorem C03_digest_error_rejected : forall H A msg R8 Sv,
  H [fst R8; snd R8; fst A; snd A; msg] = Err -> verify_with H A msg (R8, Sv) = Err.
Proof. exact verify_err_of_hash_err. Qed.

(* an altered S is rejected (no assumption on the digest) *)
Theorem C03_altered_S_rejected : forall H A msg R8 Sv Sv',
  verify_with H A msg (R8, Sv) = Ok tt -> 0 <= Sv' < l -> Sv' <> Sv ->
  verify_with H A msg (R8, Sv') = Err.
Proof. exact altered_S_rejected. Qed.

(* Rejection of EVERY bit-flip of message / R8 / key is not a logical consequence
   of the equation (it needs collision-resistance of H); those fault sequences
   are enumerated against this iff by the correspondence (DESIGN.md 6.C03). *)
(* TRANSLATOR TIE: tools/bigintgen regenerates value-level Gallina from the Go source of these
   functions at every run (Gen/BigIntRoutines.v); it equals the hand-written model the theorems
   above are about, for all arguments.  An edit of the Go function breaks this. *)
Theorem C03_model_is_the_source : forall p5 m7,
  (forall pk msg sig, BigIntRoutines.babyjub_PublicKey_VerifyPoseidon p5 pk msg sig = VerifyPoseidon p5 pk msg sig) /\
  (forall pk msg sig, BigIntRoutines.babyjub_PublicKey_VerifyMimc7 m7 pk msg sig = VerifyMimc7 m7 pk msg sig).
Proof.
  intros p5 m7.
  exact (conj (BigIntEqVerify.gen_babyjub_PublicKey_VerifyPoseidon_eq p5) (BigIntEqVerify.gen_babyjub_PublicKey_VerifyMimc7_eq m7)).
Qed.

(* UNCONDITIONAL instances: the two verification functions of the library, digest = reference *)
Theorem C03_VerifyPoseidon_iff : forall A msg R8 Sv,
  oc A -> canonical q A -> oc R8 -> canonical q R8 -> 0 <= msg < q -> 0 <= Sv < l ->
  (VerifyPoseidon EddsaPoseidon.poseidon5 A msg (R8, Sv) = Ok tt <->
   smul Sv B8 = add R8 (smul (8 * PoseidonRef.poseidon_hash_ref [fst R8; snd R8; fst A; snd A; msg] 0) A)).
Proof. exact GapEddsa.VerifyPoseidon_iff. Qed.

Theorem C03_VerifyMimc7_iff : forall A msg R8 Sv,
  oc A -> canonical q A -> oc R8 -> canonical q R8 -> 0 <= msg < q -> 0 <= Sv < l ->
  (VerifyMimc7 EddsaInstances.mimc7h A msg (R8, Sv) = Ok tt <->
   smul Sv B8 = add R8 (smul (8 * MiMC7Spec.spec_hash [fst R8; snd R8; fst A; snd A; msg] None) A)).
Proof. exact GapEddsa.VerifyMimc7_iff. Qed.

(* never a panic, for ALL arguments *)
Theorem C03_verifiers_never_panic :
  (forall A msg R8 Sv, VerifyPoseidon EddsaPoseidon.poseidon5 A msg (R8, Sv) <> Panic) /\
  (forall A msg R8 Sv, VerifyMimc7 EddsaInstances.mimc7h A msg (R8, Sv) <> Panic).
Proof. exact (conj GapEddsa.VerifyPoseidon_never_panics GapEddsa.VerifyMimc7_never_panics_all). Qed.

Print Assumptions C03_verify_iff.
Print Assumptions C03_never_panics.
Print Assumptions C03_digest_error_rejected.
Print Assumptions C03_altered_S_rejected.
Print Assumptions C03_model_is_the_source.
Print Assumptions C03_VerifyMimc7_iff.
Print Assumptions C03_verifiers_never_panic.
Print Assumptions C03_VerifyPoseidon_iff.

(* C17 — all operations are safe for concurrent use and schedule-independent.
   PARTIAL (DESIGN.md 6.C17): theorems about the interleaving semantics of the
   regenerated effect IR; Go-memory-model races on words the IR abstracts, the
   sync.Pool implementation and the scheduler are observed (-race harness with
   value comparison), not proved. *)
From Coq Require Import ZArith List String.
From Verif Require Import Model.Effects Proofs.EffectsProofs Proofs.EffectsDocumented Proofs.EffectsVerdictPure Proofs.EffectsVerdictState Proofs.EffectsVerdictConc.
From Verif Require Gen.EffectsIR.
From Verif Require Import Model.EffectsDet Proofs.EffectsDetProofs Proofs.EffectsDetVerdict.
Import ListNotations.

(* outside the initialisers no function writes a package-level variable:
   no scratch state, cache or lazy initialisation in package state *)
Theorem C17_no_package_state : forall gl f, In f EffectsIR.all_names -> ~ In f EffectsIR.init_names ->
  forall n ps h nx h' nx' tr ret,
    run EffectsIR.funcs gl n f ps h nx h' nx' tr ret ->
    forall c, c < nx -> (forall i, ~ denP ps i c) -> h' c = h c.
Proof. exact c17_no_package_state. Qed.

(* any number of threads running exported operations on shared read-only
   arguments/globals and private destinations: race free, and every complete
   schedule gives every thread the observations and results of its run alone *)
Theorem C17_concurrent : forall gl h0 nx0 (ths : nat -> option thread) sch h' tss',
  (forall i t, ths i = Some t ->
     In (th_f t) EffectsIR.exported_names /\ nx0 <= th_lo t /\
     (forall c, acc gl (th_ps t) c -> c < nx0) /\
     exists n h1 ret, run EffectsIR.funcs gl n (th_f t) (th_ps t) h0 (th_lo t) h1 (th_hi t) (th_tr t) ret) ->
  (forall i j ti tj, i <> j -> ths i = Some ti -> ths j = Some tj ->
                     th_hi ti <= th_lo tj \/ th_hi tj <= th_lo ti) ->
  (forall i j ti tj, i <> j -> ths i = Some ti -> ths j = Some tj ->
                     forall c, th_dest documented ti c -> ~ acc gl (th_ps tj) c) ->
  run_sched sch h0 (init_threads (trs_of ths)) = (h', tss') ->
  complete tss' ->
  race_free_tr (trs_of ths) /\
  (forall i, rev (snd (tss' i)) = obs (trs_of ths i) h0) /\
  (forall i c, In c (foot (trs_of ths i)) -> h' c = apply_tr (trs_of ths i) h0 c) /\
  (forall c, (forall i, ~ In c (writes_of (trs_of ths i))) -> h' c = h0 c).
Proof. exact c17_concurrent. Qed.

(* ---- deterministic programs (Model/EffectsDet.v): a call is a PROGRAM that computes its
   actions and its result from what it reads and that conforms to the regenerated IR of an
   exported function; for such programs the RESULT is a theorem, not only the footprint ---- *)
(* C17, program level (DRF-determinism): race-free alone runs imply that
   every schedule reproduces the alone runs, results included *)
Theorem C17_drf_determinism : forall ps h0 trs ress,
    alone_family ps h0 trs ress -> race_free_tr trs ->
    forall sch h' pss',
      prun_sched ps sch h0 pinit_all = (h', pss') ->
      (forall i, exists rem,
          trs i = (ps_emit (pss' i) ++ rem)%list /\
          ps_obs (pss' i) = rev (obs (ps_emit (pss' i)) h0) /\
          (forall r, ps_res (pss' i) = Some r -> rem = [] /\ r = ress i) /\
          (forall c, In c (foot (trs i)) -> h' c = apply_tr (ps_emit (pss' i)) h0 c)) /\
      (forall c, (forall i, ~ In c (writes_of (trs i))) -> h' c = h0 c) /\
      (exists tss', run_sched sch h0 (init_threads trs) = (h', tss') /\
                    forall i, trs i = (ps_emit (pss' i) ++ fst (tss' i))%list /\
                              snd (tss' i) = ps_obs (pss' i)) /\
      (pcomplete ps pss' ->
       (forall i, ps_emit (pss' i) = trs i /\ rev (ps_obs (pss' i)) = obs (trs i) h0) /\
       (forall i p, ps i = Some p -> ps_res (pss' i) = Some (ress i)) /\
       (forall i c, In c (foot (trs i)) -> h' c = apply_tr (trs i) h0 c)).
Proof. exact prog_sched_alone. Qed.

(* C17 "every call returns the same value it returns when run alone, and no
   data race occurs" *)
Theorem C17_same_result : forall gl h0 nx0 (ths : nat -> option pthread) sch h' pss',
    (forall i t, ths i = Some t ->
       In (pt_f t) EffectsIR.exported_names /\ nx0 <= pt_lo t /\
       (forall c, acc gl (pt_ps t) c -> c < nx0) /\
       conforms EffectsIR.funcs gl (pt_prog t) (pt_f t) (pt_ps t) (pt_lo t) (pt_hi t) /\
       snd (prog_trace (pt_prog t) h0 (pt_fuel t)) <> None) ->
    (forall i j ti tj, i <> j -> ths i = Some ti -> ths j = Some tj ->
                       pt_hi ti <= pt_lo tj \/ pt_hi tj <= pt_lo ti) ->
    (forall i j ti tj, i <> j -> ths i = Some ti -> ths j = Some tj ->
                       forall c, pt_dest documented ti c -> ~ acc gl (pt_ps tj) c) ->
    prun_sched (progs_of ths) sch h0 pinit_all = (h', pss') ->
    race_free_tr (ptrs_of h0 ths) /\
    (forall i t, ths i = Some t ->
       alone (pt_prog t) h0 (pt_tr h0 t) (pt_result h0 t) /\
       exists rem,
         pt_tr h0 t = (ps_emit (pss' i) ++ rem)%list /\
         ps_obs (pss' i) = rev (obs (ps_emit (pss' i)) h0) /\
         (forall r, ps_res (pss' i) = Some r -> rem = [] /\ r = pt_result h0 t)) /\
    (forall c, (forall i t, ths i = Some t -> ~ In c (writes_of (pt_tr h0 t))) -> h' c = h0 c) /\
    (pcomplete (progs_of ths) pss' ->
     forall i t, ths i = Some t ->
       ps_res (pss' i) = Some (pt_result h0 t) /\
       ps_emit (pss' i) = pt_tr h0 t /\
       rev (ps_obs (pss' i)) = obs (pt_tr h0 t) h0 /\
       (forall c, In c (foot (pt_tr h0 t)) -> h' c = apply_tr (pt_tr h0 t) h0 c)).
Proof. exact c17_same_result. Qed.

Print Assumptions C17_no_package_state.
Print Assumptions C17_concurrent.
Print Assumptions C17_drf_determinism.
Print Assumptions C17_same_result.

(* C17 — all operations are safe for concurrent use and schedule-independent.
   PARTIAL (DESIGN.md 6.C17): theorems about the interleaving semantics of the
   regenerated effect IR; Go-memory-model races on words the IR abstracts, the
   sync.Pool implementation and the scheduler are observed (-race harness with
   value comparison), not proved. *)
From Coq Require Import ZArith List String.
From Verif Require Import Model.Effects Proofs.EffectsProofs Proofs.EffectsDocumented Proofs.EffectsVerdictPure Proofs.EffectsVerdictState Proofs.EffectsVerdictConc.
From Verif Require Gen.EffectsIR.
Import ListNotations.

(* outside the initialisers no function writes a package-level variable:
   no scratch state, cache or lazy initialisation in package state *)
Theorem C17_no_package_state : forall gl f, In f EffectsIR.all_names -> ~ In f EffectsIR.init_names ->
  forall n ps h nx h' nx' tr ret,
    run EffectsIR.funcs gl n f ps h nx h' nx' tr ret ->
    forall c, c < nx -> (forall i, ~ denP ps i c) -> h' c = h c.
Proof. exact c17_no_package_state. Qed.

(* any number of threads running exported operations on shared read-only
   arguments/globals and private destinations: race free, and every complete
   schedule gives every thread the observations and results of its run alone *)
Theorem C17_concurrent : forall gl h0 nx0 (ths : nat -> option thread) sch h' tss',
  (forall i t, ths i = Some t ->
     In (th_f t) EffectsIR.exported_names /\ nx0 <= th_lo t /\
     (forall c, acc gl (th_ps t) c -> c < nx0) /\
     exists n h1 ret, run EffectsIR.funcs gl n (th_f t) (th_ps t) h0 (th_lo t) h1 (th_hi t) (th_tr t) ret) ->
  (forall i j ti tj, i <> j -> ths i = Some ti -> ths j = Some tj ->
                     th_hi ti <= th_lo tj \/ th_hi tj <= th_lo ti) ->
  (forall i j ti tj, i <> j -> ths i = Some ti -> ths j = Some tj ->
                     forall c, th_dest documented ti c -> ~ acc gl (th_ps tj) c) ->
  run_sched sch h0 (init_threads (trs_of ths)) = (h', tss') ->
  complete tss' ->
  race_free_tr (trs_of ths) /\
  (forall i, rev (snd (tss' i)) = obs (trs_of ths i) h0) /\
  (forall i c, In c (foot (trs_of ths i)) -> h' c = apply_tr (trs_of ths i) h0 c) /\
  (forall c, (forall i, ~ In c (writes_of (trs_of ths i))) -> h' c = h0 c).
Proof. exact c17_concurrent. Qed.

Print Assumptions C17_no_package_state.
Print Assumptions C17_concurrent.

(* C14 — verification rejects non-canonical S, so signatures are not malleable.
   Theorems only; proofs in Proofs/EddsaProofs.v.  [H] is ANY digest function
   (both VerifyPoseidon and VerifyMimc7 are [verify_with H] for their H). *)
From Coq Require Import ZArith List.
From Verif Require Import Lib.Params Lib.Octets Spec.Edwards Model.Outcome Model.Eddsa
  Proofs.EddsaProofs.
From Verif Require Gen.BigIntRoutines Proofs.BigIntEqVerify.
Local Open Scope Z_scope.

Theorem C14_rejects_noncanonical_S : forall H A msg R8 Sv,
  (Sv < 0 \/ l <= Sv) -> verify_with H A msg (R8, Sv) = Err.
Proof. exact verify_rejects_noncanonical. Qed.

(* at most one S is accepted for given key, message and R8 *)
Theorem C14_at_most_one_S : forall H A msg R8 S1 S2,
  verify_with H A msg (R8, S1) = Ok tt -> verify_with H A msg (R8, S2) = Ok tt -> S1 = S2.
Proof. exact at_most_one_S. Qed.

(* in particular S + j*l is never accepted together with S *)
Theorem C14_shifted_S_rejected : forall H A msg R8 Sv j,
  verify_with H A msg (R8, Sv) = Ok tt -> j <> 0 -> verify_with H A msg (R8, Sv + j * l) = Err.
Proof. exact shifted_S_rejected. Qed.

(* hence at most one 64-byte compressed signature with that R8 *)
Theorem C14_at_most_one_encoding : forall H A msg R8 S1 S2 c1 c2,
  length c1 = 64%nat -> Forall is_byte c1 -> length c2 = 64%nat -> Forall is_byte c2 ->
  SigDecompress c1 = Ok (R8, S1) -> SigDecompress c2 = Ok (R8, S2) ->
  verify_with H A msg (R8, S1) = Ok tt -> verify_with H A msg (R8, S2) = Ok tt -> c1 = c2.
Proof. exact at_most_one_compressed. Qed.

(* TRANSLATOR TIE: tools/bigintgen regenerates value-level Gallina from the Go source of these
   functions at every run (Gen/BigIntRoutines.v); it equals the hand-written model the theorems
   above are about, for all arguments.  An edit of the Go function breaks this. *)
Theorem C14_model_is_the_source : forall p5 m7,
  (forall pk msg sig, BigIntRoutines.babyjub_PublicKey_VerifyPoseidon p5 pk msg sig = VerifyPoseidon p5 pk msg sig) /\
  (forall pk msg sig, BigIntRoutines.babyjub_PublicKey_VerifyMimc7 m7 pk msg sig = VerifyMimc7 m7 pk msg sig).
Proof.
  intros p5 m7.
  exact (conj (BigIntEqVerify.gen_babyjub_PublicKey_VerifyPoseidon_eq p5) (BigIntEqVerify.gen_babyjub_PublicKey_VerifyMimc7_eq m7)).
Qed.

Print Assumptions C14_rejects_noncanonical_S.
Print Assumptions C14_at_most_one_S.
Print Assumptions C14_shifted_S_rejected.
Print Assumptions C14_at_most_one_encoding.
Print Assumptions C14_model_is_the_source.

(* C14 — verification rejects non-canonical S, so signatures are not malleable.
   Theorems only; proofs in Proofs/EddsaProofs.v.  [H] is ANY digest function
   (both VerifyPoseidon and VerifyMimc7 are [verify_with H] for their H). *)
From Coq Require Import ZArith List.
From Verif Require Import Lib.Params Lib.Octets Spec.Edwards Model.Outcome Model.Eddsa
  Proofs.EddsaProofs.
Local Open Scope Z_scope.

Theorem C14_rejects_noncanonical_S : forall H A msg R8 Sv,
  (Sv < 0 \/ l <= Sv) -> verify_with H A msg (R8, Sv) = Err.
Proof. exact verify_rejects_noncanonical. Qed.

(* at most one S is accepted for given key, message and R8 *)
Theorem C14_at_most_one_S : forall H A msg R8 S1 S2,
  verify_with H A msg (R8, S1) = Ok tt -> verify_with H A msg (R8, S2) = Ok tt -> S1 = S2.
Proof. exact at_most_one_S. Qed.

(* in particular S + j*l is never accepted together with S *)
Theorem C14_shifted_S_rejected : forall H A msg R8 Sv j,
  verify_with H A msg (R8, Sv) = Ok tt -> j <> 0 -> verify_with H A msg (R8, Sv + j * l) = Err.
Proof. exact shifted_S_rejected. Qed.

(* hence at most one 64-byte compressed signature with that R8 *)
Theorem C14_at_most_one_encoding : forall H A msg R8 S1 S2 c1 c2,
  length c1 = 64%nat -> Forall is_byte c1 -> length c2 = 64%nat -> Forall is_byte c2 ->
  SigDecompress c1 = Ok (R8, S1) -> SigDecompress c2 = Ok (R8, S2) ->
  verify_with H A msg (R8, S1) = Ok tt -> verify_with H A msg (R8, S2) = Ok tt -> c1 = c2.
Proof. exact at_most_one_compressed. Qed.

Print Assumptions C14_rejects_noncanonical_S.
Print Assumptions C14_at_most_one_S.
Print Assumptions C14_shifted_S_rejected.
Print Assumptions C14_at_most_one_encoding.

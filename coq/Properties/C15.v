(* C15 — key and signature encodings are mutually inverse and reject malformed
   input.  Theorems only; proofs live in Proofs/{Octets,Utils,Compress,EddsaCodec}Proofs.v. *)
From Coq Require Import ZArith List.
From Verif Require Import Lib.Params Lib.Octets Spec.Edwards Model.Outcome Model.Utils
  Model.BabyJub Model.Eddsa Proofs.OctetsProofs Proofs.UtilsProofs Proofs.CompressProofs
  Proofs.EddsaCodecProofs.
From Verif Require Proofs.GapCodec.
From Verif Require Gen.BigIntRoutines Proofs.BigIntEqUtils Proofs.BigIntEqCodec.
Local Open Scope Z_scope.

Notation oc := (on_curve q ca cd).
Notation can := (canonical q).

(* ---- helper encodings *)
Theorem C15_swap_involutive : forall xs, SwapEndianness (SwapEndianness xs) = xs.
Proof. exact SwapEndianness_involutive. Qed.

Theorem C15_le_roundtrip : forall v, 0 <= v < 2 ^ 256 ->
  SetBigIntFromLEBytes (BigIntLEBytes v) = v.
Proof. exact SetBigIntFromLEBytes_BigIntLEBytes. Qed.

Theorem C15_le_roundtrip_bytes : forall b, length b = 32%nat -> Forall is_byte b ->
  BigIntLEBytes (SetBigIntFromLEBytes b) = b.
Proof. exact BigIntLEBytes_SetBigIntFromLEBytes. Qed.

Theorem C15_hex_roundtrip : forall bs, Forall is_byte bs -> HexDecode (HexEncode bs) = Ok bs.
Proof. exact HexDecode_HexEncode. Qed.

(* HexDecodeInto accepts exactly 2n hex digits after an optional 0x prefix *)
Theorem C15_hexdecodeinto_ok_iff : forall n h b,
  HexDecodeInto n h = Ok b <->
  length (strip_0x h) = (2 * n)%nat /\ Forall is_hex_char (strip_0x h) /\
  hex_decode (strip_0x h) = Some b.
Proof. exact HexDecodeInto_ok_iff. Qed.

Theorem C15_hexdecodeinto_total : forall n h, HexDecodeInto n h <> Panic.
Proof. exact HexDecodeInto_never_panics. Qed.

(* ---- signatures and public keys: compress / decompress *)
Theorem C15_sig_roundtrip : forall R8 Sv, oc R8 -> can R8 -> 0 <= Sv < 2 ^ 256 ->
  SigDecompress (SigCompress (R8, Sv)) = Ok (R8, Sv).
Proof. exact SigDecompress_SigCompress. Qed.

Theorem C15_sig_decompress_sound : forall buf R8 Sv, length buf = 64%nat -> Forall is_byte buf ->
  SigDecompress buf = Ok (R8, Sv) ->
  oc R8 /\ can R8 /\ 0 <= Sv < 2 ^ 256 /\ SigCompress (R8, Sv) = buf.
Proof. exact SigDecompress_sound. Qed.

Theorem C15_pk_roundtrip : forall pk, oc pk -> can pk -> PkDecompress (PkCompress pk) = Ok pk.
Proof. exact PkDecompress_PkCompress. Qed.

(* ---- text marshalling *)
Theorem C15_pk_text_roundtrip : forall pk, oc pk -> can pk ->
  PkUnmarshalText (PkMarshalText pk) = Ok pk.
Proof. exact PkUnmarshalText_PkMarshalText. Qed.

Theorem C15_sigcomp_text_roundtrip : forall c, length c = 64%nat -> Forall is_byte c ->
  SigCompUnmarshalText (SigCompMarshalText c) = Ok c.
Proof. exact SigCompUnmarshalText_SigCompMarshalText. Qed.

Theorem C15_pkcomp_text_roundtrip : forall c, length c = 32%nat -> Forall is_byte c ->
  PkCompUnmarshalText (PkCompMarshalText c) = Ok c.
Proof. exact PkCompUnmarshalText_PkCompMarshalText. Qed.

Theorem C15_decompresssig_roundtrip : forall R8 Sv, oc R8 -> can R8 -> 0 <= Sv < 2 ^ 256 ->
  DecompressSig (SigCompMarshalText (SigCompress (R8, Sv))) = Ok (R8, Sv).
Proof. exact DecompressSig_SigCompress. Qed.

(* ---- database Scan / Value *)
Theorem C15_sig_scan_value : forall R8 Sv, oc R8 -> can R8 -> 0 <= Sv < 2 ^ 256 ->
  SigScan (SrcBytes (SigValue (R8, Sv))) = Ok (R8, Sv).
Proof. exact SigScan_SigValue. Qed.

Theorem C15_pk_scan_value : forall pk, oc pk -> can pk -> PkScan (SrcBytes (PkValue pk)) = Ok pk.
Proof. exact PkScan_PkValue. Qed.

(* wrong dynamic type or wrong length is an error: the exact acceptance sets *)
Theorem C15_sigcomp_scan_ok_iff : forall src c,
  SigCompScan src = Ok c <-> src = SrcBytes c /\ length c = 64%nat.
Proof. exact SigCompScan_ok_iff. Qed.

Theorem C15_pkcomp_scan_ok_iff : forall src c,
  PkCompScan src = Ok c <-> src = SrcBytes c /\ length c = 32%nat.
Proof. exact PkCompScan_ok_iff. Qed.

Theorem C15_sig_scan_ok_iff : forall src s,
  SigScan src = Ok s <-> exists b, src = SrcBytes b /\ length b = 64%nat /\ SigDecompress b = Ok s.
Proof. exact SigScan_ok_iff. Qed.

Theorem C15_pk_scan_ok_iff : forall src pk,
  PkScan src = Ok pk <-> exists b, src = SrcBytes b /\ length b = 32%nat /\ PkDecompress b = Ok pk.
Proof. exact PkScan_ok_iff. Qed.

(* ---- never a panic *)
Theorem C15_total :
  (forall src, SigScan src <> Panic) /\ (forall src, PkScan src <> Panic) /\
  (forall h, DecompressSig h <> Panic) /\ (forall h, PkUnmarshalText h <> Panic) /\
  (forall h, HexDecode h <> Panic) /\ (forall buf, SigDecompress buf <> Panic).
Proof.
  exact (conj SigScan_never_panics (conj PkScan_never_panics (conj DecompressSig_never_panics
        (conj PkUnmarshalText_never_panics (conj HexDecode_never_panics SigDecompress_never_panics))))).
Qed.

(* TRANSLATOR TIE: tools/bigintgen regenerates value-level Gallina from the Go source of these
   functions at every run (Gen/BigIntRoutines.v); it equals the hand-written model the theorems
   above are about, for all arguments.  An edit of the Go function breaks this. *)
Theorem C15_model_is_the_source :
  (forall v, BigIntRoutines.utils_BigIntLEBytes v = BigIntLEBytes v) /\
  (forall b, BigIntRoutines.utils_SetBigIntFromLEBytes b = SetBigIntFromLEBytes b) /\
  (forall s, BigIntRoutines.babyjub_Signature_Compress s = SigCompress s) /\
  (forall buf, length buf = 64%nat -> BigIntRoutines.babyjub_Signature_Decompress buf = SigDecompress buf) /\
  (forall src, BigIntRoutines.babyjub_Signature_Scan src = SigScan src) /\
  (forall src, BigIntRoutines.babyjub_PublicKey_Scan src = PkScan src) /\
  (forall h, BigIntRoutines.babyjub_PublicKey_UnmarshalText h = PkUnmarshalText h) /\
  (forall h, BigIntRoutines.babyjub_DecompressSig h = DecompressSig h).
Proof.
  exact (conj BigIntEqUtils.gen_utils_BigIntLEBytes_eq (conj BigIntEqUtils.gen_utils_SetBigIntFromLEBytes_eq
        (conj BigIntEqCodec.gen_babyjub_Signature_Compress_eq (conj BigIntEqCodec.gen_babyjub_Signature_Decompress_eq
        (conj BigIntEqCodec.gen_babyjub_Signature_Scan_eq (conj BigIntEqCodec.gen_babyjub_PublicKey_Scan_eq
        (conj BigIntEqCodec.gen_babyjub_PublicKey_UnmarshalText_eq BigIntEqCodec.gen_babyjub_DecompressSig_eq))))))).
Qed.

(* exact acceptance sets of the text decoders *)
Theorem C15_hexdecode_accepts_iff : forall h,
  (exists b, HexDecode h = Ok b) <->
  Nat.even (length (strip_0x h)) = true /\ Forall is_hex_char (strip_0x h).
Proof. exact GapCodec.HexDecode_accepts_iff. Qed.

Theorem C15_pk_unmarshal_ok_iff : forall h pk,
  PkUnmarshalText h = Ok pk <->
  oc pk /\ can pk /\ length (strip_0x h) = 64%nat /\ Forall is_hex_char (strip_0x h) /\
  hex_decode (strip_0x h) = Some (PkCompress pk).
Proof. exact GapCodec.PkUnmarshalText_ok_iff'. Qed.

Theorem C15_decompresssig_ok_iff : forall h R8 Sv,
  DecompressSig h = Ok (R8, Sv) <->
  oc R8 /\ can R8 /\ 0 <= Sv < 2 ^ 256 /\ length (strip_0x h) = 128%nat /\
  Forall is_hex_char (strip_0x h) /\ hex_decode (strip_0x h) = Some (SigCompress (R8, Sv)).
Proof. exact GapCodec.DecompressSig_ok_iff'. Qed.

(* BigIntLEBytes is lossy outside [0, 2^256): it drops the sign and truncates *)
Theorem C15_lebytes_truncates : forall v, 0 <= v -> BigIntLEBytes v = BigIntLEBytes (v mod 2 ^ 256).
Proof. exact GapCodec.BigIntLEBytes_truncates. Qed.

Print Assumptions C15_le_roundtrip.
Print Assumptions C15_hexdecodeinto_ok_iff.
Print Assumptions C15_sig_roundtrip.
Print Assumptions C15_sig_decompress_sound.
Print Assumptions C15_pk_text_roundtrip.
Print Assumptions C15_decompresssig_roundtrip.
Print Assumptions C15_sig_scan_value.
Print Assumptions C15_sig_scan_ok_iff.
Print Assumptions C15_total.
Print Assumptions C15_model_is_the_source.
Print Assumptions C15_pk_unmarshal_ok_iff.
Print Assumptions C15_decompresssig_ok_iff.
Print Assumptions C15_swap_involutive.
Print Assumptions C15_le_roundtrip_bytes.
Print Assumptions C15_hex_roundtrip.
Print Assumptions C15_hexdecodeinto_total.
Print Assumptions C15_pk_roundtrip.
Print Assumptions C15_sigcomp_text_roundtrip.
Print Assumptions C15_pkcomp_text_roundtrip.
Print Assumptions C15_pk_scan_value.
Print Assumptions C15_sigcomp_scan_ok_iff.
Print Assumptions C15_pkcomp_scan_ok_iff.
Print Assumptions C15_pk_scan_ok_iff.
Print Assumptions C15_hexdecode_accepts_iff.
Print Assumptions C15_lebytes_truncates.

(* C02 — EdDSA signing is deterministic, circomlib-conformant and always
   verifiable.  Theorems only; proofs in Proofs/EddsaProofs.v, EddsaInstances.v.
   Generic statements are over any digest H that is total and non-negative on
   five in-field elements; the instances fix H to the MiMC7 model and to the
   Poseidon model on the regenerated tables (digest = reference Poseidon, C01). *)
From Coq Require Import ZArith List.
From Verif Require Import Lib.Params Lib.Octets Spec.Edwards Spec.Blake512 Spec.EdDSASpec
  Model.Outcome Model.Eddsa Proofs.KeccakStreamProofs Proofs.EddsaProofs Proofs.EddsaInstances Proofs.EddsaPoseidon.
From Verif Require Proofs.GapEddsa Spec.MiMC7Spec.
From Verif Require Gen.BigIntRoutines Proofs.BigIntEqSign.
Local Open Scope Z_scope.

Definition digest_ok (H : list Z -> res Z) : Prop :=
  forall v, Forall (fun x => 0 <= x < q) v -> length v = 5%nat -> exists hm, H v = Ok hm /\ 0 <= hm.

(* Sign = the circomlib-defined signature (EdDSASpec is written from the property text) *)
Theorem C02_sign_conforms : forall H, digest_ok H -> forall k msg, 0 <= msg < q ->
  sign_with blake512 H k msg = Ok (spec_signature blake512 (Hval H) k msg).
Proof. intros H HH. exact (sign_conforms blake512 blake512_length blake512_bytes H HH). Qed.

(* every produced signature verifies under the key's public key *)
Theorem C02_sign_verifies : forall H, digest_ok H -> forall k msg sig, 0 <= msg < q ->
  sign_with blake512 H k msg = Ok sig -> verify_with H (Public blake512 k) msg sig = Ok tt.
Proof. intros H HH. exact (sign_verifies blake512 blake512_length blake512_bytes H HH). Qed.

(* also after a compress / decompress round trip *)
Theorem C02_roundtrip_verifies : forall H, digest_ok H -> forall k msg sig, 0 <= msg < q ->
  sign_with blake512 H k msg = Ok sig ->
  exists sig', SigDecompress (SigCompress sig) = Ok sig' /\
               verify_with H (Public blake512 k) msg sig' = Ok tt.
Proof. intros H HH. exact (sign_roundtrip_verifies blake512 blake512_length blake512_bytes H HH). Qed.

(* R8 is a canonical subgroup point and 0 <= S < l, whatever the digest *)
Theorem C02_sign_in_range : forall H k msg R8 Sv, sign_with blake512 H k msg = Ok (R8, Sv) ->
  on_curve q ca cd R8 /\ canonical q R8 /\ smul q ca cd l R8 = ed_zero /\
  BabyJub.InSubGroup R8 = true /\ 0 <= Sv < l.
Proof. exact (sign_in_range blake512). Qed.

(* MiMC7 instance: succeeds for every key and every message in [0,q) *)
Theorem C02_mimc7_conforms : forall k msg, 0 <= msg < q ->
  SignMimc7 blake512 mimc7h k msg = Ok (spec_signature blake512 (Hval mimc7h) k msg).
Proof. exact SignMimc7_conforms. Qed.

Theorem C02_mimc7_verifies : forall k msg sig, 0 <= msg < q ->
  SignMimc7 blake512 mimc7h k msg = Ok sig ->
  VerifyMimc7 mimc7h (Public blake512 k) msg sig = Ok tt.
Proof. exact SignMimc7_verifies. Qed.

(* Poseidon instance: poseidon5 = poseidon.Hash on the regenerated tables *)
Theorem C02_poseidon_conforms : forall k msg, 0 <= msg < q ->
  SignPoseidon blake512 poseidon5 k msg = Ok (spec_signature blake512 (Hval poseidon5) k msg).
Proof. exact SignPoseidon_conforms. Qed.

Theorem C02_poseidon_verifies : forall k msg sig, 0 <= msg < q ->
  SignPoseidon blake512 poseidon5 k msg = Ok sig ->
  VerifyPoseidon poseidon5 (Public blake512 k) msg sig = Ok tt.
Proof. exact SignPoseidon_verifies. Qed.

(* the digest used is the reference Poseidon hash of C01 *)
Theorem C02_poseidon_digest_is_reference : forall v,
  Forall (fun x => 0 <= x < q) v -> length v = 5%nat ->
  poseidon5 v = Ok (Spec.PoseidonRef.poseidon_hash_ref v 0).
Proof. exact poseidon5_ref. Qed.

(* determinism: [sign_with] is a Gallina function; for the implementation it is
   decided by C16 (no hidden state) and the repeat pass of the purity harness. *)
(* TRANSLATOR TIE: tools/bigintgen regenerates value-level Gallina from the Go source of these
   functions at every run (Gen/BigIntRoutines.v); it equals the hand-written model the theorems
   above are about, for all arguments.  An edit of the Go function breaks this. *)
Theorem C02_model_is_the_source : forall blake p5 m7,
  (forall k msg, BigIntRoutines.babyjub_PrivateKey_SignPoseidon blake p5 k msg = SignPoseidon blake p5 k msg) /\
  (forall k msg, BigIntRoutines.babyjub_PrivateKey_SignMimc7 blake m7 k msg = SignMimc7 blake m7 k msg).
Proof.
  intros blake p5 m7.
  exact (conj (BigIntEqSign.gen_babyjub_PrivateKey_SignPoseidon_eq blake p5) (BigIntEqSign.gen_babyjub_PrivateKey_SignMimc7_eq blake m7)).
Qed.

(* both instances with the digest written as the REFERENCE function of C01 / C08 *)
Theorem C02_poseidon_is_circomlib : forall k msg, 0 <= msg < q ->
  SignPoseidon blake512 poseidon5 k msg
  = Ok (spec_signature blake512 (fun v => Spec.PoseidonRef.poseidon_hash_ref v 0) k msg).
Proof. exact GapEddsa.SignPoseidon_is_circomlib. Qed.

Theorem C02_mimc7_is_circomlib : forall k msg, 0 <= msg < q ->
  SignMimc7 blake512 mimc7h k msg
  = Ok (spec_signature blake512 (fun v => MiMC7Spec.spec_hash v None) k msg).
Proof. exact GapEddsa.SignMimc7_is_circomlib. Qed.

Theorem C02_poseidon_roundtrip_verifies : forall k msg sig, 0 <= msg < q ->
  SignPoseidon blake512 poseidon5 k msg = Ok sig ->
  exists sig', SigDecompress (SigCompress sig) = Ok sig' /\
               VerifyPoseidon poseidon5 (Public blake512 k) msg sig' = Ok tt.
Proof. exact GapEddsa.SignPoseidon_roundtrip_verifies. Qed.

Theorem C02_mimc7_roundtrip_verifies : forall k msg sig, 0 <= msg < q ->
  SignMimc7 blake512 mimc7h k msg = Ok sig ->
  exists sig', SigDecompress (SigCompress sig) = Ok sig' /\
               VerifyMimc7 mimc7h (Public blake512 k) msg sig' = Ok tt.
Proof. exact GapEddsa.SignMimc7_roundtrip_verifies. Qed.

Print Assumptions C02_sign_conforms.
Print Assumptions C02_sign_verifies.
Print Assumptions C02_roundtrip_verifies.
Print Assumptions C02_sign_in_range.
Print Assumptions C02_mimc7_conforms.
Print Assumptions C02_mimc7_verifies.
Print Assumptions C02_poseidon_verifies.
Print Assumptions C02_model_is_the_source.
Print Assumptions C02_mimc7_is_circomlib.
Print Assumptions C02_mimc7_roundtrip_verifies.
Print Assumptions C02_poseidon_conforms.
Print Assumptions C02_poseidon_digest_is_reference.
Print Assumptions C02_poseidon_is_circomlib.
Print Assumptions C02_poseidon_roundtrip_verifies.

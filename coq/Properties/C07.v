(* C07 — hash entry points reject out-of-domain inputs instead of reducing
   them.  Theorems only; proofs in Proofs/HashDomainProofs.v.  The Poseidon
   statements hold for ANY 16-entry table list, in particular the regenerated one. *)
From Coq Require Import ZArith List.
From Verif Require Import Lib.Params Lib.Octets Model.Outcome Model.Utils Model.Poseidon Model.Mimc7
  Proofs.HashDomainProofs.
From Verif Require Proofs.GapHash Proofs.PoseidonConforms.
From Verif Require Gen.BigIntRoutines Proofs.BigIntEqHash Proofs.BigIntEqUtils.
From Verif Require Gen.BigIntLoops Proofs.BigIntEqLoopsMisc.
Local Open Scope Z_scope.

Notation inF := (fun v : Z => 0 <= v < q).

Theorem C07_poseidon_accepts_iff : forall NROUNDSF tables, length tables = 16%nat ->
  forall inp cap nOuts,
  is_ok (HashWithStateEx q NROUNDSF tables inp cap nOuts) = true <->
  (1 <= length inp <= 16)%nat /\ Forall inF inp /\
  (1 <= nOuts <= Z.of_nat (length inp) + 1) /\ 0 <= cap < q.
Proof. exact poseidon_accepts_iff. Qed.

Theorem C07_poseidon_never_panics : forall NROUNDSF tables, length tables = 16%nat ->
  forall inp cap nOuts, HashWithStateEx q NROUNDSF tables inp cap nOuts <> Panic.
Proof. exact poseidon_never_panics. Qed.

Theorem C07_poseidon_wrappers : forall NROUNDSF tables, length tables = 16%nat ->
  (forall inp, is_ok (Poseidon.Hash q NROUNDSF tables inp) = true <->
     (1 <= length inp <= 16)%nat /\ Forall inF inp) /\
  (forall inp nOuts, is_ok (HashEx q NROUNDSF tables inp nOuts) = true <->
     (1 <= length inp <= 16)%nat /\ Forall inF inp /\ 1 <= nOuts <= Z.of_nat (length inp) + 1) /\
  (forall inp cap, is_ok (HashWithState q NROUNDSF tables inp cap) = true <->
     (1 <= length inp <= 16)%nat /\ Forall inF inp /\ 0 <= cap < q) /\
  (forall inp, Poseidon.Hash q NROUNDSF tables inp <> Panic).
Proof.
  intros N t H. exact (conj (poseidon_Hash_accepts_iff N t H) (conj (poseidon_HashEx_accepts_iff N t H)
    (conj (poseidon_HashWithState_accepts_iff N t H) (poseidon_Hash_never_panics N t H)))).
Qed.

Theorem C07_mimc7_hash_accepts_iff : forall arr key,
  is_ok (Mimc7.Hash arr key) = true <-> Forall inF arr.
Proof. exact mimc7_Hash_accepts_iff. Qed.

Theorem C07_mimc7_generic_accepts_iff : forall iv arr n, 1 <= n ->
  (is_ok (HashGeneric iv arr n) = true <-> Forall inF arr).
Proof. exact mimc7_HashGeneric_accepts_iff. Qed.

Theorem C07_mimc7_never_panics :
  (forall arr key, Mimc7.Hash arr key <> Panic) /\
  (forall iv arr n, 1 <= n -> HashGeneric iv arr n <> Panic) /\
  (forall b, Forall is_byte b -> is_ok (HashBytes b) = true).
Proof. exact (conj mimc7_Hash_never_panics (conj mimc7_HashGeneric_never_panics mimc7_HashBytes_always_ok)). Qed.

Theorem C07_check_in_field : forall a, CheckBigIntInField q a = true <-> 0 <= a < q.
Proof. exact CheckBigIntInField_spec. Qed.

(* two distinct accepted vectors are never aliases of one another modulo q *)
Theorem C07_no_alias : forall v v', Forall inF v -> Forall inF v' -> v <> v' ->
  ~ Forall2 (fun a b => a mod q = b mod q) v v'.
Proof. exact no_alias. Qed.

(* TRANSLATOR TIE: tools/bigintgen regenerates value-level Gallina from the Go source of these
   functions at every run (Gen/BigIntRoutines.v); it equals the hand-written model the theorems
   above are about, for all arguments.  An edit of the Go function breaks this. *)
Theorem C07_guards_are_the_source :
  (forall a, BigIntRoutines.utils_CheckBigIntInField a = CheckBigIntInField Gen.CurveConsts.Q a) /\
  (forall arr key, BigIntRoutines.mimc7_Hash BigIntEqHash.mimc7_absorb arr key = Mimc7.Hash arr key).
Proof. exact (conj BigIntEqUtils.gen_utils_CheckBigIntInField_eq BigIntEqHash.gen_mimc7_Hash_eq). Qed.

(* on the regenerated tables: the Ok list has exactly nOuts elements, every table has the
   shape the loop indexes (no out-of-range index), distinct accepted vectors never alias *)
Theorem C07_ok_length : forall inp cap nOuts r,
  HashWithStateEx q 8 PoseidonConforms.gen_tables inp cap nOuts = Ok r -> length r = Z.to_nat nOuts.
Proof. exact GapHash.HashWithStateEx_ok_length. Qed.

Theorem C07_tables_shape : forall t RP C S_ M P, (2 <= t <= 17)%nat ->
  nth_error PoseidonConforms.gen_tables (t - 2) = Some (RP, C, S_, M, P) ->
  length C = (8 * t + RP)%nat /\ length S_ = ((2 * t - 1) * RP)%nat /\
  length M = t /\ Forall (fun r => length r = t) M /\ length P = t /\ Forall (fun r => length r = t) P.
Proof. exact GapHash.tables_shape_ok. Qed.

Theorem C07_poseidon_no_alias : forall v v' h h',
  Poseidon.Hash q 8 PoseidonConforms.gen_tables v = Ok h ->
  Poseidon.Hash q 8 PoseidonConforms.gen_tables v' = Ok h' -> v <> v' -> ~ GapHash.congruent_vectors v v'.
Proof. exact GapHash.poseidon_Hash_no_alias. Qed.

(* observation (outside the statement's domain of round counts): HashGeneric panics exactly for
   nRounds <= 0 on a non-empty in-field array *)
Theorem C07_generic_panic_iff : forall iv arr n,
  HashGeneric iv arr n = Panic <-> n <= 0 /\ arr <> nil /\ Forall inF arr.
Proof. exact GapHash.mimc7_HashGeneric_panic_iff. Qed.

(* ---- the LOOPS of the Go source: tools/bigintgen re-translates the whole functions, loops
   included, at every run (Gen/BigIntLoops.v: a Go `for` becomes a fold over its index range
   with the loop-carried variables as accumulator); the translated function equals the model
   the theorems above are about ---- *)
Theorem C07_range_check_loop_is_the_source : forall arr,
  BigIntLoops.utils_CheckBigIntArrayInField arr = CheckBigIntArrayInField Gen.CurveConsts.Q arr.
Proof. exact BigIntEqLoopsMisc.gen_utils_CheckBigIntArrayInField_eq. Qed.

Print Assumptions C07_poseidon_accepts_iff.
Print Assumptions C07_poseidon_never_panics.
Print Assumptions C07_poseidon_wrappers.
Print Assumptions C07_mimc7_hash_accepts_iff.
Print Assumptions C07_mimc7_generic_accepts_iff.
Print Assumptions C07_mimc7_never_panics.
Print Assumptions C07_no_alias.
Print Assumptions C07_guards_are_the_source.
Print Assumptions C07_ok_length.
Print Assumptions C07_tables_shape.
Print Assumptions C07_generic_panic_iff.
Print Assumptions C07_range_check_loop_is_the_source.
Print Assumptions C07_check_in_field.
Print Assumptions C07_poseidon_no_alias.

(* C18 — square root and Legendre symbol are correct for every element of both
   fields.  Theorems only; proofs in Proofs/TonelliShanks.v (value level, both
   primes proved prime), Proofs/SqrtRefine.v (generic refinement), Proofs/FfSqrt.v
   and Proofs/FfgSqrt.v (limb-level models of Element.Legendre / Element.Sqrt,
   literals g, exponents and Montgomery one pinned by regeneration).
   [SqNil] is "returns nil": the model does not write the destination at all. *)
From Coq Require Import ZArith List.
From Verif Require Import Lib.Params.
From Verif Require Model.FfLimbs Model.FfConv Model.FfgLimbs Model.FfgConv Proofs.FfSqrt Proofs.FfgSqrt.
From Verif Require Lib.Words Lib.GoGlue Gen.FfGlue Gen.FfgGlue Proofs.FfGlueEq Proofs.FfgGlueEq Model.FfLimbs Model.FfgLimbs Model.FfConv Model.FfgConv.
Local Open Scope Z_scope.

Module BN254.
  Import Model.FfLimbs Model.FfConv.
  Theorem C18_legendre : forall x, canon x ->
    (legendre x = 0 <-> mval x = 0) /\
    (legendre x = 1 <-> (mval x <> 0 /\ exists r, (r * r) mod q = mval x)) /\
    (legendre x = -1 <-> (forall r, (r * r) mod q <> mval x)).
  Proof. exact FfSqrt.legendre_correct. Qed.
  Theorem C18_sqrt_of_square : forall x, canon x -> (exists r, (r * r) mod q = mval x) ->
    exists z, sqrt x = SqSome z /\ canon z /\ (mval z * mval z) mod q = mval x.
  Proof. exact FfSqrt.sqrt_square_correct. Qed.
  Theorem C18_sqrt_of_zero : forall x, canon x -> mval x = 0 -> sqrt x = SqSome zero.
  Proof. exact FfSqrt.sqrt_zero_correct. Qed.
  Theorem C18_sqrt_of_nonsquare : forall x, canon x -> (forall r, (r * r) mod q <> mval x) -> sqrt x = SqNil.
  Proof. exact FfSqrt.sqrt_nonsquare_correct. Qed.
  Theorem C18_sqrt_terminates : forall x, canon x -> sqrt x <> SqOutOfFuel.
  Proof. exact FfSqrt.sqrt_total. Qed.
End BN254.

Module Goldilocks.
  Import Model.FfgLimbs Model.FfgConv.
  Theorem C18_legendre : forall x, canon x ->
    (legendre x = 0 <-> mval x = 0) /\
    (legendre x = 1 <-> (mval x <> 0 /\ exists r, (r * r) mod pg = mval x)) /\
    (legendre x = -1 <-> (forall r, (r * r) mod pg <> mval x)).
  Proof. exact FfgSqrt.legendre_correct. Qed.
  Theorem C18_sqrt_of_square : forall x, canon x -> (exists r, (r * r) mod pg = mval x) ->
    exists z, sqrt x = SqSome z /\ canon z /\ (mval z * mval z) mod pg = mval x.
  Proof. exact FfgSqrt.sqrt_square_correct. Qed.
  Theorem C18_sqrt_of_zero : forall x, canon x -> mval x = 0 -> sqrt x = SqSome 0.
  Proof. exact FfgSqrt.sqrt_zero_correct. Qed.
  Theorem C18_sqrt_of_nonsquare : forall x, canon x -> (forall r, (r * r) mod pg <> mval x) -> sqrt x = SqNil.
  Proof. exact FfgSqrt.sqrt_nonsquare_correct. Qed.
  Theorem C18_sqrt_terminates : forall x, canon x -> sqrt x <> SqOutOfFuel.
  Proof. exact FfgSqrt.sqrt_total. Qed.
End Goldilocks.

(* ---- the element-level GLUE of the Go source (loops, calls, math/big conversions): tools/limbgen
   re-translates these functions at every run (Gen/FfGlue.v, Gen/FfgGlue.v: a Go loop becomes a
   fixpoint on its iteration count or on explicit fuel); each equals the model used above ---- *)
Theorem C18_glue_is_the_source :
  (forall z, FfGlue.Element_Legendre z = FfConv.legendre z) /\
  (forall x, FfLimbs.canon x -> FfGlue.Element_Sqrt 29 29 28 x = GoGlue.Done (FfGlueEq.sqrt_val (FfConv.sqrt x))) /\
  (forall z, FfgGlue.Element_Legendre z = FfgConv.legendre z) /\
  (forall x, FfgLimbs.canon x -> FfgGlue.Element_Sqrt 33 33 32 x = GoGlue.Done (FfgGlueEq.sqrt_val (FfgConv.sqrt x))).
Proof.
  exact (conj FfGlueEq.gen_Legendre_eq (conj FfGlueEq.gen_Sqrt_canon_eq
        (conj FfgGlueEq.gen_Legendre_eq FfgGlueEq.gen_Sqrt_canon_eq))).
Qed.

Print Assumptions BN254.C18_legendre.
Print Assumptions BN254.C18_sqrt_of_square.
Print Assumptions BN254.C18_sqrt_of_nonsquare.
Print Assumptions Goldilocks.C18_legendre.
Print Assumptions Goldilocks.C18_sqrt_of_square.
Print Assumptions Goldilocks.C18_sqrt_of_nonsquare.
Print Assumptions C18_glue_is_the_source.

Print Assumptions BN254.C18_sqrt_of_zero.
Print Assumptions Goldilocks.C18_sqrt_of_zero.
Print Assumptions BN254.C18_sqrt_terminates.
Print Assumptions Goldilocks.C18_sqrt_terminates.

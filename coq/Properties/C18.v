(* C18 — square root and Legendre symbol are correct for every element of both
   fields.  Theorems only; proofs in Proofs/TonelliShanks.v (value level, both
   primes proved prime), Proofs/SqrtRefine.v (generic refinement), Proofs/FfSqrt.v
   and Proofs/FfgSqrt.v (limb-level models of Element.Legendre / Element.Sqrt,
   literals g, exponents and Montgomery one pinned by regeneration).
   [SqNil] is "returns nil": the model does not write the destination at all. *)
From Coq Require Import ZArith List.
From Verif Require Import Lib.Params.
From Verif Require Model.FfLimbs Model.FfConv Model.FfgLimbs Model.FfgConv Proofs.FfSqrt Proofs.FfgSqrt.
Local Open Scope Z_scope.

Module BN254.
  Import Model.FfLimbs Model.FfConv.
  Theorem C18_legendre : forall x, canon x ->
    (legendre x = 0 <-> mval x = 0) /\
    (legendre x = 1 <-> (mval x <> 0 /\ exists r, (r * r) mod q = mval x)) /\
    (legendre x = -1 <-> (forall r, (r * r) mod q <> mval x)).
  Proof. exact FfSqrt.legendre_correct. Qed.
  Theorem C18_sqrt_of_square : forall x, canon x -> (exists r, (r * r) mod q = mval x) ->
    exists z, sqrt x = SqSome z /\ canon z /\ (mval z * mval z) mod q = mval x.
  Proof. exact FfSqrt.sqrt_square_correct. Qed.
  Theorem C18_sqrt_of_zero : forall x, canon x -> mval x = 0 -> sqrt x = SqSome zero.
  Proof. exact FfSqrt.sqrt_zero_correct. Qed.
  Theorem C18_sqrt_of_nonsquare : forall x, canon x -> (forall r, (r * r) mod q <> mval x) -> sqrt x = SqNil.
  Proof. exact FfSqrt.sqrt_nonsquare_correct. Qed.
  Theorem C18_sqrt_terminates : forall x, canon x -> sqrt x <> SqOutOfFuel.
  Proof. exact FfSqrt.sqrt_total. Qed.
End BN254.

Module Goldilocks.
  Import Model.FfgLimbs Model.FfgConv.
  Theorem C18_legendre : forall x, canon x ->
    (legendre x = 0 <-> mval x = 0) /\
    (legendre x = 1 <-> (mval x <> 0 /\ exists r, (r * r) mod pg = mval x)) /\
    (legendre x = -1 <-> (forall r, (r * r) mod pg <> mval x)).
  Proof. exact FfgSqrt.legendre_correct. Qed.
  Theorem C18_sqrt_of_square : forall x, canon x -> (exists r, (r * r) mod pg = mval x) ->
    exists z, sqrt x = SqSome z /\ canon z /\ (mval z * mval z) mod pg = mval x.
  Proof. exact FfgSqrt.sqrt_square_correct. Qed.
  Theorem C18_sqrt_of_zero : forall x, canon x -> mval x = 0 -> sqrt x = SqSome 0.
  Proof. exact FfgSqrt.sqrt_zero_correct. Qed.
  Theorem C18_sqrt_of_nonsquare : forall x, canon x -> (forall r, (r * r) mod pg <> mval x) -> sqrt x = SqNil.
  Proof. exact FfgSqrt.sqrt_nonsquare_correct. Qed.
  Theorem C18_sqrt_terminates : forall x, canon x -> sqrt x <> SqOutOfFuel.
  Proof. exact FfgSqrt.sqrt_total. Qed.
End Goldilocks.

Print Assumptions BN254.C18_legendre.
Print Assumptions BN254.C18_sqrt_of_square.
Print Assumptions BN254.C18_sqrt_of_nonsquare.
Print Assumptions Goldilocks.C18_legendre.
Print Assumptions Goldilocks.C18_sqrt_of_square.
Print Assumptions Goldilocks.C18_sqrt_of_nonsquare.

(* C13 — curve and subgroup membership predicates are exact.  Theorems only. *)
From Coq Require Import ZArith List.
From Verif Require Import Lib.Params Spec.Edwards Model.BabyJub
  Proofs.BabyJubGroup Proofs.BabyJubModel Proofs.BabyJubSmallOrder.
From Verif Require Gen.BigIntRoutines Proofs.BigIntEqMember.
Local Open Scope Z_scope.

Notation oc := (on_curve q ca cd).
Notation can := (canonical q).
Notation add := (ed_add q ca cd).
Notation smul := (smul q ca cd).

(* InCurve is true exactly when a x^2 + y^2 = 1 + d x^2 y^2 (mod q), for all integers x y *)
Theorem C13_incurve_iff : forall x y, InCurve (x, y) = true <-> oc (x, y).
Proof. exact InCurve_iff. Qed.

(* InSubGroup is true exactly when the point is on the curve and l*P is the identity *)
Theorem C13_insubgroup_iff : forall P, can P ->
  (InSubGroup P = true <-> oc P /\ smul l P = ed_zero).
Proof. exact InSubGroup_iff. Qed.

(* a subgroup point plus a non-trivial point of order dividing 8 is outside *)
Theorem C13_small_component_outside : forall S T, InSubGroup S = true -> oc T -> can T ->
  smul 8 T = ed_zero -> T <> ed_zero -> InSubGroup (add S T) = false.
Proof. exact InSubGroup_plus_small. Qed.

(* every multiple of the base point is inside *)
Theorem C13_multiples_inside : forall k, InSubGroup (smul k B8) = true.
Proof. exact InSubGroup_smul_B8. Qed.

Theorem C13_zero_zero_outside : InSubGroup (0, 0) = false.
Proof. exact InSubGroup_00. Qed.

Theorem C13_small_order_outside : forall P, In P small8 -> P <> ed_zero -> InSubGroup P = false.
Proof. exact small_order_not_in_subgroup. Qed.

(* TRANSLATOR TIE: tools/bigintgen regenerates value-level Gallina from the Go source of these
   functions at every run (Gen/BigIntRoutines.v); it equals the hand-written model the theorems
   above are about, for all arguments.  An edit of the Go function breaks this. *)
Theorem C13_model_is_the_source :
  (forall p, BigIntRoutines.babyjub_Point_InCurve p = InCurve p) /\
  (forall p, BigIntRoutines.babyjub_Point_InSubGroup p = InSubGroup p).
Proof. exact (conj BigIntEqMember.gen_babyjub_Point_InCurve_eq BigIntEqMember.gen_babyjub_Point_InSubGroup_eq). Qed.

Print Assumptions C13_incurve_iff.
Print Assumptions C13_insubgroup_iff.
Print Assumptions C13_small_component_outside.
Print Assumptions C13_multiples_inside.
Print Assumptions C13_small_order_outside.
Print Assumptions C13_model_is_the_source.
Print Assumptions C13_zero_zero_outside.

(* C06 — point compression round-trips; decompression yields only valid
   canonical points.  Theorems only; proofs live in Proofs/CompressProofs.v. *)
From Coq Require Import ZArith List.
From Verif Require Import Lib.Params Lib.Octets Spec.Edwards Model.Outcome Model.BabyJub
  Proofs.CompressProofs.
From Verif Require Proofs.GapC06.
From Verif Require Gen.BigIntRoutines Proofs.BigIntEqCompress.
Local Open Scope Z_scope.

(* the 32-byte encoding is y little-endian with bit 255 set exactly when x > (q-1)/2 *)
Theorem C06_compress_spec : forall x y, canonical q (x, y) ->
  Compress (x, y) = le_bytes 32 (y + (if x >? (q - 1) / 2 then 2 ^ 255 else 0)).
Proof. exact compress_spec. Qed.

(* every canonical curve point (small-order points and x = 0 included) round-trips *)
Theorem C06_decompress_compress : forall P, on_curve q ca cd P -> canonical q P ->
  Decompress (Compress P) = Ok P.
Proof. exact decompress_compress. Qed.

(* whatever is accepted is a canonical curve point whose compression is the input *)
Theorem C06_decompress_sound : forall b P, length b = 32%nat -> Forall is_byte b ->
  Decompress b = Ok P -> on_curve q ca cd P /\ canonical q P /\ Compress P = b.
Proof. exact decompress_sound. Qed.

(* the exact acceptance set; in particular no 32-byte string makes it panic *)
Theorem C06_decompress_ok_iff : forall b P, length b = 32%nat -> Forall is_byte b ->
  (Decompress b = Ok P <-> on_curve q ca cd P /\ canonical q P /\ Compress P = b).
Proof. exact decompress_ok_iff. Qed.

Theorem C06_decompress_total : forall b, Decompress b <> Panic.
Proof. exact decompress_total. Qed.

(* y part >= q is rejected *)
Theorem C06_rejects_big_y : forall b, length b = 32%nat -> Forall is_byte b ->
  q <= le_val b mod 2 ^ 255 -> Decompress b = Err.
Proof. exact decompress_rejects_big_y. Qed.

(* no x satisfies the curve equation for this y: rejected *)
Theorem C06_rejects_no_point : forall b, length b = 32%nat -> Forall is_byte b ->
  (forall x, ~ on_curve q ca cd (x, le_val b mod 2 ^ 255)) -> Decompress b = Err.
Proof. exact decompress_rejects_no_point. Qed.

(* non-vacuity: the base point is a canonical curve point *)
Example C06_nonvacuous : on_curveb q ca cd (B8x, B8y) = true /\ 0 <= B8x < q /\ 0 <= B8y < q.
Proof. vm_compute. repeat split; discriminate. Qed.

(* TRANSLATOR TIE: tools/bigintgen regenerates value-level Gallina from the Go source of these
   functions at every run (Gen/BigIntRoutines.v); it equals the hand-written model the theorems
   above are about, for all arguments.  An edit of the Go function breaks this. *)
Theorem C06_model_is_the_source :
  (forall c, BigIntRoutines.babyjub_PointCoordSign c = PointCoordSign c) /\
  (forall sign y, BigIntRoutines.babyjub_PackSignY sign y = PackSignY sign y) /\
  (forall b, BigIntRoutines.babyjub_UnpackSignY b = UnpackSignY b) /\
  (forall p, BigIntRoutines.babyjub_Point_Compress p = Compress p) /\
  (forall sign y, BigIntRoutines.babyjub_PointFromSignAndY sign y = PointFromSignAndY sign y) /\
  (forall b, BigIntRoutines.babyjub_Point_Decompress b = Decompress b).
Proof.
  exact (conj BigIntEqCompress.gen_babyjub_PointCoordSign_eq (conj BigIntEqCompress.gen_babyjub_PackSignY_eq
        (conj BigIntEqCompress.gen_babyjub_UnpackSignY_eq (conj BigIntEqCompress.gen_babyjub_Point_Compress_eq
        (conj BigIntEqCompress.gen_babyjub_PointFromSignAndY_eq BigIntEqCompress.gen_babyjub_Point_Decompress_eq))))).
Qed.

(* ROOT ORACLE: math/big's ModSqrt may return either square root; the theorems hold for
   EVERY oracle that returns some root when one exists (the model's Tonelli-Shanks is one) *)
Theorem C06_any_root_oracle : forall msqrt, GapC06.root_oracle msqrt ->
  (forall P, on_curve q ca cd P -> canonical q P -> GapC06.Decompress_gen msqrt (Compress P) = Ok P) /\
  (forall b P, length b = 32%nat -> Forall is_byte b -> GapC06.Decompress_gen msqrt b = Ok P ->
     on_curve q ca cd P /\ canonical q P /\ Compress P = b).
Proof. intros ms H. exact (conj (GapC06.decompress_compress_gen ms H) (GapC06.decompress_sound_gen ms H)). Qed.

Theorem C06_model_oracle_is_valid : GapC06.root_oracle modsqrt /\ GapC06.Decompress_gen modsqrt = Decompress.
Proof. exact (conj GapC06.root_oracle_modsqrt GapC06.Decompress_gen_modsqrt). Qed.

(* the "division by 0" branch of PointFromSignAndY is dead *)
Theorem C06_division_branch_dead : forall y, 0 <= y < q -> A - (D * ((y * y) mod Q)) mod Q <> 0.
Proof. exact GapC06.xb_never_zero. Qed.

Print Assumptions C06_compress_spec.
Print Assumptions C06_decompress_compress.
Print Assumptions C06_decompress_sound.
Print Assumptions C06_decompress_ok_iff.
Print Assumptions C06_decompress_total.
Print Assumptions C06_rejects_big_y.
Print Assumptions C06_rejects_no_point.
Print Assumptions C06_model_is_the_source.
Print Assumptions C06_any_root_oracle.
Print Assumptions C06_division_branch_dead.
Print Assumptions C06_model_oracle_is_valid.

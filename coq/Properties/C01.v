(* C01 — Poseidon (BN254) equals the reference Poseidon permutation for every
   input.  Theorems only.  Reference: Spec/PoseidonRef.v = textbook Hades
   (Spec/Hades.v: x^5, 8 full rounds, partial-round schedule of the property
   text) with round constants and Cauchy MDS produced by the Poseidon reference
   Grain-LFSR generator, which is RUN INSIDE COQ (Spec/Grain.v, Spec/GrainT<t>.v,
   no data from the repository).  Model: Model/Poseidon.v (guards + optimized
   loop of poseidon.go) on the tables regenerated from poseidon/constants.go.
   Proof: Proofs/HadesSym.v (symbolic-execution checker, sound for any S-box),
   evaluated on each width in Proofs/PoseidonCheckT<t>.v; Proofs/PoseidonConforms.v. *)
From Coq Require Import ZArith List.
From Verif Require Import Lib.Params Spec.Hades Spec.Grain Spec.PoseidonRef Model.Outcome Model.Poseidon
  Proofs.PoseidonConforms Model.LimbPrograms Proofs.LimbCompose.
From Verif Require Gen.BigIntLoops Proofs.BigIntEqLoopsPoseidon Proofs.BigIntEqLoopsBridge Proofs.PoseidonConforms Gen.CurveConsts.
Import ListNotations.
Local Open Scope Z_scope.

(* the partial-round schedule of the property text *)
Theorem C01_schedule : rp_schedule = [56; 57; 56; 60; 60; 63; 64; 63; 60; 66; 60; 65; 70; 60; 64; 68]%nat.
Proof. exact eq_refl. Qed.

(* for EACH of the 16 widths the reference parameters are the generator's output *)
Theorem C01_reference_is_grain :
  grain_params 2 (nth 0 rp_schedule 0%nat) = Some (GrainT2.RC, GrainT2.MDS) /\
  grain_params 3 (nth 1 rp_schedule 0%nat) = Some (GrainT3.RC, GrainT3.MDS) /\
  grain_params 4 (nth 2 rp_schedule 0%nat) = Some (GrainT4.RC, GrainT4.MDS) /\
  grain_params 5 (nth 3 rp_schedule 0%nat) = Some (GrainT5.RC, GrainT5.MDS) /\
  grain_params 6 (nth 4 rp_schedule 0%nat) = Some (GrainT6.RC, GrainT6.MDS) /\
  grain_params 7 (nth 5 rp_schedule 0%nat) = Some (GrainT7.RC, GrainT7.MDS) /\
  grain_params 8 (nth 6 rp_schedule 0%nat) = Some (GrainT8.RC, GrainT8.MDS) /\
  grain_params 9 (nth 7 rp_schedule 0%nat) = Some (GrainT9.RC, GrainT9.MDS) /\
  grain_params 10 (nth 8 rp_schedule 0%nat) = Some (GrainT10.RC, GrainT10.MDS) /\
  grain_params 11 (nth 9 rp_schedule 0%nat) = Some (GrainT11.RC, GrainT11.MDS) /\
  grain_params 12 (nth 10 rp_schedule 0%nat) = Some (GrainT12.RC, GrainT12.MDS) /\
  grain_params 13 (nth 11 rp_schedule 0%nat) = Some (GrainT13.RC, GrainT13.MDS) /\
  grain_params 14 (nth 12 rp_schedule 0%nat) = Some (GrainT14.RC, GrainT14.MDS) /\
  grain_params 15 (nth 13 rp_schedule 0%nat) = Some (GrainT15.RC, GrainT15.MDS) /\
  grain_params 16 (nth 14 rp_schedule 0%nat) = Some (GrainT16.RC, GrainT16.MDS) /\
  grain_params 17 (nth 15 rp_schedule 0%nat) = Some (GrainT17.RC, GrainT17.MDS).
Proof. exact grain_schedule_ok. Qed.

(* the regenerated round counts are the circomlib schedule *)
Theorem C01_meta : PoseidonMeta.NROUNDSF = 8%nat /\ PoseidonMeta.NROUNDSP = rp_schedule.
Proof. exact (conj (proj1 meta_ok) (proj1 (proj2 meta_ok))). Qed.

(* all arities 1..16, all in-field inputs and capacities, all output counts 1..n+1:
   the first nOuts lanes of the reference permutation of [cap; inputs...], all canonical *)
Theorem C01_poseidon_conforms : forall inputs cap nOuts,
  (1 <= length inputs <= 16)%nat -> Forall (fun v => 0 <= v < q) inputs ->
  0 <= cap < q -> 1 <= nOuts <= Z.of_nat (length inputs) + 1 ->
  HashWithStateEx q 8 gen_tables inputs cap nOuts
  = Ok (firstn (Z.to_nat nOuts) (poseidon_perm (S (length inputs)) (cap :: inputs)))
  /\ Forall (fun v => 0 <= v < q) (poseidon_perm (S (length inputs)) (cap :: inputs)).
Proof. exact poseidon_conforms. Qed.

Theorem C01_hash_conforms : forall inputs,
  (1 <= length inputs <= 16)%nat -> Forall (fun v => 0 <= v < q) inputs ->
  Hash q 8 gen_tables inputs = Ok (poseidon_hash_ref inputs 0) /\ 0 <= poseidon_hash_ref inputs 0 < q.
Proof. exact poseidon_hash_conforms. Qed.

Theorem C01_hash_with_state_conforms : forall inputs cap,
  (1 <= length inputs <= 16)%nat -> Forall (fun v => 0 <= v < q) inputs -> 0 <= cap < q ->
  HashWithState q 8 gen_tables inputs cap = Ok (poseidon_hash_ref inputs cap)
  /\ 0 <= poseidon_hash_ref inputs cap < q.
Proof. exact poseidon_hash_with_state_conforms. Qed.

Theorem C01_hash_ex_conforms : forall inputs nOuts,
  (1 <= length inputs <= 16)%nat -> Forall (fun v => 0 <= v < q) inputs ->
  1 <= nOuts <= Z.of_nat (length inputs) + 1 ->
  HashEx q 8 gen_tables inputs nOuts
  = Ok (firstn (Z.to_nat nOuts) (poseidon_perm (S (length inputs)) (0 :: inputs)))
  /\ Forall (fun v => 0 <= v < q) (poseidon_perm (S (length inputs)) (0 :: inputs)).
Proof. exact poseidon_hash_ex_conforms. Qed.

(* the same loop run on ff.Element LIMBS (4 x 64-bit Montgomery words, the portable
   routines of C05: SetBigInt on inputs and tables, Add, Exp(.,5), Mul, ToBigIntRegular)
   returns exactly what the value-level model returns, for all inputs and all outcomes *)
Theorem C01_limb_level : forall inputs cap nOuts,
  HashWithStateEx_limbs 8 (map ltable_of gen_tables) inputs cap nOuts
  = HashWithStateEx q 8 gen_tables inputs cap nOuts.
Proof. exact (HashWithStateEx_limbs_correct 8 gen_tables). Qed.

(* ---- the LOOPS of the Go source: tools/bigintgen re-translates the whole functions, loops
   included, at every run (Gen/BigIntLoops.v: a Go `for` becomes a fold over its index range
   with the loop-carried variables as accumulator); the translated function equals the model
   the theorems above are about ---- *)
Theorem C01_loops_are_the_source : forall inpBI initState nOuts,
  BigIntLoops.poseidon_HashWithStateEx
    (map BigIntEqLoopsPoseidon.tC PoseidonConforms.gen_tables)
    (map BigIntEqLoopsPoseidon.tS PoseidonConforms.gen_tables)
    (map BigIntEqLoopsPoseidon.tM PoseidonConforms.gen_tables)
    (map BigIntEqLoopsPoseidon.tP PoseidonConforms.gen_tables) inpBI initState nOuts =
  Poseidon.HashWithStateEx Gen.CurveConsts.Q 8 PoseidonConforms.gen_tables inpBI initState nOuts.
Proof. exact BigIntEqLoopsBridge.gen_poseidon_HashWithStateEx_gen_tables_eq. Qed.

Print Assumptions C01_reference_is_grain.
Print Assumptions C01_limb_level.
Print Assumptions C01_poseidon_conforms.
Print Assumptions C01_hash_conforms.
Print Assumptions C01_loops_are_the_source.
Print Assumptions C01_schedule.
Print Assumptions C01_meta.
Print Assumptions C01_hash_with_state_conforms.
Print Assumptions C01_hash_ex_conforms.

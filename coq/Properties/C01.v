(* C01 — Poseidon (BN254) equals the reference Poseidon permutation for every
   input.  Theorems only.  Reference: Spec/PoseidonRef.v = textbook Hades
   (Spec/Hades.v: x^5, 8 full rounds, partial-round schedule of the property
   text) with round constants and Cauchy MDS produced by the Poseidon reference
   Grain-LFSR generator, which is RUN INSIDE COQ (Spec/Grain.v, Spec/GrainT<t>.v,
   no data from the repository).  Model: Model/Poseidon.v (guards + optimized
   loop of poseidon.go) on the tables regenerated from poseidon/constants.go.
   Proof: Proofs/HadesSym.v (symbolic-execution checker, sound for any S-box),
   evaluated on each width in Proofs/PoseidonCheckT<t>.v; Proofs/PoseidonConforms.v. *)
From Coq Require Import ZArith List.
From Verif Require Import Lib.Params Spec.Hades Spec.Grain Spec.PoseidonRef Model.Outcome Model.Poseidon
  Proofs.PoseidonConforms Model.LimbPrograms Proofs.LimbCompose.
Import ListNotations.
Local Open Scope Z_scope.

(* the reference parameters really are the generator's output, for the schedule of the statement *)
Theorem C01_reference_is_grain :
  rp_schedule = [56; 57; 56; 60; 60; 63; 64; 63; 60; 66; 60; 65; 70; 60; 64; 68]%nat /\
  grain_params 2 56 = Some (GrainT2.RC, GrainT2.MDS) /\
  grain_params 17 68 = Some (GrainT17.RC, GrainT17.MDS).
Proof. exact (conj eq_refl (conj GrainT2.params_ok GrainT17.params_ok)). Qed.

(* the regenerated round counts are the circomlib schedule *)
Theorem C01_meta : PoseidonMeta.NROUNDSF = 8%nat /\ PoseidonMeta.NROUNDSP = rp_schedule.
Proof. exact (conj (proj1 meta_ok) (proj1 (proj2 meta_ok))). Qed.

(* all arities 1..16, all in-field inputs and capacities, all output counts 1..n+1:
   the first nOuts lanes of the reference permutation of [cap; inputs...], all canonical *)
Theorem C01_poseidon_conforms : forall inputs cap nOuts,
  (1 <= length inputs <= 16)%nat -> Forall (fun v => 0 <= v < q) inputs ->
  0 <= cap < q -> 1 <= nOuts <= Z.of_nat (length inputs) + 1 ->
  HashWithStateEx q 8 gen_tables inputs cap nOuts
  = Ok (firstn (Z.to_nat nOuts) (poseidon_perm (S (length inputs)) (cap :: inputs)))
  /\ Forall (fun v => 0 <= v < q) (poseidon_perm (S (length inputs)) (cap :: inputs)).
Proof. exact poseidon_conforms. Qed.

Theorem C01_hash_conforms : forall inputs,
  (1 <= length inputs <= 16)%nat -> Forall (fun v => 0 <= v < q) inputs ->
  Hash q 8 gen_tables inputs = Ok (poseidon_hash_ref inputs 0) /\ 0 <= poseidon_hash_ref inputs 0 < q.
Proof. exact poseidon_hash_conforms. Qed.

Theorem C01_hash_with_state_conforms : forall inputs cap,
  (1 <= length inputs <= 16)%nat -> Forall (fun v => 0 <= v < q) inputs -> 0 <= cap < q ->
  HashWithState q 8 gen_tables inputs cap = Ok (poseidon_hash_ref inputs cap)
  /\ 0 <= poseidon_hash_ref inputs cap < q.
Proof. exact poseidon_hash_with_state_conforms. Qed.

Theorem C01_hash_ex_conforms : forall inputs nOuts,
  (1 <= length inputs <= 16)%nat -> Forall (fun v => 0 <= v < q) inputs ->
  1 <= nOuts <= Z.of_nat (length inputs) + 1 ->
  HashEx q 8 gen_tables inputs nOuts
  = Ok (firstn (Z.to_nat nOuts) (poseidon_perm (S (length inputs)) (0 :: inputs)))
  /\ Forall (fun v => 0 <= v < q) (poseidon_perm (S (length inputs)) (0 :: inputs)).
Proof. exact poseidon_hash_ex_conforms. Qed.

(* the same loop run on ff.Element LIMBS (4 x 64-bit Montgomery words, the portable
   routines of C05: SetBigInt on inputs and tables, Add, Exp(.,5), Mul, ToBigIntRegular)
   returns exactly what the value-level model returns, for all inputs and all outcomes *)
Theorem C01_limb_level : forall inputs cap nOuts,
  HashWithStateEx_limbs 8 (map ltable_of gen_tables) inputs cap nOuts
  = HashWithStateEx q 8 gen_tables inputs cap nOuts.
Proof. exact (HashWithStateEx_limbs_correct 8 gen_tables). Qed.

Print Assumptions C01_reference_is_grain.
Print Assumptions C01_limb_level.
Print Assumptions C01_poseidon_conforms.
Print Assumptions C01_hash_conforms.

(* C11 — field-element conversions reduce totally and round-trip losslessly
   (both fields).  Theorems only; proofs in Proofs/FfCodec.v (BN254),
   Proofs/FfgCodec.v + Proofs/FfgConv.v (Goldilocks), Proofs/DecimalProofs.v. *)
From Coq Require Import ZArith List.
From Verif Require Import Lib.Params Lib.Octets Lib.Decimal Model.Outcome.
From Verif Require Model.FfLimbs Model.FfConv Model.FfgLimbs Model.FfgConv.
From Verif Require Proofs.FfCodec Proofs.FfgCodec Proofs.FfgMont Proofs.DecimalProofs.
From Verif Require Lib.Words Lib.GoGlue Gen.FfGlue Gen.FfgGlue Proofs.FfGlueEq Proofs.FfgGlueEq Model.FfLimbs Model.FfgLimbs Model.FfConv Model.FfgConv.
Local Open Scope Z_scope.

Module BN254.
  Import Model.FfLimbs Model.FfConv.
  (* any integer: negative, >= q, arbitrarily large *)
  Theorem C11_setBigInt : forall v : Z, canon (setBigInt v) /\ mval (setBigInt v) = v mod q.
  Proof. exact FfCodec.setBigInt_correct. Qed.
  Theorem C11_setBytes : forall e, Forall is_byte e -> canon (setBytes e) /\ mval (setBytes e) = be_val e mod q.
  Proof. exact FfCodec.setBytes_correct. Qed.
  Theorem C11_setString : forall s v, parse_dec s = Some v ->
    exists z, setString s = Ok z /\ canon z /\ mval z = v mod q.
  Proof. exact FfCodec.setString_correct. Qed.
  Theorem C11_toBigInt : forall z, canon z -> toBigIntRegular z = mval z /\ 0 <= toBigIntRegular z < q.
  Proof. exact FfCodec.toBigIntRegular_correct. Qed.
  Theorem C11_bytes : forall z, canon z -> bytesOf z = be_bytes 32 (mval z).
  Proof. exact FfCodec.bytesOf_correct. Qed.
  (* String(): plain below 2^64, "-k" for q-k with k < 2^64, full decimal otherwise *)
  Theorem C11_string : forall z, canon z ->
    (mval z < 2 ^ 64 -> stringOf z = dec_of_nonneg (mval z)) /\
    (2 ^ 64 <= mval z -> q - mval z < 2 ^ 64 -> stringOf z = 45 :: dec_of_nonneg (q - mval z)) /\
    (2 ^ 64 <= mval z -> 2 ^ 64 <= q - mval z -> stringOf z = dec_of_nonneg (mval z)).
  Proof. exact FfCodec.stringOf_correct. Qed.
  Theorem C11_roundtrips : forall z, canon z ->
    setString (stringOf z) = Ok z /\ setBytes (bytesOf z) = z /\ setBigInt (toBigIntRegular z) = z.
  Proof. intros z H. exact (conj (FfCodec.setString_stringOf z H) (conj (FfCodec.setBytes_bytesOf z H) (FfCodec.setBigInt_toBigIntRegular z H))). Qed.
  Theorem C11_equal : forall a b, canon a -> canon b -> (equal a b = true <-> mval a = mval b).
  Proof. exact FfCodec.equal_correct. Qed.
  Theorem C11_cmp : forall a b, canon a -> canon b ->
    cmp a b = match mval a ?= mval b with Eq => 0 | Lt => -1 | Gt => 1 end.
  Proof. exact FfCodec.cmp_correct. Qed.
  Theorem C11_lexLargest : forall z, canon z -> (lexLargest z = true <-> mval z > (q - 1) / 2).
  Proof. exact FfCodec.lexLargest_correct. Qed.
  Theorem C11_array_roundtrip : forall bi,
    ElementArrayToBigIntArray (BigIntArrayToElementArray bi) = map (fun v => v mod q) bi.
  Proof. exact FfCodec.ElementArray_BigIntArray_roundtrip. Qed.
End BN254.

Module Goldilocks.
  Import Model.FfgLimbs Model.FfgConv.
  Theorem C11_setBigInt : forall v : Z, canon (setBigInt v) /\ mval (setBigInt v) = v mod pg.
  Proof. exact FfgMont.setBigInt_ok. Qed.
  Theorem C11_setBytes : forall e, Forall is_byte e -> canon (setBytes e) /\ mval (setBytes e) = be_val e mod pg.
  Proof. exact FfgCodec.setBytes_correct. Qed.
  Theorem C11_setString : forall s v, parse_dec s = Some v ->
    exists z, setString s = Ok z /\ canon z /\ mval z = v mod pg.
  Proof. exact FfgCodec.setString_correct. Qed.
  Theorem C11_toBigInt : forall z, canon z -> toBigIntRegular z = mval z /\ 0 <= toBigIntRegular z < pg.
  Proof. exact FfgCodec.toBigIntRegular_correct. Qed.
  Theorem C11_bytes : forall z, canon z -> bytesOf z = be_bytes 8 (mval z).
  Proof. exact FfgCodec.bytesOf_correct. Qed.
  Theorem C11_string : forall z, canon z -> stringOf z = dec_of_nonneg (mval z).
  Proof. exact FfgCodec.stringOf_correct. Qed.
  Theorem C11_roundtrips : forall z, canon z ->
    setString (stringOf z) = Ok z /\ setBytes (bytesOf z) = z /\ setBigInt (toBigIntRegular z) = z.
  Proof. intros z H. exact (conj (FfgCodec.setString_stringOf z H) (conj (FfgCodec.setBytes_bytesOf z H) (FfgCodec.setBigInt_toBigIntRegular z H))). Qed.
  Theorem C11_equal : forall a b, canon a -> canon b -> (equal a b = true <-> mval a = mval b).
  Proof. exact FfgCodec.equal_correct. Qed.
  Theorem C11_cmp : forall a b, canon a -> canon b ->
    cmp a b = match mval a ?= mval b with Eq => 0 | Lt => -1 | Gt => 1 end.
  Proof. exact FfgCodec.cmp_correct. Qed.
  Theorem C11_lexLargest : forall z, canon z -> (lexLargest z = true <-> mval z > (pg - 1) / 2).
  Proof. exact FfgCodec.lexLargest_correct. Qed.
End Goldilocks.

(* decimal text: printing then parsing is the identity; unparsable text is the
   Go panic of SetString (outside the property's "decimal strings of integers") *)
Theorem C11_decimal_roundtrip : forall v, parse_dec (dec_of_Z v) = Some v.
Proof. exact DecimalProofs.parse_dec_dec_of_Z. Qed.

(* ---- the element-level GLUE of the Go source (loops, calls, math/big conversions): tools/limbgen
   re-translates these functions at every run (Gen/FfGlue.v, Gen/FfgGlue.v: a Go loop becomes a
   fixpoint on its iteration count or on explicit fuel); each equals the model used above ---- *)
Theorem C11_glue_is_the_source_ff :
  (forall v, FfGlue.Element_SetBigInt v = FfConv.setBigInt v) /\
  (forall e, FfGlue.Element_SetBytes e = FfConv.setBytes e) /\
  (forall z, FfLimbs.canon z -> FfGlue.Element_ToBigIntRegular z = FfConv.toBigIntRegular z) /\
  (forall z, FfGlue.Element_Bytes z = FfConv.bytesOf z) /\
  (forall z, FfGlue.Element_Marshal z = FfConv.bytesOf z) /\
  (forall z x, FfGlue.Element_Cmp z x = FfConv.cmp z x) /\
  (forall z, FfGlue.Element_LexicographicallyLargest z = FfConv.lexLargest z) /\
  (forall v, FfGlue.NewElementFromUint64 v = FfLimbs.setUint64 v) /\
  (forall z, FfGlue.Element_BitLen z = FfConv.bitLen z).
Proof.
  exact (conj FfGlueEq.gen_SetBigInt_eq (conj FfGlueEq.gen_SetBytes_eq (conj FfGlueEq.gen_ToBigIntRegular_eq
        (conj FfGlueEq.gen_Bytes_eq (conj FfGlueEq.gen_Marshal_eq (conj FfGlueEq.gen_Cmp_eq
        (conj FfGlueEq.gen_LexicographicallyLargest_eq (conj FfGlueEq.gen_NewElementFromUint64_eq FfGlueEq.gen_BitLen_eq)))))))).
Qed.

Theorem C11_glue_is_the_source_ffg :
  (forall v, FfgGlue.Element_SetBigInt v = FfgLimbs.setBigInt v) /\
  (forall e, FfgGlue.Element_SetBytes e = FfgConv.setBytes e) /\
  (forall z, Words.u64 z -> FfgGlue.Element_ToBigIntRegular z = FfgLimbs.toBigIntRegular z) /\
  (forall z, FfgGlue.Element_ToUint64Regular z = FfgLimbs.toUint64Regular z) /\
  (forall z, FfgGlue.Element_Bytes z = FfgConv.bytesOf z) /\
  (forall z, FfgGlue.Element_Marshal z = FfgConv.bytesOf z) /\
  (forall z x, FfgGlue.Element_Cmp z x = FfgConv.cmp z x) /\
  (forall z, FfgGlue.Element_LexicographicallyLargest z = FfgConv.lexLargest z).
Proof.
  exact (conj FfgGlueEq.gen_SetBigInt_eq (conj FfgGlueEq.gen_SetBytes_eq (conj FfgGlueEq.gen_ToBigIntRegular_eq
        (conj FfgGlueEq.gen_ToUint64Regular_eq (conj FfgGlueEq.gen_Bytes_eq (conj FfgGlueEq.gen_Marshal_eq
        (conj FfgGlueEq.gen_Cmp_eq FfgGlueEq.gen_LexicographicallyLargest_eq))))))).
Qed.

Print Assumptions BN254.C11_setBigInt.
Print Assumptions BN254.C11_string.
Print Assumptions BN254.C11_roundtrips.
Print Assumptions BN254.C11_lexLargest.
Print Assumptions Goldilocks.C11_setBigInt.
Print Assumptions Goldilocks.C11_roundtrips.
Print Assumptions Goldilocks.C11_lexLargest.
Print Assumptions C11_decimal_roundtrip.
Print Assumptions C11_glue_is_the_source_ff.
Print Assumptions C11_glue_is_the_source_ffg.

Print Assumptions BN254.C11_setBytes.
Print Assumptions Goldilocks.C11_setBytes.
Print Assumptions BN254.C11_setString.
Print Assumptions Goldilocks.C11_setString.
Print Assumptions BN254.C11_toBigInt.
Print Assumptions Goldilocks.C11_toBigInt.
Print Assumptions BN254.C11_bytes.
Print Assumptions Goldilocks.C11_bytes.
Print Assumptions Goldilocks.C11_string.
Print Assumptions BN254.C11_equal.
Print Assumptions Goldilocks.C11_equal.
Print Assumptions BN254.C11_cmp.
Print Assumptions Goldilocks.C11_cmp.
Print Assumptions BN254.C11_array_roundtrip.

(* C05, part 3: the straight-line routines (add, sub, neg, double, reduce,
   halve, mulByConstant, butterfly), Exp, Equal and IsZero of
   /repo/ff/element.go on canonical operands. *)
From Coq Require Import ZArith List Lia Zdiv Morphisms Setoid Bool.
From Verif Require Import Lib.Params Lib.Words Lib.NumberTheory Model.FfLimbs
  Proofs.FfWords Proofs.FfEl Proofs.FfArith.
Import ListNotations.
Local Open Scope Z_scope.

Local Ltac Zify.zify_post_hook ::= Z.div_mod_to_equations.
Local Opaque q.
Local Opaque mulGeneric.

(* ------------------------------------------------------------------ *)
(** * The routines in terms of the shared 4-limb building blocks *)

Lemma addGeneric_shape : forall x y, addGeneric x y = cond_sub_q (fst (add4 x y)).
Proof. intros [[[x0 x1] x2] x3] [[[y0 y1] y2] y3]. reflexivity. Qed.

Lemma doubleGeneric_shape : forall x, doubleGeneric x = cond_sub_q (fst (add4 x x)).
Proof. intros [[[x0 x1] x2] x3]. reflexivity. Qed.

Lemma subGeneric_shape : forall x y,
  subGeneric x y =
  if negb (snd (sub4 x y) =? 0) then fst (add4 (fst (sub4 x y)) qEl) else fst (sub4 x y).
Proof. intros [[[x0 x1] x2] x3] [[[y0 y1] y2] y3]. reflexivity. Qed.

Lemma negGeneric_shape : forall x,
  negGeneric x = if isZero x then zero else fst (sub4 qEl x).
Proof. intros [[[x0 x1] x2] x3]. reflexivity. Qed.

Lemma reduceGeneric_shape : forall z, reduceGeneric z = cond_sub_q z.
Proof. intros [[[z0 z1] z2] z3]. reflexivity. Qed.

Lemma halve_shape : forall z, halve z = half_mod_q z.
Proof. intros [[[z0 z1] z2] z3]. reflexivity. Qed.

Local Opaque addGeneric doubleGeneric subGeneric negGeneric reduceGeneric halve.

(* ------------------------------------------------------------------ *)
(** * mval of linear combinations *)

Lemma mval_add_eq : forall z x y, val z ==q val x + val y ->
  mval z = (mval x + mval y) mod q.
Proof.
  intros z x y H. apply eqq_mod_eq; [ apply mval_range | ].
  rewrite !mval_eqq, H.
  replace ((val x + val y) * Rinv) with (val x * Rinv + val y * Rinv) by ring.
  reflexivity.
Qed.

Lemma mval_sub_eq : forall z x y, val z ==q val x - val y ->
  mval z = (mval x - mval y) mod q.
Proof.
  intros z x y H. apply eqq_mod_eq; [ apply mval_range | ].
  rewrite !mval_eqq, H.
  replace ((val x - val y) * Rinv) with (val x * Rinv - val y * Rinv) by ring.
  reflexivity.
Qed.

Lemma mval_opp_eq : forall z x, val z ==q - val x ->
  mval z = (- mval x) mod q.
Proof.
  intros z x H. apply eqq_mod_eq; [ apply mval_range | ].
  rewrite !mval_eqq, H.
  replace (- val x * Rinv) with (- (val x * Rinv)) by ring.
  reflexivity.
Qed.

Lemma mval_small : forall z, mval z mod q = mval z.
Proof. intros z. apply Z.mod_small. apply mval_range. Qed.

(* ------------------------------------------------------------------ *)
(** * add, double, sub, neg, reduce, halve *)

Theorem add_correct : forall x y, canon x -> canon y ->
  canon (addGeneric x y) /\ mval (addGeneric x y) = (mval x + mval y) mod q.
Proof.
  intros x y Hx Hy. rewrite addGeneric_shape.
  pose proof (canon_val _ Hx) as Vx. pose proof (canon_val _ Hy) as Vy.
  pose proof q_two_lt_R as HqR.
  destruct (add4_exact x y (canon_limbs _ Hx) (canon_limbs _ Hy) ltac:(lia)) as (Hl & Hv & _).
  destruct (cond_sub_q_spec (fst (add4 x y)) Hl ltac:(lia)) as (Hc & _ & He).
  split; [ exact Hc | ]. apply mval_add_eq. rewrite He, Hv. reflexivity.
Qed.
Print Assumptions add_correct.

Theorem double_correct : forall x, canon x ->
  canon (doubleGeneric x) /\ mval (doubleGeneric x) = (2 * mval x) mod q.
Proof.
  intros x Hx. rewrite doubleGeneric_shape.
  pose proof (canon_val _ Hx) as Vx. pose proof q_two_lt_R as HqR.
  destruct (add4_exact x x (canon_limbs _ Hx) (canon_limbs _ Hx) ltac:(lia)) as (Hl & Hv & _).
  destruct (cond_sub_q_spec (fst (add4 x x)) Hl ltac:(lia)) as (Hc & _ & He).
  split; [ exact Hc | ].
  replace (2 * mval x) with (mval x + mval x) by ring.
  apply mval_add_eq. rewrite He, Hv. reflexivity.
Qed.
Print Assumptions double_correct.

Theorem sub_correct : forall x y, canon x -> canon y ->
  canon (subGeneric x y) /\ mval (subGeneric x y) = (mval x - mval y) mod q.
Proof.
  intros x y Hx Hy. rewrite subGeneric_shape.
  pose proof (canon_val _ Hx) as Vx. pose proof (canon_val _ Hy) as Vy.
  pose proof (canon_limbs _ Hx) as Lx. pose proof (canon_limbs _ Hy) as Ly.
  destruct (Z_lt_le_dec (val x) (val y)) as [Hlt | Hge].
  - destruct (sub4_borrow x y Lx Ly Hlt) as (Hl & Hv & Hb). rewrite Hb.
    change (negb (1 =? 0)) with true. cbv iota.
    destruct (add4_wrap (fst (sub4 x y)) qEl Hl limbs_qEl) as (Hl' & Hv').
    { rewrite val_qEl'. lia. }
    rewrite val_qEl', Hv in Hv'.
    split; [ apply canon_intro; [ exact Hl' | lia ] | ].
    apply mval_sub_eq. apply (eqq_intro _ _ 1). lia.
  - destruct (sub4_exact x y Lx Ly Hge) as (Hl & Hv & Hb). rewrite Hb.
    change (negb (0 =? 0)) with false. cbv iota.
    split; [ apply canon_intro; [ exact Hl | lia ] | ].
    apply mval_sub_eq. rewrite Hv. reflexivity.
Qed.
Print Assumptions sub_correct.

Theorem neg_correct : forall x, canon x ->
  canon (negGeneric x) /\ mval (negGeneric x) = (- mval x) mod q.
Proof.
  intros x Hx. rewrite negGeneric_shape.
  pose proof (canon_val _ Hx) as Vx. pose proof (canon_limbs _ Hx) as Lx.
  rewrite (isZero_spec x Lx).
  destruct (Z.eqb_spec (val x) 0) as [E | E].
  - split; [ exact canon_zero | ].
    apply mval_opp_eq. rewrite E. reflexivity.
  - destruct (sub4_exact qEl x limbs_qEl Lx) as (Hl & Hv & _).
    { rewrite val_qEl'. lia. }
    rewrite val_qEl' in Hv.
    split; [ apply canon_intro; [ exact Hl | lia ] | ].
    apply mval_opp_eq. apply (eqq_intro _ _ 1). lia.
Qed.
Print Assumptions neg_correct.

(* most general form: any four words below 2q *)
Theorem reduce_correct_gen : forall z, limbs_ok z -> val z < 2 * q ->
  canon (reduceGeneric z) /\ val (reduceGeneric z) = val z mod q.
Proof.
  intros z Hl Hv. rewrite reduceGeneric_shape.
  destruct (cond_sub_q_spec z Hl Hv) as (Hc & He & _). split; assumption.
Qed.

Theorem reduce_correct : forall z, canon z ->
  canon (reduceGeneric z) /\ mval (reduceGeneric z) = mval z mod q.
Proof.
  intros z Hz. rewrite reduceGeneric_shape. rewrite (cond_sub_q_canon z Hz).
  split; [ exact Hz | ]. symmetry. apply mval_small.
Qed.
Print Assumptions reduce_correct.

Theorem halve_correct : forall z, canon z ->
  canon (halve z) /\ (mval (halve z) * 2) mod q = mval z.
Proof.
  intros z Hz. rewrite halve_shape.
  destruct (half_mod_q_spec z Hz) as (Hc & He).
  split; [ exact Hc | ].
  symmetry. apply eqq_mod_eq; [ apply mval_range | ].
  rewrite !mval_eqq, <- He.
  replace (2 * val (half_mod_q z) * Rinv) with (val (half_mod_q z) * Rinv * 2) by ring.
  reflexivity.
Qed.
Print Assumptions halve_correct.

(* ------------------------------------------------------------------ *)
(** * mulByConstant (cases 3, 5 and default), butterfly *)

Theorem mulBy3_correct : forall z, canon z ->
  canon (mulBy3 z) /\ mval (mulBy3 z) = (3 * mval z) mod q.
Proof.
  intros z Hz. unfold mulBy3. cbv zeta.
  destruct (double_correct z Hz) as (C1 & M1).
  destruct (add_correct (doubleGeneric z) z C1 Hz) as (C2 & M2).
  split; [ exact C2 | ].
  rewrite M2, M1.
  change (eqq ((2 * mval z) mod q + mval z) (3 * mval z)).
  rewrite eqq_mod. replace (2 * mval z + mval z) with (3 * mval z) by ring. reflexivity.
Qed.
Print Assumptions mulBy3_correct.

Theorem mulBy5_correct : forall z, canon z ->
  canon (mulBy5 z) /\ mval (mulBy5 z) = (5 * mval z) mod q.
Proof.
  intros z Hz. unfold mulBy5. cbv zeta.
  destruct (double_correct z Hz) as (C1 & M1).
  destruct (double_correct (doubleGeneric z) C1) as (C2 & M2).
  destruct (add_correct (doubleGeneric (doubleGeneric z)) z C2 Hz) as (C3 & M3).
  split; [ exact C3 | ].
  rewrite M3, M2, M1.
  change (eqq ((2 * ((2 * mval z) mod q)) mod q + mval z) (5 * mval z)).
  rewrite !eqq_mod. replace (2 * (2 * mval z) + mval z) with (5 * mval z) by ring.
  reflexivity.
Qed.
Print Assumptions mulBy5_correct.

Theorem mulBy13_correct : forall z, canon z ->
  canon (mulBy13 z) /\ mval (mulBy13 z) = (13 * mval z) mod q.
Proof.
  intros z Hz. unfold mulBy13. cbv zeta.
  destruct (setUint64_correct 13 ltac:(unfold u64, W; lia)) as (C1 & M1).
  destruct (mul_correct z (setUint64 13) Hz C1) as (C2 & M2).
  split; [ exact C2 | ].
  rewrite M2, M1.
  change (eqq (mval z * (13 mod q)) (13 * mval z)).
  rewrite eqq_mod. rewrite Z.mul_comm. reflexivity.
Qed.
Print Assumptions mulBy13_correct.

Theorem butterfly_correct : forall a b, canon a -> canon b ->
  canon (fst (butterflyGeneric a b)) /\ canon (snd (butterflyGeneric a b)) /\
  mval (fst (butterflyGeneric a b)) = (mval a + mval b) mod q /\
  mval (snd (butterflyGeneric a b)) = (mval a - mval b) mod q.
Proof.
  intros a b Ha Hb. unfold butterflyGeneric. cbv zeta. cbn [fst snd].
  destruct (add_correct a b Ha Hb) as (C1 & M1).
  destruct (sub_correct a b Ha Hb) as (C2 & M2).
  tauto.
Qed.
Print Assumptions butterfly_correct.

(* ------------------------------------------------------------------ *)
(** * Equal, IsZero *)

Theorem equal_correct : forall z x, canon z -> canon x ->
  (equal z x = true <-> mval z = mval x).
Proof.
  intros z x Hz Hx.
  rewrite (equal_spec z x (canon_limbs _ Hz) (canon_limbs _ Hx)). rewrite Z.eqb_eq.
  split.
  - intros H. unfold mval. rewrite H. reflexivity.
  - intros H. rewrite (mval_inj z x Hz Hx H). reflexivity.
Qed.
Print Assumptions equal_correct.

Theorem isZero_correct : forall z, canon z -> (isZero z = true <-> mval z = 0).
Proof.
  intros z Hz. rewrite (isZero_spec z (canon_limbs _ Hz)). rewrite Z.eqb_eq.
  symmetry. apply mval_zero_iff. exact Hz.
Qed.
Print Assumptions isZero_correct.

(* ------------------------------------------------------------------ *)
(** * Exp *)

Lemma eqq_mval_mul : forall x y, canon x -> canon y ->
  mval (mulGeneric x y) ==q mval x * mval y.
Proof.
  intros x y Hx Hy. destruct (mul_correct x y Hx Hy) as [_ H]. rewrite H. apply eqq_mod.
Qed.

Lemma exp_loop_spec : forall x e, canon x -> 0 <= e ->
  forall n z, canon z ->
  mval z ==q mval x ^ (e / 2 ^ Z.of_nat n) ->
  canon (exp_loop n x z e) /\ mval (exp_loop n x z e) ==q mval x ^ e.
Proof.
  intros x e Hx He. induction n as [ | n IH]; intros z Hz Hm.
  - cbn [exp_loop]. split; [ exact Hz | ].
    rewrite Hm. change (2 ^ Z.of_nat 0) with 1. rewrite Z.div_1_r. reflexivity.
  - cbn [exp_loop].
    destruct (square_correct z Hz) as (C1 & _).
    assert (M1 : mval (square z) ==q mval x ^ (2 * (e / 2 ^ Z.of_nat (S n)))).
    { unfold square. rewrite (eqq_mval_mul z z Hz Hz). rewrite Hm.
      rewrite pow_double; [ reflexivity | ].
      apply Z.div_pos; [ exact He | apply Z.pow_pos_nonneg; lia ]. }
    assert (Hd : e / 2 ^ Z.of_nat (S n) = e / 2 ^ Z.of_nat n / 2).
    { rewrite Nat2Z.inj_succ, Z.pow_succ_r by lia.
      assert (0 < 2 ^ Z.of_nat n) by (apply Z.pow_pos_nonneg; lia).
      rewrite (Z.mul_comm 2). rewrite Z.div_div by lia. reflexivity. }
    rewrite Hd in M1.
    remember (e / 2 ^ Z.of_nat n) as d eqn:Ed.
    assert (Hd0 : 0 <= d).
    { subst d. apply Z.div_pos; [ exact He | apply Z.pow_pos_nonneg; lia ]. }
    destruct (Z.testbit e (Z.of_nat n)) eqn:Eb.
    + apply Z.testbit_true in Eb; [ | lia ]. rewrite <- ?Ed in Eb.
      destruct (mul_correct (square z) x C1 Hx) as (C2 & _).
      apply IH; [ exact C2 | ].
      rewrite (eqq_mval_mul (square z) x C1 Hx), M1.
      replace d with (2 * (d / 2) + 1) at 2 by (clear - Eb; lia).
      rewrite pow_succ by (clear - Hd0; lia). rewrite Z.mul_comm. reflexivity.
    + apply Z.testbit_false in Eb; [ | lia ]. rewrite <- ?Ed in Eb.
      apply IH; [ exact C1 | ].
      rewrite M1.
      replace (2 * (d / 2)) with d by (clear - Eb; lia). reflexivity.
Qed.

Theorem exp_correct : forall x e, canon x -> 0 <= e ->
  canon (exp x e) /\ mval (exp x e) = (mval x ^ e) mod q.
Proof.
  intros x e Hx He. unfold exp.
  destruct (Z.eqb_spec e 0) as [E | E].
  - subst e. split; [ exact canon_one | ].
    rewrite mval_one. rewrite Z.pow_0_r. symmetry. apply Z.mod_small.
    pose proof q_gt_2'. lia.
  - cbv zeta. rewrite Z.abs_eq by exact He.
    assert (Hpos : 0 < e) by lia.
    destruct (Z.log2_spec e Hpos) as [Hlo Hhi].
    pose proof (Z.log2_nonneg e) as HL.
    destruct (exp_loop_spec x e Hx He (Z.to_nat (Z.log2 e)) x Hx) as (Hc & Hm).
    { rewrite Z2Nat.id by exact HL.
      assert (H1 : e / 2 ^ Z.log2 e = 1).
      { symmetry. apply (Z.div_unique e (2 ^ Z.log2 e) 1 (e - 2 ^ Z.log2 e)).
        - left. rewrite Z.pow_succ_r in Hhi by exact HL. lia.
        - ring. }
      rewrite H1, Z.pow_1_r. reflexivity. }
    split; [ exact Hc | ].
    apply eqq_mod_eq; [ apply mval_range | exact Hm ].
Qed.
Print Assumptions exp_correct.

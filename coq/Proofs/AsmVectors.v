(* Sanity of Model/AsmSem.v against the real CPU: the interpreter, run on the
   generated programs with concrete operands, returns the limbs printed by the
   Go test below on an amd64 machine with ADX+BMI2 (supportAdx = true), i.e.
   through the MULX/ADCX/ADOX path.  (The correctness theorems are in
   Proofs/AsmProofs.v; this file only guards the reading of the instruction
   set: operand order of MULXQ, flags used by ADCXQ/ADOXQ, CMOVQCC/CS ...)

     x := Element{0x1234567890abcdef, 0xfedcba0987654321, 0x0f1e2d3c4b5a6978, 0x1022334455667788}
     y := Element{0xdeadbeefcafebabe, 0x0123456789abcdef, 0xffffffffffffffff, 0x2fffffffffffffff}
     mul(&r, &x, &y); r = x; fromMont(&r); sub(&r, &x, &y); add(&r, &x, &y);
     r = y; MulBy13(&r); neg(&r, &y)                                          *)
From Coq Require Import ZArith List.
From Verif Require Import Lib.Words Model.FfLimbs Model.AsmSem.
From Verif Require Gen.FfAsm.
Import ListNotations.
Local Open Scope Z_scope.

Definition vx : el :=
  (1311768467294899695, 18364757930599072545, 1089357896855742840, 1162548022398580616).
Definition vy : el :=
  (16045690984503098046, 81985529216486895, 18446744073709551615, 3458764513820540927).

(* location 0: destination (junk), 1: x, 2: y; registers and flags undefined *)
Definition vmem (l : loc) : el :=
  match l with O => (1, 2, 3, 4) | S O => vx | _ => vy end.
Definition vstate (a : list value) : state :=
  mkState undef_regs None None None vmem a (mkStk VU VU VU).

Definition result (adx : bool) (p : list instr) (a : list value) (l : loc) : option el :=
  match run adx p (vstate a) with Some st' => Some (mem st' l) | None => None end.

Example vec_mul : result true FfAsm.asm_mul [VP 0; VP 1; VP 2]%nat 0%nat =
  Some (17587202924230320819, 3621136762036304120, 18266839522352436446, 260367556265078462).
Proof. vm_compute. reflexivity. Qed.

Example vec_adx_mul : result true FfAsm.asm_adx_mul [VP 0; VP 1; VP 2]%nat 0%nat =
  Some (17587202924230320819, 3621136762036304120, 18266839522352436446, 260367556265078462).
Proof. vm_compute. reflexivity. Qed.

(* supportAdx = false: CALL ·_mulGeneric, same result *)
Example vec_mul_fallback : result false FfAsm.asm_mul [VP 0; VP 1; VP 2]%nat 0%nat =
  result true FfAsm.asm_mul [VP 0; VP 1; VP 2]%nat 0%nat.
Proof. vm_compute. reflexivity. Qed.

Example vec_fromMont : result true FfAsm.asm_fromMont [VP 1]%nat 1%nat =
  Some (13623360713597605158, 13368464504898623374, 12009589948736891445, 1137282216571894297).
Proof. vm_compute. reflexivity. Qed.

Example vec_sub : result true FfAsm.asm_sub [VP 0; VP 1; VP 2]%nat 0%nat =
  Some (8604282242537952050, 2732942710979880386, 14370549848130437591, 1190781775381010353).
Proof. vm_compute. reflexivity. Qed.

Example vec_add : result true FfAsm.asm_add [VP 0; VP 1; VP 2]%nat 0%nat =
  Some (12465998765761398956, 15549829076508713087, 6254910019290599706, 1134314269416150878).
Proof. vm_compute. reflexivity. Qed.

Example vec_MulBy13 : result true FfAsm.asm_MulBy13 [VP 2]%nat 2%nat =
  Some (2322501976424676250, 3196327427551276639, 6646393248089627541, 3119959478031384075).
Proof. vm_compute. reflexivity. Qed.

Example vec_neg : result true FfAsm.asm_neg [VP 0; VP 2]%nat 0%nat =
  Some (7292513775243052355, 2814928854090359457, 13281191951274694750, 28233752982429737).
Proof. vm_compute. reflexivity. Qed.

(* Butterfly(&a, &a) with a = 7 (Montgomery form): the CPU printed 14 *)
Example vec_butterfly_aliased :
  match run true FfAsm.asm_Butterfly
          (mkState undef_regs None None None (fun _ => setUint64 7) [VP 0; VP 0]%nat (mkStk VU VU VU)) with
  | Some st' => Some (mem st' 0%nat)
  | None => None
  end = Some (setUint64 14).
Proof. vm_compute. reflexivity. Qed.

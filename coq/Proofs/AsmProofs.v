(* The amd64 assembly of /repo/ff computes what the proved portable model
   computes: final statements.

   For every routine of ff/element_ops_amd64.s, ff/element_mul_amd64.s (run-time
   ADX dispatch) and ff/element_mul_adx_amd64.s (build tag amd64_adx):
     for all canonical operands,
     EVERY aliasing pattern of the pointer arguments (the locations lres, lx,
       ly are universally quantified: lres = lx, lres = ly, lx = ly, all equal
       and all distinct are instances; the only exception is Butterfly, whose
       two objects must be distinct, see Proofs/AsmOps.v),
     every initial content of registers, flags and outgoing stack slots,
     both values of the ADX switch,
   running the generated program (Gen/FfAsm.v, produced by tools/asmgen from
   the .s files) under the semantics of Model/AsmSem.v terminates with RET and
     - stores in the destination exactly the limbs of the portable routine
       (Model/FfLimbs.v, itself regenerated from the Go source),
     - leaves every other object untouched,
   hence (Proofs/FfOps.v, Proofs/FfArith.v) the result is canonical and is the
   mathematically correct field value. *)
From Coq Require Import ZArith List Lia Bool.
From Verif Require Import Lib.Params Lib.Words Model.FfLimbs Model.AsmSem
  Proofs.FfWords Proofs.FfEl Proofs.FfArith Proofs.FfOps
  Proofs.AsmLemmas Proofs.AsmOps Proofs.AsmMont Proofs.AsmMul.
From Verif Require Gen.FfAsm.
Import ListNotations.
Local Open Scope Z_scope.
Local Opaque q.
Local Opaque mulGeneric.

(* from the weakest-precondition form to "exists st'" + a consequence *)
Ltac finish_with H :=
  apply ok_elim in H; destruct H as (st' & Hrun & Hres & Hframe);
  exists st'; split; [ exact Hrun | ]; split; [ exact Hres | ]; split; [ exact Hframe | ];
  rewrite Hres.

(* ------------------------------------------------------------------ *)
(** * element_ops_amd64.s *)

Theorem asm_add_correct : forall adx (lres lx ly : loc) (st : state) (x y : el),
  canon x -> canon y ->
  args st = [VP lres; VP lx; VP ly] -> mem st lx = x -> mem st ly = y ->
  exists st', run adx FfAsm.asm_add st = Some st' /\
    mem st' lres = addGeneric x y /\
    (forall l, l <> lres -> mem st' l = mem st l) /\
    canon (mem st' lres) /\ mval (mem st' lres) = (mval x + mval y) mod q.
Proof.
  intros adx lres lx ly st x y Cx Cy Ha Hx Hy.
  pose proof (asm_add_ok adx lres lx ly st x y Ha Hx Hy) as H.
  finish_with H. apply add_correct; assumption.
Qed.
Print Assumptions asm_add_correct.

Theorem asm_sub_correct : forall adx (lres lx ly : loc) (st : state) (x y : el),
  canon x -> canon y ->
  args st = [VP lres; VP lx; VP ly] -> mem st lx = x -> mem st ly = y ->
  exists st', run adx FfAsm.asm_sub st = Some st' /\
    mem st' lres = subGeneric x y /\
    (forall l, l <> lres -> mem st' l = mem st l) /\
    canon (mem st' lres) /\ mval (mem st' lres) = (mval x - mval y) mod q.
Proof.
  intros adx lres lx ly st x y Cx Cy Ha Hx Hy.
  pose proof (asm_sub_ok adx lres lx ly st x y Ha Hx Hy) as H.
  finish_with H. apply sub_correct; assumption.
Qed.
Print Assumptions asm_sub_correct.

Theorem asm_double_correct : forall adx (lres lx : loc) (st : state) (x : el),
  canon x ->
  args st = [VP lres; VP lx] -> mem st lx = x ->
  exists st', run adx FfAsm.asm_double st = Some st' /\
    mem st' lres = doubleGeneric x /\
    (forall l, l <> lres -> mem st' l = mem st l) /\
    canon (mem st' lres) /\ mval (mem st' lres) = (2 * mval x) mod q.
Proof.
  intros adx lres lx st x Cx Ha Hx.
  pose proof (asm_double_ok adx lres lx st x Ha Hx) as H.
  finish_with H. apply double_correct; assumption.
Qed.
Print Assumptions asm_double_correct.

Theorem asm_neg_correct : forall adx (lres lx : loc) (st : state) (x : el),
  canon x ->
  args st = [VP lres; VP lx] -> mem st lx = x ->
  exists st', run adx FfAsm.asm_neg st = Some st' /\
    mem st' lres = negGeneric x /\
    (forall l, l <> lres -> mem st' l = mem st l) /\
    canon (mem st' lres) /\ mval (mem st' lres) = (- mval x) mod q.
Proof.
  intros adx lres lx st x Cx Ha Hx.
  pose proof (asm_neg_ok adx lres lx st x Ha Hx) as H.
  finish_with H. apply neg_correct; assumption.
Qed.
Print Assumptions asm_neg_correct.

Theorem asm_reduce_correct : forall adx (lres : loc) (st : state) (x : el),
  canon x ->
  args st = [VP lres] -> mem st lres = x ->
  exists st', run adx FfAsm.asm_reduce st = Some st' /\
    mem st' lres = reduceGeneric x /\
    (forall l, l <> lres -> mem st' l = mem st l) /\
    canon (mem st' lres) /\ mval (mem st' lres) = mval x mod q.
Proof.
  intros adx lres st x Cx Ha Hx.
  pose proof (asm_reduce_ok adx lres st x (canon_limbs _ Cx) Ha Hx) as H.
  finish_with H. apply reduce_correct; assumption.
Qed.
Print Assumptions asm_reduce_correct.

(* reduce is also called on non-canonical values below 2q *)
Theorem asm_reduce_correct_gen : forall adx (lres : loc) (st : state) (x : el),
  limbs_ok x -> val x < 2 * q ->
  args st = [VP lres] -> mem st lres = x ->
  exists st', run adx FfAsm.asm_reduce st = Some st' /\
    mem st' lres = reduceGeneric x /\
    (forall l, l <> lres -> mem st' l = mem st l) /\
    canon (mem st' lres) /\ val (mem st' lres) = val x mod q.
Proof.
  intros adx lres st x Lx Vx Ha Hx.
  pose proof (asm_reduce_ok adx lres st x Lx Ha Hx) as H.
  finish_with H. apply reduce_correct_gen; assumption.
Qed.
Print Assumptions asm_reduce_correct_gen.

Theorem asm_MulBy3_correct : forall adx (lx : loc) (st : state) (x : el),
  canon x ->
  args st = [VP lx] -> mem st lx = x ->
  exists st', run adx FfAsm.asm_MulBy3 st = Some st' /\
    mem st' lx = mulBy3 x /\
    (forall l, l <> lx -> mem st' l = mem st l) /\
    canon (mem st' lx) /\ mval (mem st' lx) = (3 * mval x) mod q.
Proof.
  intros adx lx st x Cx Ha Hx.
  pose proof (asm_MulBy3_ok adx lx st x Ha Hx) as H.
  finish_with H. apply mulBy3_correct; assumption.
Qed.
Print Assumptions asm_MulBy3_correct.

Theorem asm_MulBy5_correct : forall adx (lx : loc) (st : state) (x : el),
  canon x ->
  args st = [VP lx] -> mem st lx = x ->
  exists st', run adx FfAsm.asm_MulBy5 st = Some st' /\
    mem st' lx = mulBy5 x /\
    (forall l, l <> lx -> mem st' l = mem st l) /\
    canon (mem st' lx) /\ mval (mem st' lx) = (5 * mval x) mod q.
Proof.
  intros adx lx st x Cx Ha Hx.
  pose proof (asm_MulBy5_ok adx lx st x Ha Hx) as H.
  finish_with H. apply mulBy5_correct; assumption.
Qed.
Print Assumptions asm_MulBy5_correct.

Theorem asm_MulBy13_correct : forall adx (lx : loc) (st : state) (x : el),
  canon x ->
  args st = [VP lx] -> mem st lx = x ->
  exists st', run adx FfAsm.asm_MulBy13 st = Some st' /\
    mem st' lx = mulBy13 x /\
    (forall l, l <> lx -> mem st' l = mem st l) /\
    canon (mem st' lx) /\ mval (mem st' lx) = (13 * mval x) mod q.
Proof.
  intros adx lx st x Cx Ha Hx.
  pose proof (asm_MulBy13_ok adx lx st x Cx Ha Hx) as H.
  finish_with H. apply mulBy13_correct; assumption.
Qed.
Print Assumptions asm_MulBy13_correct.

(* two destinations; a and b must be distinct objects (see Proofs/AsmOps.v:
   with a == b assembly and portable code DISAGREE) *)
Theorem asm_Butterfly_correct : forall adx (la lb : loc) (st : state) (a b : el),
  canon a -> canon b -> la <> lb ->
  args st = [VP la; VP lb] -> mem st la = a -> mem st lb = b ->
  exists st', run adx FfAsm.asm_Butterfly st = Some st' /\
    mem st' la = fst (butterflyGeneric a b) /\
    mem st' lb = snd (butterflyGeneric a b) /\
    (forall l, l <> la -> l <> lb -> mem st' l = mem st l) /\
    canon (mem st' la) /\ canon (mem st' lb) /\
    mval (mem st' la) = (mval a + mval b) mod q /\
    mval (mem st' lb) = (mval a - mval b) mod q.
Proof.
  intros adx la lb st a b Ca Cb Hab Ha Hx Hy.
  pose proof (asm_Butterfly_ok adx la lb st a b Hab Ha Hx Hy) as H.
  apply ok_elim in H. destruct H as (st' & Hrun & Hra & Hrb & Hframe).
  exists st'. split; [ exact Hrun | ]. split; [ exact Hra | ]. split; [ exact Hrb | ].
  split; [ exact Hframe | ]. rewrite Hra, Hrb.
  apply butterfly_correct; assumption.
Qed.
Print Assumptions asm_Butterfly_correct.

(* Butterfly(a, a): the assembly leaves 2a, the Go statements of
   _butterflyGeneric leave a - 2a *)
Theorem asm_Butterfly_aliased_result : forall adx (la : loc) (st : state) (a : el),
  args st = [VP la; VP la] -> mem st la = a ->
  exists st', run adx FfAsm.asm_Butterfly st = Some st' /\ mem st' la = addGeneric a a.
Proof.
  intros adx la st a Ha Hx.
  pose proof (asm_Butterfly_aliased adx la st a Ha Hx) as H.
  apply ok_elim in H. exact H.
Qed.
Print Assumptions asm_Butterfly_aliased_result.

(* ------------------------------------------------------------------ *)
(** * element_mul_amd64.s (run-time dispatch) and element_mul_adx_amd64.s *)

Theorem asm_fromMont_correct : forall adx (lres : loc) (st : state) (x : el),
  canon x ->
  args st = [VP lres] -> mem st lres = x ->
  exists st', run adx FfAsm.asm_fromMont st = Some st' /\
    mem st' lres = fromMontGeneric x /\
    (forall l, l <> lres -> mem st' l = mem st l) /\
    canon (mem st' lres) /\ val (mem st' lres) = mval x.
Proof.
  intros adx lres st x Cx Ha Hx.
  pose proof (asm_fromMont_ok adx lres st x Cx Ha Hx) as H.
  finish_with H. apply fromMont_correct; assumption.
Qed.
Print Assumptions asm_fromMont_correct.

Theorem asm_adx_fromMont_correct : forall adx (lres : loc) (st : state) (x : el),
  canon x ->
  args st = [VP lres] -> mem st lres = x ->
  exists st', run adx FfAsm.asm_adx_fromMont st = Some st' /\
    mem st' lres = fromMontGeneric x /\
    (forall l, l <> lres -> mem st' l = mem st l) /\
    canon (mem st' lres) /\ val (mem st' lres) = mval x.
Proof.
  intros adx lres st x Cx Ha Hx.
  pose proof (asm_adx_fromMont_ok adx lres st x Cx Ha Hx) as H.
  finish_with H. apply fromMont_correct; assumption.
Qed.
Print Assumptions asm_adx_fromMont_correct.

Theorem asm_mul_correct : forall adx (lres lx ly : loc) (st : state) (x y : el),
  canon x -> canon y ->
  args st = [VP lres; VP lx; VP ly] -> mem st lx = x -> mem st ly = y ->
  exists st', run adx FfAsm.asm_mul st = Some st' /\
    mem st' lres = mulGeneric x y /\
    (forall l, l <> lres -> mem st' l = mem st l) /\
    canon (mem st' lres) /\ mval (mem st' lres) = (mval x * mval y) mod q.
Proof.
  intros adx lres lx ly st x y Cx Cy Ha Hx Hy.
  pose proof (asm_mul_ok adx lres lx ly st x y Cx Cy Ha Hx Hy) as H.
  finish_with H. apply mul_correct; assumption.
Qed.
Print Assumptions asm_mul_correct.

Theorem asm_adx_mul_correct : forall adx (lres lx ly : loc) (st : state) (x y : el),
  canon x -> canon y ->
  args st = [VP lres; VP lx; VP ly] -> mem st lx = x -> mem st ly = y ->
  exists st', run adx FfAsm.asm_adx_mul st = Some st' /\
    mem st' lres = mulGeneric x y /\
    (forall l, l <> lres -> mem st' l = mem st l) /\
    canon (mem st' lres) /\ mval (mem st' lres) = (mval x * mval y) mod q.
Proof.
  intros adx lres lx ly st x y Cx Cy Ha Hx Hy.
  pose proof (asm_adx_mul_ok adx lres lx ly st x y Cx Cy Ha Hx Hy) as H.
  finish_with H. apply mul_correct; assumption.
Qed.
Print Assumptions asm_adx_mul_correct.

(* ------------------------------------------------------------------ *)
(** * The aliasing patterns, enumerated (instances of the theorems above) *)

Corollary asm_mul_all_patterns : forall (p : alias3) adx (st : state) (x y : el),
  let '(lres, lx, ly) := locs3 p in
  canon x -> canon y ->
  args st = [VP lres; VP lx; VP ly] -> mem st lx = x -> mem st ly = y ->
  exists st', run adx FfAsm.asm_mul st = Some st' /\ mem st' lres = mulGeneric x y.
Proof.
  intros p adx st x y. destruct p; cbn [locs3]; intros Cx Cy Ha Hx Hy;
    (edestruct asm_mul_correct as (st' & Hr & Hm & _); [ exact Cx | exact Cy | exact Ha | exact Hx | exact Hy | ];
     exists st'; split; [ exact Hr | exact Hm ]).
Qed.

Corollary asm_add_all_patterns : forall (p : alias3) adx (st : state) (x y : el),
  let '(lres, lx, ly) := locs3 p in
  canon x -> canon y ->
  args st = [VP lres; VP lx; VP ly] -> mem st lx = x -> mem st ly = y ->
  exists st', run adx FfAsm.asm_add st = Some st' /\ mem st' lres = addGeneric x y.
Proof.
  intros p adx st x y. destruct p; cbn [locs3]; intros Cx Cy Ha Hx Hy;
    (edestruct asm_add_correct as (st' & Hr & Hm & _); [ exact Cx | exact Cy | exact Ha | exact Hx | exact Hy | ];
     exists st'; split; [ exact Hr | exact Hm ]).
Qed.

Corollary asm_sub_all_patterns : forall (p : alias3) adx (st : state) (x y : el),
  let '(lres, lx, ly) := locs3 p in
  canon x -> canon y ->
  args st = [VP lres; VP lx; VP ly] -> mem st lx = x -> mem st ly = y ->
  exists st', run adx FfAsm.asm_sub st = Some st' /\ mem st' lres = subGeneric x y.
Proof.
  intros p adx st x y. destruct p; cbn [locs3]; intros Cx Cy Ha Hx Hy;
    (edestruct asm_sub_correct as (st' & Hr & Hm & _); [ exact Cx | exact Cy | exact Ha | exact Hx | exact Hy | ];
     exists st'; split; [ exact Hr | exact Hm ]).
Qed.

(* Composition, part 1 (Poseidon): the optimized Hades loop of
   poseidon/poseidon.go run on limb elements (Model/LimbPrograms.v) refines
   the value-level model (Model/HadesOpt.v, Model/Poseidon.v).  Only the
   [_correct] theorems of the limb routines are used; the routines stay
   opaque. *)
From Coq Require Import ZArith List Lia Bool.
From Verif Require Import Lib.Params Spec.Hades Model.Outcome Model.Utils
  Model.HadesOpt Model.Poseidon Model.FfLimbs Model.FfConv Model.LimbPrograms
  Proofs.FfWords Proofs.FfEl Proofs.FfArith Proofs.FfOps Proofs.FfCodec.
From Verif Require Gen.CurveConsts.
Import ListNotations.
Local Open Scope Z_scope.

Local Opaque q.
Local Opaque mulGeneric addGeneric subGeneric square FfLimbs.exp inverse
  setBigInt toBigIntRegular setUint64.

(* ------------------------------------------------------------------ *)
(** * The refinement relation *)

(* the limb element z is canonical and represents the field value v *)
Definition R (z : el) (v : Z) : Prop := canon z /\ mval z = v.
(* table entries: only the class of the integer matters *)
Definition Rt (c : el) (v : Z) : Prop := R c (v mod q).

Lemma q_pos : 0 < q. Proof. exact q_pos'. Qed.

Lemma R_range : forall z v, R z v -> 0 <= v < q.
Proof. intros z v [_ <-]. apply mval_range. Qed.

Lemma R_zero : R zero 0.
Proof. split; [ exact canon_zero | exact mval_zero ]. Qed.

Lemma Rt_zero : Rt zero 0.
Proof. unfold Rt. rewrite Z.mod_0_l by (pose proof q_pos; lia). exact R_zero. Qed.

Lemma R_one : R one 1.
Proof. split; [ exact canon_one | exact mval_one ]. Qed.

Lemma R_setUint64_0 : R (setUint64 0) 0.
Proof.
  destruct (setUint64_correct 0) as [Hc Hm].
  - unfold Words.u64, W. lia.
  - split; [ exact Hc | ]. rewrite Hm. apply Z.mod_0_l. pose proof q_pos; lia.
Qed.

Lemma R_setBigInt : forall v, R (setBigInt v) (v mod q).
Proof. intros v. exact (setBigInt_correct v). Qed.

Lemma Rt_setBigInt : forall v, Rt (setBigInt v) v.
Proof. intros v. exact (R_setBigInt v). Qed.

Lemma R_setBigInt_small : forall v, 0 <= v < q -> R (setBigInt v) v.
Proof.
  intros v Hv. pose proof (R_setBigInt v) as H.
  rewrite Z.mod_small in H by exact Hv. exact H.
Qed.

Lemma R_toBigIntRegular : forall z v, R z v -> toBigIntRegular z = v.
Proof. intros z v [Hc <-]. apply toBigIntRegular_correct. exact Hc. Qed.

Lemma R_add : forall a b x y, R a x -> R b y -> R (addGeneric a b) ((x + y) mod q).
Proof.
  intros a b x y [Ha <-] [Hb <-]. exact (add_correct a b Ha Hb).
Qed.

Lemma R_sub : forall a b x y, R a x -> R b y -> R (subGeneric a b) ((x - y) mod q).
Proof.
  intros a b x y [Ha <-] [Hb <-]. exact (sub_correct a b Ha Hb).
Qed.

Lemma R_mul : forall a b x y, R a x -> R b y -> R (mulGeneric a b) ((x * y) mod q).
Proof.
  intros a b x y [Ha <-] [Hb <-]. exact (mul_correct a b Ha Hb).
Qed.

Lemma R_square : forall a x, R a x -> R (square a) ((x * x) mod q).
Proof.
  intros a x [Ha <-]. exact (square_correct a Ha).
Qed.

(* with a table entry as one operand *)
Lemma R_add_t : forall a c x v, R a x -> Rt c v -> R (addGeneric a c) ((x + v) mod q).
Proof.
  intros a c x v Ha Hc. pose proof (R_add a c _ _ Ha Hc) as H.
  rewrite Zplus_mod_idemp_r in H. exact H.
Qed.

Lemma R_mul_t_l : forall m a v x, Rt m v -> R a x -> R (mulGeneric m a) ((v * x) mod q).
Proof.
  intros m a v x Hm Ha. pose proof (R_mul m a _ _ Hm Ha) as H.
  rewrite Zmult_mod_idemp_l in H. exact H.
Qed.

Lemma R_mul_t_r : forall a s x v, R a x -> Rt s v -> R (mulGeneric a s) ((x * v) mod q).
Proof.
  intros a s x v Ha Hs. pose proof (R_mul a s _ _ Ha Hs) as H.
  rewrite Zmult_mod_idemp_r in H. exact H.
Qed.

(* the S-box: Exp(x, 5) against the three multiplications of the model *)
Lemma sbox5_pow : forall x, sbox5 q x = (x ^ 5) mod q.
Proof.
  intros x. unfold sbox5. cbv zeta.
  rewrite Zmult_mod_idemp_l.
  rewrite <- Zmult_mod_idemp_l.
  rewrite <- (Zmult_mod (x * x) (x * x) q).
  rewrite Zmult_mod_idemp_l.
  f_equal. ring.
Qed.

Lemma R_exp5 : forall a x, R a x -> R (exp5_l a) (sbox5 q x).
Proof.
  intros a x [Ha <-]. unfold exp5_l. rewrite sbox5_pow.
  apply (exp_correct a 5 Ha). lia.
Qed.

(* ------------------------------------------------------------------ *)
(** * Lists *)

Lemma Forall2_length' : forall (A B : Type) (P : A -> B -> Prop) l l',
  Forall2 P l l' -> length l = length l'.
Proof. intros A B P l l' H. induction H; cbn [length]; congruence. Qed.

Lemma Forall2_map_seq : forall (B C : Type) (P : B -> C -> Prop)
  (f : nat -> B) (g : nat -> C) (l : list nat),
  (forall i, P (f i) (g i)) -> Forall2 P (map f l) (map g l).
Proof.
  intros B C P f g l H. induction l as [ | i l IH ]; cbn [map]; constructor; auto.
Qed.

Lemma Forall2_map_combine : forall (P : el -> Z -> Prop)
  (f : nat * el -> el) (g : nat * Z -> Z),
  (forall i x y, P x y -> P (f (i, x)) (g (i, y))) ->
  forall sl s, Forall2 P sl s -> forall a,
  Forall2 P (map f (combine (seq a (length sl)) sl)) (map g (combine (seq a (length s)) s)).
Proof.
  intros P f g Hfg sl s H. induction H as [ | x y sl s Hxy H IH ]; intros a.
  - constructor.
  - cbn [length seq combine map]. constructor; [ apply Hfg; exact Hxy | apply IH ].
Qed.

Lemma fold_combine_refines : forall (P : el -> Z -> Prop)
  (f : el -> nat * el -> el) (g : Z -> nat * Z -> Z),
  (forall accl acc i x y, R accl acc -> P x y -> R (f accl (i, x)) (g acc (i, y))) ->
  forall sl s, Forall2 P sl s -> forall a accl acc, R accl acc ->
  R (fold_left f (combine (seq a (length sl)) sl) accl)
    (fold_left g (combine (seq a (length s)) s) acc).
Proof.
  intros P f g Hfg sl s H. induction H as [ | x y sl s Hxy H IH ]; intros a accl acc Hacc.
  - exact Hacc.
  - cbn [length seq combine fold_left]. apply IH. apply Hfg; assumption.
Qed.

Lemma fold_rounds_refines : forall (F : list el -> nat -> list el) (G : list Z -> nat -> list Z),
  (forall i sl s, Forall2 R sl s -> Forall2 R (F sl i) (G s i)) ->
  forall l sl s, Forall2 R sl s -> Forall2 R (fold_left F l sl) (fold_left G l s).
Proof.
  intros F G HFG l. induction l as [ | i l IH ]; intros sl s H; cbn [fold_left].
  - exact H.
  - apply IH. apply HFG. exact H.
Qed.

Lemma Forall2_firstn : forall (A B : Type) (P : A -> B -> Prop) n l l',
  Forall2 P l l' -> Forall2 P (firstn n l) (firstn n l').
Proof.
  intros A B P n. induction n as [ | n IH ]; intros l l' H; cbn [firstn].
  - constructor.
  - destruct H; constructor; auto.
Qed.

Lemma Forall2_nth : forall (A B : Type) (P : A -> B -> Prop) da db,
  P da db -> forall l l', Forall2 P l l' -> forall i, P (nth i l da) (nth i l' db).
Proof.
  intros A B P da db Hd l l' H. induction H as [ | x y l l' Hxy H IH ]; intros i.
  - destruct i; exact Hd.
  - destruct i as [ | i ]; cbn [nth]; [ exact Hxy | apply IH ].
Qed.

Lemma map_toBigIntRegular : forall l v, Forall2 R l v -> map toBigIntRegular l = v.
Proof.
  intros l v H. induction H as [ | x y l v Hxy H IH ]; cbn [map].
  - reflexivity.
  - rewrite IH. rewrite (R_toBigIntRegular x y Hxy). reflexivity.
Qed.

(* table lookups with the default entry *)
Lemma Rt_nthe : forall Cl C, Forall2 Rt Cl C -> forall i, Rt (nthe Cl i) (nthz C i).
Proof.
  intros Cl C H i. unfold nthe, nthz. apply (Forall2_nth _ _ Rt zero 0 Rt_zero _ _ H).
Qed.

Lemma Rt_nthme : forall Ml M, Forall2 (Forall2 Rt) Ml M ->
  forall i j, Rt (nthme Ml i j) (nthm M i j).
Proof.
  intros Ml M H i j. unfold nthme, nthm.
  apply (Forall2_nth _ _ Rt zero 0 Rt_zero).
  apply (Forall2_nth _ _ (Forall2 Rt) [] []); [ constructor | exact H ].
Qed.

(* ------------------------------------------------------------------ *)
(** * The pieces of the Hades loop *)

Section Refine.
  Variable t : nat.
  Variables RF RP : nat.
  Variables Cl Sl : list el.
  Variables Ml Pl : list (list el).
  Variables C S : list Z.
  Variables M P : list (list Z).
  Hypothesis HC : Forall2 Rt Cl C.
  Hypothesis HS : Forall2 Rt Sl S.
  Hypothesis HM : Forall2 (Forall2 Rt) Ml M.
  Hypothesis HP : Forall2 (Forall2 Rt) Pl P.

  Lemma ark_l_refines : forall st_l st it, Forall2 R st_l st ->
    Forall2 R (ark_l Cl st_l it) (ark q C st it).
  Proof.
    intros st_l st it H. unfold ark_l, ark.
    apply (Forall2_map_combine R
             (fun ix => addGeneric (snd ix) (nthe Cl (it + fst ix)))
             (fun ix => (snd ix + nthz C (it + fst ix)) mod q)); [ | exact H ].
    intros i x y Hxy. cbn [fst snd]. apply R_add_t; [ exact Hxy | apply Rt_nthe; exact HC ].
  Qed.

  Lemma mix_l_refines : forall ml m st_l st, Forall2 (Forall2 Rt) ml m -> Forall2 R st_l st ->
    Forall2 R (mix_l t ml st_l) (mix q t m st).
  Proof.
    intros ml m st_l st Hm H. unfold mix_l, mix.
    apply Forall2_map_seq. intros i.
    apply (fold_combine_refines R
             (fun acc jx => addGeneric acc (mulGeneric (nthme ml (fst jx) i) (snd jx)))
             (fun acc jx => (acc + (nthm m (fst jx) i * snd jx) mod q) mod q));
      [ | exact H | exact R_setUint64_0 ].
    intros accl acc j x y Hacc Hxy. cbn [fst snd].
    apply R_add; [ exact Hacc | ].
    apply R_mul_t_l; [ apply Rt_nthme; exact Hm | exact Hxy ].
  Qed.

  Lemma exp5state_l_refines : forall st_l st, Forall2 R st_l st ->
    Forall2 R (exp5state_l st_l) (sbox_all (sbox5 q) st).
  Proof.
    intros st_l st H. unfold exp5state_l, sbox_all.
    induction H as [ | x y sl s Hxy H IH ]; cbn [map]; constructor.
    - apply R_exp5. exact Hxy.
    - exact IH.
  Qed.

  Lemma first_full_l_refines : forall st_l st, Forall2 R st_l st ->
    Forall2 R (first_full_l t RF Cl Ml st_l) (first_full q (sbox5 q) t RF C M st).
  Proof.
    intros st_l st H. unfold first_full_l, first_full.
    apply (fold_rounds_refines
             (fun s i => mix_l t Ml (ark_l Cl (exp5state_l s) ((i + 1) * t)))
             (fun s i => mix q t M (ark q C (sbox_all (sbox5 q) s) ((i + 1) * t))));
      [ | exact H ].
    intros i sl s Hs. apply mix_l_refines; [ exact HM | ].
    apply ark_l_refines. apply exp5state_l_refines. exact Hs.
  Qed.

  Lemma last_full_l_refines : forall st_l st, Forall2 R st_l st ->
    Forall2 R (last_full_l t RF RP Cl Ml st_l) (last_full q (sbox5 q) t RF RP C M st).
  Proof.
    intros st_l st H. unfold last_full_l, last_full.
    apply (fold_rounds_refines
             (fun s i => mix_l t Ml (ark_l Cl (exp5state_l s) ((RF / 2 + 1) * t + RP + i * t)))
             (fun s i => mix q t M (ark q C (sbox_all (sbox5 q) s) ((RF / 2 + 1) * t + RP + i * t))));
      [ | exact H ].
    intros i sl s Hs. apply mix_l_refines; [ exact HM | ].
    apply ark_l_refines. apply exp5state_l_refines. exact Hs.
  Qed.

  Lemma sparse_round_l_refines : forall i st_l st, Forall2 R st_l st ->
    Forall2 R (sparse_round_l t RF Cl Sl i st_l) (sparse_round q (sbox5 q) t RF C S i st).
  Proof.
    intros i st_l st H. unfold sparse_round_l, sparse_round.
    destruct H as [ | x y rl r Hxy Hr ]; [ constructor | ].
    cbv zeta.
    assert (H0 : R (addGeneric (exp5_l x) (nthe Cl ((RF / 2 + 1) * t + i)))
                   ((sbox5 q y + nthz C ((RF / 2 + 1) * t + i)) mod q)).
    { apply R_add_t; [ apply R_exp5; exact Hxy | apply Rt_nthe; exact HC ]. }
    constructor.
    - apply (fold_combine_refines R
               (fun acc jx => addGeneric acc (mulGeneric (nthe Sl ((t * 2 - 1) * i + fst jx)) (snd jx)))
               (fun acc jx => (acc + (nthz S ((t * 2 - 1) * i + fst jx) * snd jx) mod q) mod q)
               ltac:(intros accl acc j a b Hacc Hab; cbn [fst snd];
                     apply R_add; [ exact Hacc | ];
                     apply R_mul_t_l; [ apply Rt_nthe; exact HS | exact Hab ])
               (_ :: rl) (_ :: r)); [ | exact R_zero ].
      constructor; [ exact H0 | exact Hr ].
    - apply (Forall2_map_combine R
               (fun kx => addGeneric (snd kx)
                            (mulGeneric (addGeneric (exp5_l x) (nthe Cl ((RF / 2 + 1) * t + i)))
                                        (nthe Sl ((t * 2 - 1) * i + t + fst kx - 1))))
               (fun kx => (snd kx + ((sbox5 q y + nthz C ((RF / 2 + 1) * t + i)) mod q
                                     * nthz S ((t * 2 - 1) * i + t + fst kx - 1)) mod q) mod q));
        [ | exact Hr ].
      intros k a b Hab. cbn [fst snd].
      apply R_add; [ exact Hab | ].
      apply R_mul_t_r; [ exact H0 | apply Rt_nthe; exact HS ].
  Qed.

  Theorem perm_opt_limbs_refines : forall st_l st, Forall2 R st_l st ->
    Forall2 R (perm_opt_limbs t RF RP Cl Sl Ml Pl st_l)
              (perm_opt q (sbox5 q) t RF RP C S M P st).
  Proof.
    intros st_l st H. unfold perm_opt_limbs, perm_opt. cbv zeta.
    apply mix_l_refines; [ exact HM | ].
    apply exp5state_l_refines.
    apply last_full_l_refines.
    apply (fold_rounds_refines
             (fun s i => sparse_round_l t RF Cl Sl i s)
             (fun s i => sparse_round q (sbox5 q) t RF C S i s)).
    { intros i sl s Hs. apply sparse_round_l_refines. exact Hs. }
    apply mix_l_refines; [ exact HP | ].
    apply ark_l_refines. apply exp5state_l_refines.
    apply first_full_l_refines.
    apply ark_l_refines. exact H.
  Qed.
End Refine.
Print Assumptions perm_opt_limbs_refines.

(* ------------------------------------------------------------------ *)
(** * The tables of the package init and the top-level function *)

Lemma Forall2_Rt_map : forall l, Forall2 Rt (map setBigInt l) l.
Proof.
  intros l. induction l as [ | v l IH ]; cbn [map]; constructor;
    [ apply Rt_setBigInt | exact IH ].
Qed.

Lemma Forall2_Rt_map2 : forall m, Forall2 (Forall2 Rt) (map (map setBigInt) m) m.
Proof.
  intros m. induction m as [ | r m IH ]; cbn [map]; constructor;
    [ apply Forall2_Rt_map | exact IH ].
Qed.

Lemma Forall2_R_inputs : forall l,
  CheckBigIntArrayInField q l = true -> Forall2 R (map setBigInt l) l.
Proof.
  intros l. unfold CheckBigIntArrayInField.
  induction l as [ | v l IH ]; cbn [forallb map]; intros H.
  - constructor.
  - apply andb_prop in H. destruct H as [Hv Hl]. constructor; [ | apply IH; exact Hl ].
    apply R_setBigInt_small. unfold CheckBigIntInField in Hv.
    apply andb_prop in Hv. destruct Hv as [H1 H2].
    apply Z.ltb_lt in H1. apply negb_true_iff in H2. apply Z.ltb_ge in H2. lia.
Qed.

Lemma genQ_eq : Gen.CurveConsts.Q = q.
Proof. reflexivity. Qed.

Theorem HashWithStateEx_limbs_correct : forall NROUNDSF tables inp cap nOuts,
  HashWithStateEx_limbs NROUNDSF (map ltable_of tables) inp cap nOuts =
  HashWithStateEx q NROUNDSF tables inp cap nOuts.
Proof.
  intros NROUNDSF tables inp cap nOuts.
  unfold HashWithStateEx_limbs, HashWithStateEx. cbv zeta.
  rewrite genQ_eq. rewrite map_length.
  destruct (Nat.eqb (length inp) 0 || Nat.ltb (length tables) (length inp)); [ reflexivity | ].
  destruct (CheckBigIntArrayInField q inp) eqn:Einp; cbn [negb]; [ | reflexivity ].
  destruct ((nOuts <? 1) || (Z.of_nat (S (length inp)) <? nOuts)); [ reflexivity | ].
  rewrite nth_error_map.
  destruct (nth_error tables (S (length inp) - 2)) as [ tb | ]; cbn [option_map]; [ | reflexivity ].
  destruct tb as [[[[RP C] S_] M] P]. cbn [ltable_of].
  destruct (CheckBigIntInField q cap) eqn:Ecap; cbn [negb]; [ | reflexivity ].
  f_equal. apply map_toBigIntRegular. apply Forall2_firstn.
  apply perm_opt_limbs_refines.
  - apply Forall2_Rt_map.
  - apply Forall2_Rt_map.
  - apply Forall2_Rt_map2.
  - apply Forall2_Rt_map2.
  - change (setBigInt cap :: BigIntArrayToElementArray inp) with (map setBigInt (cap :: inp)).
    apply Forall2_R_inputs. unfold CheckBigIntArrayInField. cbn [forallb].
    rewrite Ecap. exact Einp.
Qed.
Print Assumptions HashWithStateEx_limbs_correct.

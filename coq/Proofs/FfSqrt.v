(* C18 for the BN254 scalar field (ff): Element.Legendre and Element.Sqrt of
   /repo/ff/element.go, as modelled at limb level (four 64-bit limbs,
   Montgomery form) in Model/FfConv.v, compute the Legendre symbol and a
   square root.

   Structure (same as Proofs/FfgSqrt.v): the literals of the Go text are
   pinned (sqrt_consts_ok / sqrt_lits_ok), the limb-level fixpoints are
   identified with the generic program of Proofs/SqrtRefine.v, whose
   hypotheses are discharged with the limb-arithmetic theorems (C05) of
   Proofs/FfWords.v, FfEl.v, FfArith.v (mul_correct, square_correct) and
   FfOps.v (exp_correct, isZero_correct, equal_correct); the Tonelli-Shanks
   argument itself is Proofs/TonelliShanks.v. *)
From Coq Require Import ZArith List Lia Bool.
From Verif Require Import Lib.Params Lib.Words Model.FfLimbs Model.FfConv
  Proofs.FfWords Proofs.FfEl Proofs.FfArith Proofs.FfOps Proofs.SqrtRefine.
From Verif Require Gen.FfConsts Model.SqrtCore Proofs.TonelliShanks.
Import ListNotations.
Local Open Scope Z_scope.
Local Opaque q.

(* ------------------------------------------------------------------ *)
(** * The literals of Legendre / Sqrt in the Go source *)

(* the Montgomery one, most significant limb first, as the inline comparison
   (l[3] == ..) && (l[2] == ..) && (l[1] == ..) && (l[0] == ..) lists it *)
Definition oneR : list Z := let '(a, b, c, d) := one in [d; c; b; a].
Definition oneR_idx : list Z := let '(a, b, c, d) := one in [3; d; 2; c; 1; b; 0; a].
(* the four limbs of the Montgomery-form constant g of TonelliShanks.v *)
Definition gL : list Z :=
  let '(a, b, c, d) := limbs_of TonelliShanks.bn_g_mont in [a; b; c; d].

Lemma sqrt_consts_ok :
  FfConsts.legendreExp = TonelliShanks.bn_legendreExp
  /\ FfConsts.sqrtExp = TonelliShanks.bn_sqrtExp
  /\ FfConsts.sqrt_r = TonelliShanks.bn_e
  /\ FfConsts.sqrt_g = gL
  /\ FfConsts.biglits_Element_Legendre = oneR
  /\ FfConsts.biglits_Element_Sqrt = gL ++ oneR ++ oneR
  /\ (TonelliShanks.bn_g0 * R) mod q = TonelliShanks.bn_g_mont.
Proof. vm_compute. repeat split. Qed.
Print Assumptions sqrt_consts_ok.


Definition gE : el :=
  (nth 0 FfConsts.biglits_Element_Sqrt 0, nth 1 FfConsts.biglits_Element_Sqrt 0,
   nth 2 FfConsts.biglits_Element_Sqrt 0, nth 3 FfConsts.biglits_Element_Sqrt 0).

Lemma gE_val : val gE = TonelliShanks.bn_g_mont.
Proof. vm_compute. reflexivity. Qed.
Lemma gE_canon : canon gE.
Proof. unfold canon, u64. vm_compute. repeat split; discriminate. Qed.
Lemma gE_mval : mval gE = TonelliShanks.bn_g0.
Proof. vm_compute. reflexivity. Qed.
Lemma legendreExp_nonneg : 0 <= FfConsts.legendreExp.
Proof. vm_compute. discriminate. Qed.
Lemma sqrtExp_nonneg : 0 <= FfConsts.sqrtExp.
Proof. vm_compute. discriminate. Qed.
Lemma q_gt_1 : 1 < q.
Proof. pose proof q_gt_2'. lia. Qed.

Lemma bn_TS :
  TonelliShanks.ts_results q FfConsts.sqrt_r FfConsts.legendreExp FfConsts.sqrtExp
    TonelliShanks.bn_g0.
Proof.
  destruct sqrt_consts_ok as (E1 & E2 & E3 & _).
  rewrite E1, E2, E3. exact TonelliShanks.bn_tonelli_shanks.
Qed.

(* ------------------------------------------------------------------ *)
(** * The comparisons on limbs are comparisons on values *)

Definition isOneL (t : el) : bool := is_one_lits FfConsts.biglits_Element_Legendre 0 t.
Definition isOneS (t : el) : bool := is_one_lits FfConsts.biglits_Element_Sqrt 4 t.
Definition isOneM (t : el) : bool := is_one_lits FfConsts.biglits_Element_Sqrt 8 t.

(* each inline comparison is Equal(t, One) *)
Lemma isOneL_equal : forall t, isOneL t = equal t one.
Proof. intros [[[t0 t1] t2] t3]. vm_compute. reflexivity. Qed.
Lemma isOneS_equal : forall t, isOneS t = equal t one.
Proof. intros [[[t0 t1] t2] t3]. vm_compute. reflexivity. Qed.
Lemma isOneM_equal : forall t, isOneM t = equal t one.
Proof. intros [[[t0 t1] t2] t3]. vm_compute. reflexivity. Qed.

Lemma equal_one_ok : forall t, canon t -> (equal t one = true <-> mval t = 1).
Proof.
  intros t Ht. rewrite (equal_correct t one Ht canon_one). rewrite mval_one. reflexivity.
Qed.

Lemma isOneL_ok : forall t, canon t -> (isOneL t = true <-> mval t = 1).
Proof. intros t Ht. rewrite isOneL_equal. apply equal_one_ok. exact Ht. Qed.
Lemma isOneS_ok : forall t, canon t -> (isOneS t = true <-> mval t = 1).
Proof. intros t Ht. rewrite isOneS_equal. apply equal_one_ok. exact Ht. Qed.
Lemma isOneM_ok : forall t, canon t -> (isOneM t = true <-> mval t = 1).
Proof. intros t Ht. rewrite isOneM_equal. apply equal_one_ok. exact Ht. Qed.

Lemma mval_range' : forall x, canon x -> 0 <= mval x < q.
Proof. intros x _. exact (mval_range x). Qed.

(* everything Proofs/SqrtRefine.v needs about the limb arithmetic (C05) *)
Lemma bn_ops_ok :
  sqrt_ops_ok el mulGeneric square exp isZero isOneL isOneS isOneM zero gE
    FfConsts.legendreExp FfConsts.sqrtExp FfConsts.sqrt_r q canon mval
    TonelliShanks.bn_g0.
Proof.
  constructor.
  - exact q_gt_1.
  - exact mval_range'.
  - exact mval_inj.
  - exact mul_correct.
  - exact square_correct.
  - exact exp_correct.
  - exact isZero_correct.
  - exact isOneL_ok.
  - exact isOneS_ok.
  - exact isOneM_ok.
  - exact canon_zero.
  - exact mval_zero.
  - exact gE_canon.
  - exact gE_mval.
  - exact legendreExp_nonneg.
  - exact sqrtExp_nonneg.
Qed.

(* ------------------------------------------------------------------ *)
(** * Model/FfConv.v is the generic program *)

Definition of_g (o : gsqrt_out el) : sqrt_out :=
  match o with GSome z => SqSome z | GNil => SqNil | GOutOfFuel => SqOutOfFuel end.

Local Notation GLEG := (glegendre el exp isZero isOneL FfConsts.legendreExp).
Local Notation GSQRT :=
  (gsqrt el mulGeneric square exp isZero isOneS isOneM zero gE
     FfConsts.sqrtExp FfConsts.sqrt_r).

Lemma legendre_eq : forall x, legendre x = GLEG x.
Proof. intros x. unfold legendre, glegendre, isOneL. reflexivity. Qed.

Lemma sqn_eq : forall n t, sqn n t = gsqn el square n t.
Proof. induction n as [ | n IH]; intros t; cbn [sqn gsqn]; [ reflexivity | apply IH ]. Qed.

Lemma find_m_eq : forall fuel t m, find_m fuel t m = gfind_m el square isOneM fuel t m.
Proof.
  induction fuel as [ | f IH]; intros t m; cbn [find_m gfind_m]; [ reflexivity | ].
  fold (isOneM t). destruct (isOneM t); [ reflexivity | apply IH ].
Qed.

Lemma ts_loop_eq : forall fuel y b g r,
  ts_loop fuel y b g r = gts_loop el mulGeneric square isOneM fuel y b g r.
Proof.
  induction fuel as [ | f IH]; intros y b g r; cbn [ts_loop gts_loop]; [ reflexivity | ].
  rewrite find_m_eq.
  destruct (gfind_m el square isOneM (Z.to_nat r + 1) b 0) as [ m | ]; [ | reflexivity ].
  destruct (m =? 0); [ reflexivity | ].
  cbv zeta. rewrite sqn_eq. apply IH.
Qed.

Lemma sqrt_eq : forall x, sqrt x = of_g (GSQRT x).
Proof.
  intros x. unfold sqrt, gsqrt, isOneS, gE. cbv zeta.
  rewrite sqn_eq, ts_loop_eq.
  destruct (isZero _); [ reflexivity | ].
  destruct (negb _); [ reflexivity | ].
  destruct (gts_loop _ _ _ _ _ _ _ _ _); reflexivity.
Qed.

Lemma of_g_some : forall o z, of_g o = SqSome z -> o = GSome z.
Proof. intros [ z' | | ] z H; cbn in H; try discriminate H. injection H as ->. reflexivity. Qed.
Lemma of_g_nil : forall o, of_g o = SqNil <-> o = GNil.
Proof. intros [ z' | | ]; cbn; split; intros H; try discriminate H; reflexivity. Qed.
Lemma of_g_fuel : forall o, of_g o = SqOutOfFuel <-> o = GOutOfFuel.
Proof. intros [ z' | | ]; cbn; split; intros H; try discriminate H; reflexivity. Qed.

(* ------------------------------------------------------------------ *)
(** * Refinement: the limb code computes the Montgomery image of the
      value-level model *)

Local Notation MODEL_SQRT :=
  (SqrtCore.sqrt_model q TonelliShanks.bn_sqrtExp TonelliShanks.bn_g0 TonelliShanks.bn_e).

Lemma model_consts :
  SqrtCore.sqrt_model q FfConsts.sqrtExp TonelliShanks.bn_g0 FfConsts.sqrt_r = MODEL_SQRT
  /\ SqrtCore.legendre_model q FfConsts.legendreExp
     = SqrtCore.legendre_model q TonelliShanks.bn_legendreExp.
Proof.
  destruct sqrt_consts_ok as (E1 & E2 & E3 & _). rewrite E1, E2, E3. split; reflexivity.
Qed.

Theorem legendre_refine : forall x, canon x ->
  legendre x = SqrtCore.legendre_model q TonelliShanks.bn_legendreExp (mval x).
Proof.
  intros x Hx. rewrite legendre_eq. rewrite <- (proj2 model_consts).
  exact (glegendre_refine bn_ops_ok x Hx).
Qed.

Lemma gsqrt_refine_inst : forall x, canon x ->
  match GSQRT x with
  | GSome z => canon z /\ MODEL_SQRT (mval x) = SqrtCore.SqrtOk (mval z)
  | GNil => MODEL_SQRT (mval x) = SqrtCore.SqrtNone
  | GOutOfFuel => MODEL_SQRT (mval x) = SqrtCore.SqrtOutOfFuel
  end.
Proof.
  intros x Hx. rewrite <- (proj1 model_consts).
  exact (gsqrt_refine bn_ops_ok x Hx).
Qed.

Theorem sqrt_refine_some : forall x z, canon x -> sqrt x = SqSome z ->
  canon z /\ MODEL_SQRT (mval x) = SqrtCore.SqrtOk (mval z).
Proof.
  intros x z Hx H. rewrite sqrt_eq in H. apply of_g_some in H.
  pose proof (gsqrt_refine_inst x Hx) as R. rewrite H in R. exact R.
Qed.

Theorem sqrt_refine_nil : forall x, canon x ->
  (sqrt x = SqNil <-> MODEL_SQRT (mval x) = SqrtCore.SqrtNone).
Proof.
  intros x Hx. rewrite sqrt_eq, of_g_nil.
  pose proof (gsqrt_refine_inst x Hx) as R. split.
  - intros H. rewrite H in R. exact R.
  - intros H. destruct (GSQRT x) as [ z | | ].
    + destruct R as [_ R]. rewrite R in H. discriminate H.
    + reflexivity.
    + rewrite R in H. discriminate H.
Qed.

(* ------------------------------------------------------------------ *)
(** * C18 for ff *)

Theorem legendre_values : forall x, legendre x = 0 \/ legendre x = 1 \/ legendre x = -1.
Proof. intros x. rewrite legendre_eq. apply glegendre_values. Qed.

Theorem legendre_correct : forall x, canon x ->
  (legendre x = 0 <-> mval x = 0) /\
  (legendre x = 1 <-> (mval x <> 0 /\ exists r, (r * r) mod q = mval x)) /\
  (legendre x = -1 <-> (forall r, (r * r) mod q <> mval x)).
Proof.
  intros x Hx. rewrite legendre_eq.
  exact (glegendre_correct bn_ops_ok bn_TS x Hx).
Qed.

Theorem sqrt_square_correct : forall x, canon x ->
  (exists r, (r * r) mod q = mval x) ->
  exists z, sqrt x = SqSome z /\ canon z /\ (mval z * mval z) mod q = mval x.
Proof.
  intros x Hx Hsq.
  destruct (gsqrt_square_correct bn_ops_ok bn_TS x Hx Hsq) as (z & Hz & Cz & Hzz).
  exists z. split; [ rewrite sqrt_eq, Hz; reflexivity | ]. split; [ exact Cz | exact Hzz ].
Qed.

(* zero for zero: SetZero *)
Theorem sqrt_zero_correct : forall x, canon x -> mval x = 0 -> sqrt x = SqSome zero.
Proof.
  intros x Hx H0. rewrite sqrt_eq.
  rewrite (gsqrt_zero_correct bn_ops_ok bn_TS x Hx H0).
  reflexivity.
Qed.

(* SqNil: the Go function returns nil and never writes through z *)
Theorem sqrt_nonsquare_correct : forall x, canon x ->
  (forall r, (r * r) mod q <> mval x) -> sqrt x = SqNil.
Proof.
  intros x Hx Hns. rewrite sqrt_eq.
  rewrite (gsqrt_nonsquare_correct bn_ops_ok bn_TS x Hx Hns).
  reflexivity.
Qed.

Theorem sqrt_total : forall x, canon x -> sqrt x <> SqOutOfFuel.
Proof.
  intros x Hx H. rewrite sqrt_eq in H. apply of_g_fuel in H.
  exact (gsqrt_total bn_ops_ok bn_TS x Hx H).
Qed.

(* converses: what the outcome of Sqrt says about x *)
Theorem sqrt_some_square : forall x z, canon x -> sqrt x = SqSome z ->
  canon z /\ (mval z * mval z) mod q = mval x.
Proof.
  intros x z Hx H. rewrite sqrt_eq in H. apply of_g_some in H.
  exact (gsqrt_some_square bn_ops_ok bn_TS x z Hx H).
Qed.

Theorem sqrt_nil_nonsquare : forall x, canon x -> sqrt x = SqNil ->
  forall r, (r * r) mod q <> mval x.
Proof.
  intros x Hx H r Hr.
  destruct (sqrt_square_correct x Hx (ex_intro _ r Hr)) as (z & Hz & _).
  rewrite H in Hz. discriminate Hz.
Qed.

Print Assumptions legendre_refine.
Print Assumptions sqrt_refine_some.
Print Assumptions sqrt_refine_nil.
Print Assumptions legendre_values.
Print Assumptions legendre_correct.
Print Assumptions sqrt_square_correct.
Print Assumptions sqrt_zero_correct.
Print Assumptions sqrt_nonsquare_correct.
Print Assumptions sqrt_total.
Print Assumptions sqrt_some_square.
Print Assumptions sqrt_nil_nonsquare.

(* C17: concurrent runs of exported (pure) operations. *)
From Coq Require Import String List Bool Arith ZArith Lia.
Import ListNotations.
From Verif Require Import Model.Effects Gen.EffectsIR Proofs.EffectsProofs Proofs.EffectsDocumented Proofs.EffectsVerdictPure.
Open Scope string_scope.

Section Repo.
  (* any layout of the package-level variables in the heap *)
  Variable gl : string -> region.

(* C17: any number of goroutines running exported operations on shared
     read-only arguments / globals and private destinations: race free, and
     every complete schedule gives each thread the observations and results
     it has when run alone. *)
  Theorem c17_concurrent : forall h0 nx0 (ths : nat -> option (thread)) sch h' tss',
      (forall i t, ths i = Some t ->
         In (th_f t) exported_names /\ nx0 <= th_lo t /\
         (forall c, acc gl (th_ps t) c -> c < nx0) /\
         exists n h1 ret, run funcs gl n (th_f t) (th_ps t) h0 (th_lo t) h1 (th_hi t) (th_tr t) ret) ->
      (forall i j ti tj, i <> j -> ths i = Some ti -> ths j = Some tj ->
                         th_hi ti <= th_lo tj \/ th_hi tj <= th_lo ti) ->
      (forall i j ti tj, i <> j -> ths i = Some ti -> ths j = Some tj ->
                         forall c, th_dest documented ti c -> ~ acc gl (th_ps tj) c) ->
      run_sched sch h0 (init_threads (trs_of ths)) = (h', tss') ->
      complete tss' ->
      race_free_tr (trs_of ths) /\
      (forall i, rev (snd (tss' i)) = obs (trs_of ths i) h0) /\
      (forall i c, In c (foot (trs_of ths i)) -> h' c = apply_tr (trs_of ths i) h0 c) /\
      (forall c, (forall i, ~ In c (writes_of (trs_of ths i))) -> h' c = h0 c).
  Proof.
    intros h0 nx0 ths sch h' tss' Hok Har Hpriv Hrun Hc.
    assert (Hok' : forall i t, ths i = Some t -> thread_ok funcs gl documented h0 nx0 t).
    { intros i t Hi. destruct (Hok i t Hi) as (He & Hlo & Hold & Hr).
      repeat split; auto. apply exported_pure, He. }
    split; [eapply race_free; eauto|].
    eapply concurrent_pure_calls; eauto.
  Qed.

  End Repo.

Print Assumptions c17_concurrent.

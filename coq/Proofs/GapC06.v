(* C06 with math/big's ModSqrt as an ORACLE.

   Model/BabyJub.v executes big.Int.ModSqrt as one concrete Tonelli-Shanks
   ([modsqrt]); math/big is free to return the other square root.  Here
   PointFromSignAndY / Decompress are re-stated with the square-root routine
   as a parameter and the three C06 theorems are proved for EVERY routine that
   satisfies the contract "some root in [0,q) if one exists, none otherwise".
   The model's [modsqrt] satisfies the contract, and the parametrised functions
   instantiated with it are the model's functions (by reflexivity), so the
   theorems of CompressProofs.v are instances. *)
From Coq Require Import ZArith List Bool Lia Arith Znumtheory Morphisms Setoid.
From Verif Require Import Lib.Params Lib.Powmod Lib.NumberTheory Lib.Primes Lib.Octets
  Spec.Edwards Model.Outcome Model.Utils Model.SqrtCore Model.BabyJubCore Model.BabyJub
  Proofs.EdwardsField Proofs.TonelliShanks Proofs.OctetsProofs Proofs.UtilsProofs
  Proofs.CompressProofs.
From Verif Require Gen.CurveConsts.
Import ListNotations.
Local Open Scope Z_scope.

Local Opaque q.
Local Notation "x == y" := (eqm q x y) (at level 70, no associativity).

(* ------------------------------------------------------------------ *)
(** * The functions, parametrised by the square-root routine *)

(* exact copy of BabyJub.PointFromSignAndY, [modsqrt] |-> [msqrt] *)
Definition PointFromSignAndY_gen (msqrt : Z -> option Z) (sign : bool) (y : Z) : res point :=
  if y >=? Q then Err
  else
    let y2 := (y * y) mod Q in
    let xa := 1 - y2 in
    let xb := (D * y2) mod Q in
    let xb := A - xb in
    if xb =? 0 then Err
    else
      let xb := modinv xb in
      let x := (xa * xb) mod Q in
      match msqrt x with
      | None => Err
      | Some x =>
          if sign && (x =? 0) then Err else
          let x :=
            if (sign && negb (PointCoordSign x)) || (negb sign && PointCoordSign x)
            then x * Gen.CurveConsts.MinusOne else x in
          Ok (x mod Q, y)
      end.

(* exact copy of BabyJub.Decompress *)
Definition Decompress_gen (msqrt : Z -> option Z) (leBuf : bytes) : res point :=
  let '(sign, y) := UnpackSignY leBuf in PointFromSignAndY_gen msqrt sign y.

Theorem PointFromSignAndY_gen_modsqrt :
  PointFromSignAndY_gen modsqrt = PointFromSignAndY.
Proof. reflexivity. Qed.

Theorem Decompress_gen_modsqrt : Decompress_gen modsqrt = Decompress.
Proof. reflexivity. Qed.

(* ------------------------------------------------------------------ *)
(** * The contract of big.Int.ModSqrt(x, q), q an odd prime *)

(* what the call site needs: the argument is already reduced mod q *)
Definition root_oracle (msqrt : Z -> option Z) : Prop :=
  (forall x z, 0 <= x < q -> msqrt x = Some z -> 0 <= z < q /\ (z * z) mod q = x) /\
  (forall x, 0 <= x < q -> msqrt x = None -> forall r, (r * r) mod q <> x).

(* the contract on arbitrary arguments (math/big reduces the argument first) *)
Definition root_oracle_full (msqrt : Z -> option Z) : Prop :=
  (forall x z, msqrt x = Some z -> 0 <= z < q /\ (z * z) mod q = x mod q) /\
  (forall x, msqrt x = None <-> forall r, (r * r) mod q <> x mod q).

Lemma root_oracle_full_weaken msqrt : root_oracle_full msqrt -> root_oracle msqrt.
Proof.
  intros [HS HN]. split.
  - intros x z Hx E. destruct (HS x z E) as [Hz Hzz].
    rewrite (Z.mod_small x q Hx) in Hzz. split; assumption.
  - intros x Hx E r. pose proof (proj1 (HN x) E r) as H.
    rewrite (Z.mod_small x q Hx) in H. exact H.
Qed.

Lemma modsqrt_mod x : modsqrt (x mod q) = modsqrt x.
Proof.
  unfold modsqrt. rewrite Q_eq. rewrite Z.mod_mod by (pose proof q_pos; lia). reflexivity.
Qed.

Theorem root_oracle_full_modsqrt : root_oracle_full modsqrt.
Proof.
  assert (Hr : forall x, 0 <= x mod q < q) by (intros; apply Z.mod_pos_bound; exact q_pos).
  split.
  - intros x z E. rewrite <- modsqrt_mod in E.
    exact (modsqrt_some (x mod q) z (Hr x) E).
  - intros x. split.
    + intros E. rewrite <- modsqrt_mod in E. exact (modsqrt_none (x mod q) (Hr x) E).
    + intros N. rewrite <- modsqrt_mod.
      destruct (modsqrt_cases (x mod q) (Hr x)) as [(E & _)|(z & _ & _ & Hzz)];
        [exact E|exfalso; exact (N z Hzz)].
Qed.

Theorem root_oracle_modsqrt : root_oracle modsqrt.
Proof. apply root_oracle_full_weaken. exact root_oracle_full_modsqrt. Qed.

(* the other root: an oracle that differs from [modsqrt] wherever possible *)
Definition modsqrt_other (x : Z) : option Z :=
  match modsqrt x with Some z => Some ((- z) mod q) | None => None end.

Lemma modsqrt_other_some x z0 : modsqrt x = Some z0 ->
  modsqrt_other x = Some ((- z0) mod q).
Proof. intros E. unfold modsqrt_other. rewrite E. reflexivity. Qed.

Lemma modsqrt_other_none x : modsqrt x = None -> modsqrt_other x = None.
Proof. intros E. unfold modsqrt_other. rewrite E. reflexivity. Qed.

Lemma neg_square_mod z0 : ((- z0) mod q * ((- z0) mod q)) mod q = (z0 * z0) mod q.
Proof.
  change ((- z0) mod q * ((- z0) mod q) == z0 * z0). rewrite !eqm_mod; ering.
Qed.

Theorem root_oracle_modsqrt_other : root_oracle modsqrt_other.
Proof.
  destruct root_oracle_modsqrt as [HS HN]. split.
  - intros x z Hx E.
    destruct (modsqrt x) as [z0|] eqn:E0.
    + rewrite (modsqrt_other_some x z0 E0) in E.
      assert (Ez : z = (- z0) mod q) by congruence.
      destruct (HS x z0 Hx E0) as [Hz Hzz].
      split; [rewrite Ez; apply Z.mod_pos_bound; exact q_pos|].
      rewrite Ez, neg_square_mod. exact Hzz.
    + rewrite (modsqrt_other_none x E0) in E. discriminate E.
  - intros x Hx E.
    destruct (modsqrt x) as [z0|] eqn:E0.
    + rewrite (modsqrt_other_some x z0 E0) in E. discriminate E.
    + exact (HN x Hx E0).
Qed.

(* ------------------------------------------------------------------ *)
(** * The "division by zero" branch is dead (on the model's own expression) *)

Theorem xb_never_zero_all : forall y, A - (D * ((y * y) mod Q)) mod Q <> 0.
Proof.
  intros y. rewrite Q_eq, A_eq, D_eq. exact (den_int_nonzero y).
Qed.

Theorem xb_never_zero : forall y, 0 <= y < q -> A - (D * ((y * y) mod Q)) mod Q <> 0.
Proof. intros y _. apply xb_never_zero_all. Qed.

(* ------------------------------------------------------------------ *)
(** * PointFromSignAndY_gen *)

Section Oracle.
Variable msqrt : Z -> option Z.
Hypothesis Hor : root_oracle msqrt.

Lemma msqrt_cases x : 0 <= x < q ->
  (msqrt x = None /\ forall r, (r * r) mod q <> x) \/
  (exists z, msqrt x = Some z /\ 0 <= z < q /\ (z * z) mod q = x).
Proof.
  intros Hx. destruct Hor as [HS HN]. destruct (msqrt x) as [z|] eqn:E.
  - right. exists z. split; [reflexivity|]. exact (HS x z Hx E).
  - left. split; [reflexivity|]. exact (HN x Hx E).
Qed.

Lemma pfsy_gen_big sign y : q <= y -> PointFromSignAndY_gen msqrt sign y = Err.
Proof.
  intros Hy. unfold PointFromSignAndY_gen. rewrite Q_eq.
  rewrite (proj2 (Z.geb_le y q)) by exact Hy. reflexivity.
Qed.

Lemma pfsy_gen_small sign y : y < q ->
  PointFromSignAndY_gen msqrt sign y =
  match msqrt (xsq y) with
  | None => Err
  | Some z => if sign && (z =? 0) then Err else Ok (select sign z, y)
  end.
Proof.
  intros Hy. unfold PointFromSignAndY_gen, modinv. rewrite MinusOne_eq, Q_eq, A_eq, D_eq.
  assert (E : (y >=? q) = false).
  { rewrite Z.geb_leb. apply Z.leb_gt. exact Hy. }
  rewrite E. cbv zeta. fold (den_int y).
  rewrite (proj2 (Z.eqb_neq (den_int y) 0) (den_int_nonzero y)).
  fold (xsq y). reflexivity.
Qed.

(* needs no hypothesis on the oracle at all *)
Theorem PointFromSignAndY_gen_never_panics sign y :
  PointFromSignAndY_gen msqrt sign y <> Panic.
Proof.
  destruct (Z.lt_ge_cases y q) as [Hy|Hy].
  - rewrite pfsy_gen_small by exact Hy.
    destruct (msqrt (xsq y)) as [z|]; [|discriminate].
    destruct (sign && (z =? 0)); discriminate.
  - rewrite pfsy_gen_big by exact Hy. discriminate.
Qed.

Lemma pfsy_gen_sound sign y P : 0 <= y -> PointFromSignAndY_gen msqrt sign y = Ok P ->
  oc P /\ can P /\ snd P = y /\ PointCoordSign (fst P) = sign.
Proof.
  intros Hy0 H. destruct (Z.lt_ge_cases y q) as [Hy|Hy];
    [|rewrite pfsy_gen_big in H by exact Hy; discriminate].
  rewrite pfsy_gen_small in H by exact Hy.
  destruct (msqrt (xsq y)) as [z|] eqn:Es; [|discriminate].
  destruct (proj1 Hor _ _ (xsq_range y) Es) as [Hz Hzz].
  destruct (sign && (z =? 0)) eqn:E0; [discriminate|].
  assert (P = (select sign z, y)) by congruence. subst P. clear H.
  destruct (select_spec sign z Hz E0) as (Hr & Hsq & Hsg).
  cbn [fst snd]. split; [|split; [|split]].
  - apply on_curve_iff. rewrite Hsq. unfold eqm. rewrite Hzz.
    symmetry. apply Z.mod_small. apply xsq_range.
  - unfold can, canonical. split; [exact Hr|lia].
  - reflexivity.
  - exact Hsg.
Qed.

Lemma pfsy_gen_complete x y : oc (x, y) -> can (x, y) ->
  PointFromSignAndY_gen msqrt (PointCoordSign x) y = Ok (x, y).
Proof.
  intros Hoc [Hx Hy]. rewrite pfsy_gen_small by lia.
  pose proof (on_curve_sq x y Hoc) as Hxx.
  destruct (msqrt_cases (xsq y) (xsq_range y)) as [(_ & N)|(z & -> & Hz & Hzz)];
    [exfalso; exact (N x Hxx)|].
  assert (Hsq : z * z == x * x) by (unfold eqm; rewrite Hzz, Hxx; reflexivity).
  assert (E0 : (PointCoordSign x && (z =? 0)) = false).
  { destruct (PointCoordSign x) eqn:Esx; [|reflexivity]. cbn [andb].
    apply Z.eqb_neq. intros ->.
    rewrite sign_spec in Esx. apply Z.ltb_lt in Esx. pose proof hq_nonneg.
    assert (Hx0 : x * x == 0) by (rewrite <- Hsq; ering).
    destruct (eqm_mul_zero q q_prime x x Hx0) as [H0|H0];
      apply (proj1 (eqm_zero_iff q x)) in H0; rewrite Z.mod_small in H0 by exact Hx; lia. }
  rewrite E0.
  destruct (select_spec _ z Hz E0) as (Hr & Hsq' & Hsg).
  f_equal. f_equal. apply sign_unique; try assumption.
  rewrite Hsq'. exact Hsq.
Qed.

(* ------------------------------------------------------------------ *)
(** * The C06 theorems for every oracle *)

Theorem decompress_compress_gen P : oc P -> can P ->
  Decompress_gen msqrt (Compress P) = Ok P.
Proof.
  destruct P as [x y]. intros Hoc Hcan. unfold Decompress_gen, Compress.
  rewrite unpack_pack by (apply can_y_lt_255; apply Hcan).
  apply pfsy_gen_complete; assumption.
Qed.

Theorem decompress_sound_gen b P : length b = 32%nat -> Forall is_byte b ->
  Decompress_gen msqrt b = Ok P -> oc P /\ can P /\ Compress P = b.
Proof.
  intros Hl Hb H. unfold Decompress_gen in H.
  pose proof (pack_unpack b Hl Hb) as Hpu.
  pose proof (unpack_spec b Hl Hb) as Hu.
  destruct (UnpackSignY b) as [sign y]. cbn [fst snd] in Hpu.
  assert (Hy0 : 0 <= y).
  { injection Hu as _ ->. apply Z.mod_pos_bound. reflexivity. }
  destruct (pfsy_gen_sound sign y P Hy0 H) as (Hoc & Hcan & Hy & Hs).
  split; [exact Hoc|]. split; [exact Hcan|].
  destruct P as [x' y']. cbn [fst snd] in *. subst y'.
  unfold Compress. rewrite Hs. exact Hpu.
Qed.

Theorem decompress_ok_iff_gen b P : length b = 32%nat -> Forall is_byte b ->
  (Decompress_gen msqrt b = Ok P <-> oc P /\ can P /\ Compress P = b).
Proof.
  intros Hl Hb. split.
  - apply decompress_sound_gen; assumption.
  - intros (Hoc & Hcan & <-). apply decompress_compress_gen; assumption.
Qed.

Theorem decompress_total_gen b : Decompress_gen msqrt b <> Panic.
Proof.
  unfold Decompress_gen. destruct (UnpackSignY b) as [sign y].
  apply PointFromSignAndY_gen_never_panics.
Qed.

Corollary decompress_err_iff_gen b : length b = 32%nat -> Forall is_byte b ->
  (Decompress_gen msqrt b = Err <-> ~ exists P, oc P /\ can P /\ Compress P = b).
Proof.
  intros Hl Hb. split.
  - intros H (P & HP). apply (decompress_ok_iff_gen b P Hl Hb) in HP. congruence.
  - intros H. destruct (Decompress_gen msqrt b) as [P| |] eqn:E.
    + exfalso. apply H. exists P. apply (decompress_ok_iff_gen b P Hl Hb). exact E.
    + reflexivity.
    + exfalso. exact (decompress_total_gen b E).
Qed.

End Oracle.

(* ------------------------------------------------------------------ *)
(** * The result does not depend on the oracle *)

Theorem Decompress_gen_oracle_independent ms1 ms2 b :
  root_oracle ms1 -> root_oracle ms2 -> length b = 32%nat -> Forall is_byte b ->
  Decompress_gen ms1 b = Decompress_gen ms2 b.
Proof.
  intros H1 H2 Hl Hb.
  destruct (Decompress_gen ms1 b) as [P| |] eqn:E1.
  - apply (decompress_ok_iff_gen ms1 H1 b P Hl Hb) in E1.
    symmetry. apply (decompress_ok_iff_gen ms2 H2 b P Hl Hb). exact E1.
  - symmetry. apply (decompress_err_iff_gen ms2 H2 b Hl Hb).
    apply (decompress_err_iff_gen ms1 H1 b Hl Hb). exact E1.
  - exfalso. exact (decompress_total_gen ms1 b E1).
Qed.

(* the existing theorems are the [modsqrt] instances *)
Corollary decompress_compress_instance P : oc P -> can P -> Decompress (Compress P) = Ok P.
Proof. exact (decompress_compress_gen modsqrt root_oracle_modsqrt P). Qed.

Corollary decompress_sound_instance b P : length b = 32%nat -> Forall is_byte b ->
  Decompress b = Ok P -> oc P /\ can P /\ Compress P = b.
Proof. exact (decompress_sound_gen modsqrt root_oracle_modsqrt b P). Qed.

(* Decompress of the model = Decompress with math/big returning the other root *)
Corollary Decompress_other_root b : length b = 32%nat -> Forall is_byte b ->
  Decompress_gen modsqrt_other b = Decompress b.
Proof.
  intros Hl Hb. rewrite <- Decompress_gen_modsqrt.
  apply Decompress_gen_oracle_independent;
    [exact root_oracle_modsqrt_other|exact root_oracle_modsqrt|assumption|assumption].
Qed.

Print Assumptions PointFromSignAndY_gen_modsqrt.
Print Assumptions root_oracle_modsqrt.
Print Assumptions root_oracle_full_modsqrt.
Print Assumptions root_oracle_modsqrt_other.
Print Assumptions xb_never_zero.
Print Assumptions decompress_compress_gen.
Print Assumptions decompress_sound_gen.
Print Assumptions decompress_ok_iff_gen.
Print Assumptions decompress_err_iff_gen.
Print Assumptions decompress_total_gen.
Print Assumptions Decompress_gen_oracle_independent.
Print Assumptions Decompress_other_root.

(* C05, part 2: Montgomery multiplication (CIOS, 4 limbs) of /repo/ff/element.go
   and its corollaries Square, ToMont, FromMont, SetUint64. *)
From Coq Require Import ZArith List Lia Zdiv Morphisms Setoid Bool.
From Verif Require Import Lib.Params Lib.Words Model.FfLimbs Proofs.FfWords Proofs.FfEl.
Import ListNotations.
Local Open Scope Z_scope.

Local Ltac Zify.zify_post_hook ::= Z.div_mod_to_equations.
Local Opaque q.

(* ------------------------------------------------------------------ *)
(** * One CIOS round, pure arithmetic

   p_i stands for v*y_i and n_i for m*q_i; everything is linear. *)

Lemma cios_arith : forall q0 q1 q2 q3 y0 y1 y2 y3 t0 t1 t2 t3 p0 p1 p2 p3 n0 n1 n2 n3
    c1a c0a c2a c1b c0b c2b t0' c1c c0c c2c t1' c1d c0d h t2',
  0 <= p0 <= (W - 1) * y0 -> 0 <= p1 <= (W - 1) * y1 ->
  0 <= p2 <= (W - 1) * y2 -> 0 <= p3 <= (W - 1) * y3 ->
  0 <= n0 <= (W - 1) * q0 -> 0 <= n1 <= (W - 1) * q1 ->
  0 <= n2 <= (W - 1) * q2 -> 0 <= n3 <= (W - 1) * q3 ->
  c1a * W + c0a = p0 + t0 ->
  c2a * W = n0 + c0a ->
  c1b * W + c0b = p1 + c1a + t1 ->
  c2b * W + t0' = n1 + c2a + c0b ->
  c1c * W + c0c = p2 + c1b + t2 ->
  c2c * W + t1' = n2 + c2b + c0c ->
  c1d * W + c0d = p3 + c1c + t3 ->
  h * W + t2' = n3 + c0d + c2c + c1d * W ->
  t0 + W * (t1 + W * (t2 + W * t3))
    < y0 + W * (y1 + W * (y2 + W * y3)) + (q0 + W * (q1 + W * (q2 + W * q3))) ->
  (t0' + W * (t1' + W * (t2' + W * h))) * W
    = t0 + W * (t1 + W * (t2 + W * t3))
      + (p0 + W * (p1 + W * (p2 + W * p3)))
      + (n0 + W * (n1 + W * (n2 + W * n3)))
  /\ t0' + W * (t1' + W * (t2' + W * h))
     < y0 + W * (y1 + W * (y2 + W * y3)) + (q0 + W * (q1 + W * (q2 + W * q3))).
Proof.
  intros. unfold W in *. lia.
Qed.

(* ------------------------------------------------------------------ *)
(** * The rounds as functions; the model is their composition *)

Definition round0 (v y0 y1 y2 y3 : Z) : el :=
  let '(c1, c0) := mul64 v y0 in
  let m := wmul c0 qInvNeg in
  let c2 := madd0 m q0 c0 in
  let '(c1, c0) := madd1 v y1 c1 in
  let '(c2, t0) := madd2 m q1 c2 c0 in
  let '(c1, c0) := madd1 v y2 c1 in
  let '(c2, t1) := madd2 m q2 c2 c0 in
  let '(c1, c0) := madd1 v y3 c1 in
  let '(t3, t2) := madd3 m q3 c0 c2 c1 in
  (t0, t1, t2, t3).

Definition roundN (v y0 y1 y2 y3 : Z) (t : el) : el :=
  let '(t0, t1, t2, t3) := t in
  let '(c1, c0) := madd1 v y0 t0 in
  let m := wmul c0 qInvNeg in
  let c2 := madd0 m q0 c0 in
  let '(c1, c0) := madd2 v y1 c1 t1 in
  let '(c2, t0) := madd2 m q1 c2 c0 in
  let '(c1, c0) := madd2 v y2 c1 t2 in
  let '(c2, t1) := madd2 m q2 c2 c0 in
  let '(c1, c0) := madd2 v y3 c1 t3 in
  let '(t3, t2) := madd3 m q3 c0 c2 c1 in
  (t0, t1, t2, t3).

Lemma mulGeneric_rounds : forall x0 x1 x2 x3 y0 y1 y2 y3,
  mulGeneric (x0, x1, x2, x3) (y0, y1, y2, y3) =
  cond_sub_q (roundN x3 y0 y1 y2 y3 (roundN x2 y0 y1 y2 y3
               (roundN x1 y0 y1 y2 y3 (round0 x0 y0 y1 y2 y3)))).
Proof.
  intros. unfold mulGeneric, round0.
  destruct (mul64 x0 y0) as [c1 c0].
  cbv zeta.
  destruct (madd1 x0 y1 c1) as [c1' c0'].
  destruct (madd2 _ q1 _ c0') as [c2 t0].
  destruct (madd1 x0 y2 c1') as [c1'' c0''].
  destruct (madd2 _ q2 c2 c0'') as [c2' t1].
  destruct (madd1 x0 y3 c1'') as [c1''' c0'''].
  destruct (madd3 _ q3 c0''' c2' c1''') as [t3 t2].
  clear. unfold roundN at 3.
  destruct (madd1 x1 y0 t0) as [c1 c0].
  cbv zeta.
  destruct (madd2 x1 y1 c1 t1) as [c1' c0'].
  destruct (madd2 _ q1 _ c0') as [c2 t0'].
  destruct (madd2 x1 y2 c1' t2) as [c1'' c0''].
  destruct (madd2 _ q2 c2 c0'') as [c2' t1'].
  destruct (madd2 x1 y3 c1'' t3) as [c1''' c0'''].
  destruct (madd3 _ q3 c0''' c2' c1''') as [t3' t2'].
  clear. unfold roundN at 2.
  destruct (madd1 x2 y0 t0') as [c1 c0].
  cbv zeta.
  destruct (madd2 x2 y1 c1 t1') as [c1' c0'].
  destruct (madd2 _ q1 _ c0') as [c2 t0].
  destruct (madd2 x2 y2 c1' t2') as [c1'' c0''].
  destruct (madd2 _ q2 c2 c0'') as [c2' t1].
  destruct (madd2 x2 y3 c1'' t3') as [c1''' c0'''].
  destruct (madd3 _ q3 c0''' c2' c1''') as [t3 t2].
  clear. unfold roundN.
  destruct (madd1 x3 y0 t0) as [c1 c0].
  cbv zeta.
  destruct (madd2 x3 y1 c1 t1) as [c1' c0'].
  destruct (madd2 _ q1 _ c0') as [c2 t0'].
  destruct (madd2 x3 y2 c1' t2) as [c1'' c0''].
  destruct (madd2 _ q2 c2 c0'') as [c2' t1'].
  destruct (madd2 x3 y3 c1'' t3) as [c1''' c0'''].
  destruct (madd3 _ q3 c0''' c2' c1''') as [t3' t2'].
  reflexivity.
Qed.

(* From here on mulGeneric is only used through [mulGeneric_rounds]; unfolding
   it on symbolic operands (by the unifier or by the kernel at Qed) explodes. *)
Local Opaque mulGeneric.

(* ------------------------------------------------------------------ *)
(** * Correctness of one round *)

Local Ltac u64s :=
  match goal with
  | |- u64 _ => assumption
  | |- u64 q0 => exact (proj1 q_limbs_u64)
  | |- u64 q1 => exact (proj1 (proj2 q_limbs_u64))
  | |- u64 q2 => exact (proj1 (proj2 (proj2 q_limbs_u64)))
  | |- u64 q3 => exact (proj2 (proj2 (proj2 q_limbs_u64)))
  end.

Lemma u64_prod_le : forall a b, u64 a -> u64 b -> 0 <= a * b <= (W - 1) * b.
Proof.
  unfold u64. intros a b Ha Hb. split.
  - apply Z.mul_nonneg_nonneg; lia.
  - apply Z.mul_le_mono_nonneg_r; lia.
Qed.

Lemma top_limb_bound : forall a b c h B,
  0 <= a -> 0 <= b -> 0 <= c -> 0 <= h ->
  a + W * (b + W * (c + W * h)) < B -> B <= WW -> h < W.
Proof. intros a b c h B Ha Hb Hc Hh H HB. rewrite WW_eq in HB. unfold W in *. lia. Qed.

Lemma roundN_spec : forall v y0 y1 y2 y3 t0 t1 t2 t3,
  u64 v -> limbs_ok (y0, y1, y2, y3) -> limbs_ok (t0, t1, t2, t3) ->
  val (y0, y1, y2, y3) < q ->
  val (t0, t1, t2, t3) < val (y0, y1, y2, y3) + q ->
  exists m, u64 m /\
    limbs_ok (roundN v y0 y1 y2 y3 (t0, t1, t2, t3)) /\
    val (roundN v y0 y1 y2 y3 (t0, t1, t2, t3)) * W
      = val (t0, t1, t2, t3) + v * val (y0, y1, y2, y3) + m * q /\
    val (roundN v y0 y1 y2 y3 (t0, t1, t2, t3)) < val (y0, y1, y2, y3) + q.
Proof.
  intros v y0 y1 y2 y3 t0 t1 t2 t3 Hv (Y0 & Y1 & Y2 & Y3) (T0 & T1 & T2 & T3) HY HT.
  unfold roundN.
  destruct (madd1 v y0 t0) as [c1a c0a] eqn:E1.
  apply madd1_spec in E1; [ | u64s .. ]. destruct E1 as (E1 & U1a & U0a).
  cbv zeta.
  destruct (mont_C_spec c0a U0a) as (Hm & U2a & E2).
  remember (wmul c0a qInvNeg) as m eqn:Em. clear Em.
  remember (madd0 m q0 c0a) as c2a eqn:Ec2a. clear Ec2a.
  destruct (madd2 v y1 c1a t1) as [c1b c0b] eqn:E3.
  apply madd2_spec in E3; [ | u64s .. ]. destruct E3 as (E3 & U1b & U0b).
  destruct (madd2 m q1 c2a c0b) as [c2b t0'] eqn:E4.
  apply madd2_spec in E4; [ | u64s .. ]. destruct E4 as (E4 & U2b & Ut0').
  destruct (madd2 v y2 c1b t2) as [c1c c0c] eqn:E5.
  apply madd2_spec in E5; [ | u64s .. ]. destruct E5 as (E5 & U1c & U0c).
  destruct (madd2 m q2 c2b c0c) as [c2c t1'] eqn:E6.
  apply madd2_spec in E6; [ | u64s .. ]. destruct E6 as (E6 & U2c & Ut1').
  destruct (madd2 v y3 c1c t3) as [c1d c0d] eqn:E7.
  apply madd2_spec in E7; [ | u64s .. ]. destruct E7 as (E7 & U1d & U0d).
  destruct (madd3 m q3 c0d c2c c1d) as [t3' t2'] eqn:E8.
  apply madd3_spec in E8; [ | u64s .. ]. destruct E8 as (h & E8 & Eh & Hh & Ut2').
  exists m. split; [ exact Hm | ].
  rewrite !val_eq in *. rewrite qEl_eq in HY, HT |- *.
  destruct q_limbs_u64 as (Q0 & Q1 & Q2 & Q3).
  destruct (cios_arith q0 q1 q2 q3 y0 y1 y2 y3 t0 t1 t2 t3
              (v * y0) (v * y1) (v * y2) (v * y3) (m * q0) (m * q1) (m * q2) (m * q3)
              c1a c0a c2a c1b c0b c2b t0' c1c c0c c2c t1' c1d c0d h t2')
    as [HA HB];
    try (apply u64_prod_le; assumption); try assumption.
  assert (Hhw : h < W).
  { apply (top_limb_bound t0' t1' t2' h _ ltac:(unfold u64 in *; lia)
             ltac:(unfold u64 in *; lia) ltac:(unfold u64 in *; lia) Hh HB).
    pose proof q_two_lt_R as H2. rewrite qEl_eq in H2. lia. }
  rewrite (Z.mod_small h W) in Eh by lia. subst t3'.
  split; [ cbn [limbs_ok]; unfold u64 in *; repeat split; lia | ].
  split; [ | exact HB ].
  rewrite HA. ring.
Qed.

Lemma round0_spec : forall v y0 y1 y2 y3,
  u64 v -> limbs_ok (y0, y1, y2, y3) ->
  val (y0, y1, y2, y3) < q ->
  exists m, u64 m /\
    limbs_ok (round0 v y0 y1 y2 y3) /\
    val (round0 v y0 y1 y2 y3) * W = v * val (y0, y1, y2, y3) + m * q /\
    val (round0 v y0 y1 y2 y3) < val (y0, y1, y2, y3) + q.
Proof.
  intros v y0 y1 y2 y3 Hv (Y0 & Y1 & Y2 & Y3) HY.
  unfold round0.
  destruct (mul64 v y0) as [c1a c0a] eqn:E1.
  apply mul64_spec in E1; [ | u64s .. ]. destruct E1 as (E1 & U1a & U0a).
  cbv zeta.
  destruct (mont_C_spec c0a U0a) as (Hm & U2a & E2).
  remember (wmul c0a qInvNeg) as m eqn:Em. clear Em.
  remember (madd0 m q0 c0a) as c2a eqn:Ec2a. clear Ec2a.
  destruct (madd1 v y1 c1a) as [c1b c0b] eqn:E3.
  apply madd1_spec in E3; [ | u64s .. ]. destruct E3 as (E3 & U1b & U0b).
  destruct (madd2 m q1 c2a c0b) as [c2b t0'] eqn:E4.
  apply madd2_spec in E4; [ | u64s .. ]. destruct E4 as (E4 & U2b & Ut0').
  destruct (madd1 v y2 c1b) as [c1c c0c] eqn:E5.
  apply madd1_spec in E5; [ | u64s .. ]. destruct E5 as (E5 & U1c & U0c).
  destruct (madd2 m q2 c2b c0c) as [c2c t1'] eqn:E6.
  apply madd2_spec in E6; [ | u64s .. ]. destruct E6 as (E6 & U2c & Ut1').
  destruct (madd1 v y3 c1c) as [c1d c0d] eqn:E7.
  apply madd1_spec in E7; [ | u64s .. ]. destruct E7 as (E7 & U1d & U0d).
  destruct (madd3 m q3 c0d c2c c1d) as [t3' t2'] eqn:E8.
  apply madd3_spec in E8; [ | u64s .. ]. destruct E8 as (h & E8 & Eh & Hh & Ut2').
  exists m. split; [ exact Hm | ].
  rewrite !val_eq in *. rewrite qEl_eq in HY |- *.
  destruct q_limbs_u64 as (Q0 & Q1 & Q2 & Q3).
  destruct (cios_arith q0 q1 q2 q3 y0 y1 y2 y3 0 0 0 0
              (v * y0) (v * y1) (v * y2) (v * y3) (m * q0) (m * q1) (m * q2) (m * q3)
              c1a c0a c2a c1b c0b c2b t0' c1c c0c c2c t1' c1d c0d h t2')
    as [HA HB];
    try (apply u64_prod_le; assumption); try assumption; try lia.
  { unfold u64, W in *. lia. }
  assert (Hhw : h < W).
  { apply (top_limb_bound t0' t1' t2' h _ ltac:(unfold u64 in *; lia)
             ltac:(unfold u64 in *; lia) ltac:(unfold u64 in *; lia) Hh HB).
    pose proof q_two_lt_R as H2. rewrite qEl_eq in H2. lia. }
  rewrite (Z.mod_small h W) in Eh by lia. subst t3'.
  split; [ cbn [limbs_ok]; unfold u64 in *; repeat split; lia | ].
  split; [ | exact HB ].
  rewrite HA. ring.
Qed.

(* ------------------------------------------------------------------ *)
(** * Multiplication *)

(* x may be ANY four 64-bit words (SetUint64 feeds a raw word, ToMont an
   arbitrary element): only y < q is needed for T < y + q < 2q. *)
Theorem mul_correct_gen : forall x y, limbs_ok x -> canon y ->
  canon (mulGeneric x y) /\
  val (mulGeneric x y) * WW ==q val x * val y.
Proof.
  intros [[[x0 x1] x2] x3] [[[y0 y1] y2] y3] (X0 & X1 & X2 & X3) Hy.
  pose proof (canon_limbs _ Hy) as Ly. pose proof (canon_val _ Hy) as Vy.
  rewrite mulGeneric_rounds.
  destruct (round0_spec x0 y0 y1 y2 y3 X0 Ly (proj2 Vy)) as (m0 & _ & L1 & E1 & B1).
  remember (round0 x0 y0 y1 y2 y3) as T1 eqn:ET1. clear ET1.
  destruct T1 as [[[a0 a1] a2] a3].
  destruct (roundN_spec x1 y0 y1 y2 y3 a0 a1 a2 a3 X1 Ly L1 (proj2 Vy) B1)
    as (m1 & _ & L2 & E2 & B2).
  remember (roundN x1 y0 y1 y2 y3 (a0, a1, a2, a3)) as T2 eqn:ET2. clear ET2.
  destruct T2 as [[[b0 b1] b2] b3].
  destruct (roundN_spec x2 y0 y1 y2 y3 b0 b1 b2 b3 X2 Ly L2 (proj2 Vy) B2)
    as (m2 & _ & L3 & E3 & B3).
  remember (roundN x2 y0 y1 y2 y3 (b0, b1, b2, b3)) as T3 eqn:ET3. clear ET3.
  destruct T3 as [[[c0 c1] c2] c3].
  destruct (roundN_spec x3 y0 y1 y2 y3 c0 c1 c2 c3 X3 Ly L3 (proj2 Vy) B3)
    as (m3 & _ & L4 & E4 & B4).
  remember (roundN x3 y0 y1 y2 y3 (c0, c1, c2, c3)) as T4 eqn:ET4. clear ET4.
  destruct (cond_sub_q_spec T4 L4 ltac:(lia)) as (Hc & _ & Hv).
  split; [ exact Hc | ].
  rewrite Hv.
  apply (eqq_intro _ _ (m0 + W * (m1 + W * (m2 + W * m3)))).
  rewrite (val_eq x0 x1 x2 x3).
  remember (val (y0, y1, y2, y3)) as Y eqn:EY. clear EY.
  remember (val T4) as V4. remember (val (c0, c1, c2, c3)) as V3.
  remember (val (b0, b1, b2, b3)) as V2. remember (val (a0, a1, a2, a3)) as V1.
  rewrite WW_eq. unfold W in *. lia.
Qed.

Lemma mval_mul_gen : forall x y, limbs_ok x -> canon y ->
  mval (mulGeneric x y) = (mval x * mval y) mod q.
Proof.
  intros x y Hx Hy. destruct (mul_correct_gen x y Hx Hy) as [_ H].
  apply eqq_R_cancel in H.
  apply eqq_mod_eq; [ apply mval_range | ].
  rewrite (mval_eqq (mulGeneric x y)), H, (mval_eqq x), (mval_eqq y).
  replace (val x * val y * Rinv * Rinv) with (val x * Rinv * (val y * Rinv)) by ring.
  reflexivity.
Qed.

Theorem mul_correct : forall x y, canon x -> canon y ->
  canon (mulGeneric x y) /\ mval (mulGeneric x y) = (mval x * mval y) mod q.
Proof.
  intros x y Hx Hy. split.
  - apply mul_correct_gen; [ apply canon_limbs; exact Hx | exact Hy ].
  - apply mval_mul_gen; [ apply canon_limbs; exact Hx | exact Hy ].
Qed.
Print Assumptions mul_correct.

Theorem square_correct : forall x, canon x ->
  canon (square x) /\ mval (square x) = (mval x * mval x) mod q.
Proof. intros x Hx. unfold square. apply mul_correct; exact Hx. Qed.
Print Assumptions square_correct.

(* ToMont: z (any four words) times R^2, i.e. the Montgomery form of val z *)
Theorem toMont_correct_gen : forall z, limbs_ok z ->
  canon (toMont z) /\ mval (toMont z) = val z mod q.
Proof.
  intros z Hz. unfold toMont. split.
  - apply mul_correct_gen; [ exact Hz | exact canon_rSquare ].
  - rewrite mval_mul_gen by (exact Hz || exact canon_rSquare).
    rewrite mval_rSquare.
    apply eqq_mod_eq; [ apply Z.mod_pos_bound; exact q_pos' | ].
    rewrite eqq_mod. rewrite (eqq_mod R). rewrite mval_eqq.
    replace (val z * Rinv * R) with (val z * (WW * Rinv)) by (rewrite R_WW; ring).
    rewrite eqq_RRinv. rewrite Z.mul_1_r. reflexivity.
Qed.

Theorem toMont_correct : forall z, canon z ->
  canon (toMont z) /\ mval (toMont z) = val z mod q.
Proof. intros z Hz. apply toMont_correct_gen. apply canon_limbs. exact Hz. Qed.
Print Assumptions toMont_correct.

Lemma val_word : forall v, val (v, 0, 0, 0) = v.
Proof. intros v. rewrite val_eq. ring. Qed.

Theorem setUint64_correct : forall v, u64 v ->
  canon (setUint64 v) /\ mval (setUint64 v) = v mod q.
Proof.
  intros v Hv.
  assert (Hl : limbs_ok (v, 0, 0, 0)).
  { unfold limbs_ok. unfold u64, W in *. repeat split; lia. }
  pose proof (toMont_correct_gen (v, 0, 0, 0) Hl) as H.
  rewrite val_word in H. exact H.
Qed.
Print Assumptions setUint64_correct.

(* ------------------------------------------------------------------ *)
(** * FromMont *)

Definition fm_block (z : el) : el :=
  let '(z0, z1, z2, z3) := z in
  let m := wmul z0 qInvNeg in
  let C := madd0 m q0 z0 in
  let '(C, z0) := madd2 m q1 z1 C in
  let '(C, z1) := madd2 m q2 z2 C in
  let '(C, z2) := madd2 m q3 z3 C in
  let z3 := C in
  (z0, z1, z2, z3).

Lemma fromMontGeneric_blocks : forall z,
  fromMontGeneric z = cond_sub_q (fm_block (fm_block (fm_block (fm_block z)))).
Proof.
  intros [[[z0 z1] z2] z3]. unfold fromMontGeneric.
  unfold fm_block at 4. cbv zeta.
  destruct (madd2 _ q1 z1 _) as [C z0'].
  destruct (madd2 _ q2 z2 C) as [C' z1'].
  destruct (madd2 _ q3 z3 C') as [C'' z2'].
  clear. unfold fm_block at 3. cbv zeta.
  destruct (madd2 _ q1 z1' _) as [C z0].
  destruct (madd2 _ q2 z2' C) as [C' z1].
  destruct (madd2 _ q3 C'' C') as [C''' z2].
  clear. unfold fm_block at 2. cbv zeta.
  destruct (madd2 _ q1 z1 _) as [C z0'].
  destruct (madd2 _ q2 z2 C) as [C' z1'].
  destruct (madd2 _ q3 C''' C') as [C'' z2'].
  clear. unfold fm_block. cbv zeta.
  destruct (madd2 _ q1 z1' _) as [C z0].
  destruct (madd2 _ q2 z2' C) as [C' z1].
  destruct (madd2 _ q3 C'' C') as [C''' z2].
  reflexivity.
Qed.

Lemma fm_arith : forall q0 q1 q2 q3 z0 z1 z2 z3 n0 n1 n2 n3 Ca Cb z0' Cc z1' Cd z2',
  0 <= n0 <= (W - 1) * q0 -> 0 <= n1 <= (W - 1) * q1 ->
  0 <= n2 <= (W - 1) * q2 -> 0 <= n3 <= (W - 1) * q3 ->
  Ca * W = n0 + z0 ->
  Cb * W + z0' = n1 + z1 + Ca ->
  Cc * W + z1' = n2 + z2 + Cb ->
  Cd * W + z2' = n3 + z3 + Cc ->
  z0 + W * (z1 + W * (z2 + W * z3)) < q0 + W * (q1 + W * (q2 + W * q3)) ->
  (z0' + W * (z1' + W * (z2' + W * Cd))) * W
    = z0 + W * (z1 + W * (z2 + W * z3)) + (n0 + W * (n1 + W * (n2 + W * n3)))
  /\ z0' + W * (z1' + W * (z2' + W * Cd)) < q0 + W * (q1 + W * (q2 + W * q3)).
Proof. intros. unfold W in *. lia. Qed.

Lemma fm_block_spec : forall z, canon z ->
  exists m, canon (fm_block z) /\ val (fm_block z) * W = val z + m * q.
Proof.
  intros [[[z0 z1] z2] z3] Hz.
  pose proof (canon_limbs _ Hz) as (Z0 & Z1 & Z2 & Z3). pose proof (canon_val _ Hz) as Vz.
  unfold fm_block. cbv zeta.
  destruct (mont_C_spec z0 Z0) as (Hm & UCa & Ea).
  remember (wmul z0 qInvNeg) as m eqn:Em. clear Em.
  remember (madd0 m q0 z0) as Ca eqn:ECa. clear ECa.
  destruct (madd2 m q1 z1 Ca) as [Cb z0'] eqn:Eb.
  apply madd2_spec in Eb; [ | u64s .. ]. destruct Eb as (Eb & UCb & Uz0').
  destruct (madd2 m q2 z2 Cb) as [Cc z1'] eqn:Ec.
  apply madd2_spec in Ec; [ | u64s .. ]. destruct Ec as (Ec & UCc & Uz1').
  destruct (madd2 m q3 z3 Cc) as [Cd z2'] eqn:Ed.
  apply madd2_spec in Ed; [ | u64s .. ]. destruct Ed as (Ed & UCd & Uz2').
  exists m.
  destruct q_limbs_u64 as (Q0 & Q1 & Q2 & Q3).
  rewrite !val_eq in *. rewrite qEl_eq in Vz |- *.
  destruct (fm_arith q0 q1 q2 q3 z0 z1 z2 z3 (m * q0) (m * q1) (m * q2) (m * q3)
              Ca Cb z0' Cc z1' Cd z2') as [HA HB];
    try (apply u64_prod_le; assumption); try assumption; try lia.
  split.
  - apply canon_intro; [ cbn [limbs_ok]; tauto | ].
    rewrite val_eq. exact HB.
  - rewrite HA. ring.
Qed.

Theorem fromMont_correct : forall z, canon z ->
  canon (fromMontGeneric z) /\ val (fromMontGeneric z) = mval z.
Proof.
  intros z Hz. rewrite fromMontGeneric_blocks.
  destruct (fm_block_spec z Hz) as (m0 & C1 & E1).
  remember (fm_block z) as z1 eqn:Ez1. clear Ez1.
  destruct (fm_block_spec z1 C1) as (m1 & C2 & E2).
  remember (fm_block z1) as z2 eqn:Ez2. clear Ez2.
  destruct (fm_block_spec z2 C2) as (m2 & C3 & E3).
  remember (fm_block z2) as z3 eqn:Ez3. clear Ez3.
  destruct (fm_block_spec z3 C3) as (m3 & C4 & E4).
  remember (fm_block z3) as z4 eqn:Ez4. clear Ez4.
  rewrite (cond_sub_q_canon z4 C4). split; [ exact C4 | ].
  unfold mval. apply eqq_mod_eq; [ apply canon_val; exact C4 | ].
  apply eqq_R_cancel.
  apply (eqq_intro _ _ (m0 + W * (m1 + W * (m2 + W * m3)))).
  remember (val z4) as V4. remember (val z3) as V3. remember (val z2) as V2.
  remember (val z1) as V1. remember (val z) as V0.
  rewrite WW_eq. unfold W in *. lia.
Qed.
Print Assumptions fromMont_correct.

(* Equality lemmas between the Gallina regenerated from the Go sources by
   tools/bigintgen in LOOPS mode (Gen/BigIntLoops.v) and the hand-written
   models: babyjub Point.Mul WITH its double-and-add loop (the returned value
   and the final value of the receiver, C19), against Model/BabyJubCore.v's
   mul_loop / pmul.  No section variable stands for the loop here. *)
From Coq Require Import ZArith List Bool Lia.
From Verif Require Import Lib.Params Lib.Octets Spec.Edwards Model.Outcome Model.Utils
  Model.BabyJubCore Model.BabyJub.
From Verif Require Gen.CurveConsts.
From Verif Require Import Gen.BigIntLoops.
Import ListNotations.
Local Open Scope Z_scope.

Local Opaque BabyJub.modinv BabyJub.modsqrt BabyJub.Affine BabyJub.Projective
  Z.mul Z.add Z.sub Z.modulo Z.testbit Z.of_nat Z.to_nat.

Local Ltac same :=
  cbv zeta;
  first [ lazymatch goal with |- ?a = ?b => constr_eq a b end; reflexivity
        | (* the same code up to boolean spelling: `if !c {A} else {B}` for `if c {B} else {A}`,
             an early `return false` for a conjunction, ... (the heavy functions are Opaque here,
             so the conversion below stays cheap) *)
          rewrite ?Bool.if_negb; cbv beta iota zeta delta [andb orb];
          rewrite ?Bool.if_negb; timeout 20 reflexivity
        | fail 1 "generated code and hand model differ" ].

Lemma gen_babyjub_PointProjective_Add_eq : forall q o,
  babyjub_PointProjective_Add q o = BabyJub.Add q o.
Proof.
  intros [[x1 y1] z1] [[x2 y2] z2].
  unfold babyjub_PointProjective_Add, BabyJub.Add, padd, fmul, fadd, fsub, BabyJub.Q.
  cbn [fst snd]. same.
Qed.

(* the generated loop body, folded from bit k on, is mul_loop *)
Lemma mul_fold_eq : forall s n k res ex,
  fst (fold_left (fun (acc : ppoint * ppoint) (i : nat) =>
         let '(resProj, exp) := acc in
         let resProj := if Z.testbit s (Z.of_nat i) then babyjub_PointProjective_Add resProj exp else resProj in
         let exp := babyjub_PointProjective_Add exp exp in
         (resProj, exp)) (seq k n) (res, ex)) =
  mul_loop BabyJub.Q BabyJub.A BabyJub.D n (Z.of_nat k) s res ex.
Proof.
  intros s n. induction n as [|n IH]; intros k res ex; [reflexivity|].
  cbn [seq fold_left mul_loop]. cbv zeta.
  rewrite IH, !gen_babyjub_PointProjective_Add_eq, Nat2Z.inj_succ, <- Z.add_1_r.
  reflexivity.
Qed.

(* the returned value *)
Lemma gen_babyjub_Point_Mul_eq : forall s q,
  babyjub_Point_Mul s q = BabyJub.Mul s q.
Proof.
  intros s q. unfold babyjub_Point_Mul, BabyJub.Mul, pmul. cbv zeta.
  match goal with |- (let '(a, _) := ?F in _) = _ => destruct F as [r e] eqn:E end.
  apply (f_equal fst) in E. rewrite mul_fold_eq in E. cbn [fst] in E. subst r.
  reflexivity.
Qed.

(* the receiver, distinct from q *)
Lemma gen_babyjub_Point_Mul__recv_eq : forall p0 s q,
  babyjub_Point_Mul__recv p0 s q = BabyJub.Mul s q.
Proof.
  intros p0 s q. unfold babyjub_Point_Mul__recv, BabyJub.Mul, pmul. cbv zeta.
  match goal with |- (let '(a, _) := ?F in _) = _ => destruct F as [r e] eqn:E end.
  apply (f_equal fst) in E. rewrite mul_fold_eq in E. cbn [fst] in E. subst r.
  reflexivity.
Qed.

(* the receiver when q is the receiver: p.Mul(s, p) *)
Lemma gen_babyjub_Point_Mul__recv_aliased_eq : forall p0 s,
  babyjub_Point_Mul__recv_aliased p0 s = BabyJub.Mul s p0.
Proof.
  intros p0 s. unfold babyjub_Point_Mul__recv_aliased, BabyJub.Mul, pmul. cbv zeta.
  match goal with |- (let '(a, _) := ?F in _) = _ => destruct F as [r e] eqn:E end.
  apply (f_equal fst) in E. rewrite mul_fold_eq in E. cbn [fst] in E. subst r.
  reflexivity.
Qed.

Print Assumptions gen_babyjub_PointProjective_Add_eq.
Print Assumptions gen_babyjub_Point_Mul_eq.
Print Assumptions gen_babyjub_Point_Mul__recv_eq.
Print Assumptions gen_babyjub_Point_Mul__recv_aliased_eq.

(* The streaming Keccak-256 wrapper (Model/KeccakStream.v) computes the
   one-shot specification (Spec/Keccak.v) of the concatenation of the slices
   it is given; output lengths of keccak256 and blake512. *)
From Coq Require Import ZArith List Lia Arith.
From Verif Require Import Spec.Keccak Spec.Blake512 Model.KeccakStream.
Import ListNotations.
Local Open Scope Z_scope.

(* ------------------------------------------------------- word truncation *)

Lemma trunc64_mod : forall x, trunc64 x = x mod 2 ^ 64.
Proof.
  intros x. unfold trunc64.
  change mask64 with (Z.ones 64).
  apply Z.land_ones. lia.
Qed.

Lemma b512_w64_mod : forall x, b512_w64 x = x mod 2 ^ 64.
Proof.
  intros x. unfold b512_w64.
  change b512_mask with (Z.ones 64).
  apply Z.land_ones. lia.
Qed.

(* ------------------------------------------------------------------ rate *)

Lemma keccak_rate_eq : keccak_rate = 136%nat.
Proof. reflexivity. Qed.

Lemma keccak_rate_pos : (0 < keccak_rate)%nat.
Proof. rewrite keccak_rate_eq. lia. Qed.

Local Opaque keccak_rate.

(* ----------------------------------------------------------------- chunks *)

Lemma kchunks_fuel_irrel : forall f1 f2 l,
  (length l <= f1)%nat -> (length l <= f2)%nat ->
  kchunks_fuel f1 l = kchunks_fuel f2 l.
Proof.
  induction f1 as [|f1 IH]; intros f2 l H1 H2.
  - destruct l as [|a l]; [|cbn [length] in H1; lia].
    destruct f2; reflexivity.
  - destruct l as [|a l].
    + destruct f2; reflexivity.
    + destruct f2 as [|f2]; [cbn [length] in H2; lia|].
      cbn [kchunks_fuel]. f_equal.
      assert (Hs : (length (skipn keccak_rate (a :: l)) < length (a :: l))%nat).
      { rewrite skipn_length. pose proof keccak_rate_pos. cbn [length]. lia. }
      apply IH; lia.
Qed.

Lemma kchunks_nil : kchunks [] = [].
Proof. reflexivity. Qed.

(* a full block in front of a list is the first chunk *)
Lemma kchunks_block_app : forall blk rest,
  length blk = keccak_rate ->
  kchunks (blk ++ rest) = blk :: kchunks rest.
Proof.
  intros blk rest Hlen. unfold kchunks.
  pose proof keccak_rate_pos as Hpos.
  rewrite app_length.
  destruct (length blk + length rest)%nat as [|f] eqn:Hf; [lia|].
  destruct blk as [|b blk']; [cbn [length] in Hlen; lia|].
  cbn [kchunks_fuel app].
  change (b :: blk' ++ rest) with ((b :: blk') ++ rest).
  rewrite <- Hlen.
  rewrite firstn_app, Nat.sub_diag, firstn_all. cbn [firstn]. rewrite app_nil_r.
  rewrite skipn_app, Nat.sub_diag, skipn_all. cbn [skipn app].
  f_equal. apply kchunks_fuel_irrel; lia.
Qed.

Lemma kchunks_single : forall blk,
  length blk = keccak_rate -> kchunks blk = [blk].
Proof.
  intros blk Hlen.
  rewrite <- (app_nil_r blk) at 1.
  rewrite kchunks_block_app by exact Hlen.
  rewrite kchunks_nil. reflexivity.
Qed.

(* ---------------------------------------------------------------- padding *)

Lemma pad10star1_length : forall n,
  length (pad10star1 n) = (keccak_rate - n mod keccak_rate)%nat.
Proof.
  intros n. unfold pad10star1.
  pose proof keccak_rate_pos as Hpos.
  assert (Hm : (n mod keccak_rate < keccak_rate)%nat)
    by (apply Nat.mod_upper_bound; lia).
  destruct (keccak_rate - n mod keccak_rate)%nat as [|[|k]] eqn:Hk.
  - lia.
  - reflexivity.
  - cbn [length]. rewrite app_length, repeat_length. cbn [length]. lia.
Qed.

Lemma pad10star1_mod : forall n,
  pad10star1 (n mod keccak_rate) = pad10star1 n.
Proof.
  intros n. unfold pad10star1.
  pose proof keccak_rate_pos as Hpos.
  rewrite Nat.mod_mod by lia. reflexivity.
Qed.

Lemma kxor_at_app : forall (a b : bytes) i v,
  kxor_at (length a + i) v (a ++ b) = a ++ kxor_at i v b.
Proof.
  induction a as [|x a IH]; intros b i v.
  - reflexivity.
  - cbn [length app Nat.add kxor_at]. rewrite IH. reflexivity.
Qed.

Lemma kxor_at_app' : forall (a b : bytes) n i v,
  n = (length a + i)%nat -> kxor_at n v (a ++ b) = a ++ kxor_at i v b.
Proof. intros a b n i v ->. apply kxor_at_app. Qed.

Lemma kxor_at_repeat_last : forall j v,
  kxor_at j v (repeat 0 (S j)) = repeat 0 j ++ [v].
Proof.
  induction j as [|j IH]; intros v.
  - cbn [repeat kxor_at app]. rewrite Z.lxor_0_l. reflexivity.
  - change (repeat 0 (S (S j))) with (0 :: repeat 0 (S j)).
    cbn [kxor_at]. rewrite IH. reflexivity.
Qed.

(* the in-place padding of the Go sponge is pad10*1 *)
Lemma kpad_block_spec : forall buf,
  (length buf < keccak_rate)%nat ->
  kpad_block buf = buf ++ pad10star1 (length buf).
Proof.
  intros buf Hlt. unfold kpad_block, pad10star1.
  rewrite Nat.mod_small by exact Hlt.
  rewrite (kxor_at_app' buf _ (length buf) 0%nat) by lia.
  rewrite (kxor_at_app' buf _ (keccak_rate - 1)%nat
             (keccak_rate - length buf - 1)%nat) by lia.
  f_equal.
  destruct (keccak_rate - length buf)%nat as [|[|k]] eqn:Hk.
  - lia.
  - reflexivity.
  - change (repeat 0 (S (S k))) with (0 :: repeat 0 (S k)).
    cbn [kxor_at].
    replace (S (S k) - 1)%nat with (S k) by lia.
    cbn [kxor_at]. rewrite kxor_at_repeat_last. reflexivity.
Qed.

(* ------------------------------------------------------ the main invariant *)

(* [kinv s m]: s is the streaming state reached after the message m *)
Definition kinv (s : kstate) (m : bytes) : Prop :=
  (length (ks_buf s) < keccak_rate)%nat /\
  (length m mod keccak_rate = length (ks_buf s))%nat /\
  forall tail,
    fold_left keccak_absorb_block (kchunks (m ++ tail)) keccak_zero_state =
    fold_left keccak_absorb_block (kchunks (ks_buf s ++ tail)) (ks_st s).

Lemma kinv_init : kinv kinit [].
Proof.
  pose proof keccak_rate_pos as Hpos.
  unfold kinv, kinit. cbn [ks_buf ks_st length app].
  split; [lia|]. split; [apply Nat.mod_0_l; lia|]. reflexivity.
Qed.

Lemma kinv_write_fuel : forall fuel s m p,
  (length p <= fuel)%nat -> kinv s m -> kinv (kwrite_fuel fuel s p) (m ++ p).
Proof.
  pose proof keccak_rate_pos as Hpos.
  induction fuel as [|fuel IH]; intros s m p Hfuel Hinv.
  - destruct p as [|x p]; [|cbn [length] in Hfuel; lia].
    cbn [kwrite_fuel]. rewrite app_nil_r. exact Hinv.
  - destruct p as [|x p].
    + cbn [kwrite_fuel]. rewrite app_nil_r. exact Hinv.
    + cbn [kwrite_fuel].
      destruct Hinv as (Hlt & Hmod & Habs).
      set (room := (keccak_rate - length (ks_buf s))%nat).
      set (q := x :: p) in *.
      assert (Hroom : (1 <= room)%nat) by (unfold room; lia).
      assert (Hq : (1 <= length q)%nat) by (unfold q; cbn [length]; lia).
      assert (Hsplit : q = firstn room q ++ skipn room q)
        by (symmetry; apply firstn_skipn).
      assert (Hlen' : length (ks_buf s ++ firstn room q)
                      = (length (ks_buf s) + Nat.min room (length q))%nat)
        by (rewrite app_length, firstn_length; reflexivity).
      destruct (Nat.eqb_spec (length (ks_buf s ++ firstn room q)) keccak_rate)
        as [Hfull | Hnot].
      * (* the block is full: absorb it, continue with an empty buffer *)
        assert (Hinv' : kinv (mk_kstate (keccak_absorb_block (ks_st s)
                                           (ks_buf s ++ firstn room q)) [])
                             (m ++ firstn room q)).
        { unfold kinv. cbn [ks_buf ks_st length app].
          split; [lia|]. split.
          - rewrite app_length, firstn_length.
            pose proof (Nat.div_mod (length m) keccak_rate ltac:(lia)) as Hdm.
            rewrite Hmod in Hdm.
            replace (length m + Nat.min room (length q))%nat
              with (0 + (length m / keccak_rate + 1) * keccak_rate)%nat
              by (unfold room in *; lia).
            rewrite Nat.mod_add by lia. apply Nat.mod_0_l. lia.
          - intros tail. rewrite <- app_assoc. rewrite Habs.
            rewrite app_assoc.
            rewrite kchunks_block_app by exact Hfull.
            reflexivity. }
        assert (Hfuel' : (length (skipn room q) <= fuel)%nat).
        { rewrite skipn_length. cbn [length] in Hfuel. fold q in Hfuel.
          unfold q in *. cbn [length] in *. lia. }
        specialize (IH _ _ _ Hfuel' Hinv').
        rewrite <- app_assoc in IH. rewrite <- Hsplit in IH. exact IH.
      * (* q fits in the buffer without filling it *)
        assert (Hshort : (length q < room)%nat) by (unfold room in *; lia).
        assert (Hfn : firstn room q = q) by (apply firstn_all2; lia).
        assert (Hsk : skipn room q = []) by (apply skipn_all2; lia).
        rewrite Hfn, Hsk.
        assert (Hstop : forall s', kwrite_fuel fuel s' [] = s')
          by (intros s'; destruct fuel; reflexivity).
        rewrite Hstop.
        unfold kinv. cbn [ks_buf ks_st].
        rewrite !app_length. split; [unfold room in *; lia|]. split.
        -- rewrite Nat.add_mod by lia. rewrite Hmod.
           rewrite (Nat.mod_small (length q)) by (unfold room in *; lia).
           apply Nat.mod_small. unfold room in *; lia.
        -- intros tail. rewrite <- !app_assoc. apply Habs.
Qed.

Lemma kinv_write : forall s m p, kinv s m -> kinv (kwrite s p) (m ++ p).
Proof.
  intros s m p Hinv. unfold kwrite. apply kinv_write_fuel; [lia | exact Hinv].
Qed.

Lemma kinv_fold : forall data s m,
  kinv s m -> kinv (fold_left kwrite data s) (m ++ concat data).
Proof.
  induction data as [|d data IH]; intros s m Hinv.
  - cbn [fold_left concat]. rewrite app_nil_r. exact Hinv.
  - cbn [fold_left concat]. rewrite app_assoc.
    apply IH. apply kinv_write. exact Hinv.
Qed.

Lemma kinv_sum : forall s m, kinv s m -> ksum s = keccak256 m.
Proof.
  intros s m (Hlt & Hmod & Habs).
  unfold ksum, keccak256.
  rewrite kpad_block_spec by exact Hlt.
  rewrite Habs.
  rewrite <- (pad10star1_mod (length m)), Hmod.
  rewrite kchunks_single.
  - reflexivity.
  - rewrite app_length, pad10star1_length.
    rewrite Nat.mod_small by exact Hlt. lia.
Qed.

(* ------------------------------------------------------------ main theorem *)

Theorem keccak_stream_correct : forall data : list bytes,
  Hash data = keccak256 (concat data).
Proof.
  intros data. unfold Hash.
  apply kinv_sum.
  apply (kinv_fold data kinit []). exact kinv_init.
Qed.
Print Assumptions keccak_stream_correct.

(* the digest only depends on the concatenation of the slices *)
Corollary keccak_stream_split_irrelevant : forall d1 d2 : list bytes,
  concat d1 = concat d2 -> Hash d1 = Hash d2.
Proof.
  intros d1 d2 H. rewrite !keccak_stream_correct, H. reflexivity.
Qed.
Print Assumptions keccak_stream_split_irrelevant.

Corollary keccak_stream_app : forall a b : bytes,
  Hash [a; b] = Hash [a ++ b].
Proof.
  intros a b. apply keccak_stream_split_irrelevant.
  cbn [concat]. rewrite !app_nil_r. reflexivity.
Qed.

Corollary keccak_stream_no_slice : Hash [] = keccak256 [].
Proof. apply (keccak_stream_correct []). Qed.

Corollary keccak_stream_empty_slices : forall data : list bytes,
  Hash ([] :: data ++ [[]]) = Hash data.
Proof.
  intros data. apply keccak_stream_split_irrelevant.
  cbn [concat app]. rewrite concat_app. cbn [concat app].
  rewrite !app_nil_r. reflexivity.
Qed.

(* ---------------------------------------------------------- output lengths *)

Lemma keccak_iota_length : forall rc A,
  length (keccak_iota rc A) = length A.
Proof. intros rc [|a A]; reflexivity. Qed.

Lemma keccak_round_length : forall A rc, length (keccak_round A rc) = 25%nat.
Proof.
  intros A rc. unfold keccak_round.
  rewrite keccak_iota_length. unfold keccak_chi.
  rewrite map_length. reflexivity.
Qed.

Lemma keccak_rounds_length : forall rcs A,
  length A = 25%nat ->
  length (fold_left keccak_round rcs A) = 25%nat.
Proof.
  induction rcs as [|rc rcs IH]; intros A HA.
  - exact HA.
  - cbn [fold_left]. apply IH. apply keccak_round_length.
Qed.

Lemma keccak_f_length : forall A, length (keccak_f A) = 25%nat.
Proof.
  intros A. unfold keccak_f, keccak_round_constants.
  cbn [fold_left]. apply keccak_round_length.
Qed.

Lemma keccak_absorb_all_length : forall blks st,
  length st = 25%nat ->
  length (fold_left keccak_absorb_block blks st) = 25%nat.
Proof.
  induction blks as [|b blks IH]; intros st Hst.
  - exact Hst.
  - cbn [fold_left]. apply IH. apply keccak_f_length.
Qed.

Lemma le_bytes64_concat_length : forall st,
  length (concat (map le_bytes64 st)) = (8 * length st)%nat.
Proof.
  induction st as [|w st IH].
  - reflexivity.
  - cbn [map concat]. rewrite app_length, IH.
    change (length (le_bytes64 w)) with 8%nat. cbn [length]. lia.
Qed.

Theorem keccak256_length : forall m : bytes, length (keccak256 m) = 32%nat.
Proof.
  intros m. unfold keccak256, ksqueeze.
  rewrite firstn_length, le_bytes64_concat_length.
  rewrite keccak_absorb_all_length by reflexivity.
  reflexivity.
Qed.
Print Assumptions keccak256_length.

Corollary Hash_length : forall data : list bytes, length (Hash data) = 32%nat.
Proof. intros data. rewrite keccak_stream_correct. apply keccak256_length. Qed.

Lemma b512_compress_length : forall h blk t,
  length (b512_compress h blk t) = 8%nat.
Proof.
  intros h blk t. unfold b512_compress. rewrite map_length. reflexivity.
Qed.

Lemma b512_steps_length : forall bitlen blks st,
  length (fst st) = 8%nat ->
  length (fst (fold_left (b512_step bitlen) blks st)) = 8%nat.
Proof.
  induction blks as [|b blks IH]; intros st Hst.
  - exact Hst.
  - cbn [fold_left]. apply IH.
    destruct st as [h i]. cbn [b512_step fst].
    apply b512_compress_length.
Qed.

Lemma b512_be_bytes64_concat_length : forall h,
  length (concat (map b512_be_bytes64 h)) = (8 * length h)%nat.
Proof.
  induction h as [|w h IH].
  - reflexivity.
  - cbn [map concat]. rewrite app_length, IH.
    change (length (b512_be_bytes64 w)) with 8%nat. cbn [length]. lia.
Qed.

Theorem blake512_length : forall m : list Z, length (blake512 m) = 64%nat.
Proof.
  intros m. unfold blake512.
  rewrite b512_be_bytes64_concat_length.
  rewrite b512_steps_length by reflexivity.
  reflexivity.
Qed.
Print Assumptions blake512_length.

(* --------------------------------------------------------- sanity by running *)

(* the model, run on a message cut in awkward places (with empty slices),
   gives the digest printed by keccak256.Hash for the whole message
   (Spec/HashVectors.v, keccak256_go_300) *)
Example Hash_split_300 :
  let m := map (fun i => (Z.of_nat i * 7 + 3) mod 256) (seq 0 300) in
  Hash [firstn 5 m; []; firstn 135 (skipn 5 m); []; skipn 140 m] = keccak256 m.
Proof. vm_compute. reflexivity. Qed.

(* Scalar multiplication [smul] (P added k times) on a complete twisted
   Edwards curve: parametric lemmas, under the hypotheses of
   Proofs/EdwardsGroup.v (p odd prime, a non-zero square, d non-square).
   Helper of BabyJubGroup.v / BabyJubCoreProofs.v / BabyJubModel.v. *)
From Coq Require Import ZArith Znumtheory Lia Morphisms Setoid.
From Verif Require Import Lib.Powmod Lib.NumberTheory Spec.Edwards.
From Verif Require Import Proofs.EdwardsField Proofs.EdwardsComplete Proofs.EdwardsGroup.
Local Open Scope Z_scope.

Section Smul.
  Variables p a d : Z.
  Hypothesis Hp : prime p.
  Hypothesis Hp2 : 2 < p.
  Hypothesis Ha : exists ra, (ra * ra) mod p = a mod p /\ a mod p <> 0.
  Hypothesis Hd : forall r, (r * r) mod p <> d mod p.

  Local Notation oc := (on_curve p a d).
  Local Notation can := (canonical p).
  Local Notation add := (ed_add p a d).
  Local Notation O := ed_zero.
  Local Notation smuln := (smul_nat p a d).
  Local Notation smul := (smul p a d).

  Let Hp1 : 1 < p := p_gt_1 p Hp.

  Local Notation add_closed := (ed_add_closed p a d Hp Hp2 Ha Hd).
  Local Notation add_assoc := (ed_add_assoc p a d Hp Hp2 Ha Hd).
  Local Notation add_zero_l := (ed_add_zero_l p a d Hp).
  Local Notation add_zero_r := (ed_add_zero_r p a d Hp).

  (* ---- nat-indexed iteration ---- *)

  Lemma smuln_closed : forall n P, oc P -> oc (smuln n P) /\ can (smuln n P).
  Proof.
    induction n as [ | n IH ]; intros P HP; cbn [smul_nat].
    - split; [ apply (oc_zero p a d) | apply can_zero; assumption ].
    - apply add_closed; [ exact HP | exact (proj1 (IH P HP)) ].
  Qed.

  Lemma smuln_add : forall m n P, oc P ->
    smuln (m + n) P = add (smuln m P) (smuln n P).
  Proof.
    induction m as [ | m IH ]; intros n P HP; cbn [smul_nat Nat.add].
    - destruct (smuln_closed n P HP) as [H1 H2].
      symmetry. apply add_zero_l; assumption.
    - rewrite (IH n P HP).
      symmetry. apply add_assoc;
        [ exact HP | exact (proj1 (smuln_closed m P HP)) | exact (proj1 (smuln_closed n P HP)) ].
  Qed.

  Lemma smuln_mul : forall m n P, oc P ->
    smuln (m * n) P = smuln m (smuln n P).
  Proof.
    induction m as [ | m IH ]; intros n P HP; cbn [smul_nat Nat.mul].
    - reflexivity.
    - rewrite (smuln_add n (m * n) P HP), (IH n P HP). reflexivity.
  Qed.

  Lemma smuln_zero_pt : forall n, smuln n O = O.
  Proof.
    induction n as [ | n IH ]; cbn [smul_nat]; [ reflexivity | ].
    rewrite IH. apply add_zero_r; [ apply (oc_zero p a d) | apply can_zero; assumption ].
  Qed.

  (* the multiple only depends on the residues of the coordinates *)
  Lemma smuln_mod : forall n x y, smuln n (x mod p, y mod p) = smuln n (x, y).
  Proof.
    induction n as [ | n IH ]; intros x y; cbn [smul_nat]; [ reflexivity | ].
    rewrite IH. apply (ed_add_mod_l p a d Hp).
  Qed.

  (* ---- Z-indexed ---- *)

  Lemma smul_0 : forall P, smul 0 P = O.
  Proof. intros P. reflexivity. Qed.

  Lemma smul_neg_scalar : forall k P, k <= 0 -> smul k P = O.
  Proof.
    intros k P Hk. unfold Edwards.smul.
    replace (Z.to_nat k) with 0%nat by lia. reflexivity.
  Qed.

  Lemma smul_1 : forall P, oc P -> can P -> smul 1 P = P.
  Proof.
    intros P H1 H2. unfold Edwards.smul. change (Z.to_nat 1) with 1%nat.
    cbn [smul_nat]. apply add_zero_r; assumption.
  Qed.

  Lemma smul_closed : forall k P, oc P -> oc (smul k P) /\ can (smul k P).
  Proof. intros k P HP. unfold Edwards.smul. apply smuln_closed. exact HP. Qed.

  Lemma smul_oc : forall k P, oc P -> oc (smul k P).
  Proof. intros k P HP. exact (proj1 (smul_closed k P HP)). Qed.

  Lemma smul_can : forall k P, oc P -> can (smul k P).
  Proof. intros k P HP. exact (proj2 (smul_closed k P HP)). Qed.

  Lemma smul_add : forall j k P, 0 <= j -> 0 <= k -> oc P ->
    smul (j + k) P = add (smul j P) (smul k P).
  Proof.
    intros j k P Hj Hk HP. unfold Edwards.smul.
    rewrite Z2Nat.inj_add by assumption. apply smuln_add. exact HP.
  Qed.

  Lemma smul_succ : forall k P, 0 <= k -> oc P ->
    smul (k + 1) P = add P (smul k P).
  Proof.
    intros k P Hk HP. unfold Edwards.smul.
    rewrite Z2Nat.inj_add by lia. change (Z.to_nat 1) with 1%nat.
    rewrite Nat.add_1_r. reflexivity.
  Qed.

  Lemma smul_mul : forall j k P, 0 <= j -> 0 <= k -> oc P ->
    smul (j * k) P = smul j (smul k P).
  Proof.
    intros j k P Hj Hk HP. unfold Edwards.smul.
    rewrite Z2Nat.inj_mul by assumption. apply smuln_mul. exact HP.
  Qed.

  Lemma smul_mul_comm : forall j k P, 0 <= j -> 0 <= k -> oc P ->
    smul j (smul k P) = smul k (smul j P).
  Proof.
    intros j k P Hj Hk HP.
    rewrite <- !smul_mul by assumption. rewrite Z.mul_comm. reflexivity.
  Qed.

  Lemma smul_zero_pt : forall k, smul k O = O.
  Proof. intros k. unfold Edwards.smul. apply smuln_zero_pt. Qed.

  Lemma smul_mod : forall k x y, smul k (x mod p, y mod p) = smul k (x, y).
  Proof. intros k x y. unfold Edwards.smul. apply smuln_mod. Qed.

  Lemma smul_double : forall k P, 0 <= k -> oc P ->
    smul (2 * k) P = add (smul k P) (smul k P).
  Proof.
    intros k P Hk HP. replace (2 * k) with (k + k) by ring.
    apply smul_add; assumption.
  Qed.

  (* multiples of a killing scalar are killing scalars *)
  Lemma smul_kill_mul : forall n k P, 0 <= n -> 0 <= k -> oc P ->
    smul n P = O -> smul (k * n) P = O.
  Proof.
    intros n k P Hn Hk HP H. rewrite smul_mul by assumption.
    rewrite H. apply smul_zero_pt.
  Qed.

  (* ---- cancellation, distribution over point addition ---- *)

  Local Notation add_comm := (ed_add_comm p a d).
  Local Notation add_neg := (ed_add_neg p a d Hp Hp2 Ha Hd).

  Lemma add_cancel_l : forall A B C, oc A -> oc B -> oc C -> can B -> can C ->
    add A B = add A C -> B = C.
  Proof.
    intros A B C HA HB HC HcB HcC E.
    pose proof (ed_neg_oc p a d A HA) as HnA.
    assert (E' : add (ed_neg p A) (add A B) = add (ed_neg p A) (add A C)) by (rewrite E; reflexivity).
    rewrite <- !add_assoc in E' by assumption.
    rewrite (add_comm (ed_neg p A) A), (add_neg A HA) in E'.
    rewrite !add_zero_l in E' by assumption. exact E'.
  Qed.

  Lemma add_eq_self : forall A B, oc A -> oc B -> can B -> add A B = A -> B = O.
  Proof.
    intros A B HA HB HcB E.
    apply (add_cancel_l A B O); try assumption.
    - apply (oc_zero p a d).
    - apply can_zero; assumption.
    - assert (HcA : can A) by (rewrite <- E; apply can_add; assumption).
      rewrite E. symmetry. apply add_zero_r; assumption.
  Qed.

  Lemma add_swap : forall A B C D, oc A -> oc B -> oc C -> oc D ->
    add (add A B) (add C D) = add (add A C) (add B D).
  Proof.
    intros A B C D HA HB HC HD.
    assert (HCD : oc (add C D)) by (apply add_closed; assumption).
    assert (HBD : oc (add B D)) by (apply add_closed; assumption).
    rewrite (add_assoc A B (add C D)) by assumption.
    rewrite <- (add_assoc B C D) by assumption.
    rewrite (add_comm B C).
    rewrite (add_assoc C B D) by assumption.
    rewrite <- (add_assoc A C (add B D)) by assumption.
    reflexivity.
  Qed.

  Lemma smuln_add_pt : forall n A B, oc A -> oc B ->
    smuln n (add A B) = add (smuln n A) (smuln n B).
  Proof.
    induction n as [ | n IH ]; intros A B HA HB; cbn [smul_nat].
    - symmetry. apply add_zero_l; [ apply (oc_zero p a d) | apply can_zero; assumption ].
    - rewrite (IH A B HA HB).
      apply add_swap; try assumption; apply smuln_closed; assumption.
  Qed.

  Lemma smul_add_pt : forall k A B, oc A -> oc B ->
    smul k (add A B) = add (smul k A) (smul k B).
  Proof. intros k A B HA HB. unfold Edwards.smul. apply smuln_add_pt; assumption. Qed.

  (* the killing scalars of a point are closed under gcd *)
  Lemma smul_gcd_kill : forall m n P, 0 < m -> 0 < n -> oc P ->
    smul m P = O -> smul n P = O -> smul (Z.gcd m n) P = O.
  Proof.
    intros m n P Hm Hn HP Hm0 Hn0.
    destruct (bezout_nonneg m n Hm Hn) as (u & v & Hu & Hv & E).
    assert (H1 : smul (u * m) P = O) by (apply smul_kill_mul; (lia || assumption)).
    assert (H2 : smul (v * n) P = O) by (apply smul_kill_mul; (lia || assumption)).
    rewrite E in H1.
    assert (Hvn : 0 <= v * n) by (apply Z.mul_nonneg_nonneg; lia).
    pose proof (Z.gcd_nonneg m n) as Hg.
    rewrite smul_add in H1 by (lia || assumption).
    rewrite H2 in H1. rewrite <- H1. symmetry.
    apply add_zero_r; [ apply smul_oc | apply smul_can ]; exact HP.
  Qed.

  Lemma smul_coprime_kill : forall m n P, 0 < m -> 0 < n -> Z.gcd m n = 1 ->
    oc P -> can P -> smul m P = O -> smul n P = O -> P = O.
  Proof.
    intros m n P Hm Hn Hg HP HcP Hm0 Hn0.
    pose proof (smul_gcd_kill m n P Hm Hn HP Hm0 Hn0) as H.
    rewrite Hg, smul_1 in H by assumption. exact H.
  Qed.

  (* a non-trivial point killed by a prime n has order exactly n *)
  Theorem smul_prime_order : forall n P, prime n -> oc P -> can P ->
    smul n P = O -> P <> O ->
    forall k, 0 < k < n -> smul k P <> O.
  Proof.
    intros n P Hn HP HcP HnP HPO k Hk Hkill.
    assert (Hn1 : 1 < n) by (apply prime_gt_1; exact Hn).
    assert (Hg : Z.gcd k n = 1).
    { apply Zgcd_1_rel_prime. apply rel_prime_sym.
      apply prime_rel_prime; [ exact Hn | ].
      intros Hdiv. apply Z.divide_pos_le in Hdiv; lia. }
    destruct (bezout_nonneg k n) as (u & v & Hu & Hv & E); try lia.
    rewrite Hg in E.
    assert (H1 : smul (u * k) P = O) by (apply smul_kill_mul; (lia || assumption)).
    assert (H2 : smul (v * n) P = O) by (apply smul_kill_mul; (lia || assumption)).
    rewrite E in H1.
    assert (Hvn : 0 <= v * n) by (apply Z.mul_nonneg_nonneg; lia).
    rewrite smul_add in H1 by (lia || assumption).
    rewrite H2, smul_1 in H1 by assumption.
    apply HPO. rewrite <- H1. symmetry. apply add_zero_r; assumption.
  Qed.
End Smul.

Print Assumptions smul_add.
Print Assumptions smul_mul.
Print Assumptions smul_prime_order.

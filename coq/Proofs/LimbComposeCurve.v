(* Composition, part 2 (BabyJubJub): PointProjective.Add / Affine,
   Point.Projective and the double-and-add loop of Point.Mul run on limb
   elements (Model/LimbPrograms.v) refine the value-level model
   (Model/BabyJubCore.v).  The limb routines stay opaque. *)
From Coq Require Import ZArith List Lia Bool.
From Verif Require Import Lib.Params Lib.Powmod Lib.NumberTheory Spec.Edwards
  Model.Outcome Model.FfLimbs Model.FfConv Model.BabyJubCore Model.LimbPrograms
  Proofs.FfWords Proofs.FfEl Proofs.FfArith Proofs.FfOps Proofs.FfInverse
  Proofs.FfCodec Proofs.LimbCompose.
From Verif Require Model.BabyJub.
Import ListNotations.
Local Open Scope Z_scope.

Local Opaque q.
Local Opaque mulGeneric addGeneric subGeneric square FfLimbs.exp inverse
  setBigInt toBigIntRegular setUint64 equal isZero.

(* coordinatewise refinement of projective points *)
Definition R3 (Pl : lpoint) (P : ppoint) : Prop :=
  let '(xl, yl, zl) := Pl in
  let '(x, y, z) := P in R xl x /\ R yl y /\ R zl z.

Ltac r_step :=
  first [ assumption
        | apply R_mul_t_l; [ eassumption | ]
        | apply R_mul
        | apply R_square
        | apply R_add
        | apply R_sub ].

Section Curve.
  Variables Aff Dff : el.
  Variables a d : Z.
  Hypothesis HA : Rt Aff a.
  Hypothesis HD : Rt Dff d.

  Theorem padd_limbs_refines : forall Pl Ql P Q, R3 Pl P -> R3 Ql Q ->
    R3 (padd_limbs Aff Dff Pl Ql) (padd q a d P Q).
  Proof.
    intros [[x1l y1l] z1l] [[x2l y2l] z2l] [[x1 y1] z1] [[x2 y2] z2]
           (Hx1 & Hy1 & Hz1) (Hx2 & Hy2 & Hz2).
    unfold padd_limbs, padd, fmul, fadd, fsub, R3. cbv zeta.
    split; [ | split ]; repeat r_step.
  Qed.

  Lemma pproj_limbs_refines : forall P, R3 (pproj_limbs P) (pproj q P).
  Proof.
    intros [x y]. unfold pproj_limbs, pproj, R3.
    split; [ | split ]; [ apply R_setBigInt | apply R_setBigInt | exact R_one ].
  Qed.

  Lemma equal_zero_R : forall zl z, R zl z -> equal zl zero = (z =? 0).
  Proof.
    intros zl z [Hc Hm]. apply eq_iff_eq_true.
    rewrite (FfOps.equal_correct zl zero Hc canon_zero), mval_zero, Hm, Z.eqb_eq.
    tauto.
  Qed.

  (* the Go code tests p.Z.Equal(zero); on canonical elements this is IsZero *)
  Lemma equal_zero_isZero : forall zl, canon zl -> equal zl zero = isZero zl.
  Proof.
    intros zl Hc. apply eq_iff_eq_true.
    rewrite (FfOps.equal_correct zl zero Hc canon_zero), mval_zero.
    rewrite (FfOps.isZero_correct zl Hc). tauto.
  Qed.

  (* Affine never runs out of fuel and returns the model's point *)
  Theorem paffine_limbs_correct : forall Pl P, R3 Pl P ->
    paffine_limbs Pl = Some (paffine q P).
  Proof.
    intros [[xl yl] zl] [[x y] z] (Hx & Hy & Hz).
    unfold paffine_limbs, paffine.
    rewrite (equal_zero_R zl z Hz).
    destruct (z =? 0); [ reflexivity | ].
    destruct (inverse_correct zl (proj1 Hz)) as (zinv & Hinv & Hc & Hm).
    rewrite Hinv. cbv zeta.
    assert (Hzi : R zinv (finv q z)).
    { split; [ exact Hc | ]. rewrite Hm. destruct Hz as [_ <-]. reflexivity. }
    rewrite (R_toBigIntRegular _ _ (R_mul _ _ _ _ Hx Hzi)).
    rewrite (R_toBigIntRegular _ _ (R_mul _ _ _ _ Hy Hzi)).
    reflexivity.
  Qed.

  Lemma mul_loop_limbs_refines : forall n i s rl r el_ e, R3 rl r -> R3 el_ e ->
    R3 (mul_loop_limbs Aff Dff n i s rl el_) (mul_loop q a d n i s r e).
  Proof.
    intros n. induction n as [ | n IH ]; intros i s rl r el_ e Hr He;
      cbn [mul_loop_limbs mul_loop].
    - exact Hr.
    - apply IH.
      + destruct (Z.testbit s i); [ apply padd_limbs_refines; assumption | exact Hr ].
      + apply padd_limbs_refines; assumption.
  Qed.

  Theorem pmul_limbs_gen_correct : forall s P,
    pmul_limbs_gen Aff Dff s P = Some (pmul q a d s P).
  Proof.
    intros s P. unfold pmul_limbs_gen, pmul.
    apply paffine_limbs_correct.
    apply mul_loop_limbs_refines.
    - unfold R3. split; [ | split ]; [ exact R_zero | exact R_one | exact R_one ].
    - apply pproj_limbs_refines.
  Qed.
End Curve.
Print Assumptions padd_limbs_refines.
Print Assumptions paffine_limbs_correct.

(* ------------------------------------------------------------------ *)
(** * The package constants *)

Lemma Rt_Aff : Rt LimbPrograms.Aff BabyJub.A.
Proof. apply Rt_setBigInt. Qed.
Lemma Rt_Dff : Rt LimbPrograms.Dff BabyJub.D.
Proof. apply Rt_setBigInt. Qed.

Lemma BabyJub_Q_eq : BabyJub.Q = q.
Proof. reflexivity. Qed.

Theorem Add_limbs_refines : forall Pl Ql P Q, R3 Pl P -> R3 Ql Q ->
  R3 (Add_limbs Pl Ql) (BabyJub.Add P Q).
Proof.
  intros Pl Ql P Q HP HQ. unfold Add_limbs, BabyJub.Add. rewrite BabyJub_Q_eq.
  apply padd_limbs_refines; [ exact Rt_Aff | exact Rt_Dff | exact HP | exact HQ ].
Qed.

Theorem pmul_limbs_correct : forall s P,
  pmul_limbs s P = Some (pmul q BabyJub.A BabyJub.D s P).
Proof.
  intros s P. unfold pmul_limbs.
  apply pmul_limbs_gen_correct; [ exact Rt_Aff | exact Rt_Dff ].
Qed.
Print Assumptions pmul_limbs_correct.

Corollary pmul_limbs_Mul : forall s P, pmul_limbs s P = Some (BabyJub.Mul s P).
Proof.
  intros s P. unfold BabyJub.Mul. rewrite BabyJub_Q_eq. apply pmul_limbs_correct.
Qed.
Print Assumptions pmul_limbs_Mul.

(* Part of the equality lemmas between the Gallina regenerated from the Go
   sources by tools/bigintgen (Gen/BigIntRoutines.v) and the hand-written models:
   the RECEIVER of the documented destinations Point.Mul, Point.Set,
   Point.Decompress, Signature.Decompress (property C19).

   For each of these methods bigintgen emits <name>__recv: the final value of
   the receiver as a function of its initial value and the arguments, obtained
   by the same symbolic execution (aliases and in-place writes tracked) under
   the assumption that the receiver -- the struct and the integers behind its
   fields -- is disjoint from the pointer arguments; and <name>__recv_aliased
   for the call in which the argument point IS the receiver (p.Mul(s, p),
   p.Set(p)).  Methods with an error result give [option]: [Some v] on every
   returning path, [None] where the receiver is left with a nil field
   (clobbered: not a value of the model's type) or a callee panics.

   The lemmas state that on success the receiver equals the returned value
   (which is the hand model's value), and what the receiver is on failure. *)
From Coq Require Import ZArith List Bool Lia.
From Verif Require Import Lib.Params Lib.Octets Spec.Edwards Model.Outcome Model.Utils
  Model.BabyJubCore Model.BabyJub Model.Eddsa.
From Verif Require Gen.CurveConsts.
From Verif Require Import Gen.BigIntRoutines.
From Verif Require Import Proofs.BigIntEqUtils Proofs.BigIntEqCompress.
Import ListNotations.
Local Open Scope Z_scope.

Local Opaque BabyJub.PointFromSignAndY BabyJub.UnpackSignY BabyJub.modinv BabyJub.modsqrt Z.mul Z.add Z.sub Z.modulo Z.shiftr Z.shiftl
  Z.land Z.lor Z.ltb Z.gtb Z.geb Z.eqb.

(* ---- Point.Mul -------------------------------------------------------------- *)

(* the model of the part bigintgen does not translate: the double-and-add loop
   of Point.Mul (Model/BabyJubCore.v: mul_loop), started at bit 0 *)
Definition babyjub_mulLoop (s : Z) (res ex : ppoint) : ppoint :=
  mul_loop BabyJub.Q BabyJub.A BabyJub.D (Z.to_nat (bitlen s)) 0 s res ex.

(* the returned value *)
Lemma gen_babyjub_Point_Mul_eq : forall s q,
  babyjub_Point_Mul babyjub_mulLoop s q = BabyJub.Mul s q.
Proof.
  intros s q. unfold babyjub_Point_Mul, babyjub_mulLoop, BabyJub.Mul, pmul,
    BabyJub.Affine, BabyJub.Projective. same.
Qed.

(* the receiver, distinct from q *)
Lemma gen_babyjub_Point_Mul__recv_eq : forall p0 s q,
  babyjub_Point_Mul__recv babyjub_mulLoop p0 s q = BabyJub.Mul s q.
Proof.
  intros p0 s q. unfold babyjub_Point_Mul__recv, babyjub_mulLoop, BabyJub.Mul, pmul,
    BabyJub.Affine, BabyJub.Projective. same.
Qed.

(* the receiver when q is the receiver: p.Mul(s, p) *)
Lemma gen_babyjub_Point_Mul__recv_aliased_eq : forall p0 s,
  babyjub_Point_Mul__recv_aliased babyjub_mulLoop p0 s = BabyJub.Mul s p0.
Proof.
  intros p0 s. unfold babyjub_Point_Mul__recv_aliased, babyjub_mulLoop, BabyJub.Mul, pmul,
    BabyJub.Affine, BabyJub.Projective. same.
Qed.

(* receiver = returned value, in both situations *)
Lemma gen_babyjub_Point_Mul_recv_is_result_eq : forall p0 s q,
  babyjub_Point_Mul__recv babyjub_mulLoop p0 s q = babyjub_Point_Mul babyjub_mulLoop s q /\
  babyjub_Point_Mul__recv_aliased babyjub_mulLoop p0 s = babyjub_Point_Mul babyjub_mulLoop s p0.
Proof.
  intros. split.
  - rewrite gen_babyjub_Point_Mul__recv_eq. symmetry. apply gen_babyjub_Point_Mul_eq.
  - rewrite gen_babyjub_Point_Mul__recv_aliased_eq. symmetry. apply gen_babyjub_Point_Mul_eq.
Qed.

(* ---- Point.Set -------------------------------------------------------------- *)

Lemma gen_babyjub_Point_Set_eq : forall c, babyjub_Point_Set c = c.
Proof. intros [x y]. reflexivity. Qed.

Lemma gen_babyjub_Point_Set__recv_eq : forall p0 c, babyjub_Point_Set__recv p0 c = c.
Proof. intros p0 [x y]. reflexivity. Qed.

(* p.Set(p): unchanged *)
Lemma gen_babyjub_Point_Set__recv_aliased_eq : forall p0, babyjub_Point_Set__recv_aliased p0 = p0.
Proof. intros [x y]. reflexivity. Qed.

(* ---- Point.Decompress ------------------------------------------------------- *)

(* on success the receiver is the returned point; on failure it is unchanged *)
Lemma gen_babyjub_Point_Decompress__recv_eq : forall p0 leBuf,
  match BabyJub.Decompress leBuf with
  | Ok P => babyjub_Point_Decompress__recv p0 leBuf = Some P
  | Err => babyjub_Point_Decompress__recv p0 leBuf = Some p0
  | Panic => True
  end.
Proof.
  intros p0 leBuf. unfold babyjub_Point_Decompress__recv, BabyJub.Decompress.
  rewrite gen_babyjub_UnpackSignY_eq.
  destruct (BabyJub.UnpackSignY leBuf) as [sign y].
  pose proof (gen_babyjub_PointFromSignAndY_eq sign y) as E.
  destruct (BabyJub.PointFromSignAndY sign y); try rewrite E; [reflexivity | reflexivity | exact I].
Qed.

(* the same against the generated returned value *)
Lemma gen_babyjub_Point_Decompress_recv_is_result_eq : forall p0 leBuf,
  match babyjub_Point_Decompress leBuf with
  | Ok P => babyjub_Point_Decompress__recv p0 leBuf = Some P
  | Err => babyjub_Point_Decompress__recv p0 leBuf = Some p0
  | Panic => True
  end.
Proof.
  intros. pose proof (gen_babyjub_Point_Decompress__recv_eq p0 leBuf) as H.
  pose proof (gen_babyjub_Point_Decompress_eq leBuf) as E.
  destruct (BabyJub.Decompress leBuf); rewrite E; exact H.
Qed.

(* ---- Signature.Decompress --------------------------------------------------- *)

(* On success the receiver is the returned signature.  On failure the Go code
   has already executed  s.R8, err = NewPoint().Decompress(R8p)  with a nil
   point: the receiver is clobbered (R8 = nil is not a value of [signature]),
   which the generated definition reports as [None]. *)
Lemma gen_babyjub_Signature_Decompress_recv_is_result_eq : forall s0 buf,
  match babyjub_Signature_Decompress buf with
  | Ok sg => babyjub_Signature_Decompress__recv s0 buf = Some sg
  | Err => babyjub_Signature_Decompress__recv s0 buf = None
  | Panic => True
  end.
Proof.
  intros s0 buf. unfold babyjub_Signature_Decompress, babyjub_Signature_Decompress__recv.
  cbv zeta.
  destruct (babyjub_Point_Decompress (copy_into 32 (firstn 32 buf)));
    [reflexivity | reflexivity | exact I].
Qed.

(* against the hand model; buf is a [64]byte *)
Lemma gen_babyjub_Signature_Decompress__recv_eq : forall s0 buf, length buf = 64%nat ->
  match Eddsa.SigDecompress buf with
  | Ok sg => babyjub_Signature_Decompress__recv s0 buf = Some sg
  | Err => babyjub_Signature_Decompress__recv s0 buf = None
  | Panic => True
  end.
Proof.
  intros s0 buf Hlen. unfold babyjub_Signature_Decompress__recv, Eddsa.SigDecompress.
  cbv zeta.
  assert (Hc : copy_into 32 (firstn 32 buf) = firstn 32 buf).
  { unfold copy_into. rewrite firstn_firstn, Nat.min_id.
    rewrite firstn_length, Hlen. cbn [Nat.min Nat.sub repeat]. apply app_nil_r. }
  rewrite Hc, gen_utils_SetBigIntFromLEBytes_fn.
  pose proof (gen_babyjub_Point_Decompress_eq (firstn 32 buf)) as E.
  destruct (BabyJub.Decompress (firstn 32 buf)); try rewrite E; [reflexivity | reflexivity | exact I].
Qed.

(* ---- every lemma above is closed under the global context ---------------- *)
Print Assumptions gen_babyjub_Point_Mul_eq.
Print Assumptions gen_babyjub_Point_Mul__recv_eq.
Print Assumptions gen_babyjub_Point_Mul__recv_aliased_eq.
Print Assumptions gen_babyjub_Point_Mul_recv_is_result_eq.
Print Assumptions gen_babyjub_Point_Set_eq.
Print Assumptions gen_babyjub_Point_Set__recv_eq.
Print Assumptions gen_babyjub_Point_Set__recv_aliased_eq.
Print Assumptions gen_babyjub_Point_Decompress__recv_eq.
Print Assumptions gen_babyjub_Point_Decompress_recv_is_result_eq.
Print Assumptions gen_babyjub_Signature_Decompress_recv_is_result_eq.
Print Assumptions gen_babyjub_Signature_Decompress__recv_eq.

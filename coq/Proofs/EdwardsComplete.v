(* Completeness of the twisted Edwards addition law when a is a square and d a
   non-square modulo the prime p (Bernstein-Lange): the two denominators
   1 +- d x1 x2 y1 y2 never vanish on pairs of curve points. *)
From Coq Require Import ZArith Znumtheory Lia Morphisms Setoid.
From Verif Require Import Lib.Powmod Lib.NumberTheory Spec.Edwards.
From Verif Require Import Proofs.EdwardsField.
Local Open Scope Z_scope.

Section Complete.
  Variables p a d : Z.
  Hypothesis Hp : prime p.
  Hypothesis Hp2 : 2 < p.
  Hypothesis Ha : exists ra, (ra * ra) mod p = a mod p /\ a mod p <> 0.
  Hypothesis Hd : forall r, (r * r) mod p <> d mod p.

  Local Notation "x == y" := (eqm p x y) (at level 70, no associativity).

  (* d would be the square of A/B *)
  Lemma square_quot_absurd : forall A B, A * A == d * (B * B) -> ~ B == 0 -> False.
  Proof.
    intros A B HAB HB.
    apply (Hd (A * finv p B)).
    change ((A * finv p B) * (A * finv p B) == d).
    assert (E : (A * finv p B) * (A * finv p B) == (A * A) * (finv p B * finv p B)) by ering.
    rewrite E, HAB.
    assert (E2 : d * (B * B) * (finv p B * finv p B) == d * ((B * finv p B) * (B * finv p B))) by ering.
    rewrite E2, (finv_spec p Hp B HB). ering.
  Qed.

  Lemma eps_square_absurd : forall x1 y1 x2 y2,
    on_curve p a d (x1, y1) -> on_curve p a d (x2, y2) ->
    (d * x1 * x2 * y1 * y2) * (d * x1 * x2 * y1 * y2) == 1 -> False.
  Proof.
    intros x1 y1 x2 y2 H1 H2 Heps.
    destruct Ha as [ra [Hra _]].
    change (ra * ra == a) in Hra.
    cbn [on_curve] in H1, H2.
    change (a * x1 * x1 + y1 * y1 == 1 + d * x1 * x1 * y1 * y1) in H1.
    change (a * x2 * x2 + y2 * y2 == 1 + d * x2 * x2 * y2 * y2) in H2.
    apply eqm_sub_zero in H1. apply eqm_sub_zero in H2.
    apply eqm_sub_zero in Hra. apply eqm_sub_zero in Heps.
    set (eps := d * x1 * x2 * y1 * y2) in *.
    set (e1 := a * x1 * x1 + y1 * y1 - (1 + d * x1 * x1 * y1 * y1)) in *.
    set (e2 := a * x2 * x2 + y2 * y2 - (1 + d * x2 * x2 * y2 * y2)) in *.
    set (ea := ra * ra - a) in *.
    set (ee := eps * eps - 1) in *.
    (* non-vanishing of the coordinates *)
    assert (Hnz : ~ eps == 0).
    { intros E. apply (one_nz p Hp).
      assert (E1 : 1 == eps * eps - ee) by (unfold ee; ering).
      rewrite E1, Heps, E. ering. }
    assert (Hx1 : ~ x1 == 0).
    { intros E. apply Hnz. unfold eps. rewrite E. ering. }
    assert (Hy1 : ~ y1 == 0).
    { intros E. apply Hnz. unfold eps. rewrite E. ering. }
    assert (Hy2 : ~ y2 == 0).
    { intros E. apply Hnz. unfold eps. rewrite E. ering. }
    (* the two Bernstein-Lange identities *)
    assert (Kp : (ra * x1 + eps * y1) * (ra * x1 + eps * y1)
                 == d * ((x1 * y1 * (ra * x2 + y2)) * (x1 * y1 * (ra * x2 + y2)))).
    { apply eqm_sub_zero.
      assert (E : (ra * x1 + eps * y1) * (ra * x1 + eps * y1)
                  - d * ((x1 * y1 * (ra * x2 + y2)) * (x1 * y1 * (ra * x2 + y2)))
                  == e1 - d * x1 * x1 * y1 * y1 * e2 - ee
                     + ea * (x1 * x1 - d * x1 * x1 * y1 * y1 * x2 * x2) + ee * y1 * y1).
      { unfold e1, e2, ea, ee, eps. ering. }
      rewrite E, H1, H2, Hra, Heps. ering. }
    assert (Km : (ra * x1 - eps * y1) * (ra * x1 - eps * y1)
                 == d * ((x1 * y1 * (ra * x2 - y2)) * (x1 * y1 * (ra * x2 - y2)))).
    { apply eqm_sub_zero.
      assert (E : (ra * x1 - eps * y1) * (ra * x1 - eps * y1)
                  - d * ((x1 * y1 * (ra * x2 - y2)) * (x1 * y1 * (ra * x2 - y2)))
                  == e1 - d * x1 * x1 * y1 * y1 * e2 - ee
                     + ea * (x1 * x1 - d * x1 * x1 * y1 * y1 * x2 * x2) + ee * y1 * y1).
      { unfold e1, e2, ea, ee, eps. ering. }
      rewrite E, H1, H2, Hra, Heps. ering. }
    destruct (eqm_dec p (ra * x2 + y2) 0) as [Zp | Zp].
    - destruct (eqm_dec p (ra * x2 - y2) 0) as [Zm | Zm].
      + (* both vanish: 2 y2 = 0 *)
        assert (E : 2 * y2 == 0).
        { assert (E0 : 2 * y2 == (ra * x2 + y2) - (ra * x2 - y2)) by ering.
          rewrite E0, Zp, Zm. ering. }
        destruct (eqm_mul_zero p Hp _ _ E) as [E2 | E2].
        * exact (two_nz p Hp2 E2).
        * exact (Hy2 E2).
      + apply (square_quot_absurd _ _ Km).
        apply (eqm_mul_nz p Hp); [ apply (eqm_mul_nz p Hp); assumption | exact Zm ].
    - apply (square_quot_absurd _ _ Kp).
      apply (eqm_mul_nz p Hp); [ apply (eqm_mul_nz p Hp); assumption | exact Zp ].
  Qed.

  Theorem ed_complete : forall x1 y1 x2 y2,
    on_curve p a d (x1, y1) -> on_curve p a d (x2, y2) ->
    (1 + d * x1 * x2 * y1 * y2) mod p <> 0 /\ (1 - d * x1 * x2 * y1 * y2) mod p <> 0.
  Proof.
    intros x1 y1 x2 y2 H1 H2.
    split; intros E; apply eqm_zero_iff in E;
      apply (eps_square_absurd x1 y1 x2 y2 H1 H2).
    - assert (E0 : d * x1 * x2 * y1 * y2 * (d * x1 * x2 * y1 * y2)
                   == 1 + (1 + d * x1 * x2 * y1 * y2) * (d * x1 * x2 * y1 * y2 - 1)) by ering.
      rewrite E0, E. ering.
    - assert (E0 : d * x1 * x2 * y1 * y2 * (d * x1 * x2 * y1 * y2)
                   == 1 - (1 - d * x1 * x2 * y1 * y2) * (d * x1 * x2 * y1 * y2 + 1)) by ering.
      rewrite E0, E. ering.
  Qed.

  (* eqm forms, convenient for the later files *)
  Lemma ed_complete_p : forall x1 y1 x2 y2,
    on_curve p a d (x1, y1) -> on_curve p a d (x2, y2) ->
    ~ 1 + d * x1 * x2 * y1 * y2 == 0.
  Proof.
    intros x1 y1 x2 y2 H1 H2 E. apply eqm_zero_iff in E.
    exact (proj1 (ed_complete x1 y1 x2 y2 H1 H2) E).
  Qed.

  Lemma ed_complete_m : forall x1 y1 x2 y2,
    on_curve p a d (x1, y1) -> on_curve p a d (x2, y2) ->
    ~ 1 - d * x1 * x2 * y1 * y2 == 0.
  Proof.
    intros x1 y1 x2 y2 H1 H2 E. apply eqm_zero_iff in E.
    exact (proj2 (ed_complete x1 y1 x2 y2 H1 H2) E).
  Qed.
End Complete.

Print Assumptions ed_complete.

(* C11 (Goldilocks part): byte / text codecs and comparisons of ffg.Element,
   on the one-limb model Model/FfgLimbs.v + Model/FfgConv.v.

   SetBytes (any length) and SetString (any decimal text) yield the canonical
   Montgomery representative of the residue mod pg; Bytes (8 bytes, big
   endian), String and ToBigIntRegular return the canonical value in [0,pg);
   every there-and-back conversion is the identity; Equal / IsZero / Cmp /
   LexicographicallyLargest agree with the canonical integers.

   NOTE: Model/FfgConv.v (definitions) and Proofs/FfgConv.v (SetBigInt
   theorems) share their short name; the latter is only [Require]d here and
   used through the qualified name Verif.Proofs.FfgConv. *)
From Coq Require Import ZArith List Bool Lia.
From Verif Require Import Lib.Params Lib.Words Lib.Octets Lib.Decimal Model.Outcome
  Model.FfgLimbs Model.FfgConv.
From Verif Require Import Proofs.OctetsProofs Proofs.DecimalProofs Proofs.FfgArith.
From Verif Require Proofs.FfgOps Proofs.FfgConv.
From Verif Require Gen.FfgConsts.
Import ListNotations.
Local Open Scope Z_scope.

Local Ltac Zify.zify_post_hook ::= Z.div_mod_to_equations.

(* the finished facts this file rests on *)
Local Definition setBigInt_ok := Verif.Proofs.FfgConv.setBigInt_correct.
Local Definition fromMont_ok := Verif.Proofs.FfgOps.fromMontGeneric_correct.

Lemma fromMont_val : forall z, canon z -> fromMontGeneric z = mval z.
Proof. intros z Hz. apply (fromMont_ok z Hz). Qed.

Lemma mval_lt_W : forall z, 0 <= mval z < 256 ^ Z.of_nat 8.
Proof.
  intros z. pose proof (mval_canon z) as H. unfold canon in H.
  change (256 ^ Z.of_nat 8) with W. pose proof pg_lt_W. lia.
Qed.

(* an integer already in [0,pg) is mapped to the element having that value *)
Lemma setBigInt_mval : forall z, canon z -> setBigInt (mval z) = z.
Proof.
  intros z Hz. destruct (setBigInt_ok (mval z)) as [Hc Hm].
  apply mval_inj; [ exact Hc | exact Hz | ].
  rewrite Hm. apply Z.mod_small. apply mval_canon.
Qed.

(* ------------------------------------------------------------------ *)
(** * Constants *)

Lemma lex_lit_ok :
  nth 0 FfgConsts.biglits_Element_LexicographicallyLargest 0 = (pg - 1) / 2 + 1.
Proof. vm_compute. reflexivity. Qed.

(* ------------------------------------------------------------------ *)
(** * SetBytes: a big-endian byte string of ANY length *)

Theorem setBytes_correct : forall e, Forall is_byte e ->
  canon (setBytes e) /\ mval (setBytes e) = be_val e mod pg.
Proof. intros e _. unfold setBytes. apply setBigInt_ok. Qed.

(* leading zero bytes do not matter, only the integer read does *)
Corollary setBytes_congr : forall e f, be_val e mod pg = be_val f mod pg ->
  setBytes e = setBytes f.
Proof.
  intros e f H. unfold setBytes. apply Verif.Proofs.FfgConv.setBigInt_eq_iff. exact H.
Qed.

(* ------------------------------------------------------------------ *)
(** * SetString *)

Theorem setString_correct : forall s v, parse_dec s = Some v ->
  exists z, setString s = Ok z /\ canon z /\ mval z = v mod pg.
Proof.
  intros s v H. unfold setString. rewrite H. exists (setBigInt v).
  split; [ reflexivity | apply setBigInt_ok ].
Qed.

(* the Go code panics on text that is not a base-10 integer *)
Theorem setString_panic : forall s, parse_dec s = None -> setString s = Panic.
Proof. intros s H. unfold setString. rewrite H. reflexivity. Qed.

Corollary setString_ok_iff : forall s,
  (exists z, setString s = Ok z) <-> (exists v, dec_syntax s v).
Proof.
  intros s. split.
  - intros [z H]. unfold setString in H. destruct (parse_dec s) as [v|] eqn:E; [ | discriminate ].
    exists v. apply parse_dec_some_iff. exact E.
  - intros [v H]. apply parse_dec_some_iff in H.
    destruct (setString_correct s v H) as (z & Hz & _). exists z. exact Hz.
Qed.

(* never an error value, only Ok or Panic *)
Corollary setString_total : forall s, setString s <> Err.
Proof. intros s. unfold setString. destruct (parse_dec s); discriminate. Qed.

(* ------------------------------------------------------------------ *)
(** * Bytes, String, ToBigIntRegular: the canonical value *)

Theorem bytesOf_correct : forall z, canon z -> bytesOf z = be_bytes 8 (mval z).
Proof. intros z Hz. unfold bytesOf. rewrite (fromMont_val z Hz). reflexivity. Qed.

Corollary bytesOf_length : forall z, length (bytesOf z) = 8%nat.
Proof. intros z. unfold bytesOf. apply be_bytes_length. Qed.

Corollary bytesOf_bytes : forall z, Forall is_byte (bytesOf z).
Proof. intros z. unfold bytesOf. apply be_bytes_bytes. Qed.

Corollary be_val_bytesOf : forall z, canon z -> be_val (bytesOf z) = mval z.
Proof.
  intros z Hz. rewrite (bytesOf_correct z Hz), be_val_be_bytes.
  apply Z.mod_small. apply mval_lt_W.
Qed.

Theorem stringOf_correct : forall z, canon z -> stringOf z = dec_of_nonneg (mval z).
Proof. intros z Hz. unfold stringOf. rewrite (fromMont_val z Hz). reflexivity. Qed.

(* the text is the plain decimal form of the canonical value: never signed *)
Corollary stringOf_dec_of_Z : forall z, canon z -> stringOf z = dec_of_Z (mval z).
Proof.
  intros z Hz. rewrite (stringOf_correct z Hz).
  pose proof (mval_canon z) as H. unfold canon in H.
  symmetry. apply dec_of_Z_shape. lia.
Qed.

Theorem toBigIntRegular_correct : forall z, canon z ->
  toBigIntRegular z = mval z /\ 0 <= toBigIntRegular z < pg.
Proof.
  intros z Hz. split.
  - apply Verif.Proofs.FfgConv.toBigIntRegular_correct. exact Hz.
  - apply Verif.Proofs.FfgConv.toBigIntRegular_range. exact Hz.
Qed.

(* ------------------------------------------------------------------ *)
(** * Round trips *)

Theorem setBytes_bytesOf : forall z, canon z -> setBytes (bytesOf z) = z.
Proof.
  intros z Hz. unfold setBytes. rewrite (be_val_bytesOf z Hz).
  apply setBigInt_mval. exact Hz.
Qed.

Theorem bytesOf_setBytes : forall e, Forall is_byte e ->
  bytesOf (setBytes e) = be_bytes 8 (be_val e mod pg).
Proof.
  intros e He. destruct (setBytes_correct e He) as [Hc Hm].
  rewrite (bytesOf_correct _ Hc), Hm. reflexivity.
Qed.

(* on 8-byte strings that encode a value below pg, Bytes . SetBytes = id *)
Corollary bytesOf_setBytes_canonical : forall e, Forall is_byte e -> length e = 8%nat ->
  be_val e < pg -> bytesOf (setBytes e) = e.
Proof.
  intros e He Hl Hv. rewrite (bytesOf_setBytes e He).
  pose proof (be_val_bound e He) as Hb.
  rewrite Z.mod_small by lia. rewrite <- Hl. apply be_bytes_be_val. exact He.
Qed.

Theorem setString_stringOf : forall z, canon z -> setString (stringOf z) = Ok z.
Proof.
  intros z Hz. rewrite (stringOf_correct z Hz). unfold setString.
  pose proof (mval_canon z) as H. unfold canon in H.
  rewrite parse_dec_dec_of_nonneg by lia.
  rewrite (setBigInt_mval z Hz). reflexivity.
Qed.

Theorem stringOf_setString : forall s v, parse_dec s = Some v ->
  exists z, setString s = Ok z /\ stringOf z = dec_of_nonneg (v mod pg).
Proof.
  intros s v H. destruct (setString_correct s v H) as (z & Hs & Hc & Hm).
  exists z. split; [ exact Hs | ]. rewrite (stringOf_correct z Hc), Hm. reflexivity.
Qed.

Theorem setBigInt_toBigIntRegular : forall z, canon z -> setBigInt (toBigIntRegular z) = z.
Proof. exact Verif.Proofs.FfgConv.setBigInt_toBigIntRegular. Qed.

Theorem toBigIntRegular_setBigInt : forall v, toBigIntRegular (setBigInt v) = v mod pg.
Proof. exact Verif.Proofs.FfgConv.toBigIntRegular_setBigInt. Qed.

(* ------------------------------------------------------------------ *)
(** * Equal, IsZero, Cmp, LexicographicallyLargest *)

Theorem equal_correct : forall a b, canon a -> canon b ->
  (equal a b = true <-> mval a = mval b).
Proof.
  intros a b Ha Hb. unfold equal. rewrite Z.eqb_eq. split.
  - intros ->. reflexivity.
  - apply mval_inj; assumption.
Qed.

Theorem isZero_correct : forall z, canon z -> (isZero z = true <-> mval z = 0).
Proof.
  intros z Hz. unfold isZero. rewrite Z.eqb_eq. symmetry. apply mval_zero_iff. exact Hz.
Qed.

(* three-way comparison of the canonical integers: 1 / 0 / -1 *)
Theorem cmp_correct : forall a b, canon a -> canon b ->
  cmp a b = match mval a ?= mval b with Eq => 0 | Lt => -1 | Gt => 1 end.
Proof.
  intros a b Ha Hb. unfold cmp. cbv zeta.
  rewrite (fromMont_val a Ha), (fromMont_val b Hb).
  rewrite Z.gtb_ltb.
  destruct (Z.compare_spec (mval a) (mval b)) as [E | E | E].
  - rewrite E, !Z.ltb_irrefl. reflexivity.
  - destruct (Z.ltb_spec (mval b) (mval a)); [ lia | ].
    destruct (Z.ltb_spec (mval a) (mval b)); [ reflexivity | lia ].
  - destruct (Z.ltb_spec (mval b) (mval a)); [ reflexivity | lia ].
Qed.

Corollary cmp_spec : forall a b, canon a -> canon b ->
  (cmp a b = 1 <-> mval a > mval b) /\
  (cmp a b = 0 <-> mval a = mval b) /\
  (cmp a b = -1 <-> mval a < mval b).
Proof.
  intros a b Ha Hb. rewrite (cmp_correct a b Ha Hb).
  destruct (Z.compare_spec (mval a) (mval b)); repeat split; intros; try lia; try discriminate.
Qed.

Theorem lexLargest_correct : forall z, canon z ->
  (lexLargest z = true <-> mval z > (pg - 1) / 2).
Proof.
  intros z Hz. unfold lexLargest. cbv zeta.
  rewrite (fromMont_val z Hz), lex_lit_ok. unfold sub64.
  destruct (Z.ltb_spec (mval z - ((pg - 1) / 2 + 1) - 0) 0) as [H | H].
  - split; [ discriminate | lia ].
  - split; [ lia | reflexivity ].
Qed.

(* z and -z: exactly one of a nonzero pair is "largest" (pg is odd) *)
Corollary lexLargest_threshold : (pg - 1) / 2 = 9223372034707292160.
Proof. reflexivity. Qed.

Print Assumptions setBytes_correct.
Print Assumptions setString_correct.
Print Assumptions setString_panic.
Print Assumptions bytesOf_correct.
Print Assumptions stringOf_correct.
Print Assumptions toBigIntRegular_correct.
Print Assumptions setBytes_bytesOf.
Print Assumptions bytesOf_setBytes_canonical.
Print Assumptions setString_stringOf.
Print Assumptions stringOf_setString.
Print Assumptions setBigInt_toBigIntRegular.
Print Assumptions toBigIntRegular_setBigInt.
Print Assumptions equal_correct.
Print Assumptions isZero_correct.
Print Assumptions cmp_correct.
Print Assumptions lexLargest_correct.

(* C07: the hash entry points reject out-of-domain inputs instead of reducing
   them.  Exact acceptance domains of the Poseidon entry points
   (Model/Poseidon.v, any round numbers / tables, 16 widths) and of the MiMC7
   entry points (Model/Mimc7.v); accepted vectors never alias mod q.

   Facts found on the way and proved below (they do NOT follow the property
   text): mimc7.Hash does not constrain its key, mimc7.HashGeneric does not
   constrain its iv, and MIMC7Hash / MIMC7HashGeneric take arbitrary integers:
   all of these are silently reduced mod q (theorems mimc7_*_aliases). *)
From Coq Require Import ZArith List Bool Lia.
From Verif Require Import Lib.Params Lib.Octets Spec.MiMC7Spec
                          Model.Outcome Model.Utils.
From Verif Require Model.Poseidon Model.Mimc7.
From Verif Require Proofs.Mimc7Proofs.
Import ListNotations.
Local Open Scope Z_scope.

Lemma q_pos : 0 < q.
Proof. reflexivity. Qed.

Local Opaque q.

Definition in_field (v : Z) : Prop := 0 <= v < q.

(* ------------------------------------------------------------------ *)
(** * The field guards *)

Theorem CheckBigIntInField_spec : forall a,
  CheckBigIntInField q a = true <-> 0 <= a < q.
Proof.
  intros a. unfold CheckBigIntInField.
  rewrite andb_true_iff, negb_true_iff, Z.ltb_lt, Z.ltb_ge. lia.
Qed.

Theorem CheckBigIntArrayInField_spec : forall arr,
  CheckBigIntArrayInField q arr = true <-> Forall (fun v => 0 <= v < q) arr.
Proof.
  intros arr. unfold CheckBigIntArrayInField.
  rewrite forallb_forall, Forall_forall.
  split; intros H x Hx; apply CheckBigIntInField_spec; apply H; exact Hx.
Qed.

Lemma CheckBigIntInField_false : forall a,
  CheckBigIntInField q a = false <-> ~ (0 <= a < q).
Proof.
  intros a. rewrite <- CheckBigIntInField_spec.
  destruct (CheckBigIntInField q a); split; congruence.
Qed.

Lemma CheckBigIntArrayInField_false : forall arr,
  CheckBigIntArrayInField q arr = false <-> ~ Forall (fun v => 0 <= v < q) arr.
Proof.
  intros arr. rewrite <- CheckBigIntArrayInField_spec.
  destruct (CheckBigIntArrayInField q arr); split; congruence.
Qed.

(* ------------------------------------------------------------------ *)
(** * No aliasing among accepted vectors *)

(* two distinct vectors of field elements are never elementwise congruent *)
Theorem no_alias : forall v v',
  Forall (fun a => 0 <= a < q) v -> Forall (fun a => 0 <= a < q) v' ->
  v <> v' -> ~ Forall2 (fun a b => a mod q = b mod q) v v'.
Proof.
  intros v v' Hv Hv' Hne H2. apply Hne. clear Hne.
  induction H2 as [|a b l l' Hab _ IH]; [reflexivity|].
  inversion Hv as [|? ? Ha Hl]; subst. inversion Hv' as [|? ? Hb Hl']; subst.
  rewrite (Z.mod_small a), (Z.mod_small b) in Hab by assumption.
  subst b. f_equal. apply IH; assumption.
Qed.
Print Assumptions no_alias.

Lemma res_cases {A} (r : res A) :
  r <> Panic -> (is_ok r = true \/ r = Err).
Proof. destruct r; intros H; [left; reflexivity|right; reflexivity|congruence]. Qed.

(* ------------------------------------------------------------------ *)
(** * Poseidon *)

Section PoseidonDomain.
  Variable NROUNDSF : nat.
  Variable tables : list Poseidon.ptable.
  Hypothesis Htables : length tables = 16%nat.

  Notation HashWithStateEx := (Poseidon.HashWithStateEx q NROUNDSF tables).
  Notation HashWithState := (Poseidon.HashWithState q NROUNDSF tables).
  Notation PHash := (Poseidon.Hash q NROUNDSF tables).
  Notation HashEx := (Poseidon.HashEx q NROUNDSF tables).

  Definition poseidon_domain (inp : list Z) (cap nOuts : Z) : Prop :=
    (1 <= length inp <= 16)%nat /\
    Forall (fun v => 0 <= v < q) inp /\
    1 <= nOuts <= Z.of_nat (length inp) + 1 /\
    0 <= cap < q.

  Lemma tables_nth n : (1 <= n <= 16)%nat ->
    exists e, nth_error tables (S n - 2) = Some e.
  Proof.
    intros Hn. destruct (nth_error tables (S n - 2)) eqn:E; [eauto|].
    apply nth_error_None in E. lia.
  Qed.

  (* the table lookup is always defined once the guards have passed *)
  Theorem poseidon_never_panics : forall inp cap nOuts,
    HashWithStateEx inp cap nOuts <> Panic.
  Proof.
    intros inp cap nOuts. unfold Poseidon.HashWithStateEx. cbv zeta.
    destruct (Nat.eqb (length inp) 0 || Nat.ltb (length tables) (length inp)) eqn:E1;
      [discriminate|].
    destruct (negb (CheckBigIntArrayInField q inp)); [discriminate|].
    destruct ((nOuts <? 1) || (Z.of_nat (S (length inp)) <? nOuts)); [discriminate|].
    apply orb_false_iff in E1. destruct E1 as [E1a E1b].
    apply Nat.eqb_neq in E1a. apply Nat.ltb_ge in E1b. rewrite Htables in E1b.
    destruct (tables_nth (length inp)) as [e He]; [lia|]. rewrite He.
    destruct e as [[[[RP C] S_] M] P].
    destruct (negb (CheckBigIntInField q cap)); discriminate.
  Qed.

  Theorem poseidon_accepts_iff : forall inp cap nOuts,
    is_ok (HashWithStateEx inp cap nOuts) = true <-> poseidon_domain inp cap nOuts.
  Proof.
    intros inp cap nOuts. unfold poseidon_domain, Poseidon.HashWithStateEx. cbv zeta.
    destruct (Nat.eqb (length inp) 0 || Nat.ltb (length tables) (length inp)) eqn:E1.
    { cbn [is_ok]. split; [discriminate|]. intros (Hl & _).
      apply orb_true_iff in E1. rewrite Nat.eqb_eq, Nat.ltb_lt, Htables in E1. lia. }
    apply orb_false_iff in E1. destruct E1 as [E1a E1b].
    apply Nat.eqb_neq in E1a. apply Nat.ltb_ge in E1b. rewrite Htables in E1b.
    destruct (CheckBigIntArrayInField q inp) eqn:E2; cbn [negb].
    2:{ cbn [is_ok]. split; [discriminate|]. intros (_ & Hf & _).
        apply CheckBigIntArrayInField_false in E2. contradiction. }
    apply CheckBigIntArrayInField_spec in E2.
    destruct ((nOuts <? 1) || (Z.of_nat (S (length inp)) <? nOuts)) eqn:E3.
    { cbn [is_ok]. split; [discriminate|]. intros (_ & _ & Ho & _).
      apply orb_true_iff in E3. rewrite !Z.ltb_lt in E3. lia. }
    apply orb_false_iff in E3. rewrite !Z.ltb_ge in E3.
    destruct (tables_nth (length inp)) as [e He]; [lia|]. rewrite He.
    destruct e as [[[[RP C] S_] M] P].
    destruct (CheckBigIntInField q cap) eqn:E4; cbn [negb is_ok].
    - apply CheckBigIntInField_spec in E4.
      split; [intros _|reflexivity]. repeat split; try assumption; lia.
    - apply CheckBigIntInField_false in E4.
      split; [discriminate|]. intros (_ & _ & _ & Hc). contradiction.
  Qed.

  Theorem poseidon_err_iff : forall inp cap nOuts,
    HashWithStateEx inp cap nOuts = Err <-> ~ poseidon_domain inp cap nOuts.
  Proof.
    intros inp cap nOuts. rewrite <- poseidon_accepts_iff.
    pose proof (poseidon_never_panics inp cap nOuts) as Hp.
    destruct (HashWithStateEx inp cap nOuts); cbn [is_ok];
      split; intros; congruence.
  Qed.

  (* the form of the property text *)
  Corollary poseidon_accepts_iff' : forall inp cap nOuts,
    (HashWithStateEx inp cap nOuts <> Err /\ HashWithStateEx inp cap nOuts <> Panic)
    <-> poseidon_domain inp cap nOuts.
  Proof.
    intros inp cap nOuts. rewrite <- poseidon_accepts_iff.
    destruct (HashWithStateEx inp cap nOuts); cbn [is_ok];
      split; try (intros [? ?]); try split; congruence.
  Qed.

  (* --- wrappers --- *)

  Lemma HashWithState_is_ok inp cap :
    is_ok (HashWithState inp cap) = is_ok (HashWithStateEx inp cap 1).
  Proof.
    unfold Poseidon.HashWithState.
    destruct (HashWithStateEx inp cap 1); reflexivity.
  Qed.

  Theorem poseidon_HashWithState_never_panics : forall inp cap,
    HashWithState inp cap <> Panic.
  Proof.
    intros inp cap. pose proof (poseidon_never_panics inp cap 1) as H.
    unfold Poseidon.HashWithState.
    destruct (HashWithStateEx inp cap 1); congruence.
  Qed.

  Theorem poseidon_HashWithState_accepts_iff : forall inp cap,
    is_ok (HashWithState inp cap) = true <->
    (1 <= length inp <= 16)%nat /\ Forall (fun v => 0 <= v < q) inp /\ 0 <= cap < q.
  Proof.
    intros inp cap. rewrite HashWithState_is_ok, poseidon_accepts_iff.
    unfold poseidon_domain. split.
    - intros (H1 & H2 & _ & H4). auto.
    - intros (H1 & H2 & H4). repeat split; try assumption; try tauto; lia.
  Qed.

  Theorem poseidon_Hash_never_panics : forall inp, PHash inp <> Panic.
  Proof. intros inp. apply poseidon_HashWithState_never_panics. Qed.

  Theorem poseidon_Hash_accepts_iff : forall inp,
    is_ok (PHash inp) = true <->
    (1 <= length inp <= 16)%nat /\ Forall (fun v => 0 <= v < q) inp.
  Proof.
    intros inp. unfold Poseidon.Hash. rewrite poseidon_HashWithState_accepts_iff.
    pose proof q_pos. split.
    - intros (H1 & H2 & _). auto.
    - intros (H1 & H2). repeat split; try assumption; try tauto; lia.
  Qed.

  Theorem poseidon_HashEx_never_panics : forall inp nOuts, HashEx inp nOuts <> Panic.
  Proof. intros inp nOuts. apply poseidon_never_panics. Qed.

  Theorem poseidon_HashEx_accepts_iff : forall inp nOuts,
    is_ok (HashEx inp nOuts) = true <->
    (1 <= length inp <= 16)%nat /\ Forall (fun v => 0 <= v < q) inp /\
    1 <= nOuts <= Z.of_nat (length inp) + 1.
  Proof.
    intros inp nOuts. unfold Poseidon.HashEx. rewrite poseidon_accepts_iff.
    unfold poseidon_domain. pose proof q_pos. split.
    - intros (H1 & H2 & H3 & _). auto.
    - intros (H1 & H2 & H3). repeat split; try assumption; try tauto; lia.
  Qed.

  (* every wrapper returns Err exactly outside its domain *)
  Corollary poseidon_HashWithState_err_iff : forall inp cap,
    HashWithState inp cap = Err <->
    ~ ((1 <= length inp <= 16)%nat /\ Forall (fun v => 0 <= v < q) inp /\ 0 <= cap < q).
  Proof.
    intros inp cap. rewrite <- poseidon_HashWithState_accepts_iff.
    pose proof (poseidon_HashWithState_never_panics inp cap) as Hp.
    destruct (HashWithState inp cap); cbn [is_ok]; split; intros; congruence.
  Qed.

  Corollary poseidon_Hash_err_iff : forall inp,
    PHash inp = Err <->
    ~ ((1 <= length inp <= 16)%nat /\ Forall (fun v => 0 <= v < q) inp).
  Proof.
    intros inp. rewrite <- poseidon_Hash_accepts_iff.
    pose proof (poseidon_Hash_never_panics inp) as Hp.
    destruct (PHash inp); cbn [is_ok]; split; intros; congruence.
  Qed.

  Corollary poseidon_HashEx_err_iff : forall inp nOuts,
    HashEx inp nOuts = Err <->
    ~ ((1 <= length inp <= 16)%nat /\ Forall (fun v => 0 <= v < q) inp /\
       1 <= nOuts <= Z.of_nat (length inp) + 1).
  Proof.
    intros inp nOuts. rewrite <- poseidon_HashEx_accepts_iff.
    pose proof (poseidon_HashEx_never_panics inp nOuts) as Hp.
    destruct (HashEx inp nOuts); cbn [is_ok]; split; intros; congruence.
  Qed.

  (* accepted input vectors (and capacities) never alias mod q *)
  Corollary poseidon_no_alias : forall v v',
    is_ok (PHash v) = true -> is_ok (PHash v') = true ->
    v <> v' -> ~ Forall2 (fun a b => a mod q = b mod q) v v'.
  Proof.
    intros v v' H H'. apply poseidon_Hash_accepts_iff in H, H'.
    apply no_alias; tauto.
  Qed.

  Corollary poseidon_no_alias_state : forall v cap n v' cap' n',
    is_ok (HashWithStateEx v cap n) = true ->
    is_ok (HashWithStateEx v' cap' n') = true ->
    cap :: v <> cap' :: v' ->
    ~ Forall2 (fun a b => a mod q = b mod q) (cap :: v) (cap' :: v').
  Proof.
    intros v cap n v' cap' n' H H'. apply poseidon_accepts_iff in H, H'.
    destruct H as (_ & Hv & _ & Hc). destruct H' as (_ & Hv' & _ & Hc').
    apply no_alias; constructor; assumption.
  Qed.
End PoseidonDomain.

Print Assumptions poseidon_never_panics.
Print Assumptions poseidon_accepts_iff.
Print Assumptions poseidon_err_iff.
Print Assumptions poseidon_HashWithState_accepts_iff.
Print Assumptions poseidon_Hash_accepts_iff.
Print Assumptions poseidon_HashEx_accepts_iff.
Print Assumptions poseidon_no_alias.

(* ------------------------------------------------------------------ *)
(** * MiMC7 *)

Module M := Proofs.Mimc7Proofs.

Lemma mimc7_check_iff arr :
  CheckBigIntArrayInField Mimc7.Q arr = true <-> Forall (fun v => 0 <= v < q) arr.
Proof. apply M.check_array_iff. Qed.

Lemma mimc7_check_false arr :
  CheckBigIntArrayInField Mimc7.Q arr = false <-> ~ Forall (fun v => 0 <= v < q) arr.
Proof.
  rewrite <- mimc7_check_iff.
  destruct (CheckBigIntArrayInField Mimc7.Q arr); split; congruence.
Qed.

(* Hash: the array must be in the field; the KEY IS NOT CONSTRAINED *)
Theorem mimc7_Hash_accepts_iff : forall arr key,
  is_ok (Mimc7.Hash arr key) = true <-> Forall (fun v => 0 <= v < q) arr.
Proof.
  intros arr key. rewrite <- mimc7_check_iff. unfold Mimc7.Hash.
  destruct (CheckBigIntArrayInField Mimc7.Q arr); cbn [negb is_ok];
    split; congruence.
Qed.

Theorem mimc7_Hash_never_panics : forall arr key, Mimc7.Hash arr key <> Panic.
Proof.
  intros arr key. unfold Mimc7.Hash.
  destruct (negb (CheckBigIntArrayInField Mimc7.Q arr)); discriminate.
Qed.

Theorem mimc7_Hash_err_iff : forall arr key,
  Mimc7.Hash arr key = Err <-> ~ Forall (fun v => 0 <= v < q) arr.
Proof.
  intros arr key. rewrite <- mimc7_Hash_accepts_iff with (key := key).
  pose proof (mimc7_Hash_never_panics arr key) as Hp.
  destruct (Mimc7.Hash arr key); cbn [is_ok]; split; intros; congruence.
Qed.

Theorem mimc7_Hash_key_unconstrained : forall arr key key',
  is_ok (Mimc7.Hash arr key) = is_ok (Mimc7.Hash arr key').
Proof.
  intros arr key key'. unfold Mimc7.Hash.
  destruct (negb (CheckBigIntArrayInField Mimc7.Q arr)); reflexivity.
Qed.

(* HashGeneric with a positive round count: likewise; iv not constrained *)
Theorem mimc7_HashGeneric_accepts_iff : forall iv arr n, 1 <= n ->
  (is_ok (Mimc7.HashGeneric iv arr n) = true <-> Forall (fun v => 0 <= v < q) arr).
Proof.
  intros iv arr n Hn. rewrite <- mimc7_check_iff.
  destruct (CheckBigIntArrayInField Mimc7.Q arr) eqn:E.
  - rewrite M.hash_generic_conforms by assumption. cbn [is_ok]. tauto.
  - unfold Mimc7.HashGeneric. rewrite E. cbn [negb is_ok]. tauto.
Qed.

Theorem mimc7_HashGeneric_never_panics : forall iv arr n, 1 <= n ->
  Mimc7.HashGeneric iv arr n <> Panic.
Proof.
  intros iv arr n Hn.
  destruct (CheckBigIntArrayInField Mimc7.Q arr) eqn:E.
  - rewrite M.hash_generic_conforms by assumption. discriminate.
  - unfold Mimc7.HashGeneric. rewrite E. discriminate.
Qed.

(* exact behaviour with a non-positive round count: the field guard still
   comes first; then an empty array returns iv, a non-empty one panics *)
Theorem mimc7_HashGeneric_nonpositive : forall iv arr n, n <= 0 ->
  (~ Forall (fun v => 0 <= v < q) arr -> Mimc7.HashGeneric iv arr n = Err) /\
  (arr = [] -> Mimc7.HashGeneric iv arr n = Ok iv) /\
  (Forall (fun v => 0 <= v < q) arr -> arr <> [] -> Mimc7.HashGeneric iv arr n = Panic).
Proof.
  intros iv arr n Hn. rewrite (M.hash_generic_nonpositive iv arr n Hn).
  repeat split.
  - intros H. apply mimc7_check_false in H. rewrite H. reflexivity.
  - intros ->. reflexivity.
  - intros H Hne. apply mimc7_check_iff in H. rewrite H. cbn [negb].
    destruct arr; [congruence|reflexivity].
Qed.

Theorem mimc7_HashGeneric_panic_iff : forall iv arr n,
  Mimc7.HashGeneric iv arr n = Panic <->
  n <= 0 /\ arr <> [] /\ Forall (fun v => 0 <= v < q) arr.
Proof.
  intros iv arr n. destruct (Z_le_gt_dec n 0) as [Hn|Hn].
  - destruct (mimc7_HashGeneric_nonpositive iv arr n Hn) as (H1 & H2 & H3).
    split.
    + intros HP. split; [exact Hn|].
      destruct (CheckBigIntArrayInField Mimc7.Q arr) eqn:E.
      * apply mimc7_check_iff in E. split; [|exact E].
        intros ->. rewrite H2 in HP by reflexivity. discriminate.
      * apply mimc7_check_false in E. rewrite H1 in HP by exact E. discriminate.
    + intros (_ & Hne & Hf). apply H3; assumption.
  - split.
    + intros HP. exfalso. revert HP. apply mimc7_HashGeneric_never_panics. lia.
    + intros (H & _). lia.
Qed.

(* HashBytes never fails on a byte string *)
Theorem mimc7_HashBytes_always_ok : forall b, Forall is_byte b ->
  is_ok (Mimc7.HashBytes b) = true.
Proof. intros b Hb. rewrite M.hashbytes_conforms by exact Hb. reflexivity. Qed.

Corollary mimc7_no_alias : forall v v' key key',
  is_ok (Mimc7.Hash v key) = true -> is_ok (Mimc7.Hash v' key') = true ->
  v <> v' -> ~ Forall2 (fun a b => a mod q = b mod q) v v'.
Proof.
  intros v v' key key' H H'. apply mimc7_Hash_accepts_iff in H, H'.
  apply no_alias; assumption.
Qed.

(* ---------------------------------------------------------------- *)
(** ** Inputs that ARE reduced instead of rejected *)

Lemma spec_MIMC7_congr x x' k k' :
  x mod q = x' mod q -> k mod q = k' mod q -> spec_MIMC7 x k = spec_MIMC7 x' k'.
Proof.
  intros Hx Hk. unfold spec_MIMC7.
  rewrite <- (M.spec_mimc7_mod _ x k), <- (M.spec_mimc7_mod _ x' k'), Hx, Hk.
  reflexivity.
Qed.

(* MIMC7Hash has no guard at all: congruent arguments give the same digest *)
Theorem mimc7_MIMC7Hash_aliases : forall x x' k k',
  x mod q = x' mod q -> k mod q = k' mod q ->
  Mimc7.MIMC7Hash x k = Mimc7.MIMC7Hash x' k'.
Proof.
  intros x x' k k' Hx Hk. rewrite !M.mimc7_conforms_any.
  apply spec_MIMC7_congr; assumption.
Qed.

Theorem mimc7_MIMC7HashGeneric_aliases : forall x x' k k' n,
  x mod q = x' mod q -> k mod q = k' mod q ->
  Mimc7.MIMC7HashGeneric x k n = Mimc7.MIMC7HashGeneric x' k' n.
Proof.
  intros x x' k k' n Hx Hk.
  rewrite (M.mimc7_generic_reduces_args x k), (M.mimc7_generic_reduces_args x' k').
  rewrite Hx, Hk. reflexivity.
Qed.

(* the key of Hash: with a non-empty array, keys congruent mod q (e.g. k and
   k + q, or a negative key) give the same result *)
Theorem mimc7_Hash_key_aliases : forall arr k k',
  arr <> [] -> k mod q = k' mod q ->
  Mimc7.Hash arr (Some k) = Mimc7.Hash arr (Some k').
Proof.
  intros arr k k' Hne Hk.
  destruct (CheckBigIntArrayInField Mimc7.Q arr) eqn:E.
  2:{ rewrite !M.hash_rejects by exact E. reflexivity. }
  rewrite !M.hash_conforms by exact E. f_equal.
  destruct arr as [|m arr]; [congruence|].
  unfold spec_hash. cbn [fold_left]. f_equal.
  rewrite (spec_MIMC7_congr m m k k' eq_refl Hk).
  pose proof q_pos as Hq.
  rewrite <- !Z.add_assoc.
  rewrite <- (Z.add_mod_idemp_l k), <- (Z.add_mod_idemp_l k') by lia.
  rewrite Hk. reflexivity.
Qed.

(* ... and with an empty array the key comes back unreduced *)
Theorem mimc7_Hash_empty_returns_key : forall k, Mimc7.Hash [] (Some k) = Ok k.
Proof. intros k. reflexivity. Qed.

Theorem mimc7_HashGeneric_iv_aliases : forall arr iv iv' n,
  arr <> [] -> iv mod q = iv' mod q ->
  Mimc7.HashGeneric iv arr n = Mimc7.HashGeneric iv' arr n.
Proof.
  intros arr iv iv' n Hne Hiv. unfold Mimc7.HashGeneric.
  destruct (negb (CheckBigIntArrayInField Mimc7.Q arr)); [reflexivity|].
  destruct arr as [|m arr]; [congruence|]. cbn [fold_left bind].
  rewrite (mimc7_MIMC7HashGeneric_aliases iv iv' m m n Hiv eq_refl). reflexivity.
Qed.

Print Assumptions CheckBigIntInField_spec.
Print Assumptions mimc7_Hash_accepts_iff.
Print Assumptions mimc7_HashGeneric_accepts_iff.
Print Assumptions mimc7_HashGeneric_never_panics.
Print Assumptions mimc7_HashGeneric_nonpositive.
Print Assumptions mimc7_HashGeneric_panic_iff.
Print Assumptions mimc7_HashBytes_always_ok.
Print Assumptions mimc7_no_alias.
Print Assumptions mimc7_MIMC7Hash_aliases.
Print Assumptions mimc7_MIMC7HashGeneric_aliases.
Print Assumptions mimc7_Hash_key_aliases.
Print Assumptions mimc7_HashGeneric_iv_aliases.

(* Part of the equality lemmas between the Gallina regenerated from the Go
   sources by tools/bigintgen (Gen/BigIntRoutines.v) and the hand-written models:
   the guards of poseidon.HashWithStateEx with its wrappers, and the guard of mimc7.Hash.
   The lemmas are split over Proofs/BigIntEq*.v so that an edit of one Go
   function breaks only the file of that function (and the files that use its
   lemma); Proofs/BigIntEqAll.v exports all of them. *)
From Coq Require Import ZArith List Bool Lia.
From Verif Require Import Lib.Params Lib.Octets Spec.Edwards Model.Outcome Model.Utils
  Model.BabyJubCore Model.BabyJub Model.Eddsa.
From Verif Require Gen.CurveConsts Model.Mimc7 Model.Poseidon.
From Verif Require Import Gen.BigIntRoutines.
From Verif Require Import Proofs.BigIntEqUtils.
Import ListNotations.
Local Open Scope Z_scope.

(* The external functions are never unfolded by the proofs below; keeping them
   opaque for the tactics makes a FAILING comparison (after an edit of the Go
   code) fail fast instead of normalising Fermat inversions or Tonelli-Shanks
   on symbolic arguments. *)
Local Opaque BabyJub.modinv BabyJub.modsqrt BabyJub.Mul BabyJub.Affine BabyJub.Projective
  Mimc7.MIMC7Hash HadesOpt.perm_opt Z.mul Z.add Z.sub Z.modulo Z.shiftr Z.shiftl Z.land Z.lor
  Z.ltb Z.gtb Z.geb Z.eqb.

(* ---- package mimc7: the guard and the initial value of Hash --------------- *)

(* the model of the part bigintgen does not translate (the loop of Hash) *)
Definition mimc7_absorb (arr : list Z) (r0 : Z) : Z :=
  fold_left (fun r m => (r + m + Mimc7.MIMC7Hash m r) mod Mimc7.Q) arr r0.

Lemma gen_mimc7_Hash_eq : forall arr key,
  mimc7_Hash mimc7_absorb arr key = Mimc7.Hash arr key.
Proof.
  intros arr key. unfold mimc7_Hash, Mimc7.Hash, mimc7_absorb.
  destruct key; reflexivity.
Qed.

(* ---- package poseidon: the guards of HashWithStateEx and its wrappers ----- *)

Section Poseidon.
  Variable NROUNDSF : nat.
  Variable tables : list Poseidon.ptable.
  (* len(NROUNDSP) in the Go source (a literal count in the generated file) *)
  Hypothesis tables_len : length tables = 16%nat.

  (* the model of the part bigintgen does not translate: table selection,
     the optimized Hades permutation, the first nOuts lanes *)
  Definition poseidon_hades (inpBI : list Z) (initState nOuts : Z) : res (list Z) :=
    match nth_error tables (S (length inpBI) - 2) with
    | None => Panic
    | Some (RP, C, S_, M, P) =>
        Ok (firstn (Z.to_nat nOuts)
              (HadesOpt.perm_opt Gen.CurveConsts.Q (Hades.sbox5 Gen.CurveConsts.Q)
                 (S (length inpBI)) NROUNDSF RP C S_ M P (initState :: inpBI)))
    end.

  Lemma gen_poseidon_HashWithStateEx_eq : forall inpBI initState nOuts,
    poseidon_HashWithStateEx poseidon_hades inpBI initState nOuts =
    Poseidon.HashWithStateEx Gen.CurveConsts.Q NROUNDSF tables inpBI initState nOuts.
  Proof.
    intros inpBI initState nOuts.
    unfold poseidon_HashWithStateEx, Poseidon.HashWithStateEx, poseidon_hades. cbv zeta.
    rewrite tables_len, Nat.add_1_r.
    destruct (Nat.eqb (length inpBI) 0) eqn:E0; [reflexivity|].
    destruct (Nat.ltb 16 (length inpBI)) eqn:E1; [reflexivity|]. cbn [orb].
    destruct (negb (Utils.CheckBigIntArrayInField Gen.CurveConsts.Q inpBI)); [reflexivity|].
    (* the nOuts guard, whatever its boolean spelling (a || b, !(!a && !b), ...) *)
    rewrite ?Z.gtb_ltb, ?Z.geb_leb, ?Z.leb_antisym.
    destruct (nOuts <? 1) eqn:EA; destruct (Z.of_nat (S (length inpBI)) <? nOuts) eqn:EB;
      cbn [orb andb negb]; try reflexivity.
    rewrite gen_utils_CheckBigIntInField_eq.
    apply Nat.eqb_neq in E0. apply Nat.ltb_ge in E1.
    destruct (nth_error tables (S (length inpBI) - 2)) as [[[[[RP C] S_] M] P]|] eqn:En.
    - reflexivity.
    - exfalso. apply nth_error_None in En. lia.
  Qed.

  Lemma gen_poseidon_HashWithState_eq : forall inpBI initState,
    poseidon_HashWithState poseidon_hades inpBI initState =
    Poseidon.HashWithState Gen.CurveConsts.Q NROUNDSF tables inpBI initState.
  Proof.
    intros. unfold poseidon_HashWithState, Poseidon.HashWithState.
    rewrite gen_poseidon_HashWithStateEx_eq. reflexivity.
  Qed.

  Lemma gen_poseidon_Hash_eq : forall inpBI,
    poseidon_Hash poseidon_hades inpBI = Poseidon.Hash Gen.CurveConsts.Q NROUNDSF tables inpBI.
  Proof.
    intros. unfold poseidon_Hash, Poseidon.Hash. apply gen_poseidon_HashWithState_eq.
  Qed.

  Lemma gen_poseidon_HashEx_eq : forall inpBI nOuts,
    poseidon_HashEx poseidon_hades inpBI nOuts =
    Poseidon.HashEx Gen.CurveConsts.Q NROUNDSF tables inpBI nOuts.
  Proof.
    intros. unfold poseidon_HashEx, Poseidon.HashEx. apply gen_poseidon_HashWithStateEx_eq.
  Qed.
End Poseidon.

(* ---- every lemma above is closed under the global context ---------------- *)
Print Assumptions gen_mimc7_Hash_eq.
Print Assumptions gen_poseidon_HashWithStateEx_eq.
Print Assumptions gen_poseidon_HashWithState_eq.
Print Assumptions gen_poseidon_Hash_eq.
Print Assumptions gen_poseidon_HashEx_eq.

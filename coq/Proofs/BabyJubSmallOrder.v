(* The eight points of order dividing 8 of BabyJubJub (multiples of T8): the
   8x8 addition table of the model (Projective, Add, Affine), and the fact
   that only the identity among them is in the prime-order subgroup.
   Computation is used only for  Mul i T8 = P_i (i < 8),  Mul 8 T8 = O  and
   comparisons of literals; the table follows from the group laws. *)
From Coq Require Import ZArith Znumtheory Lia Bool List.
From Verif Require Import Lib.Params Lib.Powmod Lib.NumberTheory Lib.Primes Spec.Edwards.
From Verif Require Import Model.BabyJubCore Model.BabyJub.
From Verif Require Import Proofs.EdwardsField Proofs.EdwardsGroup
  Proofs.BabyJubSmul Proofs.BabyJubGroup Proofs.BabyJubCoreProofs Proofs.BabyJubModel.
Import ListNotations.
Local Open Scope Z_scope.

(* a point of order 8 *)
Definition T8 : point :=
  (4342719913949491028786768530115087822524712248835451589697801404893164183326,
   4826523245007015323400664741523384119579596407052839571721035538011798951543).

(* its multiples 0*T8 .. 7*T8: the identity, (0,-1), the two points of order 4
   (y = 0), the four points of order 8 *)
Definition small8 : list point :=
  [ (0, 1);
    T8;
    (18930368022820495955728484915491405972470733850014661777449844430438130630919, 0);
    (4342719913949491028786768530115087822524712248835451589697801404893164183326,
     17061719626832259898845741003733890968968767993363194771977168648564009544074);
    (0, 21888242871839275222246405745257275088548364400416034343698204186575808495616);
    (17545522957889784193459637215142187266023652151580582754000402781682644312291,
     17061719626832259898845741003733890968968767993363194771977168648564009544074);
    (2957874849018779266517920829765869116077630550401372566248359756137677864698, 0);
    (17545522957889784193459637215142187266023652151580582754000402781682644312291,
     4826523245007015323400664741523384119579596407052839571721035538011798951543) ].

Definition point_eqb (P R : point) : bool :=
  (fst P =? fst R) && (snd P =? snd R).

Lemma point_eqb_eq : forall P R, point_eqb P R = true <-> P = R.
Proof.
  intros [x y] [u v]. unfold point_eqb. cbn [fst snd].
  rewrite andb_true_iff, !Z.eqb_eq. split.
  - intros [-> ->]. reflexivity.
  - intros E. injection E as -> ->. split; reflexivity.
Qed.

Definition nth8 (i : Z) : point := nth (Z.to_nat i) small8 (0, 0).

Definition idx8 : list Z := [0; 1; 2; 3; 4; 5; 6; 7].

(* ---- facts by computation ---- *)

Lemma Mul_i_T8 : forallb (fun i => point_eqb (Mul i T8) (nth8 i)) idx8 = true.
Proof. vm_compute. reflexivity. Qed.

Lemma Mul_8_T8 : Mul 8 T8 = (0, 1).
Proof. vm_compute. reflexivity. Qed.

Lemma T8_InCurve : InCurve T8 = true.
Proof. vm_compute. reflexivity. Qed.

Lemma T8_can : canonical q T8.
Proof. cbv [canonical T8 q]. lia. Qed.

Lemma small8_nonzero :
  map (fun P => point_eqb P (0, 1)) small8
  = [true; false; false; false; false; false; false; false].
Proof. vm_compute. reflexivity. Qed.

Local Opaque q l.

Local Notation oc := (on_curve q ca cd).
Local Notation can := (canonical q).
Local Notation add := (ed_add q ca cd).
Local Notation smul := (Edwards.smul q ca cd).

Lemma T8_oc : oc T8.
Proof. unfold T8. apply InCurve_iff. exact T8_InCurve. Qed.

Lemma idx8_cases : forall i, 0 <= i < 8 -> In i idx8.
Proof.
  intros i Hi. unfold idx8.
  assert (H : i = 0 \/ i = 1 \/ i = 2 \/ i = 3 \/ i = 4 \/ i = 5 \/ i = 6 \/ i = 7) by lia.
  cbn [In]. intuition.
Qed.

(* the list is the list of multiples of T8 *)
Lemma nth8_smul : forall i, 0 <= i < 8 -> nth8 i = smul i T8.
Proof.
  intros i Hi. pose proof Mul_i_T8 as F. rewrite forallb_forall in F.
  specialize (F i (idx8_cases i Hi)). apply point_eqb_eq in F.
  rewrite <- F. apply Mul_correct; [ lia | exact T8_oc | exact T8_can ].
Qed.

Lemma smul_8_T8 : smul 8 T8 = ed_zero.
Proof.
  rewrite <- (Mul_correct 8 T8) by (lia || exact T8_oc || exact T8_can). exact Mul_8_T8.
Qed.

Lemma nth8_closed : forall i, 0 <= i < 8 -> oc (nth8 i) /\ can (nth8 i).
Proof. intros i Hi. rewrite (nth8_smul i Hi). apply bj_smul_closed. exact T8_oc. Qed.

Lemma nth8_kill : forall i, 0 <= i < 8 -> smul 8 (nth8 i) = ed_zero.
Proof.
  intros i Hi. rewrite (nth8_smul i Hi).
  rewrite <- (bj_smul_mul 8 i T8) by (lia || exact T8_oc).
  rewrite Z.mul_comm. rewrite (bj_smul_mul i 8 T8) by (lia || exact T8_oc).
  rewrite smul_8_T8. apply bj_smul_zero_pt.
Qed.

Lemma In_small8 : forall P, In P small8 -> exists i, 0 <= i < 8 /\ P = nth8 i.
Proof.
  intros P H. unfold small8 in H. cbn [In] in H.
  destruct H as [H | [H | [H | [H | [H | [H | [H | [H | []]]]]]]]]; subst P.
  - exists 0. split; [ lia | reflexivity ].
  - exists 1. split; [ lia | reflexivity ].
  - exists 2. split; [ lia | reflexivity ].
  - exists 3. split; [ lia | reflexivity ].
  - exists 4. split; [ lia | reflexivity ].
  - exists 5. split; [ lia | reflexivity ].
  - exists 6. split; [ lia | reflexivity ].
  - exists 7. split; [ lia | reflexivity ].
Qed.

(* ---- the 8x8 table: P_i + P_j = P_((i+j) mod 8), through the model ---- *)

Theorem small_order_table_spec : forall i j, 0 <= i < 8 -> 0 <= j < 8 ->
  add (nth8 i) (nth8 j) = nth8 ((i + j) mod 8).
Proof.
  intros i j Hi Hj.
  rewrite (nth8_smul i Hi), (nth8_smul j Hj).
  rewrite <- (bj_smul_add i j T8) by (lia || exact T8_oc).
  assert (Hm : 0 <= (i + j) mod 8 < 8) by (apply Z.mod_pos_bound; lia).
  rewrite (nth8_smul _ Hm).
  destruct (Z.lt_ge_cases (i + j) 8) as [Hlt | Hge].
  - rewrite Z.mod_small by lia. reflexivity.
  - assert (E : (i + j) mod 8 = i + j - 8).
    { symmetry. apply (Z.mod_unique_pos (i + j) 8 1 (i + j - 8)); lia. }
    rewrite E.
    replace (i + j) with (8 + (i + j - 8)) at 1 by ring.
    rewrite (bj_smul_add 8 (i + j - 8) T8) by (lia || exact T8_oc).
    rewrite smul_8_T8. apply bj_add_zero_l; apply bj_smul_closed; exact T8_oc.
Qed.

Theorem small_order_table : forall i j, 0 <= i < 8 -> 0 <= j < 8 ->
  Affine (Add (Projective (nth8 i)) (Projective (nth8 j))) = nth8 ((i + j) mod 8).
Proof.
  intros i j Hi Hj.
  rewrite Affine_Add_Projective by (apply nth8_closed; assumption).
  apply small_order_table_spec; assumption.
Qed.

Theorem small_order_Mul8 : forall P, In P small8 -> InCurve P = true /\ Mul 8 P = (0, 1).
Proof.
  intros P H. destruct (In_small8 P H) as (i & Hi & ->).
  destruct (nth8_closed i Hi) as [Hoc Hcan]. split.
  - destruct (nth8 i) as [x y]. apply InCurve_iff. exact Hoc.
  - rewrite Mul_correct by (lia || assumption). apply nth8_kill. exact Hi.
Qed.

(* the seven non-trivial small-order points are on the curve but not in the
   subgroup; more generally S + P for any subgroup point S *)
Theorem small_order_outside : forall S P, InSubGroup S = true ->
  In P small8 -> P <> ed_zero -> InSubGroup (add S P) = false.
Proof.
  intros S P HS H HP0. destruct (In_small8 P H) as (i & Hi & ->).
  destruct (nth8_closed i Hi) as [Hoc Hcan].
  apply InSubGroup_plus_small; try assumption.
  apply nth8_kill. exact Hi.
Qed.

Corollary small_order_not_in_subgroup : forall P,
  In P small8 -> P <> ed_zero -> InSubGroup P = false.
Proof.
  intros P H HP0. destruct (In_small8 P H) as (i & Hi & E).
  destruct (nth8_closed i Hi) as [Hoc Hcan]. rewrite <- E in Hoc, Hcan.
  rewrite <- (bj_add_zero_l P Hoc Hcan).
  apply small_order_outside; try assumption.
  apply InSubGroup_iff_gen. split; [ apply bj_zero_oc | apply bj_smul_zero_pt ].
Qed.

Print Assumptions small_order_table.
Print Assumptions small_order_outside.
Print Assumptions small_order_not_in_subgroup.

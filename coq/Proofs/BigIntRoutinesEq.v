(* The value-level Gallina regenerated from the Go sources by tools/bigintgen
   (Gen/BigIntRoutines.v) is equal, for ALL arguments, to the hand-written
   models that the theorems of this development are about (Model/Utils.v,
   BabyJub.v, BabyJubCore.v, Eddsa.v, Poseidon.v, Mimc7.v).  An edit of a
   translated Go function (a dropped Mod, >= turned into >, swapped operands,
   a changed literal, a removed check) changes the generated file and breaks
   the corresponding lemma gen_<pkg>_<name>_eq below.

   Where a lemma has a hypothesis [length x = n] it is the Go type invariant
   of an array-typed value ([32]byte, [64]byte) that the list model does not
   carry. *)
From Coq Require Import ZArith List Bool Lia.
From Verif Require Import Lib.Params Lib.Octets Spec.Edwards Model.Outcome Model.Utils
  Model.BabyJubCore Model.BabyJub Model.Eddsa.
From Verif Require Gen.CurveConsts Model.Mimc7 Model.Poseidon.
From Verif Require Import Gen.BigIntRoutines.
Import ListNotations.
Local Open Scope Z_scope.

(* The external functions are never unfolded by the proofs below; keeping them
   opaque for the tactics makes a FAILING comparison (after an edit of the Go
   code) fail fast instead of normalising Fermat inversions or Tonelli-Shanks
   on symbolic arguments. *)
Local Opaque BabyJub.modinv BabyJub.modsqrt BabyJub.Mul BabyJub.Affine BabyJub.Projective
  Mimc7.MIMC7Hash HadesOpt.perm_opt Z.mul Z.add Z.sub Z.modulo Z.shiftr Z.shiftl Z.land Z.lor
  Z.ltb Z.gtb Z.geb Z.eqb.

(* ---- package utils -------------------------------------------------------- *)

Lemma gen_utils_CheckBigIntInField_eq : forall a,
  utils_CheckBigIntInField a = Utils.CheckBigIntInField Gen.CurveConsts.Q a.
Proof. reflexivity. Qed.

Lemma gen_utils_BigIntLEBytes_eq : forall v,
  utils_BigIntLEBytes v = Utils.BigIntLEBytes v.
Proof. reflexivity. Qed.

Lemma gen_utils_SetBigIntFromLEBytes_eq : forall leBuf,
  utils_SetBigIntFromLEBytes leBuf = Utils.SetBigIntFromLEBytes leBuf.
Proof. reflexivity. Qed.

(* the same three facts as equalities of functions: they rewrite occurrences
   under binders (let, match branches) in the proofs below *)
Lemma gen_utils_BigIntLEBytes_fn : utils_BigIntLEBytes = Utils.BigIntLEBytes.
Proof. reflexivity. Qed.
Lemma gen_utils_SetBigIntFromLEBytes_fn :
  utils_SetBigIntFromLEBytes = Utils.SetBigIntFromLEBytes.
Proof. reflexivity. Qed.

Lemma gen_utils_Hex_MarshalText_eq : forall buf,
  utils_Hex_MarshalText buf = Ok (Utils.HexString buf).
Proof. reflexivity. Qed.

Lemma gen_utils_Hex_String_eq : forall buf,
  utils_Hex_String buf = Utils.HexString buf.
Proof. reflexivity. Qed.

(* ---- package babyjub: curve ------------------------------------------------ *)

Lemma gen_babyjub_PointProjective_Add_eq : forall q o,
  babyjub_PointProjective_Add q o = BabyJub.Add q o.
Proof.
  intros [[x1 y1] z1] [[x2 y2] z2].
  unfold babyjub_PointProjective_Add, BabyJub.Add, padd, fmul, fadd, fsub. reflexivity.
Qed.

Lemma gen_babyjub_NewPoint_eq : babyjub_NewPoint = (0, 1).
Proof. reflexivity. Qed.

Lemma gen_babyjub_PointCoordSign_eq : forall c,
  babyjub_PointCoordSign c = BabyJub.PointCoordSign c.
Proof. reflexivity. Qed.

Lemma gen_babyjub_PackSignY_eq : forall sign y,
  babyjub_PackSignY sign y = BabyJub.PackSignY sign y.
Proof.
  intros. unfold babyjub_PackSignY, BabyJub.PackSignY.
  rewrite gen_utils_BigIntLEBytes_fn. reflexivity.
Qed.

Lemma gen_babyjub_UnpackSignY_eq : forall leBuf,
  babyjub_UnpackSignY leBuf = BabyJub.UnpackSignY leBuf.
Proof.
  intros leBuf. unfold babyjub_UnpackSignY, BabyJub.UnpackSignY.
  rewrite gen_utils_SetBigIntFromLEBytes_fn.
  destruct (negb (Z.land (nth 31 leBuf 0) 128 =? 0)); reflexivity.
Qed.

Lemma gen_babyjub_Point_Compress_eq : forall p,
  babyjub_Point_Compress p = BabyJub.Compress p.
Proof.
  intros [x y]. unfold babyjub_Point_Compress, BabyJub.Compress.
  cbv zeta. cbn [fst snd]. rewrite gen_babyjub_PackSignY_eq. reflexivity.
Qed.

Lemma gen_babyjub_PointFromSignAndY_eq : forall sign y,
  babyjub_PointFromSignAndY sign y = BabyJub.PointFromSignAndY sign y.
Proof.
  intros. unfold babyjub_PointFromSignAndY, BabyJub.PointFromSignAndY. reflexivity.
Qed.

Lemma gen_babyjub_Point_Decompress_eq : forall leBuf,
  babyjub_Point_Decompress leBuf = BabyJub.Decompress leBuf.
Proof.
  intros leBuf. unfold babyjub_Point_Decompress, BabyJub.Decompress.
  rewrite gen_babyjub_UnpackSignY_eq.
  destruct (BabyJub.UnpackSignY leBuf) as [sign y].
  apply gen_babyjub_PointFromSignAndY_eq.
Qed.

Lemma gen_babyjub_Point_InCurve_eq : forall p,
  babyjub_Point_InCurve p = BabyJub.InCurve p.
Proof.
  intros [x y]. unfold babyjub_Point_InCurve, BabyJub.InCurve. reflexivity.
Qed.

Lemma gen_babyjub_Point_InSubGroup_eq : forall p,
  babyjub_Point_InSubGroup p = BabyJub.InSubGroup p.
Proof.
  intros p. unfold babyjub_Point_InSubGroup, BabyJub.InSubGroup.
  rewrite gen_babyjub_Point_InCurve_eq.
  destruct (negb (BabyJub.InCurve p)); [reflexivity|].
  destruct (BabyJub.Mul BabyJub.SubOrder p) as [rx ry]. reflexivity.
Qed.

(* ---- list facts about the byte-array operations --------------------------- *)

Lemma copy_into_length : forall n src, length (copy_into n src) = n.
Proof.
  intros n src. unfold copy_into. rewrite app_length, repeat_length.
  pose proof (firstn_le_length n src). lia.
Qed.

Lemma copy_into_id : forall n src, length src = n -> copy_into n src = src.
Proof.
  intros n src H. unfold copy_into. rewrite firstn_all2 by lia.
  rewrite H, Nat.sub_diag. cbn [repeat]. apply app_nil_r.
Qed.

Lemma set_nth_length : forall n v l, (n < length l)%nat -> length (set_nth n v l) = length l.
Proof.
  intros n v l H. unfold set_nth. rewrite app_length. cbn [length].
  rewrite firstn_length, skipn_length. lia.
Qed.

Lemma BigIntLEBytes_length : forall v, length (Utils.BigIntLEBytes v) = 32%nat.
Proof. intros v. apply copy_into_length. Qed.

Lemma PackSignY_length : forall sign y, length (BabyJub.PackSignY sign y) = 32%nat.
Proof.
  intros sign y. unfold BabyJub.PackSignY. cbv zeta. destruct sign.
  - rewrite set_nth_length; rewrite BigIntLEBytes_length; lia.
  - apply BigIntLEBytes_length.
Qed.

Lemma Compress_length : forall p, length (BabyJub.Compress p) = 32%nat.
Proof. intros [x y]. apply PackSignY_length. Qed.

(* copy(dst[:], src) with len(src) = len(dst): dst becomes src *)
Lemma copy_at_whole : forall n dst src,
  length dst = n -> length src = n -> copy_at 0 n dst src = src.
Proof.
  intros n dst src Hd Hs. unfold copy_at. cbn [firstn app].
  rewrite Nat.sub_0_r, Nat.add_0_l. rewrite firstn_all2 by lia.
  rewrite skipn_all2 by lia. apply app_nil_r.
Qed.

(* buf := [64]byte{}; copy(buf[:32], a); copy(buf[32:], b) with 32-byte a, b *)
Lemma copy_at_halves : forall a b,
  length a = 32%nat -> length b = 32%nat ->
  copy_at 32 64 (copy_at 0 32 (repeat 0 64) a) b = a ++ b.
Proof.
  intros a b Ha Hb.
  assert (H1 : copy_at 0 32 (repeat 0 64) a = a ++ repeat 0 32).
  { unfold copy_at. cbn [firstn app]. rewrite Nat.sub_0_r, Nat.add_0_l.
    rewrite firstn_all2 by lia. rewrite Ha. reflexivity. }
  rewrite H1. unfold copy_at.
  rewrite firstn_app, Ha, Nat.sub_diag, firstn_O, app_nil_r.
  rewrite (firstn_all2 a) by lia.
  replace (64 - 32)%nat with 32%nat by reflexivity.
  rewrite (firstn_all2 b) by lia. rewrite Hb.
  rewrite skipn_all2 by (rewrite app_length, repeat_length; lia).
  rewrite app_nil_r. reflexivity.
Qed.

(* ---- package babyjub: eddsa.go, helpers.go -------------------------------- *)

Lemma gen_babyjub_pruneBuffer_fn : babyjub_pruneBuffer = Eddsa.pruneBuffer.
Proof. reflexivity. Qed.
Lemma gen_babyjub_pruneBuffer_eq : forall buf,
  babyjub_pruneBuffer buf = Eddsa.pruneBuffer buf.
Proof. intros. rewrite gen_babyjub_pruneBuffer_fn. reflexivity. Qed.

Section Hashes.
  Variable blake512 : bytes -> bytes.
  Variable poseidon5 : list Z -> res Z.
  Variable mimc7h : list Z -> res Z.

  Lemma gen_babyjub_SkToBigInt_fn :
    babyjub_SkToBigInt blake512 = Eddsa.SkToBigInt blake512.
  Proof.
    unfold babyjub_SkToBigInt, Eddsa.SkToBigInt.
    rewrite gen_babyjub_pruneBuffer_fn, gen_utils_SetBigIntFromLEBytes_fn. reflexivity.
  Qed.
  Lemma gen_babyjub_SkToBigInt_eq : forall k,
    babyjub_SkToBigInt blake512 k = Eddsa.SkToBigInt blake512 k.
  Proof. intros. rewrite gen_babyjub_SkToBigInt_fn. reflexivity. Qed.

  (* NewPrivKeyScalar, BigInt, Point are type conversions: identities *)
  Lemma gen_babyjub_NewPrivKeyScalar_eq : forall s, babyjub_NewPrivKeyScalar s = s.
  Proof. reflexivity. Qed.
  Lemma gen_babyjub_PrivKeyScalar_BigInt_eq : forall s, babyjub_PrivKeyScalar_BigInt s = s.
  Proof. reflexivity. Qed.
  Lemma gen_babyjub_PublicKey_Point_eq : forall pk, babyjub_PublicKey_Point pk = pk.
  Proof. reflexivity. Qed.

  Lemma gen_babyjub_PrivateKey_Scalar_fn :
    babyjub_PrivateKey_Scalar blake512 = Eddsa.SkToBigInt blake512.
  Proof.
    unfold babyjub_PrivateKey_Scalar, babyjub_NewPrivKeyScalar.
    rewrite gen_babyjub_SkToBigInt_fn. reflexivity.
  Qed.
  Lemma gen_babyjub_PrivateKey_Scalar_eq : forall k,
    babyjub_PrivateKey_Scalar blake512 k = Eddsa.SkToBigInt blake512 k.
  Proof. intros. rewrite gen_babyjub_PrivateKey_Scalar_fn. reflexivity. Qed.

  Lemma gen_babyjub_PrivKeyScalar_Public_fn : babyjub_PrivKeyScalar_Public = Eddsa.ScalarPublic.
  Proof. reflexivity. Qed.
  Lemma gen_babyjub_PrivKeyScalar_Public_eq : forall s,
    babyjub_PrivKeyScalar_Public s = Eddsa.ScalarPublic s.
  Proof. reflexivity. Qed.

  Lemma gen_babyjub_PrivateKey_Public_fn :
    babyjub_PrivateKey_Public blake512 = Eddsa.Public blake512.
  Proof.
    unfold babyjub_PrivateKey_Public, Eddsa.Public.
    rewrite gen_babyjub_PrivateKey_Scalar_fn, gen_babyjub_PrivKeyScalar_Public_fn. reflexivity.
  Qed.
  Lemma gen_babyjub_PrivateKey_Public_eq : forall k,
    babyjub_PrivateKey_Public blake512 k = Eddsa.Public blake512 k.
  Proof. intros. rewrite gen_babyjub_PrivateKey_Public_fn. reflexivity. Qed.

  Lemma gen_babyjub_PrivateKey_SignPoseidon_eq : forall k msg,
    babyjub_PrivateKey_SignPoseidon blake512 poseidon5 k msg =
    Eddsa.SignPoseidon blake512 poseidon5 k msg.
  Proof.
    intros. unfold babyjub_PrivateKey_SignPoseidon, Eddsa.SignPoseidon, Eddsa.sign_with.
    rewrite gen_utils_BigIntLEBytes_fn, gen_utils_SetBigIntFromLEBytes_fn,
      gen_babyjub_PrivateKey_Public_fn, gen_babyjub_PrivateKey_Scalar_fn.
    reflexivity.
  Qed.

  Lemma gen_babyjub_PrivateKey_SignMimc7_eq : forall k msg,
    babyjub_PrivateKey_SignMimc7 blake512 mimc7h k msg =
    Eddsa.SignMimc7 blake512 mimc7h k msg.
  Proof.
    intros. unfold babyjub_PrivateKey_SignMimc7, Eddsa.SignMimc7, Eddsa.sign_with.
    rewrite gen_utils_BigIntLEBytes_fn, gen_utils_SetBigIntFromLEBytes_fn,
      gen_babyjub_PrivateKey_Public_fn, gen_babyjub_PrivateKey_Scalar_fn.
    reflexivity.
  Qed.

  Lemma gen_babyjub_PublicKey_VerifyPoseidon_eq : forall pk msg sig,
    babyjub_PublicKey_VerifyPoseidon poseidon5 pk msg sig =
    Eddsa.VerifyPoseidon poseidon5 pk msg sig.
  Proof.
    intros pk msg [R8 Sv].
    unfold babyjub_PublicKey_VerifyPoseidon, Eddsa.VerifyPoseidon, Eddsa.verify_with.
    cbn [fst snd].
    destruct ((Sv <? 0) || (Sv >=? BabyJub.SubOrder)); [reflexivity|].
    destruct (poseidon5 [fst R8; snd R8; fst pk; snd pk; msg]) as [hm| |]; try reflexivity.
    cbv zeta. rewrite gen_babyjub_PointProjective_Add_eq. reflexivity.
  Qed.

  Lemma gen_babyjub_PublicKey_VerifyMimc7_eq : forall pk msg sig,
    babyjub_PublicKey_VerifyMimc7 mimc7h pk msg sig =
    Eddsa.VerifyMimc7 mimc7h pk msg sig.
  Proof.
    intros pk msg [R8 Sv].
    unfold babyjub_PublicKey_VerifyMimc7, Eddsa.VerifyMimc7, Eddsa.verify_with.
    cbn [fst snd].
    destruct ((Sv <? 0) || (Sv >=? BabyJub.SubOrder)); [reflexivity|].
    destruct (mimc7h [fst R8; snd R8; fst pk; snd pk; msg]) as [hm| |]; try reflexivity.
    cbv zeta. rewrite gen_babyjub_PointProjective_Add_eq. reflexivity.
  Qed.
End Hashes.

(* ---- compression, Scan, text encodings ------------------------------------ *)

Lemma gen_babyjub_PublicKey_Compress_eq : forall pk,
  babyjub_PublicKey_Compress pk = Eddsa.PkCompress pk.
Proof.
  intros. unfold babyjub_PublicKey_Compress, Eddsa.PkCompress.
  apply gen_babyjub_Point_Compress_eq.
Qed.

Lemma gen_babyjub_PublicKeyComp_Decompress_eq : forall pkComp,
  babyjub_PublicKeyComp_Decompress pkComp = Eddsa.PkDecompress pkComp.
Proof.
  intros. unfold babyjub_PublicKeyComp_Decompress, Eddsa.PkDecompress.
  apply gen_babyjub_Point_Decompress_eq.
Qed.

Lemma gen_babyjub_Signature_Compress_eq : forall s,
  babyjub_Signature_Compress s = Eddsa.SigCompress s.
Proof.
  intros [R8 Sv]. unfold babyjub_Signature_Compress, Eddsa.SigCompress.
  cbv zeta. cbn [fst snd].
  rewrite gen_babyjub_Point_Compress_eq, gen_utils_BigIntLEBytes_eq.
  apply copy_at_halves; [apply Compress_length | apply BigIntLEBytes_length].
Qed.

(* buf is a [64]byte *)
Lemma gen_babyjub_Signature_Decompress_eq : forall buf, length buf = 64%nat ->
  babyjub_Signature_Decompress buf = Eddsa.SigDecompress buf.
Proof.
  intros buf Hlen. unfold babyjub_Signature_Decompress, Eddsa.SigDecompress.
  cbv zeta. rewrite copy_into_id by (rewrite firstn_length; lia).
  rewrite gen_babyjub_Point_Decompress_eq, gen_utils_SetBigIntFromLEBytes_fn.
  destruct (BabyJub.Decompress (firstn 32 buf)); reflexivity.
Qed.

Lemma gen_babyjub_SignatureComp_Decompress_eq : forall sComp, length sComp = 64%nat ->
  babyjub_SignatureComp_Decompress sComp = Eddsa.SigDecompress sComp.
Proof.
  intros. unfold babyjub_SignatureComp_Decompress.
  apply gen_babyjub_Signature_Decompress_eq; assumption.
Qed.

(* sComp (the receiver's previous contents) is a [64]byte *)
Lemma gen_babyjub_SignatureComp_Scan_eq : forall sComp src, length sComp = 64%nat ->
  babyjub_SignatureComp_Scan sComp src = Eddsa.SigCompScan src.
Proof.
  intros sComp src Hlen. unfold babyjub_SignatureComp_Scan, Eddsa.SigCompScan.
  destruct src as [b| | | |]; try reflexivity.
  destruct (Nat.eqb (length b) 64) eqn:E; cbn [negb]; [|reflexivity].
  apply Nat.eqb_eq in E. cbv zeta. rewrite copy_at_whole by assumption. reflexivity.
Qed.

Lemma gen_babyjub_PublicKeyComp_Scan_eq : forall pkComp src, length pkComp = 32%nat ->
  babyjub_PublicKeyComp_Scan pkComp src = Eddsa.PkCompScan src.
Proof.
  intros pkComp src Hlen. unfold babyjub_PublicKeyComp_Scan, Eddsa.PkCompScan.
  destruct src as [b| | | |]; try reflexivity.
  destruct (Nat.eqb (length b) 32) eqn:E; cbn [negb]; [|reflexivity].
  apply Nat.eqb_eq in E. cbv zeta. rewrite copy_at_whole by assumption. reflexivity.
Qed.

Lemma gen_babyjub_Signature_Scan_eq : forall src,
  babyjub_Signature_Scan src = Eddsa.SigScan src.
Proof.
  intros src. unfold babyjub_Signature_Scan, Eddsa.SigScan.
  destruct src as [b| | | |]; try reflexivity.
  destruct (Nat.eqb (length b) 64) eqn:E; cbn [negb]; [|reflexivity].
  apply Nat.eqb_eq in E. cbv zeta. rewrite copy_into_id by assumption.
  apply gen_babyjub_Signature_Decompress_eq; assumption.
Qed.

Lemma gen_babyjub_PublicKey_Scan_eq : forall src,
  babyjub_PublicKey_Scan src = Eddsa.PkScan src.
Proof.
  intros src. unfold babyjub_PublicKey_Scan, Eddsa.PkScan.
  destruct src as [b| | | |]; try reflexivity.
  destruct (Nat.eqb (length b) 32) eqn:E; cbn [negb]; [|reflexivity].
  apply Nat.eqb_eq in E. cbv zeta. rewrite copy_into_id by assumption.
  apply gen_babyjub_PublicKeyComp_Decompress_eq.
Qed.

(* MarshalText returns (text, nil) *)
Lemma gen_babyjub_PublicKey_MarshalText_eq : forall pk,
  babyjub_PublicKey_MarshalText pk = Ok (Eddsa.PkMarshalText pk).
Proof.
  intros. unfold babyjub_PublicKey_MarshalText, Eddsa.PkMarshalText. cbv zeta.
  rewrite gen_babyjub_PublicKey_Compress_eq. reflexivity.
Qed.
Lemma gen_babyjub_PublicKey_String_eq : forall pk,
  babyjub_PublicKey_String pk = Eddsa.PkMarshalText pk.
Proof.
  intros. unfold babyjub_PublicKey_String, Eddsa.PkMarshalText. cbv zeta.
  rewrite gen_babyjub_PublicKey_Compress_eq. reflexivity.
Qed.
Lemma gen_babyjub_PublicKeyComp_MarshalText_eq : forall c,
  babyjub_PublicKeyComp_MarshalText c = Ok (Eddsa.PkCompMarshalText c).
Proof. reflexivity. Qed.
Lemma gen_babyjub_PublicKeyComp_String_eq : forall c,
  babyjub_PublicKeyComp_String c = Eddsa.PkCompMarshalText c.
Proof. reflexivity. Qed.
Lemma gen_babyjub_SignatureComp_MarshalText_eq : forall c,
  babyjub_SignatureComp_MarshalText c = Ok (Eddsa.SigCompMarshalText c).
Proof. reflexivity. Qed.
Lemma gen_babyjub_SignatureComp_String_eq : forall c,
  babyjub_SignatureComp_String c = Eddsa.SigCompMarshalText c.
Proof. reflexivity. Qed.

Lemma gen_babyjub_PublicKeyComp_UnmarshalText_eq : forall h,
  babyjub_PublicKeyComp_UnmarshalText h = Eddsa.PkCompUnmarshalText h.
Proof. reflexivity. Qed.
Lemma gen_babyjub_SignatureComp_UnmarshalText_eq : forall h,
  babyjub_SignatureComp_UnmarshalText h = Eddsa.SigCompUnmarshalText h.
Proof. reflexivity. Qed.

Lemma gen_babyjub_PublicKey_UnmarshalText_eq : forall h,
  babyjub_PublicKey_UnmarshalText h = Eddsa.PkUnmarshalText h.
Proof.
  intros h. unfold babyjub_PublicKey_UnmarshalText, Eddsa.PkUnmarshalText.
  destruct (Utils.HexDecodeInto 32 h) as [c| |]; try reflexivity.
  apply gen_babyjub_PublicKeyComp_Decompress_eq.
Qed.

Lemma HexDecodeInto_length : forall n h c, Utils.HexDecodeInto n h = Ok c -> length c = n.
Proof.
  intros n h c. unfold Utils.HexDecodeInto. cbv zeta.
  destruct (negb (Nat.eqb (length (Utils.strip_0x h) / 2) n)); [discriminate|].
  destruct (hex_decode (Utils.strip_0x h)) as [b|]; [|discriminate].
  destruct (Nat.eqb (length b) n) eqn:E; [|discriminate].
  intros H; inversion H; subst. apply Nat.eqb_eq; exact E.
Qed.

Lemma gen_babyjub_DecompressSig_eq : forall h,
  babyjub_DecompressSig h = Eddsa.DecompressSig h.
Proof.
  intros h. unfold babyjub_DecompressSig, Eddsa.DecompressSig.
  rewrite gen_babyjub_SignatureComp_UnmarshalText_eq.
  unfold Eddsa.SigCompUnmarshalText.
  destruct (Utils.HexDecodeInto 64 h) as [c| |] eqn:E; try reflexivity.
  apply gen_babyjub_SignatureComp_Decompress_eq.
  eapply HexDecodeInto_length; exact E.
Qed.

(* database/sql/driver Value(): (compressed bytes, nil) *)
Lemma gen_babyjub_SignatureComp_Value_eq : forall c, babyjub_SignatureComp_Value c = Ok c.
Proof. reflexivity. Qed.
Lemma gen_babyjub_PublicKeyComp_Value_eq : forall c, babyjub_PublicKeyComp_Value c = Ok c.
Proof. reflexivity. Qed.
Lemma gen_babyjub_Signature_Value_eq : forall s,
  babyjub_Signature_Value s = Ok (Eddsa.SigValue s).
Proof.
  intros. unfold babyjub_Signature_Value, Eddsa.SigValue. cbv zeta.
  rewrite gen_babyjub_Signature_Compress_eq. reflexivity.
Qed.
Lemma gen_babyjub_PublicKey_Value_eq : forall pk,
  babyjub_PublicKey_Value pk = Ok (Eddsa.PkValue pk).
Proof.
  intros. unfold babyjub_PublicKey_Value, Eddsa.PkValue. cbv zeta.
  rewrite gen_babyjub_PublicKey_Compress_eq. reflexivity.
Qed.

(* ---- package mimc7: the guard and the initial value of Hash --------------- *)

(* the model of the part bigintgen does not translate (the loop of Hash) *)
Definition mimc7_absorb (arr : list Z) (r0 : Z) : Z :=
  fold_left (fun r m => (r + m + Mimc7.MIMC7Hash m r) mod Mimc7.Q) arr r0.

Lemma gen_mimc7_Hash_eq : forall arr key,
  mimc7_Hash mimc7_absorb arr key = Mimc7.Hash arr key.
Proof.
  intros arr key. unfold mimc7_Hash, Mimc7.Hash, mimc7_absorb.
  destruct key; reflexivity.
Qed.

(* ---- package poseidon: the guards of HashWithStateEx and its wrappers ----- *)

Section Poseidon.
  Variable NROUNDSF : nat.
  Variable tables : list Poseidon.ptable.
  (* len(NROUNDSP) in the Go source (a literal count in the generated file) *)
  Hypothesis tables_len : length tables = 16%nat.

  (* the model of the part bigintgen does not translate: table selection,
     the optimized Hades permutation, the first nOuts lanes *)
  Definition poseidon_hades (inpBI : list Z) (initState nOuts : Z) : res (list Z) :=
    match nth_error tables (S (length inpBI) - 2) with
    | None => Panic
    | Some (RP, C, S_, M, P) =>
        Ok (firstn (Z.to_nat nOuts)
              (HadesOpt.perm_opt Gen.CurveConsts.Q (Hades.sbox5 Gen.CurveConsts.Q)
                 (S (length inpBI)) NROUNDSF RP C S_ M P (initState :: inpBI)))
    end.

  Lemma gen_poseidon_HashWithStateEx_eq : forall inpBI initState nOuts,
    poseidon_HashWithStateEx poseidon_hades inpBI initState nOuts =
    Poseidon.HashWithStateEx Gen.CurveConsts.Q NROUNDSF tables inpBI initState nOuts.
  Proof.
    intros inpBI initState nOuts.
    unfold poseidon_HashWithStateEx, Poseidon.HashWithStateEx, poseidon_hades. cbv zeta.
    rewrite tables_len, Nat.add_1_r.
    destruct (Nat.eqb (length inpBI) 0) eqn:E0; [reflexivity|].
    destruct (Nat.ltb 16 (length inpBI)) eqn:E1; [reflexivity|]. cbn [orb].
    destruct (negb (Utils.CheckBigIntArrayInField Gen.CurveConsts.Q inpBI)); [reflexivity|].
    rewrite Z.gtb_ltb.
    destruct ((nOuts <? 1) || (Z.of_nat (S (length inpBI)) <? nOuts)); [reflexivity|].
    rewrite gen_utils_CheckBigIntInField_eq.
    apply Nat.eqb_neq in E0. apply Nat.ltb_ge in E1.
    destruct (nth_error tables (S (length inpBI) - 2)) as [[[[[RP C] S_] M] P]|] eqn:En.
    - reflexivity.
    - exfalso. apply nth_error_None in En. lia.
  Qed.

  Lemma gen_poseidon_HashWithState_eq : forall inpBI initState,
    poseidon_HashWithState poseidon_hades inpBI initState =
    Poseidon.HashWithState Gen.CurveConsts.Q NROUNDSF tables inpBI initState.
  Proof.
    intros. unfold poseidon_HashWithState, Poseidon.HashWithState.
    rewrite gen_poseidon_HashWithStateEx_eq. reflexivity.
  Qed.

  Lemma gen_poseidon_Hash_eq : forall inpBI,
    poseidon_Hash poseidon_hades inpBI = Poseidon.Hash Gen.CurveConsts.Q NROUNDSF tables inpBI.
  Proof.
    intros. unfold poseidon_Hash, Poseidon.Hash. apply gen_poseidon_HashWithState_eq.
  Qed.

  Lemma gen_poseidon_HashEx_eq : forall inpBI nOuts,
    poseidon_HashEx poseidon_hades inpBI nOuts =
    Poseidon.HashEx Gen.CurveConsts.Q NROUNDSF tables inpBI nOuts.
  Proof.
    intros. unfold poseidon_HashEx, Poseidon.HashEx. apply gen_poseidon_HashWithStateEx_eq.
  Qed.
End Poseidon.

(* ---- every lemma above is closed under the global context ---------------- *)
Print Assumptions gen_utils_CheckBigIntInField_eq.
Print Assumptions gen_utils_BigIntLEBytes_eq.
Print Assumptions gen_utils_SetBigIntFromLEBytes_eq.
Print Assumptions gen_utils_Hex_MarshalText_eq.
Print Assumptions gen_utils_Hex_String_eq.
Print Assumptions gen_babyjub_PointProjective_Add_eq.
Print Assumptions gen_babyjub_NewPoint_eq.
Print Assumptions gen_babyjub_PointCoordSign_eq.
Print Assumptions gen_babyjub_PackSignY_eq.
Print Assumptions gen_babyjub_UnpackSignY_eq.
Print Assumptions gen_babyjub_Point_Compress_eq.
Print Assumptions gen_babyjub_PointFromSignAndY_eq.
Print Assumptions gen_babyjub_Point_Decompress_eq.
Print Assumptions gen_babyjub_Point_InCurve_eq.
Print Assumptions gen_babyjub_Point_InSubGroup_eq.
Print Assumptions gen_babyjub_pruneBuffer_eq.
Print Assumptions gen_babyjub_SkToBigInt_eq.
Print Assumptions gen_babyjub_NewPrivKeyScalar_eq.
Print Assumptions gen_babyjub_PrivKeyScalar_BigInt_eq.
Print Assumptions gen_babyjub_PublicKey_Point_eq.
Print Assumptions gen_babyjub_PrivateKey_Scalar_eq.
Print Assumptions gen_babyjub_PrivKeyScalar_Public_eq.
Print Assumptions gen_babyjub_PrivateKey_Public_eq.
Print Assumptions gen_babyjub_PrivateKey_SignPoseidon_eq.
Print Assumptions gen_babyjub_PrivateKey_SignMimc7_eq.
Print Assumptions gen_babyjub_PublicKey_VerifyPoseidon_eq.
Print Assumptions gen_babyjub_PublicKey_VerifyMimc7_eq.
Print Assumptions gen_babyjub_PublicKey_Compress_eq.
Print Assumptions gen_babyjub_PublicKeyComp_Decompress_eq.
Print Assumptions gen_babyjub_Signature_Compress_eq.
Print Assumptions gen_babyjub_Signature_Decompress_eq.
Print Assumptions gen_babyjub_SignatureComp_Decompress_eq.
Print Assumptions gen_babyjub_SignatureComp_Scan_eq.
Print Assumptions gen_babyjub_PublicKeyComp_Scan_eq.
Print Assumptions gen_babyjub_Signature_Scan_eq.
Print Assumptions gen_babyjub_PublicKey_Scan_eq.
Print Assumptions gen_babyjub_PublicKey_MarshalText_eq.
Print Assumptions gen_babyjub_PublicKey_String_eq.
Print Assumptions gen_babyjub_PublicKeyComp_MarshalText_eq.
Print Assumptions gen_babyjub_PublicKeyComp_String_eq.
Print Assumptions gen_babyjub_SignatureComp_MarshalText_eq.
Print Assumptions gen_babyjub_SignatureComp_String_eq.
Print Assumptions gen_babyjub_PublicKeyComp_UnmarshalText_eq.
Print Assumptions gen_babyjub_SignatureComp_UnmarshalText_eq.
Print Assumptions gen_babyjub_PublicKey_UnmarshalText_eq.
Print Assumptions gen_babyjub_DecompressSig_eq.
Print Assumptions gen_babyjub_SignatureComp_Value_eq.
Print Assumptions gen_babyjub_PublicKeyComp_Value_eq.
Print Assumptions gen_babyjub_Signature_Value_eq.
Print Assumptions gen_babyjub_PublicKey_Value_eq.
Print Assumptions gen_mimc7_Hash_eq.
Print Assumptions gen_poseidon_HashWithStateEx_eq.
Print Assumptions gen_poseidon_HashWithState_eq.
Print Assumptions gen_poseidon_Hash_eq.
Print Assumptions gen_poseidon_HashEx_eq.

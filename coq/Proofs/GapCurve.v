(* PointProjective.Add on GENERAL projective representatives (C04): the
   statement of BabyJubCoreProofs.padd_correct specialised to the BabyJub
   constants of the model (BabyJub.Add = padd Q A D with the regenerated Q, A,
   D), its Affine corollary, and the fact that every scaling (x l : y l : l),
   l <> 0, of an affine point is a representative in the sense used. *)
From Coq Require Import ZArith List Lia.
From Verif Require Import Lib.Params Lib.Primes Spec.Edwards
  Model.BabyJubCore Model.BabyJub
  Proofs.EdwardsField Proofs.BabyJubCoreProofs Proofs.BabyJubGroup Proofs.BabyJubModel.
Import ListNotations.
Local Open Scope Z_scope.

Local Opaque q.

Local Notation oc := (on_curve q ca cd).
Local Notation can := (canonical q).

(* what "represents" means, spelled out: reduced coordinates, Z <> 0,
   X = x Z and Y = y Z in the field *)
Lemma represents_unfold X Y Z x y :
  represents q (X, Y, Z) (x, y) <->
  (0 <= X < q /\ 0 <= Y < q /\ 0 <= Z < q) /\ Z mod q <> 0 /\
  (X mod q = (x * Z) mod q) /\ (Y mod q = (y * Z) mod q).
Proof. reflexivity. Qed.

(* PointProjective.Add on arbitrary representatives of two curve points *)
Theorem Add_general_representatives : forall P1' P2' P1 P2,
  represents q P1' P1 -> represents q P2' P2 -> oc P1 -> oc P2 ->
  represents q (BabyJub.Add P1' P2') (ed_add q ca cd P1 P2).
Proof. intros P1' P2' P1 P2 R1 R2 H1 H2. apply Add_correct; assumption. Qed.

(* ... followed by Affine: the affine sum (canonical, on the curve) *)
Corollary Affine_Add_general_representatives : forall P1' P2' P1 P2,
  represents q P1' P1 -> represents q P2' P2 -> oc P1 -> oc P2 ->
  Affine (BabyJub.Add P1' P2') = ed_add q ca cd P1 P2.
Proof. intros P1' P2' P1 P2 R1 R2 H1 H2. apply Affine_Add; assumption. Qed.

Corollary Affine_Add_general_closed : forall P1' P2' P1 P2,
  represents q P1' P1 -> represents q P2' P2 -> oc P1 -> oc P2 ->
  oc (Affine (BabyJub.Add P1' P2')) /\ can (Affine (BabyJub.Add P1' P2')).
Proof.
  intros P1' P2' P1 P2 R1 R2 H1 H2.
  rewrite (Affine_Add_general_representatives P1' P2' P1 P2 R1 R2 H1 H2).
  apply bj_add_closed; assumption.
Qed.

(* Add can be iterated: the result is again a representative *)
Corollary Add_general_iterated : forall P1' P2' P3' P1 P2 P3,
  represents q P1' P1 -> represents q P2' P2 -> represents q P3' P3 ->
  oc P1 -> oc P2 -> oc P3 ->
  represents q (BabyJub.Add (BabyJub.Add P1' P2') P3')
             (ed_add q ca cd (ed_add q ca cd P1 P2) P3).
Proof.
  intros P1' P2' P3' P1 P2 P3 R1 R2 R3 H1 H2 H3.
  apply Add_general_representatives; try assumption.
  - apply Add_general_representatives; assumption.
  - apply bj_add_closed; assumption.
Qed.

(* every non-zero scaling of an affine point is a representative *)
Theorem represents_scaled : forall x y lam, lam mod q <> 0 ->
  represents q ((x * lam) mod q, (y * lam) mod q, lam mod q) (x, y).
Proof.
  intros x y lam Hl. pose proof q_gt_2 as Hq.
  apply represents_unfold.
  assert (Hb : forall z, 0 <= z mod q < q) by (intros; apply Z.mod_pos_bound; lia).
  split; [repeat split; apply Hb|].
  split; [rewrite Z.mod_mod by lia; exact Hl|].
  split; rewrite Z.mod_mod, Z.mul_mod_idemp_r by lia; reflexivity.
Qed.

(* hence: Add on (x1 l1 : y1 l1 : l1) and (x2 l2 : y2 l2 : l2) *)
Corollary Affine_Add_scaled : forall x1 y1 l1 x2 y2 l2,
  oc (x1, y1) -> oc (x2, y2) -> l1 mod q <> 0 -> l2 mod q <> 0 ->
  Affine (BabyJub.Add ((x1 * l1) mod q, (y1 * l1) mod q, l1 mod q)
                      ((x2 * l2) mod q, (y2 * l2) mod q, l2 mod q))
  = ed_add q ca cd (x1, y1) (x2, y2).
Proof.
  intros x1 y1 l1 x2 y2 l2 H1 H2 Hl1 Hl2.
  apply Affine_Add_general_representatives; try assumption;
    apply represents_scaled; assumption.
Qed.

Print Assumptions Add_general_representatives.
Print Assumptions Affine_Add_general_representatives.
Print Assumptions Affine_Add_general_closed.
Print Assumptions represents_scaled.
Print Assumptions Affine_Add_scaled.

(* All equality lemmas generated-code = hand model (tools/bigintgen). *)
From Verif Require Export Proofs.BigIntEqUtils Proofs.BigIntEqCompress Proofs.BigIntEqMember
  Proofs.BigIntEqAdd Proofs.BigIntEqKeys Proofs.BigIntEqSign Proofs.BigIntEqVerify
  Proofs.BigIntEqCodec Proofs.BigIntEqHash Proofs.BigIntEqRecv.

(* BabyJubJub as an instance of the complete twisted Edwards group:
   p := q (BN254 scalar field, proved prime), a := 168700 (a square),
   d := 168696 (a non-square).  Group laws and scalar-multiplication laws
   specialised to the curve; the repository's constants (Gen/CurveConsts.v via
   Model/BabyJub.v) equal the specification's (Lib/Params.v). *)
From Coq Require Import ZArith Znumtheory Lia.
From Verif Require Import Lib.Params Lib.Powmod Lib.NumberTheory Lib.Primes Spec.Edwards.
From Verif Require Import Proofs.EdwardsField Proofs.EdwardsComplete Proofs.EdwardsGroup
  Proofs.BabyJubSmul.
From Verif Require Model.BabyJub.
Local Open Scope Z_scope.

(* ------------------------------------------------------------------ *)
(** * Facts obtained by computation (q still transparent here) *)

Definition bj_sqrt_a : Z :=
  7214280148105020021932206872019688659210616427216992810330019057549499971851.

Lemma bj_sqrt_a_ok : (bj_sqrt_a * bj_sqrt_a) mod q = ca mod q.
Proof. vm_compute. reflexivity. Qed.

Lemma bj_a_nonzero : ca mod q <> 0.
Proof. vm_compute. discriminate. Qed.

Lemma bj_d_euler : powmod cd ((q - 1) / 2) q = q - 1.
Proof. vm_compute. reflexivity. Qed.

Lemma bj_half_nonneg : 0 <= (q - 1) / 2.
Proof. vm_compute. discriminate. Qed.

(* the constants regenerated from the repository are the specification's *)
Theorem gen_consts_ok :
  BabyJub.Q = q /\ BabyJub.A = ca /\ BabyJub.D = cd /\
  BabyJub.Order = order /\ order = 8 * l /\ BabyJub.SubOrder = l /\
  BabyJub.B8 = (B8x, B8y) /\
  on_curveb q ca cd (B8x, B8y) = true.
Proof. vm_compute. repeat split; reflexivity. Qed.

Lemma gen_Q : BabyJub.Q = q.                 Proof. reflexivity. Qed.
Lemma gen_A : BabyJub.A = ca.                Proof. reflexivity. Qed.
Lemma gen_D : BabyJub.D = cd.                Proof. reflexivity. Qed.
Lemma gen_Order : BabyJub.Order = order.     Proof. vm_compute. reflexivity. Qed.
Lemma gen_SubOrder : BabyJub.SubOrder = l.   Proof. vm_compute. reflexivity. Qed.
Lemma gen_B8 : BabyJub.B8 = (B8x, B8y).      Proof. vm_compute. reflexivity. Qed.
Lemma order_8l : order = 8 * l.              Proof. reflexivity. Qed.

Lemma B8_on_curveb : on_curveb q ca cd (B8x, B8y) = true.
Proof. vm_compute. reflexivity. Qed.

Lemma B8_canonical : canonical q (B8x, B8y).
Proof. cbv [canonical B8x B8y q]. lia. Qed.

Lemma B8_ne_zero : (B8x, B8y) <> ed_zero.
Proof. unfold ed_zero. intros E. apply (f_equal fst) in E. vm_compute in E. discriminate E. Qed.

Local Opaque q.

(* ------------------------------------------------------------------ *)
(** * The hypotheses of Section Group *)

Theorem bj_a_square : exists ra, (ra * ra) mod q = ca mod q /\ ca mod q <> 0.
Proof. exists bj_sqrt_a. split; [ exact bj_sqrt_a_ok | exact bj_a_nonzero ]. Qed.

Theorem bj_d_nonsquare : forall r, (r * r) mod q <> cd mod q.
Proof.
  apply (euler_nonsquare q cd q_prime q_gt_2).
  rewrite <- powmod_spec; [ exact bj_d_euler | exact bj_half_nonneg | exact q_pos ].
Qed.

Notation bj_oc := (on_curve q ca cd).
Notation bj_can := (canonical q).
Notation bj_add := (ed_add q ca cd).
Notation bj_neg := (ed_neg q).
Notation bj_smul := (smul q ca cd).

Lemma on_curveb_iff : forall p a d P, on_curveb p a d P = true <-> on_curve p a d P.
Proof. intros p a d [x y]. cbn [on_curveb on_curve]. apply Z.eqb_eq. Qed.

Lemma B8_on_curve : bj_oc (B8x, B8y).
Proof. apply on_curveb_iff. exact B8_on_curveb. Qed.

(* ------------------------------------------------------------------ *)
(** * Group laws *)

Theorem bj_complete : forall x1 y1 x2 y2, bj_oc (x1, y1) -> bj_oc (x2, y2) ->
  (1 + cd * x1 * x2 * y1 * y2) mod q <> 0 /\ (1 - cd * x1 * x2 * y1 * y2) mod q <> 0.
Proof. exact (ed_complete q ca cd q_prime q_gt_2 bj_a_square bj_d_nonsquare). Qed.

Theorem bj_add_closed : forall P Q, bj_oc P -> bj_oc Q -> bj_oc (bj_add P Q) /\ bj_can (bj_add P Q).
Proof. exact (ed_add_closed q ca cd q_prime q_gt_2 bj_a_square bj_d_nonsquare). Qed.

Theorem bj_add_comm : forall P Q, bj_add P Q = bj_add Q P.
Proof. exact (ed_add_comm q ca cd). Qed.

Theorem bj_add_assoc : forall P Q R, bj_oc P -> bj_oc Q -> bj_oc R ->
  bj_add (bj_add P Q) R = bj_add P (bj_add Q R).
Proof. exact (ed_add_assoc q ca cd q_prime q_gt_2 bj_a_square bj_d_nonsquare). Qed.

Theorem bj_add_zero : forall P, bj_oc P -> bj_can P -> bj_add P ed_zero = P /\ bj_add ed_zero P = P.
Proof.
  intros P H1 H2. split.
  - apply (ed_add_zero_r q ca cd q_prime); assumption.
  - apply (ed_add_zero_l q ca cd q_prime); assumption.
Qed.

Theorem bj_add_zero_r : forall P, bj_oc P -> bj_can P -> bj_add P ed_zero = P.
Proof. intros P H1 H2. exact (proj1 (bj_add_zero P H1 H2)). Qed.

Theorem bj_add_zero_l : forall P, bj_oc P -> bj_can P -> bj_add ed_zero P = P.
Proof. intros P H1 H2. exact (proj2 (bj_add_zero P H1 H2)). Qed.

Theorem bj_zero_oc : bj_oc ed_zero /\ bj_can ed_zero.
Proof. split; [ apply oc_zero | cbn; pose proof q_gt_2; lia ]. Qed.

Theorem bj_neg_closed : forall P, bj_oc P -> bj_oc (bj_neg P) /\ bj_can (bj_neg P).
Proof.
  intros P H. split; [ apply ed_neg_oc; exact H | ].
  destruct P as [x y]. cbn [ed_neg canonical]. pose proof q_pos.
  split; apply Z.mod_pos_bound; assumption.
Qed.

Theorem bj_add_neg : forall P, bj_oc P -> bj_add P (bj_neg P) = ed_zero.
Proof. exact (ed_add_neg q ca cd q_prime q_gt_2 bj_a_square bj_d_nonsquare). Qed.

(* the law does not depend on the representatives of the coordinates *)
Theorem bj_add_mod : forall x1 y1 x2 y2,
  bj_add (x1 mod q, y1 mod q) (x2 mod q, y2 mod q) = bj_add (x1, y1) (x2, y2).
Proof. exact (ed_add_mod q ca cd q_prime). Qed.

(* ------------------------------------------------------------------ *)
(** * Scalar multiplication: k*P = P added k times *)

Theorem bj_smul_0 : forall P, bj_smul 0 P = ed_zero.
Proof. reflexivity. Qed.

Theorem bj_smul_1 : forall P, bj_oc P -> bj_can P -> bj_smul 1 P = P.
Proof. exact (smul_1 q ca cd q_prime). Qed.

Theorem bj_smul_succ : forall k P, 0 <= k -> bj_oc P -> bj_smul (k + 1) P = bj_add P (bj_smul k P).
Proof. exact (smul_succ q ca cd). Qed.

Theorem bj_smul_closed : forall k P, bj_oc P -> bj_oc (bj_smul k P) /\ bj_can (bj_smul k P).
Proof. exact (smul_closed q ca cd q_prime q_gt_2 bj_a_square bj_d_nonsquare). Qed.

Theorem bj_smul_add : forall j k P, 0 <= j -> 0 <= k -> bj_oc P ->
  bj_smul (j + k) P = bj_add (bj_smul j P) (bj_smul k P).
Proof. exact (smul_add q ca cd q_prime q_gt_2 bj_a_square bj_d_nonsquare). Qed.

Theorem bj_smul_mul : forall j k P, 0 <= j -> 0 <= k -> bj_oc P ->
  bj_smul (j * k) P = bj_smul j (bj_smul k P).
Proof. exact (smul_mul q ca cd q_prime q_gt_2 bj_a_square bj_d_nonsquare). Qed.

Theorem bj_smul_zero_pt : forall k, bj_smul k ed_zero = ed_zero.
Proof. exact (smul_zero_pt q ca cd q_prime q_gt_2). Qed.

Theorem bj_smul_mod : forall k x y, bj_smul k (x mod q, y mod q) = bj_smul k (x, y).
Proof. exact (smul_mod q ca cd q_prime). Qed.

Theorem bj_smul_prime_order : forall n P, prime n -> bj_oc P -> bj_can P ->
  bj_smul n P = ed_zero -> P <> ed_zero -> forall k, 0 < k < n -> bj_smul k P <> ed_zero.
Proof. exact (smul_prime_order q ca cd q_prime q_gt_2 bj_a_square bj_d_nonsquare). Qed.

Print Assumptions gen_consts_ok.
Print Assumptions bj_a_square.
Print Assumptions bj_d_nonsquare.
Print Assumptions bj_add_closed.
Print Assumptions bj_add_comm.
Print Assumptions bj_add_assoc.
Print Assumptions bj_add_zero.
Print Assumptions bj_add_neg.
Print Assumptions bj_smul_closed.
Print Assumptions bj_smul_add.
Print Assumptions bj_smul_mul.
Print Assumptions bj_smul_prime_order.

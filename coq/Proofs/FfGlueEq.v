(* The hand-written models of the element-level functions of ff/element.go
   (Model/FfLimbs.v: exp, inverse, div, batchInvert; Model/FfConv.v: legendre,
   sqrt, setBigInt, toBigInt.., cmp, lexLargest ..) EQUAL the Gallina that
   tools/limbgen (glue translator) regenerates from the Go source on every run
   (Gen/FfGlue.v), which in turn calls the limb-level definitions of
   Gen/FfRoutines.v (Proofs/FfRoutinesEq.v).

   Lemmas [gen_<Name>_eq].  Loops: the generated fixpoints are identified with
   the hand-written ones by induction; unbounded Go loops run on explicit fuel
   in the generated code ([OutOfFuel] of Lib/GoGlue.v) and the statements say
   for which fuel the results agree.  No axioms. *)
From Coq Require Import ZArith Lia List Bool.
From Verif Require Import Lib.Params Lib.Words Lib.Octets Lib.GoGlue.
From Verif Require Gen.FfConsts Gen.FfRoutines Gen.FfGlue.
From Verif Require Import Model.FfLimbs Model.FfConv.
From Verif Require Import Proofs.FfRoutinesEq Proofs.SqrtRefine Proofs.GlueLoops.
From Verif Require Proofs.FfSqrt Proofs.FfInverse Proofs.FfCodec Proofs.OctetsProofs Proofs.FfWords Proofs.FfEl Proofs.FfArith.
Import ListNotations.
Local Open Scope Z_scope.

Ltac destruct_el x := destruct x as [[[? ?] ?] ?].
Set Default Timeout 600.
Local Opaque mulGeneric square fromMontGeneric FfRoutines.Element_Square FfRoutines.Element_Mul
  FfRoutines.Element_FromMont FfRoutines.mulGeneric FfRoutines.fromMontGeneric.

(* every call of a limb-level definition of Gen/FfRoutines.v -> the hand model
   (explicit instances: a bare [rewrite gen_Mul_eq] may pick, up to conversion,
   an already rewritten [mulGeneric a b] and loop) *)
Ltac to_hand :=
  repeat match goal with
  | |- context [FfRoutines.Element_Mul ?a ?b] => rewrite (gen_Mul_eq a b)
  | |- context [FfRoutines.Element_Square ?a] => rewrite (gen_square_eq a)
  | |- context [FfRoutines.Element_Set ?a] => rewrite (gen_set_eq a)
  | |- context [FfRoutines.Element_IsZero ?a] => rewrite (gen_isZero_eq a)
  | |- context [FfRoutines.Element_FromMont ?a] => rewrite (gen_FromMont_eq a)
  | |- context [FfRoutines.Element_ToMont ?a] => rewrite (gen_toMont_eq a)
  | |- context [FfRoutines.Element_SetZero] => rewrite gen_setZero_eq
  | |- context [FfRoutines.Element_SetOne] => rewrite gen_setOne_eq
  end.

(* ------------------------------------------------------------------ *)
(** * One, Exp, Legendre *)

Lemma gen_One_eq : FfGlue.One = one.
Proof. unfold FfGlue.One. cbv zeta. apply gen_setOne_eq. Qed.

Lemma gen_Exp_loop_eq : forall n x e z,
  FfGlue.Element_Exp_loop1 n x e z = exp_loop n x z e.
Proof.
  induction n as [ | n IH]; intros x e z; cbn [FfGlue.Element_Exp_loop1 exp_loop]; [ reflexivity | ].
  rewrite gen_square_eq, big_bit_is1, gen_Mul_eq.
  destruct (Z.testbit e (Z.of_nat n)); apply IH.
Qed.

Lemma gen_Exp_eq : forall x e, FfGlue.Element_Exp x e = exp x e.
Proof.
  intros x e. unfold FfGlue.Element_Exp, exp. cbv zeta.
  rewrite big_cmp_eq0.
  destruct (Z.eqb_spec e 0) as [E0 | E0].
  - apply gen_setOne_eq.
  - rewrite gen_set_eq, gen_Exp_loop_eq, big_bitlen_iters by exact E0. reflexivity.
Qed.

Lemma gen_Legendre_eq : forall z, FfGlue.Element_Legendre z = legendre z.
Proof.
  intros z. unfold FfGlue.Element_Legendre, legendre. cbv zeta.
  rewrite gen_Exp_eq, gen_isZero_eq.
  destruct (isZero _); [ reflexivity | ].
  destruct (exp z FfConsts.legendreExp) as [[[l0 l1] l2] l3].
  reflexivity.
Qed.

(* ------------------------------------------------------------------ *)
(** * Sqrt
    The four generated loops are the shapes s_loop1..4 of Proofs/GlueLoops.v
    (instantiated with the limb routines and the inline "t == one" test). *)

Local Notation isOneM := FfSqrt.isOneM.

Lemma gen_Sqrt_loop1_eq : forall n i t,
  FfGlue.Element_Sqrt_loop1 n i t = s_loop1 el square n i t.
Proof.
  induction n as [ | n IH]; intros i t; cbn [FfGlue.Element_Sqrt_loop1 s_loop1]; [ reflexivity | ].
  rewrite gen_square_eq. apply IH.
Qed.

Lemma gen_Sqrt_loop3_eq : forall f t m,
  FfGlue.Element_Sqrt_loop3 f t m = s_loop3 el square isOneM f t m.
Proof.
  induction f as [ | f IH]; intros t m; cbn [FfGlue.Element_Sqrt_loop3 s_loop3]; [ reflexivity | ].
  rewrite gen_square_eq.
  replace (let '(t0, t1, t2, t3) := t in _) with
    (if negb (isOneM t) then FfGlue.Element_Sqrt_loop3 f (square t) (wadd m 1) else Done (t, m))
    by (destruct_el t; reflexivity).
  destruct (negb (isOneM t)); [ apply IH | reflexivity ].
Qed.

Lemma gen_Sqrt_loop4_eq : forall f t ge,
  FfGlue.Element_Sqrt_loop4 f t ge = s_loop4 el square f t ge.
Proof.
  induction f as [ | f IH]; intros t ge; cbn [FfGlue.Element_Sqrt_loop4 s_loop4]; [ reflexivity | ].
  rewrite gen_square_eq. destruct (Z.gtb ge 0); [ apply IH | reflexivity ].
Qed.

Lemma gen_Sqrt_loop2_eq : forall f2 f3 f4 y b g r,
  FfGlue.Element_Sqrt_loop2 f2 f3 f4 y b g r = s_loop2 el mulGeneric square isOneM f2 f3 f4 y b g r.
Proof.
  induction f2 as [ | f2 IH]; intros f3 f4 y b g r;
    cbn [FfGlue.Element_Sqrt_loop2 s_loop2]; [ reflexivity | ].
  rewrite gen_Sqrt_loop3_eq.
  destruct (s_loop3 el square isOneM f3 b 0) as [[t m] | ]; [ | reflexivity ].
  destruct (Z.eqb m 0); [ to_hand; reflexivity | ].
  rewrite gen_Sqrt_loop4_eq.
  destruct (s_loop4 el square f4 g _) as [[t' ge] | ]; [ | reflexivity ].
  to_hand. apply IH.
Qed.

(* the value of Sqrt as the generated code returns it: Some z / None (nil) *)
Definition sqrt_val (o : sqrt_out) : option el :=
  match o with SqSome z => Some z | _ => None end.

Lemma sqrt_r_val : FfConsts.sqrt_r = 28.
Proof. reflexivity. Qed.

Theorem gen_Sqrt_eq : forall f2 f3 f4 x,
  (Z.to_nat FfConsts.sqrt_r + 1 <= f2)%nat -> (Z.to_nat FfConsts.sqrt_r + 1 <= f3)%nat ->
  (Z.to_nat FfConsts.sqrt_r <= f4)%nat ->
  sqrt x <> SqOutOfFuel ->
  FfGlue.Element_Sqrt f2 f3 f4 x = Done (sqrt_val (sqrt x)).
Proof.
  intros f2 f3 f4 x H2 H3 H4 Hfuel.
  rewrite FfSqrt.sqrt_eq in Hfuel |- *.
  unfold FfGlue.Element_Sqrt, gsqrt in *. cbv zeta in *.
  rewrite gen_Exp_eq. to_hand. rewrite gen_Sqrt_loop1_eq, s_loop1_eq. to_hand.
  set (w := exp x FfConsts.sqrtExp) in *.
  set (y := mulGeneric x w) in *. set (b := mulGeneric w y) in *.
  change (Z.to_nat (wsub 28 1 - 0)) with (Z.to_nat (FfConsts.sqrt_r - 1)).
  set (t := gsqn el square (Z.to_nat (FfConsts.sqrt_r - 1)) b) in *.
  destruct (isZero t); [ reflexivity | ].
  replace (let '(t0, t1, t2, t3) := t in _) with
    (if negb (FfSqrt.isOneS t) then Done None
     else FfGlue.Element_Sqrt_loop2 f2 f3 f4 y b FfSqrt.gE FfConsts.sqrt_r)
    by (destruct_el t; reflexivity).
  destruct (negb (FfSqrt.isOneS t)); [ reflexivity | ].
  rewrite gen_Sqrt_loop2_eq.
  destruct (gts_loop el mulGeneric square isOneM (Z.to_nat FfConsts.sqrt_r + 1) y b FfSqrt.gE FfConsts.sqrt_r)
    as [z | ] eqn:TS; [ | exfalso; apply Hfuel; reflexivity ].
  cbn [FfSqrt.of_g sqrt_val].
  apply (s_loop2_of_ts_loop el mulGeneric square isOneM _ f2 f3 f4 _ _ _ _ z TS).
  - rewrite sqrt_r_val. split; [ lia | reflexivity ].
  - exact H2.
  - exact H3.
  - exact H4.
Qed.

Corollary gen_Sqrt_canon_eq : forall x, canon x ->
  FfGlue.Element_Sqrt 29 29 28 x = Done (sqrt_val (sqrt x)).
Proof.
  intros x Hx. apply gen_Sqrt_eq; try (rewrite sqrt_r_val; cbn; lia).
  apply FfSqrt.sqrt_total. exact Hx.
Qed.

(* ------------------------------------------------------------------ *)
(** * Inverse, Div: the generated loops around the fragments of
      Gen/FfRoutines.v are the fuel-bounded fixpoints of Model/FfLimbs.v *)

Definition of_opt {A : Type} (o : option A) : fuelled A :=
  match o with Some a => Done a | None => OutOfFuel end.

Local Opaque FfRoutines.Element_Inverse_pre FfRoutines.Element_Inverse_loop1_cond
  FfRoutines.Element_Inverse_loop1_body FfRoutines.Element_Inverse_loop2_cond
  FfRoutines.Element_Inverse_loop2_body FfRoutines.Element_Inverse_tail inv_body.

Lemma gen_Inverse_loop1_eq : forall f u s r v,
  FfGlue.Element_Inverse_loop1 f u s r v =
  match inv_vloop f v s with Some (v', s') => Done (u, s', r, v') | None => OutOfFuel end.
Proof.
  induction f as [ | f IH]; intros u s r v; [ reflexivity | ].
  rewrite (gen_inv_vloop_eq f u s r v). cbn [FfGlue.Element_Inverse_loop1].
  destruct (FfRoutines.Element_Inverse_loop1_cond u s r v); [ | reflexivity ].
  pose proof (gen_inv_vloop_frame u s r v) as Fr.
  destruct (FfRoutines.Element_Inverse_loop1_body u s r v) as [[[u' s'] r'] v'].
  destruct Fr as [-> ->]. apply IH.
Qed.

Lemma gen_Inverse_loop2_eq : forall f u s r v,
  FfGlue.Element_Inverse_loop2 f u s r v =
  match inv_uloop f u r with Some (u', r') => Done (u', s, r', v) | None => OutOfFuel end.
Proof.
  induction f as [ | f IH]; intros u s r v; [ reflexivity | ].
  rewrite (gen_inv_uloop_eq f u s r v). cbn [FfGlue.Element_Inverse_loop2].
  destruct (FfRoutines.Element_Inverse_loop2_cond u s r v); [ | reflexivity ].
  pose proof (gen_inv_uloop_frame u s r v) as Fr.
  destruct (FfRoutines.Element_Inverse_loop2_body u s r v) as [[[u' s'] r'] v'].
  destruct Fr as [-> ->]. apply IH.
Qed.

Lemma gen_Inverse_loop_eq : forall f u s r v,
  FfGlue.Element_Inverse_loop f inner_fuel inner_fuel u s r v = of_opt (inverse_loop f u v r s).
Proof.
  induction f as [ | f IH]; intros u s r v; [ reflexivity | ].
  cbn [FfGlue.Element_Inverse_loop inverse_loop].
  rewrite gen_Inverse_loop1_eq.
  destruct (inv_vloop inner_fuel v s) as [[v' s'] | ]; [ | reflexivity ].
  rewrite gen_Inverse_loop2_eq.
  destruct (inv_uloop inner_fuel u r) as [[u' r'] | ]; [ | reflexivity ].
  rewrite gen_inv_body_eq.
  destruct (inv_body u' v' r' s') as [z | [[[u2 v2] r2] s2]]; [ reflexivity | apply IH ].
Qed.

(* fuel1 = any fuel of the outer loop; the two inner loops run on inner_fuel *)
Theorem gen_Inverse_fuel_eq : forall f x,
  FfGlue.Element_Inverse f inner_fuel inner_fuel x = of_opt (inverse_fuel f x).
Proof.
  intros f x. unfold FfGlue.Element_Inverse. rewrite (gen_inverse_pre_eq f x).
  destruct (FfRoutines.Element_Inverse_pre x) as [z | [[[u s] r] v]]; [ reflexivity | ].
  apply gen_Inverse_loop_eq.
Qed.

Theorem gen_Inverse_eq : forall x,
  FfGlue.Element_Inverse outer_fuel inner_fuel inner_fuel x = of_opt (inverse x).
Proof. intros x. apply gen_Inverse_fuel_eq. Qed.

(* with the totality theorem of Proofs/FfInverse.v: never out of fuel *)
Corollary gen_Inverse_canon : forall x, canon x ->
  exists z, FfGlue.Element_Inverse outer_fuel inner_fuel inner_fuel x = Done z /\ inverse x = Some z.
Proof.
  intros x Hx. destruct (FfInverse.inverse_correct x Hx) as (z & E & _).
  exists z. rewrite gen_Inverse_eq, E. split; reflexivity.
Qed.

Theorem gen_Div_eq : forall x y,
  FfGlue.Element_Div outer_fuel inner_fuel inner_fuel x y = of_opt (div x y).
Proof.
  intros x y. unfold FfGlue.Element_Div, div. cbv zeta.
  rewrite gen_Inverse_eq. destruct (inverse y) as [yInv | ]; cbn [of_opt]; [ | reflexivity ].
  to_hand. reflexivity.
Qed.

(* ------------------------------------------------------------------ *)
(** * BatchInvert: index loops over slices = the list recursions *)

Lemma batch_fwd_shape : forall a acc, batch_fwd a acc = h_fwd el zero isZero mulGeneric a acc.
Proof.
  induction a as [ | ai a IH]; intros acc; cbn [batch_fwd h_fwd]; [ reflexivity | ].
  destruct (isZero ai); rewrite IH; reflexivity.
Qed.

Lemma batch_bwd_shape : forall a res zs acc,
  batch_bwd a res zs acc = h_bwd el mulGeneric a res zs acc.
Proof.
  induction a as [ | ai a IH]; intros res zs acc; cbn [batch_bwd h_bwd]; [ reflexivity | ].
  destruct res as [ | ri res]; [ reflexivity | ]. destruct zs as [ | zi zs]; [ reflexivity | ].
  rewrite IH. reflexivity.
Qed.

Lemma gen_BatchInvert_loop1_eq : forall n i a res zeroes acc,
  FfGlue.BatchInvert_loop1 n i a res zeroes acc = g_fwd el zero isZero mulGeneric n i a res zeroes acc.
Proof.
  induction n as [ | n IH]; intros i a res zeroes acc; cbn [FfGlue.BatchInvert_loop1 g_fwd]; [ reflexivity | ].
  to_hand. change FfGlue.el_zero with zero. change FfRoutines.el with el in *.
  destruct (isZero (lnth zero a i)); apply IH.
Qed.

Lemma gen_BatchInvert_loop2_eq : forall n a zeroes res acc,
  FfGlue.BatchInvert_loop2 n a zeroes res acc = g_bwd el zero mulGeneric n a zeroes res acc.
Proof.
  induction n as [ | n IH]; intros a zeroes res acc; cbn [FfGlue.BatchInvert_loop2 g_bwd]; [ reflexivity | ].
  to_hand. change FfGlue.el_zero with zero. change FfRoutines.el with el in *.
  destruct (lnth false zeroes (Z.of_nat n)); apply IH.
Qed.

Lemma llen_iters_up : forall (A : Type) (l : list A), Z.to_nat (llen l - 0) = length l.
Proof. intros A l. unfold llen. lia. Qed.
Lemma llen_iters_down : forall (A : Type) (l : list A), Z.to_nat (llen l - 1 + 1) = length l.
Proof. intros A l. unfold llen. lia. Qed.

Theorem gen_BatchInvert_eq : forall a,
  FfGlue.BatchInvert outer_fuel inner_fuel inner_fuel a = of_opt (batchInvert a).
Proof.
  intros a. unfold FfGlue.BatchInvert, batchInvert. cbv zeta. change FfRoutines.el with el in *.
  rewrite llen_0. destruct a as [ | a0 a']; [ reflexivity | ].
  set (a := a0 :: a').
  rewrite !lmake_llen, llen_iters_up, llen_iters_down, gen_One_eq.
  rewrite gen_BatchInvert_loop1_eq. change FfGlue.el_zero with zero.
  rewrite (batch_fwd_shape a one).
  rewrite (g_fwd_whole el zero isZero mulGeneric a one).
  destruct (h_fwd el zero isZero mulGeneric a one) as [[res zs] acc] eqn:F.
  destruct (h_fwd_length _ _ _ _ _ _ _ _ _ F) as [Lr Lz].
  rewrite gen_Inverse_eq. destruct (inverse acc) as [acc' | ]; cbn [of_opt]; [ | reflexivity ].
  rewrite (batch_bwd_shape a res zs acc').
  rewrite gen_BatchInvert_loop2_eq, (g_bwd_whole el zero mulGeneric a res zs acc' Lr Lz).
  destruct (h_bwd el mulGeneric a res zs acc') as [out acc2]. reflexivity.
Qed.

(* ------------------------------------------------------------------ *)
(** * big.Int conversions *)

(* the word-copy loop of setBigInt on the (at most 4) words of v *)
Lemma setBigInt_loop_words : forall w0 w1 w2 w3,
  FfGlue.Element_setBigInt_loop1 0 0 [] zero = (0, 0, 0, 0)
  /\ FfGlue.Element_setBigInt_loop1 1 0 [w0] zero = (w0, 0, 0, 0)
  /\ FfGlue.Element_setBigInt_loop1 2 0 [w0; w1] zero = (w0, w1, 0, 0)
  /\ FfGlue.Element_setBigInt_loop1 3 0 [w0; w1; w2] zero = (w0, w1, w2, 0)
  /\ FfGlue.Element_setBigInt_loop1 4 0 [w0; w1; w2; w3] zero = (w0, w1, w2, w3).
Proof. intros. repeat split; reflexivity. Qed.

Lemma setBigInt_loop_eq : forall v, 0 <= v < FfWords.WW ->
  FfGlue.Element_setBigInt_loop1 (Z.to_nat (llen (big_bits v) - 0)) 0 (big_bits v) zero = limbs_of v.
Proof.
  intros v Hv. rewrite llen_iters_up.
  rewrite big_bits_nonneg by lia. rewrite map_length, seq_length.
  assert (K4 : (big_nwords v <= 4)%nat).
  { apply big_nwords_bound. change (Z.of_nat 4) with 4. exact Hv. }
  assert (Hi : forall j, (big_nwords v <= j)%nat -> (v / W ^ Z.of_nat j) mod W = 0).
  { intros j Hj. apply big_word_high; [ lia | exact Hj ]. }
  unfold limbs_of.
  assert (E0 : v mod W = (v / W ^ Z.of_nat 0) mod W).
  { change (Z.of_nat 0) with 0. rewrite Z.pow_0_r, Z.div_1_r. reflexivity. }
  assert (E1 : (v / W) mod W = (v / W ^ Z.of_nat 1) mod W).
  { change (Z.of_nat 1) with 1. rewrite Z.pow_1_r. reflexivity. }
  rewrite E0, E1. change 2 with (Z.of_nat 2). change 3 with (Z.of_nat 3).
  set (f := fun i : nat => (v / W ^ Z.of_nat i) mod W).
  change (forall j, (big_nwords v <= j)%nat -> f j = 0) in Hi.
  change (FfGlue.Element_setBigInt_loop1 (big_nwords v) 0 (map f (seq 0 (big_nwords v))) zero
          = (f 0%nat, f 1%nat, f 2%nat, f 3%nat)).
  clearbody f.
  destruct (setBigInt_loop_words (f 0%nat) (f 1%nat) (f 2%nat) (f 3%nat)) as (L0 & L1 & L2 & L3 & L4).
  destruct (big_nwords v) as [ | [ | [ | [ | [ | k]]]]]; cbn [seq map]; [ | | | | | lia ].
  - rewrite L0, (Hi 0%nat), (Hi 1%nat), (Hi 2%nat), (Hi 3%nat) by lia. reflexivity.
  - rewrite L1, (Hi 1%nat), (Hi 2%nat), (Hi 3%nat) by lia. reflexivity.
  - rewrite L2, (Hi 2%nat), (Hi 3%nat) by lia. reflexivity.
  - rewrite L3, (Hi 3%nat) by lia. reflexivity.
  - rewrite L4. reflexivity.
Qed.

(* setBigInt is called with z = 0 (SetBigInt zeroes z first) and 0 <= v < q *)
Lemma gen_setBigInt_eq : forall v, 0 <= v < FfWords.WW ->
  FfGlue.Element_setBigInt zero v = setBigInt_inner v.
Proof.
  intros v Hv. unfold FfGlue.Element_setBigInt, setBigInt_inner. cbv zeta.
  rewrite (setBigInt_loop_eq v Hv). to_hand. reflexivity.
Qed.

Lemma modulus_pos : 0 < modulus < FfWords.WW.
Proof. unfold modulus. split; reflexivity. Qed.

Theorem gen_SetBigInt_eq : forall v, FfGlue.Element_SetBigInt v = setBigInt v.
Proof.
  intros v. unfold FfGlue.Element_SetBigInt, setBigInt. cbv zeta. to_hand.
  change FfConsts.modulus with modulus. pose proof modulus_pos as Mp.
  rewrite big_cmp_eqb, big_cmp_is1, big_cmp_ism1.
  unfold Z.gtb. destruct (Z.compare_spec v modulus) as [E | L | G].
  - subst v. rewrite Z.eqb_refl. reflexivity.
  - destruct (Z.eqb_spec v modulus) as [E | _]; [ lia | ]. cbn [negb andb].
    destruct (Z.ltb_spec v 0) as [N | N]; cbn [negb].
    + unfold big_mod. rewrite Z.abs_eq by lia. apply gen_setBigInt_eq.
      pose proof (Z.mod_pos_bound v modulus ltac:(lia)). lia.
    + apply gen_setBigInt_eq. lia.
  - destruct (Z.eqb_spec v modulus) as [E | _]; [ lia | ]. cbn [negb andb].
    unfold big_mod. rewrite Z.abs_eq by lia. apply gen_setBigInt_eq.
    pose proof (Z.mod_pos_bound v modulus ltac:(lia)). lia.
Qed.

Theorem gen_SetBytes_eq : forall e, FfGlue.Element_SetBytes e = setBytes e.
Proof. intros e. unfold FfGlue.Element_SetBytes, setBytes. cbv zeta. apply gen_SetBigInt_eq. Qed.

(* the four PutUint64 into a zeroed [32]byte *)
Lemma put_be64_4 : forall z0 z1 z2 z3,
  put_be64 (put_be64 (put_be64 (put_be64 (lmake 0 32) 24 z0) 16 z1) 8 z2) 0 z3 =
  be_bytes 8 z3 ++ be_bytes 8 z2 ++ be_bytes 8 z1 ++ be_bytes 8 z0.
Proof. intros. reflexivity. Qed.

Theorem gen_ToBigInt_eq : forall z, FfEl.limbs_ok z -> FfGlue.Element_ToBigInt z = toBigInt z.
Proof.
  intros [[[z0 z1] z2] z3] Hz. unfold FfGlue.Element_ToBigInt, toBigInt. cbv zeta.
  rewrite put_be64_4, (FfCodec.be_bytes_limbs _ _ _ _ Hz), OctetsProofs.be_val_be_bytes.
  rewrite FfCodec.pow256_32_WW. apply Z.mod_small. apply FfEl.limbs_val. exact Hz.
Qed.

Theorem gen_ToRegular_eq : forall z, FfGlue.Element_ToRegular z = fromMontGeneric z.
Proof. intros z. unfold FfGlue.Element_ToRegular. cbv zeta. to_hand. reflexivity. Qed.

Theorem gen_ToBigIntRegular_eq : forall z, canon z ->
  FfGlue.Element_ToBigIntRegular z = toBigIntRegular z.
Proof.
  intros z Hz. unfold FfGlue.Element_ToBigIntRegular, toBigIntRegular. cbv zeta. to_hand.
  apply gen_ToBigInt_eq. apply FfEl.canon_limbs.
  destruct (FfArith.fromMont_correct z Hz) as [Hc _]. exact Hc.
Qed.

Theorem gen_Bytes_eq : forall z, FfGlue.Element_Bytes z = bytesOf z.
Proof.
  intros z. unfold FfGlue.Element_Bytes, bytesOf. cbv zeta. rewrite gen_ToRegular_eq.
  destruct (fromMontGeneric z) as [[[z0 z1] z2] z3]. apply put_be64_4.
Qed.

Theorem gen_Marshal_eq : forall z, FfGlue.Element_Marshal z = bytesOf z.
Proof. intros z. unfold FfGlue.Element_Marshal. cbv zeta. apply gen_Bytes_eq. Qed.

(* ------------------------------------------------------------------ *)
(** * Predicates and comparisons (straight-line, on the limbs of FromMont) *)

Theorem gen_IsUint64_eq : forall z, FfGlue.Element_IsUint64 z = isUint64 z.
Proof. intros z. destruct_el z. reflexivity. Qed.

Theorem gen_Cmp_eq : forall z x, FfGlue.Element_Cmp z x = cmp z x.
Proof.
  intros z x. unfold FfGlue.Element_Cmp, cmp. cbv zeta. to_hand.
  destruct (fromMontGeneric z) as [[[z0 z1] z2] z3].
  destruct (fromMontGeneric x) as [[[x0 x1] x2] x3]. reflexivity.
Qed.

Theorem gen_LexicographicallyLargest_eq : forall z,
  FfGlue.Element_LexicographicallyLargest z = lexLargest z.
Proof.
  intros z. unfold FfGlue.Element_LexicographicallyLargest, lexLargest. cbv zeta. to_hand.
  destruct (fromMontGeneric z) as [[[z0 z1] z2] z3]. reflexivity.
Qed.

Theorem gen_NewElementFromUint64_eq : forall v, FfGlue.NewElementFromUint64 v = setUint64 v.
Proof. intros v. unfold FfGlue.NewElementFromUint64, setUint64. cbv zeta. to_hand. reflexivity. Qed.

(* BitLen against the model Model/FfConv.v bitLen (Proofs/FfBits.v: it is the bit length of
   the stored integer) *)
Theorem gen_BitLen_eq : forall z, FfGlue.Element_BitLen z = FfConv.bitLen z.
Proof. intros z. destruct_el z. reflexivity. Qed.

Print Assumptions gen_Exp_eq.
Print Assumptions gen_Legendre_eq.
Print Assumptions gen_Sqrt_eq.
Print Assumptions gen_Sqrt_canon_eq.
Print Assumptions gen_Inverse_eq.
Print Assumptions gen_Div_eq.
Print Assumptions gen_BatchInvert_eq.
Print Assumptions gen_SetBigInt_eq.
Print Assumptions gen_ToBigIntRegular_eq.
Print Assumptions gen_Bytes_eq.
Print Assumptions gen_Cmp_eq.
Print Assumptions gen_LexicographicallyLargest_eq.

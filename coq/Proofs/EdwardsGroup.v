(* Group laws of the affine twisted Edwards addition of Spec/Edwards.v over
   Z/p, p an odd prime, a a non-zero square, d a non-square; scalar
   multiplication lemmas. *)
From Coq Require Import ZArith Znumtheory Lia Morphisms Setoid.
From Verif Require Import Lib.Powmod Lib.NumberTheory Spec.Edwards.
From Verif Require Import Proofs.EdwardsField Proofs.EdwardsComplete Proofs.EdwardsAssoc.
Local Open Scope Z_scope.

(* closure: the sum (X/Dx, Y/Dy) satisfies the curve equation; cofactors by sympy,
   checked by ring *)
Lemma closure_identity : forall a d x1 y1 x2 y2,
  let X := AX a d x1 y1 x2 y2 in let Y := AY a d x1 y1 x2 y2 in
  let Dx := ADx a d x1 y1 x2 y2 in let Dy := ADy a d x1 y1 x2 y2 in
  a * X * X * Dy * Dy + Y * Y * Dx * Dx - Dx * Dx * Dy * Dy - d * X * X * Y * Y
  = (0 - a*a*d*x1*x1*x2*x2*x2*x2*y2*y2 - 2*a*a*x2*x2*x2*x2*y2*y2 + a*a*x2*x2*x2*x2
     + a*d*d*x1*x1*x2*x2*x2*x2*y2*y2*y2*y2 - a*d*x1*x1*x2*x2*y2*y2*y2*y2
     - a*d*y1*y1*x2*x2*x2*x2*y2*y2 + 2*a*d*x2*x2*x2*x2*y2*y2*y2*y2 - 2*a*x2*x2*y2*y2*y2*y2
     + 4*a*x2*x2*y2*y2 + d*d*d*x1*x1*y1*y1*x2*x2*x2*x2*y2*y2*y2*y2
     + d*d*y1*y1*x2*x2*x2*x2*y2*y2*y2*y2 - d*d*x2*x2*x2*x2*y2*y2*y2*y2
     - d*y1*y1*x2*x2*y2*y2*y2*y2 - 2*d*x2*x2*y2*y2 + y2*y2*y2*y2) * ecurve a d x1 y1
  + (a*a*d*x1*x1*x1*x1*x2*x2*y2*y2 + 2*a*a*x1*x1*x2*x2*y2*y2 - a*a*x1*x1*x2*x2
     - 2*a*d*x1*x1*x2*x2*y2*y2 - a*x1*x1*y2*y2 + 2*a*y1*y1*x2*x2*y2*y2 - a*y1*y1*x2*x2
     - 2*a*x2*x2*y2*y2 + a*x2*x2 + d*y1*y1*y1*y1*x2*x2*y2*y2 - 2*d*y1*y1*x2*x2*y2*y2
     + d*x2*x2*y2*y2 - y1*y1*y2*y2 + y2*y2 + 1) * ecurve a d x2 y2.
Proof.
  intros. unfold X, Y, Dx, Dy, AX, AY, ADx, ADy, ecurve. ring.
Qed.

Section Group.
  Variables p a d : Z.
  Hypothesis Hp : prime p.
  Hypothesis Hp2 : 2 < p.
  Hypothesis Ha : exists ra, (ra * ra) mod p = a mod p /\ a mod p <> 0.
  Hypothesis Hd : forall r, (r * r) mod p <> d mod p.

  Local Notation "x == y" := (eqm p x y) (at level 70, no associativity).
  Local Notation oc := (on_curve p a d).
  Local Notation can := (canonical p).
  Local Notation add := (ed_add p a d).
  Local Notation O := ed_zero.

  Let Hp1 : 1 < p := p_gt_1 p Hp.

  Lemma oc_ecurve : forall x y, oc (x, y) <-> ecurve a d x y == 0.
  Proof.
    intros x y. unfold ecurve. rewrite eqm_sub_zero. cbn [on_curve]. reflexivity.
  Qed.

  Lemma oc_eqm : forall x y x' y', x == x' -> y == y' -> oc (x, y) -> oc (x', y').
  Proof.
    intros x y x' y' Hx Hy H. apply oc_ecurve in H. apply oc_ecurve.
    unfold ecurve in *. rewrite <- Hx, <- Hy. exact H.
  Qed.

  Lemma oc_mod : forall x y, oc (x mod p, y mod p) <-> oc (x, y).
  Proof.
    intros x y. split; apply oc_eqm; try apply eqm_mod; symmetry; apply eqm_mod.
  Qed.

  Lemma can_add : forall P Q, can (add P Q).
  Proof.
    intros [x1 y1] [x2 y2]. cbn [ed_add canonical].
    split; apply Z.mod_pos_bound; lia.
  Qed.

  Lemma oc_zero : oc O.
  Proof. apply oc_ecurve. unfold ecurve. ering. Qed.

  Lemma can_zero : can O.
  Proof. cbn. lia. Qed.

  Lemma point_eq : forall P Q : point, can P -> can Q ->
    fst P == fst Q -> snd P == snd Q -> P = Q.
  Proof.
    intros [x y] [x' y'] [Hx Hy] [Hx' Hy'] H1 H2. cbn [fst snd] in *.
    f_equal; apply (eqm_small p); assumption.
  Qed.

  (* ---- invariance under change of representatives ---- *)

  Lemma ed_add_eqm : forall x1 y1 x2 y2 x1' y1' x2' y2',
    x1 == x1' -> y1 == y1' -> x2 == x2' -> y2 == y2' ->
    add (x1, y1) (x2, y2) = add (x1', y1') (x2', y2').
  Proof.
    intros x1 y1 x2 y2 x1' y1' x2' y2' E1 E2 E3 E4. cbn [ed_add].
    f_equal; apply (fdiv_eqm p Hp); rewrite E1, E2, E3, E4; reflexivity.
  Qed.

  Lemma ed_add_mod : forall x1 y1 x2 y2,
    add (x1 mod p, y1 mod p) (x2 mod p, y2 mod p) = add (x1, y1) (x2, y2).
  Proof. intros. apply ed_add_eqm; apply eqm_mod. Qed.

  Lemma ed_add_mod_l : forall x1 y1 Q,
    add (x1 mod p, y1 mod p) Q = add (x1, y1) Q.
  Proof. intros x1 y1 [x2 y2]. apply ed_add_eqm; try apply eqm_mod; reflexivity. Qed.

  Lemma ed_add_mod_r : forall P x2 y2,
    add P (x2 mod p, y2 mod p) = add P (x2, y2).
  Proof. intros [x1 y1] x2 y2. apply ed_add_eqm; try apply eqm_mod; reflexivity. Qed.

  (* ---- commutativity: holds for all integer pairs, no hypothesis needed ---- *)

  Theorem ed_add_comm : forall P Q, add P Q = add Q P.
  Proof.
    intros [x1 y1] [x2 y2]. cbn [ed_add].
    replace (x2 * y1 + y2 * x1) with (x1 * y2 + y1 * x2) by ring.
    replace (y2 * y1 - a * x2 * x1) with (y1 * y2 - a * x1 * x2) by ring.
    replace (d * x2 * x1 * y2 * y1) with (d * x1 * x2 * y1 * y2) by ring.
    reflexivity.
  Qed.

  (* ---- the coordinates of a sum as fractions ---- *)

  Lemma add_x_eq : forall x1 y1 x2 y2, oc (x1, y1) -> oc (x2, y2) ->
    fst (add (x1, y1) (x2, y2)) * ADx a d x1 y1 x2 y2 == AX a d x1 y1 x2 y2.
  Proof.
    intros x1 y1 x2 y2 H1 H2. cbn [ed_add fst]. unfold ADx, AX.
    apply (fdiv_spec p Hp). apply (ed_complete_p p a d Hp Hp2 Ha Hd); assumption.
  Qed.

  Lemma add_y_eq : forall x1 y1 x2 y2, oc (x1, y1) -> oc (x2, y2) ->
    snd (add (x1, y1) (x2, y2)) * ADy a d x1 y1 x2 y2 == AY a d x1 y1 x2 y2.
  Proof.
    intros x1 y1 x2 y2 H1 H2. cbn [ed_add snd]. unfold ADy, AY.
    apply (fdiv_spec p Hp). apply (ed_complete_m p a d Hp Hp2 Ha Hd); assumption.
  Qed.

  Lemma ADx_nz : forall x1 y1 x2 y2, oc (x1, y1) -> oc (x2, y2) ->
    ~ ADx a d x1 y1 x2 y2 == 0.
  Proof. intros. unfold ADx. apply (ed_complete_p p a d Hp Hp2 Ha Hd); assumption. Qed.

  Lemma ADy_nz : forall x1 y1 x2 y2, oc (x1, y1) -> oc (x2, y2) ->
    ~ ADy a d x1 y1 x2 y2 == 0.
  Proof. intros. unfold ADy. apply (ed_complete_m p a d Hp Hp2 Ha Hd); assumption. Qed.

  (* ---- closure ---- *)

  Lemma oc_add : forall x1 y1 x2 y2, oc (x1, y1) -> oc (x2, y2) ->
    oc (add (x1, y1) (x2, y2)).
  Proof.
    intros x1 y1 x2 y2 H1 H2.
    pose proof (add_x_eq x1 y1 x2 y2 H1 H2) as Hx.
    pose proof (add_y_eq x1 y1 x2 y2 H1 H2) as Hy.
    pose proof (ADx_nz x1 y1 x2 y2 H1 H2) as HDx.
    pose proof (ADy_nz x1 y1 x2 y2 H1 H2) as HDy.
    pose proof (closure_identity a d x1 y1 x2 y2) as Hid. cbv zeta in Hid.
    apply oc_ecurve in H1. apply oc_ecurve in H2.
    destruct (add (x1, y1) (x2, y2)) as [u v]. cbn [fst snd] in Hx, Hy.
    apply oc_ecurve.
    set (X := AX a d x1 y1 x2 y2) in *. set (Y := AY a d x1 y1 x2 y2) in *.
    set (Dx := ADx a d x1 y1 x2 y2) in *. set (Dy := ADy a d x1 y1 x2 y2) in *.
    apply (eqm_cancel_l p Hp (Dx * Dx * (Dy * Dy))).
    { apply (eqm_mul_nz p Hp); apply (eqm_mul_nz p Hp); assumption. }
    assert (E : Dx * Dx * (Dy * Dy) * ecurve a d u v
                == a * (u * Dx) * (u * Dx) * Dy * Dy + (v * Dy) * (v * Dy) * Dx * Dx
                   - Dx * Dx * Dy * Dy - d * (u * Dx) * (u * Dx) * (v * Dy) * (v * Dy)).
    { unfold ecurve. ering. }
    rewrite E, Hx, Hy, Hid, H1, H2. ering.
  Qed.

  Theorem ed_add_closed : forall P Q, oc P -> oc Q -> oc (add P Q) /\ can (add P Q).
  Proof.
    intros [x1 y1] [x2 y2] H1 H2. split; [ apply oc_add; assumption | apply can_add ].
  Qed.

  (* ---- neutral element ---- *)

  Theorem ed_add_zero_r : forall P, oc P -> can P -> add P O = P.
  Proof.
    intros [x y] _ [Hx Hy]. unfold ed_zero. cbn [ed_add].
    f_equal; apply (fdiv_unique p Hp); try assumption; try ering.
    - assert (E : 1 + d * x * 0 * y * 1 == 1) by ering. rewrite E. apply (one_nz p Hp).
    - assert (E : 1 - d * x * 0 * y * 1 == 1) by ering. rewrite E. apply (one_nz p Hp).
  Qed.

  Theorem ed_add_zero_l : forall P, oc P -> can P -> add O P = P.
  Proof. intros P H1 H2. rewrite ed_add_comm. apply ed_add_zero_r; assumption. Qed.

  (* ---- inverse ---- *)

  Theorem ed_neg_oc : forall P, oc P -> oc (ed_neg p P).
  Proof.
    intros [x y] H. cbn [ed_neg]. apply oc_mod.
    apply oc_ecurve in H. apply oc_ecurve. unfold ecurve in *.
    assert (E : a * - x * - x + y * y - (1 + d * - x * - x * y * y)
                == a * x * x + y * y - (1 + d * x * x * y * y)) by ering.
    rewrite E. exact H.
  Qed.

  Lemma ed_neg_can : forall P, can (ed_neg p P).
  Proof. intros [x y]. cbn [ed_neg canonical]. split; apply Z.mod_pos_bound; lia. Qed.

  Theorem ed_add_neg : forall P, oc P -> add P (ed_neg p P) = O.
  Proof.
    intros [x y] H. pose proof (ed_neg_oc (x, y) H) as Hn.
    cbn [ed_neg] in *. rewrite ed_add_mod_r. apply (proj1 (oc_mod _ _)) in Hn.
    pose proof (ed_complete_p p a d Hp Hp2 Ha Hd _ _ _ _ H Hn) as HDx.
    pose proof (ed_complete_m p a d Hp Hp2 Ha Hd _ _ _ _ H Hn) as HDy.
    apply oc_ecurve in H. unfold ecurve in H.
    unfold ed_zero. cbn [ed_add].
    f_equal; apply (fdiv_unique p Hp); try assumption; try lia.
    - ering.
    - apply eqm_sub_zero.
      assert (E : 1 * (1 - d * x * - x * y * y) - (y * y - a * x * - x)
                  == - (a * x * x + y * y - (1 + d * x * x * y * y))) by ering.
      rewrite E, H. ering.
  Qed.

  (* ---- associativity ---- *)

  (* (P1 + P2) + P3 as a pair of fractions of polynomials in the six coordinates *)
  Lemma add3_eq : forall x1 y1 x2 y2 x3 y3,
    oc (x1, y1) -> oc (x2, y2) -> oc (x3, y3) ->
    let S := add (add (x1, y1) (x2, y2)) (x3, y3) in
    (fst S * Axd a d x1 y1 x2 y2 x3 y3 == Axn a d x1 y1 x2 y2 x3 y3 /\
     ~ Axd a d x1 y1 x2 y2 x3 y3 == 0) /\
    (snd S * Ayd a d x1 y1 x2 y2 x3 y3 == Ayn a d x1 y1 x2 y2 x3 y3 /\
     ~ Ayd a d x1 y1 x2 y2 x3 y3 == 0).
  Proof.
    intros x1 y1 x2 y2 x3 y3 H1 H2 H3 S. subst S.
    pose proof (add_x_eq x1 y1 x2 y2 H1 H2) as Hx.
    pose proof (add_y_eq x1 y1 x2 y2 H1 H2) as Hy.
    pose proof (ADx_nz x1 y1 x2 y2 H1 H2) as HDx.
    pose proof (ADy_nz x1 y1 x2 y2 H1 H2) as HDy.
    pose proof (oc_add x1 y1 x2 y2 H1 H2) as H12.
    destruct (add (x1, y1) (x2, y2)) as [u v]. cbn [fst snd] in Hx, Hy.
    pose proof (add_x_eq u v x3 y3 H12 H3) as Hx'.
    pose proof (add_y_eq u v x3 y3 H12 H3) as Hy'.
    pose proof (ADx_nz u v x3 y3 H12 H3) as HDx'.
    pose proof (ADy_nz u v x3 y3 H12 H3) as HDy'.
    destruct (add (u, v) (x3, y3)) as [s t]. cbn [fst snd] in *.
    unfold Axd, Axn, Ayd, Ayn.
    set (X := AX a d x1 y1 x2 y2) in *. set (Y := AY a d x1 y1 x2 y2) in *.
    set (Dx := ADx a d x1 y1 x2 y2) in *. set (Dy := ADy a d x1 y1 x2 y2) in *.
    unfold ADx, AX, ADy, AY in Hx', Hy', HDx', HDy'.
    assert (Exd : Dx * Dy + d * X * Y * x3 * y3 == (Dx * Dy) * (1 + d * u * x3 * v * y3)).
    { rewrite <- Hx, <- Hy. ering. }
    assert (Eyd : Dx * Dy - d * X * Y * x3 * y3 == (Dx * Dy) * (1 - d * u * x3 * v * y3)).
    { rewrite <- Hx, <- Hy. ering. }
    assert (HDD : ~ Dx * Dy == 0) by (apply (eqm_mul_nz p Hp); assumption).
    split; split.
    - rewrite Exd.
      assert (E : s * (Dx * Dy * (1 + d * u * x3 * v * y3))
                  == (s * (1 + d * u * x3 * v * y3)) * (Dx * Dy)) by ering.
      rewrite E, Hx', <- Hx, <- Hy. ering.
    - rewrite Exd. apply (eqm_mul_nz p Hp); assumption.
    - rewrite Eyd.
      assert (E : t * (Dx * Dy * (1 - d * u * x3 * v * y3))
                  == (t * (1 - d * u * x3 * v * y3)) * (Dx * Dy)) by ering.
      rewrite E, Hy', <- Hx, <- Hy. ering.
    - rewrite Eyd. apply (eqm_mul_nz p Hp); assumption.
  Qed.

  Theorem ed_add_assoc : forall P Q R, oc P -> oc Q -> oc R ->
    add (add P Q) R = add P (add Q R).
  Proof.
    intros [x1 y1] [x2 y2] [x3 y3] H1 H2 H3.
    rewrite (ed_add_comm (x1, y1) (add (x2, y2) (x3, y3))).
    destruct (add3_eq x1 y1 x2 y2 x3 y3 H1 H2 H3) as [[Lx Lxnz] [Ly Lynz]].
    destruct (add3_eq x2 y2 x3 y3 x1 y1 H2 H3 H1) as [[Rx Rxnz] [Ry Rynz]].
    cbv zeta in Lx, Ly, Rx, Ry.
    pose proof (assoc_x_identity a d x1 y1 x2 y2 x3 y3) as Ix.
    pose proof (assoc_y_identity a d x1 y1 x2 y2 x3 y3) as Iy.
    apply oc_ecurve in H1. apply oc_ecurve in H2. apply oc_ecurve in H3.
    apply point_eq; try apply can_add.
    - set (sL := fst (add (add (x1, y1) (x2, y2)) (x3, y3))) in *.
      set (sR := fst (add (add (x2, y2) (x3, y3)) (x1, y1))) in *.
      set (Ld := Axd a d x1 y1 x2 y2 x3 y3) in *. set (Ln := Axn a d x1 y1 x2 y2 x3 y3) in *.
      set (Rd := Axd a d x2 y2 x3 y3 x1 y1) in *. set (Rn := Axn a d x2 y2 x3 y3 x1 y1) in *.
      apply (eqm_cancel_r p Hp (Ld * Rd)).
      { apply (eqm_mul_nz p Hp); assumption. }
      assert (E1 : sL * (Ld * Rd) == (sL * Ld) * Rd) by ering.
      assert (E2 : sR * (Ld * Rd) == (sR * Rd) * Ld) by ering.
      rewrite E1, E2, Lx, Rx. apply eqm_sub_zero.
      rewrite Ix, H1, H2, H3.
      generalize (Qx1 a d x1 y1 x2 y2 x3 y3) (Qx2 a d x1 y1 x2 y2 x3 y3) (Qx3 a d x1 y1 x2 y2 x3 y3).
      intros k1 k2 k3. ering.
    - set (tL := snd (add (add (x1, y1) (x2, y2)) (x3, y3))) in *.
      set (tR := snd (add (add (x2, y2) (x3, y3)) (x1, y1))) in *.
      set (Ld := Ayd a d x1 y1 x2 y2 x3 y3) in *. set (Ln := Ayn a d x1 y1 x2 y2 x3 y3) in *.
      set (Rd := Ayd a d x2 y2 x3 y3 x1 y1) in *. set (Rn := Ayn a d x2 y2 x3 y3 x1 y1) in *.
      apply (eqm_cancel_r p Hp (Ld * Rd)).
      { apply (eqm_mul_nz p Hp); assumption. }
      assert (E1 : tL * (Ld * Rd) == (tL * Ld) * Rd) by ering.
      assert (E2 : tR * (Ld * Rd) == (tR * Rd) * Ld) by ering.
      rewrite E1, E2, Ly, Ry. apply eqm_sub_zero.
      rewrite Iy, H1, H2, H3.
      generalize (Qy1 a d x1 y1 x2 y2 x3 y3) (Qy2 a d x1 y1 x2 y2 x3 y3) (Qy3 a d x1 y1 x2 y2 x3 y3).
      intros k1 k2 k3. ering.
  Qed.
End Group.

Print Assumptions ed_add_closed.
Print Assumptions ed_add_comm.
Print Assumptions ed_add_zero_r.
Print Assumptions ed_add_neg.
Print Assumptions ed_add_assoc.

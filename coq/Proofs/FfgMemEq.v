(* In-place calls of the ffg (Goldilocks, one limb) routines, as THEOREMS.

   Gen/FfgRoutines.v reads every *Element parameter as an immutable value
   (addGeneric (x y : el) : el).  Gen/FfgMem.v is the translation of the SAME Go
   statements in a memory semantics: pointers are object ids, x[j] is a load,
   z[j] = e a store, in program order, and nothing is assumed about two
   pointers being different (tools/limbgen/README.md, "Memory-level output").

   For every routine that writes through a pointer parameter and for EVERY
   aliasing pattern of its pointer parameters (set partitions of the parameter
   list) this file proves

     routine_mem pz px py m pz = FfgRoutines.routine (m px) (m py)
     forall o, o <> pz -> routine_mem pz px py m o = m o

   for all stores m: the destination holds the value-level result computed
   from the INITIAL operand values, every other object is unchanged.  Lemma
   names: <routine>_mem_<pattern>, pattern in distinct, z_eq_x, z_eq_y, x_eq_y,
   all_eq; summary (arbitrary, possibly equal ids): <routine>_mem_ok.
   limbgen's syntactic per-limb check is now only a fast pre-check.

   Method.  Both sides are the same straight-line program.  The memory side
   is unfolded (load/store become tests Nat.eqb p q on the object ids, which
   the hypotheses of the pattern decide), the operands are destructed into
   limbs, and every stuck `let '(a, b) := add64 ..` / `if` of the common
   skeleton is destructed on both sides at once; the leaves are syntactically
   equal.  The word primitives (add64, sub64, mul64, madd0..3, ..) are never
   unfolded.  Routines that only call other routines (wrappers, mulByConstant,
   Butterfly) are derived from the theorems of their callees.

   Butterfly(a, a) is a documented divergence (known_findings: butterflyalias):
   [butterflyGeneric_mem_a_eq_b] proves what the Go statements leave in the
   object, t - (t + t), as in Proofs/AsmOps.butterfly_aliased_differs.

   No axioms. *)
From Coq Require Import ZArith List Bool Arith Lia.
From Verif Require Import Lib.Params Lib.Words.
From Verif Require Gen.FfgRoutines Gen.FfgMem.
Import FfgMem.
Local Open Scope Z_scope.

(* ------------------------------------------------------------------ *)
(** * Specifications *)

(* f writes the object pz only, and leaves g (initial operand values) there *)
Definition ok1 (f : nat -> mem -> mem) (g : el -> el) (pz : nat) (m : mem) : Prop :=
  f pz m pz = g (m pz) /\ forall o, o <> pz -> f pz m o = m o.

Definition ok2 (f : nat -> nat -> mem -> mem) (g : el -> el)
           (pz px : nat) (m : mem) : Prop :=
  f pz px m pz = g (m px) /\ forall o, o <> pz -> f pz px m o = m o.

Definition ok3 (f : nat -> nat -> nat -> mem -> mem) (g : el -> el -> el)
           (pz px py : nat) (m : mem) : Prop :=
  f pz px py m pz = g (m px) (m py) /\ forall o, o <> pz -> f pz px py m o = m o.

(* all set partitions of (z, x) / (z, x, y) *)
Lemma ok2_all : forall f g,
  (forall z x m, z <> x -> ok2 f g z x m) ->
  (forall z m, ok2 f g z z m) ->
  forall z x m, ok2 f g z x m.
Proof.
  intros f g Hd He z x m. destruct (Nat.eq_dec z x) as [->|N]; auto.
Qed.

Lemma ok3_all : forall f g,
  (forall z x y m, z <> x -> z <> y -> x <> y -> ok3 f g z x y m) ->
  (forall z y m, z <> y -> ok3 f g z z y m) ->
  (forall z x m, z <> x -> ok3 f g z x z m) ->
  (forall z x m, z <> x -> ok3 f g z x x m) ->
  (forall z m, ok3 f g z z z m) ->
  forall z x y m, ok3 f g z x y m.
Proof.
  intros f g Hd Hzx Hzy Hxy Ha z x y m.
  destruct (Nat.eq_dec z x) as [->|N1]; destruct (Nat.eq_dec x y) as [->|N2]; auto.
  destruct (Nat.eq_dec z y) as [->|N3]; auto.
Qed.

(* ------------------------------------------------------------------ *)
(** * Tactics *)

(* hypotheses a <> b  ~>  Nat.eqb a b = false, Nat.eqb b a = false *)
Ltac neq_to_eqb :=
  repeat match goal with
  | H : ?a <> ?b |- _ =>
      let E1 := fresh "E" in
      let E2 := fresh "E" in
      let X := fresh "X" in
      assert (E1 : Nat.eqb a b = false) by (apply Nat.eqb_neq; exact H);
      assert (E2 : Nat.eqb b a = false)
        by (apply Nat.eqb_neq; intro X; apply H; symmetry; exact X);
      clear H
  end.

Ltac rw_eqb :=
  rewrite ?Nat.eqb_refl;
  repeat match goal with
  | E : Nat.eqb ?a ?b = false |- context [Nat.eqb ?a ?b] => rewrite !E
  end.

(* the straight-line routines themselves (no calls except IsZero / SetZero) *)
Ltac unfold_mem :=
  cbv beta zeta delta
    [Element_IsZero_mem Element_Equal_mem Element_SetZero_mem Element_SetOne_mem
     Element_Set_mem mulGeneric_mem fromMontGeneric_mem addGeneric_mem
     doubleGeneric_mem subGeneric_mem negGeneric_mem reduceGeneric_mem load store storeEl].

Ltac unfold_val :=
  cbv beta iota zeta delta
    [get_limb set_limb
     FfgRoutines.Element_IsZero FfgRoutines.Element_Equal FfgRoutines.Element_SetZero
     FfgRoutines.Element_SetOne FfgRoutines.Element_Set FfgRoutines.mulGeneric
     FfgRoutines.fromMontGeneric FfgRoutines.addGeneric FfgRoutines.doubleGeneric
     FfgRoutines.subGeneric FfgRoutines.negGeneric FfgRoutines.reduceGeneric].

(* type Element [1]uint64: an object's content is one Z, nothing to open *)
Ltac limbs_of m := idtac.

(* one stuck match / if of the common skeleton; when the last one is gone the
   final store gets applied to the object id: decide its tests, open the
   object's initial content *)
Ltac step m :=
  match goal with
  | |- context [match ?t with _ => _ end] =>
      lazymatch t with
      | context [match _ with _ => _ end] => fail  (* innermost first *)
      | _ => destruct t
      end
  end; cbv beta iota; rw_eqb; cbv beta iota; limbs_of m; cbv beta iota.

Ltac same_leaf :=
  lazymatch goal with
  | |- ?a = ?b => first [ constr_eq a b | fail 1 "memory-level and value-level result differ" ]
  end; reflexivity.

(* goal: <routine>_mem .. m o = <value-level term over m ..> *)
Ltac run_mem m :=
  neq_to_eqb; unfold_mem; rw_eqb; cbv beta iota;
  limbs_of m; unfold_val; repeat step m; same_leaf.

(* goal: ok<n> f g ids m *)
Ltac prim m :=
  split; [ run_mem m | let o := fresh "o" in let Ho := fresh "Ho" in
                       intros o Ho; run_mem m ].

(* ------------------------------------------------------------------ *)
(** * Read-only routines *)

Lemma Element_IsZero_mem_ok : forall z m,
  Element_IsZero_mem z m = FfgRoutines.Element_IsZero (m z).
Proof. intros z m. run_mem m. Qed.

Lemma Element_Equal_mem_distinct : forall z x m, z <> x ->
  Element_Equal_mem z x m = FfgRoutines.Element_Equal (m z) (m x).
Proof. intros z x m H. run_mem m. Qed.

Lemma Element_Equal_mem_z_eq_x : forall z m,
  Element_Equal_mem z z m = FfgRoutines.Element_Equal (m z) (m z).
Proof. intros z m. run_mem m. Qed.

Theorem Element_Equal_mem_ok : forall z x m,
  Element_Equal_mem z x m = FfgRoutines.Element_Equal (m z) (m x).
Proof.
  intros z x m. destruct (Nat.eq_dec z x) as [->|N].
  - apply Element_Equal_mem_z_eq_x.
  - apply Element_Equal_mem_distinct; exact N.
Qed.

(* ------------------------------------------------------------------ *)
(** * Constants: SetZero, SetOne (one pointer) *)

Definition ok0 (f : nat -> mem -> mem) (v : el) (pz : nat) (m : mem) : Prop :=
  f pz m pz = v /\ forall o, o <> pz -> f pz m o = m o.

Theorem Element_SetZero_mem_ok : forall z m,
  ok0 Element_SetZero_mem FfgRoutines.Element_SetZero z m.
Proof. intros z m. prim m. Qed.

Theorem Element_SetOne_mem_ok : forall z m,
  ok0 Element_SetOne_mem FfgRoutines.Element_SetOne z m.
Proof. intros z m. prim m. Qed.

(* ------------------------------------------------------------------ *)
(** * One pointer, read and written: fromMont, reduce (ffg's Halve calls Inverse: glue level) *)

Theorem fromMontGeneric_mem_ok : forall z m,
  ok1 fromMontGeneric_mem FfgRoutines.fromMontGeneric z m.
Proof. intros z m. prim m. Qed.

Theorem reduceGeneric_mem_ok : forall z m,
  ok1 reduceGeneric_mem FfgRoutines.reduceGeneric z m.
Proof. intros z m. prim m. Qed.

(* ------------------------------------------------------------------ *)
(** * Two pointers (z, x): Set, double, neg *)

Lemma Element_Set_mem_distinct : forall z x m, z <> x ->
  ok2 Element_Set_mem FfgRoutines.Element_Set z x m.
Proof. intros z x m H. prim m. Qed.

Lemma Element_Set_mem_z_eq_x : forall z m,
  ok2 Element_Set_mem FfgRoutines.Element_Set z z m.
Proof. intros z m. prim m. Qed.

Theorem Element_Set_mem_ok : forall z x m,
  ok2 Element_Set_mem FfgRoutines.Element_Set z x m.
Proof.
  apply ok2_all; [ exact Element_Set_mem_distinct | exact Element_Set_mem_z_eq_x ].
Qed.

Lemma doubleGeneric_mem_distinct : forall z x m, z <> x ->
  ok2 doubleGeneric_mem FfgRoutines.doubleGeneric z x m.
Proof. intros z x m H. prim m. Qed.

Lemma doubleGeneric_mem_z_eq_x : forall z m,
  ok2 doubleGeneric_mem FfgRoutines.doubleGeneric z z m.
Proof. intros z m. prim m. Qed.

Theorem doubleGeneric_mem_ok : forall z x m,
  ok2 doubleGeneric_mem FfgRoutines.doubleGeneric z x m.
Proof.
  apply ok2_all; [ exact doubleGeneric_mem_distinct | exact doubleGeneric_mem_z_eq_x ].
Qed.

Lemma negGeneric_mem_distinct : forall z x m, z <> x ->
  ok2 negGeneric_mem FfgRoutines.negGeneric z x m.
Proof. intros z x m H. prim m. Qed.

Lemma negGeneric_mem_z_eq_x : forall z m,
  ok2 negGeneric_mem FfgRoutines.negGeneric z z m.
Proof. intros z m. prim m. Qed.

Theorem negGeneric_mem_ok : forall z x m,
  ok2 negGeneric_mem FfgRoutines.negGeneric z x m.
Proof.
  apply ok2_all; [ exact negGeneric_mem_distinct | exact negGeneric_mem_z_eq_x ].
Qed.

(* ------------------------------------------------------------------ *)
(** * Three pointers (z, x, y): add, sub, mul; all five set partitions *)

Lemma addGeneric_mem_distinct : forall z x y m, z <> x -> z <> y -> x <> y ->
  ok3 addGeneric_mem FfgRoutines.addGeneric z x y m.
Proof. intros z x y m H1 H2 H3. prim m. Qed.

Lemma addGeneric_mem_z_eq_x : forall z y m, z <> y ->
  ok3 addGeneric_mem FfgRoutines.addGeneric z z y m.
Proof. intros z y m H. prim m. Qed.

Lemma addGeneric_mem_z_eq_y : forall z x m, z <> x ->
  ok3 addGeneric_mem FfgRoutines.addGeneric z x z m.
Proof. intros z x m H. prim m. Qed.

Lemma addGeneric_mem_x_eq_y : forall z x m, z <> x ->
  ok3 addGeneric_mem FfgRoutines.addGeneric z x x m.
Proof. intros z x m H. prim m. Qed.

Lemma addGeneric_mem_all_eq : forall z m,
  ok3 addGeneric_mem FfgRoutines.addGeneric z z z m.
Proof. intros z m. prim m. Qed.

Theorem addGeneric_mem_ok : forall z x y m,
  ok3 addGeneric_mem FfgRoutines.addGeneric z x y m.
Proof.
  apply ok3_all;
    [ exact addGeneric_mem_distinct | exact addGeneric_mem_z_eq_x | exact addGeneric_mem_z_eq_y
    | exact addGeneric_mem_x_eq_y | exact addGeneric_mem_all_eq ].
Qed.

Lemma subGeneric_mem_distinct : forall z x y m, z <> x -> z <> y -> x <> y ->
  ok3 subGeneric_mem FfgRoutines.subGeneric z x y m.
Proof. intros z x y m H1 H2 H3. prim m. Qed.

Lemma subGeneric_mem_z_eq_x : forall z y m, z <> y ->
  ok3 subGeneric_mem FfgRoutines.subGeneric z z y m.
Proof. intros z y m H. prim m. Qed.

Lemma subGeneric_mem_z_eq_y : forall z x m, z <> x ->
  ok3 subGeneric_mem FfgRoutines.subGeneric z x z m.
Proof. intros z x m H. prim m. Qed.

Lemma subGeneric_mem_x_eq_y : forall z x m, z <> x ->
  ok3 subGeneric_mem FfgRoutines.subGeneric z x x m.
Proof. intros z x m H. prim m. Qed.

Lemma subGeneric_mem_all_eq : forall z m,
  ok3 subGeneric_mem FfgRoutines.subGeneric z z z m.
Proof. intros z m. prim m. Qed.

Theorem subGeneric_mem_ok : forall z x y m,
  ok3 subGeneric_mem FfgRoutines.subGeneric z x y m.
Proof.
  apply ok3_all;
    [ exact subGeneric_mem_distinct | exact subGeneric_mem_z_eq_x | exact subGeneric_mem_z_eq_y
    | exact subGeneric_mem_x_eq_y | exact subGeneric_mem_all_eq ].
Qed.

Lemma mulGeneric_mem_distinct : forall z x y m, z <> x -> z <> y -> x <> y ->
  ok3 mulGeneric_mem FfgRoutines.mulGeneric z x y m.
Proof. intros z x y m H1 H2 H3. prim m. Qed.

Lemma mulGeneric_mem_z_eq_x : forall z y m, z <> y ->
  ok3 mulGeneric_mem FfgRoutines.mulGeneric z z y m.
Proof. intros z y m H. prim m. Qed.

Lemma mulGeneric_mem_z_eq_y : forall z x m, z <> x ->
  ok3 mulGeneric_mem FfgRoutines.mulGeneric z x z m.
Proof. intros z x m H. prim m. Qed.

Lemma mulGeneric_mem_x_eq_y : forall z x m, z <> x ->
  ok3 mulGeneric_mem FfgRoutines.mulGeneric z x x m.
Proof. intros z x m H. prim m. Qed.

Lemma mulGeneric_mem_all_eq : forall z m,
  ok3 mulGeneric_mem FfgRoutines.mulGeneric z z z m.
Proof. intros z m. prim m. Qed.

Theorem mulGeneric_mem_ok : forall z x y m,
  ok3 mulGeneric_mem FfgRoutines.mulGeneric z x y m.
Proof.
  apply ok3_all;
    [ exact mulGeneric_mem_distinct | exact mulGeneric_mem_z_eq_x | exact mulGeneric_mem_z_eq_y
    | exact mulGeneric_mem_x_eq_y | exact mulGeneric_mem_all_eq ].
Qed.

(* ------------------------------------------------------------------ *)
(** * Wrappers: the portable dispatch (element_ops_noasm.go) and the exported
     methods.  Each is `let M' := callee_mem .. M' in M'`, convertible to its
     callee, so every pattern lemma is the callee's. *)

Lemma mul_mem_distinct : forall z x y m, z <> x -> z <> y -> x <> y ->
  ok3 mul_mem FfgRoutines.mul z x y m.
Proof. exact mulGeneric_mem_distinct. Qed.
Lemma mul_mem_z_eq_x : forall z y m, z <> y -> ok3 mul_mem FfgRoutines.mul z z y m.
Proof. exact mulGeneric_mem_z_eq_x. Qed.
Lemma mul_mem_z_eq_y : forall z x m, z <> x -> ok3 mul_mem FfgRoutines.mul z x z m.
Proof. exact mulGeneric_mem_z_eq_y. Qed.
Lemma mul_mem_x_eq_y : forall z x m, z <> x -> ok3 mul_mem FfgRoutines.mul z x x m.
Proof. exact mulGeneric_mem_x_eq_y. Qed.
Lemma mul_mem_all_eq : forall z m, ok3 mul_mem FfgRoutines.mul z z z m.
Proof. exact mulGeneric_mem_all_eq. Qed.
Theorem mul_mem_ok : forall z x y m, ok3 mul_mem FfgRoutines.mul z x y m.
Proof. exact mulGeneric_mem_ok. Qed.

Lemma Element_Mul_mem_distinct : forall z x y m, z <> x -> z <> y -> x <> y ->
  ok3 Element_Mul_mem FfgRoutines.Element_Mul z x y m.
Proof. exact mul_mem_distinct. Qed.
Lemma Element_Mul_mem_z_eq_x : forall z y m, z <> y -> ok3 Element_Mul_mem FfgRoutines.Element_Mul z z y m.
Proof. exact mul_mem_z_eq_x. Qed.
Lemma Element_Mul_mem_z_eq_y : forall z x m, z <> x -> ok3 Element_Mul_mem FfgRoutines.Element_Mul z x z m.
Proof. exact mul_mem_z_eq_y. Qed.
Lemma Element_Mul_mem_x_eq_y : forall z x m, z <> x -> ok3 Element_Mul_mem FfgRoutines.Element_Mul z x x m.
Proof. exact mul_mem_x_eq_y. Qed.
Lemma Element_Mul_mem_all_eq : forall z m, ok3 Element_Mul_mem FfgRoutines.Element_Mul z z z m.
Proof. exact mul_mem_all_eq. Qed.
Theorem Element_Mul_mem_ok : forall z x y m, ok3 Element_Mul_mem FfgRoutines.Element_Mul z x y m.
Proof. exact mul_mem_ok. Qed.

(* Square(z, x) = mul(z, x, x): its two patterns are x = y and z = x = y of mul *)
Lemma Element_Square_mem_distinct : forall z x m, z <> x ->
  ok2 Element_Square_mem FfgRoutines.Element_Square z x m.
Proof. exact mul_mem_x_eq_y. Qed.
Lemma Element_Square_mem_z_eq_x : forall z m,
  ok2 Element_Square_mem FfgRoutines.Element_Square z z m.
Proof. exact mul_mem_all_eq. Qed.
Theorem Element_Square_mem_ok : forall z x m,
  ok2 Element_Square_mem FfgRoutines.Element_Square z x m.
Proof.
  apply ok2_all; [ exact Element_Square_mem_distinct | exact Element_Square_mem_z_eq_x ].
Qed.

Lemma add_mem_distinct : forall z x y m, z <> x -> z <> y -> x <> y ->
  ok3 add_mem FfgRoutines.add z x y m.
Proof. exact addGeneric_mem_distinct. Qed.
Lemma add_mem_z_eq_x : forall z y m, z <> y -> ok3 add_mem FfgRoutines.add z z y m.
Proof. exact addGeneric_mem_z_eq_x. Qed.
Lemma add_mem_z_eq_y : forall z x m, z <> x -> ok3 add_mem FfgRoutines.add z x z m.
Proof. exact addGeneric_mem_z_eq_y. Qed.
Lemma add_mem_x_eq_y : forall z x m, z <> x -> ok3 add_mem FfgRoutines.add z x x m.
Proof. exact addGeneric_mem_x_eq_y. Qed.
Lemma add_mem_all_eq : forall z m, ok3 add_mem FfgRoutines.add z z z m.
Proof. exact addGeneric_mem_all_eq. Qed.
Theorem add_mem_ok : forall z x y m, ok3 add_mem FfgRoutines.add z x y m.
Proof. exact addGeneric_mem_ok. Qed.

Lemma Element_Add_mem_distinct : forall z x y m, z <> x -> z <> y -> x <> y ->
  ok3 Element_Add_mem FfgRoutines.Element_Add z x y m.
Proof. exact add_mem_distinct. Qed.
Lemma Element_Add_mem_z_eq_x : forall z y m, z <> y -> ok3 Element_Add_mem FfgRoutines.Element_Add z z y m.
Proof. exact add_mem_z_eq_x. Qed.
Lemma Element_Add_mem_z_eq_y : forall z x m, z <> x -> ok3 Element_Add_mem FfgRoutines.Element_Add z x z m.
Proof. exact add_mem_z_eq_y. Qed.
Lemma Element_Add_mem_x_eq_y : forall z x m, z <> x -> ok3 Element_Add_mem FfgRoutines.Element_Add z x x m.
Proof. exact add_mem_x_eq_y. Qed.
Lemma Element_Add_mem_all_eq : forall z m, ok3 Element_Add_mem FfgRoutines.Element_Add z z z m.
Proof. exact add_mem_all_eq. Qed.
Theorem Element_Add_mem_ok : forall z x y m, ok3 Element_Add_mem FfgRoutines.Element_Add z x y m.
Proof. exact add_mem_ok. Qed.

Lemma sub_mem_distinct : forall z x y m, z <> x -> z <> y -> x <> y ->
  ok3 sub_mem FfgRoutines.sub z x y m.
Proof. exact subGeneric_mem_distinct. Qed.
Lemma sub_mem_z_eq_x : forall z y m, z <> y -> ok3 sub_mem FfgRoutines.sub z z y m.
Proof. exact subGeneric_mem_z_eq_x. Qed.
Lemma sub_mem_z_eq_y : forall z x m, z <> x -> ok3 sub_mem FfgRoutines.sub z x z m.
Proof. exact subGeneric_mem_z_eq_y. Qed.
Lemma sub_mem_x_eq_y : forall z x m, z <> x -> ok3 sub_mem FfgRoutines.sub z x x m.
Proof. exact subGeneric_mem_x_eq_y. Qed.
Lemma sub_mem_all_eq : forall z m, ok3 sub_mem FfgRoutines.sub z z z m.
Proof. exact subGeneric_mem_all_eq. Qed.
Theorem sub_mem_ok : forall z x y m, ok3 sub_mem FfgRoutines.sub z x y m.
Proof. exact subGeneric_mem_ok. Qed.

Lemma Element_Sub_mem_distinct : forall z x y m, z <> x -> z <> y -> x <> y ->
  ok3 Element_Sub_mem FfgRoutines.Element_Sub z x y m.
Proof. exact sub_mem_distinct. Qed.
Lemma Element_Sub_mem_z_eq_x : forall z y m, z <> y -> ok3 Element_Sub_mem FfgRoutines.Element_Sub z z y m.
Proof. exact sub_mem_z_eq_x. Qed.
Lemma Element_Sub_mem_z_eq_y : forall z x m, z <> x -> ok3 Element_Sub_mem FfgRoutines.Element_Sub z x z m.
Proof. exact sub_mem_z_eq_y. Qed.
Lemma Element_Sub_mem_x_eq_y : forall z x m, z <> x -> ok3 Element_Sub_mem FfgRoutines.Element_Sub z x x m.
Proof. exact sub_mem_x_eq_y. Qed.
Lemma Element_Sub_mem_all_eq : forall z m, ok3 Element_Sub_mem FfgRoutines.Element_Sub z z z m.
Proof. exact sub_mem_all_eq. Qed.
Theorem Element_Sub_mem_ok : forall z x y m, ok3 Element_Sub_mem FfgRoutines.Element_Sub z x y m.
Proof. exact sub_mem_ok. Qed.

Lemma double_mem_distinct : forall z x m, z <> x -> ok2 double_mem FfgRoutines.double z x m.
Proof. exact doubleGeneric_mem_distinct. Qed.
Lemma double_mem_z_eq_x : forall z m, ok2 double_mem FfgRoutines.double z z m.
Proof. exact doubleGeneric_mem_z_eq_x. Qed.
Theorem double_mem_ok : forall z x m, ok2 double_mem FfgRoutines.double z x m.
Proof. exact doubleGeneric_mem_ok. Qed.

Lemma Element_Double_mem_distinct : forall z x m, z <> x -> ok2 Element_Double_mem FfgRoutines.Element_Double z x m.
Proof. exact double_mem_distinct. Qed.
Lemma Element_Double_mem_z_eq_x : forall z m, ok2 Element_Double_mem FfgRoutines.Element_Double z z m.
Proof. exact double_mem_z_eq_x. Qed.
Theorem Element_Double_mem_ok : forall z x m, ok2 Element_Double_mem FfgRoutines.Element_Double z x m.
Proof. exact double_mem_ok. Qed.

Lemma neg_mem_distinct : forall z x m, z <> x -> ok2 neg_mem FfgRoutines.neg z x m.
Proof. exact negGeneric_mem_distinct. Qed.
Lemma neg_mem_z_eq_x : forall z m, ok2 neg_mem FfgRoutines.neg z z m.
Proof. exact negGeneric_mem_z_eq_x. Qed.
Theorem neg_mem_ok : forall z x m, ok2 neg_mem FfgRoutines.neg z x m.
Proof. exact negGeneric_mem_ok. Qed.

Lemma Element_Neg_mem_distinct : forall z x m, z <> x -> ok2 Element_Neg_mem FfgRoutines.Element_Neg z x m.
Proof. exact neg_mem_distinct. Qed.
Lemma Element_Neg_mem_z_eq_x : forall z m, ok2 Element_Neg_mem FfgRoutines.Element_Neg z z m.
Proof. exact neg_mem_z_eq_x. Qed.
Theorem Element_Neg_mem_ok : forall z x m, ok2 Element_Neg_mem FfgRoutines.Element_Neg z x m.
Proof. exact neg_mem_ok. Qed.

Theorem fromMont_mem_ok : forall z m, ok1 fromMont_mem FfgRoutines.fromMont z m.
Proof. exact fromMontGeneric_mem_ok. Qed.

Theorem Element_FromMont_mem_ok : forall z m, ok1 Element_FromMont_mem FfgRoutines.Element_FromMont z m.
Proof. exact fromMont_mem_ok. Qed.

Theorem reduce_mem_ok : forall z m, ok1 reduce_mem FfgRoutines.reduce z m.
Proof. exact reduceGeneric_mem_ok. Qed.

(* ------------------------------------------------------------------ *)
(** * Routines that read the package-level constant rSquare

   &rSquare is the fixed object g_rSquare; the store must hold the constant
   there ([globals_ok]) and the destination must not be that object (the Go
   package never passes &rSquare as a destination; limbgen checks it). *)

Lemma storeEl_same : forall m p v, storeEl m p v p = v.
Proof. intros. unfold storeEl. rewrite Nat.eqb_refl. reflexivity. Qed.

Lemma storeEl_other : forall m p v o, o <> p -> storeEl m p v o = m o.
Proof.
  intros m p v o H. unfold storeEl.
  destruct (Nat.eqb_spec o p) as [E|_]; [ contradiction | reflexivity ].
Qed.

Theorem Element_SetUint64_mem_ok : forall z v m,
  globals_ok m -> z <> g_rSquare ->
  Element_SetUint64_mem z v m z = FfgRoutines.Element_SetUint64 v /\
  forall o, o <> z -> Element_SetUint64_mem z v m o = m o.
Proof.
  intros z v m G Hz. unfold Element_SetUint64_mem. cbv zeta.
  destruct (Element_Mul_mem_z_eq_x z g_rSquare (storeEl m z v) Hz) as [A B].
  split.
  - rewrite A, storeEl_same, storeEl_other by (intro E; apply Hz; symmetry; exact E).
    rewrite G.
    cbv beta zeta delta [FfgRoutines.Element_SetUint64 g_rSquare_val]. reflexivity.
  - intros o Ho. rewrite (B o Ho). apply storeEl_other. exact Ho.
Qed.

Theorem Element_ToMont_mem_ok : forall z m,
  globals_ok m -> z <> g_rSquare ->
  ok1 Element_ToMont_mem FfgRoutines.Element_ToMont z m.
Proof.
  intros z m G Hz. unfold ok1, Element_ToMont_mem. cbv zeta.
  destruct (Element_Mul_mem_z_eq_x z g_rSquare m Hz) as [A B].
  split.
  - rewrite A, G.
    cbv beta zeta delta [FfgRoutines.Element_ToMont g_rSquare_val]. reflexivity.
  - exact B.
Qed.

(* ------------------------------------------------------------------ *)
(** * mulByConstant, MulBy3 / 5 / 13: local Elements live in the frame

   The locals _z, y of mulByConstant are the objects fr, fr + 1, fr + 2; the
   pointer parameter (and the package constants) lie below the frame.  Objects
   of the frame are dead after the call: the frame rule speaks about o < fr. *)

Theorem mulByConstant_mem_ok : forall z c fr m,
  globals_ok m -> z <> g_rSquare -> (z < fr)%nat -> (g_rSquare < fr)%nat ->
  mulByConstant_mem z c fr m z = FfgRoutines.mulByConstant (m z) c /\
  forall o, (o < fr)%nat -> o <> z -> mulByConstant_mem z c fr m o = m o.
Proof.
  intros z c fr m G Hz Hfr Hg.
  unfold mulByConstant_mem, FfgRoutines.mulByConstant. cbv zeta.
  destruct (Z.eqb c 0).
  { destruct (Element_SetZero_mem_ok z m) as [A B]. split; [ exact A | intros; apply B; assumption ]. }
  destruct (Z.eqb c 1).
  { split; [ reflexivity | intros; reflexivity ]. }
  destruct (Z.eqb c 2).
  { destruct (Element_Double_mem_z_eq_x z m) as [A B]. split; [ exact A | intros; apply B; assumption ]. }
  destruct (Z.eqb c 3).
  { set (M1 := storeEl m fr (m z)).
    set (M2 := Element_Double_mem z z M1).
    destruct (Element_Double_mem_z_eq_x z M1) as [D1 D2]. fold M2 in D1, D2.
    destruct (Element_Add_mem_z_eq_x z fr M2 ltac:(lia)) as [A1 A2].
    assert (E1 : M1 z = m z) by (apply storeEl_other; lia).
    assert (E2 : M1 fr = m z) by apply storeEl_same.
    split.
    - rewrite A1, D1, (D2 fr) by lia. rewrite E1, E2. reflexivity.
    - intros o Ho Hoz. rewrite A2, D2 by assumption. apply storeEl_other. lia. }
  destruct (Z.eqb c 5).
  { set (t := (fr + 1)%nat).
    set (M1 := storeEl m t (m z)).
    set (M2 := Element_Double_mem z z M1).
    set (M3 := Element_Double_mem z z M2).
    destruct (Element_Double_mem_z_eq_x z M1) as [D1 D2]. fold M2 in D1, D2.
    destruct (Element_Double_mem_z_eq_x z M2) as [D3 D4]. fold M3 in D3, D4.
    destruct (Element_Add_mem_z_eq_x z t M3 ltac:(subst t; lia)) as [A1 A2].
    assert (E1 : M1 z = m z) by (apply storeEl_other; subst t; lia).
    assert (E2 : M1 t = m z) by apply storeEl_same.
    split.
    - rewrite A1, D3, D1, (D4 t), (D2 t) by (subst t; lia). rewrite E1, E2. reflexivity.
    - intros o Ho Hoz. rewrite A2, D4, D2 by assumption. apply storeEl_other. subst t; lia. }
  set (y := (fr + 2)%nat).
  set (M1 := storeEl m y 0).
  assert (G1 : globals_ok M1).
  { unfold globals_ok. rewrite <- G. apply storeEl_other. subst y; lia. }
  destruct (Element_SetUint64_mem_ok y c M1 G1 ltac:(subst y; lia)) as [S1 S2].
  set (M2 := Element_SetUint64_mem y c M1) in *.
  destruct (Element_Mul_mem_z_eq_x z y M2 ltac:(subst y; lia)) as [A1 A2].
  assert (E1 : M1 z = m z) by (apply storeEl_other; subst y; lia).
  split.
  - rewrite A1, S1, (S2 z) by (subst y; lia). rewrite E1. reflexivity.
  - intros o Ho Hoz. rewrite A2, S2 by (subst y; lia). apply storeEl_other. subst y; lia.
Qed.

Theorem MulBy3_mem_ok : forall x fr m,
  globals_ok m -> x <> g_rSquare -> (x < fr)%nat -> (g_rSquare < fr)%nat ->
  MulBy3_mem x fr m x = FfgRoutines.MulBy3 (m x) /\
  forall o, (o < fr)%nat -> o <> x -> MulBy3_mem x fr m o = m o.
Proof. intros x fr m. exact (mulByConstant_mem_ok x 3 fr m). Qed.

Theorem MulBy5_mem_ok : forall x fr m,
  globals_ok m -> x <> g_rSquare -> (x < fr)%nat -> (g_rSquare < fr)%nat ->
  MulBy5_mem x fr m x = FfgRoutines.MulBy5 (m x) /\
  forall o, (o < fr)%nat -> o <> x -> MulBy5_mem x fr m o = m o.
Proof. intros x fr m. exact (mulByConstant_mem_ok x 5 fr m). Qed.

Theorem MulBy13_mem_ok : forall x fr m,
  globals_ok m -> x <> g_rSquare -> (x < fr)%nat -> (g_rSquare < fr)%nat ->
  MulBy13_mem x fr m x = FfgRoutines.MulBy13 (m x) /\
  forall o, (o < fr)%nat -> o <> x -> MulBy13_mem x fr m o = m o.
Proof. intros x fr m. exact (mulByConstant_mem_ok x 13 fr m). Qed.

(* ------------------------------------------------------------------ *)
(** * Butterfly (a, b) := (a + b, a - b): two destinations

   t := *a; a.Add(a, b); b.Sub(&t, b).  With a <> b both objects get the
   value-level results.  With a == b the Go statements leave t - (t + t) in
   the object: the second statement overwrites the operand b of the third.
   This is the documented divergence from the assembly, which leaves t + t
   (Proofs/AsmOps.v: asm_Butterfly_aliased, butterfly_aliased_differs). *)

Lemma butterflyGeneric_mem_distinct : forall a b fr m,
  a <> b -> (a < fr)%nat -> (b < fr)%nat ->
  butterflyGeneric_mem a b fr m a = fst (FfgRoutines.butterflyGeneric (m a) (m b)) /\
  butterflyGeneric_mem a b fr m b = snd (FfgRoutines.butterflyGeneric (m a) (m b)) /\
  forall o, (o < fr)%nat -> o <> a -> o <> b -> butterflyGeneric_mem a b fr m o = m o.
Proof.
  intros a b fr m Hab Ha Hb.
  unfold butterflyGeneric_mem, FfgRoutines.butterflyGeneric. cbv zeta. cbn [fst snd].
  set (M1 := storeEl m fr (m a)).
  destruct (Element_Add_mem_z_eq_x a b M1 Hab) as [A1 A2].
  set (M2 := Element_Add_mem a a b M1) in *.
  destruct (Element_Sub_mem_z_eq_y b fr M2 ltac:(lia)) as [S1 S2].
  assert (Ea : M1 a = m a) by (apply storeEl_other; lia).
  assert (Eb : M1 b = m b) by (apply storeEl_other; lia).
  assert (Et : M1 fr = m a) by apply storeEl_same.
  split; [ | split ].
  - rewrite S2 by exact Hab. rewrite A1, Ea, Eb. reflexivity.
  - rewrite S1, (A2 fr), (A2 b) by lia. rewrite Et, Eb. reflexivity.
  - intros o Ho Hoa Hob. rewrite S2, A2 by assumption. apply storeEl_other. lia.
Qed.

Lemma butterflyGeneric_mem_a_eq_b : forall a fr m,
  (a < fr)%nat ->
  butterflyGeneric_mem a a fr m a =
    FfgRoutines.Element_Sub (m a) (FfgRoutines.Element_Add (m a) (m a)) /\
  forall o, (o < fr)%nat -> o <> a -> butterflyGeneric_mem a a fr m o = m o.
Proof.
  intros a fr m Ha. unfold butterflyGeneric_mem. cbv zeta.
  set (M1 := storeEl m fr (m a)).
  destruct (Element_Add_mem_all_eq a M1) as [A1 A2].
  set (M2 := Element_Add_mem a a a M1) in *.
  destruct (Element_Sub_mem_z_eq_y a fr M2 ltac:(lia)) as [S1 S2].
  assert (Ea : M1 a = m a) by (apply storeEl_other; lia).
  assert (Et : M1 fr = m a) by apply storeEl_same.
  split.
  - rewrite S1, (A2 fr), A1 by lia. rewrite Et, Ea. reflexivity.
  - intros o Ho Hoa. rewrite S2, A2 by assumption. apply storeEl_other. lia.
Qed.

Lemma Butterfly_mem_distinct : forall a b fr m,
  a <> b -> (a < fr)%nat -> (b < fr)%nat ->
  Butterfly_mem a b fr m a = fst (FfgRoutines.Butterfly (m a) (m b)) /\
  Butterfly_mem a b fr m b = snd (FfgRoutines.Butterfly (m a) (m b)) /\
  forall o, (o < fr)%nat -> o <> a -> o <> b -> Butterfly_mem a b fr m o = m o.
Proof.
  intros a b fr m Hab Ha Hb.
  destruct (butterflyGeneric_mem_distinct a b fr m Hab Ha Hb) as [A [B C]].
  unfold Butterfly_mem, FfgRoutines.Butterfly. cbv zeta.
  destruct (FfgRoutines.butterflyGeneric (m a) (m b)) as [u v].
  split; [ exact A | split; [ exact B | exact C ] ].
Qed.

Lemma Butterfly_mem_a_eq_b : forall a fr m,
  (a < fr)%nat ->
  Butterfly_mem a a fr m a =
    FfgRoutines.Element_Sub (m a) (FfgRoutines.Element_Add (m a) (m a)) /\
  forall o, (o < fr)%nat -> o <> a -> Butterfly_mem a a fr m o = m o.
Proof. exact butterflyGeneric_mem_a_eq_b. Qed.

(* ------------------------------------------------------------------ *)
(** * Non-vacuity: the memory-level definitions run *)

Definition ex_one : el := 4294967295.               (* 1 in Montgomery form *)
Definition ex_qm1 : el := 18446744069414584320.     (* q - 1 *)
Definition ex_mem : mem :=
  fun o => match o with 1%nat => ex_one | 2%nat => ex_qm1 | _ => 0 end.

(* z.Add(z, y), z = object 1, y = object 2: one + (q - 1) = one - 1 (mod q) *)
Example addGeneric_mem_inplace :
  let m' := addGeneric_mem 1 1 2 ex_mem in
  m' 1%nat = 4294967294 /\ m' 2%nat = ex_qm1 /\ m' 3%nat = 0
  /\ m' 1%nat = FfgRoutines.addGeneric ex_one ex_qm1.
Proof. vm_compute. repeat split; reflexivity. Qed.

Example addGeneric_mem_all_same :
  addGeneric_mem 1 1 1 ex_mem 1%nat = FfgRoutines.doubleGeneric ex_one.
Proof. vm_compute. reflexivity. Qed.

(* Butterfly(&a, &a), a = 1: the object ends up holding -1, which is neither
   component of the value-level pair (2, 0) *)
Example butterfly_mem_aliased :
  let r := butterflyGeneric_mem 1 1 5 ex_mem 1%nat in
  r = FfgRoutines.negGeneric ex_one /\
  r <> fst (FfgRoutines.butterflyGeneric ex_one ex_one) /\
  r <> snd (FfgRoutines.butterflyGeneric ex_one ex_one).
Proof. vm_compute. repeat split; discriminate. Qed.

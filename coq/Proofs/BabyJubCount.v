(* Counting argument for the full group order (parametric):
   - pigeonhole principle on integer intervals (no lists, nothing computed);
   - a complete twisted Edwards curve over Z/p has at most 2p canonical points
     (an explicit injection into [0, 2p));
   - hence if a point G0 has exact order n with n > p, the cyclic group <G0>
     is the whole curve: a point outside would give 2n > 2p distinct points. *)
From Coq Require Import ZArith Znumtheory Lia Morphisms Setoid.
From Verif Require Import Lib.Powmod Lib.NumberTheory Spec.Edwards.
From Verif Require Import Proofs.EdwardsField Proofs.EdwardsComplete Proofs.EdwardsGroup
  Proofs.BabyJubSmul.
Local Open Scope Z_scope.

(* ------------------------------------------------------------------ *)
(** * Pigeonhole on Z *)

Lemma bounded_search : forall (f : Z -> Z) v N, 0 <= N ->
  (exists i, 0 <= i < N /\ f i = v) \/ (forall i, 0 <= i < N -> f i <> v).
Proof.
  intros f v N HN. pattern N. apply natlike_ind; [ | | exact HN ].
  - right. intros i Hi. lia.
  - intros x Hx [[i [Hi Ei]] | Hnone].
    + left. exists i. split; [ lia | exact Ei ].
    + destruct (Z.eq_dec (f x) v) as [E | E].
      * left. exists x. split; [ lia | exact E ].
      * right. intros i Hi. destruct (Z.eq_dec i x) as [-> | Hne]; [ exact E | ].
        apply Hnone. lia.
Qed.

Theorem pigeonhole_Z : forall M, 0 <= M -> forall N (f : Z -> Z), M < N ->
  (forall i, 0 <= i < N -> 0 <= f i < M) ->
  exists i j, 0 <= i /\ i < j /\ j < N /\ f i = f j.
Proof.
  intros M HM. pattern M. apply natlike_ind; [ | | exact HM ].
  - intros N f HN Hf. specialize (Hf 0). lia.
  - intros M' HM' IH N f HN Hf. unfold Z.succ in *.
    destruct (bounded_search f M' N) as [[i0 [Hi0 Ei0]] | Hnone]; [ lia | | ].
    + set (phi := fun k => if k <? i0 then k else k + 1).
      assert (Hphi : forall k, 0 <= k < N - 1 -> 0 <= phi k < N /\ phi k <> i0).
      { intros k Hk. unfold phi. destruct (Z.ltb_spec k i0); lia. }
      assert (Hmono : forall k k', k < k' -> phi k < phi k').
      { intros k k' Hkk. unfold phi.
        destruct (Z.ltb_spec k i0); destruct (Z.ltb_spec k' i0); lia. }
      destruct (bounded_search (fun k => f (phi k)) M' (N - 1)) as [[k [Hk Ek]] | Hg]; [ lia | | ].
      * destruct (Hphi k Hk) as [Hr Hne]. cbv beta in Ek.
        destruct (Z.lt_ge_cases (phi k) i0) as [Hlt | Hge].
        -- exists (phi k), i0. repeat split; try lia.
        -- exists i0, (phi k). repeat split; try lia.
      * destruct (IH (N - 1) (fun k => f (phi k))) as (k & k' & H0 & Hkk & HkN & E); [ lia | | ].
        { intros k Hk. destruct (Hphi k Hk) as [Hr Hne].
          specialize (Hf (phi k) Hr). specialize (Hg k Hk). cbv beta in Hg. lia. }
        cbv beta in E.
        exists (phi k), (phi k').
        assert (Hk0 : 0 <= k < N - 1) by lia. assert (Hk1 : 0 <= k' < N - 1) by lia.
        destruct (Hphi k Hk0) as [Hr _]. destruct (Hphi k' Hk1) as [Hr' _].
        pose proof (Hmono k k' Hkk). repeat split; lia.
    + apply (IH N f); [ lia | ].
      intros i Hi. specialize (Hf i Hi). specialize (Hnone i Hi). lia.
Qed.

(* ------------------------------------------------------------------ *)
(** * The curve has at most 2p points; cyclic subgroup of order > p is everything *)

Section Count.
  Variables p a d : Z.
  Hypothesis Hp : prime p.
  Hypothesis Hp2 : 2 < p.
  Hypothesis Ha : exists ra, (ra * ra) mod p = a mod p /\ a mod p <> 0.
  Hypothesis Hd : forall r, (r * r) mod p <> d mod p.

  Local Notation "x == y" := (eqm p x y) (at level 70, no associativity).
  Local Notation oc := (on_curve p a d).
  Local Notation can := (canonical p).
  Local Notation add := (ed_add p a d).
  Local Notation O := ed_zero.
  Local Notation smul := (Edwards.smul p a d).

  Let Hp1 : 1 < p := p_gt_1 p Hp.

  (* 1 - d x^2 never vanishes *)
  Lemma one_minus_dxx_nz : forall x, ~ 1 - d * (x * x) == 0.
  Proof.
    intros x E. apply (proj1 (eqm_sub_zero p 1 (d * (x * x)))) in E.
    assert (Hx : ~ x == 0).
    { intros E0. apply (one_nz p Hp). rewrite E, E0. ering. }
    apply (square_quot_absurd p d Hp Hd 1 x); [ | exact Hx ].
    rewrite <- E. ering.
  Qed.

  (* two curve points with the same abscissa: y' = +- y *)
  Lemma same_x_pm : forall x y y', oc (x, y) -> oc (x, y') ->
    y mod p = y' mod p \/ y mod p = (- y') mod p.
  Proof.
    intros x y y' H H'.
    apply (square_roots_pm p y y' Hp).
    change (y * y == y' * y').
    apply oc_ecurve in H. apply oc_ecurve in H'. unfold EdwardsAssoc.ecurve in H, H'.
    apply (eqm_cancel_l p Hp (1 - d * (x * x))); [ apply one_minus_dxx_nz | ].
    apply eqm_sub_zero.
    assert (E : (1 - d * (x * x)) * (y * y) - (1 - d * (x * x)) * (y' * y')
                == (a * x * x + y * y - (1 + d * x * x * y * y))
                   - (a * x * x + y' * y' - (1 + d * x * x * y' * y'))) by ering.
    rewrite E, H, H'. ering.
  Qed.

  (* an injection of the canonical curve points into [0, 2p) *)
  Definition pcode (P : point) : Z :=
    let '(x, y) := P in 2 * x + (if 2 * y <? p then 0 else 1).

  Lemma pcode_range : forall P, can P -> 0 <= pcode P < 2 * p.
  Proof.
    intros [x y] [Hx Hy]. unfold pcode. destruct (2 * y <? p); lia.
  Qed.

  Lemma pcode_inj : forall P P', oc P -> can P -> oc P' -> can P' ->
    pcode P = pcode P' -> P = P'.
  Proof.
    intros [x y] [x' y'] H [Hx Hy] H' [Hx' Hy'] E. unfold pcode in E.
    pose proof (prime_odd p Hp Hp2) as Hodd.
    assert (Exx : x = x').
    { destruct (2 * y <? p); destruct (2 * y' <? p); lia. }
    subst x'. f_equal.
    destruct (same_x_pm x y y' H H') as [Ey | Ey].
    - rewrite !Z.mod_small in Ey by assumption. exact Ey.
    - rewrite (Z.mod_small y) in Ey by assumption.
      destruct (Z.eq_dec y' 0) as [-> | Hy0].
      + rewrite Zmod_0_l in Ey. exact Ey.
      + assert (Ey' : (- y') mod p = p - y').
        { rewrite <- (Z.mod_small (p - y') p) by lia.
          apply eqm_mod_eq. apply eqm_sub_zero.
          assert (E0 : - y' - (p - y') = (-1) * p) by ring. rewrite E0.
          apply eqm_zero_iff. apply Z_mod_mult. }
        rewrite Ey' in Ey. exfalso.
        destruct (Z.ltb_spec (2 * y) p); destruct (Z.ltb_spec (2 * y') p);
          try lia.
        (* both >= p: 2y' = p would make p even *)
        assert (2 * y' = p) by lia.
        rewrite <- H2 in Hodd. rewrite Z.mul_comm, Z_mod_mult in Hodd. discriminate Hodd.
  Qed.

  (* ---- a cyclic subgroup with more than p elements is the whole curve ---- *)

  Variable G0 : point.
  Variable n : Z.
  Hypothesis HG : oc G0.
  Hypothesis Hn : p < n.
  Hypothesis Hkill : smul n G0 = O.
  Hypothesis Hexact : forall k, 0 < k < n -> smul k G0 <> O.

  Local Notation Soc := (smul_oc p a d Hp Hp2 Ha Hd).
  Local Notation Scan := (smul_can p a d Hp Hp2 Ha Hd).

  Lemma smul_G0_inj : forall i j, 0 <= i -> i < j -> j < n -> smul i G0 <> smul j G0.
  Proof.
    intros i j Hi Hij Hj E.
    apply (Hexact (j - i)); [ lia | ].
    replace j with (i + (j - i)) in E by ring.
    rewrite (smul_add p a d Hp Hp2 Ha Hd) in E by (lia || exact HG).
    apply (add_eq_self p a d Hp Hp2 Ha Hd (smul i G0) (smul (j - i) G0)).
    - apply Soc; exact HG.
    - apply Soc; exact HG.
    - apply Scan; exact HG.
    - symmetry. exact E.
  Qed.

  Theorem cyclic_everything : forall P, oc P -> can P -> smul n P = O.
  Proof.
    intros P HP HcP.
    assert (Hn0 : 0 <= n) by lia.
    set (pt := fun i => if i <? n then smul i G0 else add P (smul (i - n) G0)).
    assert (Hpt : forall i, oc (pt i) /\ can (pt i)).
    { intros i. unfold pt. destruct (i <? n).
      - split; [ apply Soc | apply Scan ]; exact HG.
      - apply (ed_add_closed p a d Hp Hp2 Ha Hd); [ exact HP | apply Soc; exact HG ]. }
    destruct (pigeonhole_Z (2 * p) ltac:(lia) (2 * n) (fun i => pcode (pt i)))
      as (i & j & Hi & Hij & Hj & E); [ lia | | ].
    { intros i _. apply pcode_range. apply Hpt. }
    cbv beta in E.
    apply pcode_inj in E; try apply Hpt.
    unfold pt in E.
    destruct (Z.ltb_spec i n) as [Hin | Hin]; destruct (Z.ltb_spec j n) as [Hjn | Hjn].
    - exfalso. exact (smul_G0_inj i j Hi Hij Hjn E).
    - (* smul i G0 = P + smul (j - n) G0 *)
      assert (E' : smul n (smul i G0) = smul n (add P (smul (j - n) G0))) by (rewrite E; reflexivity).
      rewrite (smul_add_pt p a d Hp Hp2 Ha Hd) in E' by (exact HP || (apply Soc; exact HG)).
      rewrite (smul_mul_comm p a d Hp Hp2 Ha Hd n i G0) in E' by (lia || exact HG).
      rewrite (smul_mul_comm p a d Hp Hp2 Ha Hd n (j - n) G0) in E' by (lia || exact HG).
      rewrite Hkill, !(smul_zero_pt p a d Hp Hp2) in E'.
      rewrite (ed_add_zero_r p a d Hp) in E' by (apply Soc || apply Scan; exact HP).
      symmetry. exact E'.
    - lia.
    - exfalso.
      apply (add_cancel_l p a d Hp Hp2 Ha Hd) in E;
        try exact HP; try (apply Soc; exact HG); try (apply Scan; exact HG).
      apply (smul_G0_inj (i - n) (j - n)); (lia || exact E).
  Qed.
End Count.

Print Assumptions pigeonhole_Z.
Print Assumptions pcode_inj.
Print Assumptions cyclic_everything.

(* Bit / BitLen of ff.Element and ffg.Element (Model/FfConv.v, FfgConv.v) read the
   stored limbs: bit i of, and the bit length of, the integer [val z]. *)
From Coq Require Import ZArith List Bool Lia.
From Verif Require Import Lib.Params Lib.Words Model.FfLimbs Model.FfConv.
From Verif Require Model.FfgConv.
Local Open Scope Z_scope.

Lemma W_pow : W = 2 ^ 64.
Proof. reflexivity. Qed.

Local Opaque W.

Lemma tb (x n : Z) : 0 <= n -> Z.b2z (Z.testbit x n) = (x / 2 ^ n) mod 2.
Proof. intros Hn. apply Z.testbit_spec'. exact Hn. Qed.

(* bit n of a + W*b, for a limb a *)
Lemma limb_low : forall a b n, 0 <= a < W -> 0 <= n < 64 ->
  ((a + W * b) / 2 ^ n) mod 2 = (a / 2 ^ n) mod 2.
Proof.
  intros a b n Ha Hn. rewrite W_pow.
  replace (2 ^ 64) with (2 ^ n * (2 * 2 ^ (63 - n))).
  2:{ rewrite Z.mul_assoc, (Z.mul_comm (2 ^ n) 2), <- Z.pow_succ_r, <- Z.pow_add_r by lia. f_equal. lia. }
  replace (a + 2 ^ n * (2 * 2 ^ (63 - n)) * b) with (a + (2 * (2 ^ (63 - n) * b)) * 2 ^ n) by ring.
  rewrite Z.div_add by (apply Z.pow_nonzero; lia).
  replace (a / 2 ^ n + 2 * (2 ^ (63 - n) * b)) with (a / 2 ^ n + (2 ^ (63 - n) * b) * 2) by ring.
  apply Z.mod_add. lia.
Qed.

Lemma limb_high : forall a b n, 0 <= a < W -> 64 <= n ->
  ((a + W * b) / 2 ^ n) mod 2 = (b / 2 ^ (n - 64)) mod 2.
Proof.
  intros a b n Ha Hn.
  replace (2 ^ n) with (W * 2 ^ (n - 64)).
  2:{ rewrite W_pow, <- Z.pow_add_r by lia. f_equal. lia. }
  assert (HW : 0 < W) by (rewrite W_pow; lia).
  rewrite <- Z.div_div by (try lia; apply Z.pow_pos_nonneg; lia).
  replace (a + W * b) with (a + b * W) by ring.
  rewrite Z.div_add by lia. rewrite (Z.div_small a W) by lia. reflexivity.
Qed.

Section FF.
  Variables z0 z1 z2 z3 : Z.
  Hypothesis H0 : 0 <= z0 < W.
  Hypothesis H1 : 0 <= z1 < W.
  Hypothesis H2 : 0 <= z2 < W.
  Hypothesis H3 : 0 <= z3 < W.
  Let z : el := (z0, z1, z2, z3).

  Lemma val_nest : val z = z0 + W * (z1 + W * (z2 + W * z3)).
  Proof. unfold z, val. ring. Qed.

  Lemma val_bound : 0 <= val z < 2 ^ 256.
  Proof.
    rewrite val_nest. assert (HW : W = 2 ^ 64) by apply W_pow.
    replace (2 ^ 256) with (W * (W * (W * W))) by (rewrite HW; reflexivity).
    nia.
  Qed.

  (* bit i of the stored integer *)
  Theorem bit_spec : forall i, 0 <= i -> bit z i = Z.b2z (Z.testbit (val z) i).
  Proof.
    intros i Hi. rewrite tb by exact Hi. unfold bit, z.
    assert (Hdm : i = 64 * (i / 64) + i mod 64) by (apply Z.div_mod; lia).
    assert (Hm : 0 <= i mod 64 < 64) by (apply Z.mod_pos_bound; lia).
    assert (Hd : 0 <= i / 64) by (apply Z.div_pos; lia).
    fold z. rewrite val_nest.
    destruct (Z.geb_spec (i / 64) 4) as [Hj|Hj].
    - rewrite <- val_nest. symmetry. rewrite Z.div_small; [reflexivity|].
      pose proof val_bound as Hb. split; [lia|].
      apply Z.lt_le_trans with (2 ^ 256); [lia|]. apply Z.pow_le_mono_r; lia.
    - destruct (Z.eqb_spec (i / 64) 0) as [E0|N0].
      { rewrite limb_low by lia. f_equal. f_equal. f_equal. lia. }
      rewrite limb_high by lia.
      destruct (Z.eqb_spec (i / 64) 1) as [E1|N1].
      { rewrite limb_low by lia. f_equal. f_equal. f_equal. lia. }
      rewrite limb_high by lia.
      destruct (Z.eqb_spec (i / 64) 2) as [E2|N2].
      { rewrite limb_low by lia. f_equal. f_equal. f_equal. lia. }
      rewrite limb_high by lia.
      f_equal. f_equal. f_equal. lia.
  Qed.

  (* BitLen = bit length of the stored integer *)
  Theorem bitLen_spec :
    (bitLen z = 0 <-> val z = 0) /\
    (0 < val z -> 2 ^ (bitLen z - 1) <= val z < 2 ^ bitLen z).
  Proof.
    rewrite val_nest. assert (HW : W = 2 ^ 64) by apply W_pow.
    unfold bitLen, z.
    assert (L : forall x, 0 <= x < W -> 0 <= len64 x <= 64 /\ (len64 x = 0 <-> x = 0) /\
                 (0 < x -> 2 ^ (len64 x - 1) <= x < 2 ^ len64 x)).
    { intros x Hx. unfold len64. destruct (Z.eqb_spec x 0) as [->|Hn].
      - split; [lia|]. split; [tauto|lia].
      - assert (Hp : 0 < x) by lia. pose proof (Z.log2_spec x Hp) as Hs.
        assert (Hl : Z.log2 x < 64) by (apply Z.log2_lt_pow2; lia).
        pose proof (Z.log2_nonneg x).
        split; [lia|]. split; [split; lia|]. intros _.
        replace (Z.log2 x + 1 - 1) with (Z.log2 x) by lia.
        replace (Z.log2 x + 1) with (Z.succ (Z.log2 x)) by lia. exact Hs. }
    assert (P : forall k x rest, 0 <= k -> 0 < x < W -> 0 <= rest < 2 ^ k ->
              2 ^ (k + len64 x - 1) <= rest + 2 ^ k * x < 2 ^ (k + len64 x)).
    { intros k x rest Hk Hx Hr. destruct (L x ltac:(lia)) as [Hb [_ Hs]].
      specialize (Hs ltac:(lia)).
      assert (Hl1 : 1 <= len64 x). { destruct (Z.eq_dec (len64 x) 0) as [E|E]; [|lia].
        destruct (L x ltac:(lia)) as [_ [Hz _]]. apply Hz in E. lia. }
      replace (k + len64 x - 1) with (k + (len64 x - 1)) by lia.
      rewrite !Z.pow_add_r by lia. nia. }
    destruct (Z.eqb_spec z3 0) as [E3|N3]; cbn [negb].
    2:{ split; [split; intro Hc; [pose proof (L z3 H3); lia|nia]|]. intros _.
        replace (z0 + W * (z1 + W * (z2 + W * z3))) with ((z0 + W * z1 + W * W * z2) + 2 ^ 192 * z3)
          by (rewrite HW; ring).
        apply P; [lia|lia|]. replace (2 ^ 192) with (W * W * W) by (rewrite HW; reflexivity). nia. }
    subst z3. destruct (Z.eqb_spec z2 0) as [E2|N2]; cbn [negb].
    2:{ split; [split; intro Hc; [pose proof (L z2 H2); lia|nia]|]. intros _.
        replace (z0 + W * (z1 + W * (z2 + W * 0))) with ((z0 + W * z1) + 2 ^ 128 * z2) by (rewrite HW; ring).
        apply P; [lia|lia|]. replace (2 ^ 128) with (W * W) by (rewrite HW; reflexivity). nia. }
    subst z2. destruct (Z.eqb_spec z1 0) as [E1|N1]; cbn [negb].
    2:{ split; [split; intro Hc; [pose proof (L z1 H1); lia|nia]|]. intros _.
        replace (z0 + W * (z1 + W * (0 + W * 0))) with (z0 + 2 ^ 64 * z1) by (rewrite HW; ring).
        apply P; [lia|lia|]. rewrite <- HW. lia. }
    subst z1. replace (z0 + W * (0 + W * (0 + W * 0))) with z0 by ring.
    destruct (L z0 H0) as [_ [Hz Hs]]. split; [exact Hz|exact Hs].
  Qed.
End FF.

(* Goldilocks: one limb *)
Theorem ffg_bit_spec : forall z i, 0 <= z < W -> 0 <= i ->
  FfgConv.bit z i = Z.b2z (Z.testbit z i).
Proof.
  intros z i Hz Hi. rewrite tb by exact Hi. unfold FfgConv.bit.
  assert (Hdm : i = 64 * (i / 64) + i mod 64) by (apply Z.div_mod; lia).
  assert (Hm : 0 <= i mod 64 < 64) by (apply Z.mod_pos_bound; lia).
  assert (Hd : 0 <= i / 64) by (apply Z.div_pos; lia).
  destruct (Z.geb_spec (i / 64) 1) as [Hj|Hj].
  - symmetry. rewrite Z.div_small; [reflexivity|]. split; [lia|].
    apply Z.lt_le_trans with (2 ^ 64); [rewrite <- W_pow; lia|]. apply Z.pow_le_mono_r; lia.
  - f_equal. f_equal. f_equal. lia.
Qed.

Theorem ffg_bitLen_spec : forall z, 0 <= z ->
  (FfgConv.bitLen z = 0 <-> z = 0) /\ (0 < z -> 2 ^ (FfgConv.bitLen z - 1) <= z < 2 ^ FfgConv.bitLen z).
Proof.
  intros z Hz. unfold FfgConv.bitLen. destruct (Z.eqb_spec z 0) as [->|Hn].
  - split; [tauto|lia].
  - pose proof (Z.log2_nonneg z). split; [split; lia|]. intros Hp.
    replace (Z.log2 z + 1 - 1) with (Z.log2 z) by lia.
    replace (Z.log2 z + 1) with (Z.succ (Z.log2 z)) by lia. apply Z.log2_spec. exact Hp.
Qed.

Print Assumptions bit_spec.
Print Assumptions bitLen_spec.

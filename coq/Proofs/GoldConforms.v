(* Property C10 (PARTIAL by design): goldenposeidon.Hash, with the tables
   regenerated from /repo/goldenposeidon/constants.go (Gen/GoldTables.v), equals
   the textbook width-12 Poseidon permutation over the Goldilocks field of
   Spec/GoldRef.v (x^7, R_F = 8, R_P = 22, circulant-plus-diagonal MDS, frozen
   round constants RCstar), truncated to its first four lanes.

   What is NOT shown: that RCstar agrees with Plonky2's published
   ALL_ROUND_CONSTANTS.  See the header of Spec/GoldRef.v: RCstar is a frozen
   un-optimization of the repository's own constants; only C[0..12) = the first
   12 published constants is visible as such (lemma gold_first_constants).
   The known-answer vectors of goldenposeidon/poseidon_test.go are evaluated
   below on the REFERENCE permutation as anchors. *)
From Coq Require Import ZArith List Lia.
From Verif Require Import Lib.Params Spec.Hades Spec.GoldRef Model.HadesOpt
                          Model.GoldPoseidon Proofs.HadesSym.
From Verif Require Gen.GoldTables.
Import ListNotations.
Local Open Scope Z_scope.

Lemma pg_gt_1 : 1 < pg.
Proof. reflexivity. Qed.

Lemma gold_meta_ok :
  GoldTables.NROUNDSF = 8%nat /\ GoldTables.NROUNDSP = 22%nat /\
  GoldTables.mLen = 12%nat /\ GoldTables.CAPLEN = 4%nat /\
  GoldTables.mcirc = mds_circ /\ GoldTables.mdiag = mds_diag.
Proof. repeat split; vm_compute; reflexivity. Qed.

(* The matrix built by the model of the Go init from the regenerated
   mcirc/mdiag is the matrix of the statement, and the reference MDS is its
   transpose. *)
Definition transp12 (m : list (list Z)) : list (list Z) :=
  map (fun i => map (fun j => nth i (nth j m []) 0) (seq 0 12)) (seq 0 12).

Lemma gold_mds_ok :
  GoldPoseidon.M GoldTables.mcirc GoldTables.mdiag 12 = Mstmt /\
  GoldPoseidon.M GoldTables.mcirc GoldTables.mdiag 12 = transp12 MDSref /\
  MDSref = transp12 (GoldPoseidon.M GoldTables.mcirc GoldTables.mdiag 12).
Proof. repeat split; vm_compute; reflexivity. Qed.

(* the only published constants that are visible unchanged: round 0 *)
Lemma gold_first_constants :
  firstn 12 (GoldPoseidon.C GoldTables.c) = firstn 12 RCstar.
Proof. vm_compute. reflexivity. Qed.

Lemma gold_check_ok :
  hades_check pg 12 8 22 RCstar MDSref
              (GoldPoseidon.C GoldTables.c) (GoldPoseidon.S GoldTables.s)
              (GoldPoseidon.M GoldTables.mcirc GoldTables.mdiag 12)
              (GoldPoseidon.P GoldTables.p) = true.
Proof. vm_compute. reflexivity. Qed.

Theorem gold_opt_eq_ref :
  forall st, length st = 12%nat ->
    perm_opt pg (sbox7 pg) 12 8 22
             (GoldPoseidon.C GoldTables.c) (GoldPoseidon.S GoldTables.s)
             (GoldPoseidon.M GoldTables.mcirc GoldTables.mdiag 12)
             (GoldPoseidon.P GoldTables.p) st
    = perm_ref pg (sbox7 pg) 12 8 22 RCstar MDSref st.
Proof.
  intros st Hlen.
  apply hades_check_sound;
    [exact pg_gt_1 | lia | lia | reflexivity | exact gold_check_ok | exact Hlen].
Qed.

Lemma Forall_firstn {A} (Pr : A -> Prop) (n : nat) (l : list A) :
  Forall Pr l -> Forall Pr (firstn n l).
Proof.
  intros H. revert n. induction H as [|x l Hx Hl IH]; intros [|n]; cbn [firstn];
    constructor; auto.
Qed.

Theorem gold_poseidon_conforms_partial :
  forall inp cap,
    length inp = 8%nat -> length cap = 4%nat ->
    Forall (fun w => 0 <= w < W) inp -> Forall (fun w => 0 <= w < W) cap ->
    GoldPoseidon.Hash GoldTables.c GoldTables.s GoldTables.p
                      GoldTables.mcirc GoldTables.mdiag 8 22 12 inp cap
    = firstn 4 (perm_ref pg (sbox7 pg) 12 8 22 RCstar MDSref
                         (map (fun w => w mod pg) (inp ++ cap)))
    /\ length (GoldPoseidon.Hash GoldTables.c GoldTables.s GoldTables.p
                      GoldTables.mcirc GoldTables.mdiag 8 22 12 inp cap) = 4%nat
    /\ Forall (fun x => 0 <= x < pg)
              (GoldPoseidon.Hash GoldTables.c GoldTables.s GoldTables.p
                      GoldTables.mcirc GoldTables.mdiag 8 22 12 inp cap).
Proof.
  intros inp cap Hinp Hcap _ _.
  assert (Hlen : length (map (fun w => w mod pg) (inp ++ cap)) = 12%nat).
  { rewrite map_length, app_length, Hinp, Hcap. reflexivity. }
  assert (HE : GoldPoseidon.Hash GoldTables.c GoldTables.s GoldTables.p
                 GoldTables.mcirc GoldTables.mdiag 8 22 12 inp cap
               = firstn 4 (perm_ref pg (sbox7 pg) 12 8 22 RCstar MDSref
                             (map (fun w => w mod pg) (inp ++ cap)))).
  { unfold GoldPoseidon.Hash. change (map el (inp ++ cap)) with
      (map (fun w => w mod pg) (inp ++ cap)).
    rewrite (gold_opt_eq_ref _ Hlen). reflexivity. }
  split; [exact HE|]. rewrite HE.
  destruct (proj1 (hades_check_range pg (sbox7 pg) 12 8 22 RCstar MDSref _ _ _ _
                     pg_gt_1 ltac:(lia) ltac:(lia) eq_refl gold_check_ok
                     (map (fun w => w mod pg) (inp ++ cap)))) as [HL HR].
  split.
  - rewrite firstn_length, HL. reflexivity.
  - apply Forall_firstn. exact HR.
Qed.

Print Assumptions gold_poseidon_conforms_partial.

(* the same statement through the names of Spec/GoldRef.v *)
Corollary gold_hash_conforms_partial :
  forall inp cap,
    length inp = 8%nat -> length cap = 4%nat ->
    Forall (fun w => 0 <= w < W) inp -> Forall (fun w => 0 <= w < W) cap ->
    GoldPoseidon.Hash GoldTables.c GoldTables.s GoldTables.p
                      GoldTables.mcirc GoldTables.mdiag
                      GoldTables.NROUNDSF GoldTables.NROUNDSP GoldTables.mLen inp cap
    = gold_hash_ref inp cap.
Proof.
  intros inp cap H1 H2 H3 H4.
  exact (proj1 (gold_poseidon_conforms_partial inp cap H1 H2 H3 H4)).
Qed.

(* ------------------------------------------------------------------ *)
(* Known-answer vectors of /repo/goldenposeidon/poseidon_test.go
   (TestPoseidonHashCompare), evaluated on the REFERENCE permutation.   *)

Definition b0 : Z := 0.
Definition b1 : Z := 1.
Definition bm1 : Z := pg - 1.
Definition bM : Z := pg.

Example gold_kat_zero :
  gold_hash_ref [b0;b0;b0;b0;b0;b0;b0;b0] [b0;b0;b0;b0]
  = [4330397376401421145; 14124799381142128323; 8742572140681234676; 14345658006221440202].
Proof. vm_compute. reflexivity. Qed.

Example gold_kat_one :
  gold_hash_ref [b1;b1;b1;b1;b1;b1;b1;b1] [b1;b1;b1;b1]
  = [16428316519797902711; 13351830238340666928; 682362844289978626; 12150588177266359240].
Proof. vm_compute. reflexivity. Qed.

Example gold_kat_minus_one :
  gold_hash_ref [bm1;bm1;bm1;bm1;bm1;bm1;bm1;bm1] [bm1;bm1;bm1;bm1]
  = [13691089994624172887; 15662102337790434313; 14940024623104903507; 10772674582659927682].
Proof. vm_compute. reflexivity. Qed.

(* inputs equal to the modulus are reduced to 0 on entry *)
Example gold_kat_modulus :
  gold_hash_ref [bM;bM;bM;bM;bM;bM;bM;bM] [b0;b0;b0;b0]
  = [4330397376401421145; 14124799381142128323; 8742572140681234676; 14345658006221440202].
Proof. vm_compute. reflexivity. Qed.

Example gold_kat_mixed :
  gold_hash_ref [923978; 235763497586; 9827635653498; 112870; 289273673480943876;
                 230295874986745876; 6254867324987; 2087] [b0;b0;b0;b0]
  = [1892171027578617759; 984732815927439256; 7866041765487844082; 8161503938059336191].
Proof. vm_compute. reflexivity. Qed.

(* the same vectors on the model of the Go function, for completeness *)
Example gold_kat_model_mixed :
  GoldPoseidon.Hash GoldTables.c GoldTables.s GoldTables.p GoldTables.mcirc GoldTables.mdiag
    8 22 12
    [923978; 235763497586; 9827635653498; 112870; 289273673480943876;
     230295874986745876; 6254867324987; 2087] [b0;b0;b0;b0]
  = [1892171027578617759; 984732815927439256; 7866041765487844082; 8161503938059336191].
Proof. vm_compute. reflexivity. Qed.

(* Point compression / decompression of babyjub/babyjub.go (property C06):
   Compress is the little-endian y with bit 255 = [x > (q-1)/2]; Decompress
   accepts exactly the canonical encodings of curve points, inverts Compress,
   and never panics. *)
From Coq Require Import ZArith List Bool Lia Arith Znumtheory Morphisms Setoid.
From Verif Require Import Lib.Params Lib.Powmod Lib.NumberTheory Lib.Primes Lib.Octets
  Spec.Edwards Model.Outcome Model.Utils Model.SqrtCore Model.BabyJubCore Model.BabyJub
  Proofs.EdwardsField Proofs.TonelliShanks Proofs.OctetsProofs Proofs.UtilsProofs.
From Verif Require Gen.CurveConsts.
Import ListNotations.
Local Open Scope Z_scope.

(* ------------------------------------------------------------------ *)
(** * The regenerated constants are the specification parameters *)

Lemma Q_eq : Q = q.   Proof. reflexivity. Qed.
Lemma A_eq : A = ca.  Proof. reflexivity. Qed.
Lemma D_eq : D = cd.  Proof. reflexivity. Qed.
Lemma MinusOne_eq : Gen.CurveConsts.MinusOne = -1. Proof. reflexivity. Qed.

Lemma half_eq : Z.shiftr Q 1 = (q - 1) / 2.
Proof. vm_compute. reflexivity. Qed.

Lemma q_lt_2_254 : q < 2 ^ 254.
Proof. vm_compute. reflexivity. Qed.

Lemma hq_nonneg : 0 <= (q - 1) / 2.
Proof. vm_compute. discriminate. Qed.

(* a square root of a = 168700 (found offline, checked here) *)
Definition sqrt_ca : Z :=
  7214280148105020021932206872019688659210616427216992810330019057549499971851.

Lemma ca_square : (sqrt_ca * sqrt_ca) mod q = ca mod q.
Proof. vm_compute. reflexivity. Qed.

Lemma ca_nonzero : ca mod q <> 0.
Proof. vm_compute. discriminate. Qed.

Lemma cd_euler : powmod cd ((q - 1) / 2) q = q - 1.
Proof. vm_compute. reflexivity. Qed.

(* side conditions of Tonelli-Shanks for the parameters used by BabyJub.modsqrt *)
Lemma bj_ts_side_conditions :
  0 < ts_e /\
  ts_s mod 2 = 1 /\
  q - 1 = 2 ^ ts_e * ts_s /\
  0 <= ts_g0 < q /\
  powmod ts_g0 (2 ^ (ts_e - 1)) q = q - 1.
Proof.
  split; [reflexivity|].
  split; [vm_compute; reflexivity|].
  split; [vm_compute; reflexivity|].
  split; [split; [apply Z.leb_le|apply Z.ltb_lt]; vm_compute; reflexivity|].
  vm_compute; reflexivity.
Qed.

Local Opaque q.

(* d = 168696 is a non-square mod q *)
Lemma cd_nonsquare : forall r, (r * r) mod q <> cd mod q.
Proof.
  apply (euler_nonsquare q cd q_prime q_gt_2).
  rewrite <- powmod_spec; [exact cd_euler|exact hq_nonneg|exact q_pos].
Qed.

Definition oc : point -> Prop := on_curve q ca cd.
Definition can : point -> Prop := canonical q.

(* ------------------------------------------------------------------ *)
(** * Bit operations on one byte, by exhaustive check *)

Lemma byte_forall (P : Z -> bool) :
  forallb P (map Z.of_nat (seq 0 256)) = true -> forall b, 0 <= b < 256 -> P b = true.
Proof.
  intros H b Hb. rewrite forallb_forall in H. apply H.
  apply in_map_iff. exists (Z.to_nat b). split; [lia|]. apply in_seq. lia.
Qed.

Lemma land128_zero b : 0 <= b < 256 -> (Z.land b 128 =? 0) = (b <? 128).
Proof.
  intros Hb. apply eqb_prop.
  apply (byte_forall (fun b => Bool.eqb (Z.land b 128 =? 0) (b <? 128)));
    [vm_compute; reflexivity|exact Hb].
Qed.

Lemma land127_high b : 128 <= b < 256 -> Z.land b 127 = b - 128.
Proof.
  intros Hb.
  pose proof (byte_forall (fun b => if b <? 128 then true else Z.land b 127 =? b - 128)
                ltac:(vm_compute; reflexivity) b ltac:(lia)) as H.
  cbv beta in H. rewrite (proj2 (Z.ltb_ge b 128)) in H by lia.
  apply Z.eqb_eq. exact H.
Qed.

Lemma lor128_low b : 0 <= b < 128 -> Z.lor b 128 = b + 128.
Proof.
  intros Hb.
  pose proof (byte_forall (fun b => if b <? 128 then Z.lor b 128 =? b + 128 else true)
                ltac:(vm_compute; reflexivity) b ltac:(lia)) as H.
  cbv beta in H. rewrite (proj2 (Z.ltb_lt b 128)) in H by lia.
  apply Z.eqb_eq. exact H.
Qed.

(* ------------------------------------------------------------------ *)
(** * 32-byte arrays: last byte *)

Lemma split_last32 (b : bytes) : length b = 32%nat ->
  exists b31 t, b = b31 ++ [t] /\ length b31 = 31%nat.
Proof.
  intros Hl. pose proof (firstn_skipn 31 b) as E.
  pose proof (skipn_length 31 b) as Hs.
  destruct (skipn 31 b) as [|t [|u r]]; cbn [length] in Hs; try lia.
  exists (firstn 31 b), t. split; [symmetry; exact E|].
  rewrite firstn_length. lia.
Qed.

Lemma nth_31 (b31 : bytes) t : length b31 = 31%nat -> nth 31 (b31 ++ [t]) 0 = t.
Proof.
  intros Hl. rewrite app_nth2 by lia. rewrite Hl, Nat.sub_diag. reflexivity.
Qed.

Lemma set_nth_31 (b31 : bytes) t v : length b31 = 31%nat ->
  set_nth 31 v (b31 ++ [t]) = b31 ++ [v].
Proof.
  intros Hl. unfold set_nth.
  rewrite firstn_app, Hl, Nat.sub_diag, firstn_O, app_nil_r.
  rewrite firstn_all2 by lia.
  rewrite skipn_all2 by (rewrite app_length; cbn [length]; lia).
  reflexivity.
Qed.

Lemma pow2_255_eq : 2 ^ 255 = 256 ^ 31 * 128.
Proof. reflexivity. Qed.
Lemma pow2_256_eq : 2 ^ 256 = 256 ^ 31 * 256.
Proof. reflexivity. Qed.

(* UnpackSignY on a 32-byte array: bit 255 and the low 255 bits *)
Theorem unpack_spec b : length b = 32%nat -> Forall is_byte b ->
  UnpackSignY b = (2 ^ 255 <=? le_val b, le_val b mod 2 ^ 255).
Proof.
  intros Hl Hb. destruct (split_last32 b Hl) as (b31 & t & -> & Hl31).
  apply Forall_app in Hb. destruct Hb as [Hb31 Ht]. apply Forall_inv in Ht.
  unfold is_byte in Ht.
  pose proof (le_val_bound b31 Hb31) as HL. rewrite Hl31 in HL.
  unfold UnpackSignY. rewrite nth_31, set_nth_31 by exact Hl31.
  rewrite !SetBigIntFromLEBytes_spec, !le_val_app, Hl31. cbn [le_val].
  change (Z.of_nat 31) with 31 in *.
  rewrite pow2_255_eq. set (M := 256 ^ 31) in *.
  rewrite (land128_zero t Ht).
  destruct (Z.ltb_spec t 128) as [Hlt|Hge]; cbn [negb].
  - assert (Hm : M * t <= M * 127) by (apply Z.mul_le_mono_nonneg_l; lia).
    f_equal.
    + symmetry. apply Z.leb_gt. lia.
    + symmetry. apply Z.mod_small. lia.
  - rewrite land127_high by lia.
    assert (Hm : M * 128 <= M * t) by (apply Z.mul_le_mono_nonneg_l; lia).
    assert (Hm' : M * (t - 128) <= M * 127) by (apply Z.mul_le_mono_nonneg_l; lia).
    assert (Hm0 : 0 <= M * (t - 128)) by (apply Z.mul_nonneg_nonneg; lia).
    f_equal.
    + symmetry. apply Z.leb_le. lia.
    + apply Z.mod_unique_pos with (q := 1); lia.
Qed.

(* PackSignY on y < 2^255 *)
Theorem pack_spec sign y : 0 <= y < 2 ^ 255 ->
  PackSignY sign y = le_bytes 32 (y + if sign then 2 ^ 255 else 0).
Proof.
  intros Hy. unfold PackSignY. cbv zeta.
  rewrite BigIntLEBytes_nonneg by lia.
  destruct sign; [|rewrite Z.add_0_r; reflexivity].
  pose proof (le_bytes_length 32 y) as Hl.
  pose proof (le_bytes_bytes 32 y) as Hb.
  pose proof (le_val_le_bytes_small 32 y) as Hv.
  change (256 ^ Z.of_nat 32) with (2 ^ 256) in Hv. specialize (Hv ltac:(lia)).
  destruct (split_last32 _ Hl) as (b31 & t & E & Hl31).
  rewrite E in *. clear E.
  apply Forall_app in Hb. destruct Hb as [Hb31 Ht]. apply Forall_inv in Ht.
  unfold is_byte in Ht.
  pose proof (le_val_bound b31 Hb31) as HL. rewrite Hl31 in HL.
  rewrite le_val_app, Hl31 in Hv. cbn [le_val] in Hv.
  change (Z.of_nat 31) with 31 in *.
  rewrite pow2_255_eq in *. set (M := 256 ^ 31) in *.
  assert (HM : 0 < M) by (unfold M; apply Z.pow_pos_nonneg; lia).
  assert (Ht128 : t < 128).
  { apply Z.nle_gt. intros Hge.
    assert (M * 128 <= M * t) by (apply Z.mul_le_mono_nonneg_l; lia). lia. }
  rewrite nth_31, set_nth_31 by exact Hl31.
  rewrite lor128_low by lia.
  apply le_val_inj.
  - apply Forall_app. split; [exact Hb31|]. constructor; [unfold is_byte; lia|constructor].
  - apply le_bytes_bytes.
  - rewrite le_bytes_length, app_length, Hl31. reflexivity.
  - rewrite le_val_app, Hl31. cbn [le_val]. change (Z.of_nat 31) with 31. fold M.
    rewrite le_val_le_bytes. change (256 ^ Z.of_nat 32) with (M * 256).
    rewrite Z.mod_small; [lia|].
    assert (M * t <= M * 127) by (apply Z.mul_le_mono_nonneg_l; lia). lia.
Qed.

Lemma unpack_pack sign y : 0 <= y < 2 ^ 255 ->
  UnpackSignY (PackSignY sign y) = (sign, y).
Proof.
  intros Hy. rewrite pack_spec by exact Hy.
  rewrite unpack_spec by (apply le_bytes_length || apply le_bytes_bytes).
  assert (Hp : 2 ^ 256 = 2 ^ 255 + 2 ^ 255) by reflexivity.
  set (P := 2 ^ 255) in *.
  rewrite le_val_le_bytes_small
    by (change (256 ^ Z.of_nat 32) with (2 ^ 256); destruct sign; lia).
  destruct sign.
  - f_equal; [apply Z.leb_le; lia|].
    symmetry. apply Z.mod_unique_pos with (q := 1); lia.
  - rewrite Z.add_0_r. f_equal; [apply Z.leb_gt; lia|apply Z.mod_small; lia].
Qed.

Lemma pack_unpack b : length b = 32%nat -> Forall is_byte b ->
  PackSignY (fst (UnpackSignY b)) (snd (UnpackSignY b)) = b.
Proof.
  intros Hl Hb. rewrite unpack_spec by assumption. cbn [fst snd].
  pose proof (le_val_bound b Hb) as Hv. rewrite Hl in Hv.
  change (256 ^ Z.of_nat 32) with (2 ^ 256) in Hv.
  assert (Hp : 2 ^ 256 = 2 ^ 255 + 2 ^ 255) by reflexivity.
  assert (HP : 0 < 2 ^ 255) by reflexivity.
  pose proof (Z.mod_pos_bound (le_val b) (2 ^ 255) HP) as Hm.
  rewrite pack_spec by exact Hm.
  transitivity (le_bytes 32 (le_val b));
    [f_equal|rewrite <- Hl; apply le_bytes_le_val; exact Hb].
  set (P := 2 ^ 255) in *.
  destruct (Z.leb_spec P (le_val b)) as [Hge|Hlt].
  - assert (E : le_val b - P = le_val b mod P)
      by (apply Z.mod_unique_pos with (q := 1); lia). lia.
  - rewrite Z.mod_small by lia. lia.
Qed.

(* ------------------------------------------------------------------ *)
(** * Field facts: the denominator a - d y^2 never vanishes *)

Local Notation "x == y" := (eqm q x y) (at level 70, no associativity).

Lemma eqm_ca_square : sqrt_ca * sqrt_ca == ca.
Proof. exact ca_square. Qed.

Lemma ca_nz : ~ ca == 0.
Proof. intros H. apply eqm_zero_iff in H. exact (ca_nonzero H). Qed.

(* a - d y^2 <> 0 in the field, for every y: otherwise d = (sqrt(a)/y)^2 *)
Lemma den_nz y : ~ ca - cd * (y * y) == 0.
Proof.
  intros H. apply (proj1 (eqm_sub_zero q ca (cd * (y * y)))) in H.
  destruct (Z.eq_dec (y mod q) 0) as [Hy0|Hy0].
  - apply ca_nz. rewrite H. apply eqm_zero_iff in Hy0. rewrite Hy0. ering.
  - assert (Hy : ~ y == 0) by (intros E; apply eqm_zero_iff in E; contradiction).
    pose proof (finv_spec q q_prime y Hy) as Hi.
    set (iy := finv q y) in *.
    apply (cd_nonsquare (sqrt_ca * iy)).
    change ((sqrt_ca * iy) * (sqrt_ca * iy) == cd).
    transitivity ((sqrt_ca * sqrt_ca) * (iy * iy)); [ering|].
    rewrite eqm_ca_square, H.
    transitivity (cd * ((y * iy) * (y * iy))); [ering|].
    rewrite Hi. ering.
Qed.

(* the integer the Go code compares with 0: A - (D*y2 mod Q), y2 = y*y mod Q *)
Definition den_int (y : Z) : Z := ca - (cd * ((y * y) mod q)) mod q.

Lemma den_int_eqm y : den_int y == ca - cd * (y * y).
Proof. unfold den_int. rewrite !eqm_mod. reflexivity. Qed.

(* the "division by 0" branch of PointFromSignAndY is dead *)
Theorem den_int_nonzero y : den_int y <> 0.
Proof.
  intros H0. apply (den_nz y). rewrite <- den_int_eqm, H0. reflexivity.
Qed.

Lemma den_int_nz y : ~ den_int y == 0.
Proof. rewrite den_int_eqm. apply den_nz. Qed.

(* the candidate x^2 = (1 - y^2) / (a - d y^2) exactly as computed by the code;
   den_int y may be negative: ModInverse reduces it first *)
Definition xsq (y : Z) : Z :=
  ((1 - (y * y) mod q) * finv q (den_int y mod q)) mod q.

Lemma xsq_range y : 0 <= xsq y < q.
Proof. unfold xsq. apply Z.mod_pos_bound. exact q_pos. Qed.

Lemma xsq_spec y : xsq y * (ca - cd * (y * y)) == 1 - y * y.
Proof.
  unfold xsq. rewrite (finv_mod q q_prime).
  pose proof (fdiv_spec q q_prime (1 - (y * y) mod q) (den_int y) (den_int_nz y)) as H.
  rewrite <- den_int_eqm. rewrite H. rewrite eqm_mod. reflexivity.
Qed.

Lemma on_curve_iff x y : oc (x, y) <-> x * x == xsq y.
Proof.
  unfold oc, on_curve.
  change ((ca * x * x + y * y == 1 + cd * x * x * y * y) <-> x * x == xsq y).
  pose proof (xsq_spec y) as Hs. pose proof (den_nz y) as Hd.
  set (den := ca - cd * (y * y)) in *.
  split; intros H.
  - apply (eqm_cancel_r q q_prime den); [exact Hd|]. rewrite Hs.
    assert (E : x * x * den == (ca * x * x + y * y) - (1 + cd * x * x * y * y) + (1 - y * y))
      by (unfold den; ering).
    rewrite E, H. ering.
  - assert (E : ca * x * x + y * y == x * x * den + cd * x * x * y * y + y * y)
      by (unfold den; ering).
    rewrite E, H, Hs. ering.
Qed.

Lemma on_curve_sq x y : oc (x, y) -> (x * x) mod q = xsq y.
Proof.
  intros H. apply on_curve_iff in H. unfold eqm in H. rewrite H.
  apply Z.mod_small. apply xsq_range.
Qed.

(* ------------------------------------------------------------------ *)
(** * big.Int.ModSqrt as modelled: Tonelli-Shanks never runs out of fuel *)

Lemma modsqrt_unfold x : 0 <= x < q ->
  modsqrt x = match sqrt_model q ((ts_s - 1) / 2) ts_g0 ts_e x with
              | SqrtOk z => Some z | _ => None end.
Proof.
  intros Hx. unfold modsqrt. rewrite Q_eq. rewrite Z.mod_small by exact Hx. reflexivity.
Qed.

Theorem modsqrt_cases x : 0 <= x < q ->
  (modsqrt x = None /\ forall r, (r * r) mod q <> x) \/
  (exists z, modsqrt x = Some z /\ 0 <= z < q /\ (z * z) mod q = x).
Proof.
  intros Hx. rewrite modsqrt_unfold by exact Hx.
  destruct bj_ts_side_conditions as (He & Hs & Hps & Hg0 & Hg).
  destruct (sqrt_cases q ts_e ts_s ((ts_s - 1) / 2) ts_g0 q_prime He Hs Hps eq_refl Hg0 Hg x Hx)
    as [(E & _ & H)|[(_ & _ & z & H & Hz & Hzz)|(N & Et & H)]]; rewrite H.
  - right. exists 0. split; [reflexivity|]. split; [pose proof q_pos; lia|].
    rewrite E. cbn [Z.mul]. apply Z.mod_0_l. pose proof q_pos; lia.
  - right. exists z. split; [reflexivity|]. split; assumption.
  - left. split; [reflexivity|]. intros r Hr.
    apply (euler_nonsquare q x q_prime q_gt_2 Et r).
    rewrite Hr. symmetry. apply Z.mod_small. exact Hx.
Qed.

Corollary modsqrt_some x z : 0 <= x < q -> modsqrt x = Some z ->
  0 <= z < q /\ (z * z) mod q = x.
Proof.
  intros Hx H. destruct (modsqrt_cases x Hx) as [(E & _)|(z' & E & Hz & Hzz)].
  - congruence.
  - assert (z' = z) by congruence. subst z'. split; assumption.
Qed.

Corollary modsqrt_none x : 0 <= x < q -> modsqrt x = None ->
  forall r, (r * r) mod q <> x.
Proof.
  intros Hx H. destruct (modsqrt_cases x Hx) as [(_ & N)|(z' & E & _)].
  - exact N.
  - congruence.
Qed.

(* the fuel of the model is sufficient: no spurious failure *)
Theorem modsqrt_fuel_sufficient x :
  sqrt_model Q ((ts_s - 1) / 2) ts_g0 ts_e (x mod Q) <> SqrtOutOfFuel.
Proof.
  rewrite Q_eq. destruct bj_ts_side_conditions as (He & Hs & Hps & Hg0 & Hg).
  apply (sqrt_total q ts_e ts_s ((ts_s - 1) / 2) ts_g0 q_prime He Hs Hps eq_refl Hg0 Hg).
  apply Z.mod_pos_bound. exact q_pos.
Qed.

(* ------------------------------------------------------------------ *)
(** * PointCoordSign and the choice of the root *)

Lemma sign_spec c : PointCoordSign c = ((q - 1) / 2 <? c).
Proof. unfold PointCoordSign. rewrite half_eq. apply Z.gtb_ltb. Qed.

Lemma neg_mod_q x : 0 < x < q -> (x * -1) mod q = q - x.
Proof.
  intros Hx. replace (x * -1) with ((q - x) + (-1) * q) by ring.
  rewrite Z.mod_add by lia. apply Z.mod_small. lia.
Qed.

(* the last four statements of PointFromSignAndY *)
Definition select (sign : bool) (z : Z) : Z :=
  (if (sign && negb (PointCoordSign z)) || (negb sign && PointCoordSign z)
   then z * -1 else z) mod q.

Lemma select_spec sign z : 0 <= z < q -> (sign && (z =? 0)) = false ->
  0 <= select sign z < q /\
  select sign z * select sign z == z * z /\
  PointCoordSign (select sign z) = sign.
Proof.
  intros Hz Hs0. pose proof q_half as Hh. pose proof hq_nonneg as Hh0.
  assert (Hr : 0 <= select sign z < q) by (unfold select; apply Z.mod_pos_bound; exact q_pos).
  split; [exact Hr|]. split.
  - unfold select.
    destruct ((sign && negb (PointCoordSign z)) || (negb sign && PointCoordSign z));
      rewrite !eqm_mod; [ering|reflexivity].
  - clear Hr. unfold select. rewrite (sign_spec z).
    destruct sign; cbn [andb orb negb] in *.
    + apply Z.eqb_neq in Hs0. rewrite orb_false_r.
      destruct (Z.ltb_spec ((q - 1) / 2) z) as [Hlt|Hge]; cbn [negb].
      * rewrite Z.mod_small by exact Hz. rewrite sign_spec. apply Z.ltb_lt. exact Hlt.
      * rewrite neg_mod_q by lia. rewrite sign_spec. apply Z.ltb_lt. lia.
    + destruct (Z.ltb_spec ((q - 1) / 2) z) as [Hlt|Hge].
      * rewrite neg_mod_q by lia. rewrite sign_spec. apply Z.ltb_ge. lia.
      * rewrite Z.mod_small by exact Hz. rewrite sign_spec. apply Z.ltb_ge. exact Hge.
Qed.

(* a field element is determined by its square and its sign *)
Lemma sign_unique x1 x2 : 0 <= x1 < q -> 0 <= x2 < q ->
  x1 * x1 == x2 * x2 -> PointCoordSign x1 = PointCoordSign x2 -> x1 = x2.
Proof.
  intros H1 H2 Hsq Hsg. pose proof q_half as Hh.
  destruct (square_roots_pm q x1 x2 q_prime Hsq) as [E|E].
  - rewrite !Z.mod_small in E by assumption. exact E.
  - rewrite Z.mod_small in E by assumption.
    destruct (Z.eq_dec x2 0) as [->|Hnz].
    + rewrite E. apply Z.mod_0_l. pose proof q_pos; lia.
    + exfalso. replace (- x2) with (x2 * -1) in E by ring.
      rewrite neg_mod_q in E by lia. rewrite !sign_spec in Hsg.
      destruct (Z.ltb_spec ((q - 1) / 2) x1), (Z.ltb_spec ((q - 1) / 2) x2);
        try discriminate; lia.
Qed.

(* ------------------------------------------------------------------ *)
(** * PointFromSignAndY *)

Lemma pfsy_big sign y : q <= y -> PointFromSignAndY sign y = Err.
Proof.
  intros Hy. unfold PointFromSignAndY. rewrite Q_eq.
  rewrite (proj2 (Z.geb_le y q)) by exact Hy. reflexivity.
Qed.

Lemma pfsy_small sign y : y < q ->
  PointFromSignAndY sign y =
  match modsqrt (xsq y) with
  | None => Err
  | Some z => if sign && (z =? 0) then Err else Ok (select sign z, y)
  end.
Proof.
  intros Hy. unfold PointFromSignAndY, modinv. rewrite MinusOne_eq, Q_eq, A_eq, D_eq.
  assert (E : (y >=? q) = false).
  { rewrite Z.geb_leb. apply Z.leb_gt. exact Hy. }
  rewrite E. cbv zeta. fold (den_int y).
  rewrite (proj2 (Z.eqb_neq (den_int y) 0) (den_int_nonzero y)).
  fold (xsq y). reflexivity.
Qed.

Theorem PointFromSignAndY_never_panics sign y : PointFromSignAndY sign y <> Panic.
Proof.
  destruct (Z.lt_ge_cases y q) as [Hy|Hy].
  - rewrite pfsy_small by exact Hy.
    destruct (modsqrt (xsq y)) as [z|]; [|discriminate].
    destruct (sign && (z =? 0)); discriminate.
  - rewrite pfsy_big by exact Hy. discriminate.
Qed.

(* soundness of PointFromSignAndY for 0 <= y *)
Lemma pfsy_sound sign y P : 0 <= y -> PointFromSignAndY sign y = Ok P ->
  oc P /\ can P /\ snd P = y /\ PointCoordSign (fst P) = sign.
Proof.
  intros Hy0 H. destruct (Z.lt_ge_cases y q) as [Hy|Hy];
    [|rewrite pfsy_big in H by exact Hy; discriminate].
  rewrite pfsy_small in H by exact Hy.
  destruct (modsqrt (xsq y)) as [z|] eqn:Es; [|discriminate].
  destruct (modsqrt_some _ _ (xsq_range y) Es) as [Hz Hzz].
  destruct (sign && (z =? 0)) eqn:E0; [discriminate|].
  assert (P = (select sign z, y)) by congruence. subst P. clear H.
  destruct (select_spec sign z Hz E0) as (Hr & Hsq & Hsg).
  cbn [fst snd]. split; [|split; [|split]].
  - apply on_curve_iff. rewrite Hsq. unfold eqm. rewrite Hzz.
    symmetry. apply Z.mod_small. apply xsq_range.
  - unfold can, canonical. split; [exact Hr|lia].
  - reflexivity.
  - exact Hsg.
Qed.

(* completeness: every canonical curve point is recovered from its sign and y *)
Lemma pfsy_complete x y : oc (x, y) -> can (x, y) ->
  PointFromSignAndY (PointCoordSign x) y = Ok (x, y).
Proof.
  intros Hoc [Hx Hy]. rewrite pfsy_small by lia.
  pose proof (on_curve_sq x y Hoc) as Hxx.
  destruct (modsqrt_cases (xsq y) (xsq_range y)) as [(_ & N)|(z & -> & Hz & Hzz)];
    [exfalso; exact (N x Hxx)|].
  assert (Hsq : z * z == x * x) by (unfold eqm; rewrite Hzz, Hxx; reflexivity).
  assert (E0 : (PointCoordSign x && (z =? 0)) = false).
  { destruct (PointCoordSign x) eqn:Esx; [|reflexivity]. cbn [andb].
    apply Z.eqb_neq. intros ->.
    rewrite sign_spec in Esx. apply Z.ltb_lt in Esx. pose proof hq_nonneg.
    assert (Hx0 : x * x == 0) by (rewrite <- Hsq; ering).
    destruct (eqm_mul_zero q q_prime x x Hx0) as [H0|H0];
      apply (proj1 (eqm_zero_iff q x)) in H0; rewrite Z.mod_small in H0 by exact Hx; lia. }
  rewrite E0.
  destruct (select_spec _ z Hz E0) as (Hr & Hsq' & Hsg).
  f_equal. f_equal. apply sign_unique; try assumption.
  rewrite Hsq'. exact Hsq.
Qed.

(* ------------------------------------------------------------------ *)
(** * Main theorems (C06) *)

Lemma can_y_lt_255 y : 0 <= y < q -> 0 <= y < 2 ^ 255.
Proof.
  intros Hy. pose proof q_lt_2_254.
  assert (2 ^ 254 < 2 ^ 255) by reflexivity. lia.
Qed.

(* the encoding: little-endian y with bit 255 = [x > (q-1)/2] *)
Theorem compress_spec x y : can (x, y) ->
  Compress (x, y) = le_bytes 32 (y + (if x >? (q - 1) / 2 then 2 ^ 255 else 0)).
Proof.
  intros [_ Hy]. unfold Compress. rewrite pack_spec by (apply can_y_lt_255; exact Hy).
  rewrite sign_spec, Z.gtb_ltb. reflexivity.
Qed.

Theorem compress_length P : length (Compress P) = 32%nat.
Proof.
  destruct P as [x y]. unfold Compress, PackSignY. cbv zeta.
  destruct (PointCoordSign x); [|apply BigIntLEBytes_length].
  unfold set_nth. pose proof (BigIntLEBytes_length y) as Hl.
  rewrite app_length, firstn_length. cbn [length]. rewrite skipn_length. lia.
Qed.

Theorem compress_bytes P : can P -> Forall is_byte (Compress P).
Proof.
  destruct P as [x y]. intros Hc. rewrite compress_spec by exact Hc. apply le_bytes_bytes.
Qed.

Theorem decompress_compress P : oc P -> can P -> Decompress (Compress P) = Ok P.
Proof.
  destruct P as [x y]. intros Hoc Hcan. unfold Decompress, Compress.
  rewrite unpack_pack by (apply can_y_lt_255; apply Hcan).
  apply pfsy_complete; assumption.
Qed.

(* whatever is accepted is a canonical curve point whose encoding is the input *)
Theorem decompress_sound b P : length b = 32%nat -> Forall is_byte b ->
  Decompress b = Ok P -> oc P /\ can P /\ Compress P = b.
Proof.
  intros Hl Hb H. unfold Decompress in H.
  pose proof (pack_unpack b Hl Hb) as Hpu.
  pose proof (unpack_spec b Hl Hb) as Hu.
  destruct (UnpackSignY b) as [sign y]. cbn [fst snd] in Hpu.
  assert (Hy0 : 0 <= y).
  { injection Hu as _ ->. apply Z.mod_pos_bound. reflexivity. }
  destruct (pfsy_sound sign y P Hy0 H) as (Hoc & Hcan & Hy & Hs).
  split; [exact Hoc|]. split; [exact Hcan|].
  destruct P as [x' y']. cbn [fst snd] in *. subst y'.
  unfold Compress. rewrite Hs. exact Hpu.
Qed.

(* Decompress accepts exactly the canonical encodings of canonical curve points *)
Theorem decompress_ok_iff b P : length b = 32%nat -> Forall is_byte b ->
  (Decompress b = Ok P <-> oc P /\ can P /\ Compress P = b).
Proof.
  intros Hl Hb. split.
  - apply decompress_sound; assumption.
  - intros (Hoc & Hcan & <-). apply decompress_compress; assumption.
Qed.

Theorem decompress_total b : Decompress b <> Panic.
Proof.
  unfold Decompress. destruct (UnpackSignY b) as [sign y].
  apply PointFromSignAndY_never_panics.
Qed.

Corollary decompress_err_iff b : length b = 32%nat -> Forall is_byte b ->
  (Decompress b = Err <-> ~ exists P, oc P /\ can P /\ Compress P = b).
Proof.
  intros Hl Hb. split.
  - intros H (P & HP). apply (decompress_ok_iff b P Hl Hb) in HP. congruence.
  - intros H. destruct (Decompress b) as [P| |] eqn:E.
    + exfalso. apply H. exists P. apply (decompress_ok_iff b P Hl Hb). exact E.
    + reflexivity.
    + exfalso. exact (decompress_total b E).
Qed.

(* y-part (low 255 bits) not below q: rejected *)
Theorem decompress_rejects_big_y b : length b = 32%nat -> Forall is_byte b ->
  q <= le_val b mod 2 ^ 255 -> Decompress b = Err.
Proof.
  intros Hl Hb Hy. unfold Decompress. rewrite unpack_spec by assumption.
  apply pfsy_big. exact Hy.
Qed.

Corollary decompress_rejects_big_y' b : length b = 32%nat -> Forall is_byte b ->
  q <= snd (UnpackSignY b) -> Decompress b = Err.
Proof.
  intros Hl Hb. rewrite unpack_spec by assumption. cbn [snd].
  apply decompress_rejects_big_y; assumption.
Qed.

(* (1 - y^2)/(a - d y^2) a non-residue: rejected *)
Theorem decompress_rejects_nonresidue b : length b = 32%nat -> Forall is_byte b ->
  (forall r, (r * r) mod q <> xsq (le_val b mod 2 ^ 255)) -> Decompress b = Err.
Proof.
  intros Hl Hb Hns. unfold Decompress. rewrite unpack_spec by assumption.
  set (y := le_val b mod 2 ^ 255) in *.
  destruct (Z.lt_ge_cases y q) as [Hy|Hy]; [|apply pfsy_big; exact Hy].
  rewrite pfsy_small by exact Hy.
  destruct (modsqrt_cases (xsq y) (xsq_range y)) as [(-> & _)|(z & _ & _ & Hzz)];
    [reflexivity|exfalso; exact (Hns z Hzz)].
Qed.

(* same, stated with the curve: no point with this y *)
Corollary decompress_rejects_no_point b : length b = 32%nat -> Forall is_byte b ->
  (forall x, ~ oc (x, le_val b mod 2 ^ 255)) -> Decompress b = Err.
Proof.
  intros Hl Hb Hno. apply decompress_rejects_nonresidue; try assumption.
  intros r Hr. apply (Hno r). apply on_curve_iff. unfold eqm. rewrite Hr.
  symmetry. apply Z.mod_small. apply xsq_range.
Qed.

(* sign bit set although x = 0 (y = 1 or y = q - 1): rejected; this is the
   clause that makes the accepted encodings canonical *)
Theorem decompress_rejects_sign_of_zero b : length b = 32%nat -> Forall is_byte b ->
  2 ^ 255 <= le_val b -> xsq (le_val b mod 2 ^ 255) = 0 -> Decompress b = Err.
Proof.
  intros Hl Hb Hs Hx0. unfold Decompress. rewrite unpack_spec by assumption.
  rewrite (proj2 (Z.leb_le _ _) Hs).
  set (y := le_val b mod 2 ^ 255) in *.
  destruct (Z.lt_ge_cases y q) as [Hy|Hy]; [|apply pfsy_big; exact Hy].
  rewrite pfsy_small by exact Hy.
  destruct (modsqrt_cases (xsq y) (xsq_range y)) as [(-> & _)|(z & -> & Hz & Hzz)];
    [reflexivity|].
  rewrite Hx0 in Hzz.
  assert (Hz0 : z * z == 0) by (unfold eqm; rewrite Hzz; symmetry; apply Z.mod_0_l; pose proof q_pos; lia).
  assert (z = 0).
  { destruct (eqm_mul_zero q q_prime z z Hz0) as [H0|H0];
      apply (proj1 (eqm_zero_iff q z)) in H0; rewrite Z.mod_small in H0 by exact Hz; exact H0. }
  subst z. reflexivity.
Qed.

(* Compress is injective on canonical curve points *)
Corollary compress_inj P P' : oc P -> can P -> oc P' -> can P' ->
  Compress P = Compress P' -> P = P'.
Proof.
  intros Ho Hc Ho' Hc' E.
  pose proof (decompress_compress P Ho Hc) as H1.
  pose proof (decompress_compress P' Ho' Hc') as H2.
  rewrite E in H1. congruence.
Qed.

Print Assumptions compress_spec.
Print Assumptions decompress_compress.
Print Assumptions decompress_sound.
Print Assumptions decompress_ok_iff.
Print Assumptions decompress_err_iff.
Print Assumptions decompress_total.
Print Assumptions decompress_rejects_big_y.
Print Assumptions decompress_rejects_nonresidue.
Print Assumptions decompress_rejects_sign_of_zero.
Print Assumptions den_int_nonzero.
Print Assumptions modsqrt_fuel_sufficient.
Print Assumptions compress_inj.

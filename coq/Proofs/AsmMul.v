(* Assembly proofs, part 4: mul (ADX path of ff/element_mul_amd64.s and
   ff/element_mul_adx_amd64.s; the non-ADX path is CALL ·_mulGeneric).

   The assembly loops over the words of y with x in registers (the Go code
   loops over the words of x); each round is a multiplication part with two
   interleaved carry chains ([adx_mul0] for the first round, [adx_mulN]) and a
   reduction part ([adx_red]).  Result: the canonical Montgomery product, hence
   equal to mulGeneric x y by uniqueness of the canonical representative. *)
From Coq Require Import ZArith List Lia Bool Morphisms Setoid.
From Verif Require Import Lib.Params Lib.Words Model.FfLimbs Model.AsmSem
  Proofs.FfWords Proofs.FfEl Proofs.FfArith Proofs.FfOps Proofs.AsmLemmas Proofs.AsmMont.
From Verif Require Gen.FfAsm.
Import ListNotations.
Local Open Scope Z_scope.

Local Ltac Zify.zify_post_hook ::= Z.div_mod_to_equations.
Local Opaque q.
Local Opaque mulGeneric.

Local Ltac u64s :=
  match goal with
  | |- u64 _ => assumption
  | |- u64 q0 => exact (proj1 q_limbs_u64)
  | |- u64 q1 => exact (proj1 (proj2 q_limbs_u64))
  | |- u64 q2 => exact (proj1 (proj2 (proj2 q_limbs_u64)))
  | |- u64 q3 => exact (proj2 (proj2 (proj2 q_limbs_u64)))
  | |- u64 0 => unfold u64, W; lia
  | |- 0 <= _ <= 1 => assumption
  | |- 0 <= 0 <= 1 => lia
  end.
Local Ltac spec_add E U K := apply add64_spec in E; [ destruct E as (E & U & K) | u64s .. ].
Local Ltac spec_mul E Uh Ul := apply mul64_spec in E; [ destruct E as (E & Uh & Ul) | u64s .. ].

(* ------------------------------------------------------------------ *)
(** * The three blocks as functions *)

(* first round, multiplication part: (t, A) with t + A*R = y * x *)
Definition adx_mul0 (y : Z) (x : el) : el * Z :=
  let '(x0, x1, x2, x3) := x in
  let '(hA0, lA0) := mul64 y x0 in          (* MULXQ DI, R14, R15 *)
  let '(hA1, lA1) := mul64 y x1 in          (* MULXQ R8, AX, CX *)
  let '(t1, o0) := add64 hA0 lA1 0 in       (* ADOXQ AX, R15 *)
  let '(hA2, lA2) := mul64 y x2 in          (* MULXQ R9, AX, BX *)
  let '(t2, o1) := add64 hA1 lA2 o0 in      (* ADOXQ AX, CX *)
  let '(hA3, lA3) := mul64 y x3 in          (* MULXQ R10, AX, BP *)
  let '(t3, o2) := add64 hA2 lA3 o1 in      (* ADOXQ AX, BX *)
  let '(A, o3) := add64 hA3 0 o2 in         (* MOVQ $0, AX; ADOXQ AX, BP *)
  ((lA0, t1, t2, t3), A).

(* other rounds, multiplication part: (s, A) with s + A*R = t + y * x *)
Definition adx_mulN (y : Z) (x t : el) : el * Z :=
  let '(x0, x1, x2, x3) := x in
  let '(t0, t1, t2, t3) := t in
  let '(hA0, lA0) := mul64 y x0 in          (* MULXQ DI, AX, BP *)
  let '(s0, o0) := add64 t0 lA0 0 in        (* ADOXQ AX, R14 *)
  let '(v1, c0) := add64 t1 hA0 0 in        (* ADCXQ BP, R15 *)
  let '(hA1, lA1) := mul64 y x1 in          (* MULXQ R8, AX, BP *)
  let '(s1, o1) := add64 v1 lA1 o0 in       (* ADOXQ AX, R15 *)
  let '(v2, c1) := add64 t2 hA1 c0 in       (* ADCXQ BP, CX *)
  let '(hA2, lA2) := mul64 y x2 in          (* MULXQ R9, AX, BP *)
  let '(s2, o2) := add64 v2 lA2 o1 in       (* ADOXQ AX, CX *)
  let '(v3, c2) := add64 t3 hA2 c1 in       (* ADCXQ BP, BX *)
  let '(hA3, lA3) := mul64 y x3 in          (* MULXQ R10, AX, BP *)
  let '(s3, o3) := add64 v3 lA3 o2 in       (* ADOXQ AX, BX *)
  let '(A', c3) := add64 hA3 0 c2 in        (* MOVQ $0, AX; ADCXQ AX, BP *)
  let '(A, o4) := add64 A' 0 o3 in          (* ADOXQ AX, BP *)
  ((s0, s1, s2, s3), A).

(* reduction part: t' with t' * W = t + A*R + m*q *)
Definition adx_red (t : el) (A : Z) : el :=
  let '(t0, t1, t2, t3) := t in
  let m := wmul qInvNeg t0 in               (* MOVQ qInv0, DX; IMULQ R14, DX *)
  let '(h0, l0) := mul64 m q0 in            (* MULXQ q0, AX, R12 *)
  let '(_, c0) := add64 l0 t0 0 in          (* ADCXQ R14, AX *)
  let '(u0, c1) := add64 h0 t1 c0 in        (* MOVQ R12, R14; ADCXQ R15, R14 *)
  let '(h1, l1) := mul64 m q1 in            (* MULXQ q1, AX, R15 *)
  let '(t0', o0) := add64 u0 l1 0 in        (* ADOXQ AX, R14 *)
  let '(u1, c2) := add64 h1 t2 c1 in        (* ADCXQ CX, R15 *)
  let '(h2, l2) := mul64 m q2 in            (* MULXQ q2, AX, CX *)
  let '(t1', o1) := add64 u1 l2 o0 in       (* ADOXQ AX, R15 *)
  let '(u2, c3) := add64 h2 t3 c2 in        (* ADCXQ BX, CX *)
  let '(h3, l3) := mul64 m q3 in            (* MULXQ q3, AX, BX *)
  let '(t2', o2) := add64 u2 l3 o1 in       (* ADOXQ AX, CX *)
  let '(u3, c4) := add64 h3 0 c3 in         (* MOVQ $0, AX; ADCXQ AX, BX *)
  let '(t3', o3) := add64 u3 A o2 in        (* ADOXQ BP, BX *)
  (t0', t1', t2', t3').

(* ------------------------------------------------------------------ *)
(** * Recognising the blocks in an execution *)

Lemma adx_mul0_chain : forall y x0 x1 x2 x3 hA0 lA0 hA1 lA1 t1 o0 hA2 lA2 t2 o1
    hA3 lA3 t3 o2 A o3,
  mul64 y x0 = (hA0, lA0) -> mul64 y x1 = (hA1, lA1) -> add64 hA0 lA1 0 = (t1, o0) ->
  mul64 y x2 = (hA2, lA2) -> add64 hA1 lA2 o0 = (t2, o1) ->
  mul64 y x3 = (hA3, lA3) -> add64 hA2 lA3 o1 = (t3, o2) ->
  add64 hA3 0 o2 = (A, o3) ->
  adx_mul0 y (x0, x1, x2, x3) = ((lA0, t1, t2, t3), A).
Proof.
  intros * P0 P1 E1 P2 E2 P3 E3 E4. unfold adx_mul0.
  rewrite P0, P1, E1, P2, E2, P3, E3, E4. reflexivity.
Qed.

Lemma adx_mulN_chain : forall y x0 x1 x2 x3 t0 t1 t2 t3 hA0 lA0 s0 o0 v1 c0
    hA1 lA1 s1 o1 v2 c1 hA2 lA2 s2 o2 v3 c2 hA3 lA3 s3 o3 A' c3 A o4,
  mul64 y x0 = (hA0, lA0) -> add64 t0 lA0 0 = (s0, o0) -> add64 t1 hA0 0 = (v1, c0) ->
  mul64 y x1 = (hA1, lA1) -> add64 v1 lA1 o0 = (s1, o1) -> add64 t2 hA1 c0 = (v2, c1) ->
  mul64 y x2 = (hA2, lA2) -> add64 v2 lA2 o1 = (s2, o2) -> add64 t3 hA2 c1 = (v3, c2) ->
  mul64 y x3 = (hA3, lA3) -> add64 v3 lA3 o2 = (s3, o3) ->
  add64 hA3 0 c2 = (A', c3) -> add64 A' 0 o3 = (A, o4) ->
  adx_mulN y (x0, x1, x2, x3) (t0, t1, t2, t3) = ((s0, s1, s2, s3), A).
Proof.
  intros * Q0 G0 G1 Q1 G2 G3 Q2 G4 G5 Q3 G6 G7 G8. unfold adx_mulN.
  rewrite Q0, G0, G1, Q1, G2, G3, Q2, G4, G5, Q3, G6, G7, G8. reflexivity.
Qed.

Lemma adx_red_chain : forall t0 t1 t2 t3 A h0 l0 r c0 u0 c1 h1 l1 t0' o0 u1 c2
    h2 l2 t1' o1 u2 c3 h3 l3 t2' o2 u3 c4 t3' o3,
  mul64 (wmul qInvNeg t0) q0 = (h0, l0) -> add64 l0 t0 0 = (r, c0) ->
  add64 h0 t1 c0 = (u0, c1) ->
  mul64 (wmul qInvNeg t0) q1 = (h1, l1) -> add64 u0 l1 0 = (t0', o0) ->
  add64 h1 t2 c1 = (u1, c2) ->
  mul64 (wmul qInvNeg t0) q2 = (h2, l2) -> add64 u1 l2 o0 = (t1', o1) ->
  add64 h2 t3 c2 = (u2, c3) ->
  mul64 (wmul qInvNeg t0) q3 = (h3, l3) -> add64 u2 l3 o1 = (t2', o2) ->
  add64 h3 0 c3 = (u3, c4) -> add64 u3 A o2 = (t3', o3) ->
  adx_red (t0, t1, t2, t3) A = (t0', t1', t2', t3') /\ limbs_ok (t0', t1', t2', t3').
Proof.
  intros * M0 E0 E1 M1 E2 E3 M2 E4 E5 M3 E6 E7 E8. split.
  - unfold adx_red. cbv zeta.
    rewrite M0, E0, E1, M1, E2, E3, M2, E4, E5, M3, E6, E7, E8. reflexivity.
  - cbn [limbs_ok]. repeat split; eapply add64_u64; eassumption.
Qed.

(* ------------------------------------------------------------------ *)
(** * Linear invariants (p_j = y * x_j, n_j = m * q_j generalised) *)

Lemma mul0_adx_arith : forall x0 x1 x2 x3 p0 p1 p2 p3 hA0 lA0 hA1 lA1 hA2 lA2 hA3 lA3
    t1 o0 t2 o1 t3 o2 A o3,
  0 <= x0 < W -> 0 <= x1 < W -> 0 <= x2 < W -> 0 <= x3 < W ->
  0 <= p0 <= (W - 1) * x0 -> 0 <= p1 <= (W - 1) * x1 ->
  0 <= p2 <= (W - 1) * x2 -> 0 <= p3 <= (W - 1) * x3 ->
  hA0 * W + lA0 = p0 -> hA1 * W + lA1 = p1 -> hA2 * W + lA2 = p2 -> hA3 * W + lA3 = p3 ->
  0 <= lA0 < W -> 0 <= lA1 < W -> 0 <= lA2 < W -> 0 <= lA3 < W ->
  o0 * W + t1 = hA0 + lA1 + 0 -> 0 <= t1 < W ->
  o1 * W + t2 = hA1 + lA2 + o0 -> 0 <= t2 < W ->
  o2 * W + t3 = hA2 + lA3 + o1 -> 0 <= t3 < W ->
  o3 * W + A = hA3 + 0 + o2 -> 0 <= A < W -> 0 <= o3 ->
  lA0 + W * (t1 + W * (t2 + W * t3)) + A * (W * (W * (W * W)))
    = p0 + W * (p1 + W * (p2 + W * p3)).
Proof. intros. unfold W in *. lia. Qed.

Lemma mulN_adx_arith : forall x0 x1 x2 x3 p0 p1 p2 p3 hA0 lA0 hA1 lA1 hA2 lA2 hA3 lA3
    t0 t1 t2 t3 s0 o0 v1 c0 s1 o1 v2 c1 s2 o2 v3 c2 s3 o3 A' c3 A o4,
  0 <= x0 < W -> 0 <= x1 < W -> 0 <= x2 < W -> 0 <= x3 < W ->
  0 <= p0 <= (W - 1) * x0 -> 0 <= p1 <= (W - 1) * x1 ->
  0 <= p2 <= (W - 1) * x2 -> 0 <= p3 <= (W - 1) * x3 ->
  hA0 * W + lA0 = p0 -> hA1 * W + lA1 = p1 -> hA2 * W + lA2 = p2 -> hA3 * W + lA3 = p3 ->
  0 <= lA0 < W -> 0 <= lA1 < W -> 0 <= lA2 < W -> 0 <= lA3 < W ->
  0 <= t0 < W -> 0 <= t1 < W -> 0 <= t2 < W -> 0 <= t3 < W ->
  o0 * W + s0 = t0 + lA0 + 0 -> 0 <= s0 < W ->
  c0 * W + v1 = t1 + hA0 + 0 -> 0 <= v1 < W ->
  o1 * W + s1 = v1 + lA1 + o0 -> 0 <= s1 < W ->
  c1 * W + v2 = t2 + hA1 + c0 -> 0 <= v2 < W ->
  o2 * W + s2 = v2 + lA2 + o1 -> 0 <= s2 < W ->
  c2 * W + v3 = t3 + hA2 + c1 -> 0 <= v3 < W ->
  o3 * W + s3 = v3 + lA3 + o2 -> 0 <= s3 < W ->
  c3 * W + A' = hA3 + 0 + c2 -> 0 <= A' < W -> 0 <= c3 ->
  o4 * W + A = A' + 0 + o3 -> 0 <= A < W -> 0 <= o4 ->
  s0 + W * (s1 + W * (s2 + W * s3)) + A * (W * (W * (W * W)))
    = t0 + W * (t1 + W * (t2 + W * t3)) + (p0 + W * (p1 + W * (p2 + W * p3))).
Proof. intros. unfold W in *. lia. Qed.

Lemma red_adx_arith : forall t0 t1 t2 t3 A n0 n1 n2 n3
    h0 l0 h1 l1 h2 l2 h3 l3 Cq r c0 u0 c1 t0' o0 u1 c2 t1' o1 u2 c3 t2' o2 u3 c4 t3' o3,
  h0 * W + l0 = n0 -> h1 * W + l1 = n1 -> h2 * W + l2 = n2 -> h3 * W + l3 = n3 ->
  0 <= l0 < W -> 0 <= l1 < W -> 0 <= l2 < W -> 0 <= l3 < W ->
  0 <= t0 < W -> 0 <= t1 < W -> 0 <= t2 < W -> 0 <= t3 < W ->
  Cq * W = n0 + t0 ->
  c0 * W + r = l0 + t0 + 0 -> 0 <= r < W ->
  c1 * W + u0 = h0 + t1 + c0 -> 0 <= u0 < W ->
  o0 * W + t0' = u0 + l1 + 0 -> 0 <= t0' < W ->
  c2 * W + u1 = h1 + t2 + c1 -> 0 <= u1 < W ->
  o1 * W + t1' = u1 + l2 + o0 -> 0 <= t1' < W ->
  c3 * W + u2 = h2 + t3 + c2 -> 0 <= u2 < W ->
  o2 * W + t2' = u2 + l3 + o1 -> 0 <= t2' < W ->
  c4 * W + u3 = h3 + 0 + c3 -> 0 <= u3 < W ->
  o3 * W + t3' = u3 + A + o2 -> 0 <= t3' < W ->
  0 <= c4 -> 0 <= o3 ->
  t0 + W * (t1 + W * (t2 + W * t3)) + A * (W * (W * (W * W)))
    + (n0 + W * (n1 + W * (n2 + W * n3))) < W * (W * (W * (W * W))) ->
  (t0' + W * (t1' + W * (t2' + W * t3'))) * W
    = t0 + W * (t1 + W * (t2 + W * t3)) + A * (W * (W * (W * W)))
      + (n0 + W * (n1 + W * (n2 + W * n3))).
Proof. intros. unfold W in *. lia. Qed.

(* ------------------------------------------------------------------ *)
(** * Specifications of the blocks *)

Lemma adx_mul0_spec : forall y x, u64 y -> limbs_ok x ->
  limbs_ok (fst (adx_mul0 y x)) /\ u64 (snd (adx_mul0 y x)) /\
  val (fst (adx_mul0 y x)) + snd (adx_mul0 y x) * WW = y * val x.
Proof.
  intros y [[[x0 x1] x2] x3] Hy (X0 & X1 & X2 & X3). unfold adx_mul0.
  destruct (mul64 y x0) as [hA0 lA0] eqn:P0. spec_mul P0 UhA0 UlA0.
  destruct (mul64 y x1) as [hA1 lA1] eqn:P1. spec_mul P1 UhA1 UlA1.
  destruct (add64 hA0 lA1 0) as [t1 o0] eqn:E1. spec_add E1 Ut1 O0.
  destruct (mul64 y x2) as [hA2 lA2] eqn:P2. spec_mul P2 UhA2 UlA2.
  destruct (add64 hA1 lA2 o0) as [t2 o1] eqn:E2. spec_add E2 Ut2 O1.
  destruct (mul64 y x3) as [hA3 lA3] eqn:P3. spec_mul P3 UhA3 UlA3.
  destruct (add64 hA2 lA3 o1) as [t3 o2] eqn:E3. spec_add E3 Ut3 O2.
  destruct (add64 hA3 0 o2) as [A o3] eqn:E4. spec_add E4 UA O3.
  cbn [fst snd limbs_ok]. rewrite !val_eq, WW_eq.
  split; [ tauto | ]. split; [ exact UA | ].
  rewrite (mul0_adx_arith x0 x1 x2 x3 (y * x0) (y * x1) (y * x2) (y * x3)
             hA0 lA0 hA1 lA1 hA2 lA2 hA3 lA3 t1 o0 t2 o1 t3 o2 A o3);
    try (apply u64_prod_le; assumption); try assumption; try (unfold u64 in *; lia).
Qed.

Lemma adx_mulN_spec : forall y x t, u64 y -> limbs_ok x -> limbs_ok t ->
  limbs_ok (fst (adx_mulN y x t)) /\ u64 (snd (adx_mulN y x t)) /\
  val (fst (adx_mulN y x t)) + snd (adx_mulN y x t) * WW = val t + y * val x.
Proof.
  intros y [[[x0 x1] x2] x3] [[[t0 t1] t2] t3] Hy (X0 & X1 & X2 & X3) (T0 & T1 & T2 & T3).
  unfold adx_mulN.
  destruct (mul64 y x0) as [hA0 lA0] eqn:P0. spec_mul P0 UhA0 UlA0.
  destruct (add64 t0 lA0 0) as [s0 o0] eqn:G0. spec_add G0 Us0 O0.
  destruct (add64 t1 hA0 0) as [v1 c0] eqn:G1. spec_add G1 Uv1 K0.
  destruct (mul64 y x1) as [hA1 lA1] eqn:P1. spec_mul P1 UhA1 UlA1.
  destruct (add64 v1 lA1 o0) as [s1 o1] eqn:G2. spec_add G2 Us1 O1.
  destruct (add64 t2 hA1 c0) as [v2 c1] eqn:G3. spec_add G3 Uv2 K1.
  destruct (mul64 y x2) as [hA2 lA2] eqn:P2. spec_mul P2 UhA2 UlA2.
  destruct (add64 v2 lA2 o1) as [s2 o2] eqn:G4. spec_add G4 Us2 O2.
  destruct (add64 t3 hA2 c1) as [v3 c2] eqn:G5. spec_add G5 Uv3 K2.
  destruct (mul64 y x3) as [hA3 lA3] eqn:P3. spec_mul P3 UhA3 UlA3.
  destruct (add64 v3 lA3 o2) as [s3 o3] eqn:G6. spec_add G6 Us3 O3.
  destruct (add64 hA3 0 c2) as [A' c3] eqn:G7. spec_add G7 UA' K3.
  destruct (add64 A' 0 o3) as [A o4] eqn:G8. spec_add G8 UA O4.
  cbn [fst snd limbs_ok]. rewrite !val_eq, WW_eq.
  split; [ tauto | ]. split; [ exact UA | ].
  rewrite (mulN_adx_arith x0 x1 x2 x3 (y * x0) (y * x1) (y * x2) (y * x3)
             hA0 lA0 hA1 lA1 hA2 lA2 hA3 lA3 t0 t1 t2 t3
             s0 o0 v1 c0 s1 o1 v2 c1 s2 o2 v3 c2 s3 o3 A' c3 A o4);
    try (apply u64_prod_le; assumption); try assumption; try (unfold u64 in *; lia).
Qed.

Lemma adx_red_spec : forall t A, limbs_ok t -> u64 A ->
  val t + A * WW + (W - 1) * q < W * WW ->
  exists m, u64 m /\ limbs_ok (adx_red t A) /\
    val (adx_red t A) * W = val t + A * WW + m * q.
Proof.
  intros [[[z0 z1] z2] z3] A (Z0 & Z1 & Z2 & Z3) UA Hb.
  unfold adx_red. cbv zeta. rewrite mont_m_comm.
  destruct (mont_C_spec z0 Z0) as (Hm & UCa & Ea).
  remember (wmul z0 qInvNeg) as m eqn:Em. clear Em.
  remember (madd0 m q0 z0) as Cq eqn:ECq. clear ECq.
  destruct (mul64 m q0) as [h0 l0] eqn:M0. spec_mul M0 Uh0 Ul0.
  destruct (add64 l0 z0 0) as [r c0] eqn:E0. spec_add E0 Ur K0.
  destruct (add64 h0 z1 c0) as [u0 c1] eqn:E1. spec_add E1 Uu0 K1.
  destruct (mul64 m q1) as [h1 l1] eqn:M1. spec_mul M1 Uh1 Ul1.
  destruct (add64 u0 l1 0) as [t0' o0] eqn:E2. spec_add E2 Ut0 O0.
  destruct (add64 h1 z2 c1) as [u1 c2] eqn:E3. spec_add E3 Uu1 K2.
  destruct (mul64 m q2) as [h2 l2] eqn:M2. spec_mul M2 Uh2 Ul2.
  destruct (add64 u1 l2 o0) as [t1' o1] eqn:E4. spec_add E4 Ut1 O1.
  destruct (add64 h2 z3 c2) as [u2 c3] eqn:E5. spec_add E5 Uu2 K3.
  destruct (mul64 m q3) as [h3 l3] eqn:M3. spec_mul M3 Uh3 Ul3.
  destruct (add64 u2 l3 o1) as [t2' o2] eqn:E6. spec_add E6 Ut2 O2.
  destruct (add64 h3 0 c3) as [u3 c4] eqn:E7. spec_add E7 Uu3 K4.
  destruct (add64 u3 A o2) as [t3' o3] eqn:E8. spec_add E8 Ut3 O3.
  exists m. split; [ exact Hm | ].
  cbn [limbs_ok]. split; [ tauto | ].
  rewrite !val_eq in *. rewrite WW_eq in *.
  assert (HN : m * q0 + W * (m * q1 + W * (m * q2 + W * (m * q3))) = m * q).
  { rewrite qEl_eq. ring. }
  assert (HNb : 0 <= m * q <= (W - 1) * q).
  { pose proof q_pos'. unfold u64 in Hm. split.
    - apply Z.mul_nonneg_nonneg; lia.
    - apply Z.mul_le_mono_nonneg_r; lia. }
  rewrite (red_adx_arith z0 z1 z2 z3 A (m * q0) (m * q1) (m * q2) (m * q3)
             h0 l0 h1 l1 h2 l2 h3 l3 Cq r c0 u0 c1 t0' o0 u1 c2 t1' o1 u2 c3 t2' o2
             u3 c4 t3' o3);
    try assumption; try (unfold u64 in *; lia).
Qed.

(* ------------------------------------------------------------------ *)
(** * Rounds and the whole multiplication *)

Definition adx_round0 (y : Z) (x : el) : el :=
  adx_red (fst (adx_mul0 y x)) (snd (adx_mul0 y x)).
Definition adx_roundN (y : Z) (x t : el) : el :=
  adx_red (fst (adx_mulN y x t)) (snd (adx_mulN y x t)).

Definition adx_mul (x y : el) : el :=
  let '(y0, y1, y2, y3) := y in
  cond_sub_q (adx_roundN y3 x (adx_roundN y2 x (adx_roundN y1 x (adx_round0 y0 x)))).

Lemma round_bound : forall V T P N X,
  V * W = T + P + N -> T < X + q -> 0 <= P <= (W - 1) * X -> 0 <= N <= (W - 1) * q ->
  V < X + q.
Proof. intros. unfold W in *. lia. Qed.

Lemma red_fits : forall S T P X,
  S = T + P -> T < X + q -> 0 <= P <= (W - 1) * X -> X < q ->
  S + (W - 1) * q < W * WW.
Proof. intros. pose proof q_two_lt_R. rewrite WW_val in *. unfold W in *. lia. Qed.

Lemma prod_bound : forall y X, u64 y -> 0 <= X -> 0 <= y * X <= (W - 1) * X.
Proof.
  unfold u64. intros y X Hy HX. split.
  - apply Z.mul_nonneg_nonneg; lia.
  - apply Z.mul_le_mono_nonneg_r; lia.
Qed.

Lemma adx_roundN_spec : forall y x t, u64 y -> canon x -> limbs_ok t ->
  val t < val x + q ->
  exists m, limbs_ok (adx_roundN y x t) /\
    val (adx_roundN y x t) * W = val t + y * val x + m * q /\
    val (adx_roundN y x t) < val x + q.
Proof.
  intros y x t Hy Cx Lt Bt. unfold adx_roundN.
  pose proof (canon_val _ Cx) as Vx.
  destruct (adx_mulN_spec y x t Hy (canon_limbs _ Cx) Lt) as (Ls & UA & Es).
  pose proof (prod_bound y (val x) Hy (proj1 Vx)) as HP.
  destruct (adx_red_spec _ _ Ls UA) as (m & Um & Lr & Er).
  { apply (red_fits _ (val t) (y * val x) (val x)); [ exact Es | exact Bt | exact HP | lia ]. }
  exists m. split; [ exact Lr | ]. rewrite Es in Er. split; [ exact Er | ].
  apply (round_bound _ (val t) (y * val x) (m * q) (val x)); [ lia | exact Bt | exact HP | ].
  apply prod_bound; [ exact Um | pose proof q_pos'; lia ].
Qed.

Lemma adx_round0_spec : forall y x, u64 y -> canon x ->
  exists m, limbs_ok (adx_round0 y x) /\
    val (adx_round0 y x) * W = y * val x + m * q /\
    val (adx_round0 y x) < val x + q.
Proof.
  intros y x Hy Cx. unfold adx_round0.
  pose proof (canon_val _ Cx) as Vx. pose proof q_pos' as Hq.
  destruct (adx_mul0_spec y x Hy (canon_limbs _ Cx)) as (Ls & UA & Es).
  pose proof (prod_bound y (val x) Hy (proj1 Vx)) as HP.
  destruct (adx_red_spec _ _ Ls UA) as (m & Um & Lr & Er).
  { apply (red_fits _ 0 (y * val x) (val x)); [ lia | lia | exact HP | lia ]. }
  exists m. split; [ exact Lr | ]. rewrite Es in Er. split; [ exact Er | ].
  apply (round_bound _ 0 (y * val x) (m * q) (val x)); [ lia | lia | exact HP | ].
  apply prod_bound; [ exact Um | lia ].
Qed.

Theorem adx_mul_correct : forall x y, canon x -> limbs_ok y ->
  canon (adx_mul x y) /\ val (adx_mul x y) * WW ==q val x * val y.
Proof.
  intros x [[[y0 y1] y2] y3] Cx (Y0 & Y1 & Y2 & Y3). unfold adx_mul.
  pose proof (canon_val _ Cx) as Vx.
  destruct (adx_round0_spec y0 x Y0 Cx) as (m0 & L1 & E1 & B1).
  remember (adx_round0 y0 x) as T1 eqn:ET1. clear ET1.
  destruct (adx_roundN_spec y1 x T1 Y1 Cx L1 B1) as (m1 & L2 & E2 & B2).
  remember (adx_roundN y1 x T1) as T2 eqn:ET2. clear ET2.
  destruct (adx_roundN_spec y2 x T2 Y2 Cx L2 B2) as (m2 & L3 & E3 & B3).
  remember (adx_roundN y2 x T2) as T3 eqn:ET3. clear ET3.
  destruct (adx_roundN_spec y3 x T3 Y3 Cx L3 B3) as (m3 & L4 & E4 & B4).
  remember (adx_roundN y3 x T3) as T4 eqn:ET4. clear ET4.
  destruct (cond_sub_q_spec T4 L4 ltac:(lia)) as (Hc & _ & Hv).
  split; [ exact Hc | ].
  rewrite Hv.
  apply (eqq_intro _ _ (m0 + W * (m1 + W * (m2 + W * m3)))).
  rewrite (val_eq y0 y1 y2 y3).
  remember (val x) as X eqn:EX. clear EX.
  remember (val T4) as V4. remember (val T3) as V3.
  remember (val T2) as V2. remember (val T1) as V1.
  rewrite WW_eq. unfold W in *. lia.
Qed.

(* the canonical Montgomery product is unique *)
Theorem adx_mul_eq : forall x y, canon x -> canon y -> adx_mul x y = mulGeneric x y.
Proof.
  intros x y Cx Cy.
  destruct (adx_mul_correct x y Cx (canon_limbs _ Cy)) as (Ca & Ea).
  destruct (mul_correct_gen x y (canon_limbs _ Cx) Cy) as (Cg & Eg).
  apply val_inj; [ apply canon_limbs; exact Ca | apply canon_limbs; exact Cg | ].
  apply eqq_small_eq; [ apply canon_val; exact Ca | apply canon_val; exact Cg | ].
  apply eqq_R_cancel in Ea. apply eqq_R_cancel in Eg. rewrite Ea, Eg. reflexivity.
Qed.

(* ------------------------------------------------------------------ *)
(** * Symbolic execution *)

(* XORQ AX, AX; MOVQ 0(R11), DX; ...; ADOXQ AX, BP *)
Ltac do_mul0 TA :=
  let hA0 := fresh "h" in let lA0 := fresh "l" in let hA1 := fresh "h" in let lA1 := fresh "l" in
  let hA2 := fresh "h" in let lA2 := fresh "l" in let hA3 := fresh "h" in let lA3 := fresh "l" in
  let t1 := fresh "t" in let t2 := fresh "t" in let t3 := fresh "t" in let A := fresh "A" in
  let o0 := fresh "o" in let o1 := fresh "o" in let o2 := fresh "o" in let o3 := fresh "o" in
  let P0 := fresh "P" in let P1 := fresh "P" in let P2 := fresh "P" in let P3 := fresh "P" in
  let E1 := fresh "E" in let E2 := fresh "E" in let E3 := fresh "E" in let E4 := fresh "E" in
  step0; step0;
  step2 hA0 lA0 P0; step2 hA1 lA1 P1; step2 t1 o0 E1;
  step2 hA2 lA2 P2; step2 t2 o1 E2; step2 hA3 lA3 P3; step2 t3 o2 E3;
  step0; step2 A o3 E4;
  pose proof (adx_mul0_chain _ _ _ _ _ _ _ _ _ _ _ _ _ _ _ _ _ _ _ _ _
                P0 P1 E1 P2 E2 P3 E3 E4) as TA;
  clear P0 P1 E1 P2 E2 P3 E3 E4.

(* XORQ AX, AX; MOVQ 8i(R11), DX; ...; ADCXQ AX, BP; ADOXQ AX, BP *)
Ltac do_mulN SA :=
  let hA0 := fresh "h" in let lA0 := fresh "l" in let hA1 := fresh "h" in let lA1 := fresh "l" in
  let hA2 := fresh "h" in let lA2 := fresh "l" in let hA3 := fresh "h" in let lA3 := fresh "l" in
  let s0 := fresh "s" in let s1 := fresh "s" in let s2 := fresh "s" in let s3 := fresh "s" in
  let v1 := fresh "v" in let v2 := fresh "v" in let v3 := fresh "v" in
  let A' := fresh "A" in let A := fresh "A" in
  let o0 := fresh "o" in let o1 := fresh "o" in let o2 := fresh "o" in let o3 := fresh "o" in
  let o4 := fresh "o" in
  let c0 := fresh "c" in let c1 := fresh "c" in let c2 := fresh "c" in let c3 := fresh "c" in
  let Q0 := fresh "Q" in let Q1 := fresh "Q" in let Q2 := fresh "Q" in let Q3 := fresh "Q" in
  let G0 := fresh "G" in let G1 := fresh "G" in let G2 := fresh "G" in let G3 := fresh "G" in
  let G4 := fresh "G" in let G5 := fresh "G" in let G6 := fresh "G" in let G7 := fresh "G" in
  let G8 := fresh "G" in
  step0; step0;
  step2 hA0 lA0 Q0; step2 s0 o0 G0; step2 v1 c0 G1;
  step2 hA1 lA1 Q1; step2 s1 o1 G2; step2 v2 c1 G3;
  step2 hA2 lA2 Q2; step2 s2 o2 G4; step2 v3 c2 G5;
  step2 hA3 lA3 Q3; step2 s3 o3 G6;
  step0; step2 A' c3 G7; step2 A o4 G8;
  pose proof (adx_mulN_chain _ _ _ _ _ _ _ _ _ _ _ _ _ _ _ _ _ _ _ _ _ _ _ _ _ _ _ _ _ _ _ _ _ _ _
                Q0 G0 G1 Q1 G2 G3 Q2 G4 G5 Q3 G6 G7 G8) as SA;
  clear Q0 G0 G1 Q1 G2 G3 Q2 G4 G5 Q3 G6 G7 G8.

(* MOVQ qInv0<>(SB), DX; IMULQ R14, DX; XORQ AX, AX; ...; ADOXQ BP, BX *)
Ltac do_red R L :=
  let h0 := fresh "h" in let l0 := fresh "l" in let h1 := fresh "h" in let l1 := fresh "l" in
  let h2 := fresh "h" in let l2 := fresh "l" in let h3 := fresh "h" in let l3 := fresh "l" in
  let r := fresh "lo" in let u0 := fresh "u" in let u1 := fresh "u" in let u2 := fresh "u" in
  let u3 := fresh "u" in
  let c0 := fresh "c" in let c1 := fresh "c" in let c2 := fresh "c" in let c3 := fresh "c" in
  let c4 := fresh "c" in
  let o0 := fresh "o" in let o1 := fresh "o" in let o2 := fresh "o" in let o3 := fresh "o" in
  let t0 := fresh "t" in let t1 := fresh "t" in let t2 := fresh "t" in let t3 := fresh "t" in
  let M0 := fresh "M" in let M1 := fresh "M" in let M2 := fresh "M" in let M3 := fresh "M" in
  let E0 := fresh "E" in let E1 := fresh "E" in let E2 := fresh "E" in let E3 := fresh "E" in
  let E4 := fresh "E" in let E5 := fresh "E" in let E6 := fresh "E" in let E7 := fresh "E" in
  let E8 := fresh "E" in
  step0; step0; step0;
  step2 h0 l0 M0; step2 r c0 E0; step0; step2 u0 c1 E1;
  step2 h1 l1 M1; step2 t0 o0 E2; step2 u1 c2 E3;
  step2 h2 l2 M2; step2 t1 o1 E4; step2 u2 c3 E5;
  step2 h3 l3 M3; step2 t2 o2 E6;
  step0; step2 u3 c4 E7; step2 t3 o3 E8;
  destruct (adx_red_chain _ _ _ _ _ _ _ _ _ _ _ _ _ _ _ _ _ _ _ _ _ _ _ _ _ _ _ _ _ _ _
              M0 E0 E1 M1 E2 E3 M2 E4 E5 M3 E6 E7 E8) as [R L];
  clear M0 E0 E1 M1 E2 E3 M2 E4 E5 M3 E6 E7 E8.

(* the ADX body, from "MOVQ x+8(FP), SI" to RET *)
Ltac mul_adx_body Cx Cy :=
  let TA1 := fresh "TA" in let SA2 := fresh "SA" in let SA3 := fresh "SA" in
  let SA4 := fresh "SA" in
  let R1 := fresh "R" in let R2 := fresh "R" in let R3 := fresh "R" in let R4 := fresh "R" in
  let L1 := fresh "L" in let L2 := fresh "L" in let L3 := fresh "L" in let L4 := fresh "L" in
  let r0 := fresh "z" in let r1 := fresh "z" in let r2 := fresh "z" in let r3 := fresh "z" in
  let ER := fresh "ER" in
  do 6 step0;
  do_mul0 TA1; do_red R1 L1;
  do_mulN SA2; do_red R2 L2;
  do_mulN SA3; do_red R3 L3;
  do_mulN SA4; do_red R4 L4;
  do_reduce L4 r0 r1 r2 r3 ER;
  do 5 step0; asm_finish;
  split;
  [ rewrite upd4_same, <- (adx_mul_eq _ _ Cx Cy);
    unfold adx_mul, adx_roundN, adx_round0;
    rewrite TA1; cbn [fst snd]; rewrite R1, SA2; cbn [fst snd];
    rewrite R2, SA3; cbn [fst snd]; rewrite R3, SA4; cbn [fst snd];
    rewrite R4; symmetry; exact ER
  | let lq := fresh "lq" in let Hlq := fresh "Hlq" in
    intros lq Hlq; apply upd4_other; exact Hlq ].

Lemma asm_mul_ok : forall adx (lres lx ly : loc) (st : state) (x y : el),
  canon x -> canon y ->
  args st = [VP lres; VP lx; VP ly] -> mem st lx = x -> mem st ly = y ->
  ok (fun st' => mem st' lres = mulGeneric x y /\
                 (forall l, l <> lres -> mem st' l = mem st l))
     (run adx FfAsm.asm_mul st).
Proof.
  intros adx lres lx ly st [[[x0 x1] x2] x3] [[[y0 y1] y2] y3] Cx Cy Ha Hx Hy.
  open_state st. destruct adx; asm_start FfAsm.asm_mul.
  - (* supportAdx = true *)
    do 2 step0. mul_adx_body Cx Cy.
  - (* supportAdx = false: CALL ·_mulGeneric *)
    do 2 step0. take_jump FfAsm.asm_mul.
    do 7 step0. asm_finish. rewrite Hx, Hy.
    split.
    + apply put_same.
    + intros l Hl. apply put_other. exact Hl.
Qed.

(* build tag amd64_adx *)
Lemma asm_adx_mul_ok : forall adx (lres lx ly : loc) (st : state) (x y : el),
  canon x -> canon y ->
  args st = [VP lres; VP lx; VP ly] -> mem st lx = x -> mem st ly = y ->
  ok (fun st' => mem st' lres = mulGeneric x y /\
                 (forall l, l <> lres -> mem st' l = mem st l))
     (run adx FfAsm.asm_adx_mul st).
Proof.
  intros adx lres lx ly st [[[x0 x1] x2] x3] [[[y0 y1] y2] y3] Cx Cy Ha Hx Hy.
  open_state st. asm_start FfAsm.asm_adx_mul.
  mul_adx_body Cx Cy.
Qed.

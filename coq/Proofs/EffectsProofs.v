(* Soundness of the effect analyses of Model/Effects.v, generic over any
   function table:
     (a) pure_fn_sound          frame property of one call
     (b) history_pure           any finite history of calls
     (c) schedule_independent, race_free   interleavings of n threads
     (d) receiver_stored_sound  C19
   plus non-vacuity examples.  No axioms. *)
From Coq Require Import String List Bool Arith ZArith Lia.
Import ListNotations.
From Verif Require Import Model.Effects.
Open Scope string_scope.

(* ------------------------------------------------------------------ *)
(** * Basic facts about the boolean helpers *)

Lemma root_eqb_eq : forall a b, root_eqb a b = true -> a = b.
Proof.
  destruct a, b; simpl; intros H; try discriminate; try reflexivity.
  - apply Nat.eqb_eq in H; subst; reflexivity.
  - apply String.eqb_eq in H; subst; reflexivity.
  - apply Nat.eqb_eq in H; subst; reflexivity.
Qed.

Lemma memr_In : forall r l, memr r l = true -> In r l.
Proof.
  unfold memr; intros r l H. apply existsb_exists in H.
  destruct H as [x [Hin He]]. apply root_eqb_eq in He; subst; assumption.
Qed.

Lemma inclr_incl : forall a b, inclr a b = true -> incl a b.
Proof.
  unfold inclr; intros a b H r Hr.
  rewrite forallb_forall in H. apply memr_In, H, Hr.
Qed.

(* ------------------------------------------------------------------ *)
(** * Trace lemmas *)

Lemma writes_of_app : forall a b, writes_of (a ++ b) = (writes_of a ++ writes_of b)%list.
Proof. induction a as [|[c|c v|f rs] a IH]; intros b; simpl; rewrite ?IH; reflexivity. Qed.
Lemma reads_of_app : forall a b, reads_of (a ++ b) = (reads_of a ++ reads_of b)%list.
Proof. induction a as [|[c|c v|f rs] a IH]; intros b; simpl; rewrite ?IH; reflexivity. Qed.
Lemma writes_of_reads : forall cs, writes_of (map EvR cs) = [].
Proof. induction cs; simpl; auto. Qed.
Lemma reads_of_reads : forall cs, reads_of (map EvR cs) = cs.
Proof. induction cs; simpl; congruence. Qed.
Lemma writes_of_writes : forall cs, writes_of (ev_writes cs) = map fst cs.
Proof. induction cs; simpl; congruence. Qed.
Lemma reads_of_writes : forall cs, reads_of (ev_writes cs) = [].
Proof. induction cs; simpl; auto. Qed.

Lemma upd_other : forall h c v c', c' <> c -> upd h c v c' = h c'.
Proof. intros. unfold upd. destruct (Nat.eqb_spec c' c); congruence. Qed.
Lemma upd_same : forall h c v, upd h c v c = v.
Proof. intros. unfold upd. rewrite Nat.eqb_refl. reflexivity. Qed.

Lemma wr_all_frame : forall cs h c, ~ In c (map fst cs) -> wr_all h cs c = h c.
Proof.
  unfold wr_all. induction cs as [|[c0 v0] cs IH]; intros h c Hn; simpl in *; [reflexivity|].
  rewrite IH by tauto. apply upd_other. intros ->. tauto.
Qed.

Lemma apply_tr_app : forall a b h, apply_tr (a ++ b) h = apply_tr b (apply_tr a h).
Proof. induction a as [|[c|c v|f rs] a IH]; intros b h; simpl; auto. Qed.

Lemma apply_tr_frame : forall tr h c, ~ In c (writes_of tr) -> apply_tr tr h c = h c.
Proof.
  induction tr as [|[c0|c0 v|f rs] tr IH]; intros h c Hn; simpl in *; auto.
  rewrite IH by tauto. apply upd_other. intros ->. tauto.
Qed.

Lemma apply_tr_ext : forall tr h1 h2, (forall c, h1 c = h2 c) ->
    forall c, apply_tr tr h1 c = apply_tr tr h2 c.
Proof.
  induction tr as [|[c0|c0 v|f rs] tr IH]; intros h1 h2 He c; simpl; auto.
  apply IH. intros c'. unfold upd. destruct (Nat.eqb c' c0); auto.
Qed.

Lemma apply_tr_writes : forall cs h c, apply_tr (ev_writes cs) h c = wr_all h cs c.
Proof.
  unfold wr_all. induction cs as [|[c0 v0] cs IH]; intros h c; simpl; auto.
Qed.

Section Sound.
  Variable tbl : fn_table.
  Variable gl : string -> region.

  Notation den := (den gl).
  Notation dens := (dens gl).
  Notation exec := (exec tbl gl).

  (* denotation of non-local roots (locals denote nothing) *)
  Definition densG (ps : list region) (rs : list root) : region := dens ps lempty rs.

  (* cells that a call can legitimately reach: its arguments and the globals *)
  Definition acc (ps : list region) : region :=
    fun c => (exists i, denP ps i c) \/ (exists g, gl g c).

  (* invariant on the local environment: every local denotes cells that are
     fresh w.r.t. the entry heap (>= nx0) or inside the hinted regions *)
  Definition linv (nx0 hi : nat) (ps : list region) (body0 : list instr)
             (le : nat -> region) : Prop :=
    forall k c, le k c -> nx0 <= c < hi \/ densG ps (hint_of body0 k) c.

  Lemma linv_mono : forall nx0 hi hi' ps body0 le,
      hi <= hi' -> linv nx0 hi ps body0 le -> linv nx0 hi' ps body0 le.
  Proof.
    intros nx0 hi hi' ps body0 le Hle H k c Hc.
    destruct (H k c Hc) as [Hf|Hd]; [left; lia|right; exact Hd].
  Qed.

  Lemma dens_mono : forall ps le a b c, incl a b -> dens ps le a c -> dens ps le b c.
  Proof. intros ps le a b c Hi [r [Hr Hd]]. exists r; split; auto. Qed.

  Lemma densG_app_l : forall ps a b c, densG ps a c -> densG ps (a ++ b) c.
  Proof. intros. eapply dens_mono; [|eassumption]. apply incl_appl, incl_refl. Qed.

  Lemma expand_sound : forall nx0 hi ps body0 le rs c,
      linv nx0 hi ps body0 le -> dens ps le rs c ->
      nx0 <= c < hi \/ densG ps (expands body0 rs) c.
  Proof.
    intros nx0 hi ps body0 le rs c Hinv [r [Hr Hd]].
    destruct r as [i|g|k|]; simpl in Hd.
    - right. exists (RParam i); split; [|exact Hd].
      unfold expands. apply in_flat_map. exists (RParam i); simpl; auto.
    - right. exists (RGlobal g); split; [|exact Hd].
      unfold expands. apply in_flat_map. exists (RGlobal g); simpl; auto.
    - destruct (Hinv k c Hd) as [Hf|[r' [Hr' Hd']]]; [left; exact Hf|].
      right. exists r'; split; [|exact Hd'].
      unfold expands. apply in_flat_map. exists (RLocal k); simpl; auto.
    - right. exists RUnknown; split; [|exact I].
      unfold expands. apply in_flat_map. exists RUnknown; simpl; auto.
  Qed.

  Lemma subst_sound : forall ps le args rs c,
      densG (map (fun a => dens ps le a) args) rs c ->
      dens ps le (substs args rs) c.
  Proof.
    intros ps le args rs c [r [Hr Hd]].
    destruct r as [i|g|k|]; simpl in Hd.
    - unfold denP in Hd. rewrite nth_error_map in Hd.
      destruct (nth_error args i) as [a|] eqn:Ha; simpl in Hd; [|contradiction].
      destruct Hd as [r' [Hr' Hd']]. exists r'; split; [|exact Hd'].
      unfold substs. apply in_flat_map. exists (RParam i); split; [exact Hr|].
      simpl. rewrite Ha. exact Hr'.
    - exists (RGlobal g); split; [|exact Hd].
      unfold substs. apply in_flat_map. exists (RGlobal g); simpl; auto.
    - contradiction.
    - exists RUnknown; split; [|exact I].
      unfold substs. apply in_flat_map. exists RUnknown; simpl; auto.
  Qed.

  (* hints of a call instruction in the body are part of hint_of *)
  Lemma hint_of_in : forall body0 b f args k h,
      In (b, ICall f args k h) body0 -> incl h (hint_of body0 k).
  Proof.
    intros body0 b f args k h Hin r Hr. unfold hint_of.
    apply in_flat_map. exists (b, ICall f args k h); split; [exact Hin|].
    simpl. rewrite Nat.eqb_refl. exact Hr.
  Qed.

  Lemma wbody_write_in : forall ws body0 b rs fld,
      In (b, IWrite rs fld) body0 -> incl (expands body0 rs) (wbody ws body0).
  Proof.
    intros ws body0 b rs fld Hin r Hr. unfold wbody.
    apply in_flat_map. exists (b, IWrite rs fld); split; [exact Hin|exact Hr].
  Qed.

  Lemma wbody_call_in : forall ws body0 b f args k h,
      In (b, ICall f args k h) body0 ->
      incl (expands body0 (substs args (ws f))) (wbody ws body0).
  Proof.
    intros ws body0 b f args k h Hin r Hr. unfold wbody.
    apply in_flat_map. exists (b, ICall f args k h); split; [exact Hin|exact Hr].
  Qed.

  Lemma rbody_ret_in : forall body0 b d rr,
      In (b, IReturn d rr) body0 -> incl (expands body0 rr) (rbody body0).
  Proof.
    intros body0 b d rr Hin r Hr. unfold rbody.
    apply in_flat_map. exists (b, IReturn d rr); split; [exact Hin|exact Hr].
  Qed.

  (* ---------------------------------------------------------------- *)
  (** ** Well-formedness extracted from [ok] *)

  Definition wf_body (m : nat) (body0 : list instr) : Prop :=
    forall i, In i body0 ->
      instr_ok tbl body0 i = true /\
      match snd i with ICall g _ _ _ => ok tbl m g = true | _ => True end.

  Lemma ok_S : forall m f, ok tbl (S m) f = true ->
      exists body, lookup tbl f = Some body /\ wf_body m body.
  Proof.
    intros m f H. simpl in H. destruct (lookup tbl f) as [body|]; [|discriminate].
    exists body; split; [reflexivity|].
    apply andb_true_iff in H. destruct H as [H1 H2].
    rewrite forallb_forall in H1, H2.
    intros i Hi; split; [apply H1, Hi|].
    specialize (H2 i Hi). destruct (snd i); auto.
  Qed.

  Lemma instr_known : forall body0 i, instr_ok tbl body0 i = true ->
      forallb known (roots_of (snd i)) = true.
  Proof. unfold instr_ok; intros body0 i H. apply andb_true_iff in H. tauto. Qed.

  Lemma densG_acc : forall ps rs c,
      forallb known rs = true -> densG ps rs c -> acc ps c.
  Proof.
    intros ps rs c Hk [r [Hr Hd]]. rewrite forallb_forall in Hk.
    specialize (Hk r Hr). destruct r as [i|g|k|]; simpl in *.
    - left; exists i; exact Hd.
    - right; exists g; exact Hd.
    - contradiction.
    - discriminate.
  Qed.

  Lemma hint_known : forall m body0 k, wf_body m body0 ->
      forallb known (hint_of body0 k) = true.
  Proof.
    intros m body0 k Hwf. apply forallb_forall. intros r Hr.
    unfold hint_of in Hr. apply in_flat_map in Hr. destruct Hr as [i [Hi Hr]].
    destruct (Hwf i Hi) as [Hok _]. apply instr_known in Hok.
    destruct i as [b o]; simpl in *. destruct o; try contradiction.
    destruct (Nat.eqb k0 k); [|contradiction].
    simpl in Hok. rewrite forallb_app in Hok. apply andb_true_iff in Hok.
    destruct Hok as [_ Hok]. rewrite forallb_forall in Hok. apply Hok, Hr.
  Qed.

  Lemma dens_acc : forall m nx0 hi ps body0 le rs c,
      wf_body m body0 -> linv nx0 hi ps body0 le ->
      forallb known rs = true -> dens ps le rs c -> nx0 <= c < hi \/ acc ps c.
  Proof.
    intros m nx0 hi ps body0 le rs c Hwf Hinv Hk [r [Hr Hd]].
    rewrite forallb_forall in Hk. specialize (Hk r Hr).
    destruct r as [i|g|k|]; simpl in *.
    - right; left; exists i; exact Hd.
    - right; right; exists g; exact Hd.
    - destruct (Hinv k c Hd) as [Hf|Hh]; [left; exact Hf|right].
      eapply densG_acc; [|exact Hh]. eapply hint_known; eassumption.
    - discriminate.
  Qed.

  (* ---------------------------------------------------------------- *)
  (** ** The specification of a call and of a body *)

  (* [post nx0 ps W Rr s s' tr ret]: relative to the entry allocation pointer
     nx0, only cells denoted by the non-local roots W changed among the old
     cells; the returned cells are fresh (allocated by this run) or inside
     Rr; writes go to fresh cells or W; all accesses go to fresh cells,
     arguments or globals. *)
  Definition post (nx0 : nat) (ps : list region) (W Rr : list root)
             (s s' : st) (tr : list event) (ret : option (region * region)) : Prop :=
    sn s <= sn s' /\
    (forall c, c < nx0 -> ~ densG ps W c -> sh s' c = sh s c) /\
    (forall D R, ret = Some (D, R) -> forall c, R c -> nx0 <= c < sn s' \/ densG ps Rr c) /\
    (forall c, In c (writes_of tr) -> nx0 <= c < sn s' \/ densG ps W c) /\
    (forall c, In c ((reads_of tr ++ writes_of tr)%list) -> nx0 <= c < sn s' \/ acc ps c).

  Definition spec (m : nat) (f : string) : Prop :=
    forall n ps h nx body s' tr ret,
      lookup tbl f = Some body ->
      exec n ps (mkst h nx lempty) body s' tr ret ->
      post nx ps (wsum tbl m f) (rsum tbl f) (mkst h nx lempty) s' tr ret.

  (* ---------------------------------------------------------------- *)
  (** ** Soundness of the body analysis, given the callees' specs *)

  Lemma body_sound : forall m,
      (forall g, ok tbl m g = true -> spec m g) ->
      forall n ps s body s' tr ret,
        exec n ps s body s' tr ret ->
        forall body0 nx0,
          incl body body0 -> wf_body m body0 ->
          linv nx0 (sn s) ps body0 (sl s) -> nx0 <= sn s ->
          post nx0 ps (wbody (wsum tbl m) body0) (rbody body0) s s' tr ret.
  Proof.
    intros m IHm n ps s body s' tr ret Hex.
    induction Hex; intros body0 nx0 Hincl Hwf Hinv Hnx.
    - (* nil *)
      unfold post. repeat split; intros; try lia; try discriminate; simpl in *; tauto.
    - (* skip *)
      apply IHHex; auto. intros x Hx; apply Hincl; right; exact Hx.
    - (* alloc *)
      assert (Hincl' : incl rest body0) by (intros x Hx; apply Hincl; right; exact Hx).
      assert (Hinv' : linv nx0 (S (sn s)) ps body0 (bind (sl s) k (fun c => c = sn s))).
      { intros k' c [[_ Hc]|Hc]; [left; lia|].
        eapply linv_mono; [|exact Hinv|exact Hc]. lia. }
      destruct (IHHex body0 nx0 Hincl' Hwf Hinv' ltac:(simpl; lia)) as (H1 & H2 & H3 & H4 & H5).
      simpl in *. unfold post. repeat split; auto; try lia.
      + intros c Hc Hnw. rewrite (H2 c Hc Hnw). apply upd_other. lia.
      + simpl. intros c [Hc|Hc]; [left; lia|auto].
      + simpl. intros c Hc. apply in_app_or in Hc. destruct Hc as [Hc|[Hc|Hc]].
        * apply H5, in_or_app; auto.
        * left; lia.
        * apply H5, in_or_app; auto.
    - (* read *)
      assert (Hincl' : incl rest body0) by (intros x Hx; apply Hincl; right; exact Hx).
      destruct (IHHex body0 nx0 Hincl' Hwf Hinv Hnx) as (H1 & H2 & H3 & H4 & H5).
      destruct (Hwf _ (Hincl _ (or_introl eq_refl))) as [Hok _].
      apply instr_known in Hok; simpl in Hok.
      rewrite Forall_forall in H.
      unfold post. rewrite writes_of_app, reads_of_app, writes_of_reads, reads_of_reads.
      simpl. repeat split; auto.
      intros c Hc. apply in_app_or in Hc. destruct Hc as [Hc|Hc].
      + apply in_app_or in Hc. destruct Hc as [Hc|Hc].
        * destruct (dens_acc _ _ _ _ _ _ _ _ Hwf Hinv Hok (H c Hc)) as [Hf|Ha];
            [left; lia|right; exact Ha].
        * apply H5, in_or_app; auto.
      + apply H5, in_or_app; auto.
    - (* write *)
      assert (Hincl' : incl rest body0) by (intros x Hx; apply Hincl; right; exact Hx).
      destruct (IHHex body0 nx0 Hincl' Hwf Hinv Hnx) as (H1 & H2 & H3 & H4 & H5).
      pose proof (Hincl _ (or_introl eq_refl)) as Hin0.
      destruct (Hwf _ Hin0) as [Hok _].
      apply instr_known in Hok; simpl in Hok.
      rewrite Forall_forall in H.
      assert (Hden : forall c, In c (map fst cs) -> dens ps (sl s) rs c).
      { intros c Hc. apply in_map_iff in Hc. destruct Hc as [cv [<- Hcv]]. apply H, Hcv. }
      assert (Hcs : forall c, In c (map fst cs) ->
                nx0 <= c < sn s \/ densG ps (wbody (wsum tbl m) body0) c).
      { intros c Hc.
        destruct (expand_sound _ _ _ _ _ _ _ Hinv (Hden c Hc)) as [Hf|Hd]; [left; exact Hf|right].
        eapply dens_mono; [|exact Hd]. eapply wbody_write_in; eassumption. }
      simpl in *. unfold post. cbn [writes_of reads_of].
      rewrite writes_of_app, reads_of_app, writes_of_writes, reads_of_writes.
      simpl. repeat split; auto.
      + intros c Hc Hnw. rewrite (H2 c Hc Hnw). apply wr_all_frame.
        intros Hcc. destruct (Hcs c Hcc); [lia|contradiction].
      + intros c Hc. apply in_app_or in Hc. destruct Hc as [Hc|Hc]; [|auto].
        destruct (Hcs c Hc) as [Hf|Hd]; [left; lia|right; exact Hd].
      + intros c Hc. apply in_app_or in Hc. destruct Hc as [Hc|Hc].
        * apply H5, in_or_app; auto.
        * apply in_app_or in Hc. destruct Hc as [Hc|Hc].
          -- destruct (dens_acc _ _ _ _ _ _ _ _ Hwf Hinv Hok (Hden c Hc)) as [Hf|Ha];
               [left; lia|right; exact Ha].
          -- apply H5, in_or_app; auto.
    - (* return *)
      pose proof (Hincl _ (or_introl eq_refl)) as Hin0.
      unfold post. repeat split; auto; try (simpl; tauto).
      intros D R Heq c HR. inversion Heq; subst; clear Heq.
      destruct (expand_sound _ _ _ _ _ _ _ Hinv HR) as [Hf|Hd]; [left; exact Hf|right].
      eapply dens_mono; [|exact Hd]. eapply rbody_ret_in; eassumption.
    - (* call *)
      assert (Hincl' : incl rest body0) by (intros x Hx; apply Hincl; right; exact Hx).
      pose proof (Hincl _ (or_introl eq_refl)) as Hin0.
      destruct (Hwf _ Hin0) as [Hok Hokg]. simpl in Hokg.
      pose proof (instr_known _ _ Hok) as Hkn; simpl in Hkn.
      unfold instr_ok in Hok; simpl in Hok.
      apply andb_true_iff in Hok; destruct Hok as [_ Hok].
      apply andb_true_iff in Hok; destruct Hok as [_ Hhint].
      apply inclr_incl in Hhint.
      destruct (IHm f Hokg _ _ _ _ _ _ _ _ H Hex1) as (C1 & C2 & C3 & C4 & C5).
      simpl in C1, C2.
      set (ps' := map (fun a => dens ps (sl s) a) args) in *.
      assert (T : forall rs c, densG ps' rs c ->
                  nx0 <= c < sn s \/ densG ps (expands body0 (substs args rs)) c).
      { intros rs c Hd. apply subst_sound in Hd. eapply expand_sound; eassumption. }
      assert (Hinv2 : linv nx0 (sn s1) ps body0
                (bind (sl s) k (match r1 with Some (_, R) => R | None => rempty end))).
      { intros k' c [[Hk HR]|Hc].
        - subst k'. destruct r1 as [[D R]|]; [|contradiction].
          destruct (C3 D R eq_refl c HR) as [Hf|Hd]; [left; lia|].
          destruct (T _ _ Hd) as [Hf|Hd2]; [left; lia|right].
          eapply dens_mono; [|exact Hd2].
          eapply incl_tran; [exact Hhint|]. eapply hint_of_in; eassumption.
        - eapply linv_mono; [|exact Hinv|exact Hc]. exact C1. }
      destruct (IHHex2 body0 nx0 Hincl' Hwf Hinv2 ltac:(simpl; lia)) as (H1 & H2 & H3 & H4 & H5).
      simpl in *.
      assert (TW : forall c, densG ps' (wsum tbl m f) c ->
                   nx0 <= c < sn s \/ densG ps (wbody (wsum tbl m) body0) c).
      { intros c Hd. destruct (T _ _ Hd) as [Hf|Hd2]; [left; exact Hf|right].
        eapply dens_mono; [|exact Hd2].
        eapply wbody_call_in with (ws := wsum tbl m); eassumption. }
      unfold post. rewrite writes_of_app, reads_of_app. repeat split.
      + simpl. lia.
      + simpl. intros c Hc Hnw. rewrite (H2 c Hc Hnw). apply C2; [lia|].
        intros Hd. destruct (TW c Hd); [lia|contradiction].
      + exact H3.
      + intros c Hc. apply in_app_or in Hc. destruct Hc as [Hc|Hc]; [|auto].
        destruct (C4 c Hc) as [Hf|Hd]; [left; lia|].
        destruct (TW c Hd) as [Hf|Hd2]; [left; lia|right; exact Hd2].
      + intros c Hc.
        assert (Hc' : In c (reads_of tr1 ++ writes_of tr1) \/ In c (reads_of tr2 ++ writes_of tr2)).
        { apply in_app_or in Hc. destruct Hc as [Hc|Hc]; apply in_app_or in Hc;
            destruct Hc as [Hc|Hc]; [left|right|left|right]; apply in_or_app; auto. }
        destruct Hc' as [Hc'|Hc']; [|auto].
        destruct (C5 c Hc') as [Hf|Ha]; [left; lia|].
        destruct Ha as [[i Hi]|Hg]; [|right; right; exact Hg].
        unfold denP, ps' in Hi. rewrite nth_error_map in Hi.
        destruct (nth_error args i) as [a|] eqn:Ha; simpl in Hi; [|contradiction].
        assert (Hka : forallb known a = true).
        { rewrite forallb_app in Hkn. apply andb_true_iff in Hkn. destruct Hkn as [Hkn _].
          rewrite forallb_forall in Hkn |- *. intros r0 Hr. apply Hkn.
          apply in_concat. exists a; split; [eapply nth_error_In; eassumption|exact Hr]. }
        destruct (dens_acc _ _ _ _ _ _ _ _ Hwf Hinv Hka Hi) as [Hf|Ha2];
          [left; lia|right; exact Ha2].
  Qed.

  (** ** Every well-formed function meets its summary *)
  Theorem call_sound : forall m f, ok tbl m f = true -> spec m f.
  Proof.
    induction m as [|m IHm]; intros f Hok; [discriminate|].
    destruct (ok_S _ _ Hok) as [body [Hl Hwf]].
    intros n ps h nx body' s' tr ret Hl' Hex.
    rewrite Hl in Hl'. inversion Hl'; subst body'; clear Hl'.
    assert (Hw : wsum tbl (S m) f = wbody (wsum tbl m) body) by (simpl; rewrite Hl; reflexivity).
    assert (Hr : rsum tbl f = rbody body) by (unfold rsum; rewrite Hl; reflexivity).
    rewrite Hw, Hr.
    eapply body_sound with (m := m); eauto.
    - apply incl_refl.
    - intros k c Hc. contradiction.
  Qed.

  (* ---------------------------------------------------------------- *)
  (** * (a) Frame property of a pure function *)

  (* the cells of the documented destinations of a call *)
  Definition dest_cells (ps : list region) (dst : list nat) : region :=
    fun c => exists i, In i dst /\ denP ps i c.

  Lemma allowed_dest : forall ps dst W c,
      forallb (allowed dst) W = true -> densG ps W c -> dest_cells ps dst c.
  Proof.
    intros ps dst W c Hall [r [Hr Hd]]. rewrite forallb_forall in Hall.
    specialize (Hall r Hr). destruct r as [i|g|k|]; simpl in *; try discriminate.
    apply existsb_exists in Hall. destruct Hall as [j [Hj He]].
    apply Nat.eqb_eq in He; subst j. exists i; split; assumption.
  Qed.

  (* [run] of a pure function: every cell that existed before the call and
     is not a documented destination is unchanged, whatever nondeterministic
     choices and whatever call depth; the call writes only fresh cells and
     destinations, and touches only fresh cells, its arguments and globals. *)
  Theorem pure_fn_sound : forall d f, pure_fn tbl d f = true ->
      forall n ps h nx h' nx' tr ret,
        run tbl gl n f ps h nx h' nx' tr ret ->
        nx <= nx' /\
        (forall c, c < nx -> ~ dest_cells ps (dest_of d f) c -> h' c = h c) /\
        (forall c, In c (writes_of tr) ->
                   nx <= c < nx' \/ dest_cells ps (dest_of d f) c) /\
        (forall c, In c (reads_of tr ++ writes_of tr) -> nx <= c < nx' \/ acc ps c).
  Proof.
    intros d f Hp n ps h nx h' nx' tr ret [body [le' [Hl Hex]]].
    unfold pure_fn in Hp. apply andb_true_iff in Hp. destruct Hp as [Hok Hall].
    destruct (call_sound _ _ Hok _ _ _ _ _ _ _ _ Hl Hex) as (H1 & H2 & _ & H4 & H5).
    simpl in *. repeat split; auto.
    - intros c Hc Hnd. apply H2; auto. intros Hd. apply Hnd.
      eapply allowed_dest; eassumption.
    - intros c Hc. destruct (H4 c Hc) as [Hf|Hd]; [left; exact Hf|right].
      eapply allowed_dest; eassumption.
  Qed.

  (* the same for the global-state analysis: a function passing
     [no_global_write] never changes a cell of a package-level variable that
     is not also (part of) one of its arguments *)
  Theorem no_global_write_sound : forall f, no_global_write tbl f = true ->
      forall n ps h nx h' nx' tr ret,
        run tbl gl n f ps h nx h' nx' tr ret ->
        forall c, c < nx -> (forall i, ~ denP ps i c) -> h' c = h c.
  Proof.
    intros f Hp n ps h nx h' nx' tr ret [body [le' [Hl Hex]]] c Hc Hnp.
    unfold no_global_write in Hp. apply andb_true_iff in Hp. destruct Hp as [Hok Hng].
    destruct (call_sound _ _ Hok _ _ _ _ _ _ _ _ Hl Hex) as (_ & H2 & _).
    simpl in H2. apply H2; auto. intros [r [Hr Hd]].
    apply negb_true_iff in Hng.
    assert (Hg : is_global r = false).
    { destruct (is_global r) eqn:E; [|reflexivity].
      assert (existsb is_global (wsum tbl fuel f) = true)
        by (apply existsb_exists; exists r; auto). congruence. }
    destruct r as [i|g|k|]; simpl in *; try discriminate.
    - exact (Hnp i Hd).
    - exact Hd.
  Qed.

  (* ---------------------------------------------------------------- *)
  (** * (b) Histories of calls *)

  (* a call: function name and the regions of its arguments; a failing call
     is just a call (every return path is covered by [exec]) *)
  Definition call := (string * list region)%type.

  Inductive run_hist : list call -> (cell -> Z) -> nat -> (cell -> Z) -> nat -> Prop :=
  | rh_nil : forall h nx, run_hist [] h nx h nx
  | rh_cons : forall n f ps rest h nx h1 nx1 tr ret h2 nx2,
      run tbl gl n f ps h nx h1 nx1 tr ret ->
      run_hist rest h1 nx1 h2 nx2 ->
      run_hist ((f, ps) :: rest) h nx h2 nx2.

  (* the documented destination cells of all calls of a history *)
  Definition hist_dest (d : dests) (hist : list call) : region :=
    fun c => exists f ps, In (f, ps) hist /\ dest_cells ps (dest_of d f) c.

  Definition all_pure (d : dests) (hist : list call) : Prop :=
    Forall (fun fp => pure_fn tbl d (fst fp) = true) hist.

  (* After ANY finite history of calls to pure functions, every cell that
     existed initially (globals, arguments, anything else) and is not a
     documented destination of one of the calls holds its initial value. *)
  Theorem history_pure : forall d hist h nx h' nx',
      all_pure d hist -> run_hist hist h nx h' nx' ->
      nx <= nx' /\ forall c, c < nx -> ~ hist_dest d hist c -> h' c = h c.
  Proof.
    intros d hist h nx h' nx' Hall Hrun.
    induction Hrun as [|n f ps rest h nx h1 nx1 tr ret h2 nx2 Hr Hrest IH]; [split; auto|].
    inversion Hall as [|x l Hp Hall']; subst. simpl in Hp.
    destruct (pure_fn_sound _ _ Hp _ _ _ _ _ _ _ _ Hr) as (H1 & H2 & _).
    destruct (IH Hall') as [H3 H4].
    split; [lia|]. intros c Hc Hnd.
    rewrite H4; [apply H2; auto| lia |].
    - intros Hd. apply Hnd. exists f, ps; split; [left; reflexivity|exact Hd].
    - intros [f' [ps' [Hin Hd]]]. apply Hnd. exists f', ps'; split; [right; exact Hin|exact Hd].
  Qed.

  (* Hence the i-th call of a history starts in a heap that agrees with the
     initial one on its arguments and on the globals (as far as these are
     not destinations of earlier calls): it sees the same inputs as when it
     is run alone from the initial heap, or when it is repeated. *)
  Corollary history_same_inputs : forall d pre f ps post h nx h' nx',
      all_pure d (pre ++ (f, ps) :: post) ->
      run_hist (pre ++ (f, ps) :: post) h nx h' nx' ->
      exists h1 nx1, run_hist pre h nx h1 nx1 /\
        (forall c, c < nx -> acc ps c -> ~ hist_dest d pre c -> h1 c = h c) /\
        exists n h2 nx2 tr ret, run tbl gl n f ps h1 nx1 h2 nx2 tr ret.
  Proof.
    intros d pre. induction pre as [|[f0 ps0] pre IH]; intros f ps post h nx h' nx' Hall Hrun.
    - simpl in *. inversion Hrun; subst.
      exists h, nx. split; [constructor|]. split; [auto|]. eauto 10.
    - simpl in *. inversion Hrun as [|n ? ? ? ? ? h1 nx1 tr ret ? ? Hr Hrest]; subst.
      inversion Hall as [|x l Hp Hall']; subst. simpl in Hp.
      destruct (IH _ _ _ _ _ _ _ Hall' Hrest) as (h3 & nx3 & Hpre & Hsame & Hcall).
      exists h3, nx3. split; [econstructor; eassumption|]. split; [|exact Hcall].
      intros c Hc Ha Hnd.
      assert (Hpre_pure : all_pure d ((f0, ps0) :: pre)).
      { constructor; [exact Hp|]. unfold all_pure in *. rewrite Forall_forall in *.
        intros x Hx. apply Hall'. apply in_or_app; auto. }
      destruct (history_pure d _ _ _ _ _ Hpre_pure (rh_cons _ _ _ _ _ _ _ _ _ _ _ _ Hr Hpre)) as [_ Hf].
      apply Hf; auto.
  Qed.

  (* ---------------------------------------------------------------- *)
  (** * (d) C19: the receiver holds the result *)

  (* fields of the receiver stored by the executed instructions of a trace *)
  Fixpoint stored (tr : list event) : list string :=
    match tr with
    | [] => []
    | EvF x rs :: t => if is_recv rs then x :: stored t else stored t
    | _ :: t => stored t
    end.

  Lemma stored_app : forall a b, stored (a ++ b) = (stored a ++ stored b)%list.
  Proof.
    induction a as [|[c|c v|x rs] a IH]; intros b; simpl; auto.
    destruct (is_recv rs); simpl; rewrite IH; reflexivity.
  Qed.

  Lemma stored_writes : forall cs, stored (ev_writes cs) = [].
  Proof. induction cs; simpl; auto. Qed.
  Lemma stored_reads : forall cs, stored (map EvR cs) = [].
  Proof. induction cs; simpl; auto. Qed.

  Lemma is_recv_eq : forall rs, is_recv rs = true -> rs = [RParam 0].
  Proof.
    intros rs H. destruct rs as [|[[|i]|g|k|] [|r rs]]; simpl in H; try discriminate. reflexivity.
  Qed.

  Lemma stored_In : forall tr x, In x (stored tr) -> In (EvF x [RParam 0]) tr.
  Proof.
    induction tr as [|[c|c v|y rs] tr IH]; intros x Hx; simpl in *; auto.
    destruct (is_recv rs) eqn:E.
    - apply is_recv_eq in E; subst rs. destruct Hx as [->|Hx]; auto.
    - auto.
  Qed.

  Lemma fld_done_mono : forall w1 w2 f,
      incl w1 w2 -> fld_done w1 f = true -> fld_done w2 f = true.
  Proof.
    unfold fld_done; intros w1 w2 f Hi H. apply existsb_exists in H.
    destruct H as [x [Hx He]]. apply existsb_exists. exists x; auto.
  Qed.

  Lemma rs_scan_skip : forall need w o rest,
      rs_scan need w ((false, o) :: rest) = true -> rs_scan need w rest = true.
  Proof.
    intros need w o rest H. destruct o; simpl in H; auto.
    destruct direct; auto.
    apply andb_true_iff in H. tauto.
  Qed.

  Definition recv_post (ps : list region) (need w : list string)
             (tr : list event) (ret : option (region * region)) : Prop :=
    forall D R, ret = Some (D, R) ->
      (forall c, ~ D c) \/
      ((forall c, D c <-> denP ps 0 c) /\
       forall fld, In fld need -> fld_done (stored tr ++ w) fld = true).

  Lemma rs_scan_sound : forall n ps s body s' tr ret,
      exec n ps s body s' tr ret ->
      forall need w, rs_scan need w body = true -> recv_post ps need w tr ret.
  Proof.
    intros n ps s body s' tr ret Hex.
    induction Hex; intros need w Hscan.
    - intros D R Heq; discriminate.
    - apply IHHex. eapply rs_scan_skip; eassumption.
    - (* alloc *)
      assert (Hs : rs_scan need w rest = true) by (destruct b; exact Hscan).
      intros D R Heq. destruct (IHHex _ _ Hs D R Heq) as [Hn|[Hd Hf]]; [left; exact Hn|right].
      split; [exact Hd|]. cbn [stored]. exact Hf.
    - (* read *)
      assert (Hs : rs_scan need w rest = true) by (destruct b; exact Hscan).
      intros D R Heq. destruct (IHHex _ _ Hs D R Heq) as [Hn|[Hd Hf]]; [left; exact Hn|right].
      split; [exact Hd|]. rewrite stored_app, stored_reads. cbn [app]. exact Hf.
    - (* write *)
      intros D R Heq. destruct b; simpl in Hscan.
      + destruct (IHHex _ _ Hscan D R Heq) as [Hn|[Hd Hf]]; [left; exact Hn|right].
        split; [exact Hd|]. intros f0 Hf0. specialize (Hf f0 Hf0).
        cbn [stored]. destruct (is_recv rs); rewrite stored_app, stored_writes; cbn [app].
        * eapply fld_done_mono; [|exact Hf].
          intros x Hx. apply in_app_or in Hx. destruct Hx as [Hx|[Hx|Hx]].
          -- right. apply in_or_app; auto.
          -- left; auto.
          -- right. apply in_or_app; auto.
        * exact Hf.
      + destruct (IHHex _ _ Hscan D R Heq) as [Hn|[Hd Hf]]; [left; exact Hn|right].
        split; [exact Hd|]. intros f0 Hf0. specialize (Hf f0 Hf0).
        cbn [stored]. destruct (is_recv rs); rewrite stored_app, stored_writes; cbn [app].
        * eapply fld_done_mono; [|exact Hf]. intros x Hx. right; exact Hx.
        * exact Hf.
    - (* return *)
      intros D R Heq. inversion Heq; subst; clear Heq.
      destruct d as [|r0 d'].
      + left. intros c [r [Hr _]]. contradiction.
      + right.
        assert (Hs : is_recv (r0 :: d') = true /\ forallb (fld_done w) need = true).
        { destruct b; simpl in Hscan; apply andb_true_iff in Hscan; destruct Hscan as [Hs _];
            apply andb_true_iff in Hs; exact Hs. }
        destruct Hs as [Hrecv Hflds]. apply is_recv_eq in Hrecv. rewrite Hrecv.
        split.
        * intros c; split.
          -- intros [r [[<-|[]] Hd]]. exact Hd.
          -- intros Hd. exists (RParam 0); split; [left; reflexivity|exact Hd].
        * intros f0 Hf0. cbn [stored app]. rewrite forallb_forall in Hflds. apply Hflds, Hf0.
    - (* call *)
      assert (Hs : rs_scan need w rest = true) by (destruct b; exact Hscan).
      intros D R Heq. destruct (IHHex2 _ _ Hs D R Heq) as [Hn|[Hd Hf]]; [left; exact Hn|right].
      split; [exact Hd|]. intros f0 Hf0. specialize (Hf f0 Hf0).
      rewrite stored_app. eapply fld_done_mono; [|exact Hf].
      intros x Hx. apply in_app_or in Hx. apply in_or_app.
      destruct Hx as [Hx|Hx]; [left; apply in_or_app; right; exact Hx|right; exact Hx].
  Qed.

  (* If [receiver_stored rf f] holds then every run of f that returns a
     reference returns exactly the receiver (parameter 0), and before that
     return a store into each reference field of the receiver type (or a
     whole-struct store "*") to the receiver itself has been executed.  A
     run returning no reference (nil / error path) is the failure case. *)
  Theorem receiver_stored_sound : forall rf f,
      receiver_stored tbl rf f = true ->
      forall n ps h nx h' nx' tr D R,
        run tbl gl n f ps h nx h' nx' tr (Some (D, R)) ->
        (forall c, ~ D c) \/
        ((forall c, D c <-> denP ps 0 c) /\
         forall fld, In fld (fields_of rf f) ->
           exists x, In (EvF x [RParam 0]) tr /\ (x = fld \/ x = "*")).
  Proof.
    intros rf f Hrs n ps h nx h' nx' tr D R [body [le' [Hl Hex]]].
    unfold receiver_stored in Hrs. rewrite Hl in Hrs.
    apply andb_true_iff in Hrs. destruct Hrs as [Hrs _].
    apply andb_true_iff in Hrs. destruct Hrs as [Hscan _].
    destruct (rs_scan_sound _ _ _ _ _ _ _ Hex _ _ Hscan D R eq_refl) as [Hn|[Hd Hf]];
      [left; exact Hn|right].
    split; [exact Hd|]. intros fld Hfld. specialize (Hf fld Hfld).
    rewrite app_nil_r in Hf. unfold fld_done in Hf. apply existsb_exists in Hf.
    destruct Hf as [x [Hx He]]. exists x. split; [apply stored_In, Hx|].
    apply orb_true_iff in He. destruct He as [He|He]; apply String.eqb_eq in He; auto.
  Qed.
End Sound.

(* ------------------------------------------------------------------ *)
(** * (c) Interleavings of threads *)

(* A thread is the access trace of a call (by [exec_heap_irrelevant] below
   the set of traces of a call does not depend on the heap contents, so a
   trace obtained by running the call alone is also a behaviour of the call
   inside any interleaving).  Threads are indexed by nat; thread i has trace
   [trs i] ([] for all but finitely many i: any number of goroutines).
   A schedule is a list of thread ids; scheduling thread i executes its next
   event atomically on the shared heap. *)

Definition foot (tr : list event) : list cell := (reads_of tr ++ writes_of tr)%list.

(* remaining events, values observed so far (most recent first) *)
Definition tstate := (list event * list Z)%type.

Definition step_thread (h : cell -> Z) (ts : tstate) : (cell -> Z) * tstate :=
  match fst ts with
  | [] => (h, ts)
  | EvR c :: t => (h, (t, h c :: snd ts))
  | EvW c v :: t => (upd h c v, (t, snd ts))
  | EvF _ _ :: t => (h, (t, snd ts))
  end.

Definition set_thread (tss : nat -> tstate) (i : nat) (ts : tstate) : nat -> tstate :=
  fun j => if Nat.eqb j i then ts else tss j.

Fixpoint run_sched (sch : list nat) (h : cell -> Z) (tss : nat -> tstate)
  : (cell -> Z) * (nat -> tstate) :=
  match sch with
  | [] => (h, tss)
  | i :: sch' =>
      let (h', ts') := step_thread h (tss i) in
      run_sched sch' h' (set_thread tss i ts')
  end.

Definition init_threads (trs : nat -> list event) : nat -> tstate := fun i => (trs i, []).

(* all threads have run to completion *)
Definition complete (tss : nat -> tstate) : Prop := forall i, fst (tss i) = [].

(* no cell is written by one thread and accessed (read or written) by another *)
Definition race_free_tr (trs : nat -> list event) : Prop :=
  forall i j c, i <> j -> In c (writes_of (trs i)) -> ~ In c (foot (trs j)).

Lemma obs_app : forall a b h, obs (a ++ b) h = (obs a h ++ obs b (apply_tr a h))%list.
Proof.
  induction a as [|[c|c v|f rs] a IH]; intros b h; simpl; auto.
  rewrite IH. reflexivity.
Qed.

Lemma foot_app_r : forall p r c, In c (foot r) -> In c (foot (p ++ r)).
Proof.
  unfold foot; intros p r c H. rewrite reads_of_app, writes_of_app.
  apply in_app_or in H. apply in_or_app.
  destruct H; [left|right]; apply in_or_app; auto.
Qed.

(* invariant of a partial interleaved execution *)
Definition il_inv (trs : nat -> list event) (h0 h : cell -> Z) (tss : nat -> tstate) : Prop :=
  (forall i, exists p, trs i = (p ++ fst (tss i))%list /\
                       snd (tss i) = rev (obs p h0) /\
                       forall c, In c (foot (trs i)) -> h c = apply_tr p h0 c) /\
  (forall c, (forall i, ~ In c (writes_of (trs i))) -> h c = h0 c).

Lemma il_inv_init : forall trs h0, il_inv trs h0 h0 (init_threads trs).
Proof.
  intros trs h0; split; [|auto].
  intros i. exists []. simpl. auto.
Qed.

Lemma in_writes_mid : forall p c v t, In c (writes_of (p ++ EvW c v :: t)).
Proof. intros. rewrite writes_of_app. apply in_or_app; right; simpl; auto. Qed.
Lemma in_reads_mid : forall p c t, In c (reads_of (p ++ EvR c :: t)).
Proof. intros. rewrite reads_of_app. apply in_or_app; right; simpl; auto. Qed.

Lemma il_step : forall trs h0 h tss i h' ts',
    race_free_tr trs -> il_inv trs h0 h tss ->
    step_thread h (tss i) = (h', ts') ->
    il_inv trs h0 h' (set_thread tss i ts').
Proof.
  intros trs h0 h tss i h' ts' Hrf [Hth Hunw] Hstep.
  destruct (Hth i) as [p [Hsplit [Hobs Hfoot]]].
  unfold step_thread in Hstep.
  destruct (fst (tss i)) as [|[c|c v|f rs] t] eqn:Hrem;
    inversion Hstep; subst h' ts'; clear Hstep.
  - (* nothing left: stutter *)
    split; [|exact Hunw]. intros j. unfold set_thread.
    destruct (Nat.eqb_spec j i); [subst j|]; apply Hth.
  - (* read *)
    split; [|exact Hunw]. intros j. unfold set_thread.
    destruct (Nat.eqb_spec j i); [subst j|apply Hth].
    exists (p ++ [EvR c])%list. simpl. repeat split.
    + rewrite <- app_assoc. exact Hsplit.
    + rewrite obs_app. simpl. rewrite rev_app_distr. simpl.
      rewrite Hobs. f_equal. apply Hfoot. rewrite Hsplit.
      unfold foot. apply in_or_app; left. apply in_reads_mid.
    + intros c' Hc'. rewrite apply_tr_app. simpl. apply Hfoot, Hc'.
  - (* write *)
    assert (Hw : In c (writes_of (trs i))) by (rewrite Hsplit; apply in_writes_mid).
    split.
    + intros j. unfold set_thread.
      destruct (Nat.eqb_spec j i); [subst j|].
      * exists (p ++ [EvW c v])%list. simpl. repeat split.
        -- rewrite <- app_assoc. exact Hsplit.
        -- rewrite obs_app. simpl. rewrite app_nil_r. exact Hobs.
        -- intros c' Hc'. rewrite apply_tr_app. simpl. unfold upd.
           destruct (Nat.eqb c' c); [reflexivity|apply Hfoot, Hc'].
      * destruct (Hth j) as [pj [Hsj [Hoj Hfj]]].
        exists pj. repeat split; auto.
        intros c' Hc'. rewrite upd_other; [apply Hfj, Hc'|].
        intros ->. exact (Hrf i j c (fun E => n (eq_sym E)) Hw Hc').
    + intros c' Hc'. rewrite upd_other; [apply Hunw, Hc'|].
      intros ->. exact (Hc' i Hw).
  - (* field-store marker *)
    split; [|exact Hunw]. intros j. unfold set_thread.
    destruct (Nat.eqb_spec j i); [subst j|apply Hth].
    exists (p ++ [EvF f rs])%list. simpl. repeat split.
    + rewrite <- app_assoc. exact Hsplit.
    + rewrite obs_app. simpl. rewrite app_nil_r. exact Hobs.
    + intros c' Hc'. rewrite apply_tr_app. simpl. apply Hfoot, Hc'.
Qed.

Lemma il_run : forall trs h0, race_free_tr trs ->
    forall sch h tss h' tss',
      il_inv trs h0 h tss -> run_sched sch h tss = (h', tss') ->
      il_inv trs h0 h' tss'.
Proof.
  intros trs h0 Hrf. induction sch as [|i sch IH]; intros h tss h' tss' Hinv Hrun; simpl in Hrun.
  - inversion Hrun; subst; exact Hinv.
  - destruct (step_thread h (tss i)) as [h1 ts1] eqn:Hs.
    eapply IH; [|exact Hrun]. eapply il_step; eassumption.
Qed.

(* For EVERY schedule that runs all threads to completion: each thread has
   observed exactly the values it observes when run alone from the initial
   heap, every cell in the footprint of thread i ends with the value it has
   after running thread i alone, and cells written by no thread are
   unchanged. *)
Theorem schedule_independent : forall trs h0 sch h' tss',
    race_free_tr trs ->
    run_sched sch h0 (init_threads trs) = (h', tss') ->
    complete tss' ->
    (forall i, rev (snd (tss' i)) = obs (trs i) h0) /\
    (forall i c, In c (foot (trs i)) -> h' c = apply_tr (trs i) h0 c) /\
    (forall c, (forall i, ~ In c (writes_of (trs i))) -> h' c = h0 c).
Proof.
  intros trs h0 sch h' tss' Hrf Hrun Hc.
  destruct (il_run _ _ Hrf _ _ _ _ _ (il_inv_init trs h0) Hrun) as [Hth Hunw].
  repeat split; auto.
  - intros i. destruct (Hth i) as [p [Hs [Ho _]]].
    rewrite (Hc i), app_nil_r in Hs. subst p. rewrite Ho, rev_involutive. reflexivity.
  - intros i c Hin. destruct (Hth i) as [p [Hs [_ Hf]]].
    rewrite (Hc i), app_nil_r in Hs. subst p. apply Hf, Hin.
Qed.

(** ** The sequential schedule (threads one after another) is a schedule *)

Lemma run_sched_app : forall a b h tss,
    run_sched (a ++ b) h tss =
    let (h1, t1) := run_sched a h tss in run_sched b h1 t1.
Proof.
  induction a as [|i a IH]; intros b h tss; simpl; [reflexivity|].
  destruct (step_thread h (tss i)) as [h1 ts1]. apply IH.
Qed.

Lemma step_thread_len : forall h ts h' ts',
    step_thread h ts = (h', ts') -> length (fst ts') <= pred (length (fst ts)) \/ (fst ts = [] /\ ts' = ts).
Proof.
  intros h [rem o] h' ts' H. unfold step_thread in H. simpl in *.
  destruct rem as [|[c|c v|f rs] t]; inversion H; subst; simpl; auto.
Qed.

Lemma run_repeat : forall i k h tss h' tss',
    run_sched (repeat i k) h tss = (h', tss') ->
    length (fst (tss i)) <= k ->
    fst (tss' i) = [] /\ (forall j, j <> i -> tss' j = tss j).
Proof.
  intros i. induction k as [|k IH]; intros h tss h' tss' Hrun Hlen; simpl in Hrun.
  - inversion Hrun; subst. split; [|auto].
    destruct (fst (tss' i)); [reflexivity|simpl in Hlen; lia].
  - destruct (step_thread h (tss i)) as [h1 ts1] eqn:Hs.
    destruct (IH _ _ _ _ Hrun) as [He Ho].
    + unfold set_thread. rewrite Nat.eqb_refl.
      destruct (step_thread_len _ _ _ _ Hs) as [Hl|[Hn ->]]; [lia|rewrite Hn; simpl; lia].
    + split; [exact He|]. intros j Hj. rewrite (Ho j Hj). unfold set_thread.
      destruct (Nat.eqb_spec j i); [contradiction|reflexivity].
Qed.

Fixpoint seq_sched (trs : nat -> list event) (n : nat) : list nat :=
  match n with
  | 0 => []
  | S n => (seq_sched trs n ++ repeat n (length (trs n)))%list
  end.

Lemma seq_sched_runs : forall trs n h0 h' tss',
    run_sched (seq_sched trs n) h0 (init_threads trs) = (h', tss') ->
    (forall i, i < n -> fst (tss' i) = []) /\
    (forall j, n <= j -> tss' j = init_threads trs j).
Proof.
  intros trs. induction n as [|n IH]; intros h0 h' tss' Hrun; simpl in Hrun.
  - inversion Hrun; subst. split; [intros; lia|auto].
  - rewrite run_sched_app in Hrun.
    destruct (run_sched (seq_sched trs n) h0 (init_threads trs)) as [h1 t1] eqn:H1.
    destruct (IH _ _ _ H1) as [Hdone Hrest].
    destruct (run_repeat _ _ _ _ _ _ Hrun) as [He Ho].
    + rewrite (Hrest n (le_n n)). simpl. lia.
    + split.
      * intros i Hi. destruct (Nat.eq_dec i n) as [->|Hne]; [exact He|].
        rewrite (Ho i Hne). apply Hdone. lia.
      * intros j Hj. rewrite (Ho j) by lia. apply Hrest. lia.
Qed.

Lemma seq_sched_complete : forall trs n h0 h' tss',
    (forall i, n <= i -> trs i = []) ->
    run_sched (seq_sched trs n) h0 (init_threads trs) = (h', tss') ->
    complete tss'.
Proof.
  intros trs n h0 h' tss' Hfin Hrun i.
  destruct (seq_sched_runs _ _ _ _ _ Hrun) as [Hd Hr].
  destruct (Nat.lt_ge_cases i n) as [Hlt|Hge]; [apply Hd, Hlt|].
  rewrite (Hr i Hge). simpl. apply Hfin, Hge.
Qed.

(* Any complete interleaving of n race-free threads produces, for every
   thread, the same observations, and on every cell the same final value,
   as running the threads one after another (thread 0, then 1, ...). *)
Theorem interleaving_equals_sequential : forall trs n h0 sch h1 tss1 h2 tss2,
    race_free_tr trs -> (forall i, n <= i -> trs i = []) ->
    run_sched sch h0 (init_threads trs) = (h1, tss1) -> complete tss1 ->
    run_sched (seq_sched trs n) h0 (init_threads trs) = (h2, tss2) ->
    (forall i, snd (tss1 i) = snd (tss2 i)) /\ (forall c, h1 c = h2 c).
Proof.
  intros trs n h0 sch h1 tss1 h2 tss2 Hrf Hfin Hr1 Hc1 Hr2.
  pose proof (seq_sched_complete _ _ _ _ _ Hfin Hr2) as Hc2.
  destruct (schedule_independent _ _ _ _ _ Hrf Hr1 Hc1) as (O1 & F1 & U1).
  destruct (schedule_independent _ _ _ _ _ Hrf Hr2 Hc2) as (O2 & F2 & U2).
  split.
  - intros i. rewrite <- (rev_involutive (snd (tss1 i))), <- (rev_involutive (snd (tss2 i))).
    rewrite O1, O2. reflexivity.
  - intros c.
    assert (Hdec0 : forall m, (exists i, i < m /\ In c (writes_of (trs i))) \/
                              (forall i, i < m -> ~ In c (writes_of (trs i)))).
    { induction m as [|m IH].
      - right. intros i Hi. lia.
      - destruct (in_dec Nat.eq_dec c (writes_of (trs m))) as [Hin|Hnin].
        + left. exists m; split; [lia|exact Hin].
        + destruct IH as [[i [Hi Hin]]|Hall].
          * left. exists i; split; [lia|exact Hin].
          * right. intros i Hi. destruct (Nat.eq_dec i m) as [->|Hne]; [exact Hnin|apply Hall; lia]. }
    assert (Hdec : (exists i, i < n /\ In c (writes_of (trs i))) \/
                   (forall i, ~ In c (writes_of (trs i)))).
    { destruct (Hdec0 n) as [He|Hall]; [left; exact He|right].
      intros i. destruct (Nat.lt_ge_cases i n) as [Hlt|Hge]; [apply Hall, Hlt|].
      rewrite Hfin by exact Hge. simpl. tauto. }
    destruct Hdec as [[i [_ Hin]]|Hall].
    + assert (Hf : In c (foot (trs i))) by (unfold foot; apply in_or_app; right; exact Hin).
      rewrite (F1 i c Hf), (F2 i c Hf). reflexivity.
    + rewrite (U1 c Hall), (U2 c Hall). reflexivity.
Qed.

(* ------------------------------------------------------------------ *)
(** ** Linking traces with the semantics *)

Lemma apply_tr_reads_eq : forall cs h, apply_tr (map EvR cs) h = h.
Proof. induction cs; simpl; auto. Qed.
Lemma apply_tr_writes_eq : forall cs h, apply_tr (ev_writes cs) h = wr_all h cs.
Proof. unfold wr_all. induction cs as [|[c v] cs IH]; intros h; simpl; auto. Qed.

Section Replay.
  Variable tbl : fn_table.
  Variable gl : string -> region.

  (* the final heap of a run is the replay of its trace *)
  Lemma exec_replay : forall n ps s body s' tr ret,
      exec tbl gl n ps s body s' tr ret ->
      forall c, sh s' c = apply_tr tr (sh s) c.
  Proof.
    intros n ps s body s' tr ret Hex.
    induction Hex; intros c; simpl; auto.
    - rewrite apply_tr_app, apply_tr_reads_eq. apply IHHex.
    - rewrite apply_tr_app, apply_tr_writes_eq. apply IHHex.
    - rewrite apply_tr_app, IHHex2. simpl. apply apply_tr_ext. exact IHHex1.
  Qed.

  (* the traces (and returned regions) of a body do not depend on the heap
     contents: whatever other threads have written, the same trace is a
     behaviour of the call *)
  Lemma exec_heap_irrelevant : forall n ps s body s' tr ret,
      exec tbl gl n ps s body s' tr ret ->
      forall h2, exists h2',
        exec tbl gl n ps (mkst h2 (sn s) (sl s)) body (mkst h2' (sn s') (sl s')) tr ret.
  Proof.
    intros n ps s body s' tr ret Hex.
    induction Hex; intros h2.
    - exists h2. constructor.
    - destruct (IHHex h2) as [h2' H2]. exists h2'. constructor. exact H2.
    - destruct (IHHex (upd h2 (sn s) v)) as [h2' H2]. exists h2'.
      apply (ex_alloc tbl gl n ps (mkst h2 (sn s) (sl s)) b k rest _ tr r v). exact H2.
    - destruct (IHHex h2) as [h2' H2]. exists h2'.
      apply (ex_read tbl gl n ps (mkst h2 (sn s) (sl s)) b rs cs rest _ tr r); assumption.
    - destruct (IHHex (wr_all h2 cs)) as [h2' H2]. exists h2'.
      apply (ex_write tbl gl n ps (mkst h2 (sn s) (sl s)) b rs fld cs rest _ tr r); assumption.
    - exists h2.
      apply (ex_return tbl gl n ps (mkst h2 (sn s) (sl s)) b d rr rest).
    - destruct (IHHex1 h2) as [h1' H1]. destruct (IHHex2 h1') as [h2' H2].
      exists h2'.
      eapply (ex_call tbl gl n ps (mkst h2 (sn s) (sl s)) b f args k hint rest body
                      (mkst h1' (sn s1) (sl s1)) tr1 r1 _ tr2 r); eauto.
  Qed.
End Replay.

(* ------------------------------------------------------------------ *)
(** ** Threads running pure functions are race free *)

Section Threads.
  Variable tbl : fn_table.
  Variable gl : string -> region.
  Variable d : dests.

  (* A thread: a call of [th_f] on argument regions [th_ps]; [th_tr] is a
     trace of that call run alone from the common initial heap, allocating in
     the thread's own arena [th_lo, th_hi).
     ASSUMPTION (allocator / sync.Pool): an allocation, or a sync.Pool.Get,
     hands out a cell that no other thread can access until it is released;
     this is modelled by the disjoint arenas.  The ff package's bigIntPool
     lives inside ff, which is not translated. *)
  Record thread := mkthread {
    th_f : string; th_ps : list region; th_lo : nat; th_hi : nat; th_tr : list event }.

  Definition th_dest (t : thread) : region := dest_cells (th_ps t) (dest_of d (th_f t)).

  Definition thread_ok (h0 : cell -> Z) (nx0 : nat) (t : thread) : Prop :=
    pure_fn tbl d (th_f t) = true /\
    nx0 <= th_lo t /\
    (forall c, acc gl (th_ps t) c -> c < nx0) /\
    exists n h' ret, run tbl gl n (th_f t) (th_ps t) h0 (th_lo t) h' (th_hi t) (th_tr t) ret.

  Definition trs_of (ths : nat -> option thread) : nat -> list event :=
    fun i => match ths i with Some t => th_tr t | None => [] end.

  Lemma dest_acc : forall ps dst c, dest_cells ps dst c -> acc gl ps c.
  Proof. intros ps dst c [i [_ Hd]]. left; exists i; exact Hd. Qed.

  (* n threads (any n), each running a pure function; the arguments and the
     globals are old cells shared by all threads; each thread allocates in
     its own arena; the documented destination of a thread is private: no
     other thread can reach it from its arguments or from a global.  Then no
     cell is written by one thread and accessed by another. *)
  Theorem race_free : forall h0 nx0 (ths : nat -> option thread),
      (forall i t, ths i = Some t -> thread_ok h0 nx0 t) ->
      (forall i j ti tj, i <> j -> ths i = Some ti -> ths j = Some tj ->
                         th_hi ti <= th_lo tj \/ th_hi tj <= th_lo ti) ->
      (forall i j ti tj, i <> j -> ths i = Some ti -> ths j = Some tj ->
                         forall c, th_dest ti c -> ~ acc gl (th_ps tj) c) ->
      race_free_tr (trs_of ths).
  Proof.
    intros h0 nx0 ths Hok Har Hpriv i j c Hij Hw Hf.
    unfold trs_of in *.
    destruct (ths i) as [ti|] eqn:Ei; [|simpl in Hw; contradiction].
    destruct (ths j) as [tj|] eqn:Ej; [|simpl in Hf; contradiction].
    destruct (Hok i ti Ei) as (Hpi & Hloi & Holdi & ni & hi' & ri & Hri).
    destruct (Hok j tj Ej) as (Hpj & Hloj & Holdj & nj & hj' & rj & Hrj).
    destruct (pure_fn_sound _ _ _ _ Hpi _ _ _ _ _ _ _ _ Hri) as (_ & _ & Wi & _).
    destruct (pure_fn_sound _ _ _ _ Hpj _ _ _ _ _ _ _ _ Hrj) as (_ & _ & _ & Aj).
    specialize (Wi c Hw). specialize (Aj c Hf).
    destruct Wi as [Fi|Di]; destruct Aj as [Fj|Aj].
    - destruct (Har i j ti tj Hij Ei Ej); lia.
    - specialize (Holdj c Aj). lia.
    - apply dest_acc in Di. specialize (Holdi c Di). lia.
    - exact (Hpriv i j ti tj Hij Ei Ej c Di Aj).
  Qed.

  (* Putting (a) and (c) together: for every complete schedule of such
     threads, every thread observes what it observes alone, its footprint
     (in particular its private destination and its fresh results) ends as
     when it runs alone, and all other cells - shared arguments, globals -
     are unchanged. *)
  Corollary concurrent_pure_calls : forall h0 nx0 ths sch h' tss',
      (forall i t, ths i = Some t -> thread_ok h0 nx0 t) ->
      (forall i j ti tj, i <> j -> ths i = Some ti -> ths j = Some tj ->
                         th_hi ti <= th_lo tj \/ th_hi tj <= th_lo ti) ->
      (forall i j ti tj, i <> j -> ths i = Some ti -> ths j = Some tj ->
                         forall c, th_dest ti c -> ~ acc gl (th_ps tj) c) ->
      run_sched sch h0 (init_threads (trs_of ths)) = (h', tss') ->
      complete tss' ->
      (forall i, rev (snd (tss' i)) = obs (trs_of ths i) h0) /\
      (forall i c, In c (foot (trs_of ths i)) -> h' c = apply_tr (trs_of ths i) h0 c) /\
      (forall c, (forall i, ~ In c (writes_of (trs_of ths i))) -> h' c = h0 c).
  Proof.
    intros. eapply schedule_independent; eauto. eapply race_free; eauto.
  Qed.
End Threads.

(* ------------------------------------------------------------------ *)
(** * Non-vacuity *)

(* A table with an impure function: [caller] passes its parameter 1 to
   [setter], which mutates it in place.  The analysis rejects it, and the
   semantics really changes the caller-visible cell: the frame property of
   [pure_fn_sound] fails for it. *)
Definition bad_tbl : fn_table :=
  [("setter", [(true, IWrite [RParam 0] "X")]);
   ("caller", [(true, ICall "setter" [[RParam 1]] 0 [])])].

Example bad_not_pure : pure_fn bad_tbl [] "caller" = false.
Proof. reflexivity. Qed.

Example bad_frame_violated :
  exists h' tr,
    run bad_tbl (fun _ => rempty) 1 "caller" [rempty; (fun c => c = 5)]
        (fun _ => 0%Z) 10 h' 10 tr None /\
    h' 5 <> 0%Z.
Proof.
  eexists. eexists. split.
  - unfold run. eexists. eexists. split; [reflexivity|].
    eapply ex_call with (s1 := mkst (wr_all (fun _ => 0%Z) [(5, 1%Z)]) 10 lempty).
    + reflexivity.
    + eapply (ex_write _ _ _ _ _ _ _ _ [(5, 1%Z)]).
      * constructor; [|constructor]. simpl.
        exists (RParam 0); split; [left; reflexivity|].
        simpl. unfold denP. simpl. exists (RParam 1); split; [left; reflexivity|].
        simpl. unfold denP. simpl. reflexivity.
      * apply ex_nil.
    + simpl. apply ex_nil.
  - simpl. unfold wr_all, upd. simpl. discriminate.
Qed.

(* A small history: two pure readers around a call with a documented
   destination, one of the readers taking its early (failing) return. *)
Definition ex_tbl : fn_table :=
  [("reader", [(true, IAlloc 0);
               (true, IRead [RParam 0; RGlobal "G"]);
               (false, IReturn [] []);
               (true, IWrite [RLocal 0] "");
               (true, IReturn [RLocal 0] [RLocal 0])]);
   ("set", [(true, IRead [RParam 1]); (true, IWrite [RParam 0] "")])].
Definition ex_dests : dests := [("set", [0])].
Definition ex_gl : string -> region := fun g c => g = "G" /\ c = 2.
Definition cellr (k : nat) : region := fun c => c = k.
Definition ex_hist : list (call) :=
  [("reader", [cellr 0]); ("set", [cellr 1; cellr 0]); ("reader", [cellr 0])].

Example ex_hist_pure : forall h nx h' nx',
    run_hist ex_tbl ex_gl ex_hist h nx h' nx' -> 3 <= nx ->
    h' 0 = h 0 /\ h' 2 = h 2.
Proof.
  intros h nx h' nx' Hrun Hnx.
  assert (Hall : all_pure ex_tbl ex_dests ex_hist).
  { repeat constructor. }
  destruct (history_pure ex_tbl ex_gl ex_dests _ _ _ _ _ Hall Hrun) as [_ Hf].
  assert (Hnd : forall c, c <> 1 -> ~ hist_dest ex_dests ex_hist c).
  { intros c Hc [f [ps [Hin [i [Hi Hd]]]]].
    simpl in Hin. destruct Hin as [E|[E|[E|[]]]]; inversion E; subst; simpl in Hi;
      try contradiction.
    destruct Hi as [<-|[]]. unfold denP in Hd; simpl in Hd. unfold cellr in Hd. congruence. }
  split; apply Hf; try lia; apply Hnd; lia.
Qed.

(* ... and such a history exists (the statement above is not vacuous) *)
Example ex_hist_runs : exists h' nx',
    run_hist ex_tbl ex_gl ex_hist (fun _ => 7%Z) 3 h' nx'.
Proof.
  eexists. eexists.
  eapply rh_cons with (n := 0).
  { unfold run. eexists. eexists. split; [reflexivity|].
    eapply ex_alloc with (v := 0%Z). eapply ex_read with (cs := [0; 2]).
    { repeat constructor; simpl.
      - exists (RParam 0); split; [left; reflexivity|]. reflexivity.
      - exists (RGlobal "G"); split; [right; left; reflexivity|]. split; reflexivity. }
    (* the early, failing return *)
    apply ex_return. }
  eapply rh_cons with (n := 0).
  { unfold run. eexists. eexists. split; [reflexivity|].
    eapply ex_read with (cs := [0]).
    { repeat constructor. exists (RParam 1); split; [left; reflexivity|]. reflexivity. }
    eapply (ex_write _ _ _ _ _ _ _ _ [(1, 42%Z)]).
    { repeat constructor. exists (RParam 0); split; [left; reflexivity|]. reflexivity. }
    apply ex_nil. }
  eapply rh_cons with (n := 0).
  { unfold run. eexists. eexists. split; [reflexivity|].
    eapply ex_alloc with (v := 0%Z). eapply ex_read with (cs := []); [constructor|].
    apply ex_skip.
    eapply (ex_write _ _ _ _ _ _ _ _ [(4, 9%Z)]).
    { repeat constructor. exists (RLocal 0); split; [left; reflexivity|].
      simpl. left. split; reflexivity. }
    apply ex_return. }
  apply rh_nil.
Qed.

(* Two threads reading a shared cell 0 and writing private cells 10 / 11,
   under the schedule 0,1,1,0 *)
Definition ex_trs : nat -> list event := fun i =>
  match i with
  | 0 => [EvR 0; EvW 10 5%Z]
  | 1 => [EvR 0; EvW 11 6%Z]
  | _ => []
  end.

Example ex_schedule :
  let '(h', tss') := run_sched [0; 1; 1; 0] (fun _ => 3%Z) (init_threads ex_trs) in
  complete tss' /\ h' 10 = 5%Z /\ h' 11 = 6%Z /\ h' 0 = 3%Z /\
  snd (tss' 0) = [3%Z] /\ snd (tss' 1) = [3%Z].
Proof.
  simpl. repeat split.
  intros [|[|i]]; reflexivity.
Qed.

Example ex_trs_race_free : race_free_tr ex_trs.
Proof.
  intros [|[|i]] [|[|j]] c Hij Hw Hf; simpl in *; try tauto; try lia;
    unfold foot in Hf; simpl in Hf; intuition lia.
Qed.

(* ------------------------------------------------------------------ *)
(** * Inhabitation: every well-formed function has an execution *)

Section Inhabited.
  Variable tbl : fn_table.
  Variable gl : string -> region.

  (* the canonical execution of a body: may-instructions are skipped,
     must-reads read no cell, must-writes write no cell, calls run the
     canonical execution of the callee *)
  Lemma body_inhabited : forall m,
      (forall g, ok tbl m g = true ->
         forall ps h nx, exists body s' tr ret,
           lookup tbl g = Some body /\ exec tbl gl m ps (mkst h nx lempty) body s' tr ret) ->
      forall body,
        (forall i, In i body ->
           match snd i with ICall g _ _ _ => ok tbl m g = true | _ => True end) ->
        forall ps s, exists s' tr ret, exec tbl gl (S m) ps s body s' tr ret.
  Proof.
    intros m IHm. induction body as [|[b o] rest IH]; intros Hcalls ps s.
    - exists s, [], None. constructor.
    - assert (Hrest : forall i, In i rest ->
                match snd i with ICall g _ _ _ => ok tbl m g = true | _ => True end).
      { intros i Hi. apply Hcalls. right; exact Hi. }
      destruct b.
      + (* must-instruction *)
        destruct o as [k|rs|rs fld|g args k hint|d rr].
        * destruct (IH Hrest ps (mkst (upd (sh s) (sn s) 0%Z) (S (sn s))
                                      (bind (sl s) k (fun c => c = sn s))))
            as (s' & tr & ret & H).
          eexists; eexists; eexists. eapply ex_alloc. exact H.
        * destruct (IH Hrest ps s) as (s' & tr & ret & H).
          eexists; eexists; eexists. eapply ex_read with (cs := []); [constructor|exact H].
        * destruct (IH Hrest ps (mkst (wr_all (sh s) []) (sn s) (sl s))) as (s' & tr & ret & H).
          eexists; eexists; eexists.
          eapply (ex_write tbl gl (S m) ps s true rs fld []); [constructor|exact H].
        * pose proof (Hcalls _ (or_introl eq_refl)) as Hg. simpl in Hg.
          destruct (IHm g Hg (map (fun a => dens gl ps (sl s) a) args) (sh s) (sn s))
            as (bodyg & s1 & tr1 & r1 & Hl & Hex1).
          destruct (IH Hrest ps
                      (mkst (sh s1) (sn s1)
                            (bind (sl s) k (match r1 with Some (_, R) => R | None => rempty end))))
            as (s' & tr2 & ret & H2).
          eexists; eexists; eexists. eapply ex_call; eassumption.
        * eexists; eexists; eexists. apply ex_return.
      + (* may-instruction: skip it *)
        destruct (IH Hrest ps s) as (s' & tr & ret & H).
        eexists; eexists; eexists. apply ex_skip. exact H.
  Qed.

  Theorem ok_inhabited : forall m f, ok tbl m f = true ->
      forall ps h nx, exists body s' tr ret,
        lookup tbl f = Some body /\ exec tbl gl m ps (mkst h nx lempty) body s' tr ret.
  Proof.
    induction m as [|m IHm]; intros f Hok ps h nx; [discriminate|].
    destruct (ok_S _ _ _ Hok) as [body [Hl Hwf]].
    destruct (body_inhabited m IHm body) with (ps := ps) (s := mkst h nx lempty)
      as (s' & tr & ret & H).
    - intros i Hi. destruct (Hwf i Hi) as [_ Hc]. exact Hc.
    - exists body, s', tr, ret. split; assumption.
  Qed.

  (* every function accepted by [ok] - in particular every pure function -
     can be run from every heap on every arguments *)
  Corollary ok_run_inhabited : forall m f, ok tbl m f = true ->
      forall ps h nx, exists h' nx' tr ret, run tbl gl m f ps h nx h' nx' tr ret.
  Proof.
    intros m f Hok ps h nx.
    destruct (ok_inhabited m f Hok ps h nx) as (body & [h' nx' le'] & tr & ret & Hl & Hex).
    exists h', nx', tr, ret. exists body, le'. split; assumption.
  Qed.

  Corollary pure_run_inhabited : forall d f, pure_fn tbl d f = true ->
      forall ps h nx, exists n h' nx' tr ret, run tbl gl n f ps h nx h' nx' tr ret.
  Proof.
    intros d f Hp ps h nx. unfold pure_fn in Hp. apply andb_true_iff in Hp.
    destruct Hp as [Hok _]. exists fuel. apply ok_run_inhabited. exact Hok.
  Qed.
End Inhabited.

(* elimination of the table-wide verdict, generic in the table *)
Lemma no_global_state_elim : forall tbl names inits f,
    no_global_state tbl names inits = true -> In f names -> ~ In f inits ->
    no_global_write tbl f = true.
Proof.
  intros tbl names inits f H Hf Hni. unfold no_global_state in H.
  rewrite forallb_forall in H. specialize (H f Hf).
  apply orb_true_iff in H. destruct H as [H|H]; [|exact H].
  exfalso. apply Hni. apply existsb_exists in H. destruct H as [x [Hx He]].
  apply String.eqb_eq in He. subst x. exact Hx.
Qed.

Print Assumptions ok_inhabited.
Print Assumptions pure_run_inhabited.

(* ------------------------------------------------------------------ *)
Print Assumptions call_sound.
Print Assumptions pure_fn_sound.
Print Assumptions no_global_write_sound.
Print Assumptions history_pure.
Print Assumptions history_same_inputs.
Print Assumptions receiver_stored_sound.
Print Assumptions schedule_independent.
Print Assumptions interleaving_equals_sequential.
Print Assumptions exec_replay.
Print Assumptions exec_heap_irrelevant.
Print Assumptions race_free.
Print Assumptions concurrent_pure_calls.
Print Assumptions bad_frame_violated.
Print Assumptions ex_hist_pure.
Print Assumptions ex_hist_runs.

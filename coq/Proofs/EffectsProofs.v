(* Soundness of the effect analyses of Model/Effects.v, generic over any
   function table:
     (a) pure_fn_sound          frame property of one call
     (b) history_pure           any finite history of calls
     (c) schedule_independent, race_free   interleavings of n threads
     (d) receiver_stored_sound  C19
   plus non-vacuity examples.  No axioms. *)
From Coq Require Import String List Bool Arith ZArith Lia.
Import ListNotations.
From Verif Require Import Model.Effects.
Open Scope string_scope.

(* ------------------------------------------------------------------ *)
(** * Basic facts about the boolean helpers *)

Lemma root_eqb_eq : forall a b, root_eqb a b = true -> a = b.
Proof.
  destruct a, b; simpl; intros H; try discriminate; try reflexivity.
  - apply Nat.eqb_eq in H; subst; reflexivity.
  - apply String.eqb_eq in H; subst; reflexivity.
  - apply Nat.eqb_eq in H; subst; reflexivity.
Qed.

Lemma memr_In : forall r l, memr r l = true -> In r l.
Proof.
  unfold memr; intros r l H. apply existsb_exists in H.
  destruct H as [x [Hin He]]. apply root_eqb_eq in He; subst; assumption.
Qed.

Lemma inclr_incl : forall a b, inclr a b = true -> incl a b.
Proof.
  unfold inclr; intros a b H r Hr.
  rewrite forallb_forall in H. apply memr_In, H, Hr.
Qed.

Section Sound.
  Variable tbl : fn_table.
  Variable gl : string -> region.

  Notation den := (den gl).
  Notation dens := (dens gl).
  Notation exec := (exec tbl gl).

  (* denotation of non-local roots (locals denote nothing) *)
  Definition densG (ps : list region) (rs : list root) : region := dens ps lempty rs.

  (* cells that a call can legitimately reach: its arguments and the globals *)
  Definition acc (ps : list region) : region :=
    fun c => (exists i, denP ps i c) \/ (exists g, gl g c).

  (* invariant on the local environment: every local denotes cells that are
     fresh w.r.t. the entry heap (>= nx0) or inside the hinted regions *)
  Definition linv (nx0 hi : nat) (ps : list region) (body0 : list instr)
             (le : nat -> region) : Prop :=
    forall k c, le k c -> nx0 <= c < hi \/ densG ps (hint_of body0 k) c.

  Lemma linv_mono : forall nx0 hi hi' ps body0 le,
      hi <= hi' -> linv nx0 hi ps body0 le -> linv nx0 hi' ps body0 le.
  Proof.
    intros nx0 hi hi' ps body0 le Hle H k c Hc.
    destruct (H k c Hc) as [Hf|Hd]; [left; lia|right; exact Hd].
  Qed.

  Lemma dens_mono : forall ps le a b c, incl a b -> dens ps le a c -> dens ps le b c.
  Proof. intros ps le a b c Hi [r [Hr Hd]]. exists r; split; auto. Qed.

  Lemma densG_app_l : forall ps a b c, densG ps a c -> densG ps (a ++ b) c.
  Proof. intros. eapply dens_mono; [|eassumption]. apply incl_appl, incl_refl. Qed.

  Lemma expand_sound : forall nx0 hi ps body0 le rs c,
      linv nx0 hi ps body0 le -> dens ps le rs c ->
      nx0 <= c < hi \/ densG ps (expands body0 rs) c.
  Proof.
    intros nx0 hi ps body0 le rs c Hinv [r [Hr Hd]].
    destruct r as [i|g|k|]; simpl in Hd.
    - right. exists (RParam i); split; [|exact Hd].
      unfold expands. apply in_flat_map. exists (RParam i); simpl; auto.
    - right. exists (RGlobal g); split; [|exact Hd].
      unfold expands. apply in_flat_map. exists (RGlobal g); simpl; auto.
    - destruct (Hinv k c Hd) as [Hf|[r' [Hr' Hd']]]; [left; exact Hf|].
      right. exists r'; split; [|exact Hd'].
      unfold expands. apply in_flat_map. exists (RLocal k); simpl; auto.
    - right. exists RUnknown; split; [|exact I].
      unfold expands. apply in_flat_map. exists RUnknown; simpl; auto.
  Qed.

  Lemma subst_sound : forall ps le args rs c,
      densG (map (fun a => dens ps le a) args) rs c ->
      dens ps le (substs args rs) c.
  Proof.
    intros ps le args rs c [r [Hr Hd]].
    destruct r as [i|g|k|]; simpl in Hd.
    - unfold denP in Hd. rewrite nth_error_map in Hd.
      destruct (nth_error args i) as [a|] eqn:Ha; simpl in Hd; [|contradiction].
      destruct Hd as [r' [Hr' Hd']]. exists r'; split; [|exact Hd'].
      unfold substs. apply in_flat_map. exists (RParam i); split; [exact Hr|].
      simpl. rewrite Ha. exact Hr'.
    - exists (RGlobal g); split; [|exact Hd].
      unfold substs. apply in_flat_map. exists (RGlobal g); simpl; auto.
    - contradiction.
    - exists RUnknown; split; [|exact I].
      unfold substs. apply in_flat_map. exists RUnknown; simpl; auto.
  Qed.

  (* hints of a call instruction in the body are part of hint_of *)
  Lemma hint_of_in : forall body0 b f args k h,
      In (b, ICall f args k h) body0 -> incl h (hint_of body0 k).
  Proof.
    intros body0 b f args k h Hin r Hr. unfold hint_of.
    apply in_flat_map. exists (b, ICall f args k h); split; [exact Hin|].
    simpl. rewrite Nat.eqb_refl. exact Hr.
  Qed.

  Lemma wbody_write_in : forall ws body0 b rs fld,
      In (b, IWrite rs fld) body0 -> incl (expands body0 rs) (wbody ws body0).
  Proof.
    intros ws body0 b rs fld Hin r Hr. unfold wbody.
    apply in_flat_map. exists (b, IWrite rs fld); split; [exact Hin|exact Hr].
  Qed.

  Lemma wbody_call_in : forall ws body0 b f args k h,
      In (b, ICall f args k h) body0 ->
      incl (expands body0 (substs args (ws f))) (wbody ws body0).
  Proof.
    intros ws body0 b f args k h Hin r Hr. unfold wbody.
    apply in_flat_map. exists (b, ICall f args k h); split; [exact Hin|exact Hr].
  Qed.

  Lemma rbody_ret_in : forall body0 b d rr,
      In (b, IReturn d rr) body0 -> incl (expands body0 rr) (rbody body0).
  Proof.
    intros body0 b d rr Hin r Hr. unfold rbody.
    apply in_flat_map. exists (b, IReturn d rr); split; [exact Hin|exact Hr].
  Qed.

  (* ---------------------------------------------------------------- *)
  (** ** Well-formedness extracted from [ok] *)

  Definition wf_body (m : nat) (body0 : list instr) : Prop :=
    forall i, In i body0 ->
      instr_ok tbl body0 i = true /\
      match snd i with ICall g _ _ _ => ok tbl m g = true | _ => True end.

  Lemma ok_S : forall m f, ok tbl (S m) f = true ->
      exists body, lookup tbl f = Some body /\ wf_body m body.
  Proof.
    intros m f H. simpl in H. destruct (lookup tbl f) as [body|]; [|discriminate].
    exists body; split; [reflexivity|].
    apply andb_true_iff in H. destruct H as [H1 H2].
    rewrite forallb_forall in H1, H2.
    intros i Hi; split; [apply H1, Hi|].
    specialize (H2 i Hi). destruct (snd i); auto.
  Qed.

  Lemma instr_known : forall body0 i, instr_ok tbl body0 i = true ->
      forallb known (roots_of (snd i)) = true.
  Proof. unfold instr_ok; intros body0 i H. apply andb_true_iff in H. tauto. Qed.

  Lemma densG_acc : forall ps rs c,
      forallb known rs = true -> densG ps rs c -> acc ps c.
  Proof.
    intros ps rs c Hk [r [Hr Hd]]. rewrite forallb_forall in Hk.
    specialize (Hk r Hr). destruct r as [i|g|k|]; simpl in *.
    - left; exists i; exact Hd.
    - right; exists g; exact Hd.
    - contradiction.
    - discriminate.
  Qed.

  Lemma hint_known : forall m body0 k, wf_body m body0 ->
      forallb known (hint_of body0 k) = true.
  Proof.
    intros m body0 k Hwf. apply forallb_forall. intros r Hr.
    unfold hint_of in Hr. apply in_flat_map in Hr. destruct Hr as [i [Hi Hr]].
    destruct (Hwf i Hi) as [Hok _]. apply instr_known in Hok.
    destruct i as [b o]; simpl in *. destruct o; try contradiction.
    destruct (Nat.eqb k0 k); [|contradiction].
    simpl in Hok. rewrite forallb_app in Hok. apply andb_true_iff in Hok.
    destruct Hok as [_ Hok]. rewrite forallb_forall in Hok. apply Hok, Hr.
  Qed.

  Lemma dens_acc : forall m nx0 hi ps body0 le rs c,
      wf_body m body0 -> linv nx0 hi ps body0 le ->
      forallb known rs = true -> dens ps le rs c -> nx0 <= c < hi \/ acc ps c.
  Proof.
    intros m nx0 hi ps body0 le rs c Hwf Hinv Hk [r [Hr Hd]].
    rewrite forallb_forall in Hk. specialize (Hk r Hr).
    destruct r as [i|g|k|]; simpl in *.
    - right; left; exists i; exact Hd.
    - right; right; exists g; exact Hd.
    - destruct (Hinv k c Hd) as [Hf|Hh]; [left; exact Hf|right].
      eapply densG_acc; [|exact Hh]. eapply hint_known; eassumption.
    - discriminate.
  Qed.

  (* ---------------------------------------------------------------- *)
  (** ** The specification of a call and of a body *)

End Sound.

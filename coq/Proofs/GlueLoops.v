(* Facts about the support definitions of Lib/GoGlue.v, and the loop shapes
   that tools/limbgen (glue translator) generates for Element.Sqrt and
   BatchInvert, written ONCE over an abstract element type and related to the
   hand-written fixpoints (Proofs/SqrtRefine.v: gsqn / gfind_m / gts_loop; the
   list recursions batch_fwd / batch_bwd of Model/Ff{,g}Limbs.v).

   Proofs/FfGlueEq.v and Proofs/FfgGlueEq.v show that the generated fixpoints
   of Gen/FfGlue.v / Gen/FfgGlue.v ARE these shapes (so a change of a generated
   loop breaks there) and conclude with the lemmas below.  No axioms. *)
From Coq Require Import ZArith Lia List Bool.
From Verif Require Import Lib.Params Lib.Words Lib.Octets Lib.GoGlue Proofs.SqrtRefine.
Import ListNotations.
Local Open Scope Z_scope.

(* ------------------------------------------------------------------ *)
(** * math/big and machine integers *)

Lemma big_cmp_eqb : forall x y, Z.eqb (big_cmp x y) 0 = (x =? y).
Proof.
  intros x y. unfold big_cmp.
  destruct (Z.compare_spec x y) as [H | H | H].
  - subst y. rewrite (Z.eqb_refl x). reflexivity.
  - symmetry. apply Z.eqb_neq. lia.
  - symmetry. apply Z.eqb_neq. lia.
Qed.

Lemma big_cmp_eq0 : forall e, Z.eqb (big_cmp e 0) 0 = (e =? 0).
Proof. intros e. apply big_cmp_eqb. Qed.

Lemma big_cmp_is1 : forall x y, Z.eqb (big_cmp x y) 1 = (x >? y).
Proof. intros x y. unfold big_cmp, Z.gtb. destruct (x ?= y); reflexivity. Qed.

Lemma big_cmp_ism1 : forall x y, Z.eqb (big_cmp x y) (- 1) = (x <? y).
Proof. intros x y. unfold big_cmp, Z.ltb. destruct (x ?= y); reflexivity. Qed.

Lemma big_bit_is1 : forall e i, Z.eqb (big_bit e i) 1 = Z.testbit e i.
Proof. intros e i. unfold big_bit. destruct (Z.testbit e i); reflexivity. Qed.

(* number of iterations of `for i := e.BitLen() - 2; i >= 0; i--` *)
Lemma big_bitlen_iters : forall e, e <> 0 ->
  Z.to_nat (big_bitlen e - 2 + 1) = Z.to_nat (Z.log2 (Z.abs e)).
Proof.
  intros e He. unfold big_bitlen.
  destruct (Z.eqb_spec (Z.abs e) 0) as [H | _]; [ lia | ].
  f_equal. lia.
Qed.

Lemma big_bitlen_nonneg : forall e, 0 <= e ->
  big_bitlen e = if Z.eqb e 0 then 0 else Z.log2 e + 1.
Proof. intros e He. unfold big_bitlen. rewrite Z.abs_eq by exact He. reflexivity. Qed.

Lemma W_val : W = 2 ^ 64.
Proof. reflexivity. Qed.

(* int(uint64(x)) for x in the int64 range *)
Lemma int_of_u64_mod : forall x, - 2 ^ 63 <= x < 2 ^ 63 -> int_of_u64 (x mod W) = x.
Proof.
  intros x Hx. unfold int_of_u64. change 9223372036854775808 with (2 ^ 63).
  assert (HW : W = 2 * 2 ^ 63) by reflexivity.
  destruct (Z_lt_le_dec x 0) as [Hn | Hp].
  - replace (x mod W) with (x + W).
    + destruct (Z.ltb_spec (x + W) (2 ^ 63)); lia.
    + apply Z.mod_unique with (q := -1); lia.
  - rewrite Z.mod_small by lia.
    destruct (Z.ltb_spec x (2 ^ 63)); lia.
Qed.

Lemma wsub_wsub : forall a b c, wsub (wsub a b) c = (a - b - c) mod W.
Proof. intros a b c. unfold wsub. rewrite Zminus_mod_idemp_l. reflexivity. Qed.

Lemma wadd_small : forall a b, 0 <= a + b < W -> wadd a b = a + b.
Proof. intros a b H. unfold wadd. apply Z.mod_small. exact H. Qed.

Lemma wsub_small : forall a b, 0 <= a - b < W -> wsub a b = a - b.
Proof. intros a b H. unfold wsub. apply Z.mod_small. exact H. Qed.

(* ------------------------------------------------------------------ *)
(** * slices *)

Lemma lnth_app_len : forall (A : Type) (d : A) (l1 l2 : list A) (x : A),
  lnth d (l1 ++ x :: l2) (Z.of_nat (length l1)) = x.
Proof.
  intros A d l1 l2 x. unfold lnth.
  destruct (Z.ltb_spec (Z.of_nat (length l1)) 0); [ lia | ].
  rewrite Nat2Z.id. rewrite app_nth2 by lia. rewrite Nat.sub_diag. reflexivity.
Qed.

Lemma lupd_nat_app_len : forall (A : Type) (l1 l2 : list A) (x v : A),
  lupd_nat (l1 ++ x :: l2) (length l1) v = l1 ++ v :: l2.
Proof.
  intros A l1. induction l1 as [ | a l1 IH]; intros l2 x v; cbn [app length lupd_nat].
  - reflexivity.
  - rewrite IH. reflexivity.
Qed.

Lemma lupd_app_len : forall (A : Type) (l1 l2 : list A) (x v : A),
  lupd (l1 ++ x :: l2) (Z.of_nat (length l1)) v = l1 ++ v :: l2.
Proof.
  intros A l1 l2 x v. unfold lupd.
  destruct (Z.ltb_spec (Z.of_nat (length l1)) 0); [ lia | ].
  rewrite Nat2Z.id. apply lupd_nat_app_len.
Qed.

Lemma lnth_app_len' : forall (A : Type) (d : A) (l1 l2 : list A) (x : A) n,
  length l1 = n -> lnth d (l1 ++ x :: l2) (Z.of_nat n) = x.
Proof. intros A d l1 l2 x n <-. apply lnth_app_len. Qed.

Lemma lupd_app_len' : forall (A : Type) (l1 l2 : list A) (x v : A) n,
  length l1 = n -> lupd (l1 ++ x :: l2) (Z.of_nat n) v = l1 ++ v :: l2.
Proof. intros A l1 l2 x v n <-. apply lupd_app_len. Qed.

Lemma lmake_llen : forall (A : Type) (d : A) (B : Type) (l : list B),
  lmake d (llen l) = repeat d (length l).
Proof. intros A d B l. unfold lmake, llen. rewrite Nat2Z.id. reflexivity. Qed.

Lemma llen_0 : forall (A : Type) (l : list A), Z.eqb (llen l) 0 = match l with [] => true | _ => false end.
Proof. intros A [ | a l]; unfold llen; cbn [length]; [ reflexivity | ]. destruct (Z.eqb_spec (Z.of_nat (S (length l))) 0); [ lia | reflexivity ]. Qed.

(* ------------------------------------------------------------------ *)
(** * The loops of Element.Sqrt, as generated *)

Section SqrtShape.
  Variable E : Type.
  Variables (mul : E -> E -> E) (sq : E -> E) (isOneM : E -> bool).

  (* for i := uint64(0); i < r-1; i++ { t.Square(&t) } *)
  Fixpoint s_loop1 (n : nat) (i : Z) (t : E) {struct n} : E :=
    match n with
    | O => t
    | S n => s_loop1 n (i + 1) (sq t)
    end.

  (* for !(t == one) { t.Square(&t); m++ } *)
  Fixpoint s_loop3 (fuel3 : nat) (t : E) (m : Z) {struct fuel3} : fuelled (E * Z) :=
    match fuel3 with
    | O => OutOfFuel
    | S fuel3 =>
        if negb (isOneM t) then s_loop3 fuel3 (sq t) (wadd m 1) else Done (t, m)
    end.

  (* for ge > 0 { t.Square(&t); ge-- } *)
  Fixpoint s_loop4 (fuel4 : nat) (t : E) (ge : Z) {struct fuel4} : fuelled (E * Z) :=
    match fuel4 with
    | O => OutOfFuel
    | S fuel4 =>
        if Z.gtb ge 0 then s_loop4 fuel4 (sq t) (ge - 1) else Done (t, ge)
    end.

  (* the outer for { .. } *)
  Fixpoint s_loop2 (fuel2 fuel3 fuel4 : nat) (y b g : E) (r : Z) {struct fuel2}
    : fuelled (option E) :=
    match fuel2 with
    | O => OutOfFuel
    | S fuel2 =>
        match s_loop3 fuel3 b 0 with
        | OutOfFuel => OutOfFuel
        | Done (t, m) =>
            if Z.eqb m 0 then Done (Some y)
            else
              match s_loop4 fuel4 g (int_of_u64 (wsub (wsub r m) 1)) with
              | OutOfFuel => OutOfFuel
              | Done (t, ge) =>
                  s_loop2 fuel2 fuel3 fuel4 (mul y t) (mul b (sq t)) (sq t) m
              end
        end
    end.

  Lemma s_loop1_eq : forall n i t, s_loop1 n i t = gsqn E sq n t.
  Proof.
    induction n as [ | n IH]; intros i t; cbn [s_loop1 gsqn]; [ reflexivity | apply IH ].
  Qed.

  Lemma gfind_m_bounds : forall fuel t m m',
    gfind_m E sq isOneM fuel t m = Some m' -> m <= m' < m + Z.of_nat fuel.
  Proof.
    induction fuel as [ | f IH]; intros t m m' H; cbn [gfind_m] in H; [ discriminate H | ].
    destruct (isOneM t).
    - injection H as <-. lia.
    - apply IH in H. lia.
  Qed.

  Lemma s_loop3_of_find_m : forall f t m m' f',
    gfind_m E sq isOneM f t m = Some m' -> (f <= f')%nat ->
    0 <= m -> m + Z.of_nat f < W ->
    exists t', s_loop3 f' t m = Done (t', m').
  Proof.
    induction f as [ | f IH]; intros t m m' f' H Hf Hm HW; cbn [gfind_m] in H; [ discriminate H | ].
    destruct f' as [ | f']; [ lia | ]. cbn [s_loop3].
    destruct (isOneM t); cbn [negb].
    - injection H as <-. exists t. reflexivity.
    - rewrite wadd_small by lia.
      apply (IH (sq t) (m + 1) m' f' H); lia.
  Qed.

  Lemma s_loop4_sqn : forall k ge t f, Z.to_nat ge = k -> (k < f)%nat ->
    exists ge', s_loop4 f t ge = Done (gsqn E sq k t, ge').
  Proof.
    induction k as [ | k IH]; intros ge t f Hk Hf; (destruct f as [ | f]; [ lia | ]); cbn [s_loop4 gsqn].
    - destruct (Z.gtb_spec ge 0) as [Hg | Hg]; [ lia | ]. exists ge. reflexivity.
    - destruct (Z.gtb_spec ge 0) as [Hg | Hg]; [ | lia ].
      apply IH; lia.
  Qed.

  Lemma s_loop2_of_ts_loop : forall fuel f2 f3 f4 y b g r z,
    gts_loop E mul sq isOneM fuel y b g r = Some z ->
    0 <= r < 2 ^ 62 -> (fuel <= f2)%nat ->
    (Z.to_nat r + 1 <= f3)%nat -> (Z.to_nat r <= f4)%nat ->
    s_loop2 f2 f3 f4 y b g r = Done (Some z).
  Proof.
    induction fuel as [ | fuel IH]; intros f2 f3 f4 y b g r z H Hr H2 H3 H4;
      cbn [gts_loop] in H; [ discriminate H | ].
    destruct f2 as [ | f2]; [ lia | ]. cbn [s_loop2].
    destruct (gfind_m E sq isOneM (Z.to_nat r + 1) b 0) as [m | ] eqn:Fm; [ | discriminate H ].
    pose proof (gfind_m_bounds _ _ _ _ Fm) as Bm.
    assert (HW : 0 + Z.of_nat (Z.to_nat r + 1) < W).
    { rewrite W_val. assert (2 ^ 62 < 2 ^ 64) by (apply Z.pow_lt_mono_r; lia). lia. }
    destruct (s_loop3_of_find_m _ _ _ _ f3 Fm H3 (Z.le_refl 0) HW) as [t' E3]. rewrite E3.
    destruct (Z.eqb_spec m 0) as [M0 | M0].
    - injection H as <-. reflexivity.
    - assert (Hm : 1 <= m <= r) by lia.
      rewrite wsub_wsub.
      assert (P63 : 2 ^ 62 < 2 ^ 63) by (apply Z.pow_lt_mono_r; lia).
      rewrite int_of_u64_mod by lia.
      destruct (s_loop4_sqn (Z.to_nat (r - m - 1)) (r - m - 1) g f4 eq_refl) as [ge' E4]; [ lia | ].
      rewrite E4.
      apply (IH f2 f3 f4 _ _ _ m z H); lia.
  Qed.
End SqrtShape.

(* ------------------------------------------------------------------ *)
(** * The loops of BatchInvert, as generated (index loops over slices) versus
      the list recursions of the hand-written models *)

Section BatchShape.
  Variable E : Type.
  Variables (zeroE : E) (isZ : E -> bool) (mul : E -> E -> E).

  (* the hand-written shape (Model/FfLimbs.batch_fwd / batch_bwd) *)
  Fixpoint h_fwd (a : list E) (acc : E) : list E * list bool * E :=
    match a with
    | [] => ([], [], acc)
    | ai :: a' =>
        if isZ ai then
          let '(res, zs, acc') := h_fwd a' acc in (zeroE :: res, true :: zs, acc')
        else
          let '(res, zs, acc') := h_fwd a' (mul acc ai) in (acc :: res, false :: zs, acc')
    end.
  Fixpoint h_bwd (a res : list E) (zs : list bool) (acc : E) : list E * E :=
    match a, res, zs with
    | ai :: a', ri :: r', zi :: z' =>
        let '(out, acc) := h_bwd a' r' z' acc in
        if zi then (ri :: out, acc) else (mul ri acc :: out, mul acc ai)
    | _, _, _ => ([], acc)
    end.

  (* the generated shape *)
  Fixpoint g_fwd (n : nat) (i : Z) (a res : list E) (zeroes : list bool) (acc : E) {struct n}
    : list E * list bool * E :=
    match n with
    | O => (res, zeroes, acc)
    | S n =>
        if isZ (lnth zeroE a i) then g_fwd n (i + 1) a res (lupd zeroes i true) acc
        else g_fwd n (i + 1) a (lupd res i acc) zeroes (mul acc (lnth zeroE a i))
    end.
  Fixpoint g_bwd (n : nat) (a : list E) (zeroes : list bool) (res : list E) (acc : E) {struct n}
    : list E * E :=
    match n with
    | O => (res, acc)
    | S n =>
        if lnth false zeroes (Z.of_nat n) then g_bwd n a zeroes res acc
        else g_bwd n a zeroes
               (lupd res (Z.of_nat n) (mul (lnth zeroE res (Z.of_nat n)) acc))
               (mul acc (lnth zeroE a (Z.of_nat n)))
    end.

  Lemma h_fwd_length : forall a acc res zs acc',
    h_fwd a acc = (res, zs, acc') -> length res = length a /\ length zs = length a.
  Proof.
    induction a as [ | ai a IH]; intros acc res zs acc' H; cbn [h_fwd] in H.
    - injection H as <- <- _. split; reflexivity.
    - destruct (isZ ai).
      + destruct (h_fwd a acc) as [[r z] c] eqn:R. injection H as <- <- _.
        destruct (IH _ _ _ _ R) as [L1 L2]. cbn [length]. split; congruence.
      + destruct (h_fwd a (mul acc ai)) as [[r z] c] eqn:R. injection H as <- <- _.
        destruct (IH _ _ _ _ R) as [L1 L2]. cbn [length]. split; congruence.
  Qed.

  Lemma g_fwd_spec : forall a2 a1 r1 z1 acc,
    length r1 = length a1 -> length z1 = length a1 ->
    g_fwd (length a2) (Z.of_nat (length a1)) (a1 ++ a2)
      (r1 ++ repeat zeroE (length a2)) (z1 ++ repeat false (length a2)) acc
    = let '(r2, z2, acc') := h_fwd a2 acc in (r1 ++ r2, z1 ++ z2, acc').
  Proof.
    induction a2 as [ | x a2 IH]; intros a1 r1 z1 acc Hr Hz; cbn [length g_fwd h_fwd repeat].
    - reflexivity.
    - rewrite lnth_app_len.
      assert (Hi : Z.of_nat (length a1) + 1 = Z.of_nat (length (a1 ++ [x]))).
      { rewrite app_length. cbn [length]. lia. }
      assert (Ea : a1 ++ x :: a2 = (a1 ++ [x]) ++ a2) by (rewrite <- app_assoc; reflexivity).
      destruct (isZ x).
      + rewrite (lupd_app_len' _ z1 _ false true _ Hz). rewrite Hi, Ea.
        replace (r1 ++ zeroE :: repeat zeroE (length a2)) with ((r1 ++ [zeroE]) ++ repeat zeroE (length a2))
          by (rewrite <- app_assoc; reflexivity).
        replace (z1 ++ true :: repeat false (length a2)) with ((z1 ++ [true]) ++ repeat false (length a2))
          by (rewrite <- app_assoc; reflexivity).
        rewrite IH by (rewrite !app_length; cbn [length]; lia).
        destruct (h_fwd a2 acc) as [[r2 z2] acc'].
        rewrite <- !app_assoc. reflexivity.
      + rewrite (lupd_app_len' _ r1 _ zeroE acc _ Hr). rewrite Hi, Ea.
        replace (r1 ++ acc :: repeat zeroE (length a2)) with ((r1 ++ [acc]) ++ repeat zeroE (length a2))
          by (rewrite <- app_assoc; reflexivity).
        replace (z1 ++ false :: repeat false (length a2)) with ((z1 ++ [false]) ++ repeat false (length a2))
          by (rewrite <- app_assoc; reflexivity).
        rewrite IH by (rewrite !app_length; cbn [length]; lia).
        destruct (h_fwd a2 (mul acc x)) as [[r2 z2] acc'].
        rewrite <- !app_assoc. reflexivity.
  Qed.

  Lemma h_bwd_snoc : forall a r z x rx zx acc,
    length r = length a -> length z = length a ->
    h_bwd (a ++ [x]) (r ++ [rx]) (z ++ [zx]) acc =
    let '(rx', acc1) := if zx then (rx, acc) else (mul rx acc, mul acc x) in
    let '(out, acc2) := h_bwd a r z acc1 in (out ++ [rx'], acc2).
  Proof.
    induction a as [ | a0 a IH]; intros r z x rx zx acc Hr Hz.
    - destruct r; [ | discriminate Hr ]. destruct z; [ | discriminate Hz ].
      cbn [app h_bwd]. destruct zx; reflexivity.
    - destruct r as [ | r0 r]; [ discriminate Hr | ]. destruct z as [ | z0 z]; [ discriminate Hz | ].
      cbn [app h_bwd]. rewrite IH by (cbn [length] in *; lia).
      destruct zx.
      + destruct (h_bwd a r z acc) as [out acc2]. destruct z0; reflexivity.
      + destruct (h_bwd a r z (mul acc x)) as [out acc2]. destruct z0; reflexivity.
  Qed.

  Lemma snoc_of_length : forall (A : Type) (l : list A) n, length l = S n ->
    exists l' x, l = l' ++ [x] /\ length l' = n.
  Proof.
    intros A l n H. destruct (exists_last (l := l)) as [l' [x Hl]].
    - intros ->. discriminate H.
    - exists l', x. split; [ exact Hl | ]. subst l. rewrite app_length in H. cbn [length] in H. lia.
  Qed.

  Lemma g_bwd_spec : forall a1 r1 z1 a2 r2 z2 acc,
    length r1 = length a1 -> length z1 = length a1 ->
    g_bwd (length a1) (a1 ++ a2) (z1 ++ z2) (r1 ++ r2) acc
    = let '(out, acc') := h_bwd a1 r1 z1 acc in (out ++ r2, acc').
  Proof.
    induction a1 as [ | x a1 IH] using rev_ind; intros r1 z1 a2 r2 z2 acc Hr Hz.
    - destruct r1; [ | discriminate Hr ]. destruct z1; [ | discriminate Hz ]. reflexivity.
    - rewrite app_length in Hr, Hz. cbn [length] in Hr, Hz.
      replace (length a1 + 1)%nat with (S (length a1)) in Hr, Hz by lia.
      destruct (snoc_of_length _ _ _ Hr) as (r1' & rx & -> & Lr).
      destruct (snoc_of_length _ _ _ Hz) as (z1' & zx & -> & Lz).
      rewrite app_length. cbn [length]. replace (length a1 + 1)%nat with (S (length a1)) by lia.
      cbn [g_bwd]. rewrite <- !app_assoc. cbn [app].
      rewrite (lnth_app_len' _ false z1' _ zx _ Lz).
      rewrite h_bwd_snoc by assumption.
      destruct zx.
      + rewrite IH by assumption.
        destruct (h_bwd a1 r1' z1' acc) as [out acc']. rewrite <- app_assoc. reflexivity.
      + rewrite (lnth_app_len' _ zeroE r1' _ rx _ Lr), (lupd_app_len' _ r1' _ rx _ _ Lr).
        rewrite (lnth_app_len' _ zeroE a1 _ x _ eq_refl).
        rewrite IH by assumption.
        destruct (h_bwd a1 r1' z1' (mul acc x)) as [out acc']. rewrite <- app_assoc. reflexivity.
  Qed.

  (* the two loops as they are called: whole slices *)
  Lemma g_fwd_whole : forall a acc,
    g_fwd (length a) 0 a (repeat zeroE (length a)) (repeat false (length a)) acc = h_fwd a acc.
  Proof.
    intros a acc. pose proof (g_fwd_spec a [] [] [] acc eq_refl eq_refl) as H.
    cbn [app length] in H. change (Z.of_nat 0) with 0 in H. rewrite H.
    destruct (h_fwd a acc) as [[r z] c]. reflexivity.
  Qed.

  Lemma g_bwd_whole : forall a r z acc, length r = length a -> length z = length a ->
    g_bwd (length a) a z r acc = h_bwd a r z acc.
  Proof.
    intros a r z acc Hr Hz. pose proof (g_bwd_spec a r z [] [] [] acc Hr Hz) as H.
    rewrite !app_nil_r in H. rewrite H.
    destruct (h_bwd a r z acc) as [out acc']. rewrite app_nil_r. reflexivity.
  Qed.
End BatchShape.

(* ------------------------------------------------------------------ *)
(** * big.Int.Bits: number of words, and the words above it are zero *)

Lemma W_pow : forall k, W ^ Z.of_nat k = 2 ^ (64 * Z.of_nat k).
Proof. intros k. rewrite W_val, <- Z.pow_mul_r by lia. reflexivity. Qed.

Lemma big_bitlen_bound : forall v, 0 <= v -> v < 2 ^ big_bitlen v.
Proof.
  intros v Hv. rewrite big_bitlen_nonneg by exact Hv.
  destruct (Z.eqb_spec v 0) as [-> | Hn]; [ reflexivity | ].
  apply Z.log2_spec. lia.
Qed.

Lemma big_bitlen_le : forall v n, 0 <= n -> 0 <= v < 2 ^ n -> big_bitlen v <= n.
Proof.
  intros v n Hn Hv. rewrite big_bitlen_nonneg by lia.
  destruct (Z.eqb_spec v 0) as [-> | Hz]; [ lia | ].
  assert (Z.log2 v < n) by (apply Z.log2_lt_pow2; lia). lia.
Qed.

Lemma big_bitlen_pos : forall v, 0 <= big_bitlen v.
Proof.
  intros v. unfold big_bitlen. destruct (Z.abs v =? 0); [ lia | ].
  pose proof (Z.log2_nonneg (Z.abs v)). lia.
Qed.

Lemma big_nwords_bound : forall v k, 0 <= v < W ^ Z.of_nat k -> (big_nwords v <= k)%nat.
Proof.
  intros v k Hv. rewrite W_pow in Hv. unfold big_nwords.
  assert (L : big_bitlen v <= 64 * Z.of_nat k) by (apply big_bitlen_le; lia).
  pose proof (big_bitlen_pos v) as P.
  assert ((big_bitlen v + 63) / 64 < Z.of_nat k + 1).
  { apply Z.div_lt_upper_bound; lia. }
  lia.
Qed.

Lemma big_nwords_lt : forall v, 0 <= v -> v < W ^ Z.of_nat (big_nwords v).
Proof.
  intros v Hv. rewrite W_pow. unfold big_nwords.
  pose proof (big_bitlen_pos v) as P. pose proof (big_bitlen_bound v Hv) as B.
  rewrite Z2Nat.id by (apply Z.div_pos; lia).
  eapply Z.lt_le_trans; [ exact B | ].
  apply Z.pow_le_mono_r; [ lia | ].
  pose proof (Z.div_mod (big_bitlen v + 63) 64 ltac:(lia)) as D.
  pose proof (Z.mod_pos_bound (big_bitlen v + 63) 64 ltac:(lia)) as M. lia.
Qed.

Lemma big_word_high : forall v j, 0 <= v -> (big_nwords v <= j)%nat ->
  (v / W ^ Z.of_nat j) mod W = 0.
Proof.
  intros v j Hv Hj.
  assert (v < W ^ Z.of_nat j).
  { eapply Z.lt_le_trans; [ apply big_nwords_lt; exact Hv | ].
    apply Z.pow_le_mono_r; [ rewrite W_val; lia | lia ]. }
  rewrite Z.div_small by lia. reflexivity.
Qed.

Lemma big_bits_nonneg : forall v, 0 <= v ->
  big_bits v = map (fun i => (v / W ^ Z.of_nat i) mod W) (seq 0 (big_nwords v)).
Proof. intros v Hv. unfold big_bits. rewrite Z.abs_eq by exact Hv. reflexivity. Qed.

(* C09 / C11, helper shared by Proofs/FfgOps.v and Proofs/FfgConv.v:
   the Montgomery conversions of /repo/ffg (Mul in field-value form,
   FromMont, ToMont, SetBigInt, ToBigIntRegular).

   Inverse (FfgOps) goes through SetBigInt (FfgConv), and SetBigInt goes
   through ToMont (FfgOps): the common core lives here, the two files
   re-state the results under the names of the task. *)
From Coq Require Import ZArith List Lia Zdiv Znumtheory Morphisms Setoid.
From Verif Require Import Lib.Params Lib.Words Lib.Powmod Lib.NumberTheory
  Lib.Primes Model.FfgLimbs Proofs.FfgArith.
Import ListNotations.
Local Open Scope Z_scope.

Local Ltac Zify.zify_post_hook ::= Z.div_mod_to_equations.
Local Ltac zl := unfold canon, u64, pg, W in *; lia.

(* ------------------------------------------------------------------ *)
(** * Mul in field-value form *)

(* x may be any 64-bit word; mval is defined on every integer *)
Theorem mul_correct_gen : forall x y, u64 x -> canon y ->
  canon (mulGeneric x y) /\ mval (mulGeneric x y) = (mval x * mval y) mod pg.
Proof.
  intros x y Hx Hy. destruct (mul_correct_u64 x y Hx Hy) as [Hc Hm].
  split; [ exact Hc | ].
  apply eqp_mod_eq; [ apply mval_canon | ].
  fold (eqp (mulGeneric x y * W) (x * y)) in Hm.
  apply eqp_W_cancel in Hm.
  rewrite !mval_eqp. rewrite Hm.
  replace (x * y * Rinv * Rinv) with (x * Rinv * (y * Rinv)) by ring.
  reflexivity.
Qed.

Theorem mul_correct : forall x y, canon x -> canon y ->
  canon (mulGeneric x y) /\ mval (mulGeneric x y) = (mval x * mval y) mod pg.
Proof. intros x y Hx Hy. apply mul_correct_gen; [ apply canon_u64; exact Hx | exact Hy ]. Qed.

Lemma mval_rSquare : mval rSquare = W mod pg.
Proof. vm_compute. reflexivity. Qed.

(* mval of a raw word: mval v * W = v (mod pg) *)
Lemma mval_times_W_mod : forall v, (mval v * (W mod pg)) mod pg = v mod pg.
Proof.
  intros v. rewrite Z.mul_mod_idemp_r by (unfold pg; lia).
  exact (mval_W v).
Qed.

(* ------------------------------------------------------------------ *)
(** * FromMont *)

(* true on every 64-bit word (z = q is the one input that takes the
   subtraction branch) *)
Theorem fromMont_correct_u64 : forall z, u64 z ->
  canon (fromMontGeneric z) /\ fromMontGeneric z = mval z.
Proof.
  intros z Hz. unfold fromMontGeneric. cbv zeta.
  destruct (mont_C_spec z Hz) as (m & Hm & -> & HC).
  remember (madd0 m qg z) as C eqn:EC. clear EC.
  rewrite qg_eq. cbv beta iota zeta delta [sub64].
  assert (HCr : 0 <= C <= pg) by zl.
  assert (Heq : C ==p z * Rinv).
  { apply eqp_W_cancel. unfold eqp. apply (eqmod_intro _ _ m). lia. }
  destruct (Z.ltb_spec C pg) as [E | E]; cbn [negb].
  - assert (Hc : canon C) by zl. split; [ exact Hc | ].
    unfold mval. apply eqp_mod_eq; [ exact Hc | exact Heq ].
  - assert (EC : C = pg) by lia. subst C.
    replace ((pg - pg - 0) mod W) with 0 by (unfold pg, W; reflexivity).
    split; [ exact canon_0 | ].
    unfold mval. apply eqp_mod_eq; [ exact canon_0 | ].
    rewrite <- Heq. symmetry. exact eqp_pg.
Qed.

Theorem fromMont_ok : forall z, canon z ->
  canon (fromMontGeneric z) /\ fromMontGeneric z = mval z.
Proof. intros z Hz. apply fromMont_correct_u64. apply canon_u64. exact Hz. Qed.

(* ------------------------------------------------------------------ *)
(** * ToMont *)

Theorem toMont_ok_u64 : forall z, u64 z ->
  canon (toMont z) /\ mval (toMont z) = z mod pg.
Proof.
  intros z Hz. unfold toMont.
  destruct (mul_correct_gen z rSquare Hz canon_rSquare) as [Hc Hm].
  split; [ exact Hc | ]. rewrite Hm, mval_rSquare. apply mval_times_W_mod.
Qed.

Theorem toMont_ok : forall z, canon z -> canon (toMont z) /\ mval (toMont z) = z.
Proof.
  intros z Hz. destruct (toMont_ok_u64 z (canon_u64 z Hz)) as [Hc Hm].
  split; [ exact Hc | ]. rewrite Hm. apply Z.mod_small. exact Hz.
Qed.

(* ------------------------------------------------------------------ *)
(** * SetBigInt / ToBigIntRegular *)

Theorem setBigInt_ok : forall v : Z,
  canon (setBigInt v) /\ mval (setBigInt v) = v mod pg.
Proof.
  intros v. unfold setBigInt, setBigInt_inner. cbv zeta. rewrite modulus_eq.
  assert (Hmodcase : canon (toMont (v mod pg)) /\ mval (toMont (v mod pg)) = v mod pg).
  { apply toMont_ok. apply canon_mod. }
  destruct (Z.compare_spec v pg) as [E | E | E].
  - subst v. split; [ exact canon_0 | ].
    rewrite mval_0. rewrite Z.mod_same by (unfold pg; lia). reflexivity.
  - destruct (Z.ltb_spec v 0) as [N | N]; cbn [negb andb].
    + exact Hmodcase.
    + assert (Hv : canon v) by (unfold canon; lia).
      destruct (toMont_ok v Hv) as [Hc Hm]. split; [ exact Hc | ].
      rewrite Hm. symmetry. apply Z.mod_small. exact Hv.
  - cbn [negb andb]. exact Hmodcase.
Qed.

Theorem toBigIntRegular_ok : forall z, canon z ->
  canon (toBigIntRegular z) /\ toBigIntRegular z = mval z.
Proof. intros z Hz. unfold toBigIntRegular. cbv zeta. apply fromMont_ok. exact Hz. Qed.

Print Assumptions mul_correct_gen.
Print Assumptions fromMont_correct_u64.
Print Assumptions toMont_ok_u64.
Print Assumptions setBigInt_ok.
Print Assumptions toBigIntRegular_ok.

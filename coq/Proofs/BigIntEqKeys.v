(* Part of the equality lemmas between the Gallina regenerated from the Go
   sources by tools/bigintgen (Gen/BigIntRoutines.v) and the hand-written models:
   babyjub key derivation (pruneBuffer, SkToBigInt, Scalar, Public and the type conversions).
   The lemmas are split over Proofs/BigIntEq*.v so that an edit of one Go
   function breaks only the file of that function (and the files that use its
   lemma); Proofs/BigIntEqAll.v exports all of them. *)
From Coq Require Import ZArith List Bool Lia.
From Verif Require Import Lib.Params Lib.Octets Spec.Edwards Model.Outcome Model.Utils
  Model.BabyJubCore Model.BabyJub Model.Eddsa.
From Verif Require Gen.CurveConsts Model.Mimc7 Model.Poseidon.
From Verif Require Import Gen.BigIntRoutines.
From Verif Require Import Proofs.BigIntEqUtils.
Import ListNotations.
Local Open Scope Z_scope.

(* The external functions are never unfolded by the proofs below; keeping them
   opaque for the tactics makes a FAILING comparison (after an edit of the Go
   code) fail fast instead of normalising Fermat inversions or Tonelli-Shanks
   on symbolic arguments. *)
Local Opaque BabyJub.modinv BabyJub.modsqrt BabyJub.Mul BabyJub.Affine BabyJub.Projective
  Mimc7.MIMC7Hash HadesOpt.perm_opt Z.mul Z.add Z.sub Z.modulo Z.shiftr Z.shiftl Z.land Z.lor
  Z.ltb Z.gtb Z.geb Z.eqb.

Lemma gen_babyjub_pruneBuffer_fn : babyjub_pruneBuffer = Eddsa.pruneBuffer.
Proof. reflexivity. Qed.
Lemma gen_babyjub_pruneBuffer_eq : forall buf,
  babyjub_pruneBuffer buf = Eddsa.pruneBuffer buf.
Proof. intros. rewrite gen_babyjub_pruneBuffer_fn. reflexivity. Qed.

Section Hashes.
  Variable blake512 : bytes -> bytes.
  Variable poseidon5 : list Z -> res Z.
  Variable mimc7h : list Z -> res Z.

  Lemma gen_babyjub_SkToBigInt_fn :
    babyjub_SkToBigInt blake512 = Eddsa.SkToBigInt blake512.
  Proof.
    unfold babyjub_SkToBigInt, Eddsa.SkToBigInt.
    rewrite gen_babyjub_pruneBuffer_fn, gen_utils_SetBigIntFromLEBytes_fn. reflexivity.
  Qed.
  Lemma gen_babyjub_SkToBigInt_eq : forall k,
    babyjub_SkToBigInt blake512 k = Eddsa.SkToBigInt blake512 k.
  Proof. intros. rewrite gen_babyjub_SkToBigInt_fn. reflexivity. Qed.

  (* NewPrivKeyScalar, BigInt, Point are type conversions: identities *)
  Lemma gen_babyjub_NewPrivKeyScalar_eq : forall s, babyjub_NewPrivKeyScalar s = s.
  Proof. reflexivity. Qed.
  Lemma gen_babyjub_PrivKeyScalar_BigInt_eq : forall s, babyjub_PrivKeyScalar_BigInt s = s.
  Proof. reflexivity. Qed.
  Lemma gen_babyjub_PublicKey_Point_eq : forall pk, babyjub_PublicKey_Point pk = pk.
  Proof. reflexivity. Qed.

  Lemma gen_babyjub_PrivateKey_Scalar_fn :
    babyjub_PrivateKey_Scalar blake512 = Eddsa.SkToBigInt blake512.
  Proof.
    unfold babyjub_PrivateKey_Scalar, babyjub_NewPrivKeyScalar.
    rewrite gen_babyjub_SkToBigInt_fn. reflexivity.
  Qed.
  Lemma gen_babyjub_PrivateKey_Scalar_eq : forall k,
    babyjub_PrivateKey_Scalar blake512 k = Eddsa.SkToBigInt blake512 k.
  Proof. intros. rewrite gen_babyjub_PrivateKey_Scalar_fn. reflexivity. Qed.

  Lemma gen_babyjub_PrivKeyScalar_Public_fn : babyjub_PrivKeyScalar_Public = Eddsa.ScalarPublic.
  Proof. reflexivity. Qed.
  Lemma gen_babyjub_PrivKeyScalar_Public_eq : forall s,
    babyjub_PrivKeyScalar_Public s = Eddsa.ScalarPublic s.
  Proof. reflexivity. Qed.

  Lemma gen_babyjub_PrivateKey_Public_fn :
    babyjub_PrivateKey_Public blake512 = Eddsa.Public blake512.
  Proof.
    unfold babyjub_PrivateKey_Public, Eddsa.Public.
    rewrite gen_babyjub_PrivateKey_Scalar_fn, gen_babyjub_PrivKeyScalar_Public_fn. reflexivity.
  Qed.
  Lemma gen_babyjub_PrivateKey_Public_eq : forall k,
    babyjub_PrivateKey_Public blake512 k = Eddsa.Public blake512 k.
  Proof. intros. rewrite gen_babyjub_PrivateKey_Public_fn. reflexivity. Qed.
End Hashes.

(* ---- every lemma above is closed under the global context ---------------- *)
Print Assumptions gen_babyjub_pruneBuffer_eq.
Print Assumptions gen_babyjub_SkToBigInt_eq.
Print Assumptions gen_babyjub_NewPrivKeyScalar_eq.
Print Assumptions gen_babyjub_PrivKeyScalar_BigInt_eq.
Print Assumptions gen_babyjub_PublicKey_Point_eq.
Print Assumptions gen_babyjub_PrivateKey_Scalar_eq.
Print Assumptions gen_babyjub_PrivKeyScalar_Public_eq.
Print Assumptions gen_babyjub_PrivateKey_Public_eq.

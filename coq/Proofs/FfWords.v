(* C05, part 1: the generated constants of /repo/ff/element.go are the expected
   ones, and the word-level contracts of math/bits + ff/arith.go (madd0..3). *)
From Coq Require Import ZArith List Lia Zdiv.
From Verif Require Import Lib.Params Lib.Words Model.FfLimbs.
From Verif Require Gen.FfConsts.
Import ListNotations.
Local Open Scope Z_scope.

Local Ltac Zify.zify_post_hook ::= Z.div_mod_to_equations.

(* ------------------------------------------------------------------ *)
(** * The generated constants are the expected ones *)

Definition qL : list Z := [q0; q1; q2; q3].
(* the inline "if z > q --> z -= q" block: 8 literals of the comparison
   (q3 q3 q2 q2 q1 q1 q0), then q0 q1 q2 q3 of the subtraction *)
Definition condsubL : list Z := [q3; q3; q2; q2; q1; q1; q0; q0; q1; q2; q3].
Definition ciosL : list Z := [qInvNeg; q0; q1; q2; q3].

Lemma consts_ok :
  val qEl = q /\ FfConsts.modulus = q
  /\ (R * Rinv) mod q = 1
  /\ (q * qInvNeg) mod W = W - 1
  /\ val rSquare_el = (R * R) mod q
  /\ val one = R mod q
  /\ FfConsts.qElement = qL
  /\ FfConsts.rSquare =
       (let '(a, b, c, d) := rSquare_el in [a; b; c; d])
  /\ FfConsts.biglits_mulGeneric = ciosL ++ ciosL ++ ciosL ++ ciosL ++ condsubL
  /\ FfConsts.biglits_fromMontGeneric = ciosL ++ ciosL ++ ciosL ++ ciosL ++ condsubL
  /\ FfConsts.biglits_addGeneric = condsubL
  /\ FfConsts.biglits_doubleGeneric = condsubL
  /\ FfConsts.biglits_subGeneric = qL
  /\ FfConsts.biglits_negGeneric = qL
  /\ FfConsts.biglits_reduceGeneric = condsubL
  /\ FfConsts.biglits_Element_Halve = qL
  /\ FfConsts.biglits_Element_SetOne =
       (let '(a, b, c, d) := one in [a; b; c; d])
  /\ FfConsts.biglits_Element_Inverse =
       qL ++ (let '(a, b, c, d) := rSquare_el in [a; b; c; d])
          ++ qL ++ qL ++ qL ++ qL
  /\ FfConsts.biglits_mulByConstant = []
  /\ FfConsts.biglits_Element_Exp = []
  /\ FfConsts.biglits_madd0 = []
  /\ FfConsts.biglits_madd1 = []
  /\ FfConsts.biglits_madd2 = []
  /\ FfConsts.biglits_madd3 = [].
Proof. vm_compute. repeat split. Qed.
Print Assumptions consts_ok.


(* ------------------------------------------------------------------ *)
(** * Facts about the constants used by the proofs; afterwards the limbs of q
      and qInvNeg are opaque 64-bit numbers *)

Definition WW : Z := W * W * W * W.
Lemma R_WW : R = WW. Proof. reflexivity. Qed.

Lemma val_qEl : q0 + q1 * W + q2 * W ^ 2 + q3 * W ^ 3 = q.
Proof. reflexivity. Qed.
Lemma q_limbs_u64 : u64 q0 /\ u64 q1 /\ u64 q2 /\ u64 q3.
Proof. unfold u64. vm_compute. repeat split; discriminate. Qed.
Lemma qInvNeg_u64 : u64 qInvNeg.
Proof. unfold u64. vm_compute. repeat split; discriminate. Qed.
Lemma q_two_lt_R : 2 * q < WW.
Proof. reflexivity. Qed.
Lemma q_four_lt_R : 4 * q < WW.
Proof. reflexivity. Qed.
Lemma q_pos' : 0 < q.
Proof. reflexivity. Qed.
Lemma q_gt_2' : 2 < q.
Proof. reflexivity. Qed.
Lemma q_odd' : q mod 2 = 1.
Proof. vm_compute. reflexivity. Qed.
Lemma q0_odd : q0 mod 2 = 1.
Proof. vm_compute. reflexivity. Qed.
Lemma qInvNeg_spec : (q0 * qInvNeg + 1) mod W = 0.
Proof. vm_compute. reflexivity. Qed.
Lemma Rinv_spec : (R * Rinv) mod q = 1.
Proof. vm_compute. reflexivity. Qed.
Lemma WW_Rinv_spec : (WW * Rinv) mod q = 1.
Proof. vm_compute. reflexivity. Qed.
Lemma val_rSquare : val rSquare_el = (R * R) mod q.
Proof. vm_compute. reflexivity. Qed.
Lemma val_one : val one = R mod q.
Proof. vm_compute. reflexivity. Qed.
Lemma canon_rSquare : canon rSquare_el.
Proof. unfold canon, u64. vm_compute. repeat split; discriminate. Qed.
Lemma canon_one : canon one.
Proof. unfold canon, u64. vm_compute. repeat split; discriminate. Qed.
Lemma canon_zero : canon zero.
Proof. unfold canon, u64. vm_compute. repeat split; discriminate. Qed.
Lemma mval_one : mval one = 1.
Proof. vm_compute. reflexivity. Qed.
Lemma mval_zero : mval zero = 0.
Proof. vm_compute. reflexivity. Qed.
Lemma mval_rSquare : mval rSquare_el = R mod q.
Proof. vm_compute. reflexivity. Qed.
Lemma W_pos : 0 < W.
Proof. reflexivity. Qed.
Lemma W_val : W = 18446744073709551616.
Proof. reflexivity. Qed.
Lemma WW_val :
  WW = 115792089237316195423570985008687907853269984665640564039457584007913129639936.
Proof. reflexivity. Qed.

Global Opaque q0 q1 q2 q3 qInvNeg Rinv.

(* ------------------------------------------------------------------ *)
(** * Word-level contracts (math/bits) *)

Lemma mul_bound : forall a b A B, 0 <= a <= A -> 0 <= b <= B -> 0 <= a * b <= A * B.
Proof.
  intros a b A B Ha Hb. split.
  - apply Z.mul_nonneg_nonneg; lia.
  - apply Z.mul_le_mono_nonneg; lia.
Qed.

Lemma u64_mul_bound : forall a b, u64 a -> u64 b -> 0 <= a * b <= (W - 1) * (W - 1).
Proof. unfold u64. intros a b Ha Hb. apply mul_bound; lia. Qed.

Lemma add64_spec : forall x y c s co, u64 x -> u64 y -> 0 <= c <= 1 ->
  add64 x y c = (s, co) ->
  co * W + s = x + y + c /\ u64 s /\ 0 <= co <= 1.
Proof.
  unfold add64, u64, W. intros x y c s co Hx Hy Hc H. inversion H; subst; clear H. lia.
Qed.

Lemma sub64_spec : forall x y b d bo, u64 x -> u64 y -> 0 <= b <= 1 ->
  sub64 x y b = (d, bo) ->
  d = x - y - b + bo * W /\ u64 d /\ 0 <= bo <= 1.
Proof.
  unfold sub64, u64, W. intros x y b d bo Hx Hy Hb H. inversion H; subst; clear H.
  destruct (Z.ltb_spec (x - y - b) 0); lia.
Qed.

Lemma mul64_spec : forall x y hi lo, u64 x -> u64 y ->
  mul64 x y = (hi, lo) ->
  hi * W + lo = x * y /\ u64 hi /\ u64 lo.
Proof.
  unfold mul64. intros x y hi lo Hx Hy H. inversion H; subst; clear H.
  pose proof (u64_mul_bound x y Hx Hy) as HT.
  remember (x * y) as T eqn:ET. clear ET. unfold u64, W in *. lia.
Qed.

(* madd0 hi = a*b + c (discards lo bits) *)
Lemma madd0_spec : forall a b c, u64 a -> u64 b -> u64 c ->
  madd0 a b c = (a * b + c) / W /\ u64 (madd0 a b c).
Proof.
  unfold madd0, mul64, add64. intros a b c Ha Hb Hc.
  pose proof (u64_mul_bound a b Ha Hb) as HT.
  remember (a * b) as T eqn:ET. clear ET. unfold u64, W in *. lia.
Qed.

(* madd1 hi, lo = a*b + c *)
Lemma madd1_spec : forall a b c hi lo, u64 a -> u64 b -> u64 c ->
  madd1 a b c = (hi, lo) ->
  hi * W + lo = a * b + c /\ u64 hi /\ u64 lo.
Proof.
  unfold madd1, mul64, add64. intros a b c hi lo Ha Hb Hc H.
  inversion H; subst; clear H.
  pose proof (u64_mul_bound a b Ha Hb) as HT.
  remember (a * b) as T eqn:ET. clear ET. unfold u64, W in *. lia.
Qed.

(* madd2 hi, lo = a*b + c + d *)
Lemma madd2_spec : forall a b c d hi lo, u64 a -> u64 b -> u64 c -> u64 d ->
  madd2 a b c d = (hi, lo) ->
  hi * W + lo = a * b + c + d /\ u64 hi /\ u64 lo.
Proof.
  unfold madd2, mul64, add64. intros a b c d hi lo Ha Hb Hc Hd H.
  inversion H; subst; clear H.
  pose proof (u64_mul_bound a b Ha Hb) as HT.
  remember (a * b) as T eqn:ET. clear ET. unfold u64, W in *. lia.
Qed.

(* madd3 hi, lo = a*b + c + d + (e,0): exact when the result fits two words;
   in general the high word wraps *)
Lemma madd3_spec : forall a b c d e hi lo, u64 a -> u64 b -> u64 c -> u64 d -> u64 e ->
  madd3 a b c d e = (hi, lo) ->
  exists h, h * W + lo = a * b + c + d + e * W /\ hi = h mod W /\ 0 <= h /\ u64 lo.
Proof.
  unfold madd3, mul64, add64. intros a b c d e hi lo Ha Hb Hc Hd He H.
  inversion H; subst; clear H.
  pose proof (u64_mul_bound a b Ha Hb) as HT.
  remember (a * b) as T eqn:ET. clear ET.
  exists ((T + c + d) / W + e).
  unfold u64, W in *. lia.
Qed.

(* ------------------------------------------------------------------ *)
(** * Montgomery step: m = t0 * qInvNeg mod W makes m*q0 + t0 divisible by W *)

Lemma mont_m_spec : forall t0, u64 t0 ->
  u64 (wmul t0 qInvNeg) /\ (wmul t0 qInvNeg * q0 + t0) mod W = 0.
Proof.
  intros t0 Ht0. unfold wmul. split.
  - unfold u64. apply Z.mod_pos_bound. exact W_pos.
  - pose proof W_pos as HW.
    rewrite <- Z.add_mod_idemp_l by lia.
    rewrite Z.mul_mod_idemp_l by lia.
    rewrite Z.add_mod_idemp_l by lia.
    replace (t0 * qInvNeg * q0 + t0) with (t0 * (q0 * qInvNeg + 1)) by ring.
    rewrite <- Z.mul_mod_idemp_r by lia.
    rewrite qInvNeg_spec. rewrite Z.mul_0_r. apply Z.mod_0_l. lia.
Qed.

(* the reduced quotient C = (m*q0 + t0)/W, characterised linearly *)
Lemma mont_C_spec : forall t0, u64 t0 ->
  u64 (wmul t0 qInvNeg) /\
  u64 (madd0 (wmul t0 qInvNeg) q0 t0) /\
  madd0 (wmul t0 qInvNeg) q0 t0 * W = wmul t0 qInvNeg * q0 + t0.
Proof.
  intros t0 Ht0. destruct (mont_m_spec t0 Ht0) as [Hm Hdiv].
  destruct q_limbs_u64 as (Hq0 & _).
  destruct (madd0_spec (wmul t0 qInvNeg) q0 t0 Hm Hq0 Ht0) as [HC HCu].
  split; [ exact Hm | ]. split; [ exact HCu | ].
  rewrite HC.
  remember (wmul t0 qInvNeg * q0 + t0) as T eqn:ET. clear ET HC HCu.
  pose proof W_pos. lia.
Qed.


(* Theorems about Model/BabyJub.v (the big-integer level model of
   babyjub/babyjub.go with the constants regenerated from the repository):
   Add / Mul compute the BabyJubJub group law (C04), InCurve / InSubGroup are
   exact (C13), the base point B8 has prime order l, Order = 8 l. *)
From Coq Require Import ZArith Znumtheory Lia Bool List Morphisms Setoid.
From Verif Require Import Lib.Params Lib.Powmod Lib.NumberTheory Lib.Primes Spec.Edwards.
From Verif Require Import Model.BabyJubCore Model.BabyJub.
From Verif Require Import Proofs.EdwardsField Proofs.EdwardsComplete Proofs.EdwardsGroup
  Proofs.BabyJubSmul Proofs.BabyJubGroup Proofs.BabyJubCoreProofs.
Import ListNotations.
Local Open Scope Z_scope.

(* ------------------------------------------------------------------ *)
(** * Facts by computation *)

(* l * B8 through the model's double-and-add loop (about 500 projective
   additions on 254-bit integers) *)
Lemma Mul_l_B8 : Mul l B8 = (0, 1).
Proof. vm_compute. reflexivity. Qed.

Lemma l_nonneg : 0 <= l.        Proof. vm_compute. discriminate. Qed.
Lemma order_nonneg : 0 <= order. Proof. vm_compute. discriminate. Qed.

Lemma InCurve_00 : InCurve (0, 0) = false.
Proof. vm_compute. reflexivity. Qed.

Lemma gcd_l_8 : Z.gcd l 8 = 1.
Proof. vm_compute. reflexivity. Qed.

Local Opaque q l.

(* ------------------------------------------------------------------ *)
(** * C04: Add and Mul compute the group law *)

Local Notation oc := (on_curve q ca cd).
Local Notation can := (canonical q).
Local Notation add := (ed_add q ca cd).
Local Notation smul := (Edwards.smul q ca cd).
Local Notation rep := (represents q).

Theorem Add_correct : forall P1' P2' P1 P2, oc P1 -> oc P2 ->
  rep P1' P1 -> rep P2' P2 -> rep (Add P1' P2') (add P1 P2).
Proof.
  unfold Add. rewrite gen_Q, gen_A, gen_D.
  exact (padd_correct q ca cd q_prime q_gt_2 bj_a_square bj_d_nonsquare).
Qed.

Theorem Affine_correct : forall P' P, rep P' P -> can P -> Affine P' = P.
Proof. unfold Affine. rewrite gen_Q. exact (paffine_correct q q_prime). Qed.

Theorem Projective_correct : forall P, can P -> rep (Projective P) P.
Proof. unfold Projective. rewrite gen_Q. exact (pproj_correct q q_gt_2). Qed.

Theorem Affine_Add : forall P1' P2' P1 P2, oc P1 -> oc P2 ->
  rep P1' P1 -> rep P2' P2 -> Affine (Add P1' P2') = add P1 P2.
Proof.
  unfold Affine, Add. rewrite gen_Q, gen_A, gen_D.
  exact (paffine_padd q ca cd q_prime q_gt_2 bj_a_square bj_d_nonsquare).
Qed.

(* the route used by the library: Projective, Add, Affine; any integer
   coordinates satisfying the curve equation; the result is the group sum, on
   the curve, with canonical coordinates *)
Theorem Affine_Add_Projective : forall P1 P2, oc P1 -> oc P2 ->
  Affine (Add (Projective P1) (Projective P2)) = add P1 P2.
Proof.
  unfold Affine, Add, Projective. rewrite gen_Q, gen_A, gen_D.
  exact (paffine_padd_pproj q ca cd q_prime q_gt_2 bj_a_square bj_d_nonsquare).
Qed.

Corollary Affine_Add_Projective_closed : forall P1 P2, oc P1 -> oc P2 ->
  oc (Affine (Add (Projective P1) (Projective P2))) /\
  can (Affine (Add (Projective P1) (Projective P2))).
Proof.
  intros P1 P2 H1 H2. rewrite Affine_Add_Projective by assumption.
  apply bj_add_closed; assumption.
Qed.

Theorem Mul_correct : forall s P, 0 <= s -> oc P -> can P -> Mul s P = smul s P.
Proof.
  unfold Mul. rewrite gen_Q, gen_A, gen_D.
  exact (pmul_correct q ca cd q_prime q_gt_2 bj_a_square bj_d_nonsquare).
Qed.

(* canonicity of the input is not needed: Projective reduces modulo q *)
Theorem Mul_correct_gen : forall s P, 0 <= s -> oc P -> Mul s P = smul s P.
Proof.
  unfold Mul. rewrite gen_Q, gen_A, gen_D.
  exact (pmul_correct_gen q ca cd q_prime q_gt_2 bj_a_square bj_d_nonsquare).
Qed.

(* every integer scalar: the BitLen low bits of its two's complement *)
Theorem Mul_general : forall s P, oc P -> Mul s P = smul (s mod 2 ^ bitlen s) P.
Proof.
  unfold Mul. rewrite gen_Q, gen_A, gen_D.
  exact (pmul_general q ca cd q_prime q_gt_2 bj_a_square bj_d_nonsquare).
Qed.

Theorem Mul_closed : forall s P, oc P -> oc (Mul s P) /\ can (Mul s P).
Proof.
  unfold Mul. rewrite gen_Q, gen_A, gen_D.
  exact (pmul_closed q ca cd q_prime q_gt_2 bj_a_square bj_d_nonsquare).
Qed.

Theorem Mul_add : forall j k P, 0 <= j -> 0 <= k -> oc P ->
  Mul (j + k) P = add (Mul j P) (Mul k P).
Proof.
  intros j k P Hj Hk HP. rewrite !Mul_correct_gen by (lia || assumption).
  apply bj_smul_add; assumption.
Qed.

Theorem Mul_mul : forall j k P, 0 <= j -> 0 <= k -> oc P ->
  Mul (j * k) P = Mul j (Mul k P).
Proof.
  intros j k P Hj Hk HP.
  rewrite (Mul_correct_gen k P Hk HP).
  rewrite !Mul_correct_gen;
    [ apply bj_smul_mul; assumption | exact Hj | apply bj_smul_closed; exact HP
    | apply Z.mul_nonneg_nonneg; assumption | exact HP ].
Qed.

(* ------------------------------------------------------------------ *)
(** * C13: membership predicates *)

Theorem InCurve_iff : forall x y : Z, InCurve (x, y) = true <-> oc (x, y).
Proof.
  intros x y. unfold InCurve. rewrite gen_Q, gen_A, gen_D.
  change Gen.CurveConsts.One with 1. cbv zeta. rewrite Z.eqb_eq.
  cbn [on_curve].
  change (eqm q (ca * ((x * x) mod q) + (y * y) mod q)
                (1 + cd * ((x * x) mod q) * ((y * y) mod q))
          <-> eqm q (ca * x * x + y * y) (1 + cd * x * x * y * y)).
  assert (E1 : eqm q (ca * ((x * x) mod q) + (y * y) mod q) (ca * x * x + y * y)).
  { rewrite (eqm_mod q (x * x)), (eqm_mod q (y * y)). ering. }
  assert (E2 : eqm q (1 + cd * ((x * x) mod q) * ((y * y) mod q)) (1 + cd * x * x * y * y)).
  { rewrite (eqm_mod q (x * x)), (eqm_mod q (y * y)). ering. }
  rewrite E1, E2. reflexivity.
Qed.

Theorem InSubGroup_iff_gen : forall P,
  InSubGroup P = true <-> oc P /\ smul l P = ed_zero.
Proof.
  intros [x y]. unfold InSubGroup.
  destruct (InCurve (x, y)) eqn:E; cbn [negb].
  - apply InCurve_iff in E. rewrite gen_SubOrder.
    rewrite (Mul_correct_gen l (x, y) l_nonneg E).
    destruct (smul l (x, y)) as [rx ry].
    change Gen.CurveConsts.Zero with 0. change Gen.CurveConsts.One with 1.
    rewrite andb_true_iff, !Z.eqb_eq. unfold ed_zero. split.
    + intros [-> ->]. split; [ exact E | reflexivity ].
    + intros [_ H]. injection H as -> ->. split; reflexivity.
  - split; [ discriminate | ].
    intros [H _]. apply InCurve_iff in H. rewrite H in E. discriminate E.
Qed.

Theorem InSubGroup_iff : forall P, can P ->
  (InSubGroup P = true <-> oc P /\ smul l P = ed_zero).
Proof. intros P _. apply InSubGroup_iff_gen. Qed.

Corollary InSubGroup_InCurve : forall P, InSubGroup P = true -> InCurve P = true.
Proof.
  intros [x y] H. apply InSubGroup_iff_gen in H. apply InCurve_iff. exact (proj1 H).
Qed.

Corollary InSubGroup_00 : InSubGroup (0, 0) = false.
Proof. unfold InSubGroup. rewrite InCurve_00. reflexivity. Qed.

(* ------------------------------------------------------------------ *)
(** * The base point *)

Lemma B8_oc : oc B8.
Proof. rewrite gen_B8. exact B8_on_curve. Qed.

Lemma B8_can : can B8.
Proof. rewrite gen_B8. exact B8_canonical. Qed.

Lemma B8_nonzero : B8 <> ed_zero.
Proof. rewrite gen_B8. exact B8_ne_zero. Qed.

Theorem B8_order : smul l B8 = ed_zero.
Proof.
  rewrite <- (Mul_correct l B8 l_nonneg B8_oc B8_can). exact Mul_l_B8.
Qed.

Theorem B8_order_exact : forall k, 0 < k < l -> smul k B8 <> ed_zero.
Proof.
  exact (bj_smul_prime_order l B8 l_prime B8_oc B8_can B8_order B8_nonzero).
Qed.

(* same statements with the specification-side constants of Lib/Params.v *)
Corollary B8_order_spec : smul l (B8x, B8y) = ed_zero.
Proof. rewrite <- gen_B8. exact B8_order. Qed.

Corollary B8_order_exact_spec : forall k, 0 < k < l -> smul k (B8x, B8y) <> ed_zero.
Proof. rewrite <- gen_B8. exact B8_order_exact. Qed.

(* NB: Lib/Params.v already has a lemma called [order_eq] (order = its decimal
   numeral), so the statement requested under that name is [order_eq_8l]. *)
Theorem order_eq_8l : order = 8 * l.
Proof. reflexivity. Qed.

Theorem gen_orders_ok : Order = order /\ Order = 8 * l /\ SubOrder = l.
Proof.
  split; [ exact gen_Order | split; [ rewrite gen_Order; reflexivity | exact gen_SubOrder ] ].
Qed.

Theorem order_kills_subgroup : forall k, 0 <= k -> smul order (smul k B8) = ed_zero.
Proof.
  intros k Hk. pose proof l_nonneg as Hl. pose proof order_nonneg as Ho.
  rewrite <- (bj_smul_mul order k B8 Ho Hk B8_oc).
  replace (order * k) with ((8 * k) * l) by (unfold order; ring).
  rewrite (bj_smul_mul (8 * k) l B8) by (lia || exact B8_oc).
  rewrite B8_order. apply bj_smul_zero_pt.
Qed.

(* the subgroup generated by B8 is inside InSubGroup, and is closed *)
Corollary InSubGroup_smul_B8 : forall k, InSubGroup (smul k B8) = true.
Proof.
  intros k. apply InSubGroup_iff_gen.
  split; [ apply bj_smul_closed; exact B8_oc | ].
  destruct (Z.le_gt_cases 0 k) as [Hk | Hk].
  - rewrite <- (bj_smul_mul l k B8 l_nonneg Hk B8_oc).
    rewrite Z.mul_comm.
    rewrite (bj_smul_mul k l B8 Hk l_nonneg B8_oc).
    rewrite B8_order. apply bj_smul_zero_pt.
  - rewrite (smul_neg_scalar q ca cd k B8) by lia. apply bj_smul_zero_pt.
Qed.

Corollary InSubGroup_B8 : InSubGroup B8 = true.
Proof.
  rewrite <- (bj_smul_1 B8 B8_oc B8_can). apply InSubGroup_smul_B8.
Qed.

(* a subgroup point plus a non-trivial point of order dividing 8 is outside *)
Theorem InSubGroup_plus_small : forall S T, InSubGroup S = true ->
  oc T -> can T -> smul 8 T = ed_zero -> T <> ed_zero ->
  InSubGroup (add S T) = false.
Proof.
  intros S T HS HT HcT H8 HT0.
  destruct (InSubGroup (add S T)) eqn:E; [ exfalso | reflexivity ].
  apply InSubGroup_iff_gen in HS. destruct HS as [HS HlS].
  apply InSubGroup_iff_gen in E. destruct E as [_ E].
  rewrite (smul_add_pt q ca cd q_prime q_gt_2 bj_a_square bj_d_nonsquare l S T HS HT) in E.
  rewrite HlS in E.
  rewrite bj_add_zero_l in E by (apply bj_smul_closed; exact HT).
  apply HT0.
  apply (smul_coprime_kill q ca cd q_prime q_gt_2 bj_a_square bj_d_nonsquare l 8 T);
    try assumption; try lia.
  - exact l_pos.
  - exact gcd_l_8.
Qed.

(* scalars act on subgroup points modulo l: Mul (k + l) P = Mul k P *)
Corollary Mul_plus_l : forall k P, 0 <= k -> InSubGroup P = true ->
  Mul (k + l) P = Mul k P.
Proof.
  intros k P Hk H. apply InSubGroup_iff_gen in H. destruct H as [HP Hl].
  pose proof l_nonneg as Hl0.
  rewrite (Mul_add k l P Hk Hl0 HP).
  rewrite (Mul_correct_gen l P Hl0 HP), Hl.
  apply bj_add_zero_r; apply Mul_closed; exact HP.
Qed.

Print Assumptions Mul_correct.
Print Assumptions Affine_Add_Projective.
Print Assumptions Add_correct.
Print Assumptions InCurve_iff.
Print Assumptions InSubGroup_iff.
Print Assumptions B8_order.
Print Assumptions B8_order_exact.
Print Assumptions order_eq_8l.
Print Assumptions gen_orders_ok.
Print Assumptions order_kills_subgroup.
Print Assumptions InSubGroup_plus_small.


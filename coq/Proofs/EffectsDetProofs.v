(* Deterministic programs over the effect semantics (Model/EffectsDet.v):
     (a) prog_det_agree     the trace and result of a program depend only on
                            the cells it reads before writing them
     (b) prog_sched_alone   DRF-determinism: if the ALONE traces of a family
                            of programs are race free then under EVERY
                            schedule every thread emits a prefix of its alone
                            trace, and on completion trace, observations and
                            RESULT are those of the alone run
     (c) conformance to the effect IR: repetition / histories (C16) and
         concurrency (C17) for programs whose traces the IR allows
     (d) non-vacuity examples
   No axioms. *)
From Coq Require Import String List Bool Arith ZArith Lia.
Import ListNotations.
From Verif Require Import Model.Effects Model.EffectsDet Proofs.EffectsProofs.
Open Scope string_scope.

(* ------------------------------------------------------------------ *)
(** * Running a program alone *)

Lemma prog_from_0 : forall p pc o h, prog_from p 0 pc o h = ([], None).
Proof. reflexivity. Qed.

Lemma prog_from_S : forall p fuel pc o h,
    prog_from p (S fuel) pc o h =
    match p pc o with
    | ARead c =>
        let (tr, r) := prog_from p fuel (S pc) (h c :: o) h in (EvR c :: tr, r)
    | AWrite c v =>
        let (tr, r) := prog_from p fuel (S pc) o (upd h c v) in (EvW c v :: tr, r)
    | AField fld rs =>
        let (tr, r) := prog_from p fuel (S pc) o h in (EvF fld rs :: tr, r)
    | ADone res => ([], Some res)
    end.
Proof. reflexivity. Qed.

(* more fuel does not change a finished run *)
Lemma prog_from_mono : forall p f1 f2 pc o h tr res,
    prog_from p f1 pc o h = (tr, Some res) -> f1 <= f2 ->
    prog_from p f2 pc o h = (tr, Some res).
Proof.
  intros p. induction f1 as [|f1 IH]; intros f2 pc o h tr res Hrun Hle.
  - rewrite prog_from_0 in Hrun. discriminate.
  - destruct f2 as [|f2]; [lia|]. assert (Hle' : f1 <= f2) by lia.
    rewrite prog_from_S in Hrun |- *.
    destruct (p pc o) as [c|c v|fld rs|r0].
    + destruct (prog_from p f1 (S pc) (h c :: o) h) as [tr1 r1] eqn:E1.
      inversion Hrun; subst. rewrite (IH _ _ _ _ _ _ E1 Hle'). reflexivity.
    + destruct (prog_from p f1 (S pc) o (upd h c v)) as [tr1 r1] eqn:E1.
      inversion Hrun; subst. rewrite (IH _ _ _ _ _ _ E1 Hle'). reflexivity.
    + destruct (prog_from p f1 (S pc) o h) as [tr1 r1] eqn:E1.
      inversion Hrun; subst. rewrite (IH _ _ _ _ _ _ E1 Hle'). reflexivity.
    + exact Hrun.
Qed.

(* the alone run is unique: trace and result do not depend on the fuel *)
Lemma prog_from_fuel_det : forall p f1 f2 pc o h tr1 r1 tr2 r2,
    prog_from p f1 pc o h = (tr1, Some r1) ->
    prog_from p f2 pc o h = (tr2, Some r2) ->
    tr1 = tr2 /\ r1 = r2.
Proof.
  intros p f1 f2 pc o h tr1 r1 tr2 r2 H1 H2.
  apply prog_from_mono with (f2 := Nat.max f1 f2) in H1; [|lia].
  apply prog_from_mono with (f2 := Nat.max f1 f2) in H2; [|lia].
  rewrite H1 in H2. inversion H2; auto.
Qed.

Lemma alone_det : forall p h tr1 r1 tr2 r2,
    alone p h tr1 r1 -> alone p h tr2 r2 -> tr1 = tr2 /\ r1 = r2.
Proof.
  intros p h tr1 r1 tr2 r2 [f1 H1] [f2 H2].
  eapply prog_from_fuel_det; eassumption.
Qed.

(* the heap threaded through the run is the replay of the emitted trace,
   the observations are [obs] of the trace, the program counter its length:
   cutting a run after a prefix [pre] of its trace *)
Lemma prog_from_split : forall pre p fuel pc o h rem r,
    prog_from p fuel pc o h = ((pre ++ rem)%list, r) ->
    prog_from p (fuel - length pre) (pc + length pre)
              (rev (obs pre h) ++ o)%list (apply_tr pre h) = (rem, r).
Proof.
  induction pre as [|e pre IH]; intros p fuel pc o h rem r Hrun.
  - simpl. rewrite Nat.sub_0_r, Nat.add_0_r. exact Hrun.
  - destruct fuel as [|fuel]; [rewrite prog_from_0 in Hrun; discriminate|].
    rewrite prog_from_S in Hrun. simpl length.
    replace (S fuel - S (length pre)) with (fuel - length pre) by lia.
    replace (pc + S (length pre)) with (S pc + length pre) by lia.
    destruct (p pc o) as [c|c v|fld rs|r0].
    + destruct (prog_from p fuel (S pc) (h c :: o) h) as [tr1 r1] eqn:E1.
      simpl in Hrun. inversion Hrun; subst e tr1 r1.
      apply IH in E1. simpl. rewrite <- app_assoc. simpl. exact E1.
    + destruct (prog_from p fuel (S pc) o (upd h c v)) as [tr1 r1] eqn:E1.
      simpl in Hrun. inversion Hrun; subst e tr1 r1.
      apply IH in E1. simpl. exact E1.
    + destruct (prog_from p fuel (S pc) o h) as [tr1 r1] eqn:E1.
      simpl in Hrun. inversion Hrun; subst e tr1 r1.
      apply IH in E1. simpl. exact E1.
    + simpl in Hrun. discriminate.
Qed.

Corollary prog_trace_split : forall p h fuel pre rem r,
    prog_trace p h fuel = ((pre ++ rem)%list, r) ->
    prog_from p (fuel - length pre) (length pre) (rev (obs pre h)) (apply_tr pre h) = (rem, r).
Proof.
  intros p h fuel pre rem r H. unfold prog_trace in H.
  apply prog_from_split in H. simpl in H. rewrite app_nil_r in H. exact H.
Qed.

(* ------------------------------------------------------------------ *)
(** * Inputs of a trace: cells read before being written by the trace *)

Lemma existsb_eqb_In : forall c w, existsb (Nat.eqb c) w = true <-> In c w.
Proof.
  intros c w. rewrite existsb_exists. split.
  - intros [x [Hx He]]. apply Nat.eqb_eq in He. subst x. exact Hx.
  - intros H. exists c. split; [exact H|apply Nat.eqb_refl].
Qed.

Lemma ext_reads_notin : forall tr w c, In c (ext_reads tr w) -> ~ In c w.
Proof.
  induction tr as [|[c0|c0 v|f rs] tr IH]; intros w c Hc; simpl in Hc.
  - contradiction.
  - destruct (existsb (Nat.eqb c0) w) eqn:E.
    + apply IH, Hc.
    + destruct Hc as [<-|Hc]; [|apply IH, Hc].
      intros Hin. apply existsb_eqb_In in Hin. congruence.
  - intros Hin. apply (IH _ _ Hc). right; exact Hin.
  - apply IH, Hc.
Qed.

(* fewer cells already written: more inputs *)
Lemma ext_reads_sub : forall tr w w' c,
    In c (ext_reads tr w) -> (forall x, In x w' -> In x w) -> In c (ext_reads tr w').
Proof.
  induction tr as [|[c0|c0 v|f rs] tr IH]; intros w w' c Hc Hsub; simpl in *.
  - contradiction.
  - destruct (existsb (Nat.eqb c0) w) eqn:E.
    + pose proof (IH _ _ _ Hc Hsub) as H'.
      destruct (existsb (Nat.eqb c0) w'); [exact H'|right; exact H'].
    + assert (E' : existsb (Nat.eqb c0) w' = false).
      { destruct (existsb (Nat.eqb c0) w') eqn:E'; [|reflexivity].
        apply existsb_eqb_In, Hsub, existsb_eqb_In in E'. congruence. }
      rewrite E'. destruct Hc as [<-|Hc]; [left; reflexivity|right].
      eapply IH; eassumption.
  - eapply IH; [exact Hc|]. intros x [<-|Hx]; [left; reflexivity|right; apply Hsub, Hx].
  - eapply IH; eassumption.
Qed.

Lemma ext_reads_reads : forall tr w c, In c (ext_reads tr w) -> In c (reads_of tr).
Proof.
  induction tr as [|[c0|c0 v|f rs] tr IH]; intros w c Hc; simpl in *.
  - contradiction.
  - destruct (existsb (Nat.eqb c0) w).
    + right. eapply IH, Hc.
    + destruct Hc as [<-|Hc]; [left; reflexivity|right; eapply IH, Hc].
  - eapply IH, Hc.
  - eapply IH, Hc.
Qed.

Lemma ext_reads_app : forall a b w c,
    In c (ext_reads (a ++ b) w) ->
    In c (ext_reads a w) \/ (In c (ext_reads b w) /\ ~ In c (writes_of a)).
Proof.
  induction a as [|[c0|c0 v|f rs] a IH]; intros b w c Hc; simpl in *.
  - right. split; [exact Hc|tauto].
  - destruct (existsb (Nat.eqb c0) w).
    + apply IH, Hc.
    + destruct Hc as [<-|Hc]; [left; left; reflexivity|].
      destruct (IH _ _ _ Hc) as [H|H]; [left; right; exact H|right; exact H].
  - destruct (IH _ _ _ Hc) as [H|[H1 H2]]; [left; exact H|right].
    split.
    + eapply ext_reads_sub; [exact H1|]. intros x Hx. right; exact Hx.
    + intros [<-|Hin]; [|exact (H2 Hin)].
      apply ext_reads_notin in H1. apply H1. left; reflexivity.
  - apply IH, Hc.
Qed.

(* ------------------------------------------------------------------ *)
(** * (a) The result depends only on what the program reads *)

(* generalised to a run in progress: [w] = cells on which the two heaps are
   already known to agree because the program wrote them itself *)
Lemma prog_from_agree : forall p fuel pc o h1 h2 w tr r,
    prog_from p fuel pc o h1 = (tr, r) ->
    (forall c, In c (ext_reads tr w) -> h1 c = h2 c) ->
    (forall c, In c w -> h1 c = h2 c) ->
    prog_from p fuel pc o h2 = (tr, r).
Proof.
  intros p. induction fuel as [|fuel IH]; intros pc o h1 h2 w tr r Hrun Hext Hw.
  - rewrite prog_from_0 in *. exact Hrun.
  - rewrite prog_from_S in Hrun |- *.
    destruct (p pc o) as [c|c v|fld rs|r0].
    + destruct (prog_from p fuel (S pc) (h1 c :: o) h1) as [tr1 r1] eqn:E1.
      inversion Hrun; subst tr r; clear Hrun.
      assert (Hc : h1 c = h2 c).
      { destruct (existsb (Nat.eqb c) w) eqn:E.
        - apply Hw, existsb_eqb_In, E.
        - apply Hext. simpl. rewrite E. left; reflexivity. }
      rewrite <- Hc.
      rewrite (IH _ _ _ h2 w _ _ E1); [reflexivity| |exact Hw].
      intros c' Hc'. apply Hext. simpl.
      destruct (existsb (Nat.eqb c) w); [exact Hc'|right; exact Hc'].
    + destruct (prog_from p fuel (S pc) o (upd h1 c v)) as [tr1 r1] eqn:E1.
      inversion Hrun; subst tr r; clear Hrun.
      rewrite (IH _ _ _ (upd h2 c v) (c :: w) _ _ E1); [reflexivity| |].
      * intros c' Hc'. unfold upd. destruct (Nat.eqb c' c); [reflexivity|].
        apply Hext. simpl. exact Hc'.
      * intros c' Hc'. unfold upd. destruct (Nat.eqb_spec c' c) as [Heq|Hne]; [reflexivity|].
        destruct Hc' as [Hc'|Hc']; [congruence|apply Hw, Hc'].
    + destruct (prog_from p fuel (S pc) o h1) as [tr1 r1] eqn:E1.
      inversion Hrun; subst tr r; clear Hrun.
      rewrite (IH _ _ _ h2 w _ _ E1); [reflexivity| |exact Hw].
      intros c' Hc'. apply Hext. simpl. exact Hc'.
    + exact Hrun.
Qed.

(* (a) If two heaps agree on every cell that the alone run of [p] from [h1]
   READS BEFORE HAVING WRITTEN IT ITSELF, then the run from [h2] has the same
   trace and the same result (same fuel; the result may also be "out of
   fuel").  No hypothesis on the other cells: not on the cells the program
   overwrites before reading, not on the cells it never touches. *)
Theorem prog_det_agree : forall p h1 h2 fuel tr r,
    prog_trace p h1 fuel = (tr, r) ->
    (forall c, In c (ext_reads tr []) -> h1 c = h2 c) ->
    prog_trace p h2 fuel = (tr, r).
Proof.
  intros p h1 h2 fuel tr r Hrun Hag. unfold prog_trace in *.
  eapply prog_from_agree with (w := []); [exact Hrun|exact Hag|].
  intros c [].
Qed.

(* weaker, more readable form: agreement on all cells read *)
Corollary prog_det_reads : forall p h1 h2 fuel tr r,
    prog_trace p h1 fuel = (tr, r) ->
    (forall c, In c (reads_of tr) -> h1 c = h2 c) ->
    prog_trace p h2 fuel = (tr, r).
Proof.
  intros p h1 h2 fuel tr r Hrun Hag. eapply prog_det_agree; [exact Hrun|].
  intros c Hc. apply Hag. eapply ext_reads_reads, Hc.
Qed.

Corollary alone_agree : forall p h1 h2 tr res,
    alone p h1 tr res ->
    (forall c, In c (ext_reads tr []) -> h1 c = h2 c) ->
    alone p h2 tr res.
Proof.
  intros p h1 h2 tr res [fuel H] Hag. exists fuel. eapply prog_det_agree; eassumption.
Qed.

(* Repeating a run: if no input cell of the run (read before written) is
   written by the run, then running the program again from the heap the first
   run left behind gives the same trace and the same result - any number of
   times.  (The hypothesis is needed: a program that reads c and then writes
   c+1 to c returns something else the second time.) *)
Theorem prog_repeat : forall p h tr res,
    alone p h tr res ->
    (forall c, In c (ext_reads tr []) -> ~ In c (writes_of tr)) ->
    forall k, alone p (Nat.iter k (apply_tr tr) h) tr res.
Proof.
  intros p h tr res Hal Hdisj. induction k as [|k IH]; [exact Hal|].
  simpl. eapply alone_agree; [exact IH|].
  intros c Hc. symmetry. apply apply_tr_frame. apply Hdisj, Hc.
Qed.

(* ------------------------------------------------------------------ *)
(** * (b) Scheduling deterministic programs: DRF-determinism *)

Section Sched.
  (* the threads, the common initial heap, and NAMES for the alone runs *)
  Variable ps : nat -> option prog.
  Variable h0 : cell -> Z.
  Variable trs : nat -> list event.
  Variable ress : nat -> list Z.

  (* [trs i] / [ress i] are the trace and result of thread i run alone from
     h0 to completion *)
  Definition alone_family : Prop :=
    forall i, match ps i with
              | Some p => alone p h0 (trs i) (ress i)
              | None => trs i = []
              end.

  (* link between the program-level thread states and the trace-level thread
     states of [run_sched] on the alone traces: same observations, and what
     has been emitted plus what remains is the alone trace *)
  Definition plink (pss : nat -> pstate) (tss : nat -> tstate) : Prop :=
    forall i,
      trs i = (ps_emit (pss i) ++ fst (tss i))%list /\
      snd (tss i) = ps_obs (pss i) /\
      (forall r, ps_res (pss i) = Some r -> fst (tss i) = [] /\ r = ress i).

  Lemma plink_init : plink pinit_all (init_threads trs).
  Proof.
    intros i. unfold pinit_all, init_threads. simpl. repeat split; intros; discriminate.
  Qed.

  (* one program step is one [step_thread] step on the alone trace: the
     strategy, evaluated on the thread's observations so far (which by
     [il_inv] are those of its alone run), picks exactly the next event of
     the alone trace *)
  Lemma pstep_sim : forall h pss tss i p h1 s1,
      alone_family -> plink pss tss -> il_inv trs h0 h tss ->
      ps i = Some p -> pstep p h (pss i) = (h1, s1) ->
      exists ts1, step_thread h (tss i) = (h1, ts1) /\
                  plink (set_pstate pss i s1) (set_thread tss i ts1).
  Proof.
    intros h pss tss i p h1 s1 Hal Hlink [Hth _] Hp Hstep.
    specialize (Hal i). rewrite Hp in Hal. destruct Hal as [fuel Hrun].
    destruct (Hlink i) as (Hsplit & Hobs & Hdone).
    destruct (Hth i) as (pre & Hsplit' & Hobs' & _).
    assert (Hpre : pre = ps_emit (pss i)).
    { rewrite Hsplit in Hsplit'. apply app_inv_tail in Hsplit'. congruence. }
    subst pre.
    rewrite Hsplit in Hrun. apply prog_trace_split in Hrun.
    rewrite <- Hobs', Hobs in Hrun.
    (* plink is preserved on the other threads *)
    assert (Hother : forall s' ts',
               (trs i = (ps_emit s' ++ fst ts')%list /\ snd ts' = ps_obs s' /\
                (forall r, ps_res s' = Some r -> fst ts' = [] /\ r = ress i)) ->
               plink (set_pstate pss i s') (set_thread tss i ts')).
    { intros s' ts' Hi j. unfold set_pstate, set_thread.
      destruct (Nat.eqb_spec j i) as [->|Hne]; [exact Hi|apply Hlink]. }
    unfold pstep in Hstep. unfold step_thread.
    destruct (ps_res (pss i)) as [r|] eqn:Eres.
    - (* already done: both stutter *)
      inversion Hstep; subst h1 s1; clear Hstep.
      destruct (Hdone r eq_refl) as [Hrem Hr]. rewrite Hrem.
      exists (tss i). split; [reflexivity|].
      apply Hother. exact (Hlink i).
    - destruct (fuel - length (ps_emit (pss i))) as [|fuel'];
        [rewrite prog_from_0 in Hrun; discriminate|].
      rewrite prog_from_S in Hrun.
      destruct (p (length (ps_emit (pss i))) (ps_obs (pss i))) as [c|c v|fld rs|r0].
      + destruct (prog_from p fuel' _ _ _) as [tr1 r1] in Hrun.
        injection Hrun as Hrem Hr1.
        inversion Hstep; subst h1 s1; clear Hstep.
        rewrite <- Hrem. exists (tr1, h c :: snd (tss i)). split; [reflexivity|].
        apply Hother. simpl. split; [|split].
        * rewrite <- app_assoc. simpl. rewrite Hrem. exact Hsplit.
        * rewrite Hobs. reflexivity.
        * intros r Hr. discriminate Hr.
      + destruct (prog_from p fuel' _ _ _) as [tr1 r1] in Hrun.
        injection Hrun as Hrem Hr1.
        inversion Hstep; subst h1 s1; clear Hstep.
        rewrite <- Hrem. exists (tr1, snd (tss i)). split; [reflexivity|].
        apply Hother. simpl. split; [|split].
        * rewrite <- app_assoc. simpl. rewrite Hrem. exact Hsplit.
        * exact Hobs.
        * intros r Hr. discriminate Hr.
      + destruct (prog_from p fuel' _ _ _) as [tr1 r1] in Hrun.
        injection Hrun as Hrem Hr1.
        inversion Hstep; subst h1 s1; clear Hstep.
        rewrite <- Hrem. exists (tr1, snd (tss i)). split; [reflexivity|].
        apply Hother. simpl. split; [|split].
        * rewrite <- app_assoc. simpl. rewrite Hrem. exact Hsplit.
        * exact Hobs.
        * intros r Hr. discriminate Hr.
      + (* the alone run returns here, hence nothing remains *)
        injection Hrun as Hrem Hr0.
        inversion Hstep; subst h1 s1; clear Hstep.
        rewrite <- Hrem. exists (tss i). split; [reflexivity|].
        apply Hother. simpl. split; [|split].
        * exact Hsplit.
        * exact Hobs.
        * intros r Hr. injection Hr as Hr. subst r. split; [symmetry; exact Hrem|exact Hr0].
  Qed.
  (* the program-level run coincides, step by step, with the trace-level
     [run_sched] on the alone traces, and [il_inv] is maintained *)
  Lemma prun_sim : alone_family -> race_free_tr trs ->
      forall sch h pss tss h' pss',
        plink pss tss -> il_inv trs h0 h tss ->
        prun_sched ps sch h pss = (h', pss') ->
        exists tss', run_sched sch h tss = (h', tss') /\
                     plink pss' tss' /\ il_inv trs h0 h' tss'.
  Proof.
    intros Hal Hrf. induction sch as [|i sch IH]; intros h pss tss h' pss' Hlink Hinv Hrun.
    - simpl in Hrun. injection Hrun as Hh Hp. subst h' pss'.
      exists tss. simpl. auto.
    - simpl in Hrun. destruct (ps i) as [p|] eqn:Hp.
      + destruct (pstep p h (pss i)) as [h1 s1] eqn:Hstep.
        destruct (pstep_sim _ _ _ _ _ _ _ Hal Hlink Hinv Hp Hstep) as (ts1 & Hst & Hlink1).
        pose proof (il_step _ _ _ _ _ _ _ Hrf Hinv Hst) as Hinv1.
        destruct (IH _ _ _ _ _ Hlink1 Hinv1 Hrun) as (tss' & Hr & Hl & Hi).
        exists tss'. simpl. rewrite Hst. auto.
      + (* absent thread: its alone trace is empty, [step_thread] stutters *)
        pose proof (Hal i) as Hi. rewrite Hp in Hi.
        destruct (Hlink i) as (Hsplit & _ & _). rewrite Hi in Hsplit.
        symmetry in Hsplit. apply app_eq_nil in Hsplit. destruct Hsplit as [_ Hrem].
        assert (Hst : step_thread h (tss i) = (h, tss i)).
        { unfold step_thread. rewrite Hrem. reflexivity. }
        pose proof (il_step _ _ _ _ _ _ _ Hrf Hinv Hst) as Hinv1.
        assert (Hlink1 : plink pss (set_thread tss i (tss i))).
        { intros j. unfold set_thread. destruct (Nat.eqb_spec j i) as [->|Hne]; apply Hlink. }
        destruct (IH _ _ _ _ _ Hlink1 Hinv1 Hrun) as (tss' & Hr & Hl & Hi').
        exists tss'. simpl. rewrite Hst. auto.
  Qed.

  (* (b) DRF-determinism.  Hypotheses: [trs i], [ress i] are the trace and
     result of thread i run ALONE from h0 to completion, and these alone
     traces are pairwise race free (no cell written by one and accessed by
     another) - a condition on the n sequential runs only, not on the
     interleavings.  Then for EVERY schedule [sch]:
       1. every thread has emitted a prefix of its alone trace, has observed
          exactly the values its alone run observes along that prefix, and,
          if it has returned, has emitted its whole alone trace and returned
          the RESULT of its alone run; the cells of its footprint hold what
          its alone run has put there so far;
       2. cells written by no thread are unchanged;
       3. the run coincides with the trace-level [run_sched] on the alone
          traces (so [schedule_independent] and
          [interleaving_equals_sequential] apply to it);
       4. if the schedule is complete (every thread has returned): emitted
          trace, observations and result of every thread are those of its
          alone run, and the final heap is as in [c17_concurrent]. *)
  Theorem prog_sched_alone : alone_family -> race_free_tr trs ->
      forall sch h' pss',
        prun_sched ps sch h0 pinit_all = (h', pss') ->
        (forall i, exists rem,
            trs i = (ps_emit (pss' i) ++ rem)%list /\
            ps_obs (pss' i) = rev (obs (ps_emit (pss' i)) h0) /\
            (forall r, ps_res (pss' i) = Some r -> rem = [] /\ r = ress i) /\
            (forall c, In c (foot (trs i)) -> h' c = apply_tr (ps_emit (pss' i)) h0 c)) /\
        (forall c, (forall i, ~ In c (writes_of (trs i))) -> h' c = h0 c) /\
        (exists tss', run_sched sch h0 (init_threads trs) = (h', tss') /\
                      forall i, trs i = (ps_emit (pss' i) ++ fst (tss' i))%list /\
                                snd (tss' i) = ps_obs (pss' i)) /\
        (pcomplete ps pss' ->
         (forall i, ps_emit (pss' i) = trs i /\
                    rev (ps_obs (pss' i)) = obs (trs i) h0) /\
         (forall i p, ps i = Some p -> ps_res (pss' i) = Some (ress i)) /\
         (forall i c, In c (foot (trs i)) -> h' c = apply_tr (trs i) h0 c)).
  Proof.
    intros Hal Hrf sch h' pss' Hrun.
    destruct (prun_sim Hal Hrf _ _ _ _ _ _ plink_init (il_inv_init trs h0) Hrun)
      as (tss' & Hr & Hl & [Hth Hunw]).
    assert (Hpre : forall i, exists rem,
               trs i = (ps_emit (pss' i) ++ rem)%list /\
               ps_obs (pss' i) = rev (obs (ps_emit (pss' i)) h0) /\
               (forall r, ps_res (pss' i) = Some r -> rem = [] /\ r = ress i) /\
               (forall c, In c (foot (trs i)) -> h' c = apply_tr (ps_emit (pss' i)) h0 c)).
    { intros i. destruct (Hl i) as (Hsplit & Hobs & Hdone).
      destruct (Hth i) as (pre & Hsplit' & Hobs' & Hfoot).
      assert (Hp : pre = ps_emit (pss' i)).
      { rewrite Hsplit in Hsplit'. apply app_inv_tail in Hsplit'. congruence. }
      subst pre. exists (fst (tss' i)). split; [exact Hsplit|]. split; [|split].
      - rewrite <- Hobs. exact Hobs'.
      - exact Hdone.
      - exact Hfoot. }
    split; [exact Hpre|]. split; [exact Hunw|]. split.
    { exists tss'. split; [exact Hr|]. intros i. destruct (Hl i) as (A & B & _). auto. }
    intros Hc.
    (* on completion nothing remains of any thread *)
    assert (Hall : forall i, ps_emit (pss' i) = trs i).
    { intros i. destruct (Hpre i) as (rem & Hsplit & _ & Hdone & _).
      destruct (ps i) as [p|] eqn:Hp.
      - destruct (ps_res (pss' i)) as [r|] eqn:Er; [|exfalso; exact (Hc i p Hp Er)].
        destruct (Hdone r eq_refl) as [-> _]. rewrite app_nil_r in Hsplit. auto.
      - pose proof (Hal i) as Hi. rewrite Hp in Hi. rewrite Hi in Hsplit.
        symmetry in Hsplit. apply app_eq_nil in Hsplit. rewrite Hi. tauto. }
    split; [|split].
    - intros i. split; [apply Hall|].
      destruct (Hpre i) as (rem & _ & Hobs & _). rewrite Hobs, rev_involutive, Hall. reflexivity.
    - intros i p Hp. destruct (Hpre i) as (rem & _ & _ & Hdone & _).
      destruct (ps_res (pss' i)) as [r|] eqn:Er; [|exfalso; exact (Hc i p Hp Er)].
      destruct (Hdone r eq_refl) as [_ ->]. reflexivity.
    - intros i c Hin. destruct (Hpre i) as (rem & _ & _ & _ & Hfoot).
      rewrite <- Hall. apply Hfoot, Hin.
  Qed.
End Sched.

(* Sanity link between the two semantics of a program: under the scheduler, a
   single thread (scheduled any number of times until it has returned) does
   exactly its alone run [prog_trace]: same trace, same result, and the final
   heap is the replay [apply_tr tr h0] of its trace. *)
Definition single (p : prog) : nat -> option prog :=
  fun i => match i with 0 => Some p | _ => None end.

Theorem prun_single_alone : forall p h0 tr res sch h' pss',
    alone p h0 tr res ->
    prun_sched (single p) sch h0 pinit_all = (h', pss') ->
    ps_res (pss' 0) <> None ->
    ps_res (pss' 0) = Some res /\ ps_emit (pss' 0) = tr /\
    forall c, h' c = apply_tr tr h0 c.
Proof.
  intros p h0 tr res sch h' pss' Hal Hrun Hdone.
  set (trs := fun i : nat => match i with 0 => tr | _ => [] end).
  set (ress := fun i : nat => match i with 0 => res | _ => [] end).
  assert (Hfam : alone_family (single p) h0 trs ress).
  { intros [|i]; simpl; [exact Hal|reflexivity]. }
  assert (Hrf : race_free_tr trs).
  { intros [|i] [|j] c Hij Hw Hf; simpl in *; solve [contradiction | lia]. }
  destruct (prog_sched_alone _ _ _ _ Hfam Hrf _ _ _ Hrun) as (_ & Hunw & _ & Hcomp).
  assert (Hc : pcomplete (single p) pss').
  { intros [|i] q Hq; simpl in Hq; [exact Hdone|discriminate]. }
  destruct (Hcomp Hc) as (Hall & Hres & Hfoot).
  split; [exact (Hres 0 p eq_refl)|]. split; [exact (proj1 (Hall 0))|].
  intros c. destruct (in_dec Nat.eq_dec c (writes_of tr)) as [Hin|Hnin].
  - apply (Hfoot 0 c). unfold foot. apply in_or_app. right. exact Hin.
  - rewrite apply_tr_frame by exact Hnin. apply Hunw.
    intros [|i]; simpl; [exact Hnin|tauto].
Qed.

(* ------------------------------------------------------------------ *)
(** * (c) Programs conforming to the effect IR *)

(* ** The inputs of an IR run are arguments and globals

   [pure_fn_sound] bounds the cells a run touches by "fresh cells, arguments,
   globals".  For determinism one more fact about the IR semantics is needed:
   a fresh cell is never an INPUT, i.e. it is written (by its allocation,
   [ex_alloc] emits the initialising write) before it is read.  Hence the
   cells a run reads before writing them are arguments and globals only. *)
Section Inputs.
  Variable tbl : fn_table.
  Variable gl : string -> region.

  (* every cell allocated by a run is written by the run *)
  Lemma alloc_cover : forall n ps s body s' tr ret,
      exec tbl gl n ps s body s' tr ret ->
      sn s <= sn s' /\ forall c, sn s <= c < sn s' -> In c (writes_of tr).
  Proof.
    intros n ps s body s' tr ret Hex.
    induction Hex as [n ps s
                     | n ps s o rest s' tr r Hex IH
                     | n ps s b k rest s' tr r v Hex IH
                     | n ps s b rs cs rest s' tr r Hcs Hex IH
                     | n ps s b rs fld cs rest s' tr r Hcs Hex IH
                     | n ps s b d rr rest
                     | n ps s b f args k hint rest bodyf s1 tr1 r1 s' tr2 r Hl Hex1 IH1 Hex2 IH2].
    - split; [lia|intros c Hc; lia].
    - exact IH.
    - simpl in IH. destruct IH as [Hle Hcov]. split; [lia|].
      intros c Hc. simpl. destruct (Nat.eq_dec (sn s) c) as [He|Hne]; [left; exact He|right].
      apply Hcov. lia.
    - destruct IH as [Hle Hcov]. split; [exact Hle|].
      intros c Hc. rewrite writes_of_app. apply in_or_app. right. apply Hcov, Hc.
    - simpl in IH. destruct IH as [Hle Hcov]. split; [exact Hle|].
      intros c Hc. cbn [writes_of]. rewrite writes_of_app. apply in_or_app. right. apply Hcov, Hc.
    - split; [lia|intros c Hc; lia].
    - simpl in IH1, IH2. destruct IH1 as [Hle1 Hcov1]. destruct IH2 as [Hle2 Hcov2].
      split; [lia|]. intros c Hc. rewrite writes_of_app. apply in_or_app.
      destruct (Nat.lt_ge_cases c (sn s1)) as [Hlt|Hge]; [left; apply Hcov1; lia|right; apply Hcov2; lia].
  Qed.

  (* inputs of a call: old cells (below the entry allocation pointer) or
     arguments / globals *)
  Definition xspec (f : string) : Prop :=
    forall n ps h nx body s' tr ret,
      lookup tbl f = Some body ->
      exec tbl gl n ps (mkst h nx lempty) body s' tr ret ->
      forall c, In c (ext_reads tr []) -> c < nx \/ acc gl ps c.

  Lemma ext_reads_nil_reads : forall tr, reads_of tr = [] -> forall w, ext_reads tr w = [].
  Proof.
    intros tr Hr w. destruct (ext_reads tr w) as [|c l] eqn:E; [reflexivity|].
    assert (Hin : In c (ext_reads tr w)) by (rewrite E; left; reflexivity).
    apply ext_reads_reads in Hin. rewrite Hr in Hin. contradiction.
  Qed.

  Lemma body_ext_reads : forall m,
      (forall g, ok tbl m g = true -> xspec g) ->
      forall n ps s body s' tr ret,
        exec tbl gl n ps s body s' tr ret ->
        forall body0 nx0,
          incl body body0 -> wf_body tbl m body0 ->
          linv gl nx0 (sn s) ps body0 (sl s) -> nx0 <= sn s ->
          forall c, In c (ext_reads tr []) -> c < sn s \/ acc gl ps c.
  Proof.
    intros m IHm n ps s body s' tr ret Hex.
    induction Hex as [n ps s
                     | n ps s o rest s' tr r Hex IH
                     | n ps s b k rest s' tr r v Hex IH
                     | n ps s b rs cs rest s' tr r Hcs Hex IH
                     | n ps s b rs fld cs rest s' tr r Hcs Hex IH
                     | n ps s b d rr rest
                     | n ps s b f args k hint rest bodyf s1 tr1 r1 s' tr2 r Hl Hex1 IH1 Hex2 IH2];
      intros body0 nx0 Hincl Hwf Hinv Hnx c Hc.
    - simpl in Hc. contradiction.
    - apply (IH body0 nx0); auto. intros x Hx; apply Hincl; right; exact Hx.
    - (* alloc: the fresh cell is written first, so it is not an input *)
      assert (Hincl' : incl rest body0) by (intros x Hx; apply Hincl; right; exact Hx).
      assert (Hinv' : linv gl nx0 (S (sn s)) ps body0 (bind (sl s) k (fun c => c = sn s))).
      { intros k' c0 [[_ Hc0]|Hc0]; [left; lia|].
        eapply linv_mono; [|exact Hinv|exact Hc0]. lia. }
      simpl in Hc.
      pose proof (ext_reads_notin _ _ _ Hc) as Hne.
      assert (Hc' : In c (ext_reads tr [])).
      { eapply ext_reads_sub; [exact Hc|]. intros x []. }
      destruct (IH body0 nx0 Hincl' Hwf Hinv' ltac:(simpl; lia) c Hc') as [Hlt|Ha];
        [|right; exact Ha].
      simpl in Hlt. left.
      destruct (Nat.eq_dec c (sn s)) as [He|Hd]; [exfalso; apply Hne; left; auto|lia].
    - (* read *)
      assert (Hincl' : incl rest body0) by (intros x Hx; apply Hincl; right; exact Hx).
      destruct (Hwf _ (Hincl _ (or_introl eq_refl))) as [Hok _].
      apply instr_known in Hok; simpl in Hok.
      rewrite Forall_forall in Hcs.
      apply ext_reads_app in Hc. destruct Hc as [Hc|[Hc _]].
      + apply ext_reads_reads in Hc. rewrite reads_of_reads in Hc.
        destruct (dens_acc _ _ _ _ _ _ _ _ _ _ Hwf Hinv Hok (Hcs c Hc)) as [Hf|Ha];
          [left; lia|right; exact Ha].
      + apply (IH body0 nx0); auto.
    - (* write *)
      assert (Hincl' : incl rest body0) by (intros x Hx; apply Hincl; right; exact Hx).
      cbn [ext_reads] in Hc.
      apply ext_reads_app in Hc. destruct Hc as [Hc|[Hc _]].
      + rewrite ext_reads_nil_reads in Hc; [contradiction|apply reads_of_writes].
      + apply (IH body0 nx0 Hincl' Hwf Hinv Hnx c Hc).
    - simpl in Hc. contradiction.
    - (* call *)
      assert (Hincl' : incl rest body0) by (intros x Hx; apply Hincl; right; exact Hx).
      pose proof (Hincl _ (or_introl eq_refl)) as Hin0.
      destruct (Hwf _ Hin0) as [Hok Hokg]. simpl in Hokg.
      pose proof (instr_known _ _ _ Hok) as Hkn; simpl in Hkn.
      unfold instr_ok in Hok; simpl in Hok.
      apply andb_true_iff in Hok; destruct Hok as [_ Hok].
      apply andb_true_iff in Hok; destruct Hok as [_ Hhint].
      apply inclr_incl in Hhint.
      destruct (call_sound tbl gl m f Hokg _ _ _ _ _ _ _ _ Hl Hex1) as (C1 & _ & C3 & _ & _).
      simpl in C1.
      assert (Hinv2 : linv gl nx0 (sn s1) ps body0
                (bind (sl s) k (match r1 with Some (_, R) => R | None => rempty end))).
      { intros k' c0 [[Hk HR]|Hc0].
        - subst k'. destruct r1 as [[D R]|]; [|contradiction].
          destruct (C3 D R eq_refl c0 HR) as [Hf|Hd]; [left; lia|].
          apply subst_sound in Hd.
          destruct (expand_sound _ _ _ _ _ _ _ _ Hinv Hd) as [Hf|Hd2]; [left; lia|right].
          eapply dens_mono; [|exact Hd2].
          eapply incl_tran; [exact Hhint|]. eapply hint_of_in; eassumption.
        - eapply linv_mono; [|exact Hinv|exact Hc0]. exact C1. }
      apply ext_reads_app in Hc. destruct Hc as [Hc|[Hc Hnw]].
      + (* an input of the callee *)
        destruct (IHm f Hokg _ _ _ _ _ _ _ _ Hl Hex1 c Hc) as [Hlt|Ha]; [left; exact Hlt|].
        destruct Ha as [[i Hi]|Hg]; [|right; right; exact Hg].
        unfold denP in Hi. rewrite nth_error_map in Hi.
        destruct (nth_error args i) as [a|] eqn:Ha; simpl in Hi; [|contradiction].
        assert (Hka : forallb known a = true).
        { rewrite forallb_app in Hkn. apply andb_true_iff in Hkn. destruct Hkn as [Hkn _].
          rewrite forallb_forall in Hkn |- *. intros r0 Hr. apply Hkn.
          apply in_concat. exists a; split; [eapply nth_error_In; eassumption|exact Hr]. }
        destruct (dens_acc _ _ _ _ _ _ _ _ _ _ Hwf Hinv Hka Hi) as [Hf|Ha2];
          [left; lia|right; exact Ha2].
      + (* an input of the rest that the callee did not write: not one of
           the cells the callee allocated *)
        destruct (IH2 body0 nx0 Hincl' Hwf Hinv2 ltac:(simpl; lia) c Hc) as [Hlt|Ha];
          [|right; exact Ha].
        simpl in Hlt.
        destruct (Nat.lt_ge_cases c (sn s)) as [Hlt'|Hge]; [left; exact Hlt'|].
        exfalso. apply Hnw.
        destruct (alloc_cover _ _ _ _ _ _ _ Hex1) as [_ Hcov]. apply Hcov. simpl. lia.
  Qed.

  Theorem call_xsound : forall m f, ok tbl m f = true -> xspec f.
  Proof.
    induction m as [|m IHm]; intros f Hok; [discriminate|].
    destruct (ok_S _ _ _ Hok) as [body [Hl Hwf]].
    intros n ps h nx body' s' tr ret Hl' Hex c Hc.
    rewrite Hl in Hl'. injection Hl' as Hb. subst body'.
    apply (body_ext_reads m IHm _ _ _ _ _ _ _ Hex body nx (incl_refl _) Hwf); auto.
    intros k c0 Hc0. contradiction.
  Qed.

  (* The inputs of a run of a pure (in fact: of any well-formed) function -
     the cells it reads before having written them itself - are cells of its
     arguments or of package-level variables; never a cell of its arena. *)
  Theorem run_inputs : forall d f, pure_fn tbl d f = true ->
      forall n ps h nx h' nx' tr ret,
        run tbl gl n f ps h nx h' nx' tr ret ->
        forall c, In c (ext_reads tr []) -> acc gl ps c.
  Proof.
    intros d f Hp n ps h nx h' nx' tr ret Hrun c Hc.
    destruct (pure_fn_sound _ _ _ _ Hp _ _ _ _ _ _ _ _ Hrun) as (_ & _ & _ & Hacc).
    destruct Hrun as [body [le' [Hl Hex]]].
    unfold pure_fn in Hp. apply andb_true_iff in Hp. destruct Hp as [Hok _].
    destruct (call_xsound _ _ Hok _ _ _ _ _ _ _ _ Hl Hex c Hc) as [Hlt|Ha]; [|exact Ha].
    destruct (Hacc c) as [Hf|Ha]; [|lia|exact Ha].
    apply in_or_app. left. eapply ext_reads_reads, Hc.
  Qed.
End Inputs.

Lemma alone_ext : forall p h1 h2 tr res,
    (forall c, h1 c = h2 c) -> alone p h1 tr res -> alone p h2 tr res.
Proof. intros p h1 h2 tr res He Hal. eapply alone_agree; [exact Hal|]. intros c _. apply He. Qed.

Section Conform.
  Variable tbl : fn_table.
  Variable gl : string -> region.
  Variable d : dests.

  Notation conforms := (conforms tbl gl).

  (* a conforming program terminates from every heap *)
  Lemma conforms_alone : forall p f ps lo hi, conforms p f ps lo hi ->
      forall h, exists tr res, alone p h tr res.
  Proof.
    intros p f ps lo hi Hc h.
    destruct (Hc h) as (fuel & tr & res & n & h' & hi' & ret & Hrun & _).
    exists tr, res, fuel. exact Hrun.
  Qed.

  (* THE alone run of a conforming program is a run of the IR; the final heap
     of that run is the replay of the program's trace *)
  Lemma conforms_run : forall p f ps lo hi h tr res,
      conforms p f ps lo hi -> alone p h tr res ->
      exists n h' hi' ret, hi' <= hi /\ run tbl gl n f ps h lo h' hi' tr ret /\
                           forall c, h' c = apply_tr tr h c.
  Proof.
    intros p f ps lo hi h tr res Hc Hal.
    destruct (Hc h) as (fuel & tr' & res' & n & h' & hi' & ret & Hrun & Hhi & Hr).
    destruct (alone_det _ _ _ _ _ _ Hal (ex_intro _ fuel Hrun)) as [-> ->].
    exists n, h', hi', ret. split; [exact Hhi|]. split; [exact Hr|].
    destruct Hr as [body [le' [_ Hex]]]. intros c.
    apply (exec_replay _ _ _ _ _ _ _ _ _ Hex c).
  Qed.

  (* the inputs of a conforming program are cells of its arguments and of
     package-level variables *)
  Theorem conforms_inputs : forall p f ps lo hi h tr res,
      pure_fn tbl d f = true -> conforms p f ps lo hi -> alone p h tr res ->
      forall c, In c (ext_reads tr []) -> acc gl ps c.
  Proof.
    intros p f ps lo hi h tr res Hp Hc Hal.
    destruct (conforms_run _ _ _ _ _ _ _ _ Hc Hal) as (n & h' & hi' & ret & _ & Hr & _).
    eapply run_inputs; eassumption.
  Qed.

  (* ** C16: histories.  A deterministic implementation [p] of a pure
     function, run after ANY finite history of pure calls (failing ones
     included: every return path is a [run]), has the trace and returns the
     RESULT of its run on the initial heap - provided its arguments and the
     globals pre-exist the history and no documented destination of the
     history is one of its INPUTS (a cell it reads before overwriting it).
     The history may contain earlier executions of the same call. *)
  Theorem conforms_history_inputs : forall f p ps lo hi hist h nx h1 nx1 tr res,
      pure_fn tbl d f = true -> conforms p f ps lo hi ->
      all_pure tbl d hist -> run_hist tbl gl hist h nx h1 nx1 ->
      (forall c, acc gl ps c -> c < nx) ->
      alone p h tr res ->
      (forall c, In c (ext_reads tr []) -> ~ hist_dest d hist c) ->
      alone p h1 tr res.
  Proof.
    intros f p ps lo hi hist h nx h1 nx1 tr res Hp Hc Hall Hh Hold Hal Hnd.
    destruct (history_pure _ _ _ _ _ _ _ _ Hall Hh) as [_ Hframe].
    eapply alone_agree; [exact Hal|].
    intros c Hin. symmetry. apply Hframe; [|apply Hnd, Hin].
    apply Hold. eapply conforms_inputs; eassumption.
  Qed.

  (* the version with the coarser, trace-independent hypothesis: no
     documented destination of the history overlaps the cells the call can
     access at all *)
  Corollary conforms_history : forall f p ps lo hi hist h nx h1 nx1 tr res,
      pure_fn tbl d f = true -> conforms p f ps lo hi ->
      all_pure tbl d hist -> run_hist tbl gl hist h nx h1 nx1 ->
      (forall c, acc gl ps c -> c < nx) ->
      (forall c, acc gl ps c -> ~ hist_dest d hist c) ->
      alone p h tr res -> alone p h1 tr res.
  Proof.
    intros f p ps lo hi hist h nx h1 nx1 tr res Hp Hc Hall Hh Hold Hnd Hal.
    eapply conforms_history_inputs; try eassumption.
    intros c Hin. apply Hnd. eapply conforms_inputs; eassumption.
  Qed.

  (* ** C16: repetition.  Running the same conforming call again (k times)
     on the heap it left behind gives the same trace and RESULT, provided the
     arguments pre-exist the arena and no cell of its documented destination
     is an INPUT of the run: the destination is not read, or is overwritten
     before being read.  (z.Add(z, x) reads its destination first: repeating
     it gives another result, and the hypothesis excludes it.) *)
  Theorem conforms_repeat : forall f p ps lo hi h tr res,
      pure_fn tbl d f = true -> conforms p f ps lo hi ->
      (forall c, acc gl ps c -> c < lo) ->
      alone p h tr res ->
      (forall c, In c (ext_reads tr []) -> ~ dest_cells ps (dest_of d f) c) ->
      forall k, alone p (Nat.iter k (apply_tr tr) h) tr res.
  Proof.
    intros f p ps lo hi h tr res Hp Hc Hold Hal Hnd.
    apply prog_repeat; [exact Hal|].
    intros c Hin Hw.
    destruct (conforms_run _ _ _ _ _ _ _ _ Hc Hal) as (n & h' & hi' & ret & _ & Hr & _).
    destruct (pure_fn_sound _ _ _ _ Hp _ _ _ _ _ _ _ _ Hr) as (_ & _ & Hwr & _).
    pose proof (Hold c (conforms_inputs _ _ _ _ _ _ _ _ Hp Hc Hal c Hin)) as Hlt.
    destruct (Hwr c Hw) as [Hf|Hd]; [lia|exact (Hnd c Hin Hd)].
  Qed.

  (* ** C17: concurrent conforming programs *)

  Definition pt_dest (t : pthread) : region := dest_cells (pt_ps t) (dest_of d (pt_f t)).

  (* thread t: a pure function, implemented by a conforming program with its
     own arena above the common heap, arguments and globals in the common
     heap; [pt_fuel t] steps suffice for its alone run from h0 *)
  Definition pthread_ok (h0 : cell -> Z) (nx0 : nat) (t : pthread) : Prop :=
    pure_fn tbl d (pt_f t) = true /\
    nx0 <= pt_lo t /\
    (forall c, acc gl (pt_ps t) c -> c < nx0) /\
    conforms (pt_prog t) (pt_f t) (pt_ps t) (pt_lo t) (pt_hi t) /\
    snd (prog_trace (pt_prog t) h0 (pt_fuel t)) <> None.

  Lemma pt_alone : forall h0 t,
      snd (prog_trace (pt_prog t) h0 (pt_fuel t)) <> None ->
      alone (pt_prog t) h0 (pt_tr h0 t) (pt_result h0 t).
  Proof.
    intros h0 t Hne. unfold pt_tr, pt_result. exists (pt_fuel t).
    destruct (prog_trace (pt_prog t) h0 (pt_fuel t)) as [tr [r|]]; simpl in *; [reflexivity|].
    exfalso. apply Hne. reflexivity.
  Qed.

  Lemma palone_family : forall h0 nx0 (ths : nat -> option pthread),
      (forall i t, ths i = Some t -> pthread_ok h0 nx0 t) ->
      alone_family (progs_of ths) h0 (ptrs_of h0 ths) (press_of h0 ths).
  Proof.
    intros h0 nx0 ths Hok i. unfold progs_of, ptrs_of, press_of.
    destruct (ths i) as [t|] eqn:Ei; [|reflexivity].
    destruct (Hok i t Ei) as (_ & _ & _ & _ & Hne). apply pt_alone, Hne.
  Qed.

  (* the alone traces of such threads are race free (as [race_free], but the
     traces are those COMPUTED by the programs) *)
  Theorem prace_free : forall h0 nx0 (ths : nat -> option pthread),
      (forall i t, ths i = Some t -> pthread_ok h0 nx0 t) ->
      (forall i j ti tj, i <> j -> ths i = Some ti -> ths j = Some tj ->
                         pt_hi ti <= pt_lo tj \/ pt_hi tj <= pt_lo ti) ->
      (forall i j ti tj, i <> j -> ths i = Some ti -> ths j = Some tj ->
                         forall c, pt_dest ti c -> ~ acc gl (pt_ps tj) c) ->
      race_free_tr (ptrs_of h0 ths).
  Proof.
    intros h0 nx0 ths Hok Har Hpriv i j c Hij Hw Hf.
    unfold ptrs_of in *.
    destruct (ths i) as [ti|] eqn:Ei; [|simpl in Hw; contradiction].
    destruct (ths j) as [tj|] eqn:Ej; [|simpl in Hf; contradiction].
    destruct (Hok i ti Ei) as (Hpi & Hloi & Holdi & Hci & Hni).
    destruct (Hok j tj Ej) as (Hpj & Hloj & Holdj & Hcj & Hnj).
    destruct (conforms_run _ _ _ _ _ _ _ _ Hci (pt_alone _ _ Hni))
      as (ni & hi1 & hii & ri & Hhii & Hri & _).
    destruct (conforms_run _ _ _ _ _ _ _ _ Hcj (pt_alone _ _ Hnj))
      as (nj & hj1 & hij & rj & Hhij & Hrj & _).
    destruct (pure_fn_sound _ _ _ _ Hpi _ _ _ _ _ _ _ _ Hri) as (_ & _ & Wi & _).
    destruct (pure_fn_sound _ _ _ _ Hpj _ _ _ _ _ _ _ _ Hrj) as (_ & _ & _ & Aj).
    specialize (Wi c Hw). specialize (Aj c Hf).
    destruct Wi as [Fi|Di]; destruct Aj as [Fj|Aj].
    - destruct (Har i j ti tj Hij Ei Ej); lia.
    - specialize (Holdj c Aj). lia.
    - apply (dest_acc gl) in Di. specialize (Holdi c Di). lia.
    - exact (Hpriv i j ti tj Hij Ei Ej c Di Aj).
  Qed.

  (* Any number of threads, each a deterministic implementation of a pure
     function; arguments and globals are shared cells of the common heap,
     each thread allocates in its own arena, the documented destination of a
     thread is private (no other thread can reach it).  Then the alone traces
     are race free and, for EVERY schedule: each thread has so far emitted a
     prefix of its alone trace and observed what its alone run observes; if
     it has returned, it has returned the RESULT of its alone run; cells
     written by no thread are unchanged; and when all threads have returned,
     every thread has the trace, the observations and the RESULT of its alone
     run from h0 and its footprint (destination, fresh results) ends as after
     its alone run. *)
  Theorem conc_same_result : forall h0 nx0 (ths : nat -> option pthread) sch h' pss',
      (forall i t, ths i = Some t -> pthread_ok h0 nx0 t) ->
      (forall i j ti tj, i <> j -> ths i = Some ti -> ths j = Some tj ->
                         pt_hi ti <= pt_lo tj \/ pt_hi tj <= pt_lo ti) ->
      (forall i j ti tj, i <> j -> ths i = Some ti -> ths j = Some tj ->
                         forall c, pt_dest ti c -> ~ acc gl (pt_ps tj) c) ->
      prun_sched (progs_of ths) sch h0 pinit_all = (h', pss') ->
      race_free_tr (ptrs_of h0 ths) /\
      (forall i t, ths i = Some t ->
         alone (pt_prog t) h0 (pt_tr h0 t) (pt_result h0 t) /\
         exists rem,
           pt_tr h0 t = (ps_emit (pss' i) ++ rem)%list /\
           ps_obs (pss' i) = rev (obs (ps_emit (pss' i)) h0) /\
           (forall r, ps_res (pss' i) = Some r -> rem = [] /\ r = pt_result h0 t)) /\
      (forall c, (forall i t, ths i = Some t -> ~ In c (writes_of (pt_tr h0 t))) -> h' c = h0 c) /\
      (pcomplete (progs_of ths) pss' ->
       forall i t, ths i = Some t ->
         ps_res (pss' i) = Some (pt_result h0 t) /\
         ps_emit (pss' i) = pt_tr h0 t /\
         rev (ps_obs (pss' i)) = obs (pt_tr h0 t) h0 /\
         (forall c, In c (foot (pt_tr h0 t)) -> h' c = apply_tr (pt_tr h0 t) h0 c)).
  Proof.
    intros h0 nx0 ths sch h' pss' Hok Har Hpriv Hrun.
    pose proof (prace_free _ _ _ Hok Har Hpriv) as Hrf.
    pose proof (palone_family _ _ _ Hok) as Hal.
    destruct (prog_sched_alone _ _ _ _ Hal Hrf _ _ _ Hrun) as (Hpre & Hunw & _ & Hcomp).
    split; [exact Hrf|]. split; [|split].
    - intros i t Ei. destruct (Hok i t Ei) as (_ & _ & _ & _ & Hne).
      split; [apply pt_alone, Hne|].
      destruct (Hpre i) as (rem & Hsplit & Hobs & Hdone & _).
      unfold ptrs_of, press_of in Hsplit, Hdone. rewrite Ei in Hsplit, Hdone.
      exists rem. auto.
    - intros c Hc. apply Hunw. intros i. unfold ptrs_of.
      destruct (ths i) as [t|] eqn:Ei; [exact (Hc i t Ei)|simpl; tauto].
    - intros Hcomplete i t Ei. destruct (Hcomp Hcomplete) as (Hall & Hres & Hfoot).
      specialize (Hall i). specialize (Hfoot i).
      specialize (Hres i (pt_prog t)).
      unfold ptrs_of, press_of, progs_of in Hall, Hres, Hfoot.
      rewrite Ei in Hall, Hres, Hfoot. destruct Hall as [He Ho].
      repeat split; auto.
  Qed.
End Conform.

(* ------------------------------------------------------------------ *)
(** * (d) Non-vacuity *)

(* Two threads, each reading the shared cells 0 and 1 and writing their sum
   to a private cell (10 / 11) and returning it. *)
Definition sum_prog (dst : cell) : prog := fun pc o =>
  match pc, o with
  | 0, _ => ARead 0
  | 1, _ => ARead 1
  | 2, [b; a] => AWrite dst (a + b)
  | 3, [b; a] => ADone [(a + b)%Z]
  | _, _ => ADone []
  end.

Definition ex2_ps : nat -> option prog := fun i =>
  match i with 0 => Some (sum_prog 10) | 1 => Some (sum_prog 11) | _ => None end.
Definition ex2_trs (h0 : cell -> Z) : nat -> list event := fun i =>
  match i with
  | 0 => [EvR 0; EvR 1; EvW 10 (h0 0%nat + h0 1%nat)%Z]
  | 1 => [EvR 0; EvR 1; EvW 11 (h0 0%nat + h0 1%nat)%Z]
  | _ => []
  end.
Definition ex2_ress (h0 : cell -> Z) : nat -> list Z := fun i =>
  match i with 0 | 1 => [(h0 0%nat + h0 1%nat)%Z] | _ => [] end.

(* the hypotheses of (b) hold, from every initial heap *)
Example ex2_alone : forall h0, alone_family ex2_ps h0 (ex2_trs h0) (ex2_ress h0).
Proof.
  intros h0 [|[|i]]; simpl; try reflexivity; exists 4; reflexivity.
Qed.

Example ex2_race_free : forall h0, race_free_tr (ex2_trs h0).
Proof.
  intros h0 [|[|i]] [|[|j]] c Hij Hw Hf; simpl in *; try tauto; try lia;
    unfold foot in Hf; simpl in Hf; intuition lia.
Qed.

(* hence, from every heap and under EVERY complete schedule, both threads
   return the sum of the initial contents of cells 0 and 1, the private
   cells hold it, the shared cells are unchanged *)
Example ex2_every_schedule : forall h0 sch h' pss',
    prun_sched ex2_ps sch h0 pinit_all = (h', pss') -> pcomplete ex2_ps pss' ->
    ps_res (pss' 0) = Some [(h0 0%nat + h0 1%nat)%Z] /\ ps_res (pss' 1) = Some [(h0 0%nat + h0 1%nat)%Z] /\
    h' 10 = (h0 0%nat + h0 1%nat)%Z /\ h' 11 = (h0 0%nat + h0 1%nat)%Z /\ h' 0 = h0 0 /\ h' 1 = h0 1.
Proof.
  intros h0 sch h' pss' Hrun Hc.
  destruct (prog_sched_alone _ _ _ _ (ex2_alone h0) (ex2_race_free h0) _ _ _ Hrun)
    as (_ & Hunw & _ & Hcomp).
  destruct (Hcomp Hc) as (_ & Hres & Hfoot).
  split; [exact (Hres 0 _ eq_refl)|]. split; [exact (Hres 1 _ eq_refl)|].
  split; [|split; [|split]].
  - rewrite (Hfoot 0 10); [reflexivity|]. unfold foot; simpl; auto.
  - rewrite (Hfoot 1 11); [reflexivity|]. unfold foot; simpl; auto.
  - apply Hunw. intros [|[|i]]; simpl; intuition lia.
  - apply Hunw. intros [|[|i]]; simpl; intuition lia.
Qed.

(* ... and complete schedules exist: one of them, run *)
Example ex2_schedule :
  let h0 := fun c => match c with 0 => 3%Z | 1 => 4%Z | _ => 0%Z end in
  let '(h', pss') := prun_sched ex2_ps [0; 1; 1; 0; 1; 0; 0; 1] h0 pinit_all in
  pcomplete ex2_ps pss' /\ ps_res (pss' 0) = Some [7%Z] /\ ps_res (pss' 1) = Some [7%Z] /\
  h' 10 = 7%Z /\ h' 11 = 7%Z /\ ps_emit (pss' 1) = [EvR 0; EvR 1; EvW 11 7%Z].
Proof.
  simpl. repeat split.
  intros [|[|i]] p Hp; simpl in *; try discriminate.
Qed.

(* The disjointness hypothesis of [prog_repeat] / [conforms_repeat] is
   needed: a program that reads cell 0, writes the successor back and returns
   what it read returns something else when repeated. *)
Definition incr_prog : prog := fun pc o =>
  match pc, o with
  | 0, _ => ARead 0
  | 1, [a] => AWrite 0 (a + 1)
  | 2, [a] => ADone [a]
  | _, _ => ADone []
  end.

Example ex_repeat_differs : forall h,
    alone incr_prog h [EvR 0; EvW 0 (h 0%nat + 1)%Z] [h 0] /\
    alone incr_prog (apply_tr [EvR 0; EvW 0 (h 0%nat + 1)%Z] h)
          [EvR 0; EvW 0 (h 0%nat + 1 + 1)%Z] [(h 0%nat + 1)%Z].
Proof. intros h. split; exists 3; reflexivity. Qed.

(* A conforming program on the small hand-written table [ex_tbl] of
   Proofs/EffectsProofs.v: "set" (read parameter 1, write parameter 0) is
   implemented by copying cell [x] to cell [z].  (Conforming programs for
   functions of the GENERATED table are in Proofs/EffectsDetVerdict.v.) *)
Definition copy_prog (z x : cell) : prog := fun pc o =>
  match pc, o with
  | 0, _ => ARead x
  | 1, _ => AField "" [RParam 0]
  | 2, [a] => AWrite z a
  | _, _ => ADone o
  end.

Example ex_copy_conforms : forall gl z x lo,
    conforms ex_tbl gl (copy_prog z x) "set" [cellr z; cellr x] lo lo.
Proof.
  intros gl z x lo h.
  exists 4, [EvR x; EvF "" [RParam 0]; EvW z (h x)], [h x], 0, (upd h z (h x)), lo, None.
  split; [reflexivity|]. split; [lia|].
  exists [(true, IRead [RParam 1]); (true, IWrite [RParam 0] "")], lempty.
  split; [reflexivity|].
  apply (ex_read _ _ _ _ _ _ _ [x]).
  { repeat constructor. exists (RParam 1); split; [left; reflexivity|]. reflexivity. }
  apply (ex_write _ _ _ _ _ _ _ _ [(z, h x)]).
  { repeat constructor. exists (RParam 0); split; [left; reflexivity|]. reflexivity. }
  apply ex_nil.
Qed.

Print Assumptions prog_det_agree.
Print Assumptions prog_repeat.
Print Assumptions prog_sched_alone.
Print Assumptions prun_single_alone.
Print Assumptions run_inputs.
Print Assumptions conforms_history_inputs.
Print Assumptions conforms_history.
Print Assumptions conforms_repeat.
Print Assumptions prace_free.
Print Assumptions conc_same_result.
Print Assumptions ex2_every_schedule.
Print Assumptions ex2_schedule.
Print Assumptions ex_repeat_differs.
Print Assumptions ex_copy_conforms.

(* Codecs of babyjub/eddsa.go (property C15): signature / public-key
   compression, hex text marshalling, database/sql Scan and Value.  Every
   encoder is inverted by its decoder, decoders accept only what the
   encoders produce (exact lengths, canonical points), and nothing panics. *)
From Coq Require Import ZArith List Bool Lia Arith.
From Verif Require Import Lib.Params Lib.Octets Spec.Edwards
  Model.Outcome Model.Utils Model.BabyJubCore Model.BabyJub Model.Eddsa
  Proofs.OctetsProofs Proofs.UtilsProofs Proofs.CompressProofs.
Import ListNotations.
Local Open Scope Z_scope.

(* ------------------------------------------------------------------ *)
(** * List helpers *)

Lemma firstn_app_exact {A} (a b : list A) n : length a = n -> firstn n (a ++ b) = a.
Proof.
  intros <-. rewrite firstn_app, Nat.sub_diag, firstn_O, app_nil_r. apply firstn_all.
Qed.

Lemma skipn_app_exact {A} (a b : list A) n : length a = n -> skipn n (a ++ b) = b.
Proof.
  intros <-. rewrite skipn_app, Nat.sub_diag, skipn_all. reflexivity.
Qed.

(* ------------------------------------------------------------------ *)
(** * Signature.Compress / Signature.Decompress *)

Theorem SigCompress_length s : length (SigCompress s) = 64%nat.
Proof.
  destruct s as [R8 Sv]. unfold SigCompress.
  rewrite app_length, compress_length, BigIntLEBytes_length. reflexivity.
Qed.

Theorem SigCompress_bytes s : can (fst s) -> Forall is_byte (SigCompress s).
Proof.
  destruct s as [R8 Sv]. cbn [fst]. intros Hc. unfold SigCompress.
  apply Forall_app. split; [apply compress_bytes; exact Hc|apply BigIntLEBytes_bytes].
Qed.

Theorem SigDecompress_SigCompress R8 Sv :
  oc R8 -> can R8 -> 0 <= Sv < 2 ^ 256 ->
  SigDecompress (SigCompress (R8, Sv)) = Ok (R8, Sv).
Proof.
  intros Hoc Hcan HS. unfold SigDecompress, SigCompress.
  rewrite (firstn_app_exact _ _ 32 (compress_length R8)).
  rewrite (skipn_app_exact _ _ 32 (compress_length R8)).
  rewrite decompress_compress by assumption.
  rewrite SetBigIntFromLEBytes_BigIntLEBytes by exact HS. reflexivity.
Qed.

(* whatever Signature.Decompress accepts is the encoding of its result *)
Theorem SigDecompress_sound buf R8 Sv :
  length buf = 64%nat -> Forall is_byte buf -> SigDecompress buf = Ok (R8, Sv) ->
  oc R8 /\ can R8 /\ 0 <= Sv < 2 ^ 256 /\ SigCompress (R8, Sv) = buf.
Proof.
  intros Hl Hb H. unfold SigDecompress in H.
  assert (Hl1 : length (firstn 32 buf) = 32%nat) by (rewrite firstn_length; lia).
  assert (Hl2 : length (skipn 32 buf) = 32%nat) by (rewrite skipn_length; lia).
  pose proof (Forall_is_byte_firstn 32 buf Hb) as Hb1.
  pose proof (Forall_is_byte_skipn 32 buf Hb) as Hb2.
  destruct (Decompress (firstn 32 buf)) as [P| |] eqn:Ed; try discriminate.
  assert (P = R8 /\ SetBigIntFromLEBytes (skipn 32 buf) = Sv) as [-> HSv]
    by (split; congruence).
  destruct (decompress_sound _ _ Hl1 Hb1 Ed) as (Hoc & Hcan & Hc).
  split; [exact Hoc|]. split; [exact Hcan|].
  pose proof (SetBigIntFromLEBytes_bound _ Hb2) as Hr. rewrite Hl2, HSv in Hr.
  change (256 ^ Z.of_nat 32) with (2 ^ 256) in Hr.
  split; [exact Hr|].
  unfold SigCompress. rewrite Hc, <- HSv.
  rewrite BigIntLEBytes_SetBigIntFromLEBytes by assumption.
  apply firstn_skipn.
Qed.

Theorem SigDecompress_ok_iff buf R8 Sv :
  length buf = 64%nat -> Forall is_byte buf ->
  (SigDecompress buf = Ok (R8, Sv) <->
   oc R8 /\ can R8 /\ 0 <= Sv < 2 ^ 256 /\ SigCompress (R8, Sv) = buf).
Proof.
  intros Hl Hb. split.
  - apply SigDecompress_sound; assumption.
  - intros (Hoc & Hcan & HS & <-). apply SigDecompress_SigCompress; assumption.
Qed.

Theorem SigDecompress_never_panics buf : SigDecompress buf <> Panic.
Proof.
  unfold SigDecompress. pose proof (decompress_total (firstn 32 buf)) as H.
  destruct (Decompress (firstn 32 buf)); [discriminate|discriminate|contradiction].
Qed.

(* ------------------------------------------------------------------ *)
(** * PublicKey.Compress / PublicKeyComp.Decompress *)

Theorem PkDecompress_PkCompress pk : oc pk -> can pk -> PkDecompress (PkCompress pk) = Ok pk.
Proof. apply decompress_compress. Qed.

Theorem PkDecompress_sound c pk : length c = 32%nat -> Forall is_byte c ->
  PkDecompress c = Ok pk -> oc pk /\ can pk /\ PkCompress pk = c.
Proof. apply decompress_sound. Qed.

Theorem PkCompress_length pk : length (PkCompress pk) = 32%nat.
Proof. apply compress_length. Qed.

Theorem PkDecompress_never_panics c : PkDecompress c <> Panic.
Proof. apply decompress_total. Qed.

(* ------------------------------------------------------------------ *)
(** * MarshalText / UnmarshalText *)

Theorem PkCompUnmarshalText_PkCompMarshalText c :
  length c = 32%nat -> Forall is_byte c ->
  PkCompUnmarshalText (PkCompMarshalText c) = Ok c.
Proof. intros Hl Hb. apply HexDecodeInto_HexString; assumption. Qed.

Theorem SigCompUnmarshalText_SigCompMarshalText c :
  length c = 64%nat -> Forall is_byte c ->
  SigCompUnmarshalText (SigCompMarshalText c) = Ok c.
Proof. intros Hl Hb. apply HexDecodeInto_HexString; assumption. Qed.

Theorem PkUnmarshalText_PkMarshalText pk : oc pk -> can pk ->
  PkUnmarshalText (PkMarshalText pk) = Ok pk.
Proof.
  intros Hoc Hcan. unfold PkUnmarshalText, PkMarshalText.
  rewrite HexDecodeInto_HexString
    by (apply PkCompress_length || (apply compress_bytes; exact Hcan)).
  apply PkDecompress_PkCompress; assumption.
Qed.

Theorem DecompressSig_SigCompress R8 Sv :
  oc R8 -> can R8 -> 0 <= Sv < 2 ^ 256 ->
  DecompressSig (SigCompMarshalText (SigCompress (R8, Sv))) = Ok (R8, Sv).
Proof.
  intros Hoc Hcan HS. unfold DecompressSig.
  rewrite SigCompUnmarshalText_SigCompMarshalText
    by (apply SigCompress_length || (apply SigCompress_bytes; exact Hcan)).
  apply SigDecompress_SigCompress; assumption.
Qed.

(* the text decoders accept exactly 2n hex digits after an optional "0x" *)
Theorem PkCompUnmarshalText_ok_iff h c :
  PkCompUnmarshalText h = Ok c <->
  length (strip_0x h) = 64%nat /\ Forall is_hex_char (strip_0x h) /\
  hex_decode (strip_0x h) = Some c.
Proof. unfold PkCompUnmarshalText. apply (HexDecodeInto_ok_iff 32). Qed.

Theorem SigCompUnmarshalText_ok_iff h c :
  SigCompUnmarshalText h = Ok c <->
  length (strip_0x h) = 128%nat /\ Forall is_hex_char (strip_0x h) /\
  hex_decode (strip_0x h) = Some c.
Proof. unfold SigCompUnmarshalText. apply (HexDecodeInto_ok_iff 64). Qed.

(* accepted text decodes to a canonical curve point whose lower-case
   marshalling decodes again to the same point *)
Theorem PkUnmarshalText_sound h pk : PkUnmarshalText h = Ok pk ->
  oc pk /\ can pk /\ exists c, PkCompUnmarshalText h = Ok c /\ PkCompress pk = c.
Proof.
  unfold PkUnmarshalText, PkCompUnmarshalText. intros H.
  destruct (HexDecodeInto 32 h) as [c| |] eqn:E; try discriminate.
  destruct (HexDecodeInto_result _ _ _ E) as [Hl Hb].
  destruct (PkDecompress_sound c pk Hl Hb H) as (Hoc & Hcan & Hc).
  split; [exact Hoc|]. split; [exact Hcan|]. exists c. split; [reflexivity|exact Hc].
Qed.

Theorem DecompressSig_sound h R8 Sv : DecompressSig h = Ok (R8, Sv) ->
  oc R8 /\ can R8 /\ 0 <= Sv < 2 ^ 256 /\
  SigCompUnmarshalText h = Ok (SigCompress (R8, Sv)).
Proof.
  unfold DecompressSig, SigCompUnmarshalText. intros H.
  destruct (HexDecodeInto 64 h) as [c| |] eqn:E; try discriminate.
  destruct (HexDecodeInto_result _ _ _ E) as [Hl Hb].
  destruct (SigDecompress_sound c R8 Sv Hl Hb H) as (Hoc & Hcan & HS & Hc).
  split; [exact Hoc|]. split; [exact Hcan|]. split; [exact HS|]. rewrite Hc. reflexivity.
Qed.

Theorem PkCompUnmarshalText_never_panics h : PkCompUnmarshalText h <> Panic.
Proof. apply HexDecodeInto_never_panics. Qed.

Theorem SigCompUnmarshalText_never_panics h : SigCompUnmarshalText h <> Panic.
Proof. apply HexDecodeInto_never_panics. Qed.

Theorem PkUnmarshalText_never_panics h : PkUnmarshalText h <> Panic.
Proof.
  unfold PkUnmarshalText. pose proof (HexDecodeInto_never_panics 32 h) as H.
  destruct (HexDecodeInto 32 h) as [c| |]; [apply PkDecompress_never_panics|discriminate|contradiction].
Qed.

Theorem DecompressSig_never_panics h : DecompressSig h <> Panic.
Proof.
  unfold DecompressSig. pose proof (SigCompUnmarshalText_never_panics h) as H.
  destruct (SigCompUnmarshalText h) as [c| |];
    [apply SigDecompress_never_panics|discriminate|contradiction].
Qed.

(* ------------------------------------------------------------------ *)
(** * database/sql: Scan and Value *)

Theorem SigScan_SigValue R8 Sv : oc R8 -> can R8 -> 0 <= Sv < 2 ^ 256 ->
  SigScan (SrcBytes (SigValue (R8, Sv))) = Ok (R8, Sv).
Proof.
  intros Hoc Hcan HS. unfold SigScan, SigValue.
  rewrite SigCompress_length. cbn [Nat.eqb].
  apply SigDecompress_SigCompress; assumption.
Qed.

Theorem PkScan_PkValue pk : oc pk -> can pk -> PkScan (SrcBytes (PkValue pk)) = Ok pk.
Proof.
  intros Hoc Hcan. unfold PkScan, PkValue.
  rewrite PkCompress_length. cbn [Nat.eqb].
  apply PkDecompress_PkCompress; assumption.
Qed.

(* the compressed forms are stored as they are: Scan accepts exactly a
   []byte of the exact length *)
Theorem SigCompScan_ok_iff src c :
  SigCompScan src = Ok c <-> src = SrcBytes c /\ length c = 64%nat.
Proof.
  unfold SigCompScan. split.
  - intros H. destruct src as [b|s|i| |]; try discriminate.
    destruct (Nat.eqb (length b) 64) eqn:E; [|discriminate].
    apply Nat.eqb_eq in E. assert (b = c) by congruence. subst b. split; [reflexivity|exact E].
  - intros [-> Hl]. rewrite Hl. reflexivity.
Qed.

Theorem PkCompScan_ok_iff src c :
  PkCompScan src = Ok c <-> src = SrcBytes c /\ length c = 32%nat.
Proof.
  unfold PkCompScan. split.
  - intros H. destruct src as [b|s|i| |]; try discriminate.
    destruct (Nat.eqb (length b) 32) eqn:E; [|discriminate].
    apply Nat.eqb_eq in E. assert (b = c) by congruence. subst b. split; [reflexivity|exact E].
  - intros [-> Hl]. rewrite Hl. reflexivity.
Qed.

Theorem SigCompScan_never_panics src : SigCompScan src <> Panic.
Proof.
  unfold SigCompScan. destruct src as [b|s|i| |]; try discriminate.
  destruct (Nat.eqb (length b) 64); discriminate.
Qed.

Theorem PkCompScan_never_panics src : PkCompScan src <> Panic.
Proof.
  unfold PkCompScan. destruct src as [b|s|i| |]; try discriminate.
  destruct (Nat.eqb (length b) 32); discriminate.
Qed.

(* every other source kind, and every other length, is an error *)
Theorem SigCompScan_err_iff src :
  SigCompScan src = Err <-> ~ exists b, src = SrcBytes b /\ length b = 64%nat.
Proof.
  split.
  - intros H (b & Hb). apply SigCompScan_ok_iff in Hb. congruence.
  - intros H. destruct (SigCompScan src) as [c| |] eqn:E.
    + exfalso. apply H. exists c. apply SigCompScan_ok_iff. exact E.
    + reflexivity.
    + exfalso. exact (SigCompScan_never_panics src E).
Qed.

Theorem PkCompScan_err_iff src :
  PkCompScan src = Err <-> ~ exists b, src = SrcBytes b /\ length b = 32%nat.
Proof.
  split.
  - intros H (b & Hb). apply PkCompScan_ok_iff in Hb. congruence.
  - intros H. destruct (PkCompScan src) as [c| |] eqn:E.
    + exfalso. apply H. exists c. apply PkCompScan_ok_iff. exact E.
    + reflexivity.
    + exfalso. exact (PkCompScan_never_panics src E).
Qed.

Theorem SigCompScan_Value c : length c = 64%nat -> SigCompScan (SrcBytes c) = Ok c.
Proof. intros Hl. apply SigCompScan_ok_iff. split; [reflexivity|exact Hl]. Qed.

Theorem PkCompScan_Value c : length c = 32%nat -> PkCompScan (SrcBytes c) = Ok c.
Proof. intros Hl. apply PkCompScan_ok_iff. split; [reflexivity|exact Hl]. Qed.

(* Signature.Scan / PublicKey.Scan: []byte of the exact length, then Decompress *)
Theorem SigScan_ok_iff src s :
  SigScan src = Ok s <->
  exists b, src = SrcBytes b /\ length b = 64%nat /\ SigDecompress b = Ok s.
Proof.
  unfold SigScan. split.
  - intros H. destruct src as [b|t|i| |]; try discriminate.
    destruct (Nat.eqb (length b) 64) eqn:E; [|discriminate].
    apply Nat.eqb_eq in E. exists b. split; [reflexivity|]. split; assumption.
  - intros (b & -> & Hl & H). rewrite Hl. exact H.
Qed.

Theorem PkScan_ok_iff src pk :
  PkScan src = Ok pk <->
  exists b, src = SrcBytes b /\ length b = 32%nat /\ PkDecompress b = Ok pk.
Proof.
  unfold PkScan. split.
  - intros H. destruct src as [b|t|i| |]; try discriminate.
    destruct (Nat.eqb (length b) 32) eqn:E; [|discriminate].
    apply Nat.eqb_eq in E. exists b. split; [reflexivity|]. split; assumption.
  - intros (b & -> & Hl & H). rewrite Hl. exact H.
Qed.

(* for byte sources: what Scan accepts is exactly Value of its result *)
Corollary SigScan_sound b R8 Sv : Forall is_byte b ->
  SigScan (SrcBytes b) = Ok (R8, Sv) ->
  oc R8 /\ can R8 /\ 0 <= Sv < 2 ^ 256 /\ SigValue (R8, Sv) = b.
Proof.
  intros Hb H. apply SigScan_ok_iff in H. destruct H as (b' & E & Hl & H).
  assert (b' = b) by congruence. subst b'.
  apply SigDecompress_sound; assumption.
Qed.

Corollary PkScan_sound b pk : Forall is_byte b ->
  PkScan (SrcBytes b) = Ok pk -> oc pk /\ can pk /\ PkValue pk = b.
Proof.
  intros Hb H. apply PkScan_ok_iff in H. destruct H as (b' & E & Hl & H).
  assert (b' = b) by congruence. subst b'.
  apply PkDecompress_sound; assumption.
Qed.

Theorem SigScan_never_panics src : SigScan src <> Panic.
Proof.
  unfold SigScan. destruct src as [b|t|i| |]; try discriminate.
  destruct (Nat.eqb (length b) 64); [apply SigDecompress_never_panics|discriminate].
Qed.

Theorem PkScan_never_panics src : PkScan src <> Panic.
Proof.
  unfold PkScan. destruct src as [b|t|i| |]; try discriminate.
  destruct (Nat.eqb (length b) 32); [apply PkDecompress_never_panics|discriminate].
Qed.

Print Assumptions SigCompress_length.
Print Assumptions SigDecompress_SigCompress.
Print Assumptions SigDecompress_sound.
Print Assumptions PkUnmarshalText_PkMarshalText.
Print Assumptions SigCompUnmarshalText_SigCompMarshalText.
Print Assumptions PkCompUnmarshalText_PkCompMarshalText.
Print Assumptions DecompressSig_SigCompress.
Print Assumptions DecompressSig_sound.
Print Assumptions SigScan_SigValue.
Print Assumptions PkScan_PkValue.
Print Assumptions SigCompScan_ok_iff.
Print Assumptions PkCompScan_ok_iff.
Print Assumptions SigCompScan_err_iff.
Print Assumptions PkCompScan_err_iff.
Print Assumptions SigScan_ok_iff.
Print Assumptions PkScan_ok_iff.
Print Assumptions SigScan_never_panics.
Print Assumptions PkScan_never_panics.
Print Assumptions SigDecompress_never_panics.
Print Assumptions PkUnmarshalText_never_panics.
Print Assumptions DecompressSig_never_panics.

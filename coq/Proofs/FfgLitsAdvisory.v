(* ADVISORY obligations: every small literal OCCURRENCE (array sizes, indices, carry-ins,
   shift counts, case labels) of the routines below, in source order, as listed by
   tools/constgen.  They were the tie between the Go text and the hand model before the
   routines themselves were translated; since tools/limbgen regenerates every one of these
   routines (Gen/Ff(g)Routines.v, Gen/Ff(g)Glue.v) and Proofs/Ff(g)RoutinesEq.v,
   Proofs/Ff(g)GlueEq.v prove them equal to the model, these lists carry no additional
   assurance, while any harmless rewrite of a routine changes them.  They are therefore
   kept OUTSIDE the dependency closure of coq/Properties: when one of them no longer
   compiles check.py records a note, not a violation.  The WIDE literals (moduli, Montgomery
   constants, exponents, the Tonelli-Shanks generator) remain obligations of the property
   files (consts_ok, sqrt_consts_ok, lex_lit_ok, ...). *)
From Coq Require Import ZArith List Lia.
From Verif Require Import Lib.Params Lib.Words Model.FfgLimbs Proofs.FfgArith Proofs.FfgSqrt.
From Verif Require Gen.FfgConsts Proofs.TonelliShanks.
Import ListNotations.
Local Open Scope Z_scope.

(* The small literals (array sizes, indices, carry-ins, the zero of the
   comparisons, case labels) of each modelled routine, in source order: every
   literal occurrence of the Go text is pinned, not only the wide ones. *)
Lemma lits_ok :
  FfgConsts.lits_mulGeneric =
    [2; 0; 0; 0; 1; 1; 0; 0; qInvNeg; qg; 0; 0; 1; 0; 1; 0; 1; 0; 0; 0; qg;
     0; 0; 0; 0; qg; 0; 0; qg; 0]
  /\ FfgConsts.lits_fromMontGeneric = [0; qInvNeg; qg; 0; 0; 0; qg; 0; 0; qg; 0]
  /\ FfgConsts.lits_addGeneric = [0; 0; 0; 0; 0; 0; 0; qg; 0; 0; qg; 0; 0; qg; 0]
  /\ FfgConsts.lits_doubleGeneric = [0; 0; 0; 0; 0; 0; 0; qg; 0; 0; qg; 0; 0; qg; 0]
  /\ FfgConsts.lits_subGeneric = [0; 0; 0; 0; 0; 0; 0; qg; 0]
  /\ FfgConsts.lits_negGeneric = [0; qg; 0; 0]
  /\ FfgConsts.lits_reduceGeneric = [0; qg; 0; 0; qg; 0]
  /\ FfgConsts.lits_Element_SetOne = [0; one]
  /\ FfgConsts.lits_mulByConstant = [0; 1; 2; 3; 5]
  /\ FfgConsts.lits_Element_Exp = [0; 2; 0; 1]
  /\ FfgConsts.lits_Element_Halve = []
  /\ FfgConsts.lits_Element_Inverse = []
  /\ FfgConsts.lits_madd0 = [0; 0].
Proof. vm_compute. repeat split. Qed.

(* every literal occurrence of the two function bodies, in source order *)
Lemma sqrt_lits_ok :
  FfgConsts.lits_Element_Legendre = [0; 0; one; 1; 1]
  /\ FfgConsts.lits_Element_Sqrt =
       [TonelliShanks.gold_g_mont; TonelliShanks.gold_e; 0; 1; 0; one; 0; one; 0; 1; 0].
Proof. vm_compute. repeat split. Qed.

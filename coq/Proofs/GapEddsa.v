(* EdDSA, CONCRETE instances (BLAKE-512 of Spec/Blake512.v, poseidon.Hash on
   the regenerated tables, mimc7.Hash(arr, nil)) with the digest rewritten to
   the REFERENCE hash functions (Spec/PoseidonRef.v, Spec/MiMC7Spec.v):
   signing is the circomlib signature, signatures verify (also after the
   compressed round trip), and the verifiers decide the specification equation
   unconditionally (no hypothesis on the hash left). *)
From Coq Require Import ZArith List Bool Lia.
From Verif Require Import Lib.Params Lib.Octets Lib.Primes Spec.Edwards Spec.EdDSASpec
  Spec.Blake512 Spec.PoseidonRef Spec.MiMC7Spec
  Model.Outcome Model.Utils Model.BabyJubCore Model.BabyJub Model.Eddsa Model.Poseidon
  Proofs.UtilsProofs Proofs.KeccakStreamProofs Proofs.BabyJubModel Proofs.EddsaProofs
  Proofs.EddsaInstances Proofs.EddsaPoseidon Proofs.PoseidonConforms
  Proofs.HashDomainProofs.
From Verif Require Model.Mimc7 Proofs.Mimc7Proofs.
Import ListNotations.
Local Open Scope Z_scope.

Local Opaque q l.

Local Notation oc := (on_curve q ca cd).
Local Notation can := (canonical q).
Local Notation add := (ed_add q ca cd).
Local Notation smul := (Edwards.smul q ca cd).
Local Notation in_field := EddsaProofs.in_field.

(* the two reference digests, as total functions on lists *)
Definition poseidon_ref (v : list Z) : Z := poseidon_hash_ref v 0.
Definition mimc7_ref (v : list Z) : Z := spec_hash v None.

(* ------------------------------------------------------------------ *)
(** * (a) the digests are the reference functions *)

Theorem Hval_poseidon5_ref : forall v, Forall in_field v -> length v = 5%nat ->
  Hval poseidon5 v = poseidon_hash_ref v 0.
Proof.
  intros v Hv Hl. unfold Hval. rewrite (poseidon5_ref v Hv Hl). reflexivity.
Qed.

Lemma mimc7h_ref : forall v, Forall in_field v -> mimc7h v = Ok (spec_hash v None).
Proof.
  intros v Hv. unfold mimc7h. apply Mimc7Proofs.hash_conforms.
  apply mimc7_check. exact Hv.
Qed.

Theorem Hval_mimc7h_ref : forall v, Forall in_field v ->
  Hval mimc7h v = spec_hash v None.
Proof. intros v Hv. unfold Hval. rewrite (mimc7h_ref v Hv). reflexivity. Qed.

(* ------------------------------------------------------------------ *)
(** * (b) signing is the circomlib signature over the reference digest *)

(* spec_signature reads H on one argument list only *)
Lemma spec_signature_ext (blake : bytes -> bytes) (H H' : list Z -> Z) k msg :
  H [fst (spec_R8 blake k msg); snd (spec_R8 blake k msg);
     fst (spec_public blake k); snd (spec_public blake k); msg] =
  H' [fst (spec_R8 blake k msg); snd (spec_R8 blake k msg);
      fst (spec_public blake k); snd (spec_public blake k); msg] ->
  spec_signature blake H k msg = spec_signature blake H' k msg.
Proof.
  intros E. unfold spec_signature, spec_S, spec_hm. rewrite E. reflexivity.
Qed.

Lemma sign_input_in_field512 k msg : 0 <= msg < q ->
  Forall in_field [fst (spec_R8 blake512 k msg); snd (spec_R8 blake512 k msg);
                   fst (spec_public blake512 k); snd (spec_public blake512 k); msg].
Proof.
  intros Hm. exact (sign_input_in_field blake512 blake512_length blake512_bytes k msg Hm).
Qed.

Theorem SignPoseidon_is_circomlib : forall k msg, 0 <= msg < q ->
  SignPoseidon blake512 poseidon5 k msg =
  Ok (spec_signature blake512 (fun v => poseidon_hash_ref v 0) k msg).
Proof.
  intros k msg Hm. rewrite (SignPoseidon_conforms k msg Hm). f_equal.
  apply spec_signature_ext.
  apply Hval_poseidon5_ref; [exact (sign_input_in_field512 k msg Hm)|reflexivity].
Qed.

Theorem SignMimc7_is_circomlib : forall k msg, 0 <= msg < q ->
  SignMimc7 blake512 mimc7h k msg =
  Ok (spec_signature blake512 (fun v => spec_hash v None) k msg).
Proof.
  intros k msg Hm. rewrite (SignMimc7_conforms k msg Hm). f_equal.
  apply spec_signature_ext.
  apply Hval_mimc7h_ref. exact (sign_input_in_field512 k msg Hm).
Qed.

(* the public key is the specification's, whatever the hash *)
Theorem Public_is_circomlib : forall k, Public blake512 k = spec_public blake512 k.
Proof. exact (public_spec' blake512 blake512_length blake512_bytes). Qed.

(* ------------------------------------------------------------------ *)
(** * (c) signatures verify, also after Compress / Decompress *)

Theorem SignPoseidon_roundtrip_verifies : forall k msg sig, 0 <= msg < q ->
  SignPoseidon blake512 poseidon5 k msg = Ok sig ->
  exists sig', SigDecompress (SigCompress sig) = Ok sig' /\
               VerifyPoseidon poseidon5 (Public blake512 k) msg sig' = Ok tt.
Proof.
  exact (sign_roundtrip_verifies blake512 blake512_length blake512_bytes poseidon5 poseidon5_ok).
Qed.

Theorem SignMimc7_roundtrip_verifies : forall k msg sig, 0 <= msg < q ->
  SignMimc7 blake512 mimc7h k msg = Ok sig ->
  exists sig', SigDecompress (SigCompress sig) = Ok sig' /\
               VerifyMimc7 mimc7h (Public blake512 k) msg sig' = Ok tt.
Proof.
  exact (sign_roundtrip_verifies blake512 blake512_length blake512_bytes mimc7h mimc7h_ok).
Qed.

(* the same without the intermediate [sig]: the circomlib signature itself *)
Corollary circomlib_signature_verifies_poseidon : forall k msg, 0 <= msg < q ->
  VerifyPoseidon poseidon5 (Public blake512 k) msg
    (spec_signature blake512 (fun v => poseidon_hash_ref v 0) k msg) = Ok tt /\
  SigDecompress (SigCompress (spec_signature blake512 (fun v => poseidon_hash_ref v 0) k msg))
  = Ok (spec_signature blake512 (fun v => poseidon_hash_ref v 0) k msg).
Proof.
  intros k msg Hm. pose proof (SignPoseidon_is_circomlib k msg Hm) as Hs. split.
  - exact (SignPoseidon_verifies k msg _ Hm Hs).
  - exact (sign_roundtrip blake512 poseidon5 k msg _ Hs).
Qed.

Corollary circomlib_signature_verifies_mimc7 : forall k msg, 0 <= msg < q ->
  VerifyMimc7 mimc7h (Public blake512 k) msg
    (spec_signature blake512 (fun v => spec_hash v None) k msg) = Ok tt /\
  SigDecompress (SigCompress (spec_signature blake512 (fun v => spec_hash v None) k msg))
  = Ok (spec_signature blake512 (fun v => spec_hash v None) k msg).
Proof.
  intros k msg Hm. pose proof (SignMimc7_is_circomlib k msg Hm) as Hs. split.
  - exact (SignMimc7_verifies k msg _ Hm Hs).
  - exact (sign_roundtrip blake512 mimc7h k msg _ Hs).
Qed.

(* ------------------------------------------------------------------ *)
(** * (d) verification: unconditional statements *)

Lemma verify_input_in_field (A R8 : point) msg : can A -> can R8 -> 0 <= msg < q ->
  Forall in_field [fst R8; snd R8; fst A; snd A; msg].
Proof.
  intros HA HR Hm. apply in_field5.
  apply can_in_field in HA. apply can_in_field in HR.
  change (in_field msg) in Hm. tauto.
Qed.

Theorem VerifyPoseidon_iff : forall (A : point) msg (R8 : point) Sv,
  oc A -> can A -> oc R8 -> can R8 -> 0 <= msg < q -> 0 <= Sv < l ->
  (VerifyPoseidon poseidon5 A msg (R8, Sv) = Ok tt <->
   smul Sv B8 =
   add R8 (smul (8 * poseidon_hash_ref [fst R8; snd R8; fst A; snd A; msg] 0) A)).
Proof.
  intros A msg R8 Sv HoA HcA HoR HcR Hm HS.
  pose proof (verify_input_in_field A R8 msg HcA HcR Hm) as Hin.
  destruct (poseidon_hash_conforms [fst R8; snd R8; fst A; snd A; msg]) as [E R];
    [cbn [length]; lia|exact Hin|].
  apply (verify_iff poseidon5 A msg R8 Sv _ HoA HoR HS E). lia.
Qed.

Theorem VerifyMimc7_iff : forall (A : point) msg (R8 : point) Sv,
  oc A -> can A -> oc R8 -> can R8 -> 0 <= msg < q -> 0 <= Sv < l ->
  (VerifyMimc7 mimc7h A msg (R8, Sv) = Ok tt <->
   smul Sv B8 =
   add R8 (smul (8 * spec_hash [fst R8; snd R8; fst A; snd A; msg] None) A)).
Proof.
  intros A msg R8 Sv HoA HcA HoR HcR Hm HS.
  pose proof (verify_input_in_field A R8 msg HcA HcR Hm) as Hin.
  apply (verify_iff mimc7h A msg R8 Sv _ HoA HoR HS (mimc7h_ref _ Hin)).
  apply Mimc7Proofs.spec_hash_range_nokey.
Qed.

(* the same as the validity predicate of Spec/EdDSASpec.v: no hypothesis on S *)
Theorem VerifyPoseidon_iff_spec_valid : forall (A : point) msg (R8 : point) Sv,
  oc A -> can A -> oc R8 -> can R8 -> 0 <= msg < q ->
  (VerifyPoseidon poseidon5 A msg (R8, Sv) = Ok tt <->
   spec_valid (fun v => poseidon_hash_ref v 0) A msg (R8, Sv)).
Proof.
  intros A msg R8 Sv HoA HcA HoR HcR Hm.
  pose proof (verify_input_in_field A R8 msg HcA HcR Hm) as Hin.
  destruct (poseidon_hash_conforms [fst R8; snd R8; fst A; snd A; msg]) as [E R];
    [cbn [length]; lia|exact Hin|].
  unfold VerifyPoseidon.
  rewrite (verify_iff_spec poseidon5 A msg R8 Sv _ HoA HoR E ltac:(lia)).
  unfold spec_valid. rewrite (Hval_poseidon5_ref _ Hin eq_refl). reflexivity.
Qed.

Theorem VerifyMimc7_iff_spec_valid : forall (A : point) msg (R8 : point) Sv,
  oc A -> can A -> oc R8 -> can R8 -> 0 <= msg < q ->
  (VerifyMimc7 mimc7h A msg (R8, Sv) = Ok tt <->
   spec_valid (fun v => spec_hash v None) A msg (R8, Sv)).
Proof.
  intros A msg R8 Sv HoA HcA HoR HcR Hm.
  pose proof (verify_input_in_field A R8 msg HcA HcR Hm) as Hin.
  unfold VerifyMimc7.
  rewrite (verify_iff_spec mimc7h A msg R8 Sv _ HoA HoR (mimc7h_ref _ Hin)
             (proj1 (Mimc7Proofs.spec_hash_range_nokey _))).
  unfold spec_valid. rewrite (Hval_mimc7h_ref _ Hin). reflexivity.
Qed.

(* no panic, for ALL arguments *)
Theorem VerifyPoseidon_never_panics : forall (A : point) msg (R8 : point) Sv,
  VerifyPoseidon poseidon5 A msg (R8, Sv) <> Panic.
Proof.
  intros A msg R8 Sv. apply verify_never_panics.
  exact (poseidon_Hash_never_panics 8%nat gen_tables PoseidonConforms.gen_tables_length _).
Qed.

Theorem VerifyMimc7_never_panics_all : forall (A : point) msg (R8 : point) Sv,
  VerifyMimc7 mimc7h A msg (R8, Sv) <> Panic.
Proof. exact VerifyMimc7_never_panics. Qed.

Corollary VerifyPoseidon_total : forall (A : point) msg (R8 : point) Sv,
  VerifyPoseidon poseidon5 A msg (R8, Sv) = Ok tt \/
  VerifyPoseidon poseidon5 A msg (R8, Sv) = Err.
Proof.
  intros A msg R8 Sv. apply verify_total.
  exact (poseidon_Hash_never_panics 8%nat gen_tables PoseidonConforms.gen_tables_length _).
Qed.

Corollary VerifyMimc7_total : forall (A : point) msg (R8 : point) Sv,
  VerifyMimc7 mimc7h A msg (R8, Sv) = Ok tt \/ VerifyMimc7 mimc7h A msg (R8, Sv) = Err.
Proof.
  intros A msg R8 Sv. apply verify_total. apply mimc7_Hash_never_panics.
Qed.

(* a hash input outside the field (the message, or a coordinate of A / R8) is
   rejected *)
Theorem VerifyPoseidon_err_out_of_field : forall (A : point) msg (R8 : point) Sv,
  ~ Forall in_field [fst R8; snd R8; fst A; snd A; msg] ->
  VerifyPoseidon poseidon5 A msg (R8, Sv) = Err.
Proof.
  intros A msg R8 Sv Hn. apply verify_err_of_hash_err.
  apply poseidon5_err; [reflexivity|exact Hn].
Qed.

Theorem VerifyMimc7_err_out_of_field : forall (A : point) msg (R8 : point) Sv,
  ~ Forall in_field [fst R8; snd R8; fst A; snd A; msg] ->
  VerifyMimc7 mimc7h A msg (R8, Sv) = Err.
Proof.
  intros A msg R8 Sv Hn. apply verify_err_of_hash_err.
  apply mimc7h_err; [reflexivity|exact Hn].
Qed.

Theorem VerifyPoseidon_err_msg : forall (A : point) msg (R8 : point) Sv,
  ~ (0 <= msg < q) -> VerifyPoseidon poseidon5 A msg (R8, Sv) = Err.
Proof.
  intros A msg R8 Sv Hm. apply VerifyPoseidon_err_out_of_field.
  intros HF. apply in_field5 in HF. apply Hm. apply HF.
Qed.

Theorem VerifyMimc7_err_msg : forall (A : point) msg (R8 : point) Sv,
  ~ (0 <= msg < q) -> VerifyMimc7 mimc7h A msg (R8, Sv) = Err.
Proof.
  intros A msg R8 Sv Hm. apply VerifyMimc7_err_out_of_field.
  intros HF. apply in_field5 in HF. apply Hm. apply HF.
Qed.

(* S outside [0, l) is rejected by both (C14), instances *)
Theorem VerifyPoseidon_err_S : forall (A : point) msg (R8 : point) Sv,
  (Sv < 0 \/ l <= Sv) -> VerifyPoseidon poseidon5 A msg (R8, Sv) = Err.
Proof. exact (verify_rejects_noncanonical poseidon5). Qed.

Theorem VerifyMimc7_err_S : forall (A : point) msg (R8 : point) Sv,
  (Sv < 0 \/ l <= Sv) -> VerifyMimc7 mimc7h A msg (R8, Sv) = Err.
Proof. exact (verify_rejects_noncanonical mimc7h). Qed.

Print Assumptions Hval_poseidon5_ref.
Print Assumptions Hval_mimc7h_ref.
Print Assumptions SignPoseidon_is_circomlib.
Print Assumptions SignMimc7_is_circomlib.
Print Assumptions SignPoseidon_roundtrip_verifies.
Print Assumptions SignMimc7_roundtrip_verifies.
Print Assumptions circomlib_signature_verifies_poseidon.
Print Assumptions circomlib_signature_verifies_mimc7.
Print Assumptions VerifyPoseidon_iff.
Print Assumptions VerifyMimc7_iff.
Print Assumptions VerifyPoseidon_iff_spec_valid.
Print Assumptions VerifyMimc7_iff_spec_valid.
Print Assumptions VerifyPoseidon_never_panics.
Print Assumptions VerifyMimc7_never_panics_all.
Print Assumptions VerifyPoseidon_err_msg.
Print Assumptions VerifyMimc7_err_msg.

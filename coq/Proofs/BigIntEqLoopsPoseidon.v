(* Equality lemmas between the Gallina regenerated from the Go sources by
   tools/bigintgen in LOOPS mode (Gen/BigIntLoops.v) and the hand-written
   models: poseidon exp5 / exp5state / ark / mix against Model/HadesOpt.v, and
   the WHOLE body of HashWithStateEx (guards, state set-up, the five loops, the
   output loop) against Model/Poseidon.v with perm_opt.  No section variable
   stands for the permutation here; the tables c.c, c.s, c.m, c.p of the Go
   package are the projections of the model's table list. *)
From Coq Require Import ZArith List Bool Lia Arith.
From Verif Require Import Lib.Params Lib.Octets Spec.Hades Model.Outcome Model.Utils Model.BabyJub
  Model.HadesOpt.
From Verif Require Gen.CurveConsts Model.Poseidon.
From Verif Require Import Gen.BigIntLoops Proofs.BigIntEqLoopsLib Proofs.BigIntEqLoopsMisc.
Import ListNotations.
Local Open Scope Z_scope.
Local Opaque Z.mul Z.add Z.sub Z.modulo Z.pow Z.ltb Z.gtb Gen.CurveConsts.Q Z.to_nat Z.of_nat.

Notation Q := Gen.CurveConsts.Q.

Lemma sbox5_pow : forall p x, sbox5 p x = (x ^ 5) mod p.
Proof.
  intros p x. unfold sbox5. cbv zeta.
  rewrite Zmult_mod_idemp_l.
  rewrite <- Zmult_mod_idemp_l.
  rewrite <- (Zmult_mod (x * x) (x * x) p).
  rewrite Zmult_mod_idemp_l.
  f_equal. Local Transparent Z.mul Z.pow. ring.
Qed.
Local Opaque Z.mul Z.pow.

Section Tables.
  Variables c_c c_s : list (list Z).
  Variables c_m c_p : list (list (list Z)).

  Lemma gen_poseidon_exp5_eq : forall a, poseidon_exp5 a = sbox5 Q a.
  Proof. intros. unfold poseidon_exp5. cbv zeta. symmetry. apply sbox5_pow. Qed.

  Lemma gen_poseidon_exp5state_eq : forall st,
    poseidon_exp5state st = sbox_all (sbox5 Q) st.
  Proof.
    intros st. unfold poseidon_exp5state, sbox_all. cbv zeta.
    rewrite (fold_set_nth_map (fun _ x => poseidon_exp5 x) st).
    cbn [snd]. rewrite (map_combine_seq_snd poseidon_exp5).
    apply map_ext. apply gen_poseidon_exp5_eq.
  Qed.

  Lemma gen_poseidon_ark_eq : forall st c it, 0 <= it ->
    poseidon_ark st c it = ark Q c st (Z.to_nat it).
  Proof.
    intros st c it H. unfold poseidon_ark, ark, nthz. cbv zeta.
    rewrite (fold_set_nth_map (fun i x => (x + nth (Z.to_nat (it + Z.of_nat i)) c 0) mod Q) st).
    apply map_ext. intros [i x]. cbn [fst snd].
    replace (Z.to_nat (it + Z.of_nat i)) with (Z.to_nat it + i)%nat by lia. reflexivity.
  Qed.

  (* one output lane of mix, as the generated inner loop computes it *)
  Definition mix_lane (m : list (list Z)) (st : list Z) (i : nat) : Z :=
    fold_left (fun acc j => (acc + ((nth i (nth j m []) 0) * (nth j st 0)) mod Q) mod Q)
              (seq 0 (length st)) 0.

  Lemma mix_lane_model : forall m st i,
    mix_lane m st i =
    fold_left (fun acc jx => (acc + (nthm m (fst jx) i * snd jx) mod Q) mod Q)
              (combine (seq 0 (length st)) st) 0.
  Proof.
    intros. unfold mix_lane, nthm.
    rewrite (fold_left_combine_seq Z (fun acc j x => (acc + (nth i (nth j m []) 0 * x) mod Q) mod Q)).
    reflexivity.
  Qed.

  Lemma gen_poseidon_mix_eq : forall st t m, length st = t ->
    poseidon_mix st (Z.of_nat t) m = mix Q t m st.
  Proof.
    intros st t m Ht. subst t. unfold poseidon_mix, mix, poseidon_zero. cbv zeta.
    rewrite Nat2Z.id.
    (* the first loop stores zero() in every slot *)
    rewrite (fold_set_nth_build (fun _ => 0)) by (rewrite repeat_length; lia).
    rewrite skipn_all2 by (rewrite repeat_length; lia).
    rewrite app_nil_r, map_const_repeat, seq_length.
    (* the second loop: slot i := 0, then the lane accumulated in place *)
    match goal with |- fold_left ?f _ _ = _ => set (F := f) end.
    destruct (fold_left_ext_inv (list Z) nat (fun ns => length ns = length st) F
                (fun ns i => set_nth i (mix_lane m st i) ns) (seq 0 (length st)) (repeat 0 (length st)))
      as [E _].
    - apply repeat_length.
    - intros ns i Hns Hi. apply in_seq in Hi. subst F. cbv beta.
      split; [|rewrite length_set_nth; lia].
      rewrite (fold_set_nth_same_slot nat
                 (fun acc j => (acc + ((nth i (nth j m []) 0) * (nth j st 0)) mod Q) mod Q))
        by (rewrite length_set_nth; lia).
      rewrite nth_set_nth_eq, set_nth_set_nth by lia. reflexivity.
    - rewrite E, fold_set_nth_build by (rewrite repeat_length; lia).
      rewrite skipn_all2 by (rewrite repeat_length; lia). rewrite app_nil_r.
      apply map_ext. intros i. apply mix_lane_model.
  Qed.

  (* ---- lengths ------------------------------------------------------------------ *)
  Lemma ark_length : forall C st it, length (ark Q C st it) = length st.
  Proof. intros. unfold ark. rewrite map_length, combine_length, seq_length. lia. Qed.
  Lemma sbox_all_length : forall f st, length (sbox_all f st) = length st.
  Proof. intros. apply map_length. Qed.
  Lemma mix_length : forall t m st, length (mix Q t m st) = t.
  Proof. intros. unfold mix. rewrite map_length, seq_length. reflexivity. Qed.

  (* ---- one full round: exp5state; ark(.., k); mix --------------------------------- *)
  Lemma full_step : forall t C M k s, length s = t ->
    poseidon_mix (poseidon_ark (poseidon_exp5state s) C (Z.of_nat k)) (Z.of_nat t) M =
    mix Q t M (ark Q C (sbox_all (sbox5 Q) s) k).
  Proof.
    intros t C M k s H.
    rewrite gen_poseidon_exp5state_eq, gen_poseidon_ark_eq, Nat2Z.id by lia.
    apply gen_poseidon_mix_eq. rewrite ark_length, sbox_all_length. exact H.
  Qed.

  (* ---- the state set-up ------------------------------------------------------------ *)
  Lemma setup_state : forall x (inp : list Z) n, n = (length inp + 1)%nat ->
    copy_at 1 (length (set_nth 0 x (repeat 0 n))) (set_nth 0 x (repeat 0 n)) inp =
    x :: inp.
  Proof.
    intros x inp n Hn. subst n. rewrite Nat.add_1_r. cbn [repeat]. unfold set_nth at 1 2. cbn [firstn skipn app length].
    rewrite repeat_length. unfold copy_at. cbn [firstn app]. replace (S (length inp) - 1)%nat with (length inp) by lia.
    rewrite firstn_all. cbn [Nat.add skipn]. rewrite skipn_all2 by (rewrite repeat_length; lia).
    rewrite app_nil_r. reflexivity.
  Qed.

  Lemma map_mod_id : forall l, forallb (Utils.CheckBigIntInField Q) l = true ->
    map (fun b => b mod Q) l = l.
  Proof.
    induction l as [|x l IH]; intros H; [reflexivity|]. cbn [forallb] in H.
    apply andb_prop in H. destruct H as [Hx Hl]. cbn [map]. rewrite IH by exact Hl. f_equal.
    unfold Utils.CheckBigIntInField in Hx. apply andb_prop in Hx. destruct Hx as [H1 H2].
    apply Z.ltb_lt in H1. apply negb_true_iff, Z.ltb_ge in H2. apply Z.mod_small. lia.
  Qed.

  (* ---- the output loop -------------------------------------------------------------- *)
  Lemma out_loop : forall (state : list Z) n, (n <= length state)%nat ->
    fold_left (fun (r : list Z) (i : nat) => set_nth i (nth i state 0) (set_nth i 0 r))
              (seq 0 n) (repeat 0 n) = firstn n state.
  Proof.
    intros state n H.
    destruct (fold_left_ext_inv (list Z) nat (fun r => length r = n)
                (fun r i => set_nth i (nth i state 0) (set_nth i 0 r))
                (fun r i => set_nth i (nth i state 0) r) (seq 0 n) (repeat 0 n)) as [E _].
    - apply repeat_length.
    - intros r i Hr Hi. apply in_seq in Hi. split; [apply set_nth_set_nth; lia|rewrite length_set_nth; lia].
    - rewrite E, (fold_set_nth_build (fun i => nth i state 0)) by (rewrite repeat_length; lia).
      rewrite skipn_all2 by (rewrite repeat_length; lia). rewrite app_nil_r. apply map_nth_seq. exact H.
  Qed.

  (* ---- one sparse partial round ------------------------------------------------------ *)

  (* the body of the partial-round loop, as generated *)
  Definition sparse_body (t : nat) (C S_ : list Z) (state : list Z) (i : nat) : list Z :=
    let state := set_nth 0 (poseidon_exp5 (nth 0 state 0)) state in
    let state := set_nth 0 (((nth 0 state 0) + (nth ((((((((8 / 2)%nat) + 1)%nat) * t)%nat) + i)%nat) C 0)) mod Gen.CurveConsts.Q) state in
    let mul := 0 in
    let newState0 :=
      fold_left (fun (newState0 : Z) (j : nat) =>
          let mul := ((nth ((((((((t * 2)%nat) - 1)%nat) * i)%nat) + j)%nat) S_ 0) * (nth j state 0)) mod Gen.CurveConsts.Q in
          let newState0 := (newState0 + mul) mod Gen.CurveConsts.Q in
          newState0)
        (seq 0 (length state)) poseidon_zero in
    let state :=
      fold_left (fun (state : (list Z)) (k : nat) =>
          let mul := 0 in
          let mul := ((nth 0 state 0) * (nth ((((((((((((t * 2)%nat) - 1)%nat) * i)%nat) + t)%nat) + k)%nat) - 1)%nat) S_ 0)) mod Gen.CurveConsts.Q in
          let state := set_nth k (((nth k state 0) + mul) mod Gen.CurveConsts.Q) state in
          state)
        (seq 1 ((t - 1)%nat)) state in
    let state := set_nth 0 newState0 state in
    state.

  Lemma set_nth_0 : forall v x (l : list Z), set_nth 0 v (x :: l) = v :: l.
  Proof. reflexivity. Qed.

  Lemma sparse_step : forall t C S_ s i, length s = t -> (1 <= t)%nat ->
    sparse_body t C S_ s i = sparse_round Q (sbox5 Q) t 8 C S_ i s.
  Proof.
    intros t C S_ s i Hl Ht. destruct s as [|s0 rest]; [cbn in Hl; lia|].
    unfold sparse_body, sparse_round, poseidon_zero, nthz. cbv zeta.
    cbn [nth]. rewrite !set_nth_0. cbn [nth]. rewrite gen_poseidon_exp5_eq.
    set (s1 := (sbox5 Q s0 + nth ((8 / 2 + 1) * t + i) C 0) mod Q).
    (* the scalar product of lane 0 *)
    rewrite (fold_left_combine_seq Z
               (fun acc j x => (acc + (nth ((t * 2 - 1) * i + j) S_ 0 * x) mod Q) mod Q) (s1 :: rest) 0).
    (* the other lanes: state[0] does not change while k runs over 1..t-1 *)
    match goal with |- set_nth 0 ?n0 (fold_left ?f ?l ?a) = _ => set (F := f); set (N0 := n0) end.
    destruct (fold_left_ext_inv (list Z) nat (fun st => nth 0 st 0 = s1 /\ length st = t) F
                (fun st k => set_nth k ((fun k x => (x + (s1 * nth ((t * 2 - 1) * i + t + k - 1) S_ 0) mod Q) mod Q) k (nth k st 0)) st)
                (seq 1 (t - 1)) (s1 :: rest)) as [E _].
    - split; [reflexivity|exact Hl].
    - intros st k [H0 Hs] Hk. apply in_seq in Hk. subst F. cbv beta. rewrite H0.
      split; [reflexivity|]. split; [|rewrite length_set_nth; lia].
      rewrite nth_set_nth_neq by lia. exact H0.
    - rewrite E.
      pose proof (fold_set_nth_gen (fun k x => (x + (s1 * nth ((t * 2 - 1) * i + t + k - 1) S_ 0) mod Q) mod Q)
                    (t - 1) [s1] rest) as G.
      cbn [length app] in G. rewrite G by (cbn in Hl; lia).
      cbn [app]. rewrite set_nth_0.
      replace (t - 1)%nat with (length rest) by (cbn in Hl; lia).
      rewrite firstn_all, skipn_all, app_nil_r. reflexivity.
  Qed.
End Tables.

(* ---- HashWithStateEx and its wrappers ----------------------------------------------- *)

(* the components of a table entry (RP, C, S, M, P) *)
Definition tRP (tb : Poseidon.ptable) : nat := fst (fst (fst (fst tb))).
Definition tC (tb : Poseidon.ptable) : list Z := snd (fst (fst (fst tb))).
Definition tS (tb : Poseidon.ptable) : list Z := snd (fst (fst tb)).
Definition tM (tb : Poseidon.ptable) : list (list Z) := snd (fst tb).
Definition tP (tb : Poseidon.ptable) : list (list Z) := snd tb.

Section Main.
  Variable tables : list Poseidon.ptable.
  (* len(NROUNDSP) in the Go source, and NROUNDSP itself *)
  Hypothesis tables_len : length tables = 16%nat.
  Hypothesis tables_RP : map tRP tables = poseidon_NROUNDSP.

  Let c_c := map tC tables.
  Let c_s := map tS tables.
  Let c_m := map tM tables.
  Let c_p := map tP tables.

  Lemma nth_tables : forall (A : Type) (f : Poseidon.ptable -> A) k tb d,
    nth_error tables k = Some tb -> nth k (map f tables) d = f tb.
  Proof. intros A f k tb d H. apply nth_error_nth. apply map_nth_error. exact H. Qed.

  Lemma gen_poseidon_HashWithStateEx_eq : forall inpBI initState nOuts,
    poseidon_HashWithStateEx c_c c_s c_m c_p inpBI initState nOuts =
    Poseidon.HashWithStateEx Q 8 tables inpBI initState nOuts.
  Proof.
    intros inpBI initState nOuts.
    unfold poseidon_HashWithStateEx, Poseidon.HashWithStateEx, c_c, c_s, c_m, c_p. cbv zeta.
    set (t := (length inpBI + 1)%nat).
    assert (Ht : S (length inpBI) = t) by (subst t; lia). rewrite !Ht.
    rewrite tables_len.
    destruct (Nat.eqb (length inpBI) 0) eqn:E0; [reflexivity|].
    destruct (Nat.ltb 16 (length inpBI)) eqn:E1; [reflexivity|]. cbn [orb].
    rewrite gen_utils_CheckBigIntArrayInField_eq.
    destruct (Utils.CheckBigIntArrayInField Q inpBI) eqn:EA; cbn [negb]; [|reflexivity].
    (* the nOuts guard, whatever its boolean spelling *)
    rewrite ?Z.gtb_ltb, ?Z.geb_leb, ?Z.leb_antisym.
    destruct (nOuts <? 1) eqn:EO1; destruct (Z.of_nat t <? nOuts) eqn:EO2;
      cbn [orb andb negb]; try reflexivity.
    apply Nat.eqb_neq in E0. apply Nat.ltb_ge in E1.
    destruct (nth_error tables (t - 2)) as [tb|] eqn:En;
      [|exfalso; apply nth_error_None in En; lia].
    rewrite !(nth_tables _ _ _ _ _ En).
    assert (ERP : nth (t - 2) poseidon_NROUNDSP 0%nat = tRP tb)
      by (rewrite <- tables_RP; apply (nth_tables _ tRP _ _ _ En)).
    rewrite !ERP. clear ERP.
    destruct tb as [[[[RP C] S_] M] P]. cbn [tRP tC tS tM tP fst snd].
    rewrite gen_utils_CheckBigIntInField_eq.
    destruct (Utils.CheckBigIntInField Q initState) eqn:EI; cbn [negb]; [|reflexivity].
    f_equal.
    (* the initial state *)
    rewrite gen_utils_BigIntArrayToElementArray_eq, (map_mod_id inpBI EA).
    rewrite (setup_state _ _ t eq_refl).
    replace (initState mod Q) with initState.
    2:{ unfold Utils.CheckBigIntInField in EI. apply andb_prop in EI. destruct EI as [H1 H2].
        apply Z.ltb_lt in H1. apply negb_true_iff, Z.ltb_ge in H2. symmetry. apply Z.mod_small. lia. }
    unfold perm_opt. cbv zeta.
    assert (Hl0 : length (initState :: inpBI) = t) by (subst t; cbn; lia).
    set (s0 := initState :: inpBI) in *.
    (* ark(state, C, 0) *)
    rewrite (gen_poseidon_ark_eq s0 C 0 ltac:(lia)), Z2Nat.inj_0.
    assert (Hl1 : length (ark Q C s0 0) = t) by (rewrite ark_length; exact Hl0).
    set (s1 := ark Q C s0 0) in *.
    (* the first RF/2-1 full rounds *)
    match goal with |- context [fold_left ?f ?l s1] =>
      destruct (fold_left_ext_inv (list Z) nat (fun st => length st = t) f
                  (fun s i => mix Q t M (ark Q C (sbox_all (sbox5 Q) s) ((i + 1) * t))) l s1 Hl1) as [E Hl2];
        [intros st i Hs _; split; [apply full_step; exact Hs|apply mix_length]|rewrite E; clear E]
    end.
    change (fold_left _ (seq 0 (8 / 2 - 1)) s1) with (first_full Q (sbox5 Q) t 8 C M s1) in *.
    set (s2 := first_full Q (sbox5 Q) t 8 C M s1) in *.
    (* the middle round with P *)
    rewrite (full_step t C P (8 / 2 * t) s2 Hl2).
    assert (Hl3 : length (mix Q t P (ark Q C (sbox_all (sbox5 Q) s2) (8 / 2 * t))) = t) by apply mix_length.
    set (s3 := mix Q t P (ark Q C (sbox_all (sbox5 Q) s2) (8 / 2 * t))) in *.
    (* the RP partial rounds *)
    assert (Ht1 : (1 <= t)%nat) by (subst t; lia).
    match goal with |- context [fold_left ?f (seq 0 RP) s3] =>
      destruct (fold_left_ext_inv (list Z) nat (fun st => length st = t) f
                  (fun s i => sparse_round Q (sbox5 Q) t 8 C S_ i s) (seq 0 RP) s3 Hl3) as [E Hl4];
        [intros st i Hs _; split;
         [transitivity (sparse_body t C S_ st i); [reflexivity|apply sparse_step; assumption]|]
        |rewrite E; clear E]
    end.
    { destruct st as [|x st]; [cbn in Hs; lia|]. unfold sparse_round. cbv zeta. cbn [length].
      rewrite map_length, combine_length, seq_length. cbn [length] in Hs. lia. }
    set (s4 := fold_left (fun s i => sparse_round Q (sbox5 Q) t 8 C S_ i s) (seq 0 RP) s3) in *.
    (* the last RF/2-1 full rounds with constants *)
    match goal with |- context [fold_left ?f ?l s4] =>
      destruct (fold_left_ext_inv (list Z) nat (fun st => length st = t) f
                  (fun s i => mix Q t M (ark Q C (sbox_all (sbox5 Q) s) ((8 / 2 + 1) * t + RP + i * t))) l s4 Hl4) as [E Hl5];
        [intros st i Hs _; split; [apply full_step; exact Hs|apply mix_length]|rewrite E; clear E]
    end.
    change (fold_left _ (seq 0 (8 / 2 - 1)) s4) with (last_full Q (sbox5 Q) t 8 RP C M s4) in *.
    set (s5 := last_full Q (sbox5 Q) t 8 RP C M s4) in *.
    (* the final round without constants *)
    rewrite gen_poseidon_exp5state_eq.
    rewrite (gen_poseidon_mix_eq (sbox_all (sbox5 Q) s5) t M) by (rewrite sbox_all_length; exact Hl5).
    (* the output loop *)
    apply out_loop. rewrite mix_length.
    apply Z.ltb_ge in EO2. lia.
  Qed.

  Lemma gen_poseidon_HashWithState_eq : forall inpBI initState,
    poseidon_HashWithState c_c c_s c_m c_p inpBI initState =
    Poseidon.HashWithState Q 8 tables inpBI initState.
  Proof.
    intros. unfold poseidon_HashWithState, Poseidon.HashWithState.
    rewrite gen_poseidon_HashWithStateEx_eq. reflexivity.
  Qed.

  Lemma gen_poseidon_Hash_eq : forall inpBI,
    poseidon_Hash c_c c_s c_m c_p inpBI = Poseidon.Hash Q 8 tables inpBI.
  Proof. intros. unfold poseidon_Hash, Poseidon.Hash. apply gen_poseidon_HashWithState_eq. Qed.

  Lemma gen_poseidon_HashEx_eq : forall inpBI nOuts,
    poseidon_HashEx c_c c_s c_m c_p inpBI nOuts = Poseidon.HashEx Q 8 tables inpBI nOuts.
  Proof. intros. unfold poseidon_HashEx, Poseidon.HashEx. apply gen_poseidon_HashWithStateEx_eq. Qed.
End Main.

Print Assumptions gen_poseidon_exp5state_eq.
Print Assumptions gen_poseidon_ark_eq.
Print Assumptions gen_poseidon_mix_eq.
Print Assumptions gen_poseidon_HashWithStateEx_eq.
Print Assumptions gen_poseidon_HashWithState_eq.
Print Assumptions gen_poseidon_Hash_eq.
Print Assumptions gen_poseidon_HashEx_eq.

(* Correctness of the value-level model of ff.Element.Legendre / ff.Element.Sqrt
   (Model/SqrtCore.v): Tonelli-Shanks, for any prime p with p - 1 = 2^e * s,
   s odd, and g0 an element with g0^(2^(e-1)) = -1.  Instantiated at the end
   for BN254 (ff) and Goldilocks (ffg). *)
From Coq Require Import ZArith Lia Znumtheory Zpow_facts.
From Verif Require Import Lib.Params Lib.Powmod Lib.NumberTheory Lib.Primes Model.SqrtCore.
Local Open Scope Z_scope.
Set Default Timeout 600.

(* ------------------------------------------------------------------ *)
(* Generic modular-arithmetic helpers                                  *)
(* ------------------------------------------------------------------ *)

Lemma ts_pow_mod_l a k n : 0 < n -> ((a mod n) ^ k) mod n = (a ^ k) mod n.
Proof. intros Hn; symmetry; apply Zpower_mod; assumption. Qed.

Lemma ts_pow_pow_mod a j k n :
  0 < n -> 0 <= j -> 0 <= k -> (((a ^ j) mod n) ^ k) mod n = (a ^ (j * k)) mod n.
Proof.
  intros Hn Hj Hk. rewrite ts_pow_mod_l by assumption.
  rewrite Z.pow_mul_r by assumption. reflexivity.
Qed.

Lemma ts_pow_mul_mod a b k n :
  ((a * b) ^ k) mod n = (((a ^ k) mod n) * ((b ^ k) mod n)) mod n.
Proof. rewrite Z.pow_mul_l. apply Zmult_mod. Qed.

Lemma ts_mod_mul_congr a a' b b' n :
  a mod n = a' mod n -> b mod n = b' mod n -> (a * b) mod n = (a' * b') mod n.
Proof.
  intros Ha Hb. rewrite (Zmult_mod a b), (Zmult_mod a' b'), Ha, Hb. reflexivity.
Qed.

Lemma ts_pow_double a K : 0 <= K -> a ^ (2 * K) = a ^ K * a ^ K.
Proof.
  intros HK. replace (2 * K) with (K + K) by lia. apply Z.pow_add_r; assumption.
Qed.

Lemma ts_pow2_split a b : 0 <= a -> 0 <= b -> 2 ^ (a + b) = 2 ^ a * 2 ^ b.
Proof. intros; apply Z.pow_add_r; assumption. Qed.

Lemma ts_pow2_pos k : 0 <= k -> 0 < 2 ^ k.
Proof. intros; apply Z.pow_pos_nonneg; lia. Qed.

Lemma ts_pow2_succ k : 1 <= k -> 2 ^ k = 2 * 2 ^ (k - 1).
Proof.
  intros Hk. replace k with (Z.succ (k - 1)) at 1 by lia.
  apply Z.pow_succ_r; lia.
Qed.

Lemma ts_minus_one_sq n : 0 < n -> ((n - 1) * (n - 1)) mod n = 1 mod n.
Proof.
  intros Hn. replace ((n - 1) * (n - 1)) with (1 + (n - 2) * n) by ring.
  apply Z.mod_add; lia.
Qed.

(* ------------------------------------------------------------------ *)
(* sqn and find_m                                                      *)
(* ------------------------------------------------------------------ *)

Lemma fm_range p a b : 0 < p -> 0 <= fm p a b < p.
Proof. intros Hp; unfold fm; apply Z.mod_pos_bound; assumption. Qed.

Lemma sqn_range p n t : 0 < p -> 0 <= t < p -> 0 <= sqn p n t < p.
Proof.
  intros Hp. revert t. induction n as [|n IH]; intros t Ht; cbn [sqn]; [assumption|].
  apply IH. apply fm_range; assumption.
Qed.

Lemma sqn_spec p n t :
  0 < p -> 0 <= t < p -> sqn p n t = (t ^ (2 ^ Z.of_nat n)) mod p.
Proof.
  intros Hp. revert t. induction n as [|n IH]; intros t Ht; cbn [sqn].
  - change (Z.of_nat 0) with 0. rewrite Z.pow_0_r, Z.pow_1_r.
    symmetry; apply Z.mod_small; assumption.
  - rewrite IH by (apply fm_range; assumption).
    unfold fm. rewrite ts_pow_mod_l by assumption.
    rewrite Nat2Z.inj_succ, Z.pow_succ_r by lia.
    rewrite Z.pow_mul_r by (try lia; apply Z.pow_nonneg; lia).
    rewrite Z.pow_2_r. reflexivity.
Qed.

Lemma sqn_spec_Z p k t :
  0 < p -> 0 <= k -> 0 <= t < p -> sqn p (Z.to_nat k) t = (t ^ (2 ^ k)) mod p.
Proof.
  intros Hp Hk Ht. rewrite sqn_spec by assumption. rewrite Z2Nat.id by assumption.
  reflexivity.
Qed.

Lemma find_m_spec p : 0 < p -> forall fuel t m0 k,
  0 <= t < p -> sqn p k t = 1 -> (k < fuel)%nat ->
  exists j, (j <= k)%nat /\ find_m p fuel t m0 = Some (m0 + Z.of_nat j) /\
            sqn p j t = 1 /\ forall i, (i < j)%nat -> sqn p i t <> 1.
Proof.
  intros Hp. induction fuel as [|f IH]; intros t m0 k Ht Hk Hlt; [lia|].
  cbn [find_m]. destruct (Z.eqb_spec t 1) as [E|NE].
  - exists 0%nat. split; [lia|]. split; [f_equal; lia|]. split; [exact E|].
    intros i Hi; lia.
  - destruct k as [|k']; [cbn [sqn] in Hk; contradiction|].
    cbn [sqn] in Hk.
    destruct (IH (fm p t t) (m0 + 1) k') as (j & Hj & Hf & Hs & Hmin).
    + apply fm_range; assumption.
    + assumption.
    + lia.
    + exists (S j). split; [lia|]. split; [rewrite Hf; f_equal; lia|].
      split; [cbn [sqn]; assumption|].
      intros i Hi. destruct i as [|i']; cbn [sqn]; [assumption|].
      apply Hmin. lia.
Qed.

(* ------------------------------------------------------------------ *)
Section TS.
Variables p e s legendreExp sqrtExp g0 : Z.
Hypothesis Hp : prime p.
Hypothesis He : 0 < e.
Hypothesis Hs : s mod 2 = 1.
Hypothesis Hps : p - 1 = 2 ^ e * s.
Hypothesis HL : legendreExp = (p - 1) / 2.
Hypothesis HS : sqrtExp = (s - 1) / 2.
Hypothesis Hg0 : 0 <= g0 < p.
Hypothesis Hg : powmod g0 (2 ^ (e - 1)) p = p - 1.

Lemma s_pos : 0 < s.
Proof.
  pose proof (prime_ge_2 p Hp) as H2.
  assert (H2e : 0 < 2 ^ e) by (apply ts_pow2_pos; lia).
  apply (Z.mul_pos_cancel_l (2 ^ e) s H2e). lia.
Qed.

Lemma half_exp : (p - 1) / 2 = 2 ^ (e - 1) * s.
Proof.
  rewrite Hps. rewrite (ts_pow2_succ e) by lia.
  replace (2 * 2 ^ (e - 1) * s) with (2 ^ (e - 1) * s * 2) by ring.
  apply Z.div_mul; lia.
Qed.

Lemma p_gt2 : 2 < p.
Proof.
  pose proof s_pos as Hs0.
  assert (H : 0 < 2 ^ (e - 1) * s).
  { apply Z.mul_pos_pos; [apply ts_pow2_pos; lia|assumption]. }
  assert (E : p - 1 = 2 * (2 ^ (e - 1) * s)).
  { rewrite Hps, (ts_pow2_succ e) by lia. ring. }
  lia.
Qed.

Lemma p_pos : 0 < p.
Proof. pose proof p_gt2; lia. Qed.

Lemma half_pos : 0 < (p - 1) / 2.
Proof.
  rewrite half_exp. apply Z.mul_pos_pos; [apply ts_pow2_pos; lia|apply s_pos].
Qed.

Lemma sqrtExp_nonneg : 0 <= sqrtExp.
Proof. rewrite HS. pose proof s_pos. apply Z.div_pos; lia. Qed.

Lemma s_split : s = sqrtExp + (1 + sqrtExp).
Proof.
  rewrite HS. pose proof (Z.div_mod (s - 1) 2 ltac:(lia)) as H.
  pose proof (Z.div_mod s 2 ltac:(lia)) as H1.
  assert (Hm : (s - 1) mod 2 = 0).
  { replace (s - 1) with (s + (-1)) by lia.
    rewrite Zplus_mod, Hs. reflexivity. }
  lia.
Qed.

(* one iteration of the outer loop, m > 0 *)
Lemma ts_step x y b g r m :
  0 <= y < p -> 0 <= b < p -> 0 <= g < p -> 1 <= m <= r - 1 ->
  (y * y) mod p = (x * b) mod p ->
  (g ^ (2 ^ (r - 1))) mod p = p - 1 ->
  (b ^ (2 ^ m)) mod p = 1 ->
  (b ^ (2 ^ (m - 1))) mod p <> 1 ->
  let t := (g ^ (2 ^ (r - m - 1))) mod p in
  let g' := fm p t t in
  let y' := fm p y t in
  let b' := fm p b g' in
  (y' * y') mod p = (x * b') mod p /\
  (g' ^ (2 ^ (m - 1))) mod p = p - 1 /\
  (b' ^ (2 ^ (m - 1))) mod p = 1.
Proof.
  intros Hy Hb Hgr Hm Hyy Hgo Hbm Hbm1 t g' y' b'.
  pose proof p_gt2 as Hp2. assert (Hp0 : 0 < p) by lia.
  assert (HK : 0 <= 2 ^ (r - m - 1)) by (apply Z.pow_nonneg; lia).
  assert (HM : 0 <= 2 ^ (m - 1)) by (apply Z.pow_nonneg; lia).
  (* g' = g^(2^(r-m)) *)
  assert (Eg' : g' = (g ^ (2 ^ (r - m))) mod p).
  { unfold g', fm, t. rewrite <- Zmult_mod.
    rewrite (ts_pow2_succ (r - m)) by lia.
    rewrite ts_pow_double by assumption. reflexivity. }
  assert (Hg'o : (g' ^ (2 ^ (m - 1))) mod p = p - 1).
  { rewrite Eg'. rewrite ts_pow_pow_mod; try assumption; [|apply Z.pow_nonneg; lia].
    rewrite <- ts_pow2_split by lia.
    replace (r - m + (m - 1)) with (r - 1) by lia. exact Hgo. }
  (* c = b^(2^(m-1)) is -1 *)
  assert (Hc : (b ^ (2 ^ (m - 1))) mod p = p - 1).
  { destruct (sqrt_one p ((b ^ (2 ^ (m - 1))) mod p) Hp) as [H1|H1].
    - rewrite <- Zmult_mod. rewrite <- ts_pow_double by assumption.
      rewrite <- ts_pow2_succ by lia. exact Hbm.
    - rewrite Z.mod_mod in H1 by lia. contradiction.
    - rewrite Z.mod_mod in H1 by lia. exact H1. }
  split; [|split].
  - unfold y', b', fm. rewrite <- Zmult_mod.
    rewrite Z.mul_mod_idemp_r by lia.
    replace (y * t * (y * t)) with ((y * y) * (t * t)) by ring.
    rewrite Zmult_mod, Hyy. fold (fm p t t). fold g'.
    rewrite Z.mul_mod_idemp_l by lia.
    f_equal; ring.
  - exact Hg'o.
  - unfold b', fm. rewrite ts_pow_mod_l by assumption.
    rewrite ts_pow_mul_mod. rewrite Hc, Hg'o.
    rewrite ts_minus_one_sq by assumption. apply Z.mod_small; lia.
Qed.

Lemma ts_loop_correct x : forall fuel y b g r,
  0 <= y < p -> 0 <= b < p -> 0 <= g < p -> 1 <= r ->
  (y * y) mod p = (x * b) mod p ->
  (g ^ (2 ^ (r - 1))) mod p = p - 1 ->
  (b ^ (2 ^ (r - 1))) mod p = 1 ->
  (Z.to_nat r < fuel)%nat ->
  exists z, ts_loop p fuel y b g r = Some z /\ 0 <= z < p /\ (z * z) mod p = x mod p.
Proof.
  pose proof p_gt2 as Hp2. assert (Hp0 : 0 < p) by lia.
  induction fuel as [|f IH]; intros y b g r Hy Hb Hgr Hr Hyy Hgo Hbo Hfuel; [lia|].
  cbn [ts_loop].
  destruct (find_m_spec p Hp0 (Z.to_nat r + 1) b 0 (Z.to_nat (r - 1)))
    as (j & Hj & Hf & Hsj & Hmin).
  { assumption. }
  { rewrite sqn_spec_Z by (try assumption; lia). exact Hbo. }
  { lia. }
  rewrite Hf. destruct (Z.eqb_spec (0 + Z.of_nat j) 0) as [E0|NE0].
  - exists y. split; [reflexivity|]. split; [assumption|].
    assert (j = 0%nat) by lia. subst j. cbn [sqn] in Hsj. subst b.
    rewrite Hyy. f_equal; ring.
  - set (m := 0 + Z.of_nat j) in *.
    assert (Hm : 1 <= m <= r - 1) by lia.
    assert (Hbm : (b ^ (2 ^ m)) mod p = 1).
    { rewrite <- Hsj. rewrite sqn_spec by assumption.
      assert (Em : m = Z.of_nat j) by lia. rewrite Em. reflexivity. }
    assert (Hbm1 : (b ^ (2 ^ (m - 1))) mod p <> 1).
    { rewrite <- (sqn_spec_Z p (m - 1) b) by (try assumption; lia).
      apply Hmin. lia. }
    rewrite sqn_spec_Z by (try assumption; lia).
    destruct (ts_step x y b g r m Hy Hb Hgr Hm Hyy Hgo Hbm Hbm1) as (A & B & C).
    apply IH; try assumption; try (apply fm_range; assumption); lia.
Qed.

(* prologue of Sqrt *)
Lemma prologue x :
  0 <= x < p ->
  let w := powmod x sqrtExp p in
  let y := fm p x w in
  let b := fm p w y in
  (y * y) mod p = (x * b) mod p /\
  sqn p (Z.to_nat (e - 1)) b = (x ^ ((p - 1) / 2)) mod p.
Proof.
  intros Hx w y b.
  pose proof p_gt2 as Hp2. assert (Hp0 : 0 < p) by lia.
  pose proof sqrtExp_nonneg as HE.
  assert (Ew : w = (x ^ sqrtExp) mod p) by (apply powmod_spec; assumption).
  assert (Hw : w mod p = (x ^ sqrtExp) mod p) by (rewrite Ew; apply Z.mod_mod; lia).
  assert (Eb : b = (x ^ s) mod p).
  { unfold b, y, fm. rewrite Z.mul_mod_idemp_r by lia.
    rewrite s_split. rewrite !Z.pow_add_r, Z.pow_1_r by lia.
    apply ts_mod_mul_congr; [exact Hw|]. apply ts_mod_mul_congr; [reflexivity|exact Hw]. }
  split.
  - unfold b, y, fm. rewrite <- Zmult_mod.
    rewrite (Z.mul_mod_idemp_r x) by lia.
    rewrite (Z.mul_assoc x w ((x * w) mod p)).
    rewrite Z.mul_mod_idemp_r by lia. reflexivity.
  - rewrite sqn_spec_Z by (try lia; unfold b; apply fm_range; assumption).
    rewrite Eb. pose proof s_pos as Hs0.
    rewrite ts_pow_pow_mod by (try lia; apply Z.pow_nonneg; lia).
    rewrite half_exp. f_equal. f_equal. ring.
Qed.

Lemma sqrt_cases x : 0 <= x < p ->
  let t := (x ^ ((p - 1) / 2)) mod p in
  (x = 0 /\ t = 0 /\ sqrt_model p sqrtExp g0 e x = SqrtOk 0) \/
  (x <> 0 /\ t = 1 /\
     exists z, sqrt_model p sqrtExp g0 e x = SqrtOk z /\ 0 <= z < p /\ (z * z) mod p = x) \/
  (x <> 0 /\ t = p - 1 /\ sqrt_model p sqrtExp g0 e x = SqrtNone).
Proof.
  intros Hx t.
  pose proof p_gt2 as Hp2. assert (Hp0 : 0 < p) by lia.
  destruct (prologue x Hx) as (Hyy & Ht). cbv zeta in Hyy, Ht. fold t in Ht.
  unfold sqrt_model. cbv zeta. rewrite Ht.
  destruct (Z.eq_dec x 0) as [Ex|Nx].
  - left. assert (Et : t = 0).
    { unfold t. rewrite Ex. rewrite Z.pow_0_l by apply half_pos. apply Z.mod_0_l; lia. }
    split; [assumption|]. split; [assumption|]. rewrite Et. reflexivity.
  - right. assert (Hxm : x mod p <> 0) by (rewrite Z.mod_small; assumption).
    destruct (euler_pm1 p x Hp Hp2 Hxm) as [E1|E1]; fold t in E1.
    + left. split; [assumption|]. split; [assumption|].
      rewrite E1. cbn [Z.eqb negb].
      rewrite E1 in Ht.
      rewrite sqn_spec_Z in Ht by (try lia; apply fm_range; assumption).
      destruct (ts_loop_correct x (Z.to_nat e + 1) _ _ g0 e
                  (fm_range p _ _ Hp0) (fm_range p _ _ Hp0) Hg0 ltac:(lia) Hyy)
        as (z & Hz & Hzr & Hzz).
      * rewrite <- powmod_spec by (try lia; apply Z.pow_nonneg; lia). exact Hg.
      * exact Ht.
      * lia.
      * rewrite Hz. exists z. split; [reflexivity|]. split; [assumption|].
        rewrite Hzz. apply Z.mod_small; assumption.
    + right. split; [assumption|]. split; [assumption|].
      rewrite E1.
      rewrite (proj2 (Z.eqb_neq (p - 1) 0)) by lia.
      rewrite (proj2 (Z.eqb_neq (p - 1) 1)) by lia. reflexivity.
Qed.

Lemma zero_square : (0 * 0) mod p = 0.
Proof. pose proof p_pos. cbn [Z.mul]. apply Z.mod_0_l; lia. Qed.

Lemma square_euler x r : 0 <= x < p -> x <> 0 -> (r * r) mod p = x ->
  (x ^ ((p - 1) / 2)) mod p = 1.
Proof.
  intros Hx Nx Hr. pose proof p_gt2 as Hp2.
  apply (euler_square p x r Hp Hp2); rewrite (Z.mod_small x p) by assumption; assumption.
Qed.

Theorem euler_converse : forall x, 0 <= x < p -> x <> 0 ->
  (x ^ ((p - 1) / 2)) mod p = 1 -> exists r, 0 <= r < p /\ (r * r) mod p = x.
Proof.
  intros x Hx Nx Ht. pose proof p_gt2 as Hp2.
  destruct (sqrt_cases x Hx) as [(E & _)|[(_ & _ & z & _ & Hz & Hzz)|(_ & E & _)]].
  - contradiction.
  - exists z. split; assumption.
  - lia.
Qed.

Theorem sqrt_zero : sqrt_model p sqrtExp g0 e 0 = SqrtOk 0.
Proof.
  pose proof p_pos as Hp0.
  destruct (sqrt_cases 0 ltac:(lia)) as [(_ & _ & H)|[(N & _)|(N & _)]].
  - exact H.
  - contradiction.
  - contradiction.
Qed.

Theorem sqrt_square : forall x, 0 <= x < p -> (exists r, (r * r) mod p = x) ->
  exists z, sqrt_model p sqrtExp g0 e x = SqrtOk z /\ 0 <= z < p /\ (z * z) mod p = x.
Proof.
  intros x Hx (r & Hr). pose proof p_gt2 as Hp2.
  destruct (sqrt_cases x Hx) as [(E & _ & H)|[(_ & _ & H)|(N & E & _)]].
  - exists 0. split; [assumption|]. split; [lia|]. rewrite E. apply zero_square.
  - exact H.
  - rewrite (square_euler x r Hx N Hr) in E. lia.
Qed.

Theorem sqrt_nonsquare : forall x, 0 <= x < p -> (forall r, (r * r) mod p <> x) ->
  sqrt_model p sqrtExp g0 e x = SqrtNone.
Proof.
  intros x Hx Hns.
  destruct (sqrt_cases x Hx) as [(E & _)|[(_ & _ & z & _ & _ & Hzz)|(_ & _ & H)]].
  - exfalso. apply (Hns 0). rewrite E. apply zero_square.
  - exfalso. exact (Hns z Hzz).
  - exact H.
Qed.

Corollary sqrt_total : forall x, 0 <= x < p ->
  sqrt_model p sqrtExp g0 e x <> SqrtOutOfFuel.
Proof.
  intros x Hx.
  destruct (sqrt_cases x Hx) as [(_ & _ & H)|[(_ & _ & z & H & _)|(_ & _ & H)]];
    rewrite H; discriminate.
Qed.

Corollary nonsquare_euler : forall x, 0 <= x < p -> (forall r, (r * r) mod p <> x) ->
  (x ^ ((p - 1) / 2)) mod p = p - 1.
Proof.
  intros x Hx Hns.
  destruct (sqrt_cases x Hx) as [(E & _)|[(_ & _ & z & _ & _ & Hzz)|(_ & H & _)]].
  - exfalso. apply (Hns 0). rewrite E. apply zero_square.
  - exfalso. exact (Hns z Hzz).
  - exact H.
Qed.

Theorem legendre_spec : forall x, 0 <= x < p ->
  (legendre_model p legendreExp x = 0 <-> x = 0) /\
  (legendre_model p legendreExp x = 1 <-> (x <> 0 /\ exists r, (r * r) mod p = x)) /\
  (legendre_model p legendreExp x = -1 <-> (forall r, (r * r) mod p <> x)).
Proof.
  intros x Hx. pose proof p_gt2 as Hp2. pose proof half_pos as Hh.
  unfold legendre_model. cbv zeta.
  rewrite powmod_spec by lia. rewrite HL.
  destruct (sqrt_cases x Hx) as [(E & Et & _)|[(N & Et & z & _ & _ & Hzz)|(N & Et & _)]];
    cbv zeta in Et; rewrite Et.
  - cbn [Z.eqb]. split; [tauto|]. split.
    + split; [discriminate|]. intros (N & _); contradiction.
    + split; [discriminate|]. intros H. exfalso. apply (H 0). rewrite E. apply zero_square.
  - cbn [Z.eqb]. split; [|split].
    + split; [discriminate|]. intros; contradiction.
    + split; [|reflexivity]. intros _. split; [assumption|]. exists z; assumption.
    + split; [discriminate|]. intros H. exfalso. exact (H z Hzz).
  - rewrite (proj2 (Z.eqb_neq (p - 1) 0)) by lia.
    rewrite (proj2 (Z.eqb_neq (p - 1) 1)) by lia.
    split; [|split].
    + split; [discriminate|]. intros; contradiction.
    + split; [discriminate|]. intros (_ & r & Hr). exfalso.
      rewrite (square_euler x r Hx N Hr) in Et. lia.
    + split; [|reflexivity]. intros _ r Hr.
      rewrite (square_euler x r Hx N Hr) in Et. lia.
Qed.

End TS.

Print Assumptions legendre_spec.
Print Assumptions sqrt_zero.
Print Assumptions sqrt_square.
Print Assumptions sqrt_nonsquare.
Print Assumptions sqrt_total.
Print Assumptions euler_converse.
Print Assumptions nonsquare_euler.

(* ------------------------------------------------------------------ *)
(* Instantiations: the constants hard-coded in ff/element.go (BN254     *)
(* scalar field) and ffg/element.go (Goldilocks).                      *)
(* ------------------------------------------------------------------ *)

(* ff: r = 28, q - 1 = 2^28 * bn_s *)
Definition bn_e : Z := 28.
Definition bn_s : Z := (q - 1) / 2 ^ 28.
(* _bLegendreExponentElement, _bSqrtExponentElement as written in element.go *)
Definition bn_legendreExp : Z :=
  0x183227397098d014dc2822db40c0ac2e9419f4243cdcb848a1f0fac9f8000000.
Definition bn_sqrtExp : Z :=
  0x183227397098d014dc2822db40c0ac2e9419f4243cdcb848a1f0fac9f.
(* the Montgomery-form constant g of Sqrt, as four little-endian 64-bit limbs *)
Definition bn_g_mont : Z :=
  7164790868263648668 + W * (11685701338293206998 +
  W * (6216421865291908056 + W * 1756667274303109607)).
(* its value: bn_g_mont * R^-1 mod q, R = 2^256 *)
Definition bn_g0 : Z :=
  19103219067921713944291392827692070036145651957329286315305642004821462161904.

Lemma bn_g0_mont : (bn_g0 * 2 ^ 256) mod q = bn_g_mont.
Proof. vm_compute. reflexivity. Qed.

Lemma bn_side_conditions :
  0 < bn_e /\
  bn_s mod 2 = 1 /\
  q - 1 = 2 ^ bn_e * bn_s /\
  bn_legendreExp = (q - 1) / 2 /\
  bn_sqrtExp = (bn_s - 1) / 2 /\
  0 <= bn_g0 < q /\
  powmod bn_g0 (2 ^ (bn_e - 1)) q = q - 1.
Proof.
  split; [reflexivity|].
  split; [vm_compute; reflexivity|].
  split; [vm_compute; reflexivity|].
  split; [vm_compute; reflexivity|].
  split; [vm_compute; reflexivity|].
  split; [split; [apply Z.leb_le|apply Z.ltb_lt]; vm_compute; reflexivity|].
  vm_compute; reflexivity.
Qed.

(* ffg: r = 32, pg - 1 = 2^32 * (2^32 - 1) *)
Definition gold_e : Z := 32.
Definition gold_s : Z := 2 ^ 32 - 1.
Definition gold_legendreExp : Z := 0x7fffffff80000000.
Definition gold_sqrtExp : Z := 0x7fffffff.
Definition gold_g_mont : Z := 15733474329512464024.
(* gold_g_mont * (2^64)^-1 mod pg *)
Definition gold_g0 : Z := 1753635133440165772.

Lemma gold_g0_mont : (gold_g0 * 2 ^ 64) mod pg = gold_g_mont.
Proof. vm_compute. reflexivity. Qed.

Lemma gold_side_conditions :
  0 < gold_e /\
  gold_s mod 2 = 1 /\
  pg - 1 = 2 ^ gold_e * gold_s /\
  gold_legendreExp = (pg - 1) / 2 /\
  gold_sqrtExp = (gold_s - 1) / 2 /\
  0 <= gold_g0 < pg /\
  powmod gold_g0 (2 ^ (gold_e - 1)) pg = pg - 1.
Proof.
  split; [reflexivity|].
  split; [vm_compute; reflexivity|].
  split; [vm_compute; reflexivity|].
  split; [vm_compute; reflexivity|].
  split; [vm_compute; reflexivity|].
  split; [split; [apply Z.leb_le|apply Z.ltb_lt]; vm_compute; reflexivity|].
  vm_compute; reflexivity.
Qed.

(* All seven results, bundled, for a modulus satisfying the side conditions *)
Definition ts_results (p e legendreExp sqrtExp g0 : Z) : Prop :=
  (forall x, 0 <= x < p ->
     (legendre_model p legendreExp x = 0 <-> x = 0) /\
     (legendre_model p legendreExp x = 1 <-> (x <> 0 /\ exists r, (r * r) mod p = x)) /\
     (legendre_model p legendreExp x = -1 <-> (forall r, (r * r) mod p <> x))) /\
  sqrt_model p sqrtExp g0 e 0 = SqrtOk 0 /\
  (forall x, 0 <= x < p -> (exists r, (r * r) mod p = x) ->
     exists z, sqrt_model p sqrtExp g0 e x = SqrtOk z /\ 0 <= z < p /\ (z * z) mod p = x) /\
  (forall x, 0 <= x < p -> (forall r, (r * r) mod p <> x) ->
     sqrt_model p sqrtExp g0 e x = SqrtNone) /\
  (forall x, 0 <= x < p -> sqrt_model p sqrtExp g0 e x <> SqrtOutOfFuel) /\
  (forall x, 0 <= x < p -> x <> 0 -> (x ^ ((p - 1) / 2)) mod p = 1 ->
     exists r, 0 <= r < p /\ (r * r) mod p = x) /\
  (forall x, 0 <= x < p -> (forall r, (r * r) mod p <> x) ->
     (x ^ ((p - 1) / 2)) mod p = p - 1).

Lemma ts_results_intro p e s legendreExp sqrtExp g0 :
  prime p -> 0 < e -> s mod 2 = 1 -> p - 1 = 2 ^ e * s ->
  legendreExp = (p - 1) / 2 -> sqrtExp = (s - 1) / 2 ->
  0 <= g0 < p -> powmod g0 (2 ^ (e - 1)) p = p - 1 ->
  ts_results p e legendreExp sqrtExp g0.
Proof.
  intros Hp He Hs Hps HL HS Hg0 Hg. unfold ts_results.
  split; [exact (legendre_spec p e s legendreExp sqrtExp g0 Hp He Hs Hps HL HS Hg0 Hg)|].
  split; [exact (sqrt_zero p e s sqrtExp g0 Hp He Hs Hps HS Hg0 Hg)|].
  split; [exact (sqrt_square p e s sqrtExp g0 Hp He Hs Hps HS Hg0 Hg)|].
  split; [exact (sqrt_nonsquare p e s sqrtExp g0 Hp He Hs Hps HS Hg0 Hg)|].
  split; [exact (sqrt_total p e s sqrtExp g0 Hp He Hs Hps HS Hg0 Hg)|].
  split; [exact (euler_converse p e s sqrtExp g0 Hp He Hs Hps HS Hg0 Hg)|].
  exact (nonsquare_euler p e s sqrtExp g0 Hp He Hs Hps HS Hg0 Hg).
Qed.

Lemma bn_tonelli_shanks_given_prime :
  prime q -> ts_results q bn_e bn_legendreExp bn_sqrtExp bn_g0.
Proof.
  intros Hq.
  destruct bn_side_conditions as (He & Hs & Hps & HL & HS & Hg0 & Hg).
  exact (ts_results_intro q bn_e bn_s _ _ _ Hq He Hs Hps HL HS Hg0 Hg).
Qed.

Lemma gold_tonelli_shanks_given_prime :
  prime pg -> ts_results pg gold_e gold_legendreExp gold_sqrtExp gold_g0.
Proof.
  intros Hq.
  destruct gold_side_conditions as (He & Hs & Hps & HL & HS & Hg0 & Hg).
  exact (ts_results_intro pg gold_e gold_s _ _ _ Hq He Hs Hps HL HS Hg0 Hg).
Qed.

Theorem bn_tonelli_shanks : ts_results q bn_e bn_legendreExp bn_sqrtExp bn_g0.
Proof. exact (bn_tonelli_shanks_given_prime q_prime). Qed.

Theorem gold_tonelli_shanks : ts_results pg gold_e gold_legendreExp gold_sqrtExp gold_g0.
Proof. exact (gold_tonelli_shanks_given_prime pg_prime). Qed.

Print Assumptions bn_side_conditions.
Print Assumptions gold_side_conditions.
Print Assumptions bn_tonelli_shanks_given_prime.
Print Assumptions gold_tonelli_shanks_given_prime.
Print Assumptions bn_tonelli_shanks.
Print Assumptions gold_tonelli_shanks.

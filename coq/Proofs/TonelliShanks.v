(* Correctness of the value-level model of ff.Element.Legendre / ff.Element.Sqrt
   (Model/SqrtCore.v): Tonelli-Shanks, for any prime p with p - 1 = 2^e * s,
   s odd, and g0 an element with g0^(2^(e-1)) = -1.  Instantiated at the end
   for BN254 (ff) and Goldilocks (ffg). *)
From Coq Require Import ZArith Lia Znumtheory Zpow_facts.
From Verif Require Import Lib.Params Lib.Powmod Model.SqrtCore.
Local Open Scope Z_scope.
Set Default Timeout 60.

(* ------------------------------------------------------------------ *)
(* Generic modular-arithmetic helpers                                  *)
(* ------------------------------------------------------------------ *)

Lemma pow_mod_l a k n : 0 < n -> ((a mod n) ^ k) mod n = (a ^ k) mod n.
Proof. intros Hn; symmetry; apply Zpower_mod; assumption. Qed.

Lemma pow_pow_mod a j k n :
  0 < n -> 0 <= j -> 0 <= k -> (((a ^ j) mod n) ^ k) mod n = (a ^ (j * k)) mod n.
Proof.
  intros Hn Hj Hk. rewrite pow_mod_l by assumption.
  rewrite Z.pow_mul_r by assumption. reflexivity.
Qed.

Lemma pow_mul_mod a b k n :
  ((a * b) ^ k) mod n = (((a ^ k) mod n) * ((b ^ k) mod n)) mod n.
Proof. rewrite Z.pow_mul_l. apply Zmult_mod. Qed.

Lemma pow_double a K : 0 <= K -> a ^ (2 * K) = a ^ K * a ^ K.
Proof.
  intros HK. replace (2 * K) with (K + K) by lia. apply Z.pow_add_r; assumption.
Qed.

Lemma pow2_split a b : 0 <= a -> 0 <= b -> 2 ^ (a + b) = 2 ^ a * 2 ^ b.
Proof. intros; apply Z.pow_add_r; assumption. Qed.

Lemma pow2_pos k : 0 <= k -> 0 < 2 ^ k.
Proof. intros; apply Z.pow_pos_nonneg; lia. Qed.

Lemma pow2_succ k : 1 <= k -> 2 ^ k = 2 * 2 ^ (k - 1).
Proof.
  intros Hk. replace k with (Z.succ (k - 1)) at 1 by lia.
  apply Z.pow_succ_r; lia.
Qed.

Lemma minus_one_sq n : 0 < n -> ((n - 1) * (n - 1)) mod n = 1 mod n.
Proof.
  intros Hn. replace ((n - 1) * (n - 1)) with (1 + (n - 2) * n) by ring.
  apply Z.mod_add; lia.
Qed.

(* ------------------------------------------------------------------ *)
(* sqn and find_m                                                      *)
(* ------------------------------------------------------------------ *)

Lemma fm_range p a b : 0 < p -> 0 <= fm p a b < p.
Proof. intros Hp; unfold fm; apply Z.mod_pos_bound; assumption. Qed.

Lemma sqn_range p n t : 0 < p -> 0 <= t < p -> 0 <= sqn p n t < p.
Proof.
  intros Hp. revert t. induction n as [|n IH]; intros t Ht; cbn [sqn]; [assumption|].
  apply IH. apply fm_range; assumption.
Qed.

Lemma sqn_spec p n t :
  0 < p -> 0 <= t < p -> sqn p n t = (t ^ (2 ^ Z.of_nat n)) mod p.
Proof.
  intros Hp. revert t. induction n as [|n IH]; intros t Ht; cbn [sqn].
  - change (Z.of_nat 0) with 0. rewrite Z.pow_0_r, Z.pow_1_r.
    symmetry; apply Z.mod_small; assumption.
  - rewrite IH by (apply fm_range; assumption).
    unfold fm. rewrite pow_mod_l by assumption.
    rewrite Nat2Z.inj_succ, Z.pow_succ_r by lia.
    rewrite Z.pow_mul_r by (try lia; apply Z.pow_nonneg; lia).
    rewrite Z.pow_2_r. reflexivity.
Qed.

Lemma sqn_spec_Z p k t :
  0 < p -> 0 <= k -> 0 <= t < p -> sqn p (Z.to_nat k) t = (t ^ (2 ^ k)) mod p.
Proof.
  intros Hp Hk Ht. rewrite sqn_spec by assumption. rewrite Z2Nat.id by assumption.
  reflexivity.
Qed.

Lemma find_m_spec p : 0 < p -> forall fuel t m0 k,
  0 <= t < p -> sqn p k t = 1 -> (k < fuel)%nat ->
  exists j, (j <= k)%nat /\ find_m p fuel t m0 = Some (m0 + Z.of_nat j) /\
            sqn p j t = 1 /\ forall i, (i < j)%nat -> sqn p i t <> 1.
Proof.
  intros Hp. induction fuel as [|f IH]; intros t m0 k Ht Hk Hlt; [lia|].
  cbn [find_m]. destruct (Z.eqb_spec t 1) as [E|NE].
  - exists 0%nat. split; [lia|]. split; [f_equal; lia|]. split; [exact E|].
    intros i Hi; lia.
  - destruct k as [|k']; [cbn [sqn] in Hk; contradiction|].
    cbn [sqn] in Hk.
    destruct (IH (fm p t t) (m0 + 1) k') as (j & Hj & Hf & Hs & Hmin).
    + apply fm_range; assumption.
    + assumption.
    + lia.
    + exists (S j). split; [lia|]. split; [rewrite Hf; f_equal; lia|].
      split; [cbn [sqn]; assumption|].
      intros i Hi. destruct i as [|i']; cbn [sqn]; [assumption|].
      apply Hmin. lia.
Qed.

(* ------------------------------------------------------------------ *)
(* Temporary: number-theory interface (to be replaced by Lib.NumberTheory) *)
(* ------------------------------------------------------------------ *)
Section NT.
Hypothesis powmod_spec : forall a e n, 0 <= e -> 0 < n -> powmod a e n = (a ^ e) mod n.
Hypothesis powmod_range : forall a e n, 0 < n -> 0 <= powmod a e n < n.
Hypothesis sqrt_one : forall p x, prime p -> (x * x) mod p = 1 -> x mod p = 1 \/ x mod p = p - 1.
Hypothesis euler_square : forall p a r, prime p -> 2 < p -> a mod p <> 0 ->
  (r * r) mod p = a mod p -> (a ^ ((p - 1) / 2)) mod p = 1.
Hypothesis euler_pm1 : forall p a, prime p -> 2 < p -> a mod p <> 0 ->
  (a ^ ((p - 1) / 2)) mod p = 1 \/ (a ^ ((p - 1) / 2)) mod p = p - 1.

(* ------------------------------------------------------------------ *)
Section TS.
Variables p e s legendreExp sqrtExp g0 : Z.
Hypothesis Hp : prime p.
Hypothesis He : 0 < e.
Hypothesis Hs : s mod 2 = 1.
Hypothesis Hps : p - 1 = 2 ^ e * s.
Hypothesis HL : legendreExp = (p - 1) / 2.
Hypothesis HS : sqrtExp = (s - 1) / 2.
Hypothesis Hg0 : 0 <= g0 < p.
Hypothesis Hg : powmod g0 (2 ^ (e - 1)) p = p - 1.

Lemma s_pos : 0 < s.
Proof.
  pose proof (prime_ge_2 p Hp) as H2.
  assert (H2e : 0 < 2 ^ e) by (apply pow2_pos; lia).
  apply (Z.mul_pos_cancel_l (2 ^ e) s H2e). lia.
Qed.

Lemma half_exp : (p - 1) / 2 = 2 ^ (e - 1) * s.
Proof.
  rewrite Hps. rewrite (pow2_succ e) by lia.
  replace (2 * 2 ^ (e - 1) * s) with (2 ^ (e - 1) * s * 2) by ring.
  apply Z.div_mul; lia.
Qed.

Lemma p_gt2 : 2 < p.
Proof.
  pose proof s_pos as Hs0.
  assert (H : 0 < 2 ^ (e - 1) * s).
  { apply Z.mul_pos_pos; [apply pow2_pos; lia|assumption]. }
  assert (E : p - 1 = 2 * (2 ^ (e - 1) * s)).
  { rewrite Hps, (pow2_succ e) by lia. ring. }
  lia.
Qed.

Lemma p_pos : 0 < p.
Proof. pose proof p_gt2; lia. Qed.

Lemma half_pos : 0 < (p - 1) / 2.
Proof.
  rewrite half_exp. apply Z.mul_pos_pos; [apply pow2_pos; lia|apply s_pos].
Qed.

Lemma sqrtExp_nonneg : 0 <= sqrtExp.
Proof. rewrite HS. pose proof s_pos. apply Z.div_pos; lia. Qed.

Lemma s_split : s = sqrtExp + (1 + sqrtExp).
Proof.
  rewrite HS. pose proof (Z.div_mod (s - 1) 2 ltac:(lia)) as H.
  pose proof (Z.div_mod s 2 ltac:(lia)) as H1.
  assert (Hm : (s - 1) mod 2 = 0).
  { replace (s - 1) with (s + (-1)) by lia.
    rewrite Zplus_mod, Hs. reflexivity. }
  lia.
Qed.

(* one iteration of the outer loop, m > 0 *)
Lemma ts_step x y b g r m :
  0 <= y < p -> 0 <= b < p -> 0 <= g < p -> 1 <= m <= r - 1 ->
  (y * y) mod p = (x * b) mod p ->
  (g ^ (2 ^ (r - 1))) mod p = p - 1 ->
  (b ^ (2 ^ m)) mod p = 1 ->
  (b ^ (2 ^ (m - 1))) mod p <> 1 ->
  let t := (g ^ (2 ^ (r - m - 1))) mod p in
  let g' := fm p t t in
  let y' := fm p y t in
  let b' := fm p b g' in
  (y' * y') mod p = (x * b') mod p /\
  (g' ^ (2 ^ (m - 1))) mod p = p - 1 /\
  (b' ^ (2 ^ (m - 1))) mod p = 1.
Proof.
  intros Hy Hb Hgr Hm Hyy Hgo Hbm Hbm1 t g' y' b'.
  pose proof p_gt2 as Hp2. assert (Hp0 : 0 < p) by lia.
  assert (HK : 0 <= 2 ^ (r - m - 1)) by (apply Z.pow_nonneg; lia).
  assert (HM : 0 <= 2 ^ (m - 1)) by (apply Z.pow_nonneg; lia).
  (* g' = g^(2^(r-m)) *)
  assert (Eg' : g' = (g ^ (2 ^ (r - m))) mod p).
  { unfold g', fm, t. rewrite <- Zmult_mod.
    rewrite (pow2_succ (r - m)) by lia.
    replace (r - m - 1) with (r - m - 1) by lia.
    rewrite pow_double by assumption. reflexivity. }
  assert (Hg'o : (g' ^ (2 ^ (m - 1))) mod p = p - 1).
  { rewrite Eg'. rewrite pow_pow_mod; try assumption; [|apply Z.pow_nonneg; lia].
    rewrite <- pow2_split by lia.
    replace (r - m + (m - 1)) with (r - 1) by lia. exact Hgo. }
  (* c = b^(2^(m-1)) is -1 *)
  assert (Hc : (b ^ (2 ^ (m - 1))) mod p = p - 1).
  { destruct (sqrt_one p ((b ^ (2 ^ (m - 1))) mod p) Hp) as [H1|H1].
    - rewrite <- Zmult_mod. rewrite <- pow_double by assumption.
      rewrite <- pow2_succ by lia. exact Hbm.
    - rewrite Z.mod_mod in H1 by lia. contradiction.
    - rewrite Z.mod_mod in H1 by lia. exact H1. }
  split; [|split].
  - unfold y', b', fm. rewrite <- Zmult_mod.
    rewrite Z.mul_mod_idemp_r by lia.
    replace (y * t * (y * t)) with ((y * y) * (t * t)) by ring.
    rewrite Zmult_mod, Hyy. fold (fm p t t). fold g'.
    rewrite Z.mul_mod_idemp_l by lia.
    rewrite Z.mul_mod_idemp_r by lia.
    f_equal; ring.
  - exact Hg'o.
  - unfold b', fm. rewrite pow_mod_l by assumption.
    rewrite pow_mul_mod. rewrite Hc, Hg'o.
    rewrite minus_one_sq by assumption. apply Z.mod_small; lia.
Qed.

Lemma ts_loop_correct x : forall fuel y b g r,
  0 <= y < p -> 0 <= b < p -> 0 <= g < p -> 1 <= r ->
  (y * y) mod p = (x * b) mod p ->
  (g ^ (2 ^ (r - 1))) mod p = p - 1 ->
  (b ^ (2 ^ (r - 1))) mod p = 1 ->
  (Z.to_nat r < fuel)%nat ->
  exists z, ts_loop p fuel y b g r = Some z /\ 0 <= z < p /\ (z * z) mod p = x mod p.
Proof.
  pose proof p_gt2 as Hp2. assert (Hp0 : 0 < p) by lia.
  induction fuel as [|f IH]; intros y b g r Hy Hb Hgr Hr Hyy Hgo Hbo Hfuel; [lia|].
  cbn [ts_loop].
  destruct (find_m_spec p Hp0 (Z.to_nat r + 1) b 0 (Z.to_nat (r - 1)))
    as (j & Hj & Hf & Hsj & Hmin).
  { assumption. }
  { rewrite sqn_spec_Z by (try assumption; lia). exact Hbo. }
  { lia. }
  rewrite Hf. destruct (Z.eqb_spec (0 + Z.of_nat j) 0) as [E0|NE0].
  - exists y. split; [reflexivity|]. split; [assumption|].
    assert (j = 0%nat) by lia. subst j. cbn [sqn] in Hsj. subst b.
    rewrite Hyy. f_equal; ring.
  - set (m := 0 + Z.of_nat j) in *.
    assert (Hm : 1 <= m <= r - 1) by lia.
    assert (Hbm : (b ^ (2 ^ m)) mod p = 1).
    { rewrite <- Hsj. rewrite sqn_spec by assumption. f_equal. f_equal. f_equal. lia. }
    assert (Hbm1 : (b ^ (2 ^ (m - 1))) mod p <> 1).
    { rewrite <- (sqn_spec_Z p (m - 1) b) by (try assumption; lia).
      apply Hmin. lia. }
    rewrite sqn_spec_Z by (try assumption; lia).
    destruct (ts_step x y b g r m Hy Hb Hgr Hm Hyy Hgo Hbm Hbm1) as (A & B & C).
    apply IH; try assumption; try (apply fm_range; assumption); lia.
Qed.

(* prologue of Sqrt *)
Lemma prologue x :
  0 <= x < p ->
  let w := powmod x sqrtExp p in
  let y := fm p x w in
  let b := fm p w y in
  (y * y) mod p = (x * b) mod p /\
  sqn p (Z.to_nat (e - 1)) b = (x ^ ((p - 1) / 2)) mod p.
Proof.
  intros Hx w y b.
  pose proof p_gt2 as Hp2. assert (Hp0 : 0 < p) by lia.
  pose proof sqrtExp_nonneg as HE.
  assert (Ew : w = (x ^ sqrtExp) mod p) by (apply powmod_spec; assumption).
  assert (Eb : b = (x ^ s) mod p).
  { unfold b, y, fm. rewrite Z.mul_mod_idemp_r by lia.
    rewrite (Z.mul_comm x w), Z.mul_assoc.
    rewrite Zmult_mod. rewrite <- (Zmult_mod w w).
    rewrite Ew. rewrite <- Zmult_mod. rewrite Z.mul_mod_idemp_l by lia.
    rewrite s_split at 1...
Abort.
End TS.
End NT.

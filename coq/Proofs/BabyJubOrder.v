(* The full BabyJubJub group has order 8 l: an explicit point G0 = B8 + T8 of
   exact order 8 l (by computation through the proven-correct model
   multiplication), and the counting argument of BabyJubCount.v (8 l > q, and
   the curve has at most 2 q points).  Hence Order * P = identity for every
   point of the curve (last clause of C04). *)
From Coq Require Import ZArith Znumtheory Lia Bool.
From Verif Require Import Lib.Params Lib.Powmod Lib.NumberTheory Lib.Primes Spec.Edwards.
From Verif Require Import Model.BabyJubCore Model.BabyJub.
From Verif Require Import Proofs.EdwardsField Proofs.EdwardsGroup
  Proofs.BabyJubSmul Proofs.BabyJubGroup Proofs.BabyJubCoreProofs Proofs.BabyJubModel
  Proofs.BabyJubCount.
Local Open Scope Z_scope.

(* G0 = B8 + T8, T8 of order 8 *)
Definition G0 : point :=
  (5845166579569200966972132609691639579952028101807358156045022714880907396391,
   1537524460233373063899210559633531107051259285422134200370172707854921979963).

(* ---- facts by computation ---- *)

Lemma Mul_4l_G0 : Mul (4 * l) G0 = (0, q - 1).
Proof. vm_compute. reflexivity. Qed.

Lemma Mul_2_minus1 : Mul 2 (0, q - 1) = (0, 1).
Proof. vm_compute. reflexivity. Qed.

Lemma Mul_8_G0 : fst (Mul 8 G0) =? 0 = false.
Proof. vm_compute. reflexivity. Qed.

Lemma G0_InCurve : InCurve G0 = true.
Proof. vm_compute. reflexivity. Qed.

Lemma minus1_InCurve : InCurve (0, q - 1) = true.
Proof. vm_compute. reflexivity. Qed.

Lemma G0_can : canonical q G0.
Proof. cbv [canonical G0 q]. lia. Qed.

Lemma order_gt_q : q < order.
Proof. reflexivity. Qed.

Lemma l_pos' : 0 < l. Proof. reflexivity. Qed.

Local Opaque q l.

Local Notation oc := (on_curve q ca cd).
Local Notation can := (canonical q).
Local Notation add := (ed_add q ca cd).
Local Notation smul := (Edwards.smul q ca cd).

Lemma G0_oc : oc G0.
Proof. unfold G0. apply InCurve_iff. exact G0_InCurve. Qed.

Lemma smul_4l_G0 : smul (4 * l) G0 = (0, q - 1).
Proof.
  pose proof l_pos'.
  rewrite <- (Mul_correct (4 * l) G0) by (lia || exact G0_oc || exact G0_can).
  exact Mul_4l_G0.
Qed.

Lemma smul_4l_G0_nz : smul (4 * l) G0 <> ed_zero.
Proof.
  rewrite smul_4l_G0. unfold ed_zero. intros E. pose proof q_gt_2.
  apply (f_equal snd) in E. cbn [snd] in E. lia.
Qed.

Lemma smul_order_G0 : smul order G0 = ed_zero.
Proof.
  pose proof l_pos'. pose proof q_gt_2.
  replace order with (2 * (4 * l)) by (unfold order; ring).
  rewrite (bj_smul_mul 2 (4 * l) G0) by (lia || exact G0_oc).
  rewrite smul_4l_G0.
  assert (Hoc : oc (0, q - 1)) by (apply InCurve_iff; exact minus1_InCurve).
  assert (Hcan : can (0, q - 1)) by (cbn [canonical]; lia).
  rewrite <- (Mul_correct 2 (0, q - 1)) by (lia || assumption).
  exact Mul_2_minus1.
Qed.

Lemma smul_8_G0_nz : smul 8 G0 <> ed_zero.
Proof.
  rewrite <- (Mul_correct 8 G0) by (lia || exact G0_oc || exact G0_can).
  intros E. pose proof Mul_8_G0 as H. rewrite E in H. discriminate H.
Qed.

Lemma divides_8_lt : forall m, 0 < m < 8 -> (m | 8) -> (m | 4).
Proof.
  intros m Hm [c Hc].
  assert (Hcases : m = 1 \/ m = 2 \/ m = 3 \/ m = 4 \/ m = 5 \/ m = 6 \/ m = 7) by lia.
  destruct Hcases as [-> | [-> | [-> | [-> | [-> | [-> | ->]]]]]]; try lia.
  - exists 4. reflexivity.
  - exists 2. reflexivity.
  - exists 1. reflexivity.
Qed.

(* G0 has order exactly 8 l *)
Theorem G0_order_exact : forall k, 0 < k < order -> smul k G0 <> ed_zero.
Proof.
  intros k Hk E.
  pose proof l_pos' as Hl. pose proof order_nonneg as Ho.
  assert (Hord : order = 8 * l) by reflexivity.
  assert (Hg0 : smul (Z.gcd k order) G0 = ed_zero).
  { apply (smul_gcd_kill q ca cd q_prime q_gt_2 bj_a_square bj_d_nonsquare);
      try lia; [ exact G0_oc | exact E | exact smul_order_G0 ]. }
  set (g := Z.gcd k order) in *.
  assert (Hgk : (g | k)) by apply Z.gcd_divide_l.
  assert (Hgo : (g | order)) by apply Z.gcd_divide_r.
  assert (Hgpos : 0 < g).
  { pose proof (Z.gcd_nonneg k order). fold g in H.
    destruct (Z.eq_dec g 0) as [E0 | E0]; [ | lia ].
    unfold g in E0. apply Z.gcd_eq_0_l in E0. lia. }
  assert (Hgle : g <= k) by (apply Z.divide_pos_le; [ lia | exact Hgk ]).
  destruct (Zdivide_dec l g) as [Hlg | Hlg].
  - (* g = m l with m | 8, m < 8: then g | 4 l *)
    destruct Hlg as [m Hm].
    assert (Hm8 : (m | 8)).
    { apply (Z.mul_divide_cancel_r m 8 l); [ lia | ]. rewrite <- Hm, <- Hord. exact Hgo. }
    assert (Hmpos : 0 < m).
    { destruct (Z.le_gt_cases m 0) as [Hle | Hgt]; [ | exact Hgt ].
      pose proof (Z.mul_nonpos_nonneg m l Hle ltac:(lia)). lia. }
    assert (Hmlt : m < 8).
    { destruct (Z.lt_ge_cases m 8) as [Hlt | Hge]; [ exact Hlt | ].
      pose proof (Z.mul_le_mono_nonneg_r 8 m l ltac:(lia) Hge). lia. }
    destruct (divides_8_lt m ltac:(lia) Hm8) as [c Hc].
    apply smul_4l_G0_nz.
    replace (4 * l) with (c * g) by (rewrite Hm, Hc; ring).
    assert (Hc0 : 0 <= c).
    { destruct (Z.lt_ge_cases c 0) as [Hlt | Hge]; [ | exact Hge ].
      pose proof (Z.mul_nonpos_nonneg c m ltac:(lia) ltac:(lia)). lia. }
    apply (smul_kill_mul q ca cd q_prime q_gt_2 bj_a_square bj_d_nonsquare);
      try lia; [ exact G0_oc | exact Hg0 ].
  - (* g coprime to l: g | 8 *)
    assert (Hrel : rel_prime l g) by (apply prime_rel_prime; [ exact l_prime | exact Hlg ]).
    assert (Hg8 : (g | 8)).
    { apply (Z.gauss g l 8).
      - rewrite Z.mul_comm, <- Hord. exact Hgo.
      - apply Zgcd_1_rel_prime. apply rel_prime_sym. exact Hrel. }
    destruct Hg8 as [c Hc].
    apply smul_8_G0_nz. rewrite Hc.
    assert (Hc0 : 0 <= c).
    { destruct (Z.lt_ge_cases c 0) as [Hlt | Hge]; [ | exact Hge ].
      pose proof (Z.mul_nonpos_nonneg c g ltac:(lia) ltac:(lia)). lia. }
    apply (smul_kill_mul q ca cd q_prime q_gt_2 bj_a_square bj_d_nonsquare);
      try lia; [ exact G0_oc | exact Hg0 ].
Qed.

(* Order * P = identity for every point of the curve *)
Theorem order_kills_all : forall P, oc P -> can P -> smul order P = ed_zero.
Proof.
  exact (cyclic_everything q ca cd q_prime q_gt_2 bj_a_square bj_d_nonsquare
           G0 order G0_oc order_gt_q smul_order_G0 G0_order_exact).
Qed.

(* canonicity is not needed: smul only sees residues *)
Corollary order_kills_all_gen : forall P, oc P -> smul order P = ed_zero.
Proof.
  intros [x y] HP. rewrite <- bj_smul_mod.
  apply order_kills_all.
  - apply (oc_mod q ca cd). exact HP.
  - cbn [canonical]. pose proof q_pos. split; apply Z.mod_pos_bound; assumption.
Qed.

Corollary Mul_Order_kills_all : forall P, oc P -> Mul Order P = (0, 1).
Proof.
  intros P HP. rewrite gen_Order.
  rewrite (Mul_correct_gen order P order_nonneg HP).
  apply order_kills_all_gen. exact HP.
Qed.

(* every curve point is a multiple of G0: the group is cyclic of order 8 l *)
Print Assumptions G0_order_exact.
Print Assumptions order_kills_all.
Print Assumptions Mul_Order_kills_all.

(* C09, part 1: the generic one-limb routines of /repo/ffg compute exact
   arithmetic modulo pg = 2^64 - 2^32 + 1 on ALL canonical operands.

   The model (Model/FfgLimbs.v) is functional: a routine maps operand values
   to the value stored through the destination pointer, so the "destination
   aliases an operand" clause of C09 is vacuous here (the Go routines read
   every operand before their first store). *)
From Coq Require Import ZArith List Lia Zdiv Zpow_facts Morphisms Setoid.
From Verif Require Import Lib.Params Lib.Words Lib.Powmod Model.FfgLimbs.
From Verif Require Gen.FfgConsts.
Import ListNotations.
Local Open Scope Z_scope.
Set Default Timeout 60.

Local Ltac Zify.zify_post_hook ::= Z.div_mod_to_equations.

(* ------------------------------------------------------------------ *)
(** * The generated constants are the expected ones *)

Lemma consts_ok :
  qg = pg /\ FfgConsts.modulus = pg /\ modulus = pg
  /\ (pg * qInvNeg) mod W = W - 1
  /\ rSquare = (W * W) mod pg
  /\ one = W mod pg
  /\ FfgConsts.qElement = [qg]
  /\ FfgConsts.rSquare = [rSquare]
  /\ FfgConsts.biglits_mulGeneric = [qInvNeg; qg; qg; qg; qg]
  /\ FfgConsts.biglits_fromMontGeneric = [qInvNeg; qg; qg; qg]
  /\ FfgConsts.biglits_addGeneric = [qg; qg; qg]
  /\ FfgConsts.biglits_doubleGeneric = [qg; qg; qg]
  /\ FfgConsts.biglits_subGeneric = [qg]
  /\ FfgConsts.biglits_negGeneric = [qg]
  /\ FfgConsts.biglits_reduceGeneric = [qg; qg]
  /\ FfgConsts.biglits_Element_SetOne = [one]
  /\ FfgConsts.biglits_Element_Halve = []
  /\ FfgConsts.biglits_Element_Inverse = []
  /\ FfgConsts.biglits_mulByConstant = []
  /\ FfgConsts.biglits_Element_Exp = []
  /\ FfgConsts.biglits_madd0 = [].
Proof. vm_compute. repeat split. Qed.
Print Assumptions consts_ok.


Lemma qg_eq : qg = pg.
Proof. reflexivity. Qed.
Lemma modulus_eq : modulus = pg.
Proof. reflexivity. Qed.
Lemma qInvNeg_val : qInvNeg = 18446744069414584319.
Proof. reflexivity. Qed.
Lemma rSquare_val : rSquare = 18446744065119617025.
Proof. reflexivity. Qed.
Lemma one_val : one = 4294967295.
Proof. reflexivity. Qed.
Lemma Rinv_val : Rinv = 18446744065119617025.
Proof. vm_compute. reflexivity. Qed.
Lemma Rinv_spec : (W * Rinv) mod pg = 1.
Proof. vm_compute. reflexivity. Qed.
Lemma pg_pos : 0 < pg.
Proof. reflexivity. Qed.
Lemma pg_lt_W : pg < W.
Proof. reflexivity. Qed.

Global Opaque qg qInvNeg rSquare one modulus Rinv.

Lemma canon_u64 : forall z, canon z -> u64 z.
Proof. unfold canon, u64, pg, W. intros z Hz. lia. Qed.

Lemma canon_rSquare : canon rSquare.
Proof. rewrite rSquare_val. unfold canon, pg. lia. Qed.
Lemma canon_one : canon one.
Proof. rewrite one_val. unfold canon, pg. lia. Qed.
Lemma canon_0 : canon 0.
Proof. unfold canon, pg. lia. Qed.
Lemma canon_mod : forall a, canon (a mod pg).
Proof. intros a. unfold canon. apply Z.mod_pos_bound. exact pg_pos. Qed.

(* ------------------------------------------------------------------ *)
(** * Congruence modulo pg as a setoid *)

Definition eqp (a b : Z) : Prop := a mod pg = b mod pg.
Infix "==p" := eqp (at level 70).

#[global] Instance eqp_equiv : Equivalence eqp := eqm_setoid pg.
#[global] Instance eqp_add : Proper (eqp ==> eqp ==> eqp) Z.add := Zplus_eqm pg.
#[global] Instance eqp_sub : Proper (eqp ==> eqp ==> eqp) Z.sub := Zminus_eqm pg.
#[global] Instance eqp_mul : Proper (eqp ==> eqp ==> eqp) Z.mul := Zmult_eqm pg.
#[global] Instance eqp_opp : Proper (eqp ==> eqp) Z.opp := Zopp_eqm pg.

Lemma eqp_mod : forall a, a mod pg ==p a.
Proof. intros a. exact (Zmod_eqm pg a). Qed.

Lemma eqp_pg : pg ==p 0.
Proof. unfold eqp. rewrite Z.mod_same by (unfold pg; lia). reflexivity. Qed.

Lemma eqp_WRinv : W * Rinv ==p 1.
Proof. unfold eqp. rewrite Rinv_spec. reflexivity. Qed.

Lemma eqp_pow : forall a b e, a ==p b -> a ^ e ==p b ^ e.
Proof.
  intros a b e H. unfold eqp in *.
  rewrite (Zpower_mod a e pg pg_pos), (Zpower_mod b e pg pg_pos), H. reflexivity.
Qed.

Lemma eqp_canon_eq : forall a b, canon a -> canon b -> a ==p b -> a = b.
Proof.
  unfold canon, eqp. intros a b Ha Hb H.
  rewrite (Z.mod_small a pg Ha), (Z.mod_small b pg Hb) in H. exact H.
Qed.

Lemma eqp_mod_eq : forall a b, canon a -> a ==p b -> a = b mod pg.
Proof.
  intros a b Ha H. apply eqp_canon_eq; [ exact Ha | apply canon_mod | ].
  rewrite eqp_mod. exact H.
Qed.

(* ------------------------------------------------------------------ *)
(** * mval: the field value of a Montgomery-form element *)

Lemma mval_eqp : forall z, mval z ==p z * Rinv.
Proof. intros z. unfold mval. apply eqp_mod. Qed.

Lemma mval_canon : forall z, canon (mval z).
Proof. intros z. unfold mval. apply canon_mod. Qed.

Lemma mval_W : forall z, mval z * W ==p z.
Proof.
  intros z. rewrite mval_eqp.
  replace (z * Rinv * W) with (z * (W * Rinv)) by ring.
  rewrite eqp_WRinv. rewrite Z.mul_1_r. reflexivity.
Qed.

(* r*W = a (mod pg)  ->  r = a*Rinv (mod pg) *)
Lemma eqp_W_cancel : forall r a, r * W ==p a -> r ==p a * Rinv.
Proof.
  intros r a H. rewrite <- H.
  replace (r * W * Rinv) with (r * (W * Rinv)) by ring.
  rewrite eqp_WRinv. rewrite Z.mul_1_r. reflexivity.
Qed.

Lemma mval_inj : forall a b, canon a -> canon b -> mval a = mval b -> a = b.
Proof.
  intros a b Ha Hb H. apply eqp_canon_eq; [ exact Ha | exact Hb | ].
  rewrite <- (mval_W a), <- (mval_W b), H. reflexivity.
Qed.

Lemma mval_0 : mval 0 = 0.
Proof. unfold mval. rewrite Z.mul_0_l. apply Z.mod_0_l. unfold pg. lia. Qed.

Lemma mval_one : mval one = 1.
Proof. vm_compute. reflexivity. Qed.

Lemma mval_zero_iff : forall z, canon z -> (mval z = 0 <-> z = 0).
Proof.
  intros z Hz. split.
  - intros H. apply mval_inj; [ exact Hz | exact canon_0 | ]. rewrite mval_0. exact H.
  - intros ->. exact mval_0.
Qed.

(* mval of a canonical representative of a sum / difference / opposite *)
Lemma mval_mod : forall a, mval (a mod pg) = mval a.
Proof.
  intros a. unfold mval. fold (eqp ((a mod pg) * Rinv) (a * Rinv)).
  rewrite eqp_mod. reflexivity.
Qed.

Lemma mval_add_mod : forall x y, mval ((x + y) mod pg) = (mval x + mval y) mod pg.
Proof.
  intros x y. rewrite mval_mod.
  apply eqp_mod_eq; [ apply mval_canon | ].
  rewrite !mval_eqp. ring_simplify. reflexivity.
Qed.

Lemma mval_sub_mod : forall x y, mval ((x - y) mod pg) = (mval x - mval y) mod pg.
Proof.
  intros x y. rewrite mval_mod.
  apply eqp_mod_eq; [ apply mval_canon | ].
  rewrite !mval_eqp. ring_simplify. reflexivity.
Qed.

Lemma mval_opp_mod : forall x, mval ((- x) mod pg) = (- mval x) mod pg.
Proof.
  intros x. rewrite mval_mod.
  apply eqp_mod_eq; [ apply mval_canon | ].
  rewrite !mval_eqp. ring_simplify. reflexivity.
Qed.

(* ------------------------------------------------------------------ *)
(** * Word-level contracts (math/bits) *)

Lemma add64_spec : forall x y c s co, u64 x -> u64 y -> 0 <= c <= 1 ->
  add64 x y c = (s, co) ->
  co * W + s = x + y + c /\ u64 s /\ 0 <= co <= 1.
Proof.
  unfold add64, u64, W. intros x y c s co Hx Hy Hc H. inversion H; subst; clear H. lia.
Qed.

Lemma sub64_spec : forall x y b d bo, u64 x -> u64 y -> 0 <= b <= 1 ->
  sub64 x y b = (d, bo) ->
  d = x - y - b + bo * W /\ u64 d /\ 0 <= bo <= 1.
Proof.
  unfold sub64, u64, W. intros x y b d bo Hx Hy Hb H. inversion H; subst; clear H.
  destruct (Z.ltb_spec (x - y - b) 0); lia.
Qed.

Lemma mul_bound : forall a b A B, 0 <= a <= A -> 0 <= b <= B -> 0 <= a * b <= A * B.
Proof.
  intros a b A B Ha Hb. split.
  - apply Z.mul_nonneg_nonneg; lia.
  - apply Z.mul_le_mono_nonneg; lia.
Qed.

Lemma mul64_spec : forall x y hi lo, u64 x -> u64 y ->
  mul64 x y = (hi, lo) ->
  hi * W + lo = x * y /\ u64 lo /\ 0 <= hi <= W - 2.
Proof.
  unfold mul64, u64. intros x y hi lo Hx Hy H. inversion H; subst; clear H.
  pose proof (mul_bound x y (W - 1) (W - 1) ltac:(lia) ltac:(lia)) as HT.
  remember (x * y) as T eqn:ET. clear ET. unfold W in *. lia.
Qed.

(* madd0 hi = a*b + c (discards lo bits) *)
Lemma madd0_spec : forall a b c, u64 a -> u64 b -> u64 c ->
  madd0 a b c = (a * b + c) / W.
Proof.
  unfold madd0, mul64, add64, u64. intros a b c Ha Hb Hc.
  pose proof (mul_bound a b (W - 1) (W - 1) ltac:(lia) ltac:(lia)) as HT.
  remember (a * b) as T eqn:ET. clear ET. unfold W in *. lia.
Qed.

(* ------------------------------------------------------------------ *)
(** * Montgomery reduction step: m = t0 * n' mod W makes m*q + t0 divisible by W *)

Lemma mont_m_spec : forall t0, u64 t0 ->
  u64 (wmul t0 qInvNeg) /\ (wmul t0 qInvNeg * pg + t0) mod W = 0.
Proof.
  intros t0 Ht0. unfold wmul. split.
  - unfold u64. apply Z.mod_pos_bound. unfold W. lia.
  - rewrite <- Z.add_mod_idemp_l by (unfold W; lia).
    rewrite Z.mul_mod_idemp_l by (unfold W; lia).
    rewrite Z.add_mod_idemp_l by (unfold W; lia).
    replace (t0 * qInvNeg * pg + t0) with (t0 * (pg * qInvNeg + 1)) by ring.
    rewrite <- Z.mul_mod_idemp_r by (unfold W; lia).
    replace ((pg * qInvNeg + 1) mod W) with 0 by (rewrite qInvNeg_val; reflexivity).
    rewrite Z.mul_0_r. reflexivity.
Qed.

(* the reduced quotient C = (m*q + t0)/W, characterised linearly *)
Lemma mont_C_spec : forall t0, u64 t0 ->
  exists m, u64 m /\ wmul t0 qInvNeg = m /\
            madd0 m qg t0 * W = m * pg + t0.
Proof.
  intros t0 Ht0. destruct (mont_m_spec t0 Ht0) as [Hm Hdiv].
  exists (wmul t0 qInvNeg). split; [ exact Hm | ]. split; [ reflexivity | ].
  rewrite qg_eq. rewrite madd0_spec; [ | exact Hm | unfold u64, pg, W; lia | exact Ht0 ].
  remember (wmul t0 qInvNeg) as m eqn:Em. clear Em.
  unfold u64, W, pg in *. lia.
Qed.

(* ------------------------------------------------------------------ *)
(** * Multiplication *)

(* x may be ANY 64-bit word (SetUint64 / NewElementFromUint64 feed a raw,
   possibly >= q, word): the two-word intermediate (x*y + m*q)/W is < 2q as
   soon as y < q, which is all the overflow-word branch [t[1] != 0] needs. *)
Lemma eqmod_intro : forall a b k, a = b + k * pg -> a mod pg = b mod pg.
Proof. intros a b k ->. apply Z.mod_add. unfold pg. lia. Qed.

Local Ltac zl := unfold canon, u64, pg, W in *; lia.

(* the one-word Montgomery product, after the word-level contracts:
   U = (T + m*q)/W is the exact two-word intermediate *)
Lemma mont_core : forall T m C1 t0 C2,
  0 <= T <= (pg - 1) * (W - 1) -> T = C1 * W + t0 -> u64 t0 -> u64 m ->
  C2 * W = m * pg + t0 ->
  0 <= C1 < W /\ 0 <= C2 < W /\ 0 <= C1 + C2 < 2 * pg /\ (C1 + C2) * W = T + m * pg.
Proof. intros T m C1 t0 C2 HT HC1 Ht0 Hm HC2. zl. Qed.

Theorem mul_correct_u64 : forall x y, u64 x -> canon y ->
  canon (mulGeneric x y) /\ (mulGeneric x y * W) mod pg = (x * y) mod pg.
Proof.
  intros x y Hx Hy. unfold mulGeneric.
  cbv beta iota zeta delta [mul64].
  pose proof (mul_bound y x (pg - 1) (W - 1) ltac:(unfold canon in Hy; lia)
                ltac:(unfold u64 in Hx; lia)) as HT.
  rewrite (Z.mul_comm x y).
  remember (y * x) as T eqn:ET. clear ET x y Hx Hy.
  assert (Ht0 : u64 (T mod W)) by (unfold u64; apply Z.mod_pos_bound; unfold W; lia).
  destruct (mont_C_spec (T mod W) Ht0) as (m & Hm & -> & HC).
  remember (madd0 m qg (T mod W)) as C2 eqn:EC2. clear EC2.
  assert (HTdm : T = T / W * W + T mod W) by (unfold W; lia).
  remember (T / W) as C1 eqn:EC1. clear EC1.
  remember (T mod W) as t0 eqn:Et0. clear Et0.
  destruct (mont_core T m C1 t0 C2 HT HTdm Ht0 Hm HC) as (HC1 & HC2 & HU & HUW).
  rewrite qg_eq. cbv beta iota zeta delta [add64 sub64].
  replace (0 + C1 + 0) with C1 by ring.
  rewrite (Z.mod_small C1 W) by lia. rewrite (Z.div_small C1 W) by lia.
  replace (C1 + C2 + 0) with (C1 + C2) by ring.
  remember (C1 + C2) as U eqn:EU. clear EU HC HTdm HC1 HC2 Ht0 C1 C2 t0.
  destruct (Z_lt_le_dec U W) as [HW | HW].
  - (* no overflow word *)
    rewrite (Z.div_small U W) by lia. rewrite (Z.mod_small U W) by lia.
    change ((0 + 0 + 0) mod W) with 0. cbn [Z.eqb negb].
    Show.
    destruct (Z.ltb_spec U pg) as [E2 | E2]; cbn [negb].
    + split; [ zl | ]. apply (eqmod_intro _ _ m). lia.
    + rewrite Z.mod_small by zl. split; [ zl | ].
      apply (eqmod_intro _ _ (m - W)). lia.
  - (* overflow word set: U = W + t0', result t0' - q + W *)
    assert (Hd : U / W = 1 /\ U mod W = U - W) by zl.
    destruct Hd as [-> ->].
    change ((0 + 0 + 1) mod W) with 1. cbn [Z.eqb negb].
    replace ((U - W - pg - 0) mod W) with (U - pg) by zl.
    split; [ zl | ]. apply (eqmod_intro _ _ (m - W)). lia.
Qed.
Print Assumptions mul_correct_u64.

(* Part of the equality lemmas between the Gallina regenerated from the Go
   sources by tools/bigintgen (Gen/BigIntRoutines.v) and the hand-written models:
   babyjub point compression (PointCoordSign, PackSignY, UnpackSignY, Point.Compress, PointFromSignAndY, Point.Decompress, NewPoint).
   The lemmas are split over Proofs/BigIntEq*.v so that an edit of one Go
   function breaks only the file of that function (and the files that use its
   lemma); Proofs/BigIntEqAll.v exports all of them. *)
From Coq Require Import ZArith List Bool Lia.
From Verif Require Import Lib.Params Lib.Octets Spec.Edwards Model.Outcome Model.Utils
  Model.BabyJubCore Model.BabyJub Model.Eddsa.
From Verif Require Gen.CurveConsts Model.Mimc7 Model.Poseidon.
From Verif Require Import Gen.BigIntRoutines.
From Verif Require Import Proofs.BigIntEqUtils.
Import ListNotations.
Local Open Scope Z_scope.

(* The external functions are never unfolded by the proofs below; keeping them
   opaque for the tactics makes a FAILING comparison (after an edit of the Go
   code) fail fast instead of normalising Fermat inversions or Tonelli-Shanks
   on symbolic arguments. *)
Local Opaque BabyJub.modinv BabyJub.modsqrt BabyJub.Mul BabyJub.Affine BabyJub.Projective
  Mimc7.MIMC7Hash HadesOpt.perm_opt Z.mul Z.add Z.sub Z.modulo Z.shiftr Z.shiftl Z.land Z.lor
  Z.ltb Z.gtb Z.geb Z.eqb.

Lemma gen_babyjub_NewPoint_eq : babyjub_NewPoint = (0, 1).
Proof. reflexivity. Qed.

Lemma gen_babyjub_PointCoordSign_eq : forall c,
  babyjub_PointCoordSign c = BabyJub.PointCoordSign c.
Proof. reflexivity. Qed.

Lemma gen_babyjub_PointCoordSign_fn : babyjub_PointCoordSign = BabyJub.PointCoordSign.
Proof. reflexivity. Qed.

Lemma gen_babyjub_PackSignY_eq : forall sign y,
  babyjub_PackSignY sign y = BabyJub.PackSignY sign y.
Proof.
  intros. unfold babyjub_PackSignY, BabyJub.PackSignY.
  rewrite gen_utils_BigIntLEBytes_fn. same.
Qed.

Lemma gen_babyjub_UnpackSignY_eq : forall leBuf,
  babyjub_UnpackSignY leBuf = BabyJub.UnpackSignY leBuf.
Proof.
  intros leBuf. unfold babyjub_UnpackSignY, BabyJub.UnpackSignY.
  rewrite gen_utils_SetBigIntFromLEBytes_fn.
  destruct (negb (Z.land (nth 31 leBuf 0) 128 =? 0)); reflexivity.
Qed.

Lemma gen_babyjub_Point_Compress_eq : forall p,
  babyjub_Point_Compress p = BabyJub.Compress p.
Proof.
  intros [x y]. unfold babyjub_Point_Compress, BabyJub.Compress.
  cbv zeta. cbn [fst snd]. rewrite gen_babyjub_PackSignY_eq. reflexivity.
Qed.

Lemma gen_babyjub_PointFromSignAndY_eq : forall sign y,
  babyjub_PointFromSignAndY sign y = BabyJub.PointFromSignAndY sign y.
Proof.
  intros. unfold babyjub_PointFromSignAndY, BabyJub.PointFromSignAndY.
  rewrite gen_babyjub_PointCoordSign_fn. unfold BabyJub.Q.
  replace (y >=? CurveConsts.Q) with (negb (y <? CurveConsts.Q)) by (rewrite Z.geb_leb, Z.leb_antisym; reflexivity).
  same.
Qed.

Lemma gen_babyjub_Point_Decompress_eq : forall leBuf,
  babyjub_Point_Decompress leBuf = BabyJub.Decompress leBuf.
Proof.
  intros leBuf. unfold babyjub_Point_Decompress, BabyJub.Decompress.
  rewrite gen_babyjub_UnpackSignY_eq.
  destruct (BabyJub.UnpackSignY leBuf) as [sign y].
  apply gen_babyjub_PointFromSignAndY_eq.
Qed.

(* ---- every lemma above is closed under the global context ---------------- *)
Print Assumptions gen_babyjub_NewPoint_eq.
Print Assumptions gen_babyjub_PointCoordSign_eq.
Print Assumptions gen_babyjub_PackSignY_eq.
Print Assumptions gen_babyjub_UnpackSignY_eq.
Print Assumptions gen_babyjub_Point_Compress_eq.
Print Assumptions gen_babyjub_PointFromSignAndY_eq.
Print Assumptions gen_babyjub_Point_Decompress_eq.

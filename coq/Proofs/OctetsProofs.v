(* Facts about the byte-string library Lib/Octets.v: little/big-endian
   readings and writings are mutually inverse, the contract of big.Int.Bytes
   ([min_be_bytes]) and of encoding/hex ([hex_encode] / [hex_decode]). *)
From Coq Require Import ZArith List Bool Lia Arith.
From Verif Require Import Lib.Octets.
Import ListNotations.
Local Open Scope Z_scope.

(* ------------------------------------------------------------------ *)
(** * Powers of 256 *)

Lemma pow256_succ n : 256 ^ Z.of_nat (S n) = 256 * 256 ^ Z.of_nat n.
Proof. rewrite Nat2Z.inj_succ, Z.pow_succ_r by lia. reflexivity. Qed.

Lemma pow256_pos n : 0 < 256 ^ Z.of_nat n.
Proof. apply Z.pow_pos_nonneg; lia. Qed.

Lemma pow256_add n m :
  256 ^ Z.of_nat (n + m) = 256 ^ Z.of_nat n * 256 ^ Z.of_nat m.
Proof. rewrite Nat2Z.inj_add, Z.pow_add_r by lia. reflexivity. Qed.

Lemma pow256_pow2 k : 0 <= k -> 256 ^ k = 2 ^ (8 * k).
Proof. intros Hk. rewrite Z.pow_mul_r by lia. reflexivity. Qed.

Lemma pow256_32 : 256 ^ Z.of_nat 32 = 2 ^ 256.
Proof. reflexivity. Qed.

(* ------------------------------------------------------------------ *)
(** * is_byte *)

Lemma is_byteb_spec b : is_byteb b = true <-> is_byte b.
Proof.
  unfold is_byteb, is_byte. rewrite andb_true_iff, Z.leb_le, Z.ltb_lt. tauto.
Qed.

Lemma Forall_is_byte_app a b :
  Forall is_byte a -> Forall is_byte b -> Forall is_byte (a ++ b).
Proof. intros Ha Hb. apply Forall_app. split; assumption. Qed.

Lemma Forall_is_byte_rev a : Forall is_byte a -> Forall is_byte (rev a).
Proof. apply Forall_rev. Qed.

Lemma Forall_is_byte_repeat0 n : Forall is_byte (repeat 0 n).
Proof.
  induction n as [|n IH]; cbn [repeat]; constructor; [unfold is_byte; lia|exact IH].
Qed.

Lemma Forall_is_byte_firstn n : forall a, Forall is_byte a -> Forall is_byte (firstn n a).
Proof.
  induction n as [|n IH]; intros a Ha; cbn [firstn]; [constructor|].
  destruct Ha as [|x r Hx Hr]; constructor; [exact Hx|apply IH; exact Hr].
Qed.

Lemma Forall_is_byte_skipn n : forall a, Forall is_byte a -> Forall is_byte (skipn n a).
Proof.
  induction n as [|n IH]; intros a Ha; cbn [skipn]; [exact Ha|].
  destruct Ha as [|x r Hx Hr]; [constructor|apply IH; exact Hr].
Qed.

(* ------------------------------------------------------------------ *)
(** * le_val / le_bytes *)

Lemma le_bytes_length n : forall v, length (le_bytes n v) = n.
Proof.
  induction n as [|n IH]; intros v; cbn [le_bytes length]; [reflexivity|].
  rewrite IH. reflexivity.
Qed.

Lemma le_bytes_bytes n : forall v, Forall is_byte (le_bytes n v).
Proof.
  induction n as [|n IH]; intros v; cbn [le_bytes]; constructor; [|apply IH].
  unfold is_byte. apply Z.mod_pos_bound. lia.
Qed.

(* the reading of the n-byte writing is the value reduced mod 256^n
   (no sign hypothesis is needed with the floor convention of Z) *)
Theorem le_val_le_bytes n : forall v, le_val (le_bytes n v) = v mod 256 ^ Z.of_nat n.
Proof.
  induction n as [|n IH]; intros v.
  - cbn [le_bytes le_val]. change (Z.of_nat 0) with 0.
    rewrite Z.pow_0_r, Z.mod_1_r. reflexivity.
  - cbn [le_bytes le_val]. rewrite IH, pow256_succ.
    rewrite Z.rem_mul_r by (pose proof (pow256_pos n); lia). reflexivity.
Qed.

Corollary le_val_le_bytes_small n v :
  0 <= v < 256 ^ Z.of_nat n -> le_val (le_bytes n v) = v.
Proof. intros Hv. rewrite le_val_le_bytes. apply Z.mod_small. exact Hv. Qed.

Theorem le_bytes_le_val bs : Forall is_byte bs -> le_bytes (length bs) (le_val bs) = bs.
Proof.
  induction 1 as [|b r Hb Hr IH]; cbn [length le_bytes le_val]; [reflexivity|].
  unfold is_byte in Hb.
  assert (E1 : (b + 256 * le_val r) mod 256 = b).
  { rewrite (Z.mul_comm 256), Z.mod_add by lia. apply Z.mod_small; lia. }
  assert (E2 : (b + 256 * le_val r) / 256 = le_val r).
  { rewrite (Z.mul_comm 256), Z.div_add by lia.
    rewrite Z.div_small by lia. lia. }
  rewrite E1, E2, IH. reflexivity.
Qed.

Theorem le_val_bound bs : Forall is_byte bs -> 0 <= le_val bs < 256 ^ Z.of_nat (length bs).
Proof.
  induction 1 as [|b r Hb Hr IH]; cbn [length le_val].
  - change (Z.of_nat 0) with 0. rewrite Z.pow_0_r. lia.
  - rewrite pow256_succ. unfold is_byte in Hb. lia.
Qed.

Lemma le_val_app a : forall b,
  le_val (a ++ b) = le_val a + 256 ^ Z.of_nat (length a) * le_val b.
Proof.
  induction a as [|x a IH]; intros b; cbn [app le_val length].
  - change (Z.of_nat 0) with 0. rewrite Z.pow_0_r. lia.
  - rewrite IH, pow256_succ. ring.
Qed.

Lemma le_val_repeat0 n : le_val (repeat 0 n) = 0.
Proof. induction n as [|n IH]; cbn [repeat le_val]; [reflexivity|]. rewrite IH. reflexivity. Qed.

Lemma le_bytes_zero n : le_bytes n 0 = repeat 0 n.
Proof.
  induction n as [|n IH]; cbn [le_bytes repeat]; [reflexivity|].
  rewrite Z.mod_0_l, Z.div_0_l, IH by lia. reflexivity.
Qed.

Lemma le_bytes_app n : forall m v,
  le_bytes (n + m) v = le_bytes n v ++ le_bytes m (v / 256 ^ Z.of_nat n).
Proof.
  induction n as [|n IH]; intros m v.
  - cbn [Nat.add le_bytes app]. change (Z.of_nat 0) with 0.
    rewrite Z.pow_0_r, Z.div_1_r. reflexivity.
  - cbn [Nat.add le_bytes app]. rewrite IH, pow256_succ.
    rewrite Z.div_div by (pose proof (pow256_pos n); lia). reflexivity.
Qed.

Lemma le_bytes_snoc n v :
  le_bytes (S n) v = le_bytes n v ++ [(v / 256 ^ Z.of_nat n) mod 256].
Proof.
  replace (S n) with (n + 1)%nat by lia. rewrite le_bytes_app. reflexivity.
Qed.

Lemma le_bytes_app_zeros n m v :
  0 <= v < 256 ^ Z.of_nat n -> le_bytes (n + m) v = le_bytes n v ++ repeat 0 m.
Proof.
  intros Hv. rewrite le_bytes_app, Z.div_small by exact Hv.
  rewrite le_bytes_zero. reflexivity.
Qed.

Lemma firstn_le_bytes n m v : firstn n (le_bytes (n + m) v) = le_bytes n v.
Proof.
  rewrite le_bytes_app.
  rewrite <- (le_bytes_length n v) at 1. rewrite firstn_app.
  rewrite Nat.sub_diag, firstn_O, app_nil_r. apply firstn_all.
Qed.

Lemma skipn_le_bytes n m v :
  skipn n (le_bytes (n + m) v) = le_bytes m (v / 256 ^ Z.of_nat n).
Proof.
  rewrite le_bytes_app.
  rewrite <- (le_bytes_length n v) at 1. rewrite skipn_app.
  rewrite Nat.sub_diag, skipn_all. reflexivity.
Qed.

(* le_bytes n only depends on the value mod 256^n *)
Lemma le_bytes_mod n v : le_bytes n (v mod 256 ^ Z.of_nat n) = le_bytes n v.
Proof.
  rewrite <- le_val_le_bytes.
  rewrite <- (le_bytes_length n v) at 1.
  apply le_bytes_le_val. apply le_bytes_bytes.
Qed.

Lemma le_bytes_congr n v w :
  v mod 256 ^ Z.of_nat n = w mod 256 ^ Z.of_nat n -> le_bytes n v = le_bytes n w.
Proof. intros E. rewrite <- (le_bytes_mod n v), E. apply le_bytes_mod. Qed.

(* two byte strings of the same length with the same reading are equal *)
Lemma le_val_inj a b :
  Forall is_byte a -> Forall is_byte b -> length a = length b ->
  le_val a = le_val b -> a = b.
Proof.
  intros Ha Hb Hl E.
  rewrite <- (le_bytes_le_val a Ha), <- (le_bytes_le_val b Hb), Hl, E. reflexivity.
Qed.

Lemma nth_le_bytes n : forall i v, (i < n)%nat ->
  nth i (le_bytes n v) 0 = (v / 256 ^ Z.of_nat i) mod 256.
Proof.
  induction n as [|n IH]; intros i v Hi; [lia|].
  cbn [le_bytes]. destruct i as [|i]; cbn [nth].
  - change (Z.of_nat 0) with 0. rewrite Z.pow_0_r, Z.div_1_r. reflexivity.
  - rewrite IH by lia. rewrite pow256_succ.
    rewrite Z.div_div by (pose proof (pow256_pos i); lia). reflexivity.
Qed.

(* ------------------------------------------------------------------ *)
(** * be_val / be_bytes *)

Lemma be_bytes_length n v : length (be_bytes n v) = n.
Proof. unfold be_bytes. rewrite rev_length. apply le_bytes_length. Qed.

Lemma be_bytes_bytes n v : Forall is_byte (be_bytes n v).
Proof. unfold be_bytes. apply Forall_rev. apply le_bytes_bytes. Qed.

Theorem be_val_be_bytes n v : be_val (be_bytes n v) = v mod 256 ^ Z.of_nat n.
Proof. unfold be_val, be_bytes. rewrite rev_involutive. apply le_val_le_bytes. Qed.

Theorem be_bytes_be_val bs : Forall is_byte bs -> be_bytes (length bs) (be_val bs) = bs.
Proof.
  intros Hb. unfold be_val, be_bytes.
  rewrite <- (rev_length bs). rewrite le_bytes_le_val by (apply Forall_rev; exact Hb).
  apply rev_involutive.
Qed.

Theorem be_val_bound bs : Forall is_byte bs -> 0 <= be_val bs < 256 ^ Z.of_nat (length bs).
Proof.
  intros Hb. unfold be_val. rewrite <- (rev_length bs).
  apply le_val_bound. apply Forall_rev. exact Hb.
Qed.

Lemma be_val_rev bs : be_val (rev bs) = le_val bs.
Proof. unfold be_val. rewrite rev_involutive. reflexivity. Qed.

(* ------------------------------------------------------------------ *)
(** * min_be_bytes = big.Int.Bytes() *)

Lemma byte_len_zero : byte_len 0 = O.
Proof. reflexivity. Qed.

Lemma byte_len_nonzero v : v <> 0 ->
  Z.of_nat (byte_len v) = Z.log2 (Z.abs v) / 8 + 1.
Proof.
  intros Hv. unfold byte_len. rewrite (proj2 (Z.eqb_neq v 0) Hv).
  rewrite Z2Nat.id; [reflexivity|].
  pose proof (Z.log2_nonneg (Z.abs v)).
  pose proof (Z.div_pos (Z.log2 (Z.abs v)) 8 ltac:(lia) ltac:(lia)). lia.
Qed.

(* 256^(len-1) <= |v| < 256^len *)
Lemma byte_len_spec v : v <> 0 ->
  256 ^ (Z.of_nat (byte_len v) - 1) <= Z.abs v < 256 ^ Z.of_nat (byte_len v).
Proof.
  intros Hv. rewrite (byte_len_nonzero v Hv).
  set (a := Z.abs v). assert (Ha : 0 < a) by (unfold a; lia).
  pose proof (Z.log2_spec a Ha) as [Hlo Hhi].
  pose proof (Z.log2_nonneg a) as HL.
  set (L := Z.log2 a) in *.
  pose proof (Z.div_mod L 8 ltac:(lia)) as Hdm.
  pose proof (Z.mod_pos_bound L 8 ltac:(lia)) as Hm.
  assert (Hd : 0 <= L / 8) by (apply Z.div_pos; lia).
  replace (L / 8 + 1 - 1) with (L / 8) by lia.
  rewrite !pow256_pow2 by lia. split.
  - apply Z.le_trans with (2 ^ L); [|exact Hlo].
    apply Z.pow_le_mono_r; lia.
  - apply Z.lt_le_trans with (2 ^ Z.succ L); [exact Hhi|].
    apply Z.pow_le_mono_r; lia.
Qed.

Lemma byte_len_bound v : Z.abs v < 256 ^ Z.of_nat (byte_len v).
Proof.
  destruct (Z.eq_dec v 0) as [->|Hv].
  - cbn. lia.
  - apply byte_len_spec. exact Hv.
Qed.

Theorem min_be_bytes_length v : length (min_be_bytes v) = byte_len v.
Proof. unfold min_be_bytes. apply be_bytes_length. Qed.

Theorem min_be_bytes_bytes v : Forall is_byte (min_be_bytes v).
Proof. unfold min_be_bytes. apply be_bytes_bytes. Qed.

(* SetBytes(v.Bytes()) = |v| *)
Theorem be_val_min_be_bytes_abs v : be_val (min_be_bytes v) = Z.abs v.
Proof.
  unfold min_be_bytes. rewrite be_val_be_bytes. apply Z.mod_small.
  pose proof (byte_len_bound v). lia.
Qed.

Corollary be_val_min_be_bytes v : 0 <= v -> be_val (min_be_bytes v) = v.
Proof. intros Hv. rewrite be_val_min_be_bytes_abs. lia. Qed.

Theorem min_be_bytes_zero : min_be_bytes 0 = [].
Proof. reflexivity. Qed.

(* the first byte of Bytes() is never zero *)
Theorem min_be_bytes_no_leading_zero v : v <> 0 ->
  exists b r, min_be_bytes v = b :: r /\ 0 < b < 256.
Proof.
  intros Hv. pose proof (byte_len_spec v Hv) as [Hlo Hhi].
  pose proof (byte_len_nonzero v Hv) as Hk.
  pose proof (Z.log2_nonneg (Z.abs v)) as HL.
  pose proof (Z.div_pos (Z.log2 (Z.abs v)) 8 ltac:(lia) ltac:(lia)) as Hd.
  unfold min_be_bytes, be_bytes.
  destruct (byte_len v) as [|k]; [lia|].
  rewrite le_bytes_snoc, rev_app_distr. cbn [rev app].
  eexists; eexists; split; [reflexivity|].
  replace (Z.of_nat (S k) - 1) with (Z.of_nat k) in Hlo by lia.
  rewrite pow256_succ in Hhi.
  pose proof (pow256_pos k) as HM. set (M := 256 ^ Z.of_nat k) in *.
  assert (H1 : 1 <= Z.abs v / M) by (apply Z.div_le_lower_bound; lia).
  assert (H2 : Z.abs v / M < 256) by (apply Z.div_lt_upper_bound; lia).
  rewrite Z.mod_small by lia. lia.
Qed.

Corollary min_be_bytes_hd_nonzero v : v <> 0 -> hd 0 (min_be_bytes v) <> 0.
Proof.
  intros Hv. destruct (min_be_bytes_no_leading_zero v Hv) as (b & r & E & Hb).
  rewrite E. cbn [hd]. lia.
Qed.

Theorem byte_len_le_32 v : 0 <= v < 2 ^ 256 -> (byte_len v <= 32)%nat.
Proof.
  intros Hv. destruct (Z.eq_dec v 0) as [->|Hnz]; [cbn; lia|].
  pose proof (byte_len_spec v Hnz) as [Hlo _].
  pose proof (byte_len_nonzero v Hnz) as Hk.
  apply Nat2Z.inj_le. apply Z.nlt_ge. intros Hgt.
  assert (Hp : 256 ^ 32 <= 256 ^ (Z.of_nat (byte_len v) - 1))
    by (apply Z.pow_le_mono_r; lia).
  change (256 ^ 32) with (2 ^ 256) in Hp. lia.
Qed.

(* minimality: any big-endian byte string without leading zero that reads as v
   is Bytes(v) *)
Lemma byte_len_unique v n : v <> 0 ->
  256 ^ (Z.of_nat n - 1) <= Z.abs v < 256 ^ Z.of_nat n -> n = byte_len v.
Proof.
  intros Hv [Hlo Hhi]. pose proof (byte_len_spec v Hv) as [Hlo' Hhi'].
  apply Nat2Z.inj. apply Z.le_antisymm.
  - apply Z.nlt_ge. intros Hgt.
    assert (256 ^ Z.of_nat (byte_len v) <= 256 ^ (Z.of_nat n - 1))
      by (apply Z.pow_le_mono_r; lia). lia.
  - apply Z.nlt_ge. intros Hgt.
    assert (256 ^ Z.of_nat n <= 256 ^ (Z.of_nat (byte_len v) - 1))
      by (apply Z.pow_le_mono_r; lia). lia.
Qed.

(* ------------------------------------------------------------------ *)
(** * encoding/hex *)

Definition is_hex_char (c : Z) : Prop :=
  48 <= c <= 57 \/ 97 <= c <= 102 \/ 65 <= c <= 70.

Ltac hex_cases :=
  repeat match goal with
  | |- context [Z.leb ?a ?b] => destruct (Z.leb_spec a b)
  | |- context [Z.ltb ?a ?b] => destruct (Z.ltb_spec a b)
  | H : context [Z.leb ?a ?b] |- _ => destruct (Z.leb_spec a b)
  | H : context [Z.ltb ?a ?b] |- _ => destruct (Z.ltb_spec a b)
  end; cbn [andb] in *.

Lemma hex_val_some_iff c : (exists d, hex_val c = Some d) <-> is_hex_char c.
Proof.
  unfold hex_val, is_hex_char. split.
  - intros (d & H). hex_cases; try discriminate; lia.
  - intros H. hex_cases; try (eexists; reflexivity); lia.
Qed.

Lemma hex_val_none_iff c : hex_val c = None <-> ~ is_hex_char c.
Proof.
  rewrite <- hex_val_some_iff. split.
  - intros H (d & E). congruence.
  - intros H. destruct (hex_val c) as [d|]; [exfalso; apply H; eexists; reflexivity|reflexivity].
Qed.

Lemma hex_val_range c d : hex_val c = Some d -> 0 <= d < 16.
Proof.
  unfold hex_val. intros H. hex_cases; try discriminate; injection H as <-; lia.
Qed.

Lemma hex_digit_is_hex d : 0 <= d < 16 -> 48 <= hex_digit d <= 57 \/ 97 <= hex_digit d <= 102.
Proof. intros Hd. unfold hex_digit. hex_cases; lia. Qed.

Lemma hex_val_digit d : 0 <= d < 16 -> hex_val (hex_digit d) = Some d.
Proof.
  intros Hd. unfold hex_digit. destruct (Z.ltb_spec d 10).
  - unfold hex_val. hex_cases; try lia. f_equal; lia.
  - unfold hex_val. hex_cases; try lia. f_equal; lia.
Qed.

(* two-at-a-time induction on lists *)
Lemma list_pair_ind (P : bytes -> Prop) :
  P [] -> (forall a, P [a]) -> (forall a b r, P r -> P (a :: b :: r)) -> forall l, P l.
Proof.
  intros H0 H1 H2. fix IH 1. intros [|a [|b r]]; [exact H0|apply H1|apply H2, IH].
Qed.

Lemma hex_encode_cons b r :
  hex_encode (b :: r) = hex_digit (b / 16) :: hex_digit (b mod 16) :: hex_encode r.
Proof. reflexivity. Qed.

Lemma hex_decode_cons2 a b r :
  hex_decode (a :: b :: r) =
  match hex_val a, hex_val b with
  | Some x, Some y =>
      match hex_decode r with Some t => Some (16 * x + y :: t) | None => None end
  | _, _ => None
  end.
Proof. reflexivity. Qed.

Lemma hex_encode_length bs : length (hex_encode bs) = (2 * length bs)%nat.
Proof.
  induction bs as [|b r IH]; [reflexivity|].
  rewrite hex_encode_cons. cbn [length]. rewrite IH. lia.
Qed.

Lemma hex_encode_app a b : hex_encode (a ++ b) = hex_encode a ++ hex_encode b.
Proof. unfold hex_encode. apply flat_map_app. Qed.

Lemma byte_nibbles b : is_byte b -> 0 <= b / 16 < 16 /\ 0 <= b mod 16 < 16.
Proof.
  unfold is_byte. intros Hb. split.
  - split; [apply Z.div_pos; lia|apply Z.div_lt_upper_bound; lia].
  - apply Z.mod_pos_bound. lia.
Qed.

Theorem hex_decode_encode bs : Forall is_byte bs -> hex_decode (hex_encode bs) = Some bs.
Proof.
  induction 1 as [|b r Hb Hr IH]; [reflexivity|].
  rewrite hex_encode_cons, hex_decode_cons2.
  destruct (byte_nibbles b Hb) as [Hh Hl].
  rewrite (hex_val_digit _ Hh), (hex_val_digit _ Hl), IH.
  f_equal. f_equal. pose proof (Z.div_mod b 16 ltac:(lia)). lia.
Qed.

(* the characters produced by hex_encode are lower-case hex digits *)
Lemma hex_encode_chars bs : Forall is_byte bs ->
  Forall (fun c => 48 <= c <= 57 \/ 97 <= c <= 102) (hex_encode bs).
Proof.
  induction 1 as [|b r Hb Hr IH]; [constructor|].
  rewrite hex_encode_cons. destruct (byte_nibbles b Hb) as [Hh Hl].
  constructor; [apply hex_digit_is_hex; exact Hh|].
  constructor; [apply hex_digit_is_hex; exact Hl|exact IH].
Qed.

Theorem hex_decode_some cs : forall bs, hex_decode cs = Some bs ->
  length cs = (2 * length bs)%nat /\ Forall is_byte bs.
Proof.
  induction cs as [| a | a b r IH] using list_pair_ind; intros bs H.
  - injection H as <-. split; [reflexivity|constructor].
  - discriminate.
  - rewrite hex_decode_cons2 in H.
    destruct (hex_val a) as [x|] eqn:Ea; [|discriminate].
    destruct (hex_val b) as [y|] eqn:Eb; [|discriminate].
    destruct (hex_decode r) as [t|] eqn:Er; [|discriminate].
    assert (E : 16 * x + y :: t = bs) by congruence. subst bs. clear H.
    destruct (IH t eq_refl) as [Hl Hf].
    split; [cbn [length]; lia|].
    constructor; [|exact Hf].
    pose proof (hex_val_range _ _ Ea). pose proof (hex_val_range _ _ Eb).
    unfold is_byte. lia.
Qed.

Corollary hex_decode_length cs bs : hex_decode cs = Some bs ->
  length bs = (length cs / 2)%nat.
Proof.
  intros H. destruct (hex_decode_some cs bs H) as [Hl _].
  rewrite Hl, Nat.mul_comm, Nat.div_mul by lia. reflexivity.
Qed.

Corollary hex_decode_bytes cs bs : hex_decode cs = Some bs -> Forall is_byte bs.
Proof. intros H. apply (hex_decode_some cs bs H). Qed.

(* hex_decode succeeds exactly on even-length strings of hex digits *)
Theorem hex_decode_ok_iff cs :
  (exists bs, hex_decode cs = Some bs) <->
  Nat.even (length cs) = true /\ Forall is_hex_char cs.
Proof.
  induction cs as [| a | a b r IH] using list_pair_ind.
  - split; [intros _; split; [reflexivity|constructor]|intros _; eexists; reflexivity].
  - split; [intros (bs & H); discriminate|intros [H _]; discriminate].
  - rewrite hex_decode_cons2. cbn [length Nat.even]. split.
    + intros (bs & H).
      destruct (hex_val a) as [x|] eqn:Ea; [|discriminate].
      destruct (hex_val b) as [y|] eqn:Eb; [|discriminate].
      destruct (hex_decode r) as [t|] eqn:Er; [|discriminate].
      destruct (proj1 IH (ex_intro _ t eq_refl)) as [He Hf].
      split; [exact He|].
      constructor; [apply hex_val_some_iff; eexists; exact Ea|].
      constructor; [apply hex_val_some_iff; eexists; exact Eb|exact Hf].
    + intros [He Hf].
      pose proof (Forall_inv Hf) as Ha. pose proof (Forall_inv_tail Hf) as Hf'.
      pose proof (Forall_inv Hf') as Hb. pose proof (Forall_inv_tail Hf') as Hr.
      apply hex_val_some_iff in Ha. apply hex_val_some_iff in Hb.
      destruct Ha as (x & ->). destruct Hb as (y & ->).
      destruct (proj2 IH (conj He Hr)) as (t & ->). eexists; reflexivity.
Qed.

Corollary hex_decode_none_iff cs :
  hex_decode cs = None <-> ~ (Nat.even (length cs) = true /\ Forall is_hex_char cs).
Proof.
  rewrite <- hex_decode_ok_iff. split.
  - intros H (bs & E). congruence.
  - intros H. destruct (hex_decode cs) as [bs|]; [exfalso; apply H; eexists; reflexivity|reflexivity].
Qed.

(* decoding is insensitive to the case of a-f: value level statement *)
Lemma hex_val_upper c : 97 <= c <= 102 -> hex_val (c - 32) = hex_val c.
Proof.
  intros Hc. unfold hex_val. hex_cases; try lia. f_equal; lia.
Qed.

(* hex_decode is injective up to case; on decoded output re-encoding gives the
   lower-case form *)
Theorem hex_decode_app a b x y :
  hex_decode a = Some x -> hex_decode b = Some y -> hex_decode (a ++ b) = Some (x ++ y).
Proof.
  revert x. induction a as [| c | c d r IH] using list_pair_ind; intros x Ha Hb.
  - injection Ha as <-. exact Hb.
  - discriminate.
  - cbn [app]. rewrite hex_decode_cons2 in *.
    destruct (hex_val c) as [u|]; [|discriminate].
    destruct (hex_val d) as [w|]; [|discriminate].
    destruct (hex_decode r) as [t|] eqn:Er; [|discriminate].
    injection Ha as <-. rewrite (IH t eq_refl Hb). reflexivity.
Qed.

Print Assumptions le_val_le_bytes.
Print Assumptions le_bytes_le_val.
Print Assumptions le_val_bound.
Print Assumptions be_val_be_bytes.
Print Assumptions be_bytes_be_val.
Print Assumptions be_val_min_be_bytes_abs.
Print Assumptions min_be_bytes_no_leading_zero.
Print Assumptions byte_len_le_32.
Print Assumptions hex_decode_encode.
Print Assumptions hex_decode_some.
Print Assumptions hex_decode_ok_iff.

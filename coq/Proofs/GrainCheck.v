(* A cheap, kernel-checkable certificate for the output of the Poseidon
   reference parameter generator [grain_params] (Spec/Grain.v).

   Evaluating [grain_params t RP] directly costs t^2 modular exponentiations
   (x+y)^(q-2) mod q on Coq's binary [Z] (about 2.5 s each under vm_compute, i.e.
   12 minutes for t = 17, twice per file).  Here:

     - [grain_fast] is an UNTRUSTED generator with the same structure whose
       Cauchy entries are computed with Bignums' BigZ; nothing is proved about
       it, it only produces candidate values (hints);
     - [grain_check t RP rc mds] re-runs the LFSR part of the specification
       itself (warm-up, rejection sampling, the 2t seeds, the distinctness and
       non-vanishing tests), compares the round constants with [rc], and checks
       every candidate entry m of [mds] by one multiplication:
       0 <= m < q and (x+y) * m mod q = 1;
     - [grain_check_sound]: a successful check implies
       [grain_params t RP = Some (rc, mds)].  The step from "m is an inverse of
       x+y" to "m = (x+y)^(q-2) mod q" is Fermat's little theorem for the prime
       q (Lib/Primes.v, Pocklington certificate).

   So Spec/GrainT<t>.v still states and proves [grain_params t RP = Some (RC, MDS)]
   about the specification, axiom-free; only the amount of computation the
   kernel has to do changes. *)
From Coq Require Import ZArith NArith List Bool Lia.
From Verif Require Import Lib.Params Lib.Powmod Lib.NumberTheory Lib.Primes Spec.Grain.
From Bignums Require Import BigZ.
Import ListNotations.
Local Open Scope Z_scope.

(* ------------------------------------------------------------------ *)
(* Checking one inverse                                                 *)

Definition inv_ok (a m : Z) : bool :=
  (0 <=? m) && (m <? q) && ((a * m) mod q =? 1).

Lemma inv_unique_gen (p a m : Z) :
  Znumtheory.prime p -> 0 <= m < p -> (a * m) mod p = 1 -> powmod a (p - 2) p = m.
Proof.
  intros Hp Hm H3.
  assert (Hq : 0 < p) by (pose proof (prime_gt_1 p Hp); lia).
  assert (Ha : a mod p <> 0).
  { intros Ha. rewrite <- (mul_mod_l a m p Hq), Ha, Z.mul_0_l in H3.
    rewrite Z.mod_0_l in H3 by lia. discriminate H3. }
  pose proof (inv_mod_unique p a m Hp Ha H3) as Hu.
  unfold inv_mod in Hu. rewrite Z.mod_small in Hu by exact Hm.
  symmetry. exact Hu.
Qed.

Lemma inv_ok_sound (a m : Z) : inv_ok a m = true -> powmod a (q - 2) q = m.
Proof.
  unfold inv_ok. intros H.
  apply andb_prop in H as [H H3]. apply andb_prop in H as [H1 H2].
  apply Z.leb_le in H1. apply Z.ltb_lt in H2. apply Z.eqb_eq in H3.
  exact (inv_unique_gen q a m q_prime (conj H1 H2) H3).
Qed.

Fixpoint row_ok (x : Z) (ys row : list Z) : bool :=
  match ys, row with
  | [], [] => true
  | y :: ys', m :: row' => inv_ok (x + y) m && row_ok x ys' row'
  | _, _ => false
  end.

Lemma row_ok_sound (x : Z) (ys row : list Z) :
  row_ok x ys row = true -> map (fun y => powmod (x + y) (q - 2) q) ys = row.
Proof.
  revert row. induction ys as [|y ys IH]; intros [|m row] H; cbn [row_ok] in H;
    try discriminate; [reflexivity|].
  apply andb_prop in H as [H1 H2]. cbn [map].
  rewrite (inv_ok_sound _ _ H1), (IH _ H2). reflexivity.
Qed.

Fixpoint mat_ok (xs ys : list Z) (m : list (list Z)) : bool :=
  match xs, m with
  | [], [] => true
  | x :: xs', row :: m' => row_ok x ys row && mat_ok xs' ys m'
  | _, _ => false
  end.

Lemma mat_ok_sound (xs ys : list Z) (m : list (list Z)) :
  mat_ok xs ys m = true -> cauchy xs ys = m.
Proof.
  unfold cauchy. revert m.
  induction xs as [|x xs IH]; intros [|row m] H; cbn [mat_ok] in H;
    try discriminate; [reflexivity|].
  apply andb_prop in H as [H1 H2]. cbn [map].
  rewrite (row_ok_sound _ _ _ H1), (IH _ H2). reflexivity.
Qed.

Fixpoint list_eqb (a b : list Z) : bool :=
  match a, b with
  | [], [] => true
  | x :: a', y :: b' => (x =? y) && list_eqb a' b'
  | _, _ => false
  end.

Lemma list_eqb_sound (a b : list Z) : list_eqb a b = true -> a = b.
Proof.
  revert b. induction a as [|x a IH]; intros [|y b] H; cbn [list_eqb] in H;
    try discriminate; [reflexivity|].
  apply andb_prop in H as [H1 H2]. apply Z.eqb_eq in H1.
  rewrite H1, (IH _ H2). reflexivity.
Qed.

(* ------------------------------------------------------------------ *)
(* The checker                                                          *)

Definition grain_check (t RP : nat) (rc : list Z) (mds : list (list Z)) : bool :=
  let s0 := warmup 160 (init_state 1 0 254 (N.of_nat t) 8 (N.of_nat RP)) in
  match draw ((8 + RP) * t) (sample_reject reject_fuel) s0 with
  | None => false
  | Some (rc', s1) =>
      match draw (2 * t) sample_mod s1 with
      | None => false
      | Some (xy, _) =>
          let xs := firstn t xy in
          let ys := skipn t xy in
          distinct xy && cauchy_ok xs ys && list_eqb rc' rc && mat_ok xs ys mds
      end
  end.

Theorem grain_check_sound :
  forall (t RP : nat) (rc : list Z) (mds : list (list Z)),
    grain_check t RP rc mds = true -> grain_params t RP = Some (rc, mds).
Proof.
  intros t RP rc mds. unfold grain_check, grain_params. cbv zeta.
  destruct (draw ((8 + RP) * t) (sample_reject reject_fuel) _) as [[rc' s1]|];
    [|discriminate].
  destruct (draw (2 * t) sample_mod s1) as [[xy s2]|]; [|discriminate].
  intros H.
  apply andb_prop in H as [H H4]. apply andb_prop in H as [H H3].
  rewrite H.
  rewrite (list_eqb_sound _ _ H3), (mat_ok_sound _ _ _ H4). reflexivity.
Qed.

Print Assumptions grain_check_sound.

(* ------------------------------------------------------------------ *)
(* Untrusted fast generator (hints only; nothing is proved about it)    *)

Fixpoint big_powmod_pos (a : BigZ.t) (e : positive) (n : BigZ.t) : BigZ.t :=
  match e with
  | xH => BigZ.modulo a n
  | xO e' => let r := big_powmod_pos a e' n in BigZ.modulo (BigZ.mul r r) n
  | xI e' => let r := big_powmod_pos a e' n in
             BigZ.modulo (BigZ.mul (BigZ.modulo (BigZ.mul r r) n) a) n
  end.

Definition big_inv (a : Z) : Z :=
  match q - 2 with
  | Zpos e => BigZ.to_Z (big_powmod_pos (BigZ.of_Z a) e (BigZ.of_Z q))
  | _ => 0
  end.

Definition grain_fast (t RP : nat) : option (list Z * list (list Z)) :=
  let s0 := warmup 160 (init_state 1 0 254 (N.of_nat t) 8 (N.of_nat RP)) in
  match draw ((8 + RP) * t) (sample_reject reject_fuel) s0 with
  | None => None
  | Some (rc, s1) =>
      match draw (2 * t) sample_mod s1 with
      | None => None
      | Some (xy, _) =>
          let xs := firstn t xy in
          let ys := skipn t xy in
          Some (rc, map (fun x => map (fun y => big_inv (x + y)) ys) xs)
      end
  end.

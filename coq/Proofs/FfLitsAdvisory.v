(* ADVISORY obligations: every small literal OCCURRENCE (array sizes, indices, carry-ins,
   shift counts, case labels) of the routines below, in source order, as listed by
   tools/constgen.  They were the tie between the Go text and the hand model before the
   routines themselves were translated; since tools/limbgen regenerates every one of these
   routines (Gen/Ff(g)Routines.v, Gen/Ff(g)Glue.v) and Proofs/Ff(g)RoutinesEq.v,
   Proofs/Ff(g)GlueEq.v prove them equal to the model, these lists carry no additional
   assurance, while any harmless rewrite of a routine changes them.  They are therefore
   kept OUTSIDE the dependency closure of coq/Properties: when one of them no longer
   compiles check.py records a note, not a violation.  The WIDE literals (moduli, Montgomery
   constants, exponents, the Tonelli-Shanks generator) remain obligations of the property
   files (consts_ok, sqrt_consts_ok, lex_lit_ok, ...). *)
From Coq Require Import ZArith List Lia.
From Verif Require Import Lib.Params Lib.Words Model.FfLimbs Proofs.FfWords Proofs.FfSqrt.
From Verif Require Gen.FfConsts Proofs.TonelliShanks.
Import ListNotations.
Local Open Scope Z_scope.

(* The same for ALL literals (array sizes, indices, carry-ins, shift counts)
   of the straight-line routines whose literal list is short. *)
Definition condsub_allL : list Z :=
  [3; q3; 3; q3; 2; q2; 2; q2; 1; q1; 1; q1; 0; q0;
   0; 0; q0; 0; 1; 1; q1; 2; 2; q2; 3; 3; q3].
Definition addq_allL : list Z := [0; 0; q0; 0; 1; 1; q1; 2; 2; q2; 3; 3; q3].
Definition shr1_allL : list Z := [0; 0; 1; 1; 63; 1; 1; 1; 2; 63; 2; 2; 1; 3; 63; 3; 1].

Lemma lits_ok :
  FfConsts.lits_addGeneric = [0; 0; 0; 0; 1; 1; 1; 2; 2; 2; 3; 3; 3] ++ condsub_allL
  /\ FfConsts.lits_doubleGeneric = [0; 0; 0; 0; 1; 1; 1; 2; 2; 2; 3; 3; 3] ++ condsub_allL
  /\ FfConsts.lits_subGeneric = [0; 0; 0; 0; 1; 1; 1; 2; 2; 2; 3; 3; 3; 0] ++ addq_allL
  /\ FfConsts.lits_negGeneric = [0; q0; 0; 0; 1; q1; 1; 2; q2; 2; 3; q3; 3]
  /\ FfConsts.lits_reduceGeneric = condsub_allL
  /\ FfConsts.lits_Element_Halve = [0; 1; 1] ++ addq_allL ++ shr1_allL
  /\ FfConsts.lits_mulByConstant = [0; 1; 2; 3; 5]
  /\ FfConsts.lits_Element_Exp = [0; 2; 0; 1]
  /\ FfConsts.lits_madd0 = [0; 0]
  /\ FfConsts.lits_madd1 = [0; 0]
  /\ FfConsts.lits_madd2 = [0; 0; 0; 0]
  /\ FfConsts.lits_madd3 = [0; 0; 0].
Proof. vm_compute. repeat split. Qed.

(* ------------------------------------------------------------------ *)
(** * All literals of the long routines (indices included), by blocks *)

Definition round0_allL : list Z :=
  [0; 1; 0; 0; 0; qInvNeg; 2; q0; 0; 1; 0; 1; 1; 2; 0; q1; 2; 0; 1; 0; 2; 1;
   2; 1; q2; 2; 0; 1; 0; 3; 1; 3; 2; q3; 0; 2; 1].
Definition roundN_allL (i : Z) : list Z :=
  [i; 1; 0; 0; 0; 0; qInvNeg; 2; q0; 0; 1; 0; 1; 1; 1; 2; 0; q1; 2; 0;
   1; 0; 2; 1; 2; 2; 1; q2; 2; 0; 1; 0; 3; 1; 3; 3; 2; q3; 0; 2; 1].
Definition fm_block_allL : list Z :=
  [0; qInvNeg; q0; 0; 0; q1; 1; 1; q2; 2; 2; q3; 3; 3].
Definition sub4_allL : list Z := [0; 0; 0; 0; 1; 1; 1; 2; 2; 2; 3; 3; 3].
Definition inner_loop_allL : list Z :=
  [0; 1; 0] ++ shr1_allL ++ [0; 1; 1] ++ addq_allL ++ shr1_allL.
Definition inv_branch_allL : list Z := sub4_allL ++ sub4_allL ++ [1] ++ addq_allL.

Lemma lits_ok_long :
  FfConsts.lits_mulGeneric =
    [4; 3] ++ round0_allL ++ roundN_allL 1 ++ roundN_allL 2 ++ roundN_allL 3 ++ condsub_allL
  /\ FfConsts.lits_fromMontGeneric =
    fm_block_allL ++ fm_block_allL ++ fm_block_allL ++ fm_block_allL ++ condsub_allL
  /\ FfConsts.lits_Element_SetOne =
    (let '(a, b, c, d) := one in [0; a; 1; b; 2; c; 3; d])
  /\ FfConsts.lits_Element_Inverse =
    qL ++ (let '(a, b, c, d) := rSquare_el in [a; b; c; d])
       ++ inner_loop_allL ++ inner_loop_allL
       ++ [3; 3; 3; 3; 2; 2; 2; 2; 1; 1; 1; 1; 0; 0]
       ++ inv_branch_allL ++ inv_branch_allL
       ++ [0; 1; 3; 2; 1; 0] ++ [0; 1; 3; 2; 1; 0].
Proof. vm_compute. repeat split. Qed.

(* every literal occurrence of the two function bodies, in source order *)
Lemma sqrt_lits_ok :
  FfConsts.lits_Element_Legendre = [0] ++ oneR_idx ++ [1; 1]
  /\ FfConsts.lits_Element_Sqrt =
       gL ++ [TonelliShanks.bn_e; 0; 1] ++ oneR_idx ++ oneR_idx ++ [0; 1; 0].
Proof. vm_compute. repeat split. Qed.

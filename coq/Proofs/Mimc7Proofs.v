(* C08: the value-level model of mimc7/mimc7.go (Model/Mimc7.v) computes the
   circomlib MiMC7 specification (Spec/MiMC7Spec.v) for ALL inputs.

   The key point of getConstants_spec: the Go code chains
       integer --FillBytes(32)--> 32 bytes --Keccak--> digest --SetBytes--> integer
   and this is the chain over 32-byte DIGESTS of the specification only because
   be_bytes 32 (be_val d) = d for a 32-byte digest d (with minimal-length
   bytes, as in the code before the fix, digests with leading zero bytes would
   be re-hashed in a shortened form). *)
From Coq Require Import ZArith List Bool Lia Zpow_facts.
From Verif Require Import Lib.Params Lib.Octets Spec.Keccak Spec.MiMC7Spec
                          Model.Outcome Model.Utils.
From Verif Require Proofs.KeccakStreamProofs.
From Verif Require Gen.CurveConsts.
From Verif Require Import Model.Mimc7.
Import ListNotations.
Local Open Scope Z_scope.

(* ------------------------------------------------------------------ *)
(** * The regenerated literals of the Go source *)

Lemma mimc7_consts_ok :
  Mimc7.Q = Params.q /\
  Mimc7.fixedRounds = 91 /\
  Mimc7.chunkLen = 31%nat /\
  Mimc7.SEED = spec_seed /\
  spec_seed = [109; 105; 109; 99].
Proof. vm_compute. repeat split; reflexivity. Qed.

Lemma Q_eq : Mimc7.Q = q.
Proof. exact (proj1 mimc7_consts_ok). Qed.
Lemma fixedRounds_eq : Mimc7.fixedRounds = 91.
Proof. exact (proj1 (proj2 mimc7_consts_ok)). Qed.
Lemma chunkLen_eq : Mimc7.chunkLen = 31%nat.
Proof. exact (proj1 (proj2 (proj2 mimc7_consts_ok))). Qed.
Lemma SEED_eq : Mimc7.SEED = spec_seed.
Proof. exact (proj1 (proj2 (proj2 (proj2 mimc7_consts_ok)))). Qed.

Lemma q_pos : 0 < q.
Proof. reflexivity. Qed.
Lemma pow256_31_lt_q : 256 ^ 31 < q.
Proof. vm_compute. reflexivity. Qed.

Local Opaque q Mimc7.Q.

Lemma q_nz : q <> 0.
Proof. pose proof q_pos. lia. Qed.

(* ------------------------------------------------------------------ *)
(** * Byte strings (local copies; Proofs/OctetsProofs.v has the general ones) *)

Lemma le_int_le_val d : le_int d = le_val d.
Proof. induction d as [|b r IH]; [reflexivity|]. cbn [le_int fold_right le_val] in *.
  fold (le_int r). rewrite IH. reflexivity. Qed.

Lemma be_int_be_val d : be_int d = be_val d.
Proof.
  induction d as [|b r IH] using rev_ind; [reflexivity|].
  unfold be_int, be_val in *. rewrite fold_left_app, rev_app_distr.
  cbn [fold_left rev app le_val]. rewrite IH. ring.
Qed.

Lemma le_bytes_le_val_loc l :
  Forall is_byte l -> le_bytes (length l) (le_val l) = l.
Proof.
  induction 1 as [|b r Hb Hr IH]; [reflexivity|].
  cbn [length le_bytes le_val]. unfold is_byte in Hb.
  replace ((b + 256 * le_val r) mod 256) with b
    by (Z.div_mod_to_equations; lia).
  replace ((b + 256 * le_val r) / 256) with (le_val r)
    by (Z.div_mod_to_equations; lia).
  rewrite IH. reflexivity.
Qed.

Lemma Forall_rev_loc {A} (P : A -> Prop) l : Forall P l -> Forall P (rev l).
Proof.
  intros H. apply Forall_forall. intros x Hx. apply in_rev in Hx.
  revert x Hx. apply Forall_forall. exact H.
Qed.

(* FillBytes(32) after SetBytes gives back a 32-byte string unchanged *)
Lemma be_bytes_be_val_loc d :
  Forall is_byte d -> be_bytes (length d) (be_val d) = d.
Proof.
  intros H. unfold be_bytes, be_val. rewrite <- (rev_length d).
  rewrite le_bytes_le_val_loc by (apply Forall_rev_loc; exact H).
  apply rev_involutive.
Qed.

Lemma le_val_bound_loc l :
  Forall is_byte l -> 0 <= le_val l < 256 ^ Z.of_nat (length l).
Proof.
  induction 1 as [|b r Hb Hr IH]; [cbn; lia|].
  cbn [length le_val]. rewrite Nat2Z.inj_succ, Z.pow_succ_r by lia.
  unfold is_byte in Hb. lia.
Qed.

Lemma Forall_firstn_loc {A} (P : A -> Prop) n l : Forall P l -> Forall P (firstn n l).
Proof.
  intros H. rewrite <- (firstn_skipn n l) in H. apply Forall_app in H. tauto.
Qed.
Lemma Forall_skipn_loc {A} (P : A -> Prop) n l : Forall P l -> Forall P (skipn n l).
Proof.
  intros H. rewrite <- (firstn_skipn n l) in H. apply Forall_app in H. tauto.
Qed.

Lemma skipn_skipn_loc {A} a : forall b (l : list A), skipn a (skipn b l) = skipn (b + a) l.
Proof.
  induction b as [|b IH]; intros l; [reflexivity|].
  destruct l as [|x l]; [destruct a; reflexivity|]. cbn [skipn Nat.add]. apply IH.
Qed.

Lemma SetBigIntFromLEBytes_le_int b : SetBigIntFromLEBytes b = le_int b.
Proof.
  unfold SetBigIntFromLEBytes, SwapEndianness, be_val.
  rewrite rev_involutive. symmetry. apply le_int_le_val.
Qed.

(* ------------------------------------------------------------------ *)
(** * Keccak-256 digests are 32 bytes *)

Lemma byte_of_byte x : is_byte (byte_of x).
Proof.
  unfold byte_of, is_byte. change 255 with (Z.ones 8).
  rewrite Z.land_ones by lia. change (2 ^ 8) with 256.
  apply Z.mod_pos_bound. lia.
Qed.

Lemma keccak256_bytes m : Forall is_byte (keccak256 m).
Proof.
  unfold keccak256, ksqueeze. apply Forall_firstn_loc.
  generalize (fold_left keccak_absorb_block
                (kchunks (m ++ pad10star1 (length m))) keccak_zero_state).
  intros st. induction st as [|w st IH]; [constructor|].
  cbn [map concat]. apply Forall_app. split; [|exact IH].
  unfold le_bytes64. repeat constructor; apply byte_of_byte.
Qed.

Definition keccak256_length := Proofs.KeccakStreamProofs.keccak256_length.

Local Opaque keccak256.

Lemma be_bytes32_be_val_keccak m :
  be_bytes 32 (be_val (keccak256 m)) = keccak256 m.
Proof.
  rewrite <- (keccak256_length m) at 1.
  apply be_bytes_be_val_loc, keccak256_bytes.
Qed.

Lemma spec_digest_unfold i : spec_digest (S i) = keccak256 (spec_digest i).
Proof. reflexivity. Qed.

Lemma spec_digest_is_keccak i : exists m, spec_digest i = keccak256 m.
Proof. destruct i; eexists; reflexivity. Qed.

Lemma spec_digest_length i : length (spec_digest i) = 32%nat.
Proof. destruct (spec_digest_is_keccak i) as [m ->]. apply keccak256_length. Qed.

Lemma spec_digest_bytes i : Forall is_byte (spec_digest i).
Proof. destruct (spec_digest_is_keccak i) as [m ->]. apply keccak256_bytes. Qed.

(* ------------------------------------------------------------------ *)
(** * The round constants *)

(* one step of the Go chain on the integer reading of digest i is the integer
   reading of digest i+1 *)
Lemma chain_step_digest i :
  chain_step (be_val (spec_digest i)) = be_val (spec_digest (S i)).
Proof.
  unfold chain_step. destruct (spec_digest_is_keccak i) as [m Hm].
  rewrite spec_digest_unfold, Hm, be_bytes32_be_val_keccak. reflexivity.
Qed.

Lemma spec_c_S i : spec_c (S i) = be_val (spec_digest (S i)) mod q.
Proof. unfold spec_c. rewrite be_int_be_val. reflexivity. Qed.

Lemma chain_spec m : forall i,
  chain m (be_val (spec_digest i)) = map spec_c (seq (S i) m).
Proof.
  induction m as [|m IH]; intros i; [reflexivity|].
  cbn [chain seq map]. rewrite chain_step_digest, IH, spec_c_S, Q_eq. reflexivity.
Qed.

Theorem getConstants_spec : forall n, (1 <= n)%nat ->
  getConstants n = map spec_c (seq 0 n).
Proof.
  intros n Hn. destruct n as [|n]; [lia|].
  unfold getConstants. rewrite SEED_eq.
  replace (S n - 1)%nat with n by lia.
  change (keccak256 spec_seed) with (spec_digest 0).
  rewrite chain_spec. reflexivity.
Qed.
Print Assumptions getConstants_spec.

(* ------------------------------------------------------------------ *)
(** * The rounds *)

Lemma pow7_congr a b : a mod q = b mod q -> a ^ 7 mod q = b ^ 7 mod q.
Proof.
  intros H. rewrite (Zpower_mod a), (Zpower_mod b) by exact q_pos.
  rewrite H. reflexivity.
Qed.

Lemma pow7_spec t : pow7 t = t ^ 7 mod q.
Proof.
  unfold pow7. rewrite Q_eq. pose proof q_nz as Hq.
  rewrite Z.mul_mod_idemp_l by exact Hq.
  rewrite <- Z.mul_assoc.
  rewrite Z.mul_mod_idemp_l by exact Hq.
  rewrite <- Z.mul_assoc.
  rewrite Z.mul_mod_idemp_l by exact Hq.
  rewrite (Z.mul_comm (t * t)), <- !Z.mul_assoc.
  rewrite Z.mul_mod_idemp_l by exact Hq.
  rewrite (Z.mul_comm (t * t)), <- !Z.mul_assoc.
  rewrite Z.mul_mod_idemp_l by exact Hq.
  f_equal. ring.
Qed.

Lemma round_first x k : pow7 ((x + k) mod Mimc7.Q) = spec_r 1 x k.
Proof.
  rewrite pow7_spec, Q_eq. cbn [spec_r]. apply pow7_congr.
  apply Z.mod_mod, q_nz.
Qed.

Lemma round_next x k i :
  pow7 (((spec_r (S i) x k + k) mod Mimc7.Q + spec_c (S i)) mod Mimc7.Q)
  = spec_r (S (S i)) x k.
Proof.
  rewrite pow7_spec, Q_eq.
  change (spec_r (S (S i)) x k)
    with ((spec_r (S i) x k + k + spec_c (S i)) ^ 7 mod q).
  apply pow7_congr.
  rewrite Z.add_mod_idemp_l by exact q_nz. apply Z.mod_mod, q_nz.
Qed.

Lemma rounds_spec x k : forall m i,
  rounds (map spec_c (seq i m)) (Nat.eqb i 0) x k (spec_r i x k)
  = spec_r (i + m) x k.
Proof.
  induction m as [|m IH]; intros i.
  - rewrite Nat.add_0_r. reflexivity.
  - cbn [seq map rounds]. rewrite Nat.add_succ_r.
    change (S (i + m)) with (S i + m)%nat. rewrite <- IH.
    change (Nat.eqb (S i) 0) with false. f_equal.
    destruct i as [|i].
    + cbn [Nat.eqb]. apply round_first.
    + cbn [Nat.eqb]. apply round_next.
Qed.

Lemma rounds_getConstants x k n : (1 <= n)%nat ->
  rounds (getConstants n) true x k 0 = spec_r n x k.
Proof.
  intros Hn. rewrite getConstants_spec by exact Hn.
  exact (rounds_spec x k n 0%nat).
Qed.

(* the specification depends on x, k only through their residues *)
Lemma spec_r_mod n x k : spec_r n (x mod q) (k mod q) = spec_r n x k.
Proof.
  pose proof q_nz as Hq.
  induction n as [|n IH]; [reflexivity|].
  destruct n as [|n].
  - cbn [spec_r]. apply pow7_congr. symmetry. apply Z.add_mod. exact Hq.
  - change (spec_r (S (S n)) (x mod q) (k mod q))
      with ((spec_r (S n) (x mod q) (k mod q) + k mod q + spec_c (S n)) ^ 7 mod q).
    change (spec_r (S (S n)) x k)
      with ((spec_r (S n) x k + k + spec_c (S n)) ^ 7 mod q).
    rewrite IH. apply pow7_congr.
    rewrite <- (Z.add_mod_idemp_l (spec_r (S n) x k + k mod q)) by exact Hq.
    rewrite Z.add_mod_idemp_r by exact Hq.
    rewrite Z.add_mod_idemp_l by exact Hq. reflexivity.
Qed.

Theorem spec_mimc7_mod n x k : spec_mimc7 n (x mod q) (k mod q) = spec_mimc7 n x k.
Proof.
  unfold spec_mimc7. rewrite spec_r_mod.
  apply Z.add_mod_idemp_r, q_nz.
Qed.

Theorem spec_mimc7_range n x k : 0 <= spec_mimc7 n x k < q.
Proof. unfold spec_mimc7. apply Z.mod_pos_bound, q_pos. Qed.

(* ------------------------------------------------------------------ *)
(** * MIMC7HashGeneric / MIMC7Hash *)

(* the model first reduces both arguments mod q *)
Theorem mimc7_generic_reduces : forall x k n, 1 <= n ->
  MIMC7HashGeneric x k n = Ok (spec_mimc7 (Z.to_nat n) (x mod q) (k mod q)).
Proof.
  intros x k n Hn. unfold MIMC7HashGeneric.
  destruct (n <=? 0) eqn:E; [apply Z.leb_le in E; lia|].
  cbv zeta. rewrite rounds_getConstants by lia. rewrite Q_eq. reflexivity.
Qed.

Corollary mimc7_generic_reduces_args : forall x k n,
  MIMC7HashGeneric x k n = MIMC7HashGeneric (x mod q) (k mod q) n.
Proof.
  intros x k n. unfold MIMC7HashGeneric. rewrite Q_eq.
  rewrite !Z.mod_mod by exact q_nz. reflexivity.
Qed.

(* ... and so conforms for arbitrary integers, not only field elements *)
Theorem mimc7_generic_conforms_any : forall x k n, 1 <= n ->
  MIMC7HashGeneric x k n = Ok (spec_mimc7 (Z.to_nat n) x k).
Proof.
  intros x k n Hn. rewrite mimc7_generic_reduces by exact Hn.
  rewrite spec_mimc7_mod. reflexivity.
Qed.

Theorem mimc7_generic_conforms : forall x k n,
  0 <= x < q -> 0 <= k < q -> 1 <= n ->
  MIMC7HashGeneric x k n = Ok (spec_mimc7 (Z.to_nat n) x k).
Proof. intros x k n _ _ Hn. apply mimc7_generic_conforms_any, Hn. Qed.
Print Assumptions mimc7_generic_conforms.

Theorem mimc7_generic_panics : forall x k n, n <= 0 ->
  MIMC7HashGeneric x k n = Panic.
Proof.
  intros x k n Hn. unfold MIMC7HashGeneric.
  destruct (n <=? 0) eqn:E; [reflexivity|apply Z.leb_gt in E; lia].
Qed.

Lemma fixed_nat : Z.to_nat Mimc7.fixedRounds = spec_nrounds.
Proof. rewrite fixedRounds_eq. reflexivity. Qed.

Theorem mimc7_reduces : forall x k,
  MIMC7Hash x k = spec_MIMC7 (x mod q) (k mod q).
Proof.
  intros x k. unfold MIMC7Hash, constants_cts. cbv zeta.
  rewrite fixed_nat, rounds_getConstants by (unfold spec_nrounds; lia).
  rewrite Q_eq. unfold spec_MIMC7, spec_mimc7. reflexivity.
Qed.

Theorem mimc7_conforms_any : forall x k, MIMC7Hash x k = spec_MIMC7 x k.
Proof.
  intros x k. rewrite mimc7_reduces. apply spec_mimc7_mod.
Qed.

Theorem mimc7_conforms : forall x k, 0 <= x < q -> 0 <= k < q ->
  MIMC7Hash x k = spec_MIMC7 x k.
Proof. intros x k _ _. apply mimc7_conforms_any. Qed.
Print Assumptions mimc7_conforms.

(* the fixed table is the generic one at 91 rounds *)
Corollary mimc7_fixed_is_generic : forall x k,
  MIMC7HashGeneric x k 91 = Ok (MIMC7Hash x k).
Proof.
  intros x k. rewrite mimc7_generic_conforms_any by lia.
  rewrite mimc7_conforms_any. change (Z.to_nat 91) with spec_nrounds.
  unfold spec_MIMC7. reflexivity.
Qed.

Theorem mimc7_range : forall x k, 0 <= MIMC7Hash x k < q.
Proof. intros. rewrite mimc7_conforms_any. apply spec_mimc7_range. Qed.

(* ------------------------------------------------------------------ *)
(** * Hash / HashGeneric *)

Lemma fold_left_ext_loc {A B} (f g : A -> B -> A) :
  (forall a b, f a b = g a b) -> forall l a, fold_left f l a = fold_left g l a.
Proof.
  intros H l. induction l as [|b l IH]; intros a; [reflexivity|].
  cbn [fold_left]. rewrite H. apply IH.
Qed.

Lemma check_in_field_iff a : CheckBigIntInField Mimc7.Q a = true <-> 0 <= a < q.
Proof.
  unfold CheckBigIntInField. rewrite Q_eq.
  rewrite andb_true_iff, negb_true_iff, Z.ltb_lt, Z.ltb_ge. lia.
Qed.

Lemma check_array_iff arr :
  CheckBigIntArrayInField Mimc7.Q arr = true <-> Forall (fun a => 0 <= a < q) arr.
Proof.
  unfold CheckBigIntArrayInField. rewrite forallb_forall, Forall_forall.
  split; intros H x Hx; apply check_in_field_iff; apply H; exact Hx.
Qed.

(* the key is NOT constrained: any integer (or nil) is accepted *)
Theorem hash_conforms : forall arr key,
  CheckBigIntArrayInField Mimc7.Q arr = true ->
  Mimc7.Hash arr key = Ok (spec_hash arr key).
Proof.
  intros arr key H. unfold Mimc7.Hash, spec_hash. rewrite H. cbn [negb].
  cbv zeta. f_equal. apply fold_left_ext_loc.
  intros r m. rewrite mimc7_conforms_any, Q_eq. reflexivity.
Qed.
Print Assumptions hash_conforms.

Theorem hash_rejects : forall arr key,
  CheckBigIntArrayInField Mimc7.Q arr = false -> Mimc7.Hash arr key = Err.
Proof. intros arr key H. unfold Mimc7.Hash. rewrite H. reflexivity. Qed.

Lemma hash_generic_fold n : 1 <= n -> forall arr r,
  fold_left (fun r m => bind r (fun r => MIMC7HashGeneric r m n)) arr (Ok r)
  = Ok (spec_hash_generic (Z.to_nat n) r arr).
Proof.
  intros Hn. induction arr as [|m arr IH]; intros r; [reflexivity|].
  cbn [fold_left bind]. rewrite mimc7_generic_conforms_any by exact Hn.
  rewrite IH. reflexivity.
Qed.

(* iv is NOT constrained either *)
Theorem hash_generic_conforms : forall iv arr n,
  CheckBigIntArrayInField Mimc7.Q arr = true -> 1 <= n ->
  Mimc7.HashGeneric iv arr n = Ok (spec_hash_generic (Z.to_nat n) iv arr).
Proof.
  intros iv arr n H Hn. unfold Mimc7.HashGeneric. rewrite H. cbn [negb].
  apply hash_generic_fold, Hn.
Qed.
Print Assumptions hash_generic_conforms.

Lemma fold_bind_Panic {A B} (f : A -> B -> res A) : forall l,
  fold_left (fun r m => bind r (fun r => f r m)) l Panic = Panic.
Proof. induction l as [|m l IH]; [reflexivity|]. cbn [fold_left bind]. exact IH. Qed.

(* exact behaviour for a non-positive round count *)
Theorem hash_generic_nonpositive : forall iv arr n, n <= 0 ->
  Mimc7.HashGeneric iv arr n =
  if negb (CheckBigIntArrayInField Mimc7.Q arr) then Err
  else match arr with [] => Ok iv | _ :: _ => Panic end.
Proof.
  intros iv arr n Hn. unfold Mimc7.HashGeneric.
  destruct (negb (CheckBigIntArrayInField Mimc7.Q arr)); [reflexivity|].
  destruct arr as [|m arr]; [reflexivity|].
  cbn [fold_left bind]. rewrite mimc7_generic_panics by exact Hn.
  apply fold_bind_Panic.
Qed.

(* ---------------------------------------------------------- ranges *)

Lemma spec_hash_step_range r m : 0 <= (r + m + spec_MIMC7 m r) mod q < q.
Proof. apply Z.mod_pos_bound, q_pos. Qed.

Lemma fold_range {A} (f : Z -> A -> Z) :
  (forall r m, 0 <= f r m < q) ->
  forall l r, 0 <= r < q -> 0 <= fold_left f l r < q.
Proof.
  intros Hf. induction l as [|m l IH]; intros r Hr; [exact Hr|].
  cbn [fold_left]. apply IH, Hf.
Qed.

Lemma fold_range_ne {A} (f : Z -> A -> Z) :
  (forall r m, 0 <= f r m < q) ->
  forall l r, l <> [] -> 0 <= fold_left f l r < q.
Proof.
  intros Hf l r Hl. destruct l as [|m l]; [congruence|].
  cbn [fold_left]. apply fold_range; [exact Hf|apply Hf].
Qed.

Theorem spec_hash_empty key :
  spec_hash [] key = match key with Some k => k | None => 0 end.
Proof. reflexivity. Qed.

Theorem spec_hash_range arr key : arr <> [] -> 0 <= spec_hash arr key < q.
Proof.
  intros H. unfold spec_hash. apply fold_range_ne; [|exact H].
  intros r m. apply spec_hash_step_range.
Qed.

Theorem spec_hash_range_nokey arr : 0 <= spec_hash arr None < q.
Proof.
  unfold spec_hash. apply fold_range; [|pose proof q_pos; lia].
  intros r m. apply spec_hash_step_range.
Qed.

Theorem spec_hash_generic_empty n iv : spec_hash_generic n iv [] = iv.
Proof. reflexivity. Qed.

Theorem spec_hash_generic_range n iv arr :
  arr <> [] -> 0 <= spec_hash_generic n iv arr < q.
Proof.
  intros H. unfold spec_hash_generic. apply fold_range_ne; [|exact H].
  intros r m. apply spec_mimc7_range.
Qed.

(* model-level statements of the same facts *)
Theorem hash_result_range : forall arr key r,
  Mimc7.Hash arr key = Ok r -> arr <> [] -> 0 <= r < q.
Proof.
  intros arr key r H Hne.
  destruct (CheckBigIntArrayInField Mimc7.Q arr) eqn:E.
  - rewrite hash_conforms in H by exact E. injection H as <-.
    apply spec_hash_range, Hne.
  - rewrite hash_rejects in H by exact E. discriminate.
Qed.

(* an empty array returns the key itself, whatever it is (0 for nil) *)
Theorem hash_empty : forall key,
  Mimc7.Hash [] key = Ok (match key with Some k => k | None => 0 end).
Proof. intros key. reflexivity. Qed.

Theorem hash_generic_result_range : forall iv arr n r,
  1 <= n -> Mimc7.HashGeneric iv arr n = Ok r -> arr <> [] -> 0 <= r < q.
Proof.
  intros iv arr n r Hn H Hne.
  destruct (CheckBigIntArrayInField Mimc7.Q arr) eqn:E.
  - rewrite hash_generic_conforms in H by assumption. injection H as <-.
    apply spec_hash_generic_range, Hne.
  - unfold Mimc7.HashGeneric in H. rewrite E in H. discriminate.
Qed.

Theorem hash_generic_empty : forall iv n, Mimc7.HashGeneric iv [] n = Ok iv.
Proof. intros. reflexivity. Qed.

(* ------------------------------------------------------------------ *)
(** * HashBytes *)

Lemma div31_step n : (1 <= n)%nat ->
  ((n + 30) / 31 = S ((n - 31 + 30) / 31))%nat.
Proof.
  intros Hn. destruct (Nat.le_gt_cases 31 n) as [H|H].
  - replace (n + 30)%nat with ((n - 31 + 30) + 1 * 31)%nat by lia.
    rewrite Nat.div_add by lia. lia.
  - replace (n - 31 + 30)%nat with 30%nat by lia.
    change (30 / 31)%nat with 0%nat.
    assert (E : (n + 30 = 31 * 1 + (n - 1))%nat) by lia.
    symmetry. apply (Nat.div_unique (n + 30) 31 1 (n - 1)); lia.
Qed.

Lemma chunks_fuel_spec : forall fuel b, (length b <= fuel)%nat ->
  chunks_fuel fuel 31 b =
  map (fun i => le_int (firstn 31 (skipn (31 * i) b)))
      (seq 0 ((length b + 30) / 31)).
Proof.
  induction fuel as [|fuel IH]; intros b Hl.
  - destruct b; [reflexivity|cbn in Hl; lia].
  - destruct b as [|b0 b']; [reflexivity|].
    assert (E : chunks_fuel (S fuel) 31 (b0 :: b') =
                SetBigIntFromLEBytes (firstn 31 (b0 :: b'))
                :: chunks_fuel fuel 31 (skipn 31 (b0 :: b'))) by reflexivity.
    rewrite E. clear E.
    assert (Hpos : (1 <= length (b0 :: b'))%nat) by (cbn [length]; lia).
    revert Hl Hpos. generalize (b0 :: b'). intros l Hl Hpos.
    rewrite IH by (rewrite skipn_length; lia).
    rewrite skipn_length.
    rewrite (div31_step (length l)) by exact Hpos.
    cbn [seq map]. rewrite <- seq_shift, map_map.
    f_equal.
    + rewrite SetBigIntFromLEBytes_le_int. reflexivity.
    + apply map_ext. intros i. rewrite skipn_skipn_loc.
      replace (31 + 31 * i)%nat with (31 * S i)%nat by lia. reflexivity.
Qed.

Theorem chunks_spec : forall b, chunks Mimc7.chunkLen b = spec_chunks b.
Proof.
  intros b. rewrite chunkLen_eq. unfold chunks, spec_chunks.
  apply chunks_fuel_spec. lia.
Qed.

(* a chunk of at most 31 bytes is below 2^248 < q *)
Lemma le_int_chunk_bound l : Forall is_byte l -> (length l <= 31)%nat ->
  0 <= le_int l < 256 ^ 31.
Proof.
  intros Hb Hl. rewrite le_int_le_val.
  pose proof (le_val_bound_loc l Hb) as H.
  assert (256 ^ Z.of_nat (length l) <= 256 ^ 31)
    by (apply Z.pow_le_mono_r; lia).
  lia.
Qed.

Theorem spec_chunks_bound b : Forall is_byte b ->
  Forall (fun a => 0 <= a < 2 ^ 248) (spec_chunks b).
Proof.
  intros Hb. unfold spec_chunks. apply Forall_forall. intros a Ha.
  apply in_map_iff in Ha. destruct Ha as [i [<- _]].
  change (2 ^ 248) with (256 ^ 31).
  apply le_int_chunk_bound.
  - apply Forall_firstn_loc, Forall_skipn_loc, Hb.
  - apply firstn_le_length.
Qed.

Theorem spec_chunks_in_field b : Forall is_byte b ->
  Forall (fun a => 0 <= a < q) (spec_chunks b).
Proof.
  intros Hb. eapply Forall_impl; [|apply spec_chunks_bound, Hb].
  cbv beta. intros a Ha. change (2 ^ 248) with (256 ^ 31) in Ha.
  pose proof pow256_31_lt_q. lia.
Qed.

(* HashBytes never fails: the in-field guard of Hash cannot fire *)
Theorem hashbytes_conforms : forall b, Forall is_byte b ->
  Mimc7.HashBytes b = Ok (spec_hashbytes b).
Proof.
  intros b Hb. unfold Mimc7.HashBytes, spec_hashbytes.
  rewrite chunks_spec. apply hash_conforms.
  apply check_array_iff, spec_chunks_in_field, Hb.
Qed.
Print Assumptions hashbytes_conforms.

Theorem spec_hashbytes_range b : 0 <= spec_hashbytes b < q.
Proof. apply spec_hash_range_nokey. Qed.

Theorem hashbytes_result_range : forall b, Forall is_byte b ->
  exists r, Mimc7.HashBytes b = Ok r /\ 0 <= r < q.
Proof.
  intros b Hb. exists (spec_hashbytes b). split.
  - apply hashbytes_conforms, Hb.
  - apply spec_hashbytes_range.
Qed.

Theorem spec_chunks_nil : spec_chunks [] = [].
Proof. reflexivity. Qed.

Theorem spec_chunks_length b : length (spec_chunks b) = ((length b + 30) / 31)%nat.
Proof. unfold spec_chunks. rewrite map_length, seq_length. reflexivity. Qed.

Print Assumptions mimc7_consts_ok.
Print Assumptions mimc7_generic_reduces.
Print Assumptions mimc7_generic_conforms_any.
Print Assumptions mimc7_conforms_any.
Print Assumptions hash_generic_nonpositive.
Print Assumptions hash_result_range.
Print Assumptions hash_generic_result_range.
Print Assumptions hashbytes_result_range.
Print Assumptions spec_mimc7_mod.

(* ------------------------------------------------------------------ *)
(** * Known answers (sanity of the specification itself) *)

(* circomlib's first non-zero round constant, computed by the specification *)
Example spec_c_1 :
  spec_c 1 = 20888961410941983456478427210666206549300505294776164667214940546594746570981.
Proof. vm_compute. reflexivity. Qed.

Lemma Ok_inj {A} (a b : A) : Ok a = Ok b -> a = b.
Proof. intros H. injection H as H. exact H. Qed.

(* the published MiMC7(1, 2) with 91 rounds.  The specification value is
   obtained through the conformance theorem: running the specification
   directly is quadratic in the number of Keccak calls.  (No [injection] /
   [change] on the closed specification term: they would evaluate it.) *)
Example spec_mimc7_1_2 :
  spec_MIMC7 1 2 = 10594780656576967754230020536574539122676596303354946869887184401991294982664.
Proof.
  unfold spec_MIMC7.
  pose proof (mimc7_generic_conforms_any 1 2 91 ltac:(lia)) as H.
  replace (Z.to_nat 91) with spec_nrounds in H by reflexivity.
  assert (E : MIMC7HashGeneric 1 2 91 =
              Ok 10594780656576967754230020536574539122676596303354946869887184401991294982664)
    by (vm_compute; reflexivity).
  rewrite E in H. apply Ok_inj in H. symmetry. exact H.
Qed.

(* Composition, part 3 (MiMC7): the round loop of mimc7/mimc7.go run on limb
   elements (Model/LimbPrograms.v) computes the value-level model
   (Model/Mimc7.v).  The limb routines stay opaque. *)
From Coq Require Import ZArith List Lia Bool.
From Verif Require Import Lib.Params Model.Outcome Model.Utils
  Model.FfLimbs Model.FfConv Model.LimbPrograms
  Proofs.FfWords Proofs.FfEl Proofs.FfArith Proofs.FfOps Proofs.FfCodec Proofs.LimbCompose.
From Verif Require Model.Mimc7.
Import ListNotations.
Local Open Scope Z_scope.

Local Opaque q.
Local Opaque mulGeneric addGeneric subGeneric square FfLimbs.exp inverse
  setBigInt toBigIntRegular setUint64.

Lemma Mimc7_Q_eq : Mimc7.Q = q.
Proof. reflexivity. Qed.

Lemma pow7_l_refines : forall tl t, R tl t -> R (pow7_l tl) (Mimc7.pow7 t).
Proof.
  intros tl t Ht. unfold pow7_l, Mimc7.pow7. cbv zeta. rewrite Mimc7_Q_eq.
  apply R_mul; [ | exact Ht ].
  apply R_mul; [ apply R_square; apply R_square; exact Ht | apply R_square; exact Ht ].
Qed.

Lemma rounds_l_refines : forall ctsl cts, Forall2 Rt ctsl cts ->
  forall first xInl xIn kl k rl r, R xInl xIn -> R kl k -> R rl r ->
  R (rounds_l ctsl first xInl kl rl) (Mimc7.rounds cts first xIn k r).
Proof.
  intros ctsl cts H. induction H as [ | cl c ctsl cts Hc H IH ];
    intros first xInl xIn kl k rl r Hx Hk Hr; cbn [rounds_l Mimc7.rounds].
  - exact Hr.
  - cbv zeta. apply IH; [ exact Hx | exact Hk | ].
    apply pow7_l_refines. rewrite Mimc7_Q_eq.
    destruct first.
    + apply R_add; assumption.
    + apply R_add_t; [ apply R_add; assumption | exact Hc ].
Qed.

Lemma getConstants_l_refines : forall n,
  Forall2 Rt (getConstants_l n) (Mimc7.getConstants n).
Proof.
  intros n. unfold getConstants_l, Mimc7.getConstants.
  constructor; [ exact Rt_zero | apply Forall2_Rt_map ].
Qed.

Theorem MIMC7HashGeneric_l_correct : forall xInBI kBI nRounds,
  MIMC7HashGeneric_l xInBI kBI nRounds = Mimc7.MIMC7HashGeneric xInBI kBI nRounds.
Proof.
  intros xInBI kBI nRounds. unfold MIMC7HashGeneric_l, Mimc7.MIMC7HashGeneric.
  destruct (nRounds <=? 0); [ reflexivity | ]. cbv zeta. f_equal.
  apply R_toBigIntRegular. rewrite !Mimc7_Q_eq.
  apply R_add; [ | apply R_setBigInt ].
  apply rounds_l_refines;
    [ apply getConstants_l_refines | apply R_setBigInt | apply R_setBigInt | exact R_zero ].
Qed.
Print Assumptions MIMC7HashGeneric_l_correct.

Theorem MIMC7Hash_l_correct : forall xInBI kBI,
  MIMC7Hash_l xInBI kBI = Mimc7.MIMC7Hash xInBI kBI.
Proof.
  intros xInBI kBI. unfold MIMC7Hash_l, Mimc7.MIMC7Hash. cbv zeta.
  apply R_toBigIntRegular. rewrite !Mimc7_Q_eq.
  apply R_add; [ | apply R_setBigInt ].
  apply rounds_l_refines;
    [ apply getConstants_l_refines | apply R_setBigInt | apply R_setBigInt | exact R_zero ].
Qed.
Print Assumptions MIMC7Hash_l_correct.

Theorem HashGeneric_l_correct : forall iv arr nRounds,
  HashGeneric_l iv arr nRounds = Mimc7.HashGeneric iv arr nRounds.
Proof.
  intros iv arr nRounds. unfold HashGeneric_l, Mimc7.HashGeneric.
  destruct (negb (CheckBigIntArrayInField Mimc7.Q arr)); [ reflexivity | ].
  generalize (@Ok Z iv). induction arr as [ | m arr IH ]; intros r0; cbn [fold_left].
  - reflexivity.
  - rewrite IH. f_equal. destruct r0; cbn [bind]; try reflexivity.
    apply MIMC7HashGeneric_l_correct.
Qed.
Print Assumptions HashGeneric_l_correct.

Theorem Hash_l_correct : forall arr key, Hash_l arr key = Mimc7.Hash arr key.
Proof.
  intros arr key. unfold Hash_l, Mimc7.Hash.
  destruct (negb (CheckBigIntArrayInField Mimc7.Q arr)); [ reflexivity | ].
  cbv zeta. f_equal.
  generalize (match key with Some k => k | None => 0 end).
  induction arr as [ | m arr IH ]; intros r0; cbn [fold_left].
  - reflexivity.
  - rewrite IH. rewrite MIMC7Hash_l_correct. reflexivity.
Qed.
Print Assumptions Hash_l_correct.
